/* units/vpick.c - ldb_versions_pick_compaction / ldb_versions_compact_range (src/version_set.c):
 * WHICH files of the current version become inputs[0] of a compaction, and in which state that set is
 * handed to ldb_versions_setup_other_inputs (ver.setup continues from there).
 * Properties: C14, C01 (K7: a newer version of a user key never ends up below an older one), C06.
 *
 * The real version_set.c is included unmodified; ldb_compaction_create / ldb_compaction_init /
 * ldb_version_ref run as real code.  ldb_versions_setup_other_inputs, ldb_versions_get_range and
 * ldb_version_get_overlapping_inputs are call-protocol carriers: a ghost state machine follows
 * inputs[0] (empty -> the single picked file -> level-0 overlap closure of the picked file's range);
 * the PRECONDITION of the setup_other_inputs carrier is the obligation
 *   level 0  : inputs[0] is the closure computed by get_overlapping_inputs(current, 0, range(picked file))
 *   level > 0: inputs[0] is exactly the picked file
 * for the size-triggered and the seek-triggered path alike.
 *
 * Units: ver.pick (level of 1..3 files, fixed symbolic comparison result per file), ver.pick.any (level of any
 * length: scan closed by the loop contract in loops/vpick.json, oracle comparator), ver.range (compact_range,
 * 0..3 overlapping files with symbolic sizes).
 * Speed notes: the version set / version objects are statics (constant addresses: the call through icmp.compare
 * resolves to one function) and object_bits is 8 (dfcc's per-object maps have 2^object_bits entries).
 */
#include "verif.h"
int nondet_int(void);
size_t nondet_size(void);

#include "version_set.c"
ldb_versions_t nondet_versions(void); ldb_version_t nondet_version(void); ldb_dbopt_t nondet_dbopt(void);

#define NF 3                      /* bound on the number of files of the level / of the overlapping set */
#define M_PICK 0
#define M_RANGE 1
#define M_SCAN 2                  /* ver.pick.any: pick_compaction with a level of any length (oracle comparator)       */
#define ST_EMPTY 0                /* inputs[0]: freshly initialised                                        */
#define ST_SINGLE 1               /* inputs[0] = { the picked file }                                        */
#define ST_L0_CLOSURE 2           /* inputs[0] = get_overlapping_inputs(current, 0, range(picked file))      */
#define TAG_SMALL 0x5101          /* slice is the smallest key of { picked file } (tag carried in .size)    */
#define TAG_LARGE 0x5102          /* slice is the largest key of { picked file }                             */

ldb_versions_t *g_vs; ldb_version_t *g_cur; ldb_compaction_t *g_c;
static ldb_dbopt_t g_opts;
static ldb_filemeta_t g_f[NF];    /* the files of the level (pick) / the overlapping files (range), in order */
static ldb_filemeta_t g_seekf;    /* the seek-triggered candidate                                            */
void *g_items[NF];                /* backing store of the level's file list / of the temporary set          */
void *g_slot[1];                  /* backing store of inputs[0] in ver.pick                                  */
int g_mode, g_refs0, g_exp_level;
unsigned g_mallocs, g_setup_calls, g_edit_inits, g_range_calls, g_ov_calls, g_resizes, g_swaps, g_tmp_clears;
int g_in0;                        /* state of inputs[0], see ST_*                                           */
const void *g_exp_file;           /* ver.pick: the file that must be picked (computed from the spec)        */
int g_cmp[NF];                    /* comparator model: sign of compare(g_f[i].largest, compact_pointer)     */
ldb_vector_t *g_tmp;              /* ver.range: the function's temporary vector                             */
size_t g_n, g_exp_len;            /* ver.range: size of the overlapping set / of the set that must be used  */
const ldb_ikey_t *g_begin, *g_end;
ldb_edit_t *g_edit_obj;
/* ver.pick.any */
void **g_lvl_items;               /* the level's file list (any length g_n)                                   */
size_t g_calls;                   /* number of comparisons made = index of the next file to be asked         */
int g_any_pos;                    /* the oracle has answered 'after the compact pointer' once               */
size_t g_j;                       /* ghost index into level_ptrs (loop invariant of ldb_compaction_init)      */

/* ---- carriers ----------------------------------------------------------------------------------------- */
/* ver.pick: the range of the picked file (tags the slices) */
void c_pick_get_range(ldb_versions_t *vset, const ldb_vector_t *inputs, ldb_slice_t *smallest, ldb_slice_t *largest)
__CPROVER_requires(vset == g_vs && g_c != NULL && inputs == &g_c->inputs[0] && g_exp_level == 0 && g_range_calls == 0)
__CPROVER_requires(__CPROVER_w_ok(smallest, sizeof(*smallest)) && __CPROVER_w_ok(largest, sizeof(*largest)) && smallest != largest)
/* the range is taken of { picked file } */
__CPROVER_requires(g_in0 == ST_SINGLE && g_c->inputs[0].length == 1 && g_c->inputs[0].items[0] == g_exp_file)
__CPROVER_assigns(*smallest, *largest, g_range_calls)
__CPROVER_ensures(smallest->size == TAG_SMALL && largest->size == TAG_LARGE && g_range_calls == 1)
;
/* ver.pick: level-0 closure: replaces { picked file } by ALL level-0 files overlapping its range */
void c_pick_get_overlapping_inputs(ldb_version_t *ver, int level, const ldb_ikey_t *begin, const ldb_ikey_t *end, ldb_vector_t *inputs)
__CPROVER_requires(ver == g_cur && level == 0 && g_exp_level == 0 && g_c != NULL && inputs == &g_c->inputs[0] && g_ov_calls == 0)
__CPROVER_requires(begin != NULL && end != NULL && begin->size == TAG_SMALL && end->size == TAG_LARGE)
__CPROVER_requires(g_in0 == ST_SINGLE)
__CPROVER_assigns(g_in0, g_ov_calls, g_c->inputs[0].length)
__CPROVER_ensures(g_in0 == ST_L0_CLOSURE && g_ov_calls == 1 && g_c->inputs[0].length >= 1)
;
/* ver.pick: what setup_other_inputs must be handed (K7) */
void c_pick_setup_other_inputs(ldb_versions_t *vset, ldb_compaction_t *c)
__CPROVER_requires(vset == g_vs && g_c != NULL && c == g_c && g_setup_calls == 0)
__CPROVER_requires(g_c->level == g_exp_level)
/* the compaction pins the version it reads from before the inputs are completed */
__CPROVER_requires(g_c->input_version == g_cur && g_cur->refs == g_refs0 + 1)
/* K7: a level-0 compaction takes every level-0 file overlapping the picked one; other levels exactly the picked file */
__CPROVER_requires(g_exp_level != 0 || (g_in0 == ST_L0_CLOSURE && g_c->inputs[0].length >= 1))
__CPROVER_requires(g_exp_level == 0 || (g_in0 == ST_SINGLE && g_c->inputs[0].length == 1 && g_c->inputs[0].items[0] == g_exp_file))
__CPROVER_assigns(g_setup_calls)
__CPROVER_ensures(g_setup_calls == 1)
;
/* ver.range: the overlapping set (g_n files, already in the temporary vector's backing store, see ldb_vector_init) */
void c_range_get_overlapping_inputs(ldb_version_t *ver, int level, const ldb_ikey_t *begin, const ldb_ikey_t *end, ldb_vector_t *inputs)
__CPROVER_requires(ver == g_cur && level == g_exp_level && begin == g_begin && end == g_end)
__CPROVER_requires(g_tmp != NULL && inputs == g_tmp && g_ov_calls == 0)
__CPROVER_requires(g_tmp->items == g_items && g_tmp->length == 0)
__CPROVER_assigns(g_tmp->length, g_ov_calls)
__CPROVER_ensures(g_tmp->length == g_n && g_ov_calls == 1)
;
/* ver.range: what setup_other_inputs must be handed */
void c_range_setup_other_inputs(ldb_versions_t *vset, ldb_compaction_t *c)
__CPROVER_requires(vset == g_vs && g_c != NULL && c == g_c && g_setup_calls == 0)
__CPROVER_requires(g_c->level == g_exp_level)
__CPROVER_requires(g_c->input_version == g_cur && g_cur->refs == g_refs0 + 1)
/* inputs[0] = the overlapping files in level order; level 0: ALL of them (an older overlapping level-0 file left behind
   would stay above the merged output); level > 0: the prefix up to the file at which the running size reaches the limit */
__CPROVER_requires(g_swaps == 1 && g_tmp_clears == 0)
__CPROVER_requires(g_c->inputs[0].items == g_items && g_c->inputs[0].length == g_exp_len)
__CPROVER_assigns(g_setup_calls)
__CPROVER_ensures(g_setup_calls == 1)
;

/* ---- plain models (other translation units) ------------------------------------------------------------ */
void *ldb_malloc(size_t size) {
  ldb_compaction_t *p = malloc(sizeof(ldb_compaction_t));   /* typed object: a byte array of symbolic-looking size is bit-blasted bytewise */
  __CPROVER_assume(p != NULL);
  __CPROVER_assert(size == sizeof(ldb_compaction_t), "the only allocation is the compaction object");
  g_c = p; g_mallocs++;
  return p;
}
void ldb_edit_init(ldb_edit_t *edit) { g_edit_obj = edit; g_edit_inits++; }
void ldb_log(ldb_logger_t *logger, const char *fmt, ...) { }

static int is_tmp(const ldb_vector_t *z) { return g_c == NULL || !__CPROVER_same_object(z, g_c); }

void ldb_vector_init(ldb_vector_t *z) {
  if (g_mode == M_RANGE && is_tmp(z)) {
    /* the temporary set of compact_range: its backing store already holds the overlapping files in level order;
       c_range_get_overlapping_inputs sets the length */
    __CPROVER_assert(g_tmp == NULL, "one temporary vector");
    g_tmp = z; z->items = g_items; z->alloc = NF;
  } else {
    __CPROVER_assert(g_c != NULL && __CPROVER_same_object(z, g_c), "vectors initialised here belong to the new compaction");
    z->items = NULL; z->alloc = 0;
  }
  z->length = 0;
}
void ldb_vector_push(ldb_vector_t *z, const void *x) {
  __CPROVER_assert(g_mode != M_RANGE && g_c != NULL && z == &g_c->inputs[0], "only inputs[0] of the new compaction is filled by hand");
  __CPROVER_assert(g_in0 == ST_EMPTY && z->length == 0, "exactly one file is picked");
  g_slot[0] = (void *)x; z->items = g_slot; z->alloc = 1; z->length = 1;
  g_in0 = ST_SINGLE;
}
void ldb_vector_resize(ldb_vector_t *z, size_t zn) {
  __CPROVER_assert(g_mode == M_RANGE && z == g_tmp && g_swaps == 0, "only the temporary set is truncated, before it is handed over");
  __CPROVER_assert(zn >= 1 && zn <= z->length, "truncation keeps a non-empty prefix");
  z->length = zn; g_resizes++;
}
void ldb_vector_swap(ldb_vector_t *x, ldb_vector_t *y) {
  ldb_vector_t t;
  __CPROVER_assert(g_mode == M_RANGE && g_c != NULL && ((x == &g_c->inputs[0] && y == g_tmp) || (y == &g_c->inputs[0] && x == g_tmp)),
                   "the temporary set is swapped into inputs[0] of the new compaction");
  t = *x; *x = *y; *y = t; g_swaps++;
}
void ldb_vector_clear(ldb_vector_t *z) {
  __CPROVER_assert(g_mode == M_RANGE && z == g_tmp, "only the temporary vector is released");
  z->items = NULL; z->length = 0; z->alloc = 0; g_tmp_clears++;
}

/* comparator model: a fixed symbolic answer per file of the level, whichever way round the two keys are passed */
static int pk_compare(const ldb_comparator_t *cmp, const ldb_slice_t *x, const ldb_slice_t *y) {
  const ldb_slice_t *cp = &g_vs->compact_pointer[g_exp_level];
  const ldb_slice_t *k = (x == cp) ? y : x;
  int r;
  __CPROVER_assert(cmp == &g_vs->icmp, "keys are ordered by the version set's internal key comparator");
  __CPROVER_assert((x == cp) != (y == cp), "a file key is compared with the compact pointer of the compaction's level");
  if (k == &g_f[0].largest) r = g_cmp[0];
  else if (k == &g_f[1].largest) r = g_cmp[1];
  else if (k == &g_f[2].largest) r = g_cmp[2];
  else { __CPROVER_assert(0, "the key compared with the compact pointer is the LARGEST key of a file of the level"); r = nondet_int(); }
  return (x == cp) ? -r : r;
}

/* oracle comparator (ver.pick.any): answers arbitrarily; insists on being asked about the files of the level in order, one
   question per file; the first file it calls 'after the compact pointer' becomes the file that must be picked */
static int pk_oracle(const ldb_comparator_t *cmp, const ldb_slice_t *x, const ldb_slice_t *y) {
  const ldb_slice_t *cp = &g_vs->compact_pointer[g_exp_level];
  const ldb_slice_t *k = (x == cp) ? y : x;
  int r = nondet_int();
  __CPROVER_assume(r > -2147483647 - 1);
  /* input shape: the file metadata objects (arbitrary pointers in this unit) do not lie inside the version set object */
  __CPROVER_assume(g_calls >= g_n || !__CPROVER_same_object(g_lvl_items[g_calls], g_vs));
  __CPROVER_assert(cmp == &g_vs->icmp, "keys are ordered by the version set's internal key comparator");
  __CPROVER_assert((x == cp) != (y == cp), "a file key is compared with the compact pointer of the compaction's level");
  __CPROVER_assert(g_calls < g_n && k == &((ldb_filemeta_t *)g_lvl_items[g_calls])->largest,
                   "the files of the level are examined in order, each once, by their LARGEST key");
  if (r > 0 && !g_any_pos) { g_any_pos = 1; g_exp_file = g_lvl_items[g_calls]; }
  g_calls++;
  return (x == cp) ? -r : r;
}

static void mk_world(int mode) {
  /* static objects (not malloc): their addresses are constants, so the call through vset->icmp.compare resolves to the one
     comparator model instead of a dispatch over every address-taken function of version_set.c */
  static ldb_versions_t vs_obj; static ldb_version_t cur_obj;
  ldb_versions_t *vs = &vs_obj;
  ldb_version_t *cur = &cur_obj;
  vs_obj = nondet_versions(); cur_obj = nondet_version(); g_opts = nondet_dbopt();   /* arbitrary content, with or without dfcc */
  g_vs = vs; g_cur = cur; g_c = NULL; g_tmp = NULL; g_edit_obj = NULL; g_mode = mode;
  vs->current = cur; vs->options = &g_opts; vs->icmp.compare = (mode == M_SCAN) ? pk_oracle : pk_compare; cur->vset = vs;
  g_mallocs = g_setup_calls = g_edit_inits = g_range_calls = g_ov_calls = g_resizes = g_swaps = g_tmp_clears = 0;
  g_in0 = ST_EMPTY; g_calls = 0; g_any_pos = 0; g_n = 0; g_lvl_items = NULL; g_j = 0;
  g_items[0] = &g_f[0]; g_items[1] = &g_f[1]; g_items[2] = &g_f[2];
  __CPROVER_assume(cur->refs >= 1 && cur->refs < 2147483647);
  g_refs0 = cur->refs;
}

/* fields set by ldb_compaction_create/ldb_compaction_init (db_impl's compaction loop starts from these) */
#define FRESH_COMPACTION(c, lvl, j) \
  ((c)->level == (lvl) && (c)->max_output_file_size == (uint64_t)g_opts.max_file_size && (c)->grandparent_index == 0 && \
   (c)->seen_key == 0 && (c)->overlapped_bytes == 0 && (c)->level_ptrs[j] == 0 && \
   (c)->inputs[1].length == 0 && (c)->grandparents.length == 0 && g_edit_inits == 1 && g_edit_obj == &(c)->edit)

/* ======================================================================================================
 * ver.pick
 * ====================================================================================================== */
void h_pick(void) {
  ldb_compaction_t *c;
  int size_trig, seek_trig;
  size_t exp_idx;
  IN_INT(in_size_level); IN_INT(in_seek_level); IN_INT(in_has_seek);
  IN_SIZE(in_n); IN_SIZE(in_cp_size);
  IN_INT(in_cmp0); IN_INT(in_cmp1); IN_INT(in_cmp2);
  IN_SIZE(in_j); IN_SIZE(in_a); IN_SIZE(in_b);
  mk_world(M_PICK);
  ASSUME(in_size_level >= 0 && in_size_level < LDB_NUM_LEVELS - 1);   /* finalize(): the last level is never chosen (ver.finalize) */
  ASSUME(in_seek_level >= 0 && in_seek_level < LDB_NUM_LEVELS);
  ASSUME(in_n >= 1 && in_n <= NF);
  ASSUME(in_cmp0 > -2147483647 - 1 && in_cmp1 > -2147483647 - 1 && in_cmp2 > -2147483647 - 1);
  g_cmp[0] = in_cmp0; g_cmp[1] = in_cmp1; g_cmp[2] = in_cmp2;
  g_cur->compaction_level = in_size_level;
  g_cur->file_to_compact_level = in_seek_level;
  g_cur->file_to_compact = in_has_seek ? &g_seekf : NULL;
  g_cur->files[in_size_level].items = g_items; g_cur->files[in_size_level].length = in_n; g_cur->files[in_size_level].alloc = NF;
  g_vs->compact_pointer[in_size_level].size = in_cp_size;
  /* the specification of the choice */
  size_trig = g_cur->compaction_score >= 1;
  seek_trig = in_has_seek != 0;
  g_exp_level = size_trig ? in_size_level : in_seek_level;
#define AFTER_PTR(i) (in_cp_size == 0 || g_cmp[i] > 0)
  exp_idx = AFTER_PTR(0) ? 0 : (in_n > 1 && AFTER_PTR(1)) ? 1 : (in_n > 2 && AFTER_PTR(2)) ? 2 : 0;
  g_exp_file = size_trig ? (const void *)&g_f[exp_idx] : (const void *)&g_seekf;

  c = ldb_versions_pick_compaction(g_vs);

  CHECK((c == NULL) == (!size_trig && !seek_trig), "pick_compaction: NULL exactly when neither the size score nor a seek-exhausted file asks for a compaction");
  if (c == NULL) {
    CHECK(g_mallocs == 0 && g_cur->refs == g_refs0 && g_setup_calls == 0, "pick_compaction: nothing allocated, pinned or set up when there is nothing to do");
  } else {
    ASSUME(in_j < LDB_NUM_LEVELS);
    CHECK(c == g_c && g_mallocs == 1, "pick_compaction: returns the one compaction object it allocated");
    CHECK(c->level == (size_trig ? in_size_level : in_seek_level), "pick_compaction: size-triggered compaction (current->compaction_level) is preferred over the seek-triggered one (file_to_compact_level)");
    CHECK(FRESH_COMPACTION(c, g_exp_level, in_j), "compaction_create: counters zero, inputs[1]/grandparents empty, edit initialised, output size limit from the options");
    CHECK(c->input_version == g_cur && g_cur->refs == g_refs0 + 1, "pick_compaction: input_version is the current version, referenced exactly once");
    CHECK(g_setup_calls == 1, "pick_compaction: setup_other_inputs called exactly once (under its K7 precondition)");
    CHECK(g_slot[0] == g_exp_file, "pick_compaction: the picked file is the first file of the level whose largest key is after the compact pointer (first file on wrap-around / empty pointer), resp. file_to_compact");
    /* ghost-index form of the same statement: in_a, in_b arbitrary positions of the level */
    CHECK(!(size_trig && in_a < in_n && in_b < in_a && g_slot[0] == (void *)&g_f[in_a]) || (AFTER_PTR(in_a) && !AFTER_PTR(in_b)),
          "pick_compaction: a picked file other than the first is after the compact pointer and every earlier file is not");
    CHECK(!(size_trig && in_a < in_n && g_slot[0] == (void *)&g_f[0]) || AFTER_PTR(0) || !AFTER_PTR(in_a),
          "pick_compaction: the first file is picked only if it is after the compact pointer or no file is (wrap-around)");
    CHECK((g_exp_level == 0) == (g_in0 == ST_L0_CLOSURE) && (g_exp_level == 0) == (g_ov_calls == 1) && g_range_calls == g_ov_calls,
          "pick_compaction: the level-0 overlap closure is computed exactly for level-0 compactions");
  }
  CANARY();
}

/* ======================================================================================================
 * ver.pick.any - the same obligations with a level of ANY length: the compact-pointer scan is closed by a
 * loop contract (loops/vpick.json); the comparator is the oracle above
 * ====================================================================================================== */
void h_pick_any(void) {
  ldb_compaction_t *c;
  int size_trig, seek_trig;
  IN_INT(in_size_level); IN_INT(in_seek_level); IN_INT(in_has_seek);
  IN_SIZE(in_n); IN_SIZE(in_cp_size);
  IN_SIZE(in_j);
  mk_world(M_SCAN);
  ASSUME(in_size_level >= 0 && in_size_level < LDB_NUM_LEVELS - 1);
  ASSUME(in_seek_level >= 0 && in_seek_level < LDB_NUM_LEVELS);
  ASSUME(in_n >= 1 && in_n <= ((size_t)1 << 40));
  ASSUME(in_j < LDB_NUM_LEVELS);
  g_j = in_j; g_n = in_n;
  g_lvl_items = malloc(in_n * sizeof(void *));
  ASSUME(g_lvl_items != NULL);
  g_cur->compaction_level = in_size_level;
  g_cur->file_to_compact_level = in_seek_level;
  g_cur->file_to_compact = in_has_seek ? &g_seekf : NULL;
  g_cur->files[in_size_level].items = g_lvl_items; g_cur->files[in_size_level].length = in_n; g_cur->files[in_size_level].alloc = in_n;
  g_vs->compact_pointer[in_size_level].size = in_cp_size;
  size_trig = g_cur->compaction_score >= 1;
  seek_trig = in_has_seek != 0;
  g_exp_level = size_trig ? in_size_level : in_seek_level;
  /* wrap-around / empty compact pointer: the first file; the oracle replaces it by the first file it calls 'after the pointer' */
  g_exp_file = size_trig ? (const void *)g_lvl_items[0] : (const void *)&g_seekf;

  c = ldb_versions_pick_compaction(g_vs);

  CHECK((c == NULL) == (!size_trig && !seek_trig), "pick_compaction: NULL exactly when neither the size score nor a seek-exhausted file asks for a compaction");
  if (c == NULL) {
    CHECK(g_mallocs == 0 && g_cur->refs == g_refs0 && g_setup_calls == 0, "pick_compaction: nothing allocated, pinned or set up when there is nothing to do");
  } else {
    CHECK(c == g_c && g_mallocs == 1, "pick_compaction: returns the one compaction object it allocated");
    CHECK(c->level == (size_trig ? in_size_level : in_seek_level), "pick_compaction: size-triggered compaction (current->compaction_level) is preferred over the seek-triggered one (file_to_compact_level)");
    CHECK(FRESH_COMPACTION(c, g_exp_level, in_j), "compaction_create: counters zero, inputs[1]/grandparents empty, edit initialised, output size limit from the options");
    CHECK(c->input_version == g_cur && g_cur->refs == g_refs0 + 1, "pick_compaction: input_version is the current version, referenced exactly once");
    CHECK(g_setup_calls == 1, "pick_compaction: setup_other_inputs called exactly once (under its K7 precondition)");
    CHECK(g_slot[0] == g_exp_file, "pick_compaction: the picked file is the first file of the level that the comparator puts after the compact pointer (first file if none / empty pointer), resp. file_to_compact");
    CHECK(!size_trig || in_cp_size == 0 || g_any_pos || g_calls == in_n, "pick_compaction: wrap-around only after EVERY file of the level was compared with the compact pointer");
    CHECK(!(size_trig && in_cp_size == 0) || (g_calls == 0 && g_slot[0] == g_lvl_items[0]), "pick_compaction: empty compact pointer: the first file, no comparison");
    CHECK(size_trig || g_calls == 0, "pick_compaction: a seek-triggered compaction does not scan the level");
    CHECK((g_exp_level == 0) == (g_in0 == ST_L0_CLOSURE) && (g_exp_level == 0) == (g_ov_calls == 1) && g_range_calls == g_ov_calls,
          "pick_compaction: the level-0 overlap closure is computed exactly for level-0 compactions");
  }
  CANARY();
}

/* ======================================================================================================
 * ver.range
 * ====================================================================================================== */
static ldb_ikey_t g_bk, g_ek;
void h_range(void) {
  ldb_compaction_t *c;
  uint64_t limit;
  IN_INT(in_level); IN_INT(in_has_begin); IN_INT(in_has_end);
  IN_SIZE(in_n);
  IN_U64(in_sz0); IN_U64(in_sz1); IN_U64(in_sz2);
  IN_SIZE(in_j);
  mk_world(M_RANGE);
  ASSUME(in_level >= 0 && in_level < LDB_NUM_LEVELS);
  ASSUME(in_n <= NF);
  ASSUME(in_sz0 < ((uint64_t)1 << 62) && in_sz1 < ((uint64_t)1 << 62) && in_sz2 < ((uint64_t)1 << 62));
  g_f[0].file_size = in_sz0; g_f[1].file_size = in_sz1; g_f[2].file_size = in_sz2;
  g_exp_level = in_level; g_n = in_n;
  g_begin = in_has_begin ? &g_bk : NULL; g_end = in_has_end ? &g_ek : NULL;
  /* the specification of the set that is compacted */
  limit = (uint64_t)g_opts.max_file_size;
  g_exp_len = in_n;
  if (in_level > 0) {
    if (in_n >= 1 && in_sz0 >= limit) g_exp_len = 1;
    else if (in_n >= 2 && in_sz0 + in_sz1 >= limit) g_exp_len = 2;
  }

  c = ldb_versions_compact_range(g_vs, in_level, g_begin, g_end);

  CHECK(g_ov_calls == 1, "compact_range: the candidate set is get_overlapping_inputs(current, level, begin, end)");
  CHECK((c == NULL) == (in_n == 0), "compact_range: NULL exactly when no file of the level overlaps the range");
  CHECK(g_tmp_clears == 1 && g_tmp != NULL, "compact_range: the temporary vector is released exactly once");
  if (c == NULL) {
    CHECK(g_mallocs == 0 && g_cur->refs == g_refs0 && g_setup_calls == 0 && g_swaps == 0, "compact_range: nothing allocated, pinned or set up when there is nothing to compact");
  } else {
    ASSUME(in_j < LDB_NUM_LEVELS);
    CHECK(c == g_c && g_mallocs == 1, "compact_range: returns the one compaction object it allocated");
    CHECK(FRESH_COMPACTION(c, in_level, in_j), "compaction_create: level as requested, counters zero, inputs[1]/grandparents empty, edit initialised, output size limit from the options");
    CHECK(c->input_version == g_cur && g_cur->refs == g_refs0 + 1, "compact_range: input_version is the current version, referenced exactly once");
    CHECK(g_swaps == 1 && g_setup_calls == 1, "compact_range: the set is swapped into inputs[0] once and setup_other_inputs called once afterwards");
    CHECK(c->inputs[0].items == g_items && c->inputs[0].length == g_exp_len && g_exp_len >= 1,
          "compact_range: inputs[0] = the overlapping files (level > 0: cut after the file at which the running size reaches max_file_size; level 0: never cut)");
    CHECK(in_level != 0 || (c->inputs[0].length == in_n && g_resizes == 0), "compact_range: a level-0 range compaction keeps EVERY overlapping level-0 file");
    CHECK(in_j >= c->inputs[0].length || c->inputs[0].items[in_j] == (void *)&g_f[in_j], "compact_range: inputs[0] is a prefix of the overlapping set, in level order");
  }
  CANARY();
}
