/* units/env.c - proof units for the POSIX writable file of src/util/env_unix_impl.h
 * and the helpers of src/util/env.c (C02, C03, C12).
 *
 * The real env.c (which #includes env_unix_impl.h) is included unmodified; the
 * system calls write/fsync/fdatasync/close/open/unlink are stubs with ghost
 * state.  Every system call can fail at every invocation; write(2) may be
 * partial and may be interrupted (EINTR) a finite but arbitrary number of times.
 *
 * Ghost view of a writable file: the logical byte stream appended so far is
 *   [ bytes accepted by write(2) : g_written ] ++ [ file->buf[0 .. pos) ]
 * and for one arbitrary index g_j the byte at that position is tracked.
 */
#include "verif.h"
#include <errno.h>
#include <sys/types.h>

int nondet_int(void);
size_t nondet_size(void);
unsigned long nondet_ulong(void);

/* ------------------------------------------------------------------ ghost */
int g_errno;                  /* errno is modelled by this ghost (see __errno_location below) */
int g_fd;                     /* descriptor of the file under test               */
unsigned long g_written;      /* bytes accepted by write(2) on g_fd               */
unsigned long g_synced;       /* g_written at the last successful fsync of g_fd   */
unsigned long g_wfail;        /* failed write(2) calls                            */
unsigned long g_fsync_calls, g_fsync_ok, g_close_calls, g_close_ok;
unsigned long g_dirsync_calls, g_dirsync_ok;
unsigned long g_clock;        /* event counter                                    */
unsigned long g_t_dirsync, g_t_write, g_t_fsync, g_t_close;   /* time of last event */
unsigned long g_eintr_budget; /* EINTR can happen only finitely often             */
unsigned long g_fsync_eintr_budget;
int g_dirfd;                  /* descriptor handed out for the directory          */
unsigned long g_j;            /* arbitrary index into the stream                  */
unsigned char g_stream_byte;  /* stream[g_j] once it has been written             */
unsigned long g_unlink_calls;

int *__errno_location(void) { return &g_errno; }

/* fewer than 2^62 I/O events happen (the event clock never wraps) */
static unsigned long tick(void) { __CPROVER_assume(g_clock < ((unsigned long)1 << 62)); return ++g_clock; }

ssize_t write(int fd, const void *buf, size_t n) {
  size_t k;
  __CPROVER_assert(fd == g_fd, "write(2) goes to the file's descriptor");
  __CPROVER_assert(n > 0 && n <= ((size_t)1 << 30), "write(2) chunk is non-empty and at most 1 GiB (fits the int result)");
  __CPROVER_assert(__CPROVER_r_ok(buf, n), "write(2) source readable");
  if (nondet_int()) {
    if (g_eintr_budget > 0 && nondet_int()) { g_eintr_budget--; g_errno = EINTR; return -1; }
    g_errno = nondet_int();
    __CPROVER_assume(g_errno != EINTR);
    g_wfail++;
    return -1;
  }
  k = nondet_size();
  __CPROVER_assume(k >= 1 && k <= n);   /* partial writes allowed, progress guaranteed */
  if (g_j >= g_written && g_j - g_written < k)
    g_stream_byte = ((const unsigned char *)buf)[g_j - g_written];
  g_written += k;
  g_t_write = tick();
  return (ssize_t)k;
}

static int fsync_model(int fd) {
  if (fd == g_dirfd && fd != g_fd) {
    g_dirsync_calls++;
    if (nondet_int()) { g_errno = nondet_int(); __CPROVER_assume(g_errno != EINTR); return -1; }
    g_dirsync_ok++; g_t_dirsync = tick();
    return 0;
  }
  __CPROVER_assert(fd == g_fd, "fsync goes to the file's descriptor");
  g_fsync_calls++;
  if (nondet_int()) {
    if (g_fsync_eintr_budget > 0 && nondet_int()) { g_fsync_eintr_budget--; g_errno = EINTR; return -1; }
    g_errno = nondet_int(); __CPROVER_assume(g_errno != EINTR && errno != ENOSYS);
    return -1;
  }
  g_fsync_ok++; g_synced = g_written; g_t_fsync = tick();
  return 0;
}
int fsync(int fd) { return fsync_model(fd); }
int fdatasync(int fd) { return fsync_model(fd); }

int close(int fd) {
  if (fd == g_dirfd && fd != g_fd) return 0;
  __CPROVER_assert(fd == g_fd, "close goes to the file's descriptor");
  g_close_calls++;
  g_t_close = tick();
  if (nondet_int()) { g_errno = nondet_int(); return -1; }
  g_close_ok++;
  return 0;
}

int open(const char *name, int flags, ...) {
  if (nondet_int()) { g_errno = nondet_int(); __CPROVER_assume(g_errno != EINTR && errno != EINVAL); return -1; }
  return g_dirfd;
}
int unlink(const char *name) { g_unlink_calls++; return nondet_int() ? -1 : 0; }

#include "util/env.c"

/* ---------------------------------------------------------------- helpers */
#define WF_RI(f) ((f)->fd == g_fd && g_fd >= 0 && g_dirfd >= 0 && (f)->pos <= LDB_WRITE_BUFFER && ((f)->manifest == 0 || (f)->manifest == 1))
#define STREAM_LEN(f) (g_written + (f)->pos)
/* byte g_j of the logical stream (valid when g_j < STREAM_LEN) */
#define STREAM_BYTE(f) (g_j < g_written ? g_stream_byte : (f)->buf[g_j - g_written])

#define GHOST_WRITE g_written, g_wfail, g_clock, g_t_write, g_eintr_budget, g_stream_byte, g_errno
#define GHOST_SYNC g_fsync_eintr_budget, g_synced, g_fsync_calls, g_fsync_ok, g_dirsync_calls, g_dirsync_ok, g_t_dirsync, g_t_fsync
#define GHOST_CLOSE g_close_calls, g_close_ok, g_t_close
/* event times never exceed the clock, the clock stays far from wrapping */
#define CLOCK_RI (g_clock <= ((unsigned long)1 << 62) && g_t_write <= g_clock && g_t_fsync <= g_clock && g_t_dirsync <= g_clock && g_t_close <= g_clock)
#define CLOCK_POST (g_clock >= __CPROVER_old(g_clock) && g_clock <= ((unsigned long)1 << 62) && g_t_write <= g_clock && g_t_fsync <= g_clock && g_t_dirsync <= g_clock && g_t_close <= g_clock)

/* ------------------------------------------------------------- ldb_write */
int64_t c_ldb_write(int fd, const void *src, size_t len)
__CPROVER_requires(fd == g_fd && (len == 0 || __CPROVER_r_ok(src, len)) && len <= ((size_t)1 << 62))
/* offsets stay far below 2^63 (files are smaller than 4 EiB) */
__CPROVER_requires(g_written <= ((unsigned long)1 << 62) + LDB_WRITE_BUFFER && g_j <= ((unsigned long)1 << 62) && CLOCK_RI)
__CPROVER_assigns(GHOST_WRITE)
__CPROVER_ensures(CLOCK_POST)
__CPROVER_ensures(__CPROVER_return_value == -1 || __CPROVER_return_value == (int64_t)len)
/* success: every byte was accepted exactly once, in order */
__CPROVER_ensures(__CPROVER_return_value >= 0 ==> (g_written == __CPROVER_old(g_written) + len && g_wfail == __CPROVER_old(g_wfail)))
/* failure: a prefix was accepted and a write(2) failed */
__CPROVER_ensures(__CPROVER_return_value == -1 ==> (g_written - __CPROVER_old(g_written) < len && g_wfail == __CPROVER_old(g_wfail) + 1))
/* content: the accepted bytes are the source bytes at the same relative position; nothing else in the stream changes */
__CPROVER_ensures((g_j >= __CPROVER_old(g_written) && g_j < g_written) ==> g_stream_byte == ((const unsigned char *)src)[g_j - __CPROVER_old(g_written)])
__CPROVER_ensures((g_j < __CPROVER_old(g_written) || g_j >= g_written) ==> g_stream_byte == __CPROVER_old(g_stream_byte))
;

void h_ldb_write(void) {
  IN_SIZE(in_len);
  unsigned char *src = malloc(in_len);
  __CPROVER_assume(src != NULL);
  g_j = nondet_ulong();
  ldb_write(g_fd, src, in_len);
  CANARY();
}

/* ------------------------------------------------------------ wfile units */
/* the file object is allocated with a symbolic size >= sizeof(ldb_wfile_t): its 64 KiB buffer then lives
   in CBMC's array theory instead of being bit-blasted (65536 cells per symbolic access otherwise) */
static ldb_wfile_t *alloc_wfile(void) {
  size_t n = nondet_size();
  ldb_wfile_t *f;
  __CPROVER_assume(n >= sizeof(ldb_wfile_t));
  f = malloc(n);
  __CPROVER_assume(f != NULL);
  return f;
}
#define OFFS_OK (g_written <= ((unsigned long)1 << 62) && g_j <= ((unsigned long)1 << 62))
/* byte g_j of the logical stream, 0 where the stream is shorter */
#define SBYTE(f) (g_j < g_written ? g_stream_byte : (g_j - g_written < (f)->pos ? (f)->buf[g_j - g_written] : (unsigned char)0))
#define SLEN(f) (g_written + (f)->pos)
#define OLD_SLEN(f) (__CPROVER_old(g_written) + __CPROVER_old((f)->pos))
#define OLD_SBYTE(f) (g_j < __CPROVER_old(g_written) ? __CPROVER_old(g_stream_byte) : \
   (g_j - __CPROVER_old(g_written) < __CPROVER_old((f)->pos) ? __CPROVER_old((f)->buf[(g_j - g_written) % LDB_WRITE_BUFFER]) : (unsigned char)0))
/* flush: hand the user-space buffer to write(2); the buffer is empty afterwards in every case */
int c_wfile_flush(ldb_wfile_t *file)
__CPROVER_requires(__CPROVER_rw_ok(file, sizeof(*file)) && WF_RI(file) && OFFS_OK && CLOCK_RI)
__CPROVER_assigns(file->pos, GHOST_WRITE)
__CPROVER_ensures(file->pos == 0)
__CPROVER_ensures(__CPROVER_return_value == LDB_OK ==> (g_written == OLD_SLEN(file) && g_wfail == __CPROVER_old(g_wfail)))
__CPROVER_ensures(__CPROVER_return_value != LDB_OK ==> (g_wfail == __CPROVER_old(g_wfail) + 1 && g_written - __CPROVER_old(g_written) <= __CPROVER_old(file->pos)))
/* the stream content is unchanged by a successful flush */
__CPROVER_ensures((__CPROVER_return_value == LDB_OK && g_j < g_written) ==> g_stream_byte == OLD_SBYTE(file))
__CPROVER_ensures(CLOCK_POST)
;
void h_wfile_flush(void) {
  ldb_wfile_t *file = alloc_wfile();
  ldb_wfile_flush(file);
  CANARY();
}

/* append: the logical stream grows by exactly the slice; on failure a write(2) failed and the buffer is empty */
int c_wfile_append(ldb_wfile_t *file, const ldb_slice_t *data)
__CPROVER_requires(__CPROVER_rw_ok(file, sizeof(*file)) && WF_RI(file) && OFFS_OK && CLOCK_RI && __CPROVER_r_ok(data, sizeof(*data)))
__CPROVER_requires(data->size <= ((size_t)1 << 61) && (data->size == 0 || __CPROVER_r_ok(data->data, data->size)))
__CPROVER_assigns(file->pos, __CPROVER_object_whole(file->buf), GHOST_WRITE)
__CPROVER_ensures(file->pos <= LDB_WRITE_BUFFER && file->fd == g_fd)
__CPROVER_ensures(__CPROVER_return_value == LDB_OK ==> (SLEN(file) == OLD_SLEN(file) + data->size && g_wfail == __CPROVER_old(g_wfail)))
__CPROVER_ensures(__CPROVER_return_value != LDB_OK ==> (g_wfail == __CPROVER_old(g_wfail) + 1 && file->pos == 0))
__CPROVER_ensures(CLOCK_POST)
;
/* content of the stream after a successful append (separate carrier: the solver needs minutes for it) */
int c_wfile_append_content(ldb_wfile_t *file, const ldb_slice_t *data)
__CPROVER_requires(__CPROVER_rw_ok(file, sizeof(*file)) && WF_RI(file) && OFFS_OK && CLOCK_RI && __CPROVER_r_ok(data, sizeof(*data)))
__CPROVER_requires(data->size <= ((size_t)1 << 61) && (data->size == 0 || __CPROVER_r_ok(data->data, data->size)))
__CPROVER_assigns(file->pos, __CPROVER_object_whole(file->buf), GHOST_WRITE)
/* old bytes stay, the new bytes are the slice's bytes in order */
__CPROVER_ensures((__CPROVER_return_value == LDB_OK && g_j < OLD_SLEN(file)) ==> SBYTE(file) == OLD_SBYTE(file))
__CPROVER_ensures((__CPROVER_return_value == LDB_OK && g_j >= OLD_SLEN(file) && g_j < SLEN(file)) ==> SBYTE(file) == data->data[g_j - OLD_SLEN(file)])
;
void h_wfile_append(void) {
  ldb_wfile_t *file = alloc_wfile();
  ldb_slice_t data;
  IN_SIZE(in_n);
  data.data = malloc(in_n); data.size = in_n; data.alloc = 0;
  __CPROVER_assume(data.data != NULL);
  ldb_wfile_append(file, &data);
  CANARY();
}

/* sync: directory first for a MANIFEST, then flush, then fsync - each only if the previous succeeded */
int c_wfile_sync(ldb_wfile_t *file)
__CPROVER_requires(__CPROVER_rw_ok(file, sizeof(*file)) && WF_RI(file) && OFFS_OK && CLOCK_RI && g_dirfd != g_fd && g_fsync_eintr_budget <= 2)
__CPROVER_requires(!file->manifest || file->dirname != NULL)
__CPROVER_assigns(file->pos, GHOST_WRITE, GHOST_SYNC)
__CPROVER_ensures(__CPROVER_return_value == LDB_OK ==> (file->pos == 0 && g_written == OLD_SLEN(file) && g_synced == g_written &&
   g_fsync_ok == __CPROVER_old(g_fsync_ok) + 1 && g_wfail == __CPROVER_old(g_wfail)))
/* the fsync comes after the last write(2) and, for a MANIFEST, after a successful directory sync */
__CPROVER_ensures(__CPROVER_return_value == LDB_OK ==> (g_t_fsync == g_clock && g_t_write < g_t_fsync))
__CPROVER_ensures((__CPROVER_return_value == LDB_OK && file->manifest) ==> (g_dirsync_calls == __CPROVER_old(g_dirsync_calls) + 1 && g_t_dirsync < g_t_fsync))
__CPROVER_ensures(!file->manifest ==> g_dirsync_calls == __CPROVER_old(g_dirsync_calls))
/* a failed step stops the sequence: no fsync after a failed flush, nothing written after a failed directory sync */
__CPROVER_ensures(g_wfail != __CPROVER_old(g_wfail) ==> (__CPROVER_return_value != LDB_OK && g_fsync_calls == __CPROVER_old(g_fsync_calls)))
__CPROVER_ensures((__CPROVER_return_value != LDB_OK && g_fsync_calls == __CPROVER_old(g_fsync_calls) && g_wfail == __CPROVER_old(g_wfail)) ==>
   (g_written == __CPROVER_old(g_written) && file->pos == __CPROVER_old(file->pos)))
__CPROVER_ensures(__CPROVER_return_value != LDB_OK ==> g_synced == __CPROVER_old(g_synced))
__CPROVER_ensures((__CPROVER_return_value == LDB_OK && g_j < g_written) ==> g_stream_byte == OLD_SBYTE(file))
__CPROVER_ensures(CLOCK_POST)
;
static char g_dirname[8] = "/db";
void h_wfile_sync(void) {
  ldb_wfile_t *file = alloc_wfile();
  file->dirname = g_dirname;
  g_dirname[0] = '/'; g_dirname[1] = 'd'; g_dirname[2] = 'b'; g_dirname[3] = 0;
  ldb_wfile_sync(file);
  CANARY();
}

/* close: flush, then close(2) exactly once whatever happened; first error wins */
int c_wfile_close(ldb_wfile_t *file)
__CPROVER_requires(__CPROVER_rw_ok(file, sizeof(*file)) && WF_RI(file) && OFFS_OK && CLOCK_RI)
__CPROVER_assigns(file->pos, file->fd, GHOST_WRITE, GHOST_CLOSE)
__CPROVER_ensures(file->fd == -1 && file->pos == 0 && g_close_calls == __CPROVER_old(g_close_calls) + 1)
__CPROVER_ensures(__CPROVER_return_value == LDB_OK ==> (g_written == OLD_SLEN(file) && g_wfail == __CPROVER_old(g_wfail) && g_close_ok == __CPROVER_old(g_close_ok) + 1))
__CPROVER_ensures((g_wfail != __CPROVER_old(g_wfail) || g_close_ok == __CPROVER_old(g_close_ok)) ==> __CPROVER_return_value != LDB_OK)
__CPROVER_ensures(g_t_close == g_clock)
__CPROVER_ensures((__CPROVER_return_value == LDB_OK && g_j < g_written) ==> g_stream_byte == OLD_SBYTE(file))
__CPROVER_ensures(CLOCK_POST)
;
void h_wfile_close(void) {
  ldb_wfile_t *file = alloc_wfile();
  ldb_wfile_close(file);
  CANARY();
}

/* ---------------------------------------------------- env.create / env.writefile */
/* ldb_truncfile_create: OK => a fresh file object for the descriptor returned by open(2), empty buffer, manifest flag from
   the base name; failure => nothing is handed out.  (open(2) returns g_dirfd in this model; the units below use it as THE fd.) */
unsigned long g_unlink_total, g_created;
void h_truncfile_create(void) {
  ldb_wfile_t *file = NULL;
  char name[16];
  int is_man = nondet_int() ? 1 : 0, rc;
  /* "/d/MANIFEST-1" or "/d/000005.log" */
  name[0] = '/'; name[1] = 'd'; name[2] = '/';
  if (is_man) { name[3] = 'M'; name[4] = 'A'; name[5] = 'N'; name[6] = 'I'; name[7] = 'F'; name[8] = 'E'; name[9] = 'S'; name[10] = 'T'; name[11] = '-'; name[12] = '1'; name[13] = 0; }
  else { name[3] = '0'; name[4] = '5'; name[5] = '.'; name[6] = 'l'; name[7] = 'o'; name[8] = 'g'; name[9] = 0; }
  g_dirfd = nondet_int(); __CPROVER_assume(g_dirfd >= 0);
  rc = ldb_truncfile_create(name, &file);
  if (rc == LDB_OK) {
    CHECK(file != NULL && file->fd == g_dirfd && file->pos == 0, "create OK: a file object for the opened descriptor with an empty user-space buffer");
    CHECK(file->manifest == is_man, "create: a file whose base name starts with MANIFEST gets directory syncs (manifest flag)");
    CHECK(!is_man || (file->dirname != NULL && file->dirname[0] == '/' && file->dirname[1] == 'd' && file->dirname[2] == 0), "create: a MANIFEST remembers its directory for the directory fsync");
  } else {
    CHECK(file == NULL, "create failed: no file object is handed out");
  }
  CANARY();
}

/* ldb_write_file with the file operations used through their contracts */
int c_truncfile_create(const char *filename, ldb_wfile_t **file)
__CPROVER_requires(__CPROVER_w_ok(file, sizeof(*file)) && g_fd >= 0 && g_dirfd >= 0)
__CPROVER_assigns(*file, g_errno, g_created)
__CPROVER_ensures(__CPROVER_return_value == LDB_OK ==> (__CPROVER_is_fresh(*file, sizeof(ldb_wfile_t)) && (*file)->fd == g_fd && (*file)->pos == 0 && (*file)->dirname == NULL &&
                                                       (*file)->manifest == 0 && g_created == __CPROVER_old(g_created) + 1))
__CPROVER_ensures(__CPROVER_return_value != LDB_OK ==> (*file == __CPROVER_old(*file) && g_created == __CPROVER_old(g_created)))
;
void h_write_file(void) {
  ldb_slice_t data;
  char name[8];
  int sync = nondet_int() ? 1 : 0, rc;
  size_t n = nondet_size();
  unsigned long w0, s0, c0, u0, cr0;
  name[0] = '/'; name[1] = 'd'; name[2] = '/'; name[3] = 't'; name[4] = 0;
  __CPROVER_assume(n <= ((size_t)1 << 40));
  data.data = malloc(n); data.size = n; data.alloc = 0; __CPROVER_assume(data.data != NULL);
  __CPROVER_assume(g_fd >= 0 && g_dirfd >= 0 && g_dirfd != g_fd && g_fsync_eintr_budget <= 2 && OFFS_OK && CLOCK_RI);
  g_written = 0; g_synced = 0;
  w0 = g_wfail; s0 = g_fsync_ok; c0 = g_close_calls; u0 = g_unlink_calls; cr0 = g_created;
  rc = ldb_write_file(name, &data, sync);
  if (rc == LDB_OK) {
    CHECK(g_created == cr0 + 1 && g_written == n && g_wfail == w0, "write_file OK: the file was created and every byte of the data was handed to write(2)");
    CHECK(!sync || (g_fsync_ok == s0 + 1 && g_synced == n && g_t_fsync > g_t_write), "write_file OK with sync: fsynced after the last write");
    CHECK(g_close_calls == c0 + 1 && g_close_ok >= 1 && (!sync || g_t_close > g_t_fsync), "write_file OK: closed (after the sync) and the close succeeded");
    CHECK(g_unlink_calls == u0, "write_file OK: nothing removed");
  } else {
    CHECK(g_created == cr0 || g_unlink_calls == u0 + 1, "write_file failed after creating the file: the partial file is removed");
  }
  CANARY();
}
