/* units/snprt.c - the Snappy MATCHER encode_block of src/util/snappy.c, bounded (C16: a table block written compressed must
 * decode to what was written).  The real snappy.c is included unmodified; nothing is stubbed, nothing replaced by contract.
 *   snp.enc.block.safe : encode_block on a fragment of 17..SNPRT_SAFE_N arbitrary bytes: every read inside [xp, xp+xn), every
 *                        write inside [zp, zp + 32 + xn + xn/6) (what snappy_encode_size promises the caller), hash-table
 *                        indices inside the zeroed part of the table, result pointer inside the output
 *   snp.rt.b           : snappy_decode(snappy_encode(x)) == x through the REAL encoder and the REAL decoder, inputs of
 *                        0..SNPRT_RT_N bytes, arbitrary content (for n >= 17 this includes every input with a repeat, i.e. the
 *                        copy path of the matcher and of the decoder)
 *   snp.rt.rep         : the same for PERIODIC inputs (x[i] == x[i - k], symbolic period k in 1..8): only k free bytes, so the
 *                        matcher must find matches and emit_copy / the decoder's overlapping copy are exercised
 * STATE: all three are DRAFTS (units/snprt.json "draft_units"): block.safe is OK for xn == 17 with 2 of 3 mutants caught, the round trips were never run; see the
 * notes in the json.  Loop ordinals of encode_block (goto-instrument --show-loops; inner back edges come first):
 *   .0 table sizing `while (size < MAX_TABLE_SIZE && size < xn)`   .1 candidate search `for (;;)` (inner loop)
 *   .2 match extension `while (pos < xn && xp[chk] == xp[pos])`    .3 match chain `for (;;)`      .4 outer `for (;;)`
 */
#include "verif.h"
#include "util/coding.h"
#include "util/snappy.h"
#include "util/snappy.c"

#ifndef SNPRT_SAFE_N
#define SNPRT_SAFE_N 17
#endif
#ifndef SNPRT_RT_N
#define SNPRT_RT_N 18
#endif

/* -------------------------------------------------------------- block.safe */
/* Fixed-size backing arrays keep the SAT encoding small (units/snp.c does the same for the decoder).  The input window
 * [in, in+n) ENDS at the end of its array: a read at in+n or beyond is out of bounds (all reads of encode_block are at
 * xp + unsigned, so nothing can be read before xp).  The output window of exactly 32 + n + n/6 bytes ends at the end of its
 * array as well: a write past what snappy_encode_size promises is out of bounds.  The 2048-entry table is zeroed only up to
 * `size` entries: an index >= size reads an uninitialised (= arbitrary) candidate position, and load32(xp + cand) is then
 * out of bounds - so "table index < size" is covered, not only "< 2048". */
#define SNPRT_CAPMAX (32 + SNPRT_SAFE_N + SNPRT_SAFE_N / 6)
void h_block_safe(void) {
  IN_SIZE(in_n); uint8_t inb[SNPRT_SAFE_N], outb[SNPRT_CAPMAX]; uint8_t *in, *out, *e; size_t cap;
  ASSUME(in_n >= 17 && in_n <= SNPRT_SAFE_N);
  cap = 32 + in_n + in_n / 6;
  in = inb + (SNPRT_SAFE_N - in_n); out = outb + (SNPRT_CAPMAX - cap);
  e = encode_block(out, in, in_n);
  CHECK(__CPROVER_same_object(e, out) && e > out && e <= out + cap, "encode_block: returns the end of what it wrote, inside the buffer snappy_encode_size promises");
  CHECK((size_t)(e - out) <= in_n + 3, "encode_block: a fragment grows by at most one literal header per literal run; copies never expand (>= 4 bytes become <= 3)");
  CANARY();
}

/* -------------------------------------------------------------- round trip */
/* caller protocol of table_builder / ldb_read_block: ask for the worst-case size, allocate exactly that, encode; ask the
 * stream for the decoded size, allocate exactly that, decode.  Heap objects of exact size: any over-read / over-write of
 * either function is an out-of-bounds access. */
static void snprt_roundtrip(const uint8_t *in, size_t n) {
  size_t cap = 7, zn = 7, en, j; uint8_t *enc, *dec; int r;
  r = snappy_encode_size(&cap, n);
  CHECK(r == 1 && cap == 32 + n + n / 6, "round trip: snappy_encode_size accepts the input and promises 32 + n + n/6");
  enc = malloc(cap); ASSUME(enc != NULL);
  en = snappy_encode(enc, in, n);
  CHECK(en >= 1 && en <= cap, "round trip: the encoder stays inside the size it asked for");
  r = snappy_decode_size(&zn, enc, en);
  CHECK(r == 1 && zn == n, "round trip: the stream announces the original length");
  dec = malloc(zn); ASSUME(dec != NULL);
  r = snappy_decode(dec, enc, en);
  CHECK(r == 1, "round trip: the decoder accepts what the encoder produced");
  j = nondet_size(); ASSUME(j < n);
  CHECK(dec[j] == in[j], "round trip: decode(encode(x)) == x, byte for byte (arbitrary ghost index)");
}

void h_rt_b(void) {
  IN_SIZE(in_n); uint8_t inb[SNPRT_RT_N + 1];
  ASSUME(in_n <= SNPRT_RT_N);
  snprt_roundtrip(inb + (SNPRT_RT_N + 1 - in_n), in_n);   /* window ends at the end of the array (+1: no zero-size array for N = 0) */
  CANARY();
}

void h_rt_rep(void) {
  IN_SIZE(in_n); IN_SIZE(in_k); uint8_t inb[SNPRT_RT_N + 1]; const uint8_t *in; size_t i;
  ASSUME(in_n >= 17 && in_n <= SNPRT_RT_N && in_k >= 1 && in_k <= 8);
  in = inb + (SNPRT_RT_N + 1 - in_n);
  for (i = 0; i < SNPRT_RT_N; i++)
    if (i >= in_k && i < in_n) ASSUME(in[i] == in[i - in_k]);   /* periodic input: a 4-byte match exists at every position >= k */
  snprt_roundtrip(in, in_n);
  CANARY();
}
