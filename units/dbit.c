/* units/dbit.c - life cycle of a DB iterator's pins (src/db_impl.c)
 *   db.iter : ldb_internal_iterator + cleanup_iter_state / ldb_istate_destroy      (C06 S2, C13 G2/G6, C07)
 *
 * The real db_impl.c is included unmodified.  What is proved, for a user thread that creates an iterator
 * and destroys it arbitrarily later while other threads (writers, the background worker) keep running:
 *   - the sequence number, both memtables and the current version are captured in ONE critical section
 *     (a consistent cut) and each of them is pinned there;
 *   - the children handed to the merging iterator are exactly memtable, immutable memtable (if any) and
 *     the tables of that same version;
 *   - destruction releases exactly those pins, under the mutex, and leaves the mutex free;
 *   - destruction does not collect files unless the collector's precondition holds (contracts/dbgc.h:
 *     c_gc_call).  A user thread cannot establish it: while it holds the mutex the background worker may be
 *     inside ldb_versions_apply with a freshly built table that is in neither pending_outputs nor a version.
 * Thread model: lock invariant; at every lock acquisition the shared ghost state of OTHER threads is arbitrary.
 */
#include "verif.h"
int nondet_int(void);
unsigned nondet_unsigned(void);
uint64_t nondet_u64(void);

#include "db_impl.c"
#include "contracts/dbgc.h"      /* g_db, g_held, g_locks, g_unlocks, g_gc_allowed, g_unprotected_outputs, c_gc_call */

ldb_memtable_t g_mem0, g_imm0, g_mem_other; ldb_version_t g_ver0, g_ver_other;
ldb_versions_t g_versions;
int g_ref_mem0, g_ref_imm0, g_ref_ver0, g_ref_bad;
uint64_t g_seq_at_lock; int g_first_lock_done;
ldb_iter_t *g_it_mem, *g_it_imm, *g_it_merge;
/* child list */
void *g_items[4]; size_t g_pushes;
int g_additers; size_t g_len_at_additers;
size_t g_merge_n; int g_merge_calls;
/* registered cleanup */
ldb_iter_t *g_reg_iter; ldb_cleanup_f g_reg_fn; void *g_reg_a1, *g_reg_a2; int g_regs;
int g_phase;                     /* 0 = creating, 1 = destroying */

void ldb_mutex_lock(ldb_mutex_t *m) {
  __CPROVER_assert(m == &g_db->mutex && !g_held, "lock: the DB mutex, not already held");
  /* other threads ran until now: writes published, and the background worker may be anywhere in a flush */
  if (nondet_int()) { uint64_t adv = nondet_u64(); __CPROVER_assume(adv < (1ull << 40) && g_db->versions->last_sequence < (1ull << 56) - adv); g_db->versions->last_sequence += adv; }
  g_gc_allowed = nondet_int() ? 1 : 0;
  g_unprotected_outputs = nondet_unsigned();
  g_held = 1; g_locks++;
  if (!g_first_lock_done) { g_first_lock_done = 1; g_seq_at_lock = g_db->versions->last_sequence; }
}
void ldb_mutex_unlock(ldb_mutex_t *m) {
  __CPROVER_assert(m == &g_db->mutex && g_held, "unlock: the DB mutex, held");
  g_held = 0; g_unlocks++;
  if (nondet_int()) {
    if (nondet_int()) { g_db->imm = g_db->mem; g_db->mem = &g_mem_other; }
    if (nondet_int()) g_db->imm = NULL;
    if (nondet_int()) g_db->versions->current = &g_ver_other;
  }
}
void ldb_memtable_ref(ldb_memtable_t *mt) { __CPROVER_assert(g_held, "memtables are pinned under the mutex"); if (mt == &g_mem0) g_ref_mem0++; else if (mt == &g_imm0) g_ref_imm0++; else g_ref_bad++; }
void ldb_memtable_unref(ldb_memtable_t *mt) { __CPROVER_assert(g_held, "memtables are unpinned under the mutex"); if (mt == &g_mem0) g_ref_mem0--; else if (mt == &g_imm0) g_ref_imm0--; else g_ref_bad++; }
void ldb_version_ref(ldb_version_t *v) { __CPROVER_assert(g_held, "the version is pinned under the mutex"); if (v == &g_ver0) g_ref_ver0++; else g_ref_bad++; }
void ldb_version_unref(ldb_version_t *v) { __CPROVER_assert(g_held, "the version is unpinned under the mutex (its unref may drop files from the live set)"); if (v == &g_ver0) g_ref_ver0--; else g_ref_bad++; }

void ldb_vector_init(ldb_vector_t *z) { z->items = g_items; z->length = 0; z->alloc = 4; }
void ldb_vector_clear(ldb_vector_t *z) { }
void ldb_vector_push(ldb_vector_t *z, const void *x) { __CPROVER_assert(z->length < 4, "child list: at most memtable, immutable memtable and the version's iterators"); z->items[z->length++] = (void *)x; g_pushes++; }
ldb_iter_t *ldb_memiter_create(const ldb_memtable_t *mt) {
  __CPROVER_assert(g_held, "memtable iterators are created while the memtable cannot be switched away");
  if (mt == &g_mem0) return g_it_mem;
  __CPROVER_assert(mt == &g_imm0, "only the memtables of this critical section are iterated");
  return g_it_imm;
}
void ldb_version_add_iterators(ldb_version_t *v, const ldb_readopt_t *options, ldb_vector_t *iters) {
  __CPROVER_assert(g_held && v == &g_ver0, "table iterators come from the version that is current in this critical section");
  g_additers++; g_len_at_additers = iters->length;
}
ldb_iter_t *ldb_mergeiter_create(const ldb_comparator_t *comparator, ldb_iter_t **children, int n) {
  __CPROVER_assert(comparator == &g_db->internal_comparator, "children are merged in internal-key order");
  __CPROVER_assert((void **)children == g_items, "the merged children are the collected list");
  g_merge_calls++; g_merge_n = (size_t)n;
  return g_it_merge;
}
void ldb_iter_register_cleanup(ldb_iter_t *iter, ldb_cleanup_f func, void *arg1, void *arg2) {
  g_regs++; g_reg_iter = iter; g_reg_fn = func; g_reg_a1 = arg1; g_reg_a2 = arg2;
}
void *ldb_malloc(size_t size) { void *p = malloc(size); __CPROVER_assume(p != NULL); return p; }
void ldb_free(void *ptr) { free(ptr); }

static ldb_readopt_t g_ropt;

void h_iter(void) {
  ldb_t *db = malloc(sizeof(ldb_t));
  ldb_iter_t *it;
  ldb_seqnum_t latest = 0; uint32_t seed = 0, seed0;
  int had_imm = nondet_int() ? 1 : 0;
  __CPROVER_assume(db != NULL);
  g_db = db; db->versions = &g_versions; g_versions.current = &g_ver0;
  g_versions.last_sequence = nondet_u64(); __CPROVER_assume(g_versions.last_sequence < (1ull << 55));
  db->mem = &g_mem0; db->imm = had_imm ? &g_imm0 : NULL;
  g_it_mem = malloc(1); g_it_imm = malloc(1); g_it_merge = malloc(1);
  __CPROVER_assume(g_it_mem && g_it_imm && g_it_merge);
  g_held = 0; g_locks = g_unlocks = 0; g_first_lock_done = 0; g_gc_calls = 0;
  g_ref_mem0 = g_ref_imm0 = g_ref_ver0 = g_ref_bad = 0;
  g_pushes = 0; g_additers = 0; g_merge_calls = 0; g_regs = 0; g_reg_fn = NULL; g_phase = 0;
  seed0 = db->seed;

  it = ldb_internal_iterator(db, &g_ropt, &latest, &seed);

  CHECK(!g_held && g_locks == 1 && g_unlocks == 1, "iterator: everything is captured in ONE critical section, mutex released afterwards");
  CHECK(latest == g_seq_at_lock, "iterator: its sequence is last_sequence as read in the same critical section as the memtables and the version (consistent cut)");
  CHECK(g_ref_mem0 == 1 && g_ref_imm0 == had_imm && g_ref_ver0 == 1 && g_ref_bad == 0, "iterator: memtable, immutable memtable (if any) and current version are each pinned exactly once");
  CHECK(g_additers == 1 && g_len_at_additers == (size_t)(1 + had_imm) && g_items[0] == g_it_mem && (!had_imm || g_items[1] == g_it_imm),
        "iterator: children = memtable, then immutable memtable, then that version's tables (newest source first)");
  CHECK(g_merge_calls == 1 && g_merge_n == g_pushes && it == g_it_merge, "iterator: the merge covers every collected child");
  CHECK(g_regs == 1 && g_reg_iter == it && g_reg_fn == cleanup_iter_state && g_reg_a1 != NULL, "iterator: the pins are released by a cleanup registered on the returned iterator");
  CHECK(seed == (uint32_t)(seed0 + 1), "iterator: sampling seed advanced under the mutex");

  /* ... arbitrarily later (other threads switched memtables, installed versions, are in the middle of a flush) the iterator is destroyed */
  g_phase = 1;
  cleanup_iter_state(g_reg_a1, g_reg_a2);

  CHECK(!g_held && g_locks == g_unlocks, "destroy: the mutex is free afterwards, lock/unlock balanced");
  CHECK(g_ref_mem0 == 0 && g_ref_imm0 == 0 && g_ref_ver0 == 0 && g_ref_bad == 0, "destroy: exactly the pins taken at creation are released (the objects captured then, not whatever is current now)");
  CANARY();
}
