/* units/vapply.c - ldb_versions_apply (src/version_set.c): MANIFEST write protocol
 * Properties: C02 (O5, O6), C05 (R5), C12 (E4), C13, C17.
 *
 * The real version_set.c is included unmodified.  The MANIFEST log writer, the
 * descriptor file, CURRENT installation and file removal are ghost models in
 * which every call can fail; the version builder / finalize / snapshot writer
 * are used through frame contracts (they do not touch the counters or the
 * descriptor state) - their functional specs belong to ver.builder/ver.snapshot.
 */
#include "verif.h"

int nondet_int(void);
uint64_t nondet_u64(void);

#include "version_set.c"

/* ------------------------------------------------------------------ ghost */
ldb_versions_t *g_vs;
ldb_mutex_t g_mu;
int g_held; unsigned g_locks, g_unlocks;
unsigned long g_clock;
static unsigned long tick(void) { __CPROVER_assume(g_clock < (1ul << 40)); return ++g_clock; }
/* MANIFEST I/O */
struct ldb_wfile_s { int dummy; };
ldb_wfile_t g_newfile, g_oldfile; ldb_writer_t g_neww, g_oldw;
int g_create_calls, g_create_ok, g_wcreate, g_snapshot_calls, g_snapshot_ok;
int g_rec_appends, g_rec_ok, g_syncs, g_sync_ok, g_setcur_calls, g_setcur_ok;
unsigned long g_t_create, g_t_snapshot, g_t_append, g_t_sync, g_t_setcur, g_t_install, g_t_unlock, g_t_lock;
uint64_t g_setcur_number, g_desc_number;
int g_installed, g_ver_destroyed, g_wdestroy, g_fdestroy, g_removes;
ldb_version_t *g_newver;
int g_export_calls;
/* the edit as it was when it was exported into the MANIFEST record */
int g_x_has_log, g_x_has_prev, g_x_has_next, g_x_has_seq; uint64_t g_x_log, g_x_prev, g_x_next, g_x_seq;

/* ---------------------------------------------------------- thread model */
void ldb_mutex_lock(ldb_mutex_t *m) { __CPROVER_assert(m == &g_mu && !g_held, "lock: the DB mutex, not held"); g_held = 1; g_locks++; g_t_lock = tick(); }
void ldb_mutex_unlock(ldb_mutex_t *m) { __CPROVER_assert(m == &g_mu && g_held, "unlock: the DB mutex, held"); g_held = 0; g_unlocks++; g_t_unlock = tick(); }

/* ------------------------------------------------------------- env models */
int ldb_desc_filename(char *buf, size_t size, const char *dbname, uint64_t num) { buf[0] = 'M'; buf[1] = 0; g_desc_number = num; return 1; }
int ldb_truncfile_create(const char *filename, ldb_wfile_t **file) {
  int rc = nondet_int();
  g_create_calls++;
  if (rc != LDB_OK) return rc;
  g_create_ok++; g_t_create = tick(); *file = &g_newfile;
  return LDB_OK;
}
ldb_writer_t *ldb_writer_create(ldb_wfile_t *file, uint64_t length) {
  __CPROVER_assert(file == &g_newfile && length == 0, "a new MANIFEST starts empty");
  g_wcreate++; return &g_neww;
}
void ldb_writer_destroy(ldb_writer_t *lw) { __CPROVER_assert(lw == &g_neww, "only a MANIFEST writer created by this call is torn down (never NULL, never the existing one)"); g_wdestroy++; }
void ldb_wfile_destroy(ldb_wfile_t *f) { __CPROVER_assert(f == &g_newfile, "only a MANIFEST file created by this call is torn down (never NULL: ldb_wfile_destroy dereferences it)"); g_fdestroy++; }
int ldb_remove_file(const char *filename) { g_removes++; return nondet_int(); }
void ldb_log(ldb_logger_t *logger, const char *fmt, ...) { }
const char *ldb_strerror(int code) { return "err"; }
void ldb_buffer_init(ldb_buffer_t *z) { z->data = NULL; z->size = 0; z->alloc = 0; }
void ldb_buffer_clear(ldb_buffer_t *z) { }

void ldb_edit_set_log_number(ldb_edit_t *edit, uint64_t num) { edit->has_log_number = 1; edit->log_number = num; }
void ldb_edit_set_prev_log_number(ldb_edit_t *edit, uint64_t num) { edit->has_prev_log_number = 1; edit->prev_log_number = num; }
void ldb_edit_set_next_file(ldb_edit_t *edit, uint64_t num) { edit->has_next_file_number = 1; edit->next_file_number = num; }
void ldb_edit_set_last_sequence(ldb_edit_t *edit, ldb_seqnum_t seq) { edit->has_last_sequence = 1; edit->last_sequence = seq; }
void ldb_edit_export(ldb_buffer_t *z, const ldb_edit_t *edit) {
  g_export_calls++;
  g_x_has_log = edit->has_log_number; g_x_log = edit->log_number;
  g_x_has_prev = edit->has_prev_log_number; g_x_prev = edit->prev_log_number;
  g_x_has_next = edit->has_next_file_number; g_x_next = edit->next_file_number;
  g_x_has_seq = edit->has_last_sequence; g_x_seq = edit->last_sequence;
}

int ldb_writer_add_record(ldb_writer_t *lw, const ldb_slice_t *slice) {
  int rc = nondet_int();
  __CPROVER_assert(lw == g_vs->descriptor_log, "the edit is appended to the current MANIFEST");
  __CPROVER_assert(!g_held, "the MANIFEST write runs with the mutex released");
  __CPROVER_assert(g_export_calls == 1 && g_rec_appends == 0, "exactly one MANIFEST record per applied edit");
  g_rec_appends++;
  if (rc == LDB_OK) { g_rec_ok = 1; g_t_append = tick(); }
  return rc;
}
int ldb_wfile_sync(ldb_wfile_t *file) {
  int rc = nondet_int();
  __CPROVER_assert(file == g_vs->descriptor_file, "fsync of the current MANIFEST file");
  __CPROVER_assert(g_rec_ok, "MANIFEST is synced after the record was appended successfully");
  g_syncs++;
  if (rc == LDB_OK) { g_sync_ok = 1; g_t_sync = tick(); }
  return rc;
}
int ldb_set_current_file(const char *dbname, uint64_t desc_number) {
  int rc = nondet_int();
  __CPROVER_assert(g_create_ok == 1 && g_snapshot_ok == 1, "CURRENT is switched only to a MANIFEST created by this call whose snapshot was written");
  __CPROVER_assert(g_rec_ok && g_sync_ok && g_t_sync > g_t_append, "CURRENT is switched only after the new MANIFEST is complete and fsynced");
  __CPROVER_assert(desc_number == g_vs->manifest_file_number && desc_number == g_desc_number, "CURRENT names the MANIFEST that was just written");
  g_setcur_calls++; g_setcur_number = desc_number;
  if (rc == LDB_OK) { g_setcur_ok = 1; g_t_setcur = tick(); }
  return rc;
}

/* ------------------------------------------- frame contracts of the builder */
ldb_version_t g_version_obj;
ldb_version_t *c_version_create(ldb_versions_t *vset)
__CPROVER_assigns()
__CPROVER_ensures(__CPROVER_return_value == &g_version_obj)
;
void c_builder_init(builder_t *b, ldb_versions_t *vset, ldb_version_t *base) __CPROVER_requires(1) __CPROVER_assigns(*b) __CPROVER_ensures(1);
void c_builder_apply(builder_t *b, const ldb_edit_t *edit) __CPROVER_requires(1) __CPROVER_assigns(*b) __CPROVER_ensures(1);
void c_builder_save_to(builder_t *b, ldb_version_t *v) __CPROVER_requires(1) __CPROVER_assigns() __CPROVER_ensures(1);
void c_builder_clear(builder_t *b) __CPROVER_requires(1) __CPROVER_assigns(*b) __CPROVER_ensures(1);
void c_versions_finalize(ldb_versions_t *vset, ldb_version_t *v) __CPROVER_requires(1) __CPROVER_assigns() __CPROVER_ensures(1);
int c_versions_write_snapshot(ldb_versions_t *vset, ldb_writer_t *log)
__CPROVER_requires(log == &g_neww && g_create_ok == 1)
__CPROVER_assigns(g_snapshot_calls, g_snapshot_ok)
__CPROVER_ensures(g_snapshot_calls == __CPROVER_old(g_snapshot_calls) + 1)
__CPROVER_ensures(g_snapshot_ok == (__CPROVER_return_value == LDB_OK ? 1 : 0))
;
void c_versions_append_version(ldb_versions_t *vset, ldb_version_t *v)
__CPROVER_requires(g_held && v == &g_version_obj)
/* O5: the version becomes current only after its MANIFEST record is durable (and CURRENT points at a new MANIFEST) */
__CPROVER_requires(g_rec_ok && g_sync_ok && (g_create_calls == 0 || g_setcur_ok))
__CPROVER_assigns(vset->current, g_installed)
__CPROVER_ensures(g_installed == 1 && vset->current == v)
;
void c_version_destroy(ldb_version_t *v)
__CPROVER_requires(v == &g_version_obj)
__CPROVER_assigns(g_ver_destroyed)
__CPROVER_ensures(g_ver_destroyed == 1)
;

static char g_dbname[4];
static ldb_dbopt_t g_opts;

void h_apply(void) {
  ldb_versions_t *vs = malloc(sizeof(*vs));
  ldb_edit_t *edit = malloc(sizeof(*edit));
  int fresh = nondet_int() ? 1 : 0;   /* first apply after open: no MANIFEST yet */
  uint64_t log0, prev0, next0, seq0, mfn0;
  int e_has_log, e_has_prev; uint64_t e_log, e_prev;
  ldb_version_t *cur0;
  int rc;
  __CPROVER_assume(vs != NULL && edit != NULL);
  g_vs = vs;
  g_dbname[0] = 'd'; g_dbname[1] = 0; vs->dbname = g_dbname; vs->options = &g_opts;
  if (fresh) { vs->descriptor_log = NULL; vs->descriptor_file = NULL; }
  else { vs->descriptor_log = &g_oldw; vs->descriptor_file = &g_oldfile; }
  __CPROVER_assume(edit->has_log_number == 0 || edit->has_log_number == 1);
  __CPROVER_assume(edit->has_prev_log_number == 0 || edit->has_prev_log_number == 1);
  g_held = 1; g_locks = 1; g_unlocks = 0; g_clock = 0;
  g_create_calls = g_create_ok = g_wcreate = g_snapshot_calls = g_snapshot_ok = 0;
  g_rec_appends = g_rec_ok = g_syncs = g_sync_ok = g_setcur_calls = g_setcur_ok = 0;
  g_installed = g_ver_destroyed = g_wdestroy = g_fdestroy = g_removes = g_export_calls = 0;
  g_t_create = g_t_snapshot = g_t_append = g_t_sync = g_t_setcur = g_t_install = g_t_unlock = g_t_lock = 0;
  log0 = vs->log_number; prev0 = vs->prev_log_number; next0 = vs->next_file_number; seq0 = vs->last_sequence; mfn0 = vs->manifest_file_number;
  e_has_log = edit->has_log_number; e_has_prev = edit->has_prev_log_number; e_log = edit->log_number; e_prev = edit->prev_log_number;
  cur0 = vs->current;

  rc = ldb_versions_apply(vs, edit, &g_mu);

  CHECK(g_held && g_locks == g_unlocks + 1 && g_unlocks == 1, "apply: releases the mutex exactly once (around the I/O) and returns with it held");
  /* what was made durable */
  CHECK(g_export_calls <= 1 && (g_rec_appends == 0 || g_export_calls == 1), "apply: the record appended is the exported edit");
  if (g_export_calls) {
    CHECK(g_x_has_next && g_x_next == next0, "MANIFEST record carries next_file_number (recovery never reuses a file number)");
    CHECK(g_x_has_seq && g_x_seq == seq0, "MANIFEST record carries last_sequence");
    CHECK(g_x_has_log && g_x_log == (e_has_log ? e_log : log0), "MANIFEST record carries the edit's log number, or the current one if the edit has none");
    CHECK(g_x_has_prev && g_x_prev == (e_has_prev ? e_prev : prev0), "MANIFEST record carries prev_log_number likewise");
  }
  if (rc == LDB_OK) {
    CHECK(g_installed == 1 && vs->current == &g_version_obj && !g_ver_destroyed, "OK: the new version is installed");
    CHECK(g_rec_ok && g_sync_ok && g_t_append < g_t_sync, "OK: the edit was appended to the MANIFEST and fsynced, in that order");
    CHECK(vs->log_number == g_x_log && vs->prev_log_number == g_x_prev, "OK: log_number / prev_log_number in memory are exactly what was made durable");
    CHECK(!fresh || (g_create_ok == 1 && g_snapshot_ok == 1 && g_setcur_ok && g_setcur_number == mfn0 && g_t_create < g_t_append && g_t_sync < g_t_setcur),
          "OK on a fresh MANIFEST: created, snapshot written, edit appended, fsynced, and only then CURRENT switched to it");
    CHECK(fresh || (g_create_calls == 0 && g_setcur_calls == 0), "existing MANIFEST: no new file, CURRENT untouched");
    CHECK(g_removes == 0 && g_wdestroy == 0 && g_fdestroy == 0, "OK: nothing is torn down or removed");
  } else {
    CHECK(!g_installed && vs->current == cur0 && g_ver_destroyed == 1, "failure: the version is not installed (and is released)");
    CHECK(vs->log_number == log0 && vs->prev_log_number == prev0, "failure: log numbers unchanged");
    if (g_create_ok) CHECK(vs->descriptor_log == NULL && vs->descriptor_file == NULL && g_wdestroy == 1 && g_fdestroy == 1 && g_removes == 1,
                           "failure with a MANIFEST created by this call: it is closed, forgotten and removed (CURRENT never pointed at it durably)");
    else CHECK(g_wdestroy == 0 && g_fdestroy == 0 && (fresh || g_removes == 0), "failure without a MANIFEST created by this call: nothing is torn down, an existing MANIFEST is never removed");
  }
  CHECK(vs->next_file_number == next0 && vs->last_sequence == seq0 && vs->manifest_file_number == mfn0, "apply never changes the allocator / sequence / manifest number");
  CANARY();
}
