/* units/dbitu.c - UNBOUNDED twins of the it.db_* units: the two scan loops of src/db_iter.c (C07, C06, C01, C11, C18)
 *
 * The real db_iter.c is included unmodified (dbformat.c, buffer.c linked unmodified).  The internal iterator is ONE ghost
 * cursor over an abstract sorted sequence of internal keys with an ARBITRARY (symbolic, up to 2^40) number of entries:
 * only the entry under the cursor exists (GK / GV); every move draws a new arbitrary entry that respects the internal-key
 * order relative to the entry left (next: larger user key, or same user key and smaller sequence; prev: the reverse).
 * The loops are closed by loop contracts (loops/dbitu.json: invariant + decreases = remaining entries).
 *
 * SPECIFICATION (declarative, kept by the cursor stubs as ghost state SP, not a copy of the code):
 *   an entry is VISIBLE iff its key parses (9 bytes here, type byte 0/1) and its sequence is <= the snapshot S_.
 *   forward : SP.lv/SP.lvuk = user key of the LAST visible entry the scan has left.  Because the sequence is sorted, an
 *             entry is the newest visible version of its user key iff SP.lvuk differs from its user key.  The scan must stop
 *             on (and must never leave) the first entry that is visible, a VALUE, not hidden by the caller's skip key and the
 *             newest visible version of its user key (FWD_YIELD).  A visible DELETION hides the older versions by the same rule.
 *   backward: SP.lv* = the last visible entry the scan has left = (so far) the newest visible version of its user key.  The
 *             scan must stop on (never leave) a visible entry of a smaller user key once that version is a VALUE, and then
 *             saved_key / saved_value are exactly that version; a tombstone means: keep going.
 *   a key that does not parse (shorter than 8 bytes, or type byte > 1) latches status CORRUPTION, is never yielded, and
 *   nothing is read out of bounds.
 * User keys are compared ONLY through the user comparator, which ignores the top bit of the key byte (two spellings of one key).
 *
 * MODEL RESTRICTION: user keys are 1 byte, values 1 byte, saved_key / saved_value have capacity 16 (no reallocation; the
 * allocator stubs assert that they are unreachable).  Number of entries, sequence numbers (56 bit), snapshot: unrestricted.
 */
#include "verif.h"
#include "util/buffer.h"
#include "util/comparator.h"
#include "util/types.h"
#include "util/status.h"
#include "util/random.h"
#include "util/internal.h"
#include "table/iterator.h"
#include "dbformat.h"

long nondet_long(void);

#define UKID(b) ((int)((b) & 0x7f))

/* ---------------------------------------------------------------- the ghost child */
/* storage of the internal key under the cursor: user key byte | LE64(seq << 8 | type) (x86-64: little endian) */
struct __attribute__((packed)) gkey { uint8_t kb; uint64_t tag; uint8_t pad[7]; };
struct gkey GK;
uint8_t GV;                                   /* the value under the cursor */
struct gcur {
  long pos;                                   /* valid iff 0 <= pos < GLEN */
  unsigned long ksize;                        /* size of the key under the cursor: 9, or < 8 (truncated = corrupt) */
  int status;
  unsigned n_next, n_prev;
} G;
struct gcnt { unsigned n_first, n_last, n_seek; } GC0;   /* never written inside a scan loop (not in any loop assigns clause) */
long GLEN;                                    /* number of entries of the sequence (constant) */
unsigned long S_;                             /* the snapshot sequence */
struct gspec0 {                               /* constants of one run: in NO loop assigns clause */
  int sk0, skuk0;                             /* forward: caller's skip key */
  long p0;                                    /* forward: first position the scan under test looks at */
  long tpos;                                  /* an ARBITRARY tracked position */
  int ceilx;                                  /* backward: every entry of the scanned range has a user key < ceilx (128: no bound) */
} SP0;
struct gspec {
  int lv, lvuk, lvtyp; uint8_t lvval;         /* last visible entry left by the scan */
  int badseen;                                /* an unparsable key was left by the scan */
  int tvis, tuk, ttyp;                        /* what was at the tracked position */
} SP;
ldb_iter_t CUR_IT;
int g_switching;                              /* inside the forward->reverse switch loop of ldb_dbiter_prev */
const int *g_dirp;                            /* -> g_it.direction (enum, int-sized) */
int g_sampled;

#define CUR_VALID (G.pos >= 0 && G.pos < GLEN)
#define CUR_UK UKID(GK.kb)
#define CUR_SEQ (GK.tag >> 8)
#define CUR_TYP ((int)(GK.tag & 0xff))
#define CUR_PARSES (G.ksize == 9 && CUR_TYP <= 1)
#define CUR_VIS (CUR_PARSES && CUR_SEQ <= S_)
/* forward: the entry under the cursor is an entry of the snapshot map that the scan has to yield */
#define FWD_YIELD (CUR_VIS && CUR_TYP == LDB_TYPE_VALUE && !(SP0.sk0 && CUR_UK <= SP0.skuk0) && !(SP.lv && SP.lvuk == CUR_UK))
/* backward: the entry under the cursor belongs to an earlier user key and the newest visible version seen is a value */
#define REV_STOP (CUR_VIS && SP.lv && SP.lvtyp == LDB_TYPE_VALUE && CUR_UK < SP.lvuk)

static void cur_draw(int dir) {
  uint8_t kb = nondet_u8(); uint64_t tag = nondet_u64(); unsigned long ks = nondet_size();
  int ouk = CUR_UK; uint64_t oseq = CUR_SEQ;
  __CPROVER_assume(ks == 9 || ks < 8);
  if (dir > 0) __CPROVER_assume(UKID(kb) > ouk || (UKID(kb) == ouk && (tag >> 8) < oseq));
  if (dir < 0) __CPROVER_assume(UKID(kb) < ouk || (UKID(kb) == ouk && (tag >> 8) > oseq));
  /* A key shorter than 8 bytes never reaches the switch loop of ldb_dbiter_prev unparsed in a healthy stack (block layer
     rejects it); with one, that loop hands the comparator a slice of size-8: known finding, unit it.db_corrupt_prev. */
  if (g_switching) __CPROVER_assume(ks == 9);
  GK.kb = kb; GK.tag = tag; G.ksize = ks; GV = nondet_u8();
  /* precondition of a forward scan with a skip key: no VISIBLE entry of the scanned range sorts before the skip key
     (ldb_dbiter_next forward: sortedness; reverse switch: representation invariant (2) of db_iter.c) */
  if (dir >= 0) __CPROVER_assume(!(SP0.sk0 && CUR_VIS && CUR_UK < SP0.skuk0));
}
static void spec_leave(void) {
  if (!CUR_PARSES) SP.badseen = 1;
  if (G.pos == SP0.tpos) { SP.tvis = CUR_VIS; SP.tuk = CUR_UK; SP.ttyp = CUR_TYP; }
  if (CUR_VIS) { SP.lv = 1; SP.lvuk = CUR_UK; SP.lvtyp = CUR_TYP; SP.lvval = GV; }
}

static void cur_clear(void *p) { (void)p; }
static int cur_valid(const void *p) {
  __CPROVER_assert(p == (const void *)&G, "child op: receiver is the internal iterator");
  return CUR_VALID;
}
static void cur_first(void *p) { (void)p; GC0.n_first++; G.pos = 0; if (CUR_VALID) cur_draw(0); }
static void cur_last(void *p) { (void)p; GC0.n_last++; G.pos = GLEN - 1; if (CUR_VALID) cur_draw(0); }
static void cur_seek(void *p, const ldb_slice_t *t) { (void)p; (void)t; GC0.n_seek++; G.pos = nondet_long(); __CPROVER_assume(G.pos >= 0 && G.pos <= GLEN); if (CUR_VALID) cur_draw(0); }
static void cur_next(void *p) {
  __CPROVER_assert(p == (const void *)&G && CUR_VALID, "child next: REQUIRES valid()");
  if (G.pos >= SP0.p0) {
    __CPROVER_assert(!FWD_YIELD, "forward scan: never steps over an entry of the snapshot map (visible VALUE, newest visible version of its user key, not hidden by the skip key)");
    spec_leave();
  }
  G.pos++; G.n_next++;
  if (CUR_VALID) cur_draw(1);
}
static void cur_prev(void *p) {
  __CPROVER_assert(p == (const void *)&G && CUR_VALID, "child prev: REQUIRES valid()");
  g_switching = *g_dirp == 0 /* LDB_FORWARD */;
  if (g_switching) {
    __CPROVER_assert(CUR_UK >= SP0.ceilx, "prev, direction switch: only entries of key() (or later ones) are stepped over, the child stops on the first entry of a smaller user key");
  } else {
    __CPROVER_assert(!REV_STOP, "backward scan: never steps into an earlier user key once the newest visible version found is a VALUE");
    spec_leave();
  }
  G.pos--; G.n_prev++;
  if (CUR_VALID) cur_draw(-1);
}
static ldb_slice_t cur_key(const void *p) {
  ldb_slice_t k;
  __CPROVER_assert(p == (const void *)&G && CUR_VALID, "child key: REQUIRES valid()");
  k.data = (uint8_t *)&GK; k.size = G.ksize; k.alloc = 0;
  return k;
}
static ldb_slice_t cur_value(const void *p) {
  ldb_slice_t v;
  __CPROVER_assert(p == (const void *)&G && CUR_VALID, "child value: REQUIRES valid()");
  v.data = &GV; v.size = 1; v.alloc = 0;
  return v;
}
static int cur_status(const void *p) { (void)p; return G.status; }
static const ldb_itertbl_t cur_table = {
  cur_clear, cur_valid, cur_first, cur_last, cur_seek, cur_next, cur_prev, cur_key, cur_value, cur_status
};

/* user comparator on 1-byte user keys: ignores the top bit (NOT bytewise: a raw byte comparison disagrees with it) */
static int stub_ucompare(const ldb_comparator_t *c, const ldb_slice_t *x, const ldb_slice_t *y) {
  (void)c;
  __CPROVER_assert(x->size == 1 && y->size == 1, "user comparator: operands are 1-byte user keys (never a slice of an unparsed internal key)");
  if (x->size != 1 || y->size != 1) return 0;
  return UKID(x->data[0]) - UKID(y->data[0]);
}
static const ldb_comparator_t stub_ucmp = { "stub", stub_ucompare, NULL, NULL, NULL, NULL };

/* read sampling: the period is an arbitrary NONZERO number below the bound asked for (with 0 forever the sampling loop
   of parse_key would not terminate: its termination is probabilistic in the real code) */
struct ldb_s;
void ldb_record_read_sample(struct ldb_s *db, const ldb_slice_t *key) { (void)db; (void)key; g_sampled = 1; }
uint32_t ldb_rand_uniform(ldb_rand_t *rnd, uint32_t n) { uint32_t r = nondet_u32(); (void)rnd; __CPROVER_assume(r >= 1 && r < n); return r; }
/* no reallocation in this model */
void *ldb_malloc(size_t n) { (void)n; __CPROVER_assert(0, "model: allocation not reachable (buffers of capacity 16, 1-byte keys and values)"); return NULL; }
void *ldb_realloc(void *p, size_t n) { (void)n; __CPROVER_assert(0, "model: reallocation not reachable (buffers of capacity 16, 1-byte keys and values)"); return p; }
void ldb_free(void *p) { (void)p; __CPROVER_assert(0, "model: free not reachable"); }
/* byte equality (src/util/slice.c): not called by db_iter.c today; present so that a change that compares keys by bytes
   instead of through the comparator reaches the semantic obligations */
int ldb_slice_equal(const ldb_slice_t *x, const ldb_slice_t *y) {
  if (x->size != y->size) return 0;
  if (x->size == 1) return x->data[0] == y->data[0];
  return nondet_int() != 0;
}

#include "db_iter.c"

/* ---------------------------------------------------------------- harness */
ldb_dbiter_t g_it;
uint8_t KB[16], VB[16];                       /* storage of saved_key / saved_value */
int st0;

static void world(void) {
  int i;
  IN_U64(in_snapshot); IN_INT(in_status); IN_INT(in_valid);
  ASSUME(in_snapshot < (1ull << 56));
  S_ = in_snapshot;
  GLEN = nondet_long(); G.pos = nondet_long(); G.status = nondet_int();
  ASSUME(GLEN >= 0 && GLEN <= (1l << 40) && G.pos >= -1 && G.pos <= GLEN);
  G.n_next = G.n_prev = 0; GC0.n_first = GC0.n_last = GC0.n_seek = 0;
  g_dirp = (const int *)&g_it.direction;
  GK.kb = nondet_u8(); GK.tag = nondet_u64(); GV = nondet_u8(); G.ksize = nondet_size();
  for (i = 0; i < 7; i++) GK.pad[i] = 0;
  ASSUME(G.ksize == 9 || G.ksize < 8);
  CUR_IT.ptr = &G; CUR_IT.table = &cur_table; CUR_IT.cmp = NULL; CUR_IT.cleanup_head.func = NULL; CUR_IT.cleanup_head.next = NULL;
  SP0.sk0 = 0; SP0.skuk0 = 0; SP0.p0 = 0; SP.lv = 0; SP.lvuk = 0; SP.lvtyp = 0; SP.lvval = 0; SP.badseen = 0; SP0.ceilx = 128; g_switching = 0;
  SP0.tpos = nondet_long(); SP.tvis = 0; SP.tuk = 0; SP.ttyp = 0;
  g_sampled = 0;
  for (i = 0; i < 16; i++) { KB[i] = nondet_u8(); VB[i] = nondet_u8(); }
  g_it.db = NULL; g_it.ucmp = &stub_ucmp; g_it.iter = &CUR_IT; g_it.sequence = S_;
  g_it.status = in_status; st0 = in_status;
  g_it.saved_key.data = KB; g_it.saved_key.alloc = 16; g_it.saved_key.size = nondet_size();
  g_it.saved_value.data = VB; g_it.saved_value.alloc = 16; g_it.saved_value.size = nondet_size();
  ASSUME(g_it.saved_key.size <= 9 && g_it.saved_value.size <= 1);
  g_it.direction = LDB_FORWARD;
  g_it.valid = in_valid != 0;
  g_it.bytes_until_read_sampling = nondet_size();
  ASSUME(g_it.bytes_until_read_sampling < (1ul << 40));
}
#define FRAME_OK (g_it.iter == &CUR_IT && g_it.ucmp == &stub_ucmp && g_it.sequence == S_ && g_it.saved_key.data == KB && g_it.saved_key.alloc == 16 && \
                  g_it.saved_value.data == VB && g_it.saved_value.alloc == 16)
#define NO_REPOSITION (GC0.n_first + GC0.n_last + GC0.n_seek == 0)

/* ---- find_next_user_entry from an arbitrary position of an arbitrary sequence, with or without a skip key ---- */
static void check_forward_result(void) {
  CHECK(!g_it.valid || (CUR_VALID && FWD_YIELD), "find_next: stops only on an entry of the snapshot map: key parses, sequence <= snapshot, VALUE, not hidden by the skip key, newest visible version of its user key (no tombstone / newer version before it)");
  CHECK(g_it.valid || G.pos == GLEN, "find_next: not valid only when the internal iterator is exhausted");
  CHECK(!(g_it.valid && SP.tvis) || SP.tuk < CUR_UK, "find_next: EVERY visible entry the scan went over belongs to a smaller user key than the entry yielded");
  CHECK(g_it.status == (SP.badseen ? LDB_CORRUPTION : st0), "find_next: status CORRUPTION iff the scan met a key that does not parse, untouched otherwise");
  CHECK(g_it.direction == LDB_FORWARD && G.n_prev == 0 && FRAME_OK, "find_next: only next() on the child; direction, snapshot, comparator, buffers untouched");
  if (g_it.valid) {
    ldb_slice_t k = ldb_dbiter_key(&g_it), v = ldb_dbiter_value(&g_it);
    CHECK(k.size == 1 && k.data == (uint8_t *)&GK && v.size == 1 && v.data == &GV, "dbiter key()/value(): user key and value of exactly that entry");
  }
}
void h_find_next(void) {
  IN_INT(in_skipping);
  world();
  ASSUME(CUR_VALID);                          /* REQUIRES of find_next_user_entry (assert in the source) */
  SP0.p0 = G.pos;
  if (in_skipping) {
    g_it.saved_key.size = 1;
    SP0.sk0 = 1; SP0.skuk0 = UKID(KB[0]);
    ASSUME(!(CUR_VIS && CUR_UK < SP0.skuk0));  /* see cur_draw */
  }
  find_next_user_entry(&g_it, in_skipping, &g_it.saved_key);
  check_forward_result();
  CHECK(NO_REPOSITION, "find_next: the child is moved by next() only");
  CANARY();
}

/* ---- find_prev_user_entry from an arbitrary position (or exhausted child) ---- */
static void check_backward_result(void) {
  CHECK(!g_it.valid || (SP.lv && SP.lvtyp == LDB_TYPE_VALUE && g_it.saved_key.size == 1 && UKID(KB[0]) == SP.lvuk && g_it.saved_value.size == 1 && VB[0] == SP.lvval),
        "find_prev: yields user key and value of the NEWEST visible version (sequence <= snapshot) of a user key, and that version is a VALUE");
  CHECK(!g_it.valid || G.pos == -1 || (CUR_VALID && CUR_VIS && CUR_UK < SP.lvuk), "find_prev: the child stands just before all entries of key(): exhausted or on a visible entry of a smaller user key");
  CHECK(g_it.valid || (G.pos == -1 && (!SP.lv || SP.lvtyp == LDB_TYPE_DELETION)), "find_prev: not valid only when the child is exhausted and the last user key is deleted or has no visible version");
  CHECK(!SP.tvis || (SP.lv && SP.lvuk <= SP.tuk), "find_prev: every visible entry the scan went over belongs to the user key yielded or a larger one");
  CHECK(g_it.status == (SP.badseen ? LDB_CORRUPTION : st0), "find_prev: status CORRUPTION iff the scan met a key that does not parse, untouched otherwise");
  CHECK(!g_it.valid || g_it.direction == LDB_REVERSE, "find_prev: direction stays REVERSE while valid");
  CHECK(!g_it.valid || SP.lvuk < SP0.ceilx, "prev: the key yielded is smaller than the key shown before");
  CHECK(G.n_next == 0 && FRAME_OK, "find_prev: only prev() on the child; snapshot, comparator, buffers untouched");
  if (g_it.valid) {
    ldb_slice_t k = ldb_dbiter_key(&g_it), v = ldb_dbiter_value(&g_it);
    CHECK(k.size == 1 && k.data == KB && v.size == 1 && v.data == VB, "dbiter key()/value(): the saved key and value");
  }
}
void h_find_prev(void) {
  world();
  ASSUME(G.pos < GLEN);
  SP0.p0 = G.pos;
  g_it.direction = LDB_REVERSE;
  find_prev_user_entry(&g_it);
  check_backward_result();
  CHECK(NO_REPOSITION, "find_prev: the child is moved by prev() only");
  CANARY();
}

/* ---- one step ldb_dbiter_next from ANY state satisfying the representation invariant, both directions ---- */
void h_next(void) {
  IN_INT(in_reverse);
  world();
  ASSUME(GLEN >= 1);
  g_it.valid = 1;
  if (!in_reverse) {                          /* (1) forward: the child stands on the entry shown, an entry of the snapshot map */
    ASSUME(CUR_VALID && CUR_VIS && CUR_TYP == LDB_TYPE_VALUE);
    g_it.direction = LDB_FORWARD; SP0.skuk0 = CUR_UK;
  } else {                                    /* (2) reverse: saved_key = key(); the child stands just before all entries of key():
                                                 exhausted or on a visible entry of a smaller user key, nothing visible in between (cur_draw) */
    g_it.direction = LDB_REVERSE; g_it.saved_key.size = 1; g_it.saved_value.size = 1; SP0.skuk0 = UKID(KB[0]);
    ASSUME(G.pos < GLEN && (G.pos == -1 || (CUR_VIS && CUR_UK < SP0.skuk0)));
  }
  SP0.sk0 = 1; SP0.p0 = G.pos + 1;              /* the scan has to start right behind the child's position with skip key = key() */
  ldb_dbiter_next(&g_it);
  check_forward_result();                     /* with skip key = old key(): the entry yielded is the first map entry with a LARGER user key */
  CHECK(GC0.n_last + GC0.n_seek == 0 && GC0.n_first == (in_reverse && SP0.p0 == 0 ? 1u : 0u), "next: first() on the child only to leave the exhausted-before-first state of a reverse iterator");
  CANARY();
}

/* ---- one step ldb_dbiter_prev, both directions (forward: the switch loop walks back over the entries of key() first) ---- */
void h_prev(void) {
  IN_INT(in_reverse);
  world();
  ASSUME(GLEN >= 1);
  g_it.valid = 1;
  if (!in_reverse) {
    ASSUME(CUR_VALID && CUR_VIS && CUR_TYP == LDB_TYPE_VALUE);
    g_it.direction = LDB_FORWARD; SP0.ceilx = CUR_UK;
  } else {
    g_it.direction = LDB_REVERSE; g_it.saved_key.size = 1; g_it.saved_value.size = 1; SP0.ceilx = UKID(KB[0]);
    ASSUME(G.pos < GLEN && (G.pos == -1 || (CUR_VIS && CUR_UK < SP0.ceilx)));
  }
  ldb_dbiter_prev(&g_it);
  check_backward_result();
  CHECK(NO_REPOSITION, "prev: the child is moved by prev() only");
  CANARY();
}
