/* units/verr_b.c - ver.getrange: ldb_versions_get_range on a set of <= 4 files (bounded; the unbounded loop-contract twin
 * units/verr.c does not finish).  Real bytewise comparator and real ldb_ikc_compare via units/ver.c's version model.
 * Obligation (C14/C01: the files picked from level+1 are those overlapping the range of inputs[0]; a range that does not
 * cover every input file lets a newer version sink below an older one): *smallest is the smallest key of a file none of
 * whose peers has a smaller one, *largest the largest key of a file none of whose peers has a larger one. */
#include "units/ver.c"
static ldb_slice_t g_rs, g_rl;
#define S_LE_AT(l, m, i) ((i) >= g_n[l] || LE_(g_suk[l][m], g_stag[l][m], g_suk[l][i], g_stag[l][i]))
#define IS_MIN_S(l, m) ((m) < g_n[l] && g_rs.data == g_ksp[l][m] && g_rs.size == 9 && S_LE_AT(l, m, 0) && S_LE_AT(l, m, 1) && S_LE_AT(l, m, 2) && S_LE_AT(l, m, 3))
#define IS_MAX_R(l, m) ((m) < g_n[l] && g_rl.data == g_klp[l][m] && g_rl.size == 9 && ALL_LE_L(l, m))
void c_get_range_b(ldb_versions_t *vset, const ldb_vector_t *inputs, ldb_slice_t *smallest, ldb_slice_t *largest)
/* REQUIRES: inputs is not empty (version_set.c) */
__CPROVER_requires(vset == &g_vset && inputs == &g_ver.files[1] && smallest == &g_rs && largest == &g_rl && g_n[1] >= 1 && g_n[1] <= BF)
__CPROVER_assigns(g_rs, g_rl)
__CPROVER_ensures(IS_MIN_S(1, 0) || IS_MIN_S(1, 1) || IS_MIN_S(1, 2) || IS_MIN_S(1, 3))
__CPROVER_ensures(IS_MAX_R(1, 0) || IS_MAX_R(1, 1) || IS_MAX_R(1, 2) || IS_MAX_R(1, 3))
;
void h_get_range_b(void) {
  IN_SIZE(in_n);
  ASSUME(in_n >= 1 && in_n <= BF);
  mk_version(); mk_level(1, in_n);
  ldb_versions_get_range(&g_vset, &g_ver.files[1], &g_rs, &g_rl);
  CANARY();
}
