/* units/rep_scan.c - scan_table (src/repair.c)
 *   rep.scan : C19 (bounds and newest sequence of a surviving table are recomputed from its own contents),
 *              C18 (unparsable keys are skipped, a failing iterator never yields a registered table).
 *
 * The real repair.c is included unmodified.  The table iterator is a ghost cursor over an ARBITRARY sequence of
 * g_sc_n entries (unbounded; the scan loop is closed by a loop contract).  Which entries parse and which sequence
 * numbers they carry is arbitrary; the sequence is described by four prophecy parameters chosen by the harness
 *   F = index of the first parsable key (n if none), L = index of the last parsable key,
 *   W = index of a key carrying the maximum sequence M,
 * and the parse model honours them (i < F, i > L: unparsable; F, L, W: parsable; seq <= M, seq(W) == M; everything
 * else arbitrary).  Every concrete table is an instance for suitable F, L, W, M.
 */
#include "verif.h"
int nondet_int(void);
uint64_t nondet_u64(void);
size_t nondet_size(void);

#include "repair.c"
#include "contracts/rep.h"

/* ------------------------------------------------------------------ ghost */
struct sc_cursor { unsigned long pos; };
struct sc_cursor g_sc;
unsigned long g_sc_n, g_sc_F, g_sc_L, g_sc_W; uint64_t g_sc_M;
uint8_t *g_sc_keybase;
int g_sc_status;
ldb_iter_t g_sc_iter;
unsigned g_sc_firsts, g_sc_iterate_calls, g_sc_iter_destroys, g_sc_push_calls;
uint64_t g_sc_it_number, g_sc_it_size; int g_sc_it_verify;
void *g_sc_pushed;
ldb_filemeta_t *g_sc_meta;               /* meta of the tabinfo created by this scan */
unsigned g_sc_small_copies, g_sc_large_copies; const uint8_t *g_sc_small_src, *g_sc_large_src;
unsigned g_sc_size_calls; int g_sc_size_rc[2]; int g_sc_size_kind[2]; uint64_t g_sc_size_num[2]; uint64_t g_sc_size_val[2];
unsigned g_sc_tfn_calls, g_sc_sfn_calls;
int g_sc_arch_kind[2]; uint64_t g_sc_arch_num[2];
unsigned g_sc_destroyed_at_push, g_sc_destroyed_at_repair;
static char g_dbname[2];

/* ------------------------------------------------------- table iterator */
static void in_clear(void *p) { (void)p; }
static int in_valid(const void *p) { __CPROVER_assert(p == (const void *)&g_sc, "iterator op on the table cursor"); return g_sc.pos < g_sc_n; }
static void in_first(void *p) { __CPROVER_assert(p == (const void *)&g_sc, "iterator op on the table cursor"); g_sc.pos = 0; g_sc_firsts++; }
static void in_last(void *p) { __CPROVER_assert(0, "scan never moves backwards"); }
static void in_seek(void *p, const ldb_slice_t *t) { __CPROVER_assert(0, "scan never seeks"); }
static void in_next(void *p) { __CPROVER_assert(p == (const void *)&g_sc && g_sc.pos < g_sc_n, "next: REQUIRES valid()"); g_sc.pos++; }
static void in_prev(void *p) { __CPROVER_assert(0, "scan never moves backwards"); }
static ldb_slice_t in_key(const void *p) {
  ldb_slice_t k;
  __CPROVER_assert(p == (const void *)&g_sc && g_sc.pos < g_sc_n, "key: REQUIRES valid()");
  k.data = g_sc_keybase + g_sc.pos; k.size = nondet_size(); k.alloc = 0;
  return k;
}
static ldb_slice_t in_value(const void *p) { ldb_slice_t v = {NULL, 0, 0}; return v; }
static int in_status(const void *p) { __CPROVER_assert(p == (const void *)&g_sc, "iterator op on the table cursor"); return g_sc_status; }
static const ldb_itertbl_t in_table = { in_clear, in_valid, in_first, in_last, in_seek, in_next, in_prev, in_key, in_value, in_status };

/* ------------------------------------------------------------ env models */
static const ldb_readopt_t g_readopt0;
const ldb_readopt_t *ldb_readopt_default = &g_readopt0;

void *ldb_malloc(size_t size) { void *p = malloc(size); __CPROVER_assume(p != NULL); return p; }
void ldb_free(void *ptr) { free(ptr); }
void ldb_filemeta_init(ldb_filemeta_t *meta) {
  g_sc_meta = meta;
  meta->refs = 0; meta->allowed_seeks = (1 << 30); meta->number = 0; meta->file_size = 0;
  meta->smallest.data = NULL; meta->smallest.size = 0; meta->smallest.alloc = 0; meta->largest.data = NULL; meta->largest.size = 0; meta->largest.alloc = 0;
}
void ldb_filemeta_clear(ldb_filemeta_t *meta) { }
int ldb_table_filename(char *buf, size_t size, const char *dbname, uint64_t num) {
  __CPROVER_assert(dbname == g_rep->dbname, "table names are formed in the database directory");
  g_sc_tfn_calls++; buf[0] = 0; g_nm_buf = buf; g_nm_kind = LDB_FILE_TABLE; g_nm_num = num; g_pin_buf = buf; g_pin_kind = g_nm_kind; g_pin_num = num;
  return 1;   /* names fit (ldb_repair's path length check); the code aborts otherwise */
}
int ldb_sstable_filename(char *buf, size_t size, const char *dbname, uint64_t num) {
  __CPROVER_assert(dbname == g_rep->dbname, "table names are formed in the database directory");
  g_sc_sfn_calls++; buf[0] = 0; g_nm_buf = buf; g_nm_kind = NM_SST; g_nm_num = num; g_pin_buf = buf; g_pin_kind = g_nm_kind; g_pin_num = num;
  return 1;
}
int ldb_file_size(const char *filename, uint64_t *size) {
  int rc = nondet_int();
  __CPROVER_assert(filename == g_nm_buf && g_sc_size_calls < 2, "size is asked of a table name just formed, at most twice");
  if (g_sc_size_calls < 2) {
    g_sc_size_rc[g_sc_size_calls] = rc; g_sc_size_kind[g_sc_size_calls] = g_nm_kind; g_sc_size_num[g_sc_size_calls] = g_nm_num;
    if (rc == LDB_OK) { *size = nondet_u64(); g_sc_size_val[g_sc_size_calls] = *size; g_found_kind = g_nm_kind; }
  }
  g_sc_size_calls++;
  return rc;
}
void ldb_log(ldb_logger_t *logger, const char *fmt, ...) { }
const char *ldb_strerror(int code) { return "e"; }
ldb_iter_t *ldb_tables_iterate(ldb_tables_t *cache, const ldb_readopt_t *options, uint64_t file_number, uint64_t file_size, ldb_table_t **tableptr) {
  __CPROVER_assert(cache == g_rep->table_cache && tableptr == NULL, "the table is opened through the repairer's table cache");
  g_sc_iterate_calls++; g_sc_it_number = file_number; g_sc_it_size = file_size; g_sc_it_verify = options->verify_checksums;
  return &g_sc_iter;
}
void ldb_iter_destroy(ldb_iter_t *it) { __CPROVER_assert(it == &g_sc_iter, "the scan's iterator is released"); g_sc_iter_destroys++; }
int ldb_pkey_import(ldb_pkey_t *z, const ldb_slice_t *x) {
  unsigned long i = g_sc.pos;
  int p;
  __CPROVER_assert(x->data == g_sc_keybase + i && i < g_sc_n, "the key parsed is the current entry's key");
  if (i < g_sc_F || i > g_sc_L) p = 0;
  else if (i == g_sc_F || i == g_sc_L || i == g_sc_W) p = 1;
  else p = nondet_int() ? 1 : 0;
  if (p) {
    uint64_t s = nondet_u64();
    __CPROVER_assume(s <= g_sc_M);
    if (i == g_sc_W) s = g_sc_M;
    z->sequence = s; z->type = (ldb_valtype_t)(nondet_int() ? 1 : 0); z->user_key.data = x->data; z->user_key.size = 0; z->user_key.alloc = 0;
  }
  return p;
}
void ldb_ikey_copy(ldb_ikey_t *z, const ldb_ikey_t *x) {
  if (z == &g_sc_meta->smallest) { g_sc_small_copies++; g_sc_small_src = x->data; }
  else if (z == &g_sc_meta->largest) { g_sc_large_copies++; g_sc_large_src = x->data; }
  else __CPROVER_assert(0, "only the bounds of the table's own meta record are written");
}
void ldb_vector_push(ldb_vector_t *z, const void *x) {
  __CPROVER_assert(z == &g_rep->tables, "the table is registered in the repairer's table list");
  g_sc_push_calls++; g_sc_pushed = (void *)x; g_sc_destroyed_at_push = g_sc_iter_destroys;
}

/* ---------------------------------------------------------------- rep.scan */
void h_scan(void) {
  IN_U64(in_number);
  ldb_repair_t *rep = malloc(sizeof(*rep));
  char *cache = malloc(1);
  int have_size; uint64_t size; ldb_tabinfo_t *t;
  __CPROVER_assume(rep != NULL && cache != NULL);
  g_rep = rep; g_pin_buf = NULL; g_dbname[0] = 'd'; g_dbname[1] = 0; rep->dbname = g_dbname; rep->table_cache = (ldb_tables_t *)cache;
  ldb_readopt_default = &g_readopt0;
  /* the table's content: arbitrary length, arbitrary parse results described by F, L, W, M */
  __CPROVER_assume(g_sc_n < (1ul << 31));       /* fewer than 2^31 entries: 'counter' is an int (see observations) */
  g_sc_keybase = malloc(g_sc_n + 1); __CPROVER_assume(g_sc_keybase != NULL);
  __CPROVER_assume(g_sc_F <= g_sc_n);
  if (g_sc_F < g_sc_n) __CPROVER_assume(g_sc_F <= g_sc_W && g_sc_W <= g_sc_L && g_sc_L < g_sc_n);
  else { g_sc_L = g_sc_n; g_sc_W = g_sc_n; g_sc_M = 0; }
  g_sc_iter.ptr = &g_sc; g_sc_iter.table = &in_table; g_sc_iter.cmp = NULL; g_sc_iter.cleanup_head.func = NULL;
  g_sc.pos = 0; g_sc_firsts = g_sc_iterate_calls = g_sc_iter_destroys = g_sc_push_calls = 0; g_sc_pushed = NULL; g_sc_meta = NULL;
  g_sc_small_copies = g_sc_large_copies = 0; g_sc_small_src = g_sc_large_src = NULL; g_sc_size_calls = 0; g_sc_tfn_calls = g_sc_sfn_calls = 0;
  g_sc_size_rc[0] = g_sc_size_rc[1] = -1; g_found_kind = -1;
  g_arch_calls = 0; g_arch_track_hits = 0; g_arch_removes = 0; g_rt_calls = 0; g_rt_t = NULL;
  g_sc_destroyed_at_push = 0;
  /* follow the legacy name through archiving */
  g_arch_track_kind = NM_SST; g_arch_track_num = in_number;

  scan_table(rep, in_number);

  CHECK(g_sc_size_calls >= 1 && g_sc_size_kind[0] == LDB_FILE_TABLE && g_sc_size_num[0] == in_number, "scan: the table is looked up as <number>.ldb first");
  if (g_sc_size_rc[0] != LDB_OK) CHECK(g_sc_size_calls == 2 && g_sc_size_kind[1] == NM_SST && g_sc_size_num[1] == in_number, "scan: then under its legacy name <number>.sst");
  else CHECK(g_sc_size_calls == 1, "scan: no second lookup when the first succeeds");
  have_size = g_sc_size_rc[0] == LDB_OK || g_sc_size_rc[1] == LDB_OK;
  size = g_sc_size_rc[0] == LDB_OK ? g_sc_size_val[0] : g_sc_size_val[1];
  if (!have_size) {
    CHECK(g_sc_tfn_calls == 2 && g_sc_sfn_calls == 2, "scan: both names are formed again for archiving");
    CHECK(g_arch_calls == 2 && g_arch_kind == NM_SST && g_arch_num == in_number && g_arch_track_hits == 1, "scan: a table whose size cannot be read is archived under both names (moved to lost/, never unlinked)");
    CHECK(g_sc_iterate_calls == 0 && g_sc_push_calls == 0 && g_rt_calls == 0 && g_sc_meta == NULL, "scan: ... and is neither opened nor registered");
  } else {
    t = (ldb_tabinfo_t *)((char *)g_sc_meta - offsetof(ldb_tabinfo_t, meta));
    CHECK(g_sc_meta != NULL && g_sc_iterate_calls == 1 && g_sc_it_number == in_number && g_sc_it_size == size, "scan: the table is opened with its number and the size found on disk");
    CHECK(g_sc_it_verify == rep->options.paranoid_checks, "scan: block checksums are verified iff paranoid_checks");
    CHECK(g_sc_firsts == 1 && g_sc.pos == g_sc_n && g_sc_iter_destroys == 1, "scan: every entry is visited, from the first; the iterator is released");
    if (g_rt_calls == 0) CHECK(g_arch_calls == 0, "scan: a readable table is not archived by the scan itself");
    CHECK(t->meta.number == in_number && (g_rt_calls == 1 || t->meta.file_size == size), "scan: the record carries the table's number and size (the size is replaced by repair_table when the table is rebuilt)");
    if (g_sc_F < g_sc_n) {
      CHECK(g_sc_small_copies == 1 && g_sc_small_src == g_sc_keybase + g_sc_F, "scan: smallest = the FIRST parsable internal key");
      CHECK(g_sc_large_copies >= 1 && g_sc_large_src == g_sc_keybase + g_sc_L, "scan: largest = the LAST parsable internal key");
      CHECK(t->max_sequence == g_sc_M, "scan: max_sequence = the maximum sequence number over all parsable keys");
    } else {
      CHECK(g_sc_small_copies == 0 && g_sc_large_copies == 0 && t->max_sequence == 0, "scan: no parsable key => bounds stay empty, max_sequence 0");
    }
    if (g_sc_status == LDB_OK) {
      CHECK(g_sc_push_calls == 1 && g_sc_pushed == (void *)t && g_rt_calls == 0 && g_sc_destroyed_at_push == 1, "scan: iterator status OK => the table is registered (once, after the iterator was released), not rebuilt");
    } else {
      CHECK(g_rt_calls == 1 && g_rt_t == t && g_sc_push_calls == 0, "scan: iterator error => the table is NOT registered as it is; it is handed to repair_table (salvage into a new file)");
    }
  }
  CHECK(g_arch_removes == 0, "scan: nothing is unlinked by the scan");
  CANARY();
}
