/* units/envr_wf.c - ldb_write_file (src/util/env.c): create + append + optional sync + close, error precedence,
 * the file is removed again on failure.  Properties C02 (sync before the data counts), C12, C17/C05 (a half-written
 * CURRENT temp file is never left behind).
 *
 * This file reuses units/env.c verbatim (its system-call stubs, ghost stream model and the carriers c_truncfile_create,
 * c_wfile_sync, c_wfile_close, c_ldb_write, c_wfile_flush that group `env` enforces).  The unit env.writefile of that
 * group is parked: its append carrier names __CPROVER_object_whole(file->buf) in the assigns clause, which is the WHOLE
 * file object - after a replaced append the fields manifest / dirname are arbitrary and the preconditions of sync /
 * close cannot be shown.  c_wfile_append_f below is the same contract with those fields pinned; it is enforced on the
 * real ldb_wfile_append here (envr.wf.append) and then used by envr.writefile.
 */
#include "env.c"

int c_wfile_append_f(ldb_wfile_t *file, const ldb_slice_t *data)
__CPROVER_requires(__CPROVER_rw_ok(file, sizeof(*file)) && WF_RI(file) && OFFS_OK && CLOCK_RI && __CPROVER_r_ok(data, sizeof(*data)))
__CPROVER_requires(data->size <= ((size_t)1 << 61) && (data->size == 0 || __CPROVER_r_ok(data->data, data->size)))
__CPROVER_assigns(file->pos, __CPROVER_object_whole(file->buf), GHOST_WRITE)
__CPROVER_ensures(file->pos <= LDB_WRITE_BUFFER && file->fd == g_fd)
/* the frame the assigns clause cannot express (buf is an array member: its "whole object" is the file object) */
__CPROVER_ensures(file->fd == __CPROVER_old(file->fd) && file->manifest == __CPROVER_old(file->manifest) && file->dirname == __CPROVER_old(file->dirname))
__CPROVER_ensures(__CPROVER_return_value == LDB_OK ==> (SLEN(file) == OLD_SLEN(file) + data->size && g_wfail == __CPROVER_old(g_wfail)))
/* no wrap-around: the bytes handed to write(2) by this call are bytes of the old buffer content or of the slice */
__CPROVER_ensures(g_written >= __CPROVER_old(g_written) && g_written - __CPROVER_old(g_written) <= __CPROVER_old(file->pos) + data->size)
__CPROVER_ensures(__CPROVER_return_value != LDB_OK ==> (g_wfail == __CPROVER_old(g_wfail) + 1 && file->pos == 0))
__CPROVER_ensures(CLOCK_POST)
;

/* ldb_write_file: which steps run, in which order, what the result is */
unsigned long g_destroy_closes;
void h_write_file2(void) {
  ldb_slice_t data;
  char name[8];
  int sync = nondet_int() ? 1 : 0, rc;
  size_t n = nondet_size();
  unsigned long w0, s0, so0, c0, u0, cr0, ds0;
  name[0] = '/'; name[1] = 'd'; name[2] = '/'; name[3] = 't'; name[4] = 0;
  __CPROVER_assume(n <= ((size_t)1 << 40));
  data.data = malloc(n); data.size = n; data.alloc = 0; __CPROVER_assume(data.data != NULL);
  __CPROVER_assume(g_fd >= 0 && g_dirfd >= 0 && g_dirfd != g_fd && g_fsync_eintr_budget <= 2 && OFFS_OK && CLOCK_RI);
  g_written = 0; g_synced = 0;
  w0 = g_wfail; s0 = g_fsync_ok; c0 = g_close_calls; u0 = g_unlink_calls; cr0 = g_created; so0 = g_close_ok; ds0 = g_dirsync_calls;
  rc = ldb_write_file(name, &data, sync);
  if (g_created == cr0) {
    CHECK(rc != LDB_OK && g_written == 0 && g_close_calls == c0 && g_unlink_calls == u0, "write_file: the file could not be created: reported, nothing written, nothing removed");
  } else {
    CHECK(g_created == cr0 + 1, "write_file: the file is created once");
    CHECK(g_close_calls == c0 + 1, "write_file: the descriptor is closed exactly once on every path (by close, or by destroy after an earlier failure)");
    if (rc == LDB_OK) {
      CHECK(g_written == n && g_wfail == w0, "write_file OK: every byte of the data was handed to write(2)");
      CHECK(!sync || (g_fsync_ok == s0 + 1 && g_synced == n), "write_file OK with sync: one successful fsync, and it covers all n bytes (nothing is written after it: g_written == n)");
      CHECK(g_close_ok == so0 + 1 && (!sync || g_t_close >= g_t_fsync), "write_file OK: closed (not before the sync) and the close succeeded");
      CHECK(g_unlink_calls == u0, "write_file OK: nothing removed");
    } else {
      CHECK(g_unlink_calls == u0 + 1, "write_file failed after creating the file: the partial file is removed");
    }
    CHECK(g_dirsync_calls == ds0, "write_file: not a MANIFEST: no directory sync");
  }
  CHECK((g_wfail != w0) ? rc != LDB_OK : 1, "write_file: a failed write(2) is never swallowed");
  CANARY();
}

void h_wfile_append_f(void) {
  ldb_wfile_t *file = alloc_wfile();
  ldb_slice_t data;
  IN_SIZE(in_n);
  data.data = malloc(in_n); data.size = in_n; data.alloc = 0;
  __CPROVER_assume(data.data != NULL);
  ldb_wfile_append(file, &data);
  CANARY();
}
