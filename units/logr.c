/* units/logr.c - proof units for src/log_reader.c (C15, C18, C11, C04, C05, C03)
 *
 * The real log_reader.c is included unmodified.  The file is a stub that
 * returns arbitrary bytes and arbitrary sizes/statuses; the crc function is an
 * observation point: every physical record the reader is about to accept shows
 * up there as (type byte, payload), and the stub decides nondeterministically
 * whether the stored checksum matches.  An independent tracker assembles what
 * the reader is *allowed* to return from those events.
 */
#include "verif.h"
#include "contracts/coding.h"

#include "util/env.h"
#include "util/buffer.h"
#include "util/crc32c.h"
#include "util/status.h"
#include "log_format.h"
#include "log_reader.h"

struct ldb_rfile_s { int dummy; };
ldb_rfile_t g_rfile;

#define SPEC_UNMASK(m) ((uint32_t)(((((uint32_t)(m) - 0xa282ead8u) >> 17) | (((uint32_t)(m) - 0xa282ead8u) << 15))))

int nondet_int(void);
size_t nondet_size(void);
uint32_t nondet_u32(void);

/* ---- ghost ---- */
uint8_t *g_store;              /* the reader's backing store (32 KiB)            */
unsigned long g_read_calls, g_read_err;  /* file reads / failed file reads (counters)   */
uint64_t g_file_left;          /* bytes the file still holds (arbitrary, finite) */
unsigned long g_reports;       /* corruption reports (counter)                   */
size_t g_rep_bytes; int g_rep_status;
unsigned long g_crc_calls; int g_crc_match;  /* crc evaluations (counter) / last one matched */
const uint8_t *g_crc_p; size_t g_crc_n;

/* tracker of logical records, fed by crc-accepted physical records */
int g_in_chain;                /* a FIRST was accepted and not yet ended         */
size_t g_chain_len;            /* payload bytes of the chain so far              */
size_t g_j;                    /* arbitrary ghost index (fixed by the harness)   */
uint8_t g_chain_byte;          /* byte g_j of the chain, if seen                 */
int g_force_match;              /* scenario units: every stored checksum matches */
unsigned g_last_type;           /* type byte of the last accepted physical record */
int g_complete;                /* a logical record was completed by the last accepted fragment */
size_t g_complete_len; uint8_t g_complete_byte; const uint8_t *g_full_ptr;

int ldb_rfile_read(ldb_rfile_t *file, ldb_slice_t *result, void *buf, size_t count) {
  int rc = nondet_int();
  size_t k = nondet_size();
  __CPROVER_assert(file == &g_rfile, "reader reads its own file");
  __CPROVER_assert(buf == g_store && count == LDB_BLOCK_SIZE, "reader refills its 32 KiB backing store with block-sized reads");
  g_read_calls++;
  if (rc != LDB_OK) {
    __CPROVER_assume(rc > 0);
    g_read_err++;
    k = nondet_size();
    __CPROVER_assume(k <= count && k <= g_file_left);
    g_file_left -= k;
    result->data = buf; result->size = k; /* an env may leave a partial result behind */
    return rc;
  }
  __CPROVER_assume(k <= count && k <= g_file_left);
  /* a short read means end of file (env contract) */
  g_file_left -= k;
  result->data = buf; result->size = k; result->alloc = 0;
  return LDB_OK;
}

int ldb_rfile_skip(ldb_rfile_t *file, uint64_t offset) {
  int rc = nondet_int();
  if (rc != LDB_OK) { __CPROVER_assume(rc > 0); return rc; }
  g_file_left = g_file_left > offset ? g_file_left - offset : 0;
  return LDB_OK;
}

static void stub_corruption(ldb_reporter_t *reporter, size_t bytes, int status) {
  g_reports++; g_rep_bytes = bytes; g_rep_status = status;
}

/* crc over (type byte ‖ payload) of the physical record whose header starts 6 bytes earlier */
uint32_t ldb_crc32c_extend(uint32_t z, const uint8_t *xp, size_t xn) {
  uint32_t stored;
  int match = g_force_match ? 1 : nondet_int();
  __CPROVER_assert(z == 0 && xn >= 1, "reader: crc is computed from scratch over type byte + payload");
  __CPROVER_assert(__CPROVER_r_ok(xp - 6, xn + 6), "reader: header and payload under the crc lie inside the buffer");
  __CPROVER_assert(__CPROVER_same_object(xp, g_store), "reader: crc region is in the backing store");
  __CPROVER_assert(xn - 1 == ((size_t)xp[-2] | ((size_t)xp[-1] << 8)), "reader: crc covers exactly the length the header states");
  stored = SPEC_UNMASK(LE32_AT(xp - 6));
  g_crc_calls++; g_crc_p = xp; g_crc_n = xn; g_crc_match = match ? 1 : 0;
  g_complete = 0;
  if (match) {
    /* accepted physical record: feed the tracker */
    unsigned type = xp[0];
    const uint8_t *pay = xp + 1; size_t len = xn - 1;
    g_last_type = type;
    if (type == LDB_TYPE_FULL) {
      g_in_chain = 0; g_complete = 1; g_complete_len = len; g_full_ptr = pay;
      if (g_j < len) g_complete_byte = pay[g_j];
    } else if (type == LDB_TYPE_FIRST) {
      g_in_chain = 1; g_chain_len = len;
      if (g_j < len) g_chain_byte = pay[g_j];
    } else if (type == LDB_TYPE_MIDDLE || type == LDB_TYPE_LAST) {
      if (g_in_chain) {
        if (g_j >= g_chain_len && g_j - g_chain_len < len) g_chain_byte = pay[g_j - g_chain_len];
        g_chain_len += len;
        if (type == LDB_TYPE_LAST) { g_in_chain = 0; g_complete = 1; g_complete_len = g_chain_len; g_complete_byte = g_chain_byte; g_full_ptr = NULL; }
      }
    } else {
      g_in_chain = 0; /* unknown / zero type: any partial chain is void */
    }
    return stored;
  }
  g_in_chain = 0; /* damage voids the partial chain */
  return stored + 1 + (nondet_u32() % 0xfffffffeu);
}

/* ghost model of the scratch buffer: length + the byte at the ghost index */
uint8_t g_scratch_obj[1];
uint8_t g_scratch_byte;
void ldb_buffer_reset(ldb_buffer_t *z) { z->size = 0; }
void ldb_buffer_set(ldb_buffer_t *z, const uint8_t *xp, size_t xn) {
  __CPROVER_assert(xn == 0 || __CPROVER_r_ok(xp, xn), "scratch set: source readable");
  z->data = g_scratch_obj; z->size = xn;
  if (g_j < xn) g_scratch_byte = xp[g_j];
}
void ldb_buffer_append(ldb_buffer_t *z, const uint8_t *xp, size_t xn) {
  __CPROVER_assert(xn == 0 || __CPROVER_r_ok(xp, xn), "scratch append: source readable");
  if (g_j >= z->size && g_j - z->size < xn) g_scratch_byte = xp[g_j - z->size];
  z->data = g_scratch_obj; z->size += xn;
}

/* sprintf is used only to format a reason string that is then discarded */
int sprintf(char *str, const char *format, ...) { return nondet_int(); }

#include "log_reader.c"

/* representation invariant of the reader (file path, lr->src == NULL) */
#define LR_RI(lr) ((lr)->file == &g_rfile && (lr)->src == NULL && (lr)->backing_store == g_store && \
  ((lr)->eof == 0 || (lr)->eof == 1) && (lr)->buffer.size <= LDB_BLOCK_SIZE && \
  (lr)->end_offset >= (lr)->buffer.size && \
  /* block alignment: the file is consumed in whole 32 KiB blocks until a short read ends it, and the \
     unconsumed window sits in the backing store at its offset within the current block */ \
  ((lr)->eof == 1 || (lr)->end_offset % LDB_BLOCK_SIZE == 0) && \
  ((lr)->buffer.size == 0 || ((lr)->buffer.data == g_store + ((lr)->end_offset - (lr)->buffer.size) % LDB_BLOCK_SIZE && \
                              ((lr)->end_offset - (lr)->buffer.size) % LDB_BLOCK_SIZE + (lr)->buffer.size <= LDB_BLOCK_SIZE)) && \
  /* bytes read so far + bytes the file still holds stay below 2^62 (no offset arithmetic can wrap) */ \
  g_file_left <= ((uint64_t)1 << 62) && (lr)->end_offset <= ((uint64_t)1 << 62) - g_file_left)

ldb_reporter_t g_reporter;

static void setup_reader(ldb_reader_t *lr, int checksum) {
  IN_SIZE(in_bufoff); IN_SIZE(in_bufsize);
  /* the store is an object of symbolic size >= 32 KiB (the reader may only use the first 32 KiB, see LR_RI): a symbolic size keeps it in CBMC's array theory instead of bit-blasting 32768 cells per access */
  { size_t store_size = nondet_size(); __CPROVER_assume(store_size >= LDB_BLOCK_SIZE); g_store = malloc(store_size); }
  __CPROVER_assume(g_store != NULL);
  lr->file = &g_rfile; lr->src = NULL; lr->error = LDB_OK;
  lr->initial_offset = nondet_size();
  g_reporter.corruption = stub_corruption; g_reporter.status = NULL;
  lr->reporter = nondet_int() ? &g_reporter : NULL;
  lr->checksum = checksum;
  lr->backing_store = g_store;
  lr->eof = nondet_int() ? 1 : 0;
  __CPROVER_assume(g_file_left <= ((uint64_t)1 << 62) && lr->end_offset <= ((uint64_t)1 << 62) - g_file_left);
  __CPROVER_assume(in_bufsize <= LDB_BLOCK_SIZE && lr->end_offset >= in_bufsize);
  __CPROVER_assume(lr->eof == 1 || lr->end_offset % LDB_BLOCK_SIZE == 0);
  __CPROVER_assume(in_bufoff == (lr->end_offset - in_bufsize) % LDB_BLOCK_SIZE && in_bufoff + in_bufsize <= LDB_BLOCK_SIZE);
  lr->buffer.data = in_bufsize ? g_store + in_bufoff : NULL; lr->buffer.size = in_bufsize; lr->buffer.alloc = 0;
  g_read_calls = 0; g_read_err = 0; g_reports = 0; g_crc_calls = 0; g_crc_match = 0;
  g_in_chain = 0; g_chain_len = 0; g_complete = 0; g_force_match = 0;
}

/* ---------------------------------------------------------- log.phys */
#define RET_EOF (LDB_MAX_RECTYPE + 1)
#define RET_BAD (LDB_MAX_RECTYPE + 2)
#define PHYS_ASSIGNS lr->buffer, lr->eof, lr->end_offset, *result, \
                  g_read_calls, g_read_err, g_file_left, g_reports, g_rep_bytes, g_rep_status, g_crc_calls, g_crc_match, g_crc_p, g_crc_n, \
                  g_in_chain, g_chain_len, g_chain_byte, g_complete, g_complete_len, g_complete_byte, g_full_ptr, g_last_type
/* the returned fragment lies inside the block buffer, right before what remains of it, and is what its header says */
#define FRAG_OK(lr, result, ret) \
   ((result)->size <= LDB_BLOCK_SIZE - LDB_HEADER_SIZE && __CPROVER_same_object((result)->data, g_store) && (result)->data >= g_store + LDB_HEADER_SIZE && \
    (size_t)((result)->data - g_store) + (result)->size <= LDB_BLOCK_SIZE && \
    ((lr)->buffer.size == 0 || (lr)->buffer.data == (result)->data + (result)->size) && \
    (ret) == (result)->data[-1] && (result)->size == ((size_t)(result)->data[-3] | ((size_t)(result)->data[-2] << 8)))
#define ACCEPTED (g_crc_calls == 1 && g_crc_match)

/* per-call deltas of the ghost counters */
#define D_REPORTS (g_reports - __CPROVER_old(g_reports))
#define D_READS   (g_read_calls - __CPROVER_old(g_read_calls))
#define D_RDERR   (g_read_err - __CPROVER_old(g_read_err))
#define D_CRC     (g_crc_calls - __CPROVER_old(g_crc_calls))
#undef ACCEPTED
#define ACCEPTED (D_CRC == 1 && g_crc_match)
#define MISMATCH (D_CRC == 1 && !g_crc_match)
#define RD(result, i) ((result)->data[i])

/* recovery configuration: checksums on, initial_offset 0 */
unsigned int c_read_physical_record(ldb_reader_t *lr, ldb_slice_t *result)
__CPROVER_requires(__CPROVER_rw_ok(lr, sizeof(*lr)) && __CPROVER_w_ok(result, sizeof(*result)))
__CPROVER_requires(LR_RI(lr) && lr->checksum == 1 && lr->initial_offset == 0 && lr->error == LDB_OK)
__CPROVER_requires(lr->reporter == NULL || (lr->reporter == &g_reporter))
__CPROVER_assigns(PHYS_ASSIGNS)
/* re-bind the pointers this call assigns to the backing store (dfcc loses points-to sets of replaced calls otherwise) */
__CPROVER_ensures(!ACCEPTED || __CPROVER_pointer_in_range_dfcc(g_store, result->data, g_store + LDB_BLOCK_SIZE))
__CPROVER_ensures(LR_RI(lr))
__CPROVER_ensures(D_CRC <= 1 && D_REPORTS <= 1 && D_READS <= 1 && D_RDERR <= D_READS)
/* a fragment is returned iff it passed exactly one crc comparison over type ‖ payload, and it is the one under that crc */
__CPROVER_ensures(ACCEPTED ==> (FRAG_OK(lr, result, __CPROVER_return_value) && g_crc_p == result->data - 1 && g_crc_n == result->size + 1))
__CPROVER_ensures(!ACCEPTED ==> (__CPROVER_return_value == RET_EOF || __CPROVER_return_value == RET_BAD))
/* at most one drop is reported per call, and only for: a failed read, a checksum mismatch, or a bad length when NOT at end of file */
__CPROVER_ensures(ACCEPTED ==> D_REPORTS == 0)
__CPROVER_ensures(D_REPORTS == 1 ==> (D_RDERR == 1 || MISMATCH || lr->eof == 0))
/* a torn header or payload at end of file is EOF, silently; EOF only at end of file */
__CPROVER_ensures((!ACCEPTED && __CPROVER_return_value == RET_EOF && D_RDERR == 0) ==> (D_REPORTS == 0 && lr->eof == 1 && lr->buffer.size == 0))
__CPROVER_ensures(D_RDERR == 1 ==> (__CPROVER_return_value == RET_EOF && lr->eof == 1 && lr->buffer.size == 0))
/* damage: the rest of the block is dropped, and the drop is reported to a listening reporter */
__CPROVER_ensures(MISMATCH ==> (__CPROVER_return_value == RET_BAD && lr->buffer.size == 0 && (lr->reporter == NULL || D_REPORTS == 1)))
__CPROVER_ensures(D_REPORTS == 1 ==> lr->buffer.size == 0)
__CPROVER_ensures((D_REPORTS == 1 && D_RDERR == 0) ==> (__CPROVER_return_value == RET_BAD && g_rep_bytes <= LDB_BLOCK_SIZE && g_rep_bytes >= 1 && g_rep_status == LDB_CORRUPTION))
/* a non-final bad length drops the block and is reported to a listening reporter */
__CPROVER_ensures((!ACCEPTED && D_CRC == 0 && __CPROVER_return_value == RET_BAD && lr->eof == 0 && D_REPORTS == 0) ==> (lr->reporter == NULL || lr->buffer.size == 0))
/* the file is read in whole blocks, at most once per call, never after a short read */
__CPROVER_ensures(__CPROVER_old(lr->eof) ==> D_READS == 0)
/* progress: every call that does not end the stream consumes input (termination measure of the record loop) */
__CPROVER_ensures(__CPROVER_return_value != RET_EOF ==> g_file_left + lr->buffer.size < __CPROVER_old(g_file_left) + __CPROVER_old(lr->buffer.size))
__CPROVER_ensures(g_file_left + lr->buffer.size <= __CPROVER_old(g_file_left) + __CPROVER_old(lr->buffer.size))
/* file position: the consumed prefix only grows, and an accepted fragment lies wholly inside it */
__CPROVER_ensures(lr->end_offset - lr->buffer.size >= __CPROVER_old(lr->end_offset) - __CPROVER_old(lr->buffer.size))
__CPROVER_ensures(ACCEPTED ==> lr->end_offset - lr->buffer.size >= LDB_HEADER_SIZE + result->size)
/* ---- transition of the logical-record tracker (what the reader above is allowed to assemble) ---- */
__CPROVER_ensures(D_CRC == 0 ==> (g_in_chain == __CPROVER_old(g_in_chain) && g_chain_len == __CPROVER_old(g_chain_len) && g_chain_byte == __CPROVER_old(g_chain_byte) &&
   g_complete == __CPROVER_old(g_complete) && g_complete_len == __CPROVER_old(g_complete_len) && g_complete_byte == __CPROVER_old(g_complete_byte) &&
   g_full_ptr == __CPROVER_old(g_full_ptr) && g_last_type == __CPROVER_old(g_last_type)))
__CPROVER_ensures(MISMATCH ==> (g_in_chain == 0 && g_complete == 0))
__CPROVER_ensures(ACCEPTED ==> g_last_type == __CPROVER_return_value)
__CPROVER_ensures((ACCEPTED && __CPROVER_return_value == LDB_TYPE_FULL) ==> (g_in_chain == 0 && g_complete == 1 && g_complete_len == result->size && g_full_ptr == result->data &&
   (g_j >= result->size || g_complete_byte == RD(result, g_j))))
__CPROVER_ensures((ACCEPTED && __CPROVER_return_value == LDB_TYPE_FIRST) ==> (g_in_chain == 1 && g_complete == 0 && g_chain_len == result->size &&
   (g_j >= result->size || g_chain_byte == RD(result, g_j))))
__CPROVER_ensures((ACCEPTED && (__CPROVER_return_value == LDB_TYPE_MIDDLE || __CPROVER_return_value == LDB_TYPE_LAST) && __CPROVER_old(g_in_chain)) ==>
   (g_chain_len == __CPROVER_old(g_chain_len) + result->size &&
    g_chain_byte == ((g_j >= __CPROVER_old(g_chain_len) && g_j - __CPROVER_old(g_chain_len) < result->size) ? RD(result, g_j - __CPROVER_old(g_chain_len)) : __CPROVER_old(g_chain_byte))))
__CPROVER_ensures((ACCEPTED && __CPROVER_return_value == LDB_TYPE_MIDDLE && __CPROVER_old(g_in_chain)) ==> (g_in_chain == 1 && g_complete == 0))
__CPROVER_ensures((ACCEPTED && __CPROVER_return_value == LDB_TYPE_LAST && __CPROVER_old(g_in_chain)) ==>
   (g_in_chain == 0 && g_complete == 1 && g_complete_len == g_chain_len && g_complete_byte == g_chain_byte && g_full_ptr == NULL))
__CPROVER_ensures((ACCEPTED && (__CPROVER_return_value == LDB_TYPE_MIDDLE || __CPROVER_return_value == LDB_TYPE_LAST) && !__CPROVER_old(g_in_chain)) ==> (g_in_chain == 0 && g_complete == 0))
__CPROVER_ensures((ACCEPTED && (__CPROVER_return_value < LDB_TYPE_FULL || __CPROVER_return_value > LDB_TYPE_LAST)) ==> (g_in_chain == 0 && g_complete == 0))
;

void h_read_physical(void) {
  ldb_reader_t lr;
  ldb_slice_t result;
  setup_reader(&lr, 1);
  lr.initial_offset = 0;
  read_physical_record(&lr, &result);
  CANARY();
}

/* any configuration (checksum off, initial_offset > 0, injected error): memory safety + representation invariant */
unsigned int c_read_physical_record_any(ldb_reader_t *lr, ldb_slice_t *result)
__CPROVER_requires(__CPROVER_rw_ok(lr, sizeof(*lr)) && __CPROVER_w_ok(result, sizeof(*result)))
__CPROVER_requires(LR_RI(lr))
__CPROVER_requires(lr->reporter == NULL || (lr->reporter == &g_reporter))
__CPROVER_requires(g_reports == 0 && g_read_calls == 0 && g_read_err == 0 && g_crc_calls == 0)
__CPROVER_assigns(PHYS_ASSIGNS)
__CPROVER_ensures(LR_RI(lr))
__CPROVER_ensures((__CPROVER_return_value != RET_EOF && __CPROVER_return_value != RET_BAD) ==> FRAG_OK(lr, result, __CPROVER_return_value))
__CPROVER_ensures(g_reports <= 1 && g_read_calls <= 1 && g_crc_calls <= 1)
__CPROVER_ensures(g_file_left + lr->buffer.size <= __CPROVER_old(g_file_left) + __CPROVER_old(lr->buffer.size))
;

void h_read_physical_any(void) {
  ldb_reader_t lr;
  ldb_slice_t result;
  setup_reader(&lr, nondet_int());
  lr.error = nondet_int();
  read_physical_record(&lr, &result);
  CANARY();
}

/* ---------------------------------------------------------- log.read */
/* Logical records are returned whole or not at all (C04/C15): ret == 1 only
 * right after the tracker completed a record (FULL, or FIRST MIDDLE* LAST all
 * accepted by crc, nothing damaged in between), with exactly its length and
 * (for the arbitrary ghost index g_j) its bytes. */

#define RECORD_IS_TRACKED(record) \
  (g_complete && (record)->size == g_complete_len && \
   (g_full_ptr != NULL ? ((record)->data == g_full_ptr) \
                       : ((record)->data == g_scratch_obj && (g_j >= g_complete_len || g_scratch_byte == g_complete_byte))))

int c_reader_read_record(ldb_reader_t *lr, ldb_slice_t *record, ldb_buffer_t *scratch)
__CPROVER_requires(__CPROVER_rw_ok(lr, sizeof(*lr)) && __CPROVER_w_ok(record, sizeof(*record)) && __CPROVER_rw_ok(scratch, sizeof(*scratch)))
__CPROVER_requires(LR_RI(lr) && lr->checksum == 1 && lr->initial_offset == 0 && lr->resyncing == 0 && lr->error == LDB_OK)
__CPROVER_requires(lr->reporter == NULL || (lr->reporter == &g_reporter))
__CPROVER_requires(g_in_chain == 0 && g_complete == 0)
__CPROVER_requires(g_reports == 0 && g_read_calls == 0 && g_read_err == 0 && g_crc_calls == 0)
__CPROVER_assigns(lr->buffer, lr->eof, lr->end_offset, lr->last_offset, lr->last_end, lr->resyncing, *record, *scratch,
                  g_read_calls, g_read_err, g_file_left, g_reports, g_rep_bytes, g_rep_status, g_crc_calls, g_crc_match, g_crc_p, g_crc_n,
                  g_in_chain, g_chain_len, g_chain_byte, g_complete, g_complete_len, g_complete_byte, g_full_ptr, g_scratch_byte, g_last_type)
__CPROVER_ensures(LR_RI(lr))
__CPROVER_ensures(__CPROVER_return_value == 0 || __CPROVER_return_value == 1)
__CPROVER_ensures(__CPROVER_return_value == 1 ==> RECORD_IS_TRACKED(record))
/* the position just past the returned record is published (used to decide whether a log may be appended to) */
__CPROVER_ensures(__CPROVER_return_value == 1 ==> (lr->last_end == lr->end_offset - lr->buffer.size && lr->last_offset <= lr->last_end))
/* 0 means end of file (or a failed read, or the reserved type value 5 under a valid crc) - never "gave up in the middle" */
__CPROVER_ensures(__CPROVER_return_value == 0 ==> ((lr->eof == 1 && lr->buffer.size == 0) || (g_crc_match && g_last_type == LDB_MAX_RECTYPE + 1)))
;

void h_read_record(void) {
  ldb_reader_t lr;
  ldb_slice_t record;
  ldb_buffer_t scratch;
  setup_reader(&lr, 1);
  lr.initial_offset = 0; lr.resyncing = 0;
  scratch.data = NULL; scratch.size = 0; scratch.alloc = 0;
  g_j = nondet_size();
  ldb_reader_read_record(&lr, &record, &scratch);
  CANARY();
}

/* ---------------------------------------------------------- log.torn (scenario lemma, bounded shape)
 * A crash while a fragmented record is being written leaves FIRST [MIDDLE] then a
 * torn header or torn payload at the end of the file.  The reader must return 0,
 * report NOTHING (C05: recovery does not report corruption) and drop the partial
 * record.  Shape: one complete fragment (FIRST or MIDDLE continuation), then the tear. */
void h_torn_tail(void) {
  ldb_reader_t lr;
  ldb_slice_t record;
  ldb_buffer_t scratch;
  size_t len1, r;
  int rc;
  setup_reader(&lr, 1);
  lr.initial_offset = 0; lr.resyncing = 0; lr.last_offset = 0;
  lr.reporter = &g_reporter;
  scratch.data = NULL; scratch.size = 0; scratch.alloc = 0;
  g_j = nondet_size();
  /* end of file already seen, the window holds: [hdr FIRST len1][payload len1][torn rest r] */
  __CPROVER_assume(lr.eof == 1 && lr.buffer.size >= LDB_HEADER_SIZE);
  len1 = (size_t)lr.buffer.data[4] | ((size_t)lr.buffer.data[5] << 8);
  __CPROVER_assume(lr.buffer.data[6] == LDB_TYPE_FIRST && LDB_HEADER_SIZE + len1 <= lr.buffer.size);
  r = lr.buffer.size - LDB_HEADER_SIZE - len1;
  if (r >= LDB_HEADER_SIZE) {
    const uint8_t *h2 = lr.buffer.data + LDB_HEADER_SIZE + len1;
    size_t len2 = (size_t)h2[4] | ((size_t)h2[5] << 8);
    __CPROVER_assume(LDB_HEADER_SIZE + len2 > r); /* torn payload */
  }
  g_force_match = 1;
  rc = ldb_reader_read_record(&lr, &record, &scratch);
  CHECK(rc == 0, "torn tail inside a fragmented record: no record is returned");
  CHECK(g_reports == 0, "torn tail inside a fragmented record: nothing is reported (not a corruption)");
  CHECK(scratch.size == 0, "torn tail inside a fragmented record: the partial record is discarded");
  CHECK(lr.eof == 1 && lr.buffer.size == 0, "torn tail: reader is at end of file");
  CANARY();
}
