/* units/buf.c - proof units for src/util/slice.c and src/util/buffer.c (C17, C18, C16)
 * Both repository files are included unmodified; ldb_malloc/ldb_realloc/ldb_free
 * come from the real src/util/internal.c (linked). */
#include "verif.h"
#include "contracts/coding.h"
#include "contracts/buf.h"

#include "util/buffer.c"
#include "util/slice.c"

/* an owned buffer in an arbitrary state satisfying the representation
 * invariant: arbitrary capacity (<= 2^47), arbitrary fill, arbitrary content;
 * plus the ghost indices */
#define MK_BUF(z) MK_BUF_CAP(z, VERIF_OBJ_MAX)
#define MK_BUF_CAP(z, cap) \
  IN_SIZE(in_alloc); IN_SIZE(in_size); IN_SIZE(in_j); IN_SIZE(in_k); ldb_buffer_t z; \
  ASSUME(in_size <= in_alloc && in_alloc <= (cap)); \
  z.alloc = in_alloc; z.size = in_size; z.data = in_alloc ? malloc(in_alloc) : NULL; \
  ASSUME(in_alloc == 0 || z.data != NULL); \
  g_bj = in_j; g_bk = in_k; g_bold = (in_j < in_size) ? z.data[in_j] : 0; \
  uint8_t *old_data = z.data; (void)old_data
/* a source slice of arbitrary length <= cap and content */
#define MK_SRC(x, cap) \
  IN_SIZE(in_xn); ASSUME(in_xn <= (cap)); IN_BUF(src, in_xn); SNAP_BUF(src, in_xn); ldb_slice_t x; \
  x.data = src; x.size = in_xn; x.alloc = 0

/* the vacuity canary is placed on the small-size paths only: CBMC's trace
 * printer runs out of memory when the counterexample it prints for the
 * (always failing) canary contains arrays of 2^40+ bytes */
#define CANARY_SMALL(cond) do { if (cond) { CANARY(); } } while (0)
#define CHK_RI(z, what) CHECK(BUF_RI(&z), what ": representation invariant size <= alloc, data valid for alloc bytes")
#define CHK_KEEP_IF(c, z, what) CHECK(!(c) || !(in_j < in_size) || z.data[in_j] == g_bold, what ": bytes already in the buffer are kept")
#define CHK_KEEP(z, what) CHECK(!(in_j < in_size) || z.data[in_j] == g_bold, what ": bytes already in the buffer are kept")

/* ------------------------------------------------------------ slice readers */

void h_slice_read(void) {
  IN_SIZE(in_n); IN_BUF(buf, in_n); SNAP_BUF(buf, in_n);
  ldb_slice_t z; const uint8_t *p = buf; size_t n = in_n;
  uint8_t *zd0 = (uint8_t *)&z; /* any recognisable value */
  int r;
  z.data = zd0; z.size = 77; z.alloc = 99;
  r = ldb_slice_read(&z, &p, &n);
  CHECK(POST_LPS_RET(r, buf, in_n), "slice_read: succeeds iff a terminated varint32 prefix (<= 5 bytes) is followed by that many bytes");
  CHECK(POST_LPS_SLICE(r, z.data, z.size, z.alloc, buf, in_n), "slice_read: result is the payload after the prefix, length = prefix value");
  CHECK(POST_LPS_CURSOR(r, p, n, buf, in_n), "slice_read: cursor advanced by prefix + length");
  CHECK(POST_LPS_FAIL(r, p, n, buf, in_n), "slice_read: on failure the cursor is still inside the input");
  CHECK(r != 0 || (z.data == zd0 && z.size == 77 && z.alloc == 99), "slice_read: on failure the output slice is untouched");
  CHECK(r != 1 || (z.data >= buf && z.size <= in_n && z.data + z.size <= buf + in_n), "slice_read: result lies inside the input");
  CANARY();
}

void h_slice_slurp(void) {
  IN_SIZE(in_n); IN_BUF(buf, in_n); SNAP_BUF(buf, in_n);
  ldb_slice_t z, x; uint8_t *zd0 = (uint8_t *)&z; int r;
  z.data = zd0; z.size = 77; z.alloc = 99;
  x.data = buf; x.size = in_n; x.alloc = 5;
  r = ldb_slice_slurp(&z, &x);
  CHECK(POST_LPS_RET(r, buf, in_n), "slice_slurp: succeeds iff a complete length-prefixed slice is at the front");
  CHECK(POST_LPS_SLICE(r, z.data, z.size, z.alloc, buf, in_n), "slice_slurp: result is the payload after the prefix");
  CHECK(POST_LPS_CURSOR(r, x.data, x.size, buf, in_n), "slice_slurp: input advanced by prefix + length");
  CHECK(POST_LPS_FAIL(r, x.data, x.size, buf, in_n), "slice_slurp: on failure the input is still a suffix of the original");
  CHECK(r != 0 || (z.data == zd0 && z.size == 77 && z.alloc == 99), "slice_slurp: on failure the output slice is untouched");
  CANARY();
}

void h_slice_import(void) {
  IN_SIZE(in_n); IN_BUF(buf, in_n); SNAP_BUF(buf, in_n);
  ldb_slice_t z, x; uint8_t *zd0 = (uint8_t *)&z; int r;
  z.data = zd0; z.size = 77; z.alloc = 99;
  x.data = buf; x.size = in_n; x.alloc = 5;
  r = ldb_slice_import(&z, &x);
  CHECK(POST_LPS_RET(r, buf, in_n), "slice_import: succeeds iff a complete length-prefixed slice is at the front");
  CHECK(POST_LPS_SLICE(r, z.data, z.size, z.alloc, buf, in_n), "slice_import: result is the payload after the prefix");
  CHECK(x.data == buf && x.size == in_n && x.alloc == 5, "slice_import: the source slice is not modified");
  CHECK(r != 0 || (z.data == zd0 && z.size == 77 && z.alloc == 99), "slice_import: on failure the output slice is untouched");
  CANARY();
}

/* ldb_slice_decode (slice.h): prefix known to be well formed (memtable entries) */
#ifndef VERIF_NATIVE
ldb_slice_t c_slice_decode(const uint8_t *xp)
__CPROVER_requires(__CPROVER_r_ok(xp, 1) && ((xp[0] & 128) == 0 || (__CPROVER_r_ok(xp, 2) && ((xp[1] & 128) == 0 || (__CPROVER_r_ok(xp, 3) && ((xp[2] & 128) == 0 || (__CPROVER_r_ok(xp, 4) && ((xp[3] & 128) == 0 || (__CPROVER_r_ok(xp, 5) && (xp[4] & 128) == 0)))))))))
__CPROVER_assigns()
__CPROVER_ensures(__CPROVER_return_value.data == xp + LPS_K(xp, 5) && __CPROVER_return_value.size == LPS_LEN(xp, 5) && __CPROVER_return_value.alloc == 0)
;
#endif
void h_slice_decode(void) {
  IN_SIZE(in_n); IN_BUF(buf, in_n); SNAP_BUF(buf, in_n);
  ldb_slice_t z;
  ASSUME(LPS_K(buf, in_n) > 0);
  z = ldb_slice_decode(buf);
  CHECK(z.data == buf + LPS_K(buf, in_n) && z.size == LPS_LEN(buf, in_n) && z.alloc == 0, "slice_decode: payload pointer after the prefix, size = prefix value; reads only the prefix bytes");
  CANARY();
}

/* ------------------------------------------------------------ slice writers */

void h_slice_size(void) {
  IN_SIZE(in_xn); ldb_slice_t x; size_t r;
  ASSUME(in_xn <= VERIF_U32_MAX);
  x.data = NULL; x.size = in_xn; x.alloc = 0;
  r = ldb_slice_size(&x);
  CHECK(r == V32_SIZE(in_xn) + in_xn, "slice_size: varint32 prefix length + payload length");
  CANARY();
}

void h_slice_write(void) {
  IN_SIZE(in_k); MK_SRC(x, VERIF_U32_MAX);
  uint8_t *out = malloc(V32_SIZE(in_xn) + in_xn), *r;
  ASSUME(out != NULL);
  g_bk = in_k;
  r = ldb_slice_write(out, &x);
  CHECK(r == out + V32_SIZE(in_xn) + in_xn, "slice_write: emits prefix + payload bytes exactly");
  CHECK(LPS_PREFIX_IS(out, in_xn), "slice_write: prefix is LEB128(length)");
  CHECK(!(in_k < in_xn) || out[V32_SIZE(in_xn) + in_k] == src[in_k], "slice_write: payload bytes follow the prefix");
  CANARY_SMALL(in_xn <= 64);
}

#define H_SLICE_EXPORT(fname, cap, srccap, content) void fname(void) { \
  g_bcontent = (content); \
  MK_BUF_CAP(z, cap); MK_SRC(x, srccap); \
  ldb_slice_export(&z, &x); \
  CHK_RI(z, "slice_export"); \
  CHECK(z.size == in_size + V32_SIZE(in_xn) + in_xn, "slice_export: size grows by prefix + payload"); \
  CHK_KEEP_IF(g_bcontent, z, "slice_export"); \
  CHECK(!g_bcontent || (LPS_PREFIX_IS(z.data + in_size, in_xn)), "slice_export: LEB128(length) lands at the old end"); \
  CHECK(!g_bcontent || (!(in_k < in_xn) || z.data[in_size + V32_SIZE(in_xn) + in_k] == src[in_k]), "slice_export: payload follows the prefix"); \
  CANARY_SMALL(in_alloc <= 64 && in_xn <= 64); \
}
H_SLICE_EXPORT(h_slice_export, VERIF_OBJ_MAX, VERIF_U32_MAX, 0)
H_SLICE_EXPORT(h_slice_export_b, BUF_CONTENT_MAX, BUF_CONTENT_MAX, 1)

/* ------------------------------------------------------------------ buffer */

void h_buffer_init(void) { ldb_buffer_t z; ldb_buffer_init(&z); CHECK(z.data == NULL && z.size == 0 && z.alloc == 0, "buffer_init: empty buffer"); CANARY(); }

void h_buffer_clear(void) {
  MK_BUF(z);
  ldb_buffer_clear(&z);
  CHECK(z.data == NULL && z.size == 0 && z.alloc == 0, "buffer_clear: empty buffer, storage released");
  CANARY_SMALL(in_alloc <= 64);
}

void h_buffer_reset(void) {
  MK_BUF(z);
  ldb_buffer_reset(&z);
  CHECK(z.size == 0 && z.data == old_data && z.alloc == in_alloc, "buffer_reset: size 0, storage kept");
  CANARY_SMALL(in_alloc <= 64);
}

void h_buffer_reinit(void) {
  MK_BUF(z); IN_SIZE(in_zn);
  ASSUME(in_zn <= VERIF_OBJ_MAX);
  ldb_buffer_reinit(&z, in_zn);
  CHK_RI(z, "buffer_reinit");
  CHECK(z.size == 0 && z.alloc == in_zn, "buffer_reinit: empty with exactly the requested capacity");
  CANARY_SMALL(in_alloc <= 64 && in_zn <= 64);
}

void h_buffer_grow(void) {
  MK_BUF(z); IN_SIZE(in_zn); uint8_t *r;
  ASSUME(in_zn <= VERIF_OBJ_MAX);
  r = ldb_buffer_grow(&z, in_zn);
  CHK_RI(z, "buffer_grow");
  CHECK(r == z.data && z.size == in_size && z.alloc == (in_zn > in_alloc ? in_zn : in_alloc), "buffer_grow: capacity = max(old, requested), size unchanged");
  CHK_KEEP(z, "buffer_grow");
  CANARY_SMALL(in_alloc <= 64 && in_zn <= 64);
}

void h_buffer_expand(void) {
  MK_BUF(z); IN_SIZE(in_xn); uint8_t *r;
  ASSUME(in_xn <= VERIF_OBJ_MAX);
  r = ldb_buffer_expand(&z, in_xn);
  CHK_RI(z, "buffer_expand");
  CHECK(z.size == in_size && z.alloc >= in_size + in_xn, "buffer_expand: room for xn more bytes, size unchanged");
  CHECK(r == (z.alloc == 0 ? (uint8_t *)NULL : z.data + in_size), "buffer_expand: returns the write position (end of content)");
  CHK_KEEP(z, "buffer_expand");
  CANARY_SMALL(in_alloc <= 64 && in_xn <= 64);
}

void h_buffer_resize(void) {
  MK_BUF(z); IN_SIZE(in_zn); uint8_t *r;
  ASSUME(in_zn <= VERIF_OBJ_MAX);
  r = ldb_buffer_resize(&z, in_zn);
  CHK_RI(z, "buffer_resize");
  CHECK(r == z.data && z.size == in_zn, "buffer_resize: size = requested");
  CHECK(!(in_j < in_size && in_j < in_zn) || z.data[in_j] == g_bold, "buffer_resize: surviving prefix is kept");
  CANARY_SMALL(in_alloc <= 64 && in_zn <= 64);
}

void h_buffer_set(void) {
  MK_BUF(z); MK_SRC(x, VERIF_OBJ_MAX);
  ldb_buffer_set(&z, x.data, x.size);
  CHK_RI(z, "buffer_set");
  CHECK(z.size == in_xn, "buffer_set: size = source length");
  CHECK(!(in_k < in_xn) || z.data[in_k] == src[in_k], "buffer_set: content = source bytes");
  CANARY_SMALL(in_alloc <= 64 && in_xn <= 64);
}

void h_buffer_copy(void) {
  MK_BUF(z); MK_SRC(x, VERIF_OBJ_MAX);
  ldb_buffer_copy(&z, &x);
  CHK_RI(z, "buffer_copy");
  CHECK(z.size == in_xn, "buffer_copy: size = source length");
  CHECK(!(in_k < in_xn) || z.data[in_k] == src[in_k], "buffer_copy: content = source bytes");
  CHECK(x.data == src && x.size == in_xn && x.alloc == 0, "buffer_copy: source untouched");
  CANARY_SMALL(in_alloc <= 64 && in_xn <= 64);
}

void h_buffer_swap(void) {
  ldb_buffer_t x, y; IN_SIZE(in_a); IN_SIZE(in_b); IN_SIZE(in_c); IN_SIZE(in_d);
  uint8_t m, n;
  x.data = &m; x.size = in_a; x.alloc = in_b; y.data = &n; y.size = in_c; y.alloc = in_d;
  ldb_buffer_swap(&x, &y);
  CHECK(x.data == &n && x.size == in_c && x.alloc == in_d && y.data == &m && y.size == in_a && y.alloc == in_b, "buffer_swap: the two buffers exchange data, size and capacity");
  CANARY();
}

void h_buffer_roset(void) {
  ldb_buffer_t z; IN_SIZE(in_xn); uint8_t m;
  ldb_buffer_roset(&z, &m, in_xn);
  CHECK(z.data == &m && z.size == in_xn && z.alloc == 0, "buffer_roset: read-only view (alloc 0)");
  CANARY();
}
void h_buffer_rocopy(void) {
  ldb_buffer_t z, x; IN_SIZE(in_xn); IN_SIZE(in_xa); uint8_t m;
  x.data = &m; x.size = in_xn; x.alloc = in_xa;
  ldb_buffer_rocopy(&z, &x);
  CHECK(z.data == &m && z.size == in_xn && z.alloc == 0, "buffer_rocopy: read-only view of the source (alloc 0)");
  CANARY();
}
void h_buffer_rwset(void) {
  ldb_buffer_t z; IN_SIZE(in_zn); uint8_t m;
  ldb_buffer_rwset(&z, &m, in_zn);
  CHECK(z.data == &m && z.size == 0 && z.alloc == in_zn, "buffer_rwset: empty buffer over caller storage");
  CANARY_SMALL(in_zn <= 64);
}

void h_buffer_push(void) {
  MK_BUF(z); IN_INT(in_x);
  ldb_buffer_push(&z, in_x);
  CHK_RI(z, "buffer_push");
  CHECK(z.size == in_size + 1 && z.data[in_size] == (uint8_t)(in_x & 0xff), "buffer_push: one byte appended at the old end");
  CHK_KEEP(z, "buffer_push");
  CANARY_SMALL(in_alloc <= 64);
}

#define H_BUFFER_APPEND(fname, cap, srccap) void fname(void) { \
  MK_BUF_CAP(z, cap); MK_SRC(x, srccap); \
  ldb_buffer_append(&z, x.data, x.size); \
  CHK_RI(z, "buffer_append"); \
  CHECK(z.size == in_size + in_xn, "buffer_append: size grows by the appended length"); \
  CHK_KEEP(z, "buffer_append"); \
  CHECK(!(in_k < in_xn) || z.data[in_size + in_k] == src[in_k], "buffer_append: appended bytes land at [old size, old size + n)"); \
  CANARY_SMALL(in_alloc <= 64 && in_xn <= 64); \
}
H_BUFFER_APPEND(h_buffer_append, VERIF_OBJ_MAX, VERIF_OBJ_MAX)
/* twin with small sizes: counterexample traces of the unbounded unit can exceed the trace printer's memory */
H_BUFFER_APPEND(h_buffer_append_b, 4096, 4096)

void h_buffer_concat(void) {
  MK_BUF(z); MK_SRC(x, VERIF_OBJ_MAX);
  ldb_buffer_concat(&z, &x);
  CHK_RI(z, "buffer_concat");
  CHECK(z.size == in_size + in_xn, "buffer_concat: size grows by the slice length");
  CHK_KEEP(z, "buffer_concat");
  CHECK(!(in_k < in_xn) || z.data[in_size + in_k] == src[in_k], "buffer_concat: slice bytes land at [old size, old size + n)");
  CANARY_SMALL(in_alloc <= 64 && in_xn <= 64);
}

void h_buffer_pad(void) {
  MK_BUF(z); IN_SIZE(in_xn); uint8_t *r;
  ASSUME(in_xn <= VERIF_OBJ_MAX);
  r = ldb_buffer_pad(&z, in_xn);
  CHK_RI(z, "buffer_pad");
  CHECK(z.size == in_size + in_xn, "buffer_pad: size grows by the padding length");
  CHK_KEEP(z, "buffer_pad");
  CHECK(!(in_k < in_xn) || z.data[in_size + in_k] == 0, "buffer_pad: padding bytes are zero");
  CHECK(r == (z.alloc == 0 ? (uint8_t *)NULL : z.data + in_size), "buffer_pad: returns the start of the padding");
  CANARY_SMALL(in_alloc <= 64 && in_xn <= 64);
}

void h_buffer_fixed32(void) {
  MK_BUF(z); IN_U32(in_x);
  ldb_buffer_fixed32(&z, in_x);
  CHK_RI(z, "buffer_fixed32");
  CHECK(z.size == in_size + 4 && IS_LE32(z.data + in_size, in_x), "buffer_fixed32: 4 little-endian bytes at the old end");
  CHK_KEEP(z, "buffer_fixed32");
  CANARY_SMALL(in_alloc <= 64);
}
#define H_BUFFER_FIXED64(fname, cap, srccap, content) void fname(void) { \
  g_bcontent = (content); \
  MK_BUF_CAP(z, cap); IN_U64(in_x); \
  ldb_buffer_fixed64(&z, in_x); \
  CHK_RI(z, "buffer_fixed64"); \
  CHECK(z.size == in_size + 8 && (!g_bcontent || IS_LE64(z.data + in_size, in_x)), "buffer_fixed64: 8 little-endian bytes at the old end"); \
  CHK_KEEP_IF(g_bcontent, z, "buffer_fixed64"); \
  CANARY_SMALL(in_alloc <= 64); \
}
H_BUFFER_FIXED64(h_buffer_fixed64, VERIF_OBJ_MAX, VERIF_U32_MAX, 0)
H_BUFFER_FIXED64(h_buffer_fixed64_b, BUF_CONTENT_MAX, BUF_CONTENT_MAX, 1)
#define H_BUFFER_VARINT32(fname, cap, srccap, content) void fname(void) { \
  g_bcontent = (content); \
  MK_BUF_CAP(z, cap); IN_U32(in_x); \
  ldb_buffer_varint32(&z, in_x); \
  CHK_RI(z, "buffer_varint32"); \
  CHECK(z.size == in_size + V32_SIZE(in_x), "buffer_varint32: size grows by the LEB128 length"); \
  CHECK(!g_bcontent || (V_WELLFORMED(z.data + in_size, V32_SIZE(in_x)) && V32_VAL(z.data + in_size, V32_SIZE(in_x)) == in_x), "buffer_varint32: LEB128(x) at the old end"); \
  CHK_KEEP_IF(g_bcontent, z, "buffer_varint32"); \
  CANARY_SMALL(in_alloc <= 64); \
}
H_BUFFER_VARINT32(h_buffer_varint32, VERIF_OBJ_MAX, VERIF_U32_MAX, 0)
H_BUFFER_VARINT32(h_buffer_varint32_b, BUF_CONTENT_MAX, BUF_CONTENT_MAX, 1)
#define H_BUFFER_VARINT64(fname, cap, srccap, content) void fname(void) { \
  g_bcontent = (content); \
  MK_BUF_CAP(z, cap); IN_U64(in_x); \
  ldb_buffer_varint64(&z, in_x); \
  CHK_RI(z, "buffer_varint64"); \
  CHECK(z.size == in_size + V64_SIZE(in_x), "buffer_varint64: size grows by the LEB128 length"); \
  CHECK(!g_bcontent || (V_WELLFORMED(z.data + in_size, V64_SIZE(in_x)) && V64_VAL(z.data + in_size, V64_SIZE(in_x)) == in_x), "buffer_varint64: LEB128(x) at the old end"); \
  CHK_KEEP_IF(g_bcontent, z, "buffer_varint64"); \
  CANARY_SMALL(in_alloc <= 64); \
}
H_BUFFER_VARINT64(h_buffer_varint64, VERIF_OBJ_MAX, VERIF_U32_MAX, 0)
H_BUFFER_VARINT64(h_buffer_varint64_b, BUF_CONTENT_MAX, BUF_CONTENT_MAX, 1)

void h_buffer_size(void) {
  IN_SIZE(in_xn); ldb_buffer_t x; size_t r;
  ASSUME(in_xn <= VERIF_U32_MAX);
  x.data = NULL; x.size = in_xn; x.alloc = 0;
  r = ldb_buffer_size(&x);
  CHECK(r == V32_SIZE(in_xn) + in_xn, "buffer_size: varint32 prefix length + payload length");
  CANARY();
}

void h_buffer_write(void) {
  IN_SIZE(in_k); MK_SRC(x, VERIF_U32_MAX);
  uint8_t *out = malloc(V32_SIZE(in_xn) + in_xn), *r;
  ASSUME(out != NULL);
  g_bk = in_k;
  r = ldb_buffer_write(out, &x);
  CHECK(r == out + V32_SIZE(in_xn) + in_xn, "buffer_write: emits prefix + payload bytes exactly");
  CHECK(LPS_PREFIX_IS(out, in_xn), "buffer_write: prefix is LEB128(length)");
  CHECK(!(in_k < in_xn) || out[V32_SIZE(in_xn) + in_k] == src[in_k], "buffer_write: payload bytes follow the prefix");
  CANARY_SMALL(in_xn <= 64);
}

#define H_BUFFER_EXPORT(fname, cap, srccap, content) void fname(void) { \
  g_bcontent = (content); \
  MK_BUF_CAP(z, cap); MK_SRC(x, srccap); \
  ldb_buffer_export(&z, &x); \
  CHK_RI(z, "buffer_export"); \
  CHECK(z.size == in_size + V32_SIZE(in_xn) + in_xn, "buffer_export: size grows by prefix + payload"); \
  CHK_KEEP_IF(g_bcontent, z, "buffer_export"); \
  CHECK(!g_bcontent || (LPS_PREFIX_IS(z.data + in_size, in_xn)), "buffer_export: LEB128(length) lands at the old end"); \
  CHECK(!g_bcontent || (!(in_k < in_xn) || z.data[in_size + V32_SIZE(in_xn) + in_k] == src[in_k]), "buffer_export: payload follows the prefix"); \
  CANARY_SMALL(in_alloc <= 64 && in_xn <= 64); \
}
H_BUFFER_EXPORT(h_buffer_export, VERIF_OBJ_MAX, VERIF_U32_MAX, 0)
H_BUFFER_EXPORT(h_buffer_export_b, BUF_CONTENT_MAX, BUF_CONTENT_MAX, 1)

void h_buffer_read(void) {
  MK_BUF(z); IN_SIZE(in_n); IN_BUF(buf, in_n); SNAP_BUF(buf, in_n);
  const uint8_t *p = buf; size_t n = in_n; int r;
  r = ldb_buffer_read(&z, &p, &n);
  CHK_RI(z, "buffer_read");
  CHECK(POST_LPS_RET(r, buf, in_n), "buffer_read: succeeds iff a complete length-prefixed slice is at the front");
  CHECK(POST_LPS_CURSOR(r, p, n, buf, in_n), "buffer_read: cursor advanced by prefix + length");
  CHECK(POST_LPS_FAIL(r, p, n, buf, in_n), "buffer_read: on failure the cursor is still inside the input");
  CHECK(POST_BUFREAD(r, &z, buf, in_n, in_size, in_alloc, old_data), "buffer_read: buffer = copy of the payload on success, untouched on failure");
  CANARY_SMALL(in_alloc <= 64 && in_n <= 64);
}
void h_buffer_slurp(void) {
  MK_BUF(z); IN_SIZE(in_n); IN_BUF(buf, in_n); SNAP_BUF(buf, in_n);
  ldb_slice_t x; int r;
  x.data = buf; x.size = in_n; x.alloc = 5;
  r = ldb_buffer_slurp(&z, &x);
  CHK_RI(z, "buffer_slurp");
  CHECK(POST_LPS_RET(r, buf, in_n), "buffer_slurp: succeeds iff a complete length-prefixed slice is at the front");
  CHECK(POST_LPS_CURSOR(r, x.data, x.size, buf, in_n), "buffer_slurp: input advanced by prefix + length");
  CHECK(POST_LPS_FAIL(r, x.data, x.size, buf, in_n), "buffer_slurp: on failure the input is still a suffix of the original");
  CHECK(POST_BUFREAD(r, &z, buf, in_n, in_size, in_alloc, old_data), "buffer_slurp: buffer = copy of the payload on success, untouched on failure");
  CANARY_SMALL(in_alloc <= 64 && in_n <= 64);
}
void h_buffer_import(void) {
  MK_BUF(z); IN_SIZE(in_n); IN_BUF(buf, in_n); SNAP_BUF(buf, in_n);
  ldb_slice_t x; int r;
  x.data = buf; x.size = in_n; x.alloc = 5;
  r = ldb_buffer_import(&z, &x);
  CHK_RI(z, "buffer_import");
  CHECK(POST_LPS_RET(r, buf, in_n), "buffer_import: succeeds iff a complete length-prefixed slice is at the front");
  CHECK(POST_BUFREAD(r, &z, buf, in_n, in_size, in_alloc, old_data), "buffer_import: buffer = copy of the payload on success, untouched on failure");
  CHECK(x.data == buf && x.size == in_n && x.alloc == 5, "buffer_import: the source slice is not modified");
  CANARY_SMALL(in_alloc <= 64 && in_n <= 64);
}
