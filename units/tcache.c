/* units/tcache.c - proof units for src/table_cache.c (C01, C13, C11)
 *   tcache.find      find_table
 *   tcache.get       ldb_tables_get
 *   tcache.iterate   ldb_tables_iterate
 *   tcache.evict     ldb_tables_evict
 *
 * The real table_cache.c is included unmodified.  LRU cache, file names,
 * random-access files, ldb_table_open and ldb_table_internal_get are recording
 * stubs; every open may fail with any status.
 */
#include "verif.h"
#include "contracts/coding.h"

#include "table/iterator.h"
#include "table/table.h"
#include "util/cache.h"
#include "util/coding.h"
#include "util/env.h"
#include "util/internal.h"
#include "util/options.h"
#include "util/slice.h"
#include "util/status.h"
#include "filename.h"
#include "table_cache.h"

int nondet_int(void);
uint64_t nondet_u64(void);

/* ------------------------------------------------------------------ ghost */
struct ldb_lru_s { int dummy; };
struct ldb_entry_s { int dummy; };
struct ldb_rfile_s { int dummy; };
ldb_lru_t g_lru;
ldb_entry_t g_hit, g_ins;                 /* handles handed out by lookup (hit) / insert */
ldb_rfile_t g_rfile[2];                   /* what the k-th randfile_create hands out      */
int g_table_tag, g_hit_table_tag;         /* identities of table objects                  */
ldb_iter_t g_empty_iter, g_table_iter;
ldb_dbopt_t g_opt;
const char g_dbname[4] = "db";

struct tc_entry { ldb_rfile_t *file; ldb_table_t *table; };   /* = table_entry_t */

struct tc_in {
  int lookup_hit;
  int name_ok, legacy_ok;                 /* ldb_table_filename / ldb_sstable_filename succeed */
  struct tc_entry *hit_entry, *ins_entry; /* get/iterate: entries behind the two handles   */
  const ldb_readopt_t *ropt; const ldb_slice_t *key; void *arg;
} IN;

static void stub_saver(void *arg, const ldb_slice_t *k, const ldb_slice_t *v) { (void)arg; (void)k; (void)v; }

struct tc_rec {
  unsigned long clock;
  int lk_calls; size_t lk_n; uint8_t lk_key[8];
  int tn_calls, sn_calls; uint64_t tn_num, sn_num; const char *tn_db, *sn_db; char *tn_buf, *sn_buf; int last_name;  /* 1 = table name, 2 = legacy name in the buffer */
  int rf_calls; int rf_rc[2]; int rf_name[2]; int rf_mmap[2]; const char *rf_fname[2];
  int to_calls, to_rc; const ldb_dbopt_t *to_opt; const ldb_rfile_t *to_file; uint64_t to_size;
  int fd_calls; const ldb_rfile_t *fd_file;
  int ins_calls; size_t ins_n; uint8_t ins_key[8]; void *ins_value; size_t ins_charge; void (*ins_deleter)(const ldb_slice_t *, void *);
  const ldb_rfile_t *ins_file; const ldb_table_t *ins_table;
  int get_calls, get_rc; const ldb_table_t *get_table; const ldb_readopt_t *get_opt; const ldb_slice_t *get_key; void *get_arg; void *get_fn; unsigned long t_get;
  int rel_calls; const ldb_entry_t *rel_handle; unsigned long t_rel;
  int er_calls; size_t er_n; uint8_t er_key[8];
  int em_calls, em_rc; int ti_calls; const ldb_table_t *ti_table; const ldb_readopt_t *ti_opt;
  int cl_calls; const ldb_iter_t *cl_iter; ldb_cleanup_f cl_func; void *cl_a1, *cl_a2;
} R;

static unsigned long tick(void) { __CPROVER_assume(R.clock < (1ul << 40)); return ++R.clock; }
static void copy8(uint8_t *z, const uint8_t *x) { int i; for (i = 0; i < 8; i++) z[i] = x[i]; }

ldb_entry_t *ldb_lru_lookup(ldb_lru_t *lru, const ldb_slice_t *key) {
  __CPROVER_assert(lru == &g_lru, "lru_lookup: the table cache's LRU");
  __CPROVER_assert(R.rf_calls == 0, "lru_lookup: before any file is opened");
  R.lk_calls++; R.lk_n = key->size;
  if (key->size == 8) copy8(R.lk_key, key->data);
  return IN.lookup_hit ? &g_hit : NULL;
}
ldb_entry_t *ldb_lru_insert(ldb_lru_t *lru, const ldb_slice_t *key, void *value, size_t charge, void (*deleter)(const ldb_slice_t *key, void *value)) {
  __CPROVER_assert(lru == &g_lru, "lru_insert: the table cache's LRU");
  __CPROVER_assert(R.to_calls == 1 && R.to_rc == LDB_OK, "lru_insert: only a successfully opened table is cached");
  R.ins_calls++; R.ins_n = key->size; R.ins_value = value; R.ins_charge = charge; R.ins_deleter = deleter;
  if (key->size == 8) copy8(R.ins_key, key->data);
  R.ins_file = ((struct tc_entry *)value)->file; R.ins_table = ((struct tc_entry *)value)->table;
  return &g_ins;
}
void *ldb_lru_value(ldb_entry_t *handle) {
  __CPROVER_assert(handle == &g_hit || handle == &g_ins, "lru_value: of a handle the cache handed out");
  return handle == &g_hit ? (void *)IN.hit_entry : (void *)IN.ins_entry;
}
void ldb_lru_release(ldb_lru_t *lru, ldb_entry_t *handle) {
  __CPROVER_assert(lru == &g_lru, "lru_release: the table cache's LRU");
  R.rel_calls++; R.rel_handle = handle; R.t_rel = tick();
}
void ldb_lru_erase(ldb_lru_t *lru, const ldb_slice_t *key) {
  __CPROVER_assert(lru == &g_lru, "lru_erase: the table cache's LRU");
  R.er_calls++; R.er_n = key->size;
  if (key->size == 8) copy8(R.er_key, key->data);
}
ldb_lru_t *ldb_lru_create(size_t capacity) { (void)capacity; return &g_lru; }
void ldb_lru_destroy(ldb_lru_t *lru) { (void)lru; }

int ldb_table_filename(char *buf, size_t size, const char *dbname, uint64_t num) {
  R.tn_calls++; R.tn_num = num; R.tn_db = dbname; R.tn_buf = buf;
  if (IN.name_ok) R.last_name = 1;
  return IN.name_ok;
}
int ldb_sstable_filename(char *buf, size_t size, const char *dbname, uint64_t num) {
  __CPROVER_assert(R.tn_calls == 1 && buf == R.tn_buf, "sstable_filename: legacy name built in the same buffer, after the .ldb name failed to open");
  R.sn_calls++; R.sn_num = num; R.sn_db = dbname; R.sn_buf = buf;
  if (IN.legacy_ok) R.last_name = 2;
  return IN.legacy_ok;
}
int ldb_randfile_create(const char *filename, ldb_rfile_t **file, int use_mmap) {
  int k = R.rf_calls, rc = nondet_int();
  __CPROVER_assert(k < 2, "randfile_create: at most two attempts (.ldb, then legacy .sst)");
  __CPROVER_assume(k < 2);
  R.rf_calls++; R.rf_rc[k] = rc; R.rf_name[k] = R.last_name; R.rf_mmap[k] = use_mmap; R.rf_fname[k] = filename;
  if (rc != LDB_OK) {
    __CPROVER_assume((rc >= LDB_MINERR && rc <= LDB_MAXERR) || (rc > 0 && rc < 200));
    return rc;                 /* *file untouched (env_unix_impl.h / env_win_impl.h) */
  }
  *file = &g_rfile[k];
  return LDB_OK;
}
void ldb_rfile_destroy(ldb_rfile_t *file) { R.fd_calls++; R.fd_file = file; }
int ldb_table_open(const ldb_dbopt_t *options, ldb_rfile_t *file, uint64_t size, ldb_table_t **table) {
  int rc = nondet_int();
  R.to_calls++; R.to_opt = options; R.to_file = file; R.to_size = size; R.to_rc = rc;
  if (rc != LDB_OK) {
    __CPROVER_assume((rc >= LDB_MINERR && rc <= LDB_MAXERR) || (rc > 0 && rc < 200));
    *table = NULL;             /* tbl.open: every failure leaves no table object */
    return rc;
  }
  *table = (ldb_table_t *)&g_table_tag;
  return LDB_OK;
}
void ldb_table_destroy(ldb_table_t *table) { (void)table; }
int ldb_table_internal_get(ldb_table_t *table, const ldb_readopt_t *options, const ldb_slice_t *k, void *arg,
                           void (*handle_result)(void *, const ldb_slice_t *, const ldb_slice_t *)) {
  R.get_calls++; R.get_table = table; R.get_opt = options; R.get_key = k; R.get_arg = arg; R.get_fn = (void *)handle_result; R.get_rc = nondet_int(); R.t_get = tick();
  __CPROVER_assert(R.rel_calls == 0, "internal_get: the cache handle (which pins the table) is still held");
  return R.get_rc;
}
ldb_iter_t *ldb_emptyiter_create(int status) { R.em_calls++; R.em_rc = status; return &g_empty_iter; }
ldb_iter_t *ldb_tableiter_create(const ldb_table_t *table, const ldb_readopt_t *options) { R.ti_calls++; R.ti_table = table; R.ti_opt = options; return &g_table_iter; }
void ldb_iter_register_cleanup(ldb_iter_t *iter, ldb_cleanup_f func, void *arg1, void *arg2) { R.cl_calls++; R.cl_iter = iter; R.cl_func = func; R.cl_a1 = arg1; R.cl_a2 = arg2; }

#include "table_cache.c"

/* ============================================================= tcache.find */
#define TC_PRE(cache) (__CPROVER_r_ok(cache, sizeof(*(cache))) && (cache)->lru == &g_lru && (cache)->options == &g_opt && (cache)->dbname == g_dbname)
#define FT_MISS (!IN.lookup_hit)
#define FT_OPENED1 (FT_MISS && IN.name_ok && R.rf_rc[0] == LDB_OK)
#define FT_TRY2 (FT_MISS && IN.name_ok && R.rf_rc[0] != LDB_OK && IN.legacy_ok)
#define FT_OPENED2 (FT_TRY2 && R.rf_rc[1] == LDB_OK)
#define FT_OPENED (FT_OPENED1 || FT_OPENED2)
#define FT_FILE (FT_OPENED1 ? &g_rfile[0] : &g_rfile[1])
#define KEY8_IS(kb, x) IS_LE64(kb, x)

int c_find_table(ldb_tables_t *cache, uint64_t file_number, uint64_t file_size, ldb_entry_t **handle)
__CPROVER_requires(TC_PRE(cache) && __CPROVER_w_ok(handle, sizeof(*handle)))
__CPROVER_requires(R.lk_calls == 0 && R.tn_calls == 0 && R.sn_calls == 0 && R.rf_calls == 0 && R.to_calls == 0 && R.fd_calls == 0 && R.ins_calls == 0 && R.last_name == 0)
__CPROVER_assigns(*handle, R)
/* keeps the points-to set of the handle across a replaced call */
__CPROVER_ensures(*handle == NULL || *handle == &g_hit || *handle == &g_ins)
/* the cache is keyed by LE64(file number) */
__CPROVER_ensures(R.lk_calls == 1 && R.lk_n == 8 && KEY8_IS(R.lk_key, file_number))
/* hit: that entry; nothing is opened */
__CPROVER_ensures(!FT_MISS ==> (__CPROVER_return_value == LDB_OK && *handle == &g_hit && R.tn_calls == 0 && R.rf_calls == 0 && R.to_calls == 0 && R.ins_calls == 0 && R.fd_calls == 0))
/* miss: <dbname>/<number>.ldb is opened with the configured access mode; if that fails the legacy <number>.sst */
__CPROVER_ensures(FT_MISS ==> (R.tn_calls == 1 && R.tn_num == file_number && R.tn_db == cache->dbname))
__CPROVER_ensures(FT_MISS && !IN.name_ok ==> (__CPROVER_return_value == LDB_INVALID && R.rf_calls == 0))
__CPROVER_ensures(FT_MISS && IN.name_ok ==> (R.rf_calls >= 1 && R.rf_name[0] == 1 && R.rf_fname[0] == R.tn_buf && R.rf_mmap[0] == g_opt.use_mmap))
__CPROVER_ensures(R.sn_calls == ((FT_MISS && IN.name_ok && R.rf_rc[0] != LDB_OK) ? 1 : 0))
__CPROVER_ensures(R.sn_calls == 1 ==> (R.sn_num == file_number && R.sn_db == cache->dbname))
__CPROVER_ensures(R.sn_calls == 1 && !IN.legacy_ok ==> (__CPROVER_return_value == LDB_INVALID && R.rf_calls == 1))
__CPROVER_ensures(R.rf_calls == (FT_MISS && IN.name_ok ? (FT_TRY2 ? 2 : 1) : 0))
__CPROVER_ensures(FT_TRY2 ==> (R.rf_name[1] == 2 && R.rf_mmap[1] == g_opt.use_mmap))
/* neither name can be opened: the error of the FIRST attempt is reported */
__CPROVER_ensures(FT_TRY2 && !FT_OPENED2 ==> __CPROVER_return_value == R.rf_rc[0])
/* the table is opened over that file with the DB options and the size recorded in the version */
__CPROVER_ensures(R.to_calls == (FT_OPENED ? 1 : 0))
__CPROVER_ensures(FT_OPENED ==> (R.to_opt == cache->options && R.to_file == FT_FILE && R.to_size == file_size))
/* open failure: returned as is, the file is closed, and the failure is NOT cached */
__CPROVER_ensures(FT_OPENED && R.to_rc != LDB_OK ==> (__CPROVER_return_value == R.to_rc && R.fd_calls == 1 && R.fd_file == FT_FILE && R.ins_calls == 0))
/* success: (file, table) is inserted under LE64(file number) with charge 1 and the deleter that destroys table and file */
__CPROVER_ensures(FT_OPENED && R.to_rc == LDB_OK ==> (__CPROVER_return_value == LDB_OK && *handle == &g_ins && R.ins_calls == 1 && R.ins_n == 8 && KEY8_IS(R.ins_key, file_number) &&
                                                    R.ins_charge == 1 && R.ins_deleter == delete_entry && R.ins_file == FT_FILE && R.ins_table == (const ldb_table_t *)&g_table_tag && R.fd_calls == 0))
__CPROVER_ensures(R.ins_calls == ((FT_OPENED && R.to_rc == LDB_OK) ? 1 : 0))
__CPROVER_ensures(!FT_OPENED ==> R.fd_calls == 0)
/* a handle is returned exactly on success */
__CPROVER_ensures((__CPROVER_return_value == LDB_OK) == (*handle != NULL))
__CPROVER_ensures(R.get_calls == __CPROVER_old(R.get_calls) && R.rel_calls == __CPROVER_old(R.rel_calls) && R.em_calls == __CPROVER_old(R.em_calls) && R.ti_calls == __CPROVER_old(R.ti_calls) &&
                  R.cl_calls == __CPROVER_old(R.cl_calls) && R.clock == __CPROVER_old(R.clock))
;

/* ============================================================== tcache.get */
#define FOUND_ENTRY(h) ((h) == &g_hit ? IN.hit_entry : IN.ins_entry)
#define FIND_OK (IN.lookup_hit || (R.ins_calls == 1))
#define FIND_HANDLE (IN.lookup_hit ? &g_hit : &g_ins)

int c_tables_get(ldb_tables_t *cache, const ldb_readopt_t *options, uint64_t file_number, uint64_t file_size, const ldb_slice_t *k, void *arg,
                 void (*handle_result)(void *, const ldb_slice_t *, const ldb_slice_t *))
__CPROVER_requires(TC_PRE(cache) && options == IN.ropt && k == IN.key && arg == IN.arg && handle_result == stub_saver)
__CPROVER_requires(__CPROVER_r_ok(IN.hit_entry, sizeof(struct tc_entry)) && __CPROVER_r_ok(IN.ins_entry, sizeof(struct tc_entry)))
__CPROVER_requires(R.lk_calls == 0 && R.tn_calls == 0 && R.sn_calls == 0 && R.rf_calls == 0 && R.to_calls == 0 && R.fd_calls == 0 && R.ins_calls == 0 && R.last_name == 0 &&
                   R.get_calls == 0 && R.rel_calls == 0 && R.clock == 0)
__CPROVER_assigns(R)
/* the table is found (or opened) under LE64(file number) with the caller's file size */
__CPROVER_ensures(R.lk_calls == 1 && KEY8_IS(R.lk_key, file_number) && (R.to_calls == 0 || R.to_size == file_size))
/* table not available: that status, no lookup in it, nothing to release */
__CPROVER_ensures(!FIND_OK ==> (__CPROVER_return_value != LDB_OK && R.get_calls == 0 && R.rel_calls == 0))
/* otherwise: the lookup runs on the cached table with the caller's arguments, its status is the result, and the handle is released afterwards, exactly once */
__CPROVER_ensures(FIND_OK ==> (R.get_calls == 1 && R.get_table == FOUND_ENTRY(FIND_HANDLE)->table && R.get_opt == options && R.get_key == k && R.get_arg == arg &&
                               R.get_fn == (void *)handle_result && __CPROVER_return_value == R.get_rc))
__CPROVER_ensures(FIND_OK ==> (R.rel_calls == 1 && R.rel_handle == FIND_HANDLE && R.t_get < R.t_rel))
;

/* ========================================================== tcache.iterate */
ldb_iter_t *c_tables_iterate(ldb_tables_t *cache, const ldb_readopt_t *options, uint64_t file_number, uint64_t file_size, ldb_table_t **tableptr)
__CPROVER_requires(TC_PRE(cache) && options == IN.ropt && (tableptr == NULL || __CPROVER_w_ok(tableptr, sizeof(*tableptr))))
__CPROVER_requires(__CPROVER_r_ok(IN.hit_entry, sizeof(struct tc_entry)) && __CPROVER_r_ok(IN.ins_entry, sizeof(struct tc_entry)))
__CPROVER_requires(R.lk_calls == 0 && R.tn_calls == 0 && R.sn_calls == 0 && R.rf_calls == 0 && R.to_calls == 0 && R.fd_calls == 0 && R.ins_calls == 0 && R.last_name == 0 &&
                   R.em_calls == 0 && R.ti_calls == 0 && R.cl_calls == 0 && R.rel_calls == 0)
__CPROVER_assigns(R; tableptr != NULL: *tableptr)
__CPROVER_ensures(R.lk_calls == 1 && KEY8_IS(R.lk_key, file_number) && (R.to_calls == 0 || R.to_size == file_size))
/* table not available: an error iterator carrying exactly that status; *tableptr = NULL */
__CPROVER_ensures(!FIND_OK ==> (__CPROVER_return_value == &g_empty_iter && R.em_calls == 1 && R.em_rc != LDB_OK && R.ti_calls == 0 && R.cl_calls == 0 &&
                                (tableptr == NULL || *tableptr == NULL)))
__CPROVER_ensures(!FIND_OK && R.to_calls == 1 ==> R.em_rc == R.to_rc)
/* otherwise: an iterator over the cached table; the cache handle stays pinned until the iterator is destroyed (cleanup = release of exactly that handle) */
__CPROVER_ensures(FIND_OK ==> (__CPROVER_return_value == &g_table_iter && R.ti_calls == 1 && R.ti_table == FOUND_ENTRY(FIND_HANDLE)->table && R.ti_opt == options && R.em_calls == 0 &&
                               R.cl_calls == 1 && R.cl_iter == &g_table_iter && R.cl_func == unref_entry && R.cl_a1 == (void *)&g_lru && R.cl_a2 == (void *)FIND_HANDLE &&
                               R.rel_calls == 0 && (tableptr == NULL || *tableptr == FOUND_ENTRY(FIND_HANDLE)->table)))
;

/* ============================================================ tcache.evict */
void c_tables_evict(ldb_tables_t *cache, uint64_t file_number)
__CPROVER_requires(TC_PRE(cache) && R.er_calls == 0)
__CPROVER_assigns(R)
__CPROVER_ensures(R.er_calls == 1 && R.er_n == 8 && KEY8_IS(R.er_key, file_number))
__CPROVER_ensures(R.lk_calls == __CPROVER_old(R.lk_calls) && R.ins_calls == __CPROVER_old(R.ins_calls) && R.rf_calls == __CPROVER_old(R.rf_calls) && R.rel_calls == __CPROVER_old(R.rel_calls))
;

/* ------------------------------------------------------------- harnesses */
static ldb_tables_t *setup(void) {
  ldb_tables_t *c = malloc(sizeof(*c));
  struct tc_entry *he = malloc(sizeof(*he)), *ie = malloc(sizeof(*ie));
  ASSUME(c != NULL && he != NULL && ie != NULL);
  c->dbname = g_dbname; c->options = &g_opt; c->lru = &g_lru;
  g_opt.use_mmap = nondet_int();
  he->file = &g_rfile[0]; he->table = (ldb_table_t *)&g_hit_table_tag;
  ie->file = &g_rfile[1]; ie->table = (ldb_table_t *)&g_table_tag;
  IN.hit_entry = he; IN.ins_entry = ie;
  IN.lookup_hit = nondet_int() ? 1 : 0; IN.name_ok = nondet_int() ? 1 : 0; IN.legacy_ok = nondet_int() ? 1 : 0;
  R.clock = 0; R.lk_calls = 0; R.lk_n = 0; R.tn_calls = 0; R.sn_calls = 0; R.last_name = 0; R.rf_calls = 0; R.rf_rc[0] = R.rf_rc[1] = 0; R.rf_name[0] = R.rf_name[1] = 0;
  R.to_calls = 0; R.to_rc = 0; R.fd_calls = 0; R.ins_calls = 0; R.ins_n = 0; R.get_calls = 0; R.get_rc = 0; R.rel_calls = 0; R.er_calls = 0; R.er_n = 0;
  R.em_calls = 0; R.em_rc = 0; R.ti_calls = 0; R.cl_calls = 0; R.t_get = 0; R.t_rel = 0; R.tn_buf = NULL; R.sn_buf = NULL;
  return c;
}

void h_find(void) {
  ldb_tables_t *c = setup(); ldb_entry_t *h; int rc;
  IN_U64(in_number); IN_U64(in_size);
  h = &g_hit;                     /* garbage: callers initialise to NULL, find_table must set it on every path it reads */
  h = NULL;
  rc = find_table(c, in_number, in_size, &h);
  if (rc == LDB_OK && h == &g_ins) free(R.ins_value);   /* the cache owns the entry */
  CANARY();
}
void h_get(void) {
  ldb_tables_t *c = setup(); ldb_readopt_t ro; ldb_slice_t k; int cookie;
  IN_U64(in_number); IN_U64(in_size);
  IN.ropt = &ro; IN.key = &k; IN.arg = &cookie;
  (void)ldb_tables_get(c, &ro, in_number, in_size, &k, &cookie, stub_saver);
  CANARY();
}
void h_iterate(void) {
  ldb_tables_t *c = setup(); ldb_readopt_t ro; ldb_table_t *t = (ldb_table_t *)&g_hit; IN_INT(in_want_table);
  IN_U64(in_number); IN_U64(in_size);
  IN.ropt = &ro;
  (void)ldb_tables_iterate(c, &ro, in_number, in_size, in_want_table ? &t : NULL);
  CANARY();
}
void h_evict(void) {
  ldb_tables_t *c = setup();
  IN_U64(in_number);
  ldb_tables_evict(c, in_number);
  CANARY();
}
