/* units/blkgen.c - proof units for src/table/block_builder.c (C16)
 *
 * The real block_builder.c is included unmodified; util/buffer.c, util/array.c
 * and util/internal.c are linked as they are.
 *
 * Data block format (LevelDB table_format):
 *   entry   := varint32 shared ‖ varint32 non_shared ‖ varint32 value_len ‖ key[shared..] ‖ value
 *   trailer := LE32 restart[n] ‖ LE32 n          (restart[0] = 0; shared = 0 at every restart point)
 */
#include "verif.h"
#include "contracts/coding.h"

#include "table/block_builder.c"

/* ---- size_estimate ---- */
size_t c_blockgen_size_estimate(const ldb_blockgen_t *bb)
__CPROVER_requires(__CPROVER_r_ok(bb, sizeof(*bb)))
__CPROVER_assigns()
/* raw entries + 4 bytes per restart point + 4 bytes for the count (exact in unbounded integers unless the sum wraps) */
__CPROVER_ensures(__CPROVER_return_value == bb->buffer.size + 4 * bb->restarts.length + 4)
;
void h_blockgen_size_estimate(void) {
  ldb_blockgen_t bb; IN_SIZE(in_bsize); IN_SIZE(in_rlen); size_t r;
  bb.options = NULL; bb.buffer.data = NULL; bb.buffer.size = in_bsize; bb.buffer.alloc = 0;
  bb.restarts.items = NULL; bb.restarts.length = in_rlen; bb.restarts.alloc = 0; bb.counter = 0; bb.finished = 0;
  bb.last_key.data = NULL; bb.last_key.size = 0; bb.last_key.alloc = 0;
  r = ldb_blockgen_size_estimate(&bb);
  CHECK(r == in_bsize + 4 * in_rlen + 4, "size_estimate: buffer + 4 bytes per restart + 4 for the count");
  CANARY();
}

/* ---- bounded layout proof: init, add x N, size_estimate, finish, reset ----
 * N <= 3 entries, keys <= 3 bytes, values <= 2 bytes (contents arbitrary),
 * restart interval 1..3.  Every byte of the finished block is checked against
 * the format by an independent encoder written here. */
#define MAXK 3
#define MAXV 2
#define MAXN 3
static size_t lcp(const uint8_t *a, size_t an, const uint8_t *b, size_t bn) {
  size_t i = 0;
  while (i < an && i < bn && a[i] == b[i]) i++;
  return i;
}

void h_blockgen_layout(void) {
  ldb_dbopt_t opt; ldb_blockgen_t bb;
  uint8_t key[MAXN][MAXK], val[MAXN][MAXV]; size_t kn[MAXN], vn[MAXN];
  IN_INT(in_interval); IN_SIZE(in_count);
  IN_SIZE(in_k0); IN_SIZE(in_k1); IN_SIZE(in_k2); IN_SIZE(in_v0); IN_SIZE(in_v1); IN_SIZE(in_v2);
  uint8_t exp[64]; size_t e = 0, nrest = 0, rest[MAXN + 1]; size_t i, j, cnt = 0, est;
  ldb_slice_t out;
  ASSUME(in_interval >= 1 && in_interval <= 3 && in_count <= MAXN);
  kn[0] = in_k0; kn[1] = in_k1; kn[2] = in_k2; vn[0] = in_v0; vn[1] = in_v1; vn[2] = in_v2;
  for (i = 0; i < MAXN; i++) ASSUME(kn[i] <= MAXK && vn[i] <= MAXV);
  opt.block_restart_interval = in_interval; opt.comparator = NULL;

  ldb_blockgen_init(&bb, &opt);
  CHECK(ldb_blockgen_empty(&bb) && bb.restarts.length == 1 && bb.restarts.items[0] == 0 && bb.counter == 0 && !bb.finished,
        "blockgen_init: empty builder whose first restart point is offset 0");
  rest[nrest++] = 0;
  for (i = 0; i < in_count; i++) {
    ldb_slice_t k, v; size_t sh;
    k.data = key[i]; k.size = kn[i]; k.alloc = 0; v.data = val[i]; v.size = vn[i]; v.alloc = 0;
    /* independent encoder: restart every `interval` entries */
    if (cnt == (size_t)in_interval) { rest[nrest++] = e; cnt = 0; sh = 0; }
    else sh = (i == 0) ? 0 : lcp(key[i - 1], kn[i - 1], key[i], kn[i]);
    exp[e++] = (uint8_t)sh; exp[e++] = (uint8_t)(kn[i] - sh); exp[e++] = (uint8_t)vn[i];
    for (j = sh; j < kn[i]; j++) exp[e++] = key[i][j];
    for (j = 0; j < vn[i]; j++) exp[e++] = val[i][j];
    cnt++;
    ldb_blockgen_add(&bb, &k, &v);
    CHECK(bb.buffer.size == e, "blockgen_add: appends varint32 shared, non_shared, value_len, the key suffix and the value - nothing else");
    CHECK(bb.restarts.length == nrest && bb.restarts.items[nrest - 1] == rest[nrest - 1], "blockgen_add: a restart point (offset of this entry) is recorded exactly every restart_interval entries");
    CHECK(bb.last_key.size == kn[i], "blockgen_add: last_key is the key just added");
  }
  est = ldb_blockgen_size_estimate(&bb);
  out = ldb_blockgen_finish(&bb);
  CHECK(bb.finished, "blockgen_finish: builder marked finished");
  CHECK(out.size == e + 4 * nrest + 4 && out.size == est, "blockgen_finish: block = entries, 4 bytes per restart, 4 for the count; size_estimate was exact");
  { IN_SIZE(in_j); ASSUME(in_j < e); CHECK(out.data[in_j] == exp[in_j], "blockgen: every entry byte equals the format's encoding (shared = longest common prefix, 0 at restart points)"); }
  { IN_SIZE(in_r); ASSUME(in_r < nrest); CHECK(LE32_AT(out.data + e + 4 * in_r) == (uint32_t)rest[in_r], "blockgen_finish: restart array holds the entry offsets, little-endian"); }
  CHECK(LE32_AT(out.data + e + 4 * nrest) == (uint32_t)nrest, "blockgen_finish: the last word is the number of restart points");
  ldb_blockgen_reset(&bb);
  CHECK(ldb_blockgen_empty(&bb) && bb.restarts.length == 1 && bb.restarts.items[0] == 0 && bb.counter == 0 && !bb.finished && bb.last_key.size == 0,
        "blockgen_reset: as freshly initialised");
  CANARY();
}
