/* units/life_backup.c - ldb_backup_inner, ldb_backup, ldb_copy, ldb_destroy (src/db_impl.c)     C20
 *   life.backup_inner : per-file-type action table, failure clean-up, destination locked, source never modified
 *   life.backup       : ldb_backup holds the DB mutex, waits for background work (W3), refuses after a background error
 *   life.copy         : ldb_copy requires CURRENT, takes the SOURCE lock around the copy, passes no live set
 *   life.destroy      : ldb_destroy takes the LOCK, unlinks only names that parse, LOCK file last
 *
 * The real db_impl.c is included unmodified.  BOUNDED: source and destination directory listings have at most
 * LIFE_DIR (3) entries each; every entry has an arbitrary parse result (unparsable, or any type with any number,
 * live or not).  Every environment call can fail at every invocation.  Names are modelled as pointers
 * (entry i of a listing is base+i), paths are identified by the ldb_join / ldb_*_filename call that built them.
 */
#include "verif.h"
int nondet_int(void);
uint64_t nondet_u64(void);
size_t nondet_size(void);

#include "db_impl.c"

#define LIFE_DIR 3
enum { ACT_NONE = 0, ACT_COPY = 1, ACT_LINK = 2 };

struct backup_ghost {
  /* inputs */
  int slen; int sparses[LIFE_DIR]; ldb_filetype_t stype[LIFE_DIR]; uint64_t snum[LIFE_DIR]; int slive[LIFE_DIR];
  int dlen; int dparses[LIFE_DIR]; ldb_filetype_t dtype[LIFE_DIR];
  int sublen; int subparses[LIFE_DIR];
  int current_exists, lost_current_exists;
  /* trace */
  unsigned long clock;
  unsigned mkdirs; int mkdir_ok;
  unsigned dstlock_calls, srclock_calls; int dst_locked, src_locked; int dstlock_rc, srclock_rc;
  unsigned dst_unlocks, src_unlocks; unsigned long t_dst_unlock, t_src_unlock, t_dstlock_removed, t_srclock_removed;
  unsigned slist_calls, dlist_calls, sublist_calls, free_children;
  int cur_src, cur_dst, cur_dstlist, cur_sub;     /* entry whose path was built last (-1 none) */
  int act[LIFE_DIR]; int act_rc[LIFE_DIR]; unsigned acts;
  int join_fail_src[LIFE_DIR], join_fail_dst[LIFE_DIR];
  int first_fail_rc; int failed;
  unsigned dst_removed[LIFE_DIR], src_removed[LIFE_DIR], sub_removed[LIFE_DIR]; int src_remove_rc[LIFE_DIR];
  int dst_joinfail[LIFE_DIR], srcdel_joinfail[LIFE_DIR];
  unsigned dstlock_removed, srclock_removed, other_removed;
  unsigned syncdirs, rmdir_dst, rmdir_src, rmdir_sub; int syncdir_rc;
  unsigned long t_last_action, t_first_cleanup, t_slist, t_last_src_remove;
  const char *dstlock_buf, *srclock_buf, *current_buf, *subdir_buf, *lostcurrent_buf;
  /* db-level (ldb_backup) */
  unsigned waits, addfiles, set_inits, set_clears; unsigned long t_addfiles;
  int live_is_null;
} BG;
static unsigned long btick(void) { __CPROVER_assume(BG.clock < (1ul << 40)); return ++BG.clock; }

static char *g_src, *g_dst;                 /* directory names (identified by address) */
static char *g_sbase, *g_dbase, *g_subbase; /* name i of a listing = base + i */
static char *g_snames[LIFE_DIR + 1], *g_dnames[LIFE_DIR + 1], *g_subnames[LIFE_DIR + 1];
static ldb_filelock_t *g_dst_token, *g_src_token;
static ldb_t *g_db; static int g_held; static unsigned g_locks, g_unlocks; static int g_need_mutex;
static ldb_versions_t g_versions;

#define IS_SRC_NAME(p) (__CPROVER_same_object((p), g_sbase))
#define IS_DST_NAME(p) (__CPROVER_same_object((p), g_dbase))
#define IS_SUB_NAME(p) (__CPROVER_same_object((p), g_subbase))
#define MUTEX_OK (!g_need_mutex || g_held)

/* ---------------------------------------------------------- thread model */
void ldb_mutex_lock(ldb_mutex_t *m) { __CPROVER_assert(m == &g_db->mutex && !g_held, "lock: DB mutex not held"); g_held = 1; g_locks++; }
void ldb_mutex_unlock(ldb_mutex_t *m) { __CPROVER_assert(m == &g_db->mutex && g_held, "unlock: DB mutex held"); g_held = 0; g_unlocks++; }
void ldb_cond_wait(ldb_cond_t *cv, ldb_mutex_t *m) {
  __CPROVER_assert(m == &g_db->mutex && g_held && cv == &g_db->background_work_finished_signal, "backup waits on the background signal with the mutex held");
  __CPROVER_assert(g_db->background_compaction_scheduled, "W3: backup waits only while a background call is pending (it broadcasts when it ends)");
  __CPROVER_assert(BG.mkdirs == 0 && BG.slist_calls == 0, "nothing is copied before background work has finished");
  g_held = 0; BG.waits++;
  /* other threads run: the background call ends, possibly reschedules itself (more work) at most twice, possibly latches an error */
  if (BG.waits >= 3 || nondet_int()) g_db->background_compaction_scheduled = 0;
  if (g_db->bg_error == LDB_OK && nondet_int()) g_db->bg_error = nondet_int();
  g_held = 1;
}

/* ------------------------------------------------------------ env models */
size_t strlen(const char *s) { return nondet_int() ? 2 : (size_t)LDB_PATH_MAX; }   /* short name, or one that is too long */
void ldb_log(ldb_logger_t *logger, const char *fmt, ...) { }
int ldb_system_error(void) { int e = nondet_int(); __CPROVER_assume(e != LDB_OK); return e; }
int ldb_lock_filename(char *buf, size_t size, const char *dir) {
  int ok = nondet_int() ? 1 : 0;
  buf[0] = 'L'; buf[1] = 0;
  if (dir == g_dst) BG.dstlock_buf = buf; else { __CPROVER_assert(dir == g_src, "LOCK name of the source or of the destination"); BG.srclock_buf = buf; }
  if (BG.current_buf == buf) BG.current_buf = NULL;       /* the path buffer is reused */
  return ok;
}
int ldb_current_filename(char *buf, size_t size, const char *dir) {
  int ok = nondet_int() ? 1 : 0;
  buf[0] = 'C'; buf[1] = 0;
  if (dir == g_src) BG.current_buf = buf; else { __CPROVER_assert(dir == BG.subdir_buf, "CURRENT of the database or of its lost/ directory"); BG.lostcurrent_buf = buf; }
  return ok;
}
int ldb_file_exists(const char *filename) {
  if (filename == BG.lostcurrent_buf) return BG.lost_current_exists;
  __CPROVER_assert(filename == BG.current_buf, "existence is asked of CURRENT");
  return BG.current_exists;
}
int ldb_create_dir(const char *dirname) {
  int rc = nondet_int();
  __CPROVER_assert(dirname == g_dst && MUTEX_OK, "only the destination directory is created");
  BG.mkdirs++; BG.mkdir_ok = (rc == LDB_OK);
  return rc;
}
int ldb_lock_file(const char *filename, ldb_filelock_t **lock) {
  int rc = nondet_int();
  __CPROVER_assert(MUTEX_OK, "backup runs under the DB mutex");
  if (filename == BG.dstlock_buf) {
    __CPROVER_assert(BG.mkdir_ok && BG.dstlock_calls == 0, "the destination is locked once, after its directory was created by this call (an existing directory is never used)");
    __CPROVER_assert(BG.slist_calls == 0 && BG.acts == 0, "the destination is locked before anything is read or copied");
    BG.dstlock_calls++; BG.dstlock_rc = rc;
    if (rc == LDB_OK) { BG.dst_locked = 1; *lock = g_dst_token; }
    return rc;
  }
  __CPROVER_assert(filename == BG.srclock_buf && BG.srclock_calls == 0, "the LOCK of the source database");
  BG.srclock_calls++; BG.srclock_rc = rc;
  if (rc == LDB_OK) { BG.src_locked = 1; *lock = g_src_token; }
  return rc;
}
int ldb_unlock_file(ldb_filelock_t *lock) {
  if (lock == g_dst_token) { __CPROVER_assert(BG.dst_locked, "destination LOCK released once"); BG.dst_locked = 0; BG.dst_unlocks++; BG.t_dst_unlock = btick(); }
  else { __CPROVER_assert(lock == g_src_token && BG.src_locked, "source LOCK released once"); BG.src_locked = 0; BG.src_unlocks++; BG.t_src_unlock = btick(); }
  return nondet_int();
}
int ldb_get_children(const char *path, char ***out) {
  __CPROVER_assert(MUTEX_OK, "directories are listed under the DB mutex (ldb_backup)");
  if (path == g_src) {
    __CPROVER_assert(BG.slist_calls == 0, "the source is listed once");
    BG.slist_calls++; BG.t_slist = btick();
    if (BG.slen < 0) return -1;
    *out = g_snames; return BG.slen;
  }
  if (path == BG.subdir_buf) { BG.sublist_calls++; if (BG.sublen < 0) return -1; *out = g_subnames; return BG.sublen; }
  __CPROVER_assert(path == g_dst, "only the source and the destination are listed");
  BG.dlist_calls++;
  if (BG.dlen < 0) return -1;
  *out = g_dnames; return BG.dlen;
}
void ldb_free_children(char **list, int len) { __CPROVER_assert(len >= 0 && (list == g_snames || list == g_dnames || list == g_subnames), "a listing that was obtained is released"); BG.free_children++; }
int ldb_parse_filename(ldb_filetype_t *type, uint64_t *num, const char *name) {
  if (IS_SRC_NAME(name)) { long i = name - g_sbase; __CPROVER_assert(i >= 0 && i < BG.slen, "source entry"); if (!BG.sparses[i]) return 0; *type = BG.stype[i]; *num = BG.snum[i]; return 1; }
  if (IS_SUB_NAME(name)) { long i = name - g_subbase; __CPROVER_assert(i >= 0 && i < BG.sublen, "lost/ entry"); if (!BG.subparses[i]) return 0; *type = LDB_FILE_TABLE; *num = nondet_u64(); return 1; }
  { long i = name - g_dbase; __CPROVER_assert(IS_DST_NAME(name) && i >= 0 && i < BG.dlen, "destination entry"); if (!BG.dparses[i]) return 0; *type = BG.dtype[i]; *num = nondet_u64(); return 1; }
}
int ldb_join(char *zp, size_t zn, const char *xp, const char *yp) {
  int ok = nondet_int() ? 1 : 0;
  if (xp == g_src && !IS_SRC_NAME(yp)) {               /* ldb_destroy: the lost/ sub-directory name */
    BG.subdir_buf = zp; return ok;
  }
  if (xp == BG.subdir_buf && BG.subdir_buf != NULL) { __CPROVER_assert(IS_SUB_NAME(yp), "lost/ path is built from a lost/ entry"); BG.cur_sub = ok ? (int)(yp - g_subbase) : -1; BG.cur_src = BG.cur_dst = BG.cur_dstlist = -1; return ok; }
  if (xp == g_src) { long i = yp - g_sbase; BG.cur_src = ok ? (int)i : -1; BG.cur_sub = -1; if (!ok) BG.join_fail_src[i] = 1; return ok; }
  __CPROVER_assert(xp == g_dst, "paths are built in the source or in the destination directory only");
  BG.cur_sub = -1;
  if (IS_SRC_NAME(yp)) { long i = yp - g_sbase; BG.cur_dst = ok ? (int)i : -1; BG.cur_dstlist = -1; if (!ok) BG.join_fail_dst[i] = 1; return ok; }
  { long i = yp - g_dbase; __CPROVER_assert(IS_DST_NAME(yp), "destination path is built from a source entry (copy) or a destination entry (clean-up)"); BG.cur_dstlist = ok ? (int)i : -1; BG.cur_dst = -1; if (!ok) BG.dst_joinfail[i] = 1; return ok; }
}
static int do_action(int kind) {
  int i = BG.cur_src, rc = nondet_int();
  __CPROVER_assert(MUTEX_OK, "files are copied under the DB mutex (ldb_backup)");
  __CPROVER_assert(i >= 0 && i < BG.slen && BG.cur_dst == i, "a file is copied/linked from the source directory to the same name in the destination directory");
  __CPROVER_assert(BG.dst_locked && !BG.failed, "files are copied only with the destination locked, and not after a failure");
  __CPROVER_assert(BG.act[i] == ACT_NONE, "each source entry is handled at most once");
  BG.act[i] = kind; BG.act_rc[i] = rc; BG.acts++; BG.t_last_action = btick();
  return rc;
}
int ldb_copy_file(const char *from, const char *to) { return do_action(ACT_COPY); }
int ldb_link_file(const char *from, const char *to) { return do_action(ACT_LINK); }
int ldb_rb_set64_has(const rb_tree_t *tree, uint64_t item) {
  int i = BG.cur_src;
  __CPROVER_assert(!BG.live_is_null && i >= 0 && i < BG.slen && item == BG.snum[i], "liveness is asked for the table being examined");
  return BG.slive[i];
}
int ldb_remove_file(const char *filename) {
  int rc = nondet_int();
  __CPROVER_assert(MUTEX_OK, "clean-up runs under the DB mutex (ldb_backup)");
  if (filename == BG.dstlock_buf && BG.dstlock_buf != NULL) { BG.dstlock_removed++; BG.t_dstlock_removed = btick(); return rc; }
  if (filename == BG.srclock_buf && BG.srclock_buf != NULL) { BG.srclock_removed++; BG.t_srclock_removed = btick(); return rc; }
  if (BG.cur_dstlist >= 0) { if (BG.t_first_cleanup == 0) BG.t_first_cleanup = btick(); BG.dst_removed[BG.cur_dstlist]++; BG.cur_dstlist = -1; return rc; }
  if (BG.cur_sub >= 0) { BG.sub_removed[BG.cur_sub]++; BG.cur_sub = -1; return rc; }
  if (BG.cur_src >= 0) { BG.src_removed[BG.cur_src]++; BG.src_remove_rc[BG.cur_src] = rc; BG.t_last_src_remove = btick(); BG.cur_src = -1; return rc; }
  BG.other_removed++;
  return rc;
}
int ldb_sync_dir(const char *dirname) { __CPROVER_assert(dirname == g_dst, "the destination directory is synced"); BG.syncdirs++; BG.syncdir_rc = nondet_int(); return BG.syncdir_rc; }
int ldb_remove_dir(const char *dirname) {
  if (dirname == g_dst) BG.rmdir_dst++; else if (dirname == g_src) BG.rmdir_src++; else { __CPROVER_assert(dirname == BG.subdir_buf, "only the destination, the destroyed database or its lost/ directory is removed"); BG.rmdir_sub++; }
  return nondet_int();
}
void ldb_rb_tree_init(rb_tree_t *tree, rb_cmp_f *compare, void *arg) { BG.set_inits++; }
void ldb_rb_tree_clear(rb_tree_t *tree, rb_clear_f *clear) { BG.set_clears++; }
void ldb_versions_add_files(ldb_versions_t *vset, rb_set64_t *live) {
  __CPROVER_assert(g_held && vset == g_db->versions && BG.set_inits == 1, "the live set is computed under the mutex");
  __CPROVER_assert(!g_db->background_compaction_scheduled, "the live set is computed after background work has finished (no version change can follow while the mutex is held)");
  BG.addfiles++; BG.t_addfiles = btick();
}

/* ------------------------------------------------------------------ setup */
static void backup_inputs(void) {
  int i;
  g_src = malloc(4); g_dst = malloc(4); g_sbase = malloc(LIFE_DIR + 1); g_dbase = malloc(LIFE_DIR + 1); g_subbase = malloc(LIFE_DIR + 1);
  g_dst_token = malloc(1); g_src_token = malloc(1);
  __CPROVER_assume(g_src && g_dst && g_sbase && g_dbase && g_subbase && g_dst_token && g_src_token);
  for (i = 0; i < LIFE_DIR; i++) { g_snames[i] = g_sbase + i; g_dnames[i] = g_dbase + i; g_subnames[i] = g_subbase + i; }
  BG.slen = nondet_int(); BG.dlen = nondet_int(); BG.sublen = nondet_int();
  __CPROVER_assume(BG.slen >= -1 && BG.slen <= LIFE_DIR && BG.dlen >= -1 && BG.dlen <= LIFE_DIR && BG.sublen >= -1 && BG.sublen <= LIFE_DIR);
  for (i = 0; i < LIFE_DIR; i++) {
    int t = nondet_int(), u = nondet_int();
    __CPROVER_assume(t >= LDB_FILE_LOG && t <= LDB_FILE_INFO && u >= LDB_FILE_LOG && u <= LDB_FILE_INFO);
    BG.sparses[i] = nondet_int() ? 1 : 0; BG.stype[i] = (ldb_filetype_t)t; BG.snum[i] = nondet_u64(); BG.slive[i] = nondet_int() ? 1 : 0;
    BG.dparses[i] = nondet_int() ? 1 : 0; BG.dtype[i] = (ldb_filetype_t)u; BG.subparses[i] = nondet_int() ? 1 : 0;
    BG.act[i] = ACT_NONE; BG.act_rc[i] = LDB_OK; BG.join_fail_src[i] = BG.join_fail_dst[i] = 0; BG.dst_removed[i] = BG.src_removed[i] = BG.sub_removed[i] = 0; BG.dst_joinfail[i] = BG.srcdel_joinfail[i] = 0; BG.src_remove_rc[i] = LDB_OK;
  }
  BG.current_exists = nondet_int() ? 1 : 0; BG.lost_current_exists = nondet_int() ? 1 : 0;
  BG.cur_src = BG.cur_dst = BG.cur_dstlist = BG.cur_sub = -1;
  g_need_mutex = 0; g_held = 0; g_locks = g_unlocks = 0;
}

/* what the property's action table says for source entry i */
#define WANT_ACT(i, copy_mode) (!BG.sparses[i] ? ACT_NONE : \
  (BG.stype[i] == LDB_FILE_LOG || BG.stype[i] == LDB_FILE_DESC || BG.stype[i] == LDB_FILE_CURRENT) ? ACT_COPY : \
  BG.stype[i] == LDB_FILE_TABLE ? (((copy_mode) || BG.slive[i]) ? ACT_LINK : ACT_NONE) : \
  BG.stype[i] == LDB_FILE_INFO ? ((copy_mode) ? ACT_COPY : ACT_NONE) : ACT_NONE)

/* obligations on the copy phase + clean-up, shared by the three harnesses (rc = result of ldb_backup_inner) */
static void check_inner(int rc, int copy_mode) {
  int i, stopped = 0, anyfail = 0;
  CHECK(BG.other_removed == 0 && BG.src_removed[0] == 0 && BG.src_removed[1] == 0 && BG.src_removed[2] == 0 && BG.srclock_removed == 0 && BG.rmdir_src == 0,
        "backup/copy never removes anything in the SOURCE database");
  CHECK(BG.mkdirs <= 1 && BG.dstlock_calls <= 1 && !BG.dst_locked && BG.dst_unlocks == (BG.dstlock_calls && BG.dstlock_rc == LDB_OK ? 1u : 0u), "the destination LOCK is released exactly when it was taken");
  if (BG.mkdirs == 0 || !BG.mkdir_ok) {
    CHECK(rc != LDB_OK && BG.dstlock_calls == 0 && BG.slist_calls == 0 && BG.acts == 0 && BG.dlist_calls == 0 && BG.rmdir_dst == 0 && BG.dstlock_removed == 0,
          "destination directory could not be created (e.g. it already exists): error, nothing read, nothing written, nothing removed");
    return;
  }
  if (BG.dstlock_rc != LDB_OK) CHECK(rc != LDB_OK && BG.slist_calls == 0 && BG.acts == 0, "destination LOCK not obtained: error, source not read, nothing copied");
  /* action table, in directory order, stopping at the first failure */
  for (i = 0; i < LIFE_DIR; i++) if (BG.dstlock_rc == LDB_OK && i < BG.slen) {
    int want = WANT_ACT(i, copy_mode);
    if (stopped) { CHECK(BG.act[i] == ACT_NONE, "nothing is copied after the first failure"); continue; }
    if (BG.sparses[i] && (BG.join_fail_src[i] || BG.join_fail_dst[i])) { CHECK(BG.act[i] == ACT_NONE && rc == LDB_INVALID, "a path that cannot be formed fails the backup with INVALID"); stopped = 1; anyfail = 1; continue; }
    CHECK(BG.act[i] == want, "action table: LOG / MANIFEST / CURRENT are copied, live tables (all tables for ldb_copy) are hard-linked, info logs only by ldb_copy, TEMP / LOCK / dead tables / foreign names are skipped");
    if (BG.act[i] != ACT_NONE && BG.act_rc[i] != LDB_OK) { CHECK(rc == BG.act_rc[i], "a failed copy/link is reported with its status"); stopped = 1; anyfail = 1; }
  }
  if (BG.dstlock_rc == LDB_OK && BG.slen < 0) { CHECK(rc != LDB_OK && BG.acts == 0, "unreadable source directory: error"); anyfail = 1; }
  if (BG.dstlock_rc != LDB_OK) anyfail = 1;
  if (!anyfail) {
    CHECK(BG.dlist_calls == 0 && BG.dst_removed[0] == 0 && BG.dst_removed[1] == 0 && BG.dst_removed[2] == 0 && BG.rmdir_dst == 0, "success: nothing that was created is removed");
    CHECK(BG.dstlock_removed == 1 && BG.t_dst_unlock < BG.t_dstlock_removed && BG.syncdirs == 1 && rc == BG.syncdir_rc, "success: destination unlocked, its LOCK file removed, directory synced; the result is the sync's status");
  } else {
    CHECK(rc != LDB_OK && BG.syncdirs == 0, "failure is reported");
    CHECK(BG.dlist_calls == 1 && BG.rmdir_dst == 1, "failure: the destination is listed for clean-up and the directory removal is attempted");
    for (i = 0; i < LIFE_DIR; i++) if (i < BG.dlen)
      CHECK(BG.dst_removed[i] == ((BG.dparses[i] && BG.dtype[i] != LDB_FILE_LOCK && !BG.dst_joinfail[i]) ? 1u : 0u), "failure: every database file found in the destination (everything this call created) is removed; foreign names and LOCK are not touched in the loop");
    CHECK(BG.dstlock_removed == (BG.dstlock_rc == LDB_OK ? 1u : 0u), "failure: the LOCK file is removed last, if the LOCK had been obtained");
    if (BG.dstlock_rc == LDB_OK) CHECK(BG.t_dst_unlock < BG.t_dstlock_removed && (BG.t_first_cleanup == 0 || BG.t_first_cleanup < BG.t_dst_unlock), "failure: clean-up happens with the destination still locked; unlock, then LOCK file removal");
    CHECK(BG.t_first_cleanup == 0 || BG.acts == 0 || BG.t_last_action < BG.t_first_cleanup, "clean-up starts after copying has stopped");
  }
  CHECK(BG.free_children == (BG.slist_calls && BG.slen >= 0 ? 1u : 0u) + (BG.dlist_calls && BG.dlen >= 0 ? 1u : 0u), "listings are released");
}

/* ---------------------------------------------------- life.backup_inner */
void h_backup_inner(void) {
  rb_set64_t *live = malloc(sizeof(rb_set64_t));
  int copy_mode = nondet_int() ? 1 : 0, rc;
  __CPROVER_assume(live != NULL);
  backup_inputs();
  BG.live_is_null = copy_mode;
  rc = ldb_backup_inner(g_src, g_dst, copy_mode ? NULL : live);
  if (BG.dstlock_buf == NULL || BG.mkdirs == 0) { /* LOCK name could not be formed */ }
  check_inner(rc, copy_mode);
  CANARY();
}

/* ---------------------------------------------------------- life.backup */
void h_backup(void) {
  ldb_t *db = malloc(sizeof(ldb_t));
  int rc, bg0;
  __CPROVER_assume(db != NULL);
  backup_inputs();
  g_db = db; db->versions = &g_versions; g_need_mutex = 1; BG.live_is_null = 0;
  g_src = db->dbname;                                 /* the source is the handle's own directory */
  __CPROVER_assume(db->background_compaction_scheduled == 0 || db->background_compaction_scheduled == 1);
  bg0 = db->bg_error;

  rc = ldb_backup(db, g_dst);

  CHECK(!g_held && g_locks == g_unlocks, "backup: the DB mutex is released at return, lock/unlock balanced");
  if (g_locks == 0) CHECK(rc == LDB_INVALID && BG.mkdirs == 0, "over-long destination name: INVALID before anything happens");
  else {
    CHECK(!db->background_compaction_scheduled, "backup proceeds only when no background call is pending");
    if (db->bg_error != LDB_OK) CHECK(rc == db->bg_error && BG.mkdirs == 0 && BG.slist_calls == 0 && BG.addfiles == 0, "after a background error the backup is refused with that error; nothing is created");
    else {
      CHECK(BG.addfiles == 1 && BG.set_inits == 1 && BG.set_clears == 1, "the live set is computed once and released");
      CHECK(BG.mkdirs == 0 || BG.t_addfiles < BG.t_slist || BG.slist_calls == 0, "the live set is taken before the directory is read, in the same critical section");
      if (BG.mkdirs) check_inner(rc, 0);
    }
  }
  CHECK(BG.srclock_calls == 0 && BG.src_unlocks == 0, "backup of an open handle does not touch the source LOCK (the handle holds it)");
  CANARY();
}

/* ------------------------------------------------------------ life.copy */
void h_copy(void) {
  int rc;
  backup_inputs();
  BG.live_is_null = 1;
  rc = ldb_copy(g_src, g_dst, NULL);
  CHECK(BG.srclock_calls <= 1 && !BG.src_locked && BG.src_unlocks == (BG.srclock_calls && BG.srclock_rc == LDB_OK ? 1u : 0u), "copy: the source LOCK is released exactly when it was taken");
  CHECK(BG.srclock_removed == 0, "copy: the source's LOCK file is left in place");
  if (BG.srclock_calls == 0) CHECK(rc != LDB_OK && BG.mkdirs == 0, "copy: without the source LOCK nothing happens");
  if (BG.current_buf == NULL && BG.srclock_buf == NULL) CHECK(rc == LDB_INVALID, "copy: unusable names: INVALID");
  if (BG.srclock_calls && BG.srclock_rc != LDB_OK) CHECK(rc == BG.srclock_rc && BG.mkdirs == 0 && BG.slist_calls == 0, "copy: a source that is open (LOCK busy) is refused; nothing is created");
  if (BG.srclock_calls) CHECK(BG.current_exists, "copy: the source must be a database (CURRENT exists) before its LOCK is even created");
  if (BG.mkdirs) {
    CHECK(BG.srclock_rc == LDB_OK && BG.srclock_calls == 1, "copy: the destination is created only with the source LOCK held");
    CHECK(BG.t_src_unlock > BG.t_last_action && BG.t_src_unlock > BG.t_slist && (BG.dst_unlocks == 0 || BG.t_dst_unlock < BG.t_src_unlock), "copy: the source stays locked until copying and clean-up are over");
    check_inner(rc, 1);
  }
  CANARY();
}

/* --------------------------------------------------------- life.destroy */
void h_destroy(void) {
  int rc, i, first_err = LDB_OK;
  backup_inputs();
  rc = ldb_destroy(g_src, NULL);
  CHECK(BG.mkdirs == 0 && BG.acts == 0 && BG.dstlock_calls == 0, "destroy creates nothing");
  CHECK(!BG.src_locked && BG.src_unlocks == (BG.srclock_calls && BG.srclock_rc == LDB_OK ? 1u : 0u), "destroy: the LOCK is released exactly when it was taken");
  if (BG.slist_calls == 0) CHECK(rc == LDB_INVALID && BG.srclock_calls == 0, "destroy: unusable names: INVALID, nothing touched");
  else if (BG.slen < 0) CHECK(BG.srclock_calls == 0 && BG.srclock_removed == 0 && BG.rmdir_src == 0, "destroy: unreadable / missing directory: nothing is touched (missing directory counts as success)");
  else if (BG.srclock_calls == 0 || BG.srclock_rc != LDB_OK) {
    CHECK(rc != LDB_OK && rc == BG.srclock_rc, "destroy: a database that is open (LOCK busy) is refused with the lock's status");
    CHECK(BG.src_removed[0] == 0 && BG.src_removed[1] == 0 && BG.src_removed[2] == 0 && BG.srclock_removed == 0 && BG.rmdir_src == 0 && BG.sub_removed[0] == 0 && BG.sub_removed[1] == 0 && BG.sub_removed[2] == 0,
          "destroy: without the LOCK nothing is unlinked");
  } else {
    for (i = 0; i < LIFE_DIR; i++) if (i < BG.slen) {
      int want = BG.sparses[i] && BG.stype[i] != LDB_FILE_LOCK && !BG.join_fail_src[i];
      CHECK(BG.src_removed[i] == (want ? 1u : 0u), "destroy: exactly the names that parse as database files are unlinked (foreign files are never touched; LOCK is not removed in the loop)");
      if (want) CHECK(BG.t_last_src_remove < BG.t_src_unlock, "destroy: files are unlinked while the LOCK is held");
    }
    CHECK(BG.srclock_removed == 1 && BG.t_src_unlock < BG.t_srclock_removed && (BG.t_last_src_remove == 0 || BG.t_last_src_remove < BG.t_srclock_removed), "destroy: the LOCK file is removed last, after the LOCK was released");
    CHECK(BG.rmdir_src == 1, "destroy: removal of the directory is attempted (failure ignored: it may hold foreign files)");
    for (i = 0; i < LIFE_DIR; i++) if (i < BG.slen && BG.sparses[i] && BG.stype[i] != LDB_FILE_LOCK) {
      if (BG.join_fail_src[i]) CHECK(rc != LDB_OK, "destroy: a path that cannot be formed is reported");
      else if (BG.src_remove_rc[i] != LDB_OK) CHECK(rc != LDB_OK, "destroy: a failed unlink is reported");
    }
    /* lost/ (left by ldb_repair) is emptied only if it is not itself a database */
    for (i = 0; i < LIFE_DIR; i++) if (BG.sub_removed[i]) CHECK(!BG.lost_current_exists && i < BG.sublen && BG.subparses[i], "destroy: in lost/ only database file names are unlinked, and only if lost/ is not a database of its own");
  }
  CHECK(BG.free_children == (BG.slist_calls && BG.slen >= 0 ? 1u : 0u) + (BG.sublist_calls && BG.sublen >= 0 ? 1u : 0u), "listings are released");
  CANARY();
}
