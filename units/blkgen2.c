/* units/blkgen2.c - block builder (src/table/block_builder.c): ldb_blockgen_add / finish / reset / init
 * Properties: C16 (standard block format: prefix compression, restart points, trailer), C14.
 *
 * The real block_builder.c is included unmodified.  The destination buffer, the last-key buffer and the restart
 * array are ghost models: what is emitted is observed as the SEQUENCE of varint32 / append / fixed32 calls (each
 * primitive's byte layout is proved in cod.* and buf.*).  Key and value lengths are unbounded; the shared-prefix
 * loop is closed by a loop contract; an arbitrary ghost index g_k checks the prefix byte by byte.
 */
#include "verif.h"
int nondet_int(void);
size_t nondet_size(void);

#include "table/block_builder.c"

ldb_blockgen_t *g_bb;
#define EV_V32 1
#define EV_APP 2
#define EV_F32 3
unsigned g_nev; int g_evk[8]; uint64_t g_evv[8]; const uint8_t *g_evp[8]; ldb_buffer_t *g_evdst[8];
static void ev(int k, ldb_buffer_t *dst, uint64_t v, const uint8_t *p) { __CPROVER_assert(g_nev < 8, "add: no more output than one entry needs"); g_evk[g_nev] = k; g_evdst[g_nev] = dst; g_evv[g_nev] = v; g_evp[g_nev] = p; g_nev++; }
size_t g_buf_grow;       /* bytes the destination grows by per primitive: any */
void ldb_buffer_varint32(ldb_buffer_t *z, uint32_t x) { ev(EV_V32, z, x, NULL); z->size += 1 + (nondet_size() % 5); }
void ldb_buffer_append(ldb_buffer_t *z, const uint8_t *xp, size_t xn) { __CPROVER_assert(xn == 0 || __CPROVER_r_ok(xp, xn), "appended bytes readable"); ev(EV_APP, z, xn, xp); z->size += xn; }
unsigned g_resizes; size_t g_resize_to;
uint8_t *ldb_buffer_resize(ldb_buffer_t *z, size_t zn) { __CPROVER_assert(z == &g_bb->last_key, "only last_key is truncated"); g_resizes++; g_resize_to = zn; z->size = zn; return z->data; }
void ldb_buffer_fixed32(ldb_buffer_t *z, uint32_t x) { ev(EV_F32, z, x, NULL); z->size += 4; }
unsigned g_rpush; uint64_t g_rpush_val;
void ldb_array_push(ldb_array_t *z, uint64_t x) { __CPROVER_assert(z == &g_bb->restarts, "restart array"); g_rpush++; g_rpush_val = x; z->length++; }

size_t g_k;             /* arbitrary index into the key */
static ldb_dbopt_t g_opt;

void c_blockgen_add(ldb_blockgen_t *bb, const ldb_slice_t *key, const ldb_slice_t *value)
__CPROVER_requires(bb == g_bb && __CPROVER_rw_ok(bb, sizeof(*bb)) && bb->options == &g_opt && g_opt.block_restart_interval >= 1)
__CPROVER_requires(__CPROVER_r_ok(key, sizeof(*key)) && __CPROVER_r_ok(value, sizeof(*value)))
__CPROVER_requires(key->size < ((size_t)1 << 32) && value->size < ((size_t)1 << 32) && (key->size == 0 || __CPROVER_r_ok(key->data, key->size)) && (value->size == 0 || __CPROVER_r_ok(value->data, value->size)))
__CPROVER_requires(bb->last_key.size < ((size_t)1 << 32) && (bb->last_key.size == 0 || __CPROVER_r_ok(bb->last_key.data, bb->last_key.size)))
__CPROVER_requires(bb->counter >= 0 && bb->counter <= g_opt.block_restart_interval && bb->buffer.size < ((size_t)1 << 40) && g_nev == 0 && g_rpush == 0 && g_resizes == 0)
__CPROVER_assigns(bb->counter, bb->buffer.size, bb->last_key.size, bb->restarts.length, g_nev, __CPROVER_object_whole(g_evk), __CPROVER_object_whole(g_evv), __CPROVER_object_whole(g_evp), __CPROVER_object_whole(g_evdst),
                  g_resizes, g_resize_to, g_rpush, g_rpush_val)
/* the entry: varint32 shared, varint32 non_shared, varint32 value_len, key delta, value - in this order, into the block buffer */
__CPROVER_ensures(g_nev == 6 && g_evk[0] == EV_V32 && g_evk[1] == EV_V32 && g_evk[2] == EV_V32 && g_evk[3] == EV_APP && g_evk[4] == EV_APP &&
                  g_evdst[0] == &bb->buffer && g_evdst[1] == &bb->buffer && g_evdst[2] == &bb->buffer && g_evdst[3] == &bb->buffer && g_evdst[4] == &bb->buffer)
__CPROVER_ensures(g_evv[0] + g_evv[1] == key->size && g_evv[2] == value->size)
__CPROVER_ensures(g_evv[3] == g_evv[1] && g_evp[3] == key->data + g_evv[0] && g_evv[4] == value->size && g_evp[4] == value->data)
/* restart points: every block_restart_interval-th entry is stored whole (shared = 0) and its offset recorded */
__CPROVER_ensures(__CPROVER_old(bb->counter) >= g_opt.block_restart_interval ==> (g_evv[0] == 0 && g_rpush == 1 && g_rpush_val == __CPROVER_old(bb->buffer.size) && bb->counter == 1))
__CPROVER_ensures(__CPROVER_old(bb->counter) < g_opt.block_restart_interval ==> (g_rpush == 0 && bb->counter == __CPROVER_old(bb->counter) + 1))
/* prefix compression: shared is the length of the LONGEST common prefix with the previous key (never more than either key) */
__CPROVER_ensures(g_evv[0] <= key->size && g_evv[0] <= __CPROVER_old(bb->last_key.size))
__CPROVER_ensures(g_k < g_evv[0] ==> bb->last_key.data[g_k] == key->data[g_k])
__CPROVER_ensures((__CPROVER_old(bb->counter) < g_opt.block_restart_interval && g_evv[0] < key->size && g_evv[0] < __CPROVER_old(bb->last_key.size)) ==> bb->last_key.data[g_evv[0]] != key->data[g_evv[0]])
/* last_key becomes the key just added: the shared prefix is kept, the delta appended */
__CPROVER_ensures(g_resizes == 1 && g_resize_to == g_evv[0] && g_evk[5] == EV_APP && g_evdst[5] == &bb->last_key && g_evv[5] == g_evv[1] && g_evp[5] == key->data + g_evv[0] && bb->last_key.size == key->size)
;

void h_add(void) {
  ldb_blockgen_t *bb = malloc(sizeof(*bb));
  ldb_slice_t key, value;
  size_t kn = nondet_size(), vn = nondet_size(), ln = nondet_size();
  __CPROVER_assume(bb != NULL);
  g_bb = bb; bb->options = &g_opt;
  key.data = malloc(kn); key.size = kn; key.alloc = 0; value.data = malloc(vn); value.size = vn; value.alloc = 0;
  bb->last_key.data = malloc(ln); bb->last_key.size = ln; bb->last_key.alloc = ln;
  __CPROVER_assume(key.data != NULL && value.data != NULL && bb->last_key.data != NULL);
  g_nev = 0; g_rpush = 0; g_resizes = 0; g_k = nondet_size();
  ldb_blockgen_add(bb, &key, &value);
  CANARY();
}

/* finish: restart array (fixed32 each) then the restart count; bounded number of restart points */
void h_finish(void) {
  ldb_blockgen_t *bb = malloc(sizeof(*bb));
  uint64_t r[3]; size_t n = nondet_size(); unsigned i;
  ldb_slice_t out;
  __CPROVER_assume(bb != NULL && n >= 1 && n <= 3);
  g_bb = bb; bb->options = &g_opt; bb->restarts.items = r; bb->restarts.length = n; bb->restarts.alloc = 3;
  r[0] = nondet_size(); r[1] = nondet_size(); r[2] = nondet_size();
  __CPROVER_assume(r[0] < (1ull << 32) && r[1] < (1ull << 32) && r[2] < (1ull << 32) && bb->buffer.size < ((size_t)1 << 40));
  g_nev = 0;
  out = ldb_blockgen_finish(bb);
  CHECK(g_nev == n + 1, "finish: one fixed32 per restart point plus the count");
  for (i = 0; i < n; i++) CHECK(g_evk[i] == EV_F32 && g_evv[i] == r[i] && g_evdst[i] == &bb->buffer, "finish: restart offsets in order");
  CHECK(g_evk[n] == EV_F32 && g_evv[n] == n, "finish: trailer ends with the number of restart points");
  CHECK(bb->finished == 1 && out.size == bb->buffer.size, "finish: block marked finished, the whole buffer is returned");
  CANARY();
}

/* init / reset: first restart point at offset 0, counters cleared */
void ldb_buffer_init(ldb_buffer_t *z) { z->data = NULL; z->size = 0; z->alloc = 0; }
void ldb_buffer_reset(ldb_buffer_t *z) { z->size = 0; }
void ldb_array_init(ldb_array_t *z) { z->items = NULL; z->length = 0; z->alloc = 0; }
void ldb_array_reset(ldb_array_t *z) { z->length = 0; }
void h_reset(void) {
  ldb_blockgen_t *bb = malloc(sizeof(*bb));
  __CPROVER_assume(bb != NULL);
  g_bb = bb; bb->options = &g_opt; g_rpush = 0;
  g_opt.block_restart_interval = nondet_int();
  __CPROVER_assume(g_opt.block_restart_interval >= 1);
  if (nondet_int()) ldb_blockgen_init(bb, &g_opt); else ldb_blockgen_reset(bb);
  CHECK(g_rpush == 1 && g_rpush_val == 0 && bb->restarts.length == 1, "init/reset: the first restart point is offset 0");
  CHECK(bb->counter == 0 && bb->finished == 0 && bb->buffer.size == 0 && bb->last_key.size == 0, "init/reset: empty block, no previous key");
  CANARY();
}
