/* units/tblb.c - proof units for src/table/table_builder.c (C16, C14, C12)
 *   tblb.raw          ldb_tablegen_write_raw_block   (abstract effect on the ghost table file; wire format = tbl.raw)
 *   tblb.write_block  ldb_tablegen_write_block       (compression decision, block builder protocol)
 *   tblb.flush        ldb_tablegen_flush
 *   tblb.add          ldb_tablegen_add
 *   tblb.finish       ldb_tablegen_finish
 *   tblb.misc         ldb_tablegen_abandon / status / entries / size
 *
 * The real table_builder.c is included unmodified.  Ghost environment:
 *   W   the table file: the sequence of COMPLETE blocks it holds (offset, size,
 *       type, contents identity, which block builder produced it), bytes
 *       accepted, latched failure.  Every append / flush may fail.
 *   block builders (ldb_blockgen_*) and the filter builder are typestate stubs;
 *   a block builder's own fields serve as its ghost state (finished, counter =
 *   entries added, buffer.size = bytes buffered).
 *   AD  the entries added to block builders during the call, in order.
 */
#include "verif.h"
#include "contracts/coding.h"

#include "util/bloom.h"
#include "util/buffer.h"
#include "util/coding.h"
#include "util/comparator.h"
#include "util/crc32c.h"
#include "util/env.h"
#include "util/internal.h"
#include "util/options.h"
#include "util/slice.h"
#include "util/snappy.h"
#include "util/status.h"
#include "table/block_builder.h"
#include "table/filter_block.h"
#include "table/format.h"
#include "table/table_builder.h"

int nondet_int(void);
size_t nondet_size(void);
uint64_t nondet_u64(void);
uint32_t nondet_u32(void);

/* ------------------------------------------------------------------ ghost */
#define WMAX 6

struct ldb_wfile_s { int dummy; };
ldb_wfile_t g_wfile;
ldb_filtergen_t g_filtergen;
ldb_bloom_t g_policy;
ldb_comparator_t g_cmp;

struct tblb_in {                               /* chosen by the harness                         */
  size_t fin_extra;                            /* bytes blockgen_finish adds (restart array)    */
  size_t add_grow;                             /* bytes one entry adds to a block builder (>0)  */
  size_t est;                                  /* size estimate of the data block after the add */
  int enc_size_ok; size_t enc_max, enc_len;    /* snappy_encode_size / snappy_encode answers    */
  uint8_t *comp_buf;                           /* storage of compressed_output after grow       */
  const uint8_t *filt_data; size_t filt_n;     /* filtergen_finish result                        */
  int name_ok; size_t name_len;                /* ldb_bloom_name                                 */
  uint8_t *meta_buf;                           /* buffer of the local metaindex block builder    */
  size_t sep_size, succ_size;                  /* size of last_key after separator / successor   */
} IN;

struct wblk { uint64_t off; size_t size; int type; const uint8_t *data; const void *src; };

struct tblb_w {                                /* the table file                                 */
  int failed, fail_rc;                         /* an append/flush failed: nothing may follow     */
  unsigned n;                                  /* complete blocks in the file                    */
  struct wblk blk[WMAX];
  uint64_t accepted;                           /* bytes accepted so far = file position          */
  int phase;                                   /* 1: contents of blk[n] appended, trailer due    */
  const void *cur_src;                         /* block builder between finish() and reset()     */
  unsigned flushes; int flush_rc;
} W;

struct add_rec { const ldb_blockgen_t *bb; const uint8_t *kd; size_t kn; const uint8_t *vd; size_t vn; int hx; uint64_t hx_off, hx_size; unsigned long t; };

struct tblb_ad { unsigned n; struct add_rec e[3]; } AD;   /* block builder entries added during the call */

struct tblb_fg {                               /* filter builder                                 */
  unsigned start_calls; uint64_t start_off; unsigned add_calls; const ldb_slice_t *add_key; unsigned fin_calls;
  unsigned long t_add, t_start;
} FG;

struct tblb_ms {                               /* everything else the stubs record               */
  unsigned long clock;
  unsigned sep_calls; const ldb_buffer_t *sep_start; const ldb_slice_t *sep_limit; unsigned long t_sep;
  unsigned succ_calls; const ldb_buffer_t *succ_key; unsigned long t_succ;
  unsigned hx_calls; const uint8_t *hx_buf; uint64_t hx_off, hx_size;
  unsigned copy_calls; const ldb_buffer_t *copy_dst; const uint8_t *copy_src; size_t copy_n; unsigned long t_copy;
  unsigned est_calls; unsigned long t_est;
  unsigned enc_calls, grow_calls;
  unsigned init_calls, clear_calls; const ldb_blockgen_t *meta_bb; const ldb_dbopt_t *init_opt;
  unsigned bn_calls; char *bn_buf;
  unsigned fx_calls; const uint8_t *fx_buf; uint64_t fx_mo, fx_ms, fx_io, fx_is;
  unsigned foot_appends;
  unsigned crc_calls, cmp_calls;
} MS;

static unsigned long tick(void) { __CPROVER_assume(MS.clock < (1ul << 40)); return ++MS.clock; }

/* ------------------------------------------------------------ file model */
int ldb_wfile_append(ldb_wfile_t *file, const ldb_slice_t *data) {
  int rc = nondet_int();
  int footer = MS.fx_calls > 0 && data->data == MS.fx_buf;   /* the scratch buffer ldb_footer_export filled */
  __CPROVER_assert(file == &g_wfile, "append: to the builder's file");
  __CPROVER_assert(!W.failed, "append: nothing is written after a failed append/flush");
  __CPROVER_assert(data->size == 0 || __CPROVER_r_ok(data->data, data->size), "append: slice readable");
  if (footer) {
    __CPROVER_assert(MS.fx_calls == 1 && data->size == 48 && W.phase == 0, "append: the 48-byte footer encoding, after the last complete block");
    __CPROVER_assert(MS.foot_appends == 0, "append: one footer");
    MS.foot_appends++;
  } else {
    __CPROVER_assert(W.n < WMAX, "append: ghost file has room");
    __CPROVER_assume(W.n < WMAX);
  }
  if (rc != LDB_OK) {
    __CPROVER_assume((rc >= LDB_MINERR && rc <= LDB_MAXERR) || (rc > 0 && rc < 200));
    W.failed = 1; W.fail_rc = rc;
    return rc;
  }
  if (!footer) {
    if (W.phase == 0) {
      W.blk[W.n].off = W.accepted; W.blk[W.n].size = data->size; W.blk[W.n].data = data->data; W.blk[W.n].src = W.cur_src;
      W.phase = 1;
    } else {
      __CPROVER_assert(data->size == 5, "append: a block's contents are followed by its 5-byte trailer");
      W.blk[W.n].type = data->size >= 1 ? data->data[0] : -1;
      W.phase = 0; W.n++;
    }
  }
  W.accepted += data->size;
  return LDB_OK;
}
int ldb_wfile_flush(ldb_wfile_t *file) {
  int rc = nondet_int();
  __CPROVER_assert(file == &g_wfile, "flush: the builder's file");
  __CPROVER_assert(!W.failed, "flush: nothing is done after a failed append/flush");
  W.flushes++; W.flush_rc = rc;
  if (rc != LDB_OK) {
    __CPROVER_assume((rc >= LDB_MINERR && rc <= LDB_MAXERR) || (rc > 0 && rc < 200));
    W.failed = 1; W.fail_rc = rc;
  }
  return rc;
}
uint32_t ldb_crc32c_extend(uint32_t z, const uint8_t *xp, size_t xn) {
  __CPROVER_assert(xn == 0 || __CPROVER_r_ok(xp, xn), "crc: covered bytes readable");
  MS.crc_calls++;
  return nondet_u32();
}

/* --------------------------------------------------------- block builders */
#define FIN_SIZE(bb) ((bb)->buffer.size + IN.fin_extra)
void ldb_blockgen_init(ldb_blockgen_t *bb, const ldb_dbopt_t *options) {
  __CPROVER_assert(MS.init_calls == 0, "blockgen_init: finish() builds one local block (metaindex)");
  MS.init_calls++; MS.meta_bb = bb; MS.init_opt = options;
  bb->options = options; bb->buffer.data = IN.meta_buf; bb->buffer.size = 0; bb->buffer.alloc = 0; bb->counter = 0; bb->finished = 0;
  bb->last_key.data = NULL; bb->last_key.size = 0; bb->last_key.alloc = 0; bb->restarts.items = NULL; bb->restarts.length = 0; bb->restarts.alloc = 0;
}
void ldb_blockgen_clear(ldb_blockgen_t *bb) {
  __CPROVER_assert(MS.init_calls == 1 && bb == MS.meta_bb, "blockgen_clear: of the local metaindex builder");
  MS.clear_calls++;
}
void ldb_blockgen_reset(ldb_blockgen_t *bb) {
  __CPROVER_assert(bb->finished && W.cur_src == (const void *)bb, "blockgen_reset: after finish() of the same builder, once its block is out");
  bb->finished = 0; bb->counter = 0; bb->buffer.size = 0;
  W.cur_src = NULL;
}
void ldb_blockgen_add(ldb_blockgen_t *bb, const ldb_slice_t *key, const ldb_slice_t *value) {
  unsigned i = AD.n;
  __CPROVER_assert(!bb->finished, "blockgen_add: REQUIRES no finish() since the last reset()");
  __CPROVER_assert(i < 3, "blockgen_add: at most three entries per call");
  __CPROVER_assume(i < 3);
  __CPROVER_assume(bb->counter >= 0 && bb->counter < (1 << 30) && bb->buffer.size <= ((size_t)1 << 40));
  AD.e[i].bb = bb; AD.e[i].kd = key->data; AD.e[i].kn = key->size; AD.e[i].vd = value->data; AD.e[i].vn = value->size;
  AD.e[i].hx = (MS.hx_calls > 0 && value->data == MS.hx_buf); AD.e[i].hx_off = MS.hx_off; AD.e[i].hx_size = MS.hx_size;
  AD.e[i].t = tick();
  AD.n = i + 1;
  bb->counter++; bb->buffer.size += IN.add_grow;
}
ldb_slice_t ldb_blockgen_finish(ldb_blockgen_t *bb) {
  ldb_slice_t r;
  __CPROVER_assert(!bb->finished && W.cur_src == NULL, "blockgen_finish: once per block, the previous block has been reset");
  bb->finished = 1; W.cur_src = bb;
  r.data = bb->buffer.data; r.size = FIN_SIZE(bb); r.alloc = 0;
  return r;
}
size_t ldb_blockgen_size_estimate(const ldb_blockgen_t *bb) { MS.est_calls++; MS.t_est = tick(); return IN.est; }

/* ------------------------------------------------------------- compression */
int snappy_encode_size(size_t *zn, size_t xn) {
  __CPROVER_assert(W.cur_src != NULL && xn == FIN_SIZE((const ldb_blockgen_t *)W.cur_src), "snappy_encode_size: of the finished raw block");
  if (IN.enc_size_ok) *zn = IN.enc_max;
  return IN.enc_size_ok;
}
size_t snappy_encode(uint8_t *zp, const uint8_t *xp, size_t xn) {
  __CPROVER_assert(W.cur_src != NULL && xp == ((const ldb_blockgen_t *)W.cur_src)->buffer.data && xn == FIN_SIZE((const ldb_blockgen_t *)W.cur_src), "snappy_encode: input = the finished raw block");
  __CPROVER_assert(MS.grow_calls > 0 && zp == IN.comp_buf, "snappy_encode: output = compressed_output, grown to the bound snappy_encode_size gave");
  MS.enc_calls++;
  return IN.enc_len;
}
uint8_t *ldb_buffer_grow(ldb_buffer_t *z, size_t zn) {
  __CPROVER_assert(zn == IN.enc_max, "buffer_grow: to the snappy bound");
  MS.grow_calls++;
  z->data = IN.comp_buf; if (zn > z->alloc) z->alloc = zn;
  return z->data;
}
void ldb_buffer_reset(ldb_buffer_t *z) { z->size = 0; }
void ldb_buffer_rwset(ldb_buffer_t *z, uint8_t *zp, size_t zn) { z->data = zp; z->size = 0; z->alloc = zn; }
void ldb_buffer_copy(ldb_buffer_t *z, const ldb_buffer_t *x) {
  MS.copy_calls++; MS.copy_dst = z; MS.copy_src = x->data; MS.copy_n = x->size; MS.t_copy = tick();
  z->size = x->size;        /* content = x (util/buffer.c); the storage identity of last_key is kept abstract */
}
void ldb_buffer_init(ldb_buffer_t *z) { z->data = NULL; z->size = 0; z->alloc = 0; }
void ldb_buffer_clear(ldb_buffer_t *z) { (void)z; }

/* ----------------------------------------------------- handles and footer */
void ldb_handle_init(ldb_handle_t *x) { x->offset = ~(uint64_t)0; x->size = ~(uint64_t)0; }
void ldb_handle_export(ldb_buffer_t *z, const ldb_handle_t *x) {
  __CPROVER_assert(z->size == 0 && z->alloc >= LDB_HANDLE_SIZE && __CPROVER_w_ok(z->data, LDB_HANDLE_SIZE), "handle_export: into an empty scratch buffer of 20 bytes");
  MS.hx_calls++; MS.hx_buf = z->data; MS.hx_off = x->offset; MS.hx_size = x->size;
  z->size = (size_t)(V64_SIZE(x->offset) + V64_SIZE(x->size));   /* tbl.handle_write */
}
void ldb_footer_export(ldb_buffer_t *z, const ldb_footer_t *x) {
  __CPROVER_assert(z->size == 0 && z->alloc >= LDB_FOOTER_SIZE && __CPROVER_w_ok(z->data, LDB_FOOTER_SIZE), "footer_export: into an empty scratch buffer of 48 bytes");
  MS.fx_calls++; MS.fx_buf = z->data;
  MS.fx_mo = x->metaindex_handle.offset; MS.fx_ms = x->metaindex_handle.size; MS.fx_io = x->index_handle.offset; MS.fx_is = x->index_handle.size;
  z->size = LDB_FOOTER_SIZE;                                      /* tbl.footer_write */
}

/* ------------------------------------------------------------------ filter */
ldb_filtergen_t *ldb_filtergen_create(const ldb_bloom_t *policy) { (void)policy; return &g_filtergen; }
void ldb_filtergen_destroy(ldb_filtergen_t *fb) { (void)fb; }
void ldb_filtergen_start_block(ldb_filtergen_t *fb, uint64_t block_offset) {
  __CPROVER_assert(fb == &g_filtergen, "filter start_block: the builder's filter");
  FG.start_calls++; FG.start_off = block_offset; FG.t_start = tick();
}
void ldb_filtergen_add_key(ldb_filtergen_t *fb, const ldb_slice_t *key) {
  __CPROVER_assert(fb == &g_filtergen, "filter add_key: the builder's filter");
  FG.add_calls++; FG.add_key = key; FG.t_add = tick();
}
ldb_slice_t ldb_filtergen_finish(ldb_filtergen_t *fb) {
  ldb_slice_t r;
  __CPROVER_assert(fb == &g_filtergen && FG.fin_calls == 0, "filter finish: once");
  FG.fin_calls++;
  r.data = (uint8_t *)IN.filt_data; r.size = IN.filt_n; r.alloc = 0;
  return r;
}
int ldb_bloom_name(char *buf, size_t size, const ldb_bloom_t *bloom) {
  __CPROVER_assert(size == 72 && __CPROVER_w_ok(buf, size) && bloom == &g_policy, "bloom_name: 72-byte buffer, the builder's policy");
  MS.bn_calls++; MS.bn_buf = buf;
  return IN.name_ok;
}
void ldb_slice_set_str(ldb_slice_t *z, const char *xp) {
  __CPROVER_assert(MS.bn_calls == 1 && xp == MS.bn_buf, "slice_set_str: of the name ldb_bloom_name produced (\"filter.\" + policy name)");
  z->data = (uint8_t *)xp; z->size = IN.name_len; z->alloc = 0;
}

/* -------------------------------------------------------------- comparator */
static int stub_compare(const ldb_comparator_t *c, const ldb_slice_t *x, const ldb_slice_t *y) { (void)c; (void)x; (void)y; MS.cmp_calls++; return nondet_int(); }
static void stub_separator(const ldb_comparator_t *c, ldb_buffer_t *start, const ldb_slice_t *limit) {
  MS.sep_calls++; MS.sep_start = start; MS.sep_limit = limit; MS.t_sep = tick();
  start->size = IN.sep_size;
}
static void stub_successor(const ldb_comparator_t *c, ldb_buffer_t *key) {
  MS.succ_calls++; MS.succ_key = key; MS.t_succ = tick();
  key->size = IN.succ_size;
}

#include "table/table_builder.c"

/* ================================================================ tblb.raw */
#define TB_INV(tb) ((tb)->file == &g_wfile && ((tb)->status == LDB_OK) == !W.failed && ((tb)->status != LDB_OK || ((tb)->offset == W.accepted && W.phase == 0)))
#define NOWRAP(off, n) ((n) <= 0xffffffffffffffffull - 5 && (off) <= 0xffffffffffffffffull - 5 - (n))
#define WLAST (W.blk[__CPROVER_old(W.n)])

void c_tblb_raw(ldb_tablegen_t *tb, const ldb_slice_t *block_contents, enum ldb_compression type, ldb_handle_t *handle)
__CPROVER_requires(__CPROVER_rw_ok(tb, sizeof(*tb)) && __CPROVER_r_ok(block_contents, sizeof(*block_contents)) && __CPROVER_w_ok(handle, sizeof(*handle)))
__CPROVER_requires(block_contents->size == 0 || __CPROVER_r_ok(block_contents->data, block_contents->size))
/* called only while the builder is healthy: after an error nothing more is written */
__CPROVER_requires(tb->status == LDB_OK && TB_INV(tb) && MS.fx_calls == 0 && W.n < WMAX)
__CPROVER_requires((type == LDB_NO_COMPRESSION || type == LDB_SNAPPY_COMPRESSION) && NOWRAP(tb->offset, block_contents->size))
__CPROVER_assigns(tb->status, tb->offset, handle->offset, handle->size, W.failed, W.fail_rc, W.n, W.accepted, W.phase, W.blk[W.n], MS.crc_calls)
/* the handle names the extent the contents occupy (trailer not included) */
__CPROVER_ensures(handle->offset == __CPROVER_old(tb->offset) && handle->size == block_contents->size)
/* success: one more complete block in the file, at the old end of file */
__CPROVER_ensures(tb->status == LDB_OK ==> (W.n == __CPROVER_old(W.n) + 1 && WLAST.off == __CPROVER_old(tb->offset) && WLAST.size == block_contents->size &&
                                            WLAST.type == (int)type && WLAST.data == block_contents->data && WLAST.src == W.cur_src &&
                                            tb->offset == __CPROVER_old(tb->offset) + block_contents->size + 5))
/* failure: latched, no complete block, the builder's offset does not move */
__CPROVER_ensures(tb->status != LDB_OK ==> (tb->status == W.fail_rc && W.n == __CPROVER_old(W.n) && tb->offset == __CPROVER_old(tb->offset)))
__CPROVER_ensures(((tb->status == LDB_OK) == !W.failed) && (tb->status != LDB_OK || tb->offset == W.accepted) && (tb->status != LDB_OK || W.phase == 0))
;

/* ========================================================= tblb.write_block
 * Table format: a block is stored Snappy-compressed (type 1) only if that
 * saves at least 12.5 %, otherwise raw (type 0).
 */
#define WB_RAW0 (__CPROVER_old(block->buffer.size) + IN.fin_extra)   /* size of the finished raw block */
#define WB_SNAPPY (tb->options.compression == LDB_SNAPPY_COMPRESSION)
#define WB_COMPRESSED(rawn) (WB_SNAPPY && IN.enc_len < (rawn) - ((rawn) / 8))

void c_tblb_write_block(ldb_tablegen_t *tb, ldb_blockgen_t *block, ldb_handle_t *handle)
__CPROVER_requires(__CPROVER_rw_ok(tb, sizeof(*tb)) && __CPROVER_rw_ok(block, sizeof(*block)) && __CPROVER_w_ok(handle, sizeof(*handle)))
/* called only while the builder is healthy */
__CPROVER_requires(tb->status == LDB_OK && TB_INV(tb) && MS.fx_calls == 0 && W.n < WMAX && W.cur_src == NULL && !block->finished)
__CPROVER_requires(tb->options.compression == LDB_NO_COMPRESSION || tb->options.compression == LDB_SNAPPY_COMPRESSION)
__CPROVER_requires(block->buffer.size <= ((size_t)1 << 48) && IN.fin_extra <= ((size_t)1 << 48) && IN.enc_len <= ((size_t)1 << 48) && tb->offset <= (1ull << 60))
__CPROVER_requires(__CPROVER_r_ok(block->buffer.data, FIN_SIZE(block)) && __CPROVER_rw_ok(IN.comp_buf, IN.enc_len) && IN.enc_size_ok == 1)
__CPROVER_assigns(tb->status, tb->offset, handle->offset, handle->size, W.failed, W.fail_rc, W.n, W.accepted, W.phase, W.blk[W.n], W.cur_src, MS.crc_calls, MS.enc_calls, MS.grow_calls,
                  tb->compressed_output.data, tb->compressed_output.size, tb->compressed_output.alloc, block->finished, block->counter, block->buffer.size)
/* the block builder is finished, its block goes out, and it is reset for the next block */
__CPROVER_ensures(block->finished == 0 && block->counter == 0 && block->buffer.size == 0 && W.cur_src == NULL && tb->compressed_output.size == 0)
/* Snappy is tried iff the table asks for it */
__CPROVER_ensures(MS.enc_calls == __CPROVER_old(MS.enc_calls) + (WB_SNAPPY ? 1 : 0))
/* handle = (old end of file, stored size) */
__CPROVER_ensures(handle->offset == __CPROVER_old(tb->offset) &&
                  handle->size == (WB_COMPRESSED(WB_RAW0) ? IN.enc_len : WB_RAW0))
/* success: one more complete block: compressed form (type 1) iff it is smaller than raw - raw/8, else the raw block (type 0) */
__CPROVER_ensures(tb->status == LDB_OK ==> (W.n == __CPROVER_old(W.n) + 1 && WLAST.off == __CPROVER_old(tb->offset) && WLAST.size == handle->size && WLAST.src == (const void *)block &&
                                            WLAST.type == (WB_COMPRESSED(WB_RAW0) ? 1 : 0) &&
                                            WLAST.data == (WB_COMPRESSED(WB_RAW0) ? IN.comp_buf : block->buffer.data) &&
                                            tb->offset == __CPROVER_old(tb->offset) + handle->size + 5))
__CPROVER_ensures(tb->status != LDB_OK ==> (tb->status == W.fail_rc && W.n == __CPROVER_old(W.n) && tb->offset == __CPROVER_old(tb->offset)))
__CPROVER_ensures(((tb->status == LDB_OK) == !W.failed) && (tb->status != LDB_OK || tb->offset == W.accepted) && (tb->status != LDB_OK || W.phase == 0))
;

/* =============================================================== tblb.flush */
#define FL_ATT(st0, n0) ((st0) == LDB_OK && (n0) != 0)     /* a data block write is attempted */

void c_tblb_flush(ldb_tablegen_t *tb)
__CPROVER_requires(__CPROVER_rw_ok(tb, sizeof(*tb)) && TB_INV(tb) && MS.fx_calls == 0 && (tb->status == LDB_OK || tb->status == W.fail_rc))
__CPROVER_requires(tb->filter_block == NULL || tb->filter_block == &g_filtergen)
/* builder invariant: an index entry is pending only while the data block is empty */
__CPROVER_requires(!tb->pending_index_entry || tb->data_block.buffer.size == 0)
__CPROVER_requires(tb->status != LDB_OK || tb->data_block.buffer.size == 0 ||
                   (W.n < WMAX && W.cur_src == NULL && !tb->data_block.finished && tb->data_block.buffer.size <= ((size_t)1 << 48) && IN.fin_extra <= ((size_t)1 << 48) &&
                    IN.enc_len <= ((size_t)1 << 48) && tb->offset <= (1ull << 60) && __CPROVER_r_ok(tb->data_block.buffer.data, FIN_SIZE(&tb->data_block)) &&
                    __CPROVER_rw_ok(IN.comp_buf, IN.enc_len) && IN.enc_size_ok == 1 &&
                    (tb->options.compression == LDB_NO_COMPRESSION || tb->options.compression == LDB_SNAPPY_COMPRESSION)))
__CPROVER_assigns(tb->status, tb->offset, tb->pending_handle.offset, tb->pending_handle.size, tb->pending_index_entry,
                  W.failed, W.fail_rc, W.n, W.accepted, W.phase, W.blk[W.n], W.cur_src, W.flushes, W.flush_rc, MS.crc_calls, MS.enc_calls, MS.grow_calls, MS.clock,
                  tb->compressed_output.data, tb->compressed_output.size, tb->compressed_output.alloc, tb->data_block.finished, tb->data_block.counter, tb->data_block.buffer.size,
                  FG.start_calls, FG.start_off, FG.t_start)
/* a failed builder or an empty data block: nothing happens at all */
__CPROVER_ensures(!FL_ATT(__CPROVER_old(tb->status), __CPROVER_old(tb->data_block.buffer.size)) ==>
                  (tb->status == __CPROVER_old(tb->status) && tb->offset == __CPROVER_old(tb->offset) && W.n == __CPROVER_old(W.n) && W.accepted == __CPROVER_old(W.accepted) &&
                   W.flushes == __CPROVER_old(W.flushes) && W.failed == __CPROVER_old(W.failed) &&
                   tb->pending_index_entry == __CPROVER_old(tb->pending_index_entry) && tb->pending_handle.offset == __CPROVER_old(tb->pending_handle.offset) &&
                   tb->pending_handle.size == __CPROVER_old(tb->pending_handle.size) && tb->data_block.buffer.size == __CPROVER_old(tb->data_block.buffer.size) &&
                   tb->data_block.counter == __CPROVER_old(tb->data_block.counter) && FG.start_calls == __CPROVER_old(FG.start_calls) && W.cur_src == __CPROVER_old(W.cur_src) &&
                   tb->data_block.finished == __CPROVER_old(tb->data_block.finished) && W.phase == __CPROVER_old(W.phase)))
/* otherwise the data block goes out through write_block; its handle becomes the pending index entry */
__CPROVER_ensures(FL_ATT(__CPROVER_old(tb->status), __CPROVER_old(tb->data_block.buffer.size)) ==>
                  (tb->data_block.buffer.size == 0 && tb->data_block.counter == 0 && !tb->data_block.finished && W.cur_src == NULL &&
                   tb->pending_handle.offset == __CPROVER_old(tb->offset)))
/* block written: index entry pending, file flushed, flush status = builder status */
__CPROVER_ensures(FL_ATT(__CPROVER_old(tb->status), __CPROVER_old(tb->data_block.buffer.size)) && W.n == __CPROVER_old(W.n) + 1 ==>
                  (WLAST.src == (const void *)&tb->data_block && WLAST.off == tb->pending_handle.offset && WLAST.size == tb->pending_handle.size &&
                   tb->offset == __CPROVER_old(tb->offset) + tb->pending_handle.size + 5 &&
                   tb->pending_index_entry == 1 && W.flushes == __CPROVER_old(W.flushes) + 1 && tb->status == W.flush_rc))
/* what was stored is the block builder's finished block, raw or compressed */
__CPROVER_ensures(FL_ATT(__CPROVER_old(tb->status), __CPROVER_old(tb->data_block.buffer.size)) ==>
                  (tb->pending_handle.size == __CPROVER_old(tb->data_block.buffer.size) + IN.fin_extra || tb->pending_handle.size == IN.enc_len))
__CPROVER_ensures(tb->status != LDB_OK ==> tb->status == W.fail_rc)
/* block not written: the error is latched, nothing pending, no flush */
__CPROVER_ensures(FL_ATT(__CPROVER_old(tb->status), __CPROVER_old(tb->data_block.buffer.size)) && W.n != __CPROVER_old(W.n) + 1 ==>
                  (W.n == __CPROVER_old(W.n) && tb->status != LDB_OK && tb->status == W.fail_rc && tb->pending_index_entry == __CPROVER_old(tb->pending_index_entry) &&
                   W.flushes == __CPROVER_old(W.flushes) && tb->offset == __CPROVER_old(tb->offset)))
/* the filter builder learns where the next data block starts */
__CPROVER_ensures(FL_ATT(__CPROVER_old(tb->status), __CPROVER_old(tb->data_block.buffer.size)) ==>
                  (FG.start_calls == __CPROVER_old(FG.start_calls) + (tb->filter_block != NULL ? 1 : 0) &&
                   (tb->filter_block == NULL || (FG.start_off == tb->offset && FG.t_start > __CPROVER_old(MS.clock) && FG.t_start <= MS.clock))))
__CPROVER_ensures(MS.clock >= __CPROVER_old(MS.clock))
__CPROVER_ensures(((tb->status == LDB_OK) == !W.failed) && (tb->status != LDB_OK || tb->offset == W.accepted) && (tb->status != LDB_OK || W.phase == 0))
;

/* ================================================================= tblb.add
 * TableBuilder::Add.  NOTE (release builds, -DNDEBUG): the key order check
 * `assert(compare(key, last_key) > 0)` vanishes - the comparator is not even
 * called; an out-of-order key is accepted like any other (the caller contract
 * "keys strictly increasing" is NOT enforced by the builder).
 */
#define BLOCK_PRE(tb, bufsz) (W.n < WMAX && W.cur_src == NULL && (bufsz) <= ((size_t)1 << 48) && IN.fin_extra <= ((size_t)1 << 48) && IN.enc_len <= ((size_t)1 << 48) && \
                       (tb)->offset <= (1ull << 59) && __CPROVER_rw_ok(IN.comp_buf, IN.enc_len) && IN.enc_size_ok == 1 && \
                       ((tb)->options.compression == LDB_NO_COMPRESSION || (tb)->options.compression == LDB_SNAPPY_COMPRESSION))
#define AD_OK0 (__CPROVER_old(tb->status) == LDB_OK)
#define AD_P0 (__CPROVER_old(tb->pending_index_entry) != 0)
#define AD_DATA (AD.e[AD_P0 ? 1 : 0])
#define AD_FLUSH (AD_OK0 && IN.est >= tb->options.block_size)
#define HAS_SEP (g_cmp.shortest_separator != NULL)
#define HAS_SUCC (g_cmp.short_successor != NULL)
#define HAS_FILTER (tb->filter_block != NULL)

void c_tblb_add(ldb_tablegen_t *tb, const ldb_slice_t *key, const ldb_slice_t *value)
__CPROVER_requires(__CPROVER_rw_ok(tb, sizeof(*tb)) && __CPROVER_r_ok(key, sizeof(*key)) && __CPROVER_r_ok(value, sizeof(*value)) && TB_INV(tb) && MS.fx_calls == 0 && (tb->status == LDB_OK || tb->status == W.fail_rc))
__CPROVER_requires((tb->filter_block == NULL || tb->filter_block == &g_filtergen) && tb->options.comparator == &g_cmp)
__CPROVER_requires((g_cmp.shortest_separator == NULL || g_cmp.shortest_separator == stub_separator) && (g_cmp.short_successor == NULL || g_cmp.short_successor == stub_successor))
__CPROVER_requires(!tb->pending_index_entry || tb->data_block.buffer.size == 0)
__CPROVER_requires(AD.n == 0 && tb->num_entries >= 0 && tb->num_entries < (1ll << 62) && !tb->data_block.finished && !tb->index_block.finished)
__CPROVER_requires(tb->data_block.counter >= 0 && tb->data_block.counter < (1 << 30) && tb->index_block.counter >= 0 && tb->index_block.counter < (1 << 30))
__CPROVER_requires(IN.add_grow > 0 && IN.add_grow <= ((size_t)1 << 40) && tb->data_block.buffer.size <= ((size_t)1 << 47) && tb->index_block.buffer.size <= ((size_t)1 << 47))
__CPROVER_requires(tb->status != LDB_OK || (BLOCK_PRE(tb, tb->data_block.buffer.size + IN.add_grow) &&
                                            __CPROVER_r_ok(tb->data_block.buffer.data, tb->data_block.buffer.size + IN.add_grow + IN.fin_extra)))
__CPROVER_assigns(tb->status, tb->offset, tb->pending_handle.offset, tb->pending_handle.size, tb->pending_index_entry, tb->num_entries, tb->last_key.size,
                  W.failed, W.fail_rc, W.n, W.accepted, W.phase, W.blk[W.n], W.cur_src, W.flushes, W.flush_rc,
                  tb->compressed_output.data, tb->compressed_output.size, tb->compressed_output.alloc, tb->data_block.finished, tb->data_block.counter, tb->data_block.buffer.size,
                  tb->index_block.counter, tb->index_block.buffer.size, FG, AD, MS)
/* a failed builder ignores the entry completely */
__CPROVER_ensures(!AD_OK0 ==> (tb->status == __CPROVER_old(tb->status) && AD.n == 0 && FG.add_calls == __CPROVER_old(FG.add_calls) && tb->num_entries == __CPROVER_old(tb->num_entries) &&
                               W.n == __CPROVER_old(W.n) && W.flushes == __CPROVER_old(W.flushes) && W.accepted == __CPROVER_old(W.accepted) &&
                               tb->pending_index_entry == __CPROVER_old(tb->pending_index_entry) && MS.copy_calls == __CPROVER_old(MS.copy_calls) &&
                               tb->last_key.size == __CPROVER_old(tb->last_key.size) && tb->data_block.buffer.size == __CPROVER_old(tb->data_block.buffer.size)))
/* block builder entries added: [index entry for the previous data block, if one is pending,] then the data entry */
__CPROVER_ensures(AD_OK0 ==> AD.n == (AD_P0 ? 2u : 1u))
/* the pending index entry is emitted now that the next key is known: key = shortest_separator(last_key, key) (computed in place in last_key), value = encoded pending handle */
__CPROVER_ensures(AD_OK0 && AD_P0 ==> (AD.e[0].bb == &tb->index_block && AD.e[0].kd == tb->last_key.data && AD.e[0].kn == (HAS_SEP ? IN.sep_size : __CPROVER_old(tb->last_key.size)) &&
                                       AD.e[0].hx && AD.e[0].hx_off == __CPROVER_old(tb->pending_handle.offset) && AD.e[0].hx_size == __CPROVER_old(tb->pending_handle.size) &&
                                       AD.e[0].vn == (size_t)(V64_SIZE(AD.e[0].hx_off) + V64_SIZE(AD.e[0].hx_size))))
__CPROVER_ensures(AD_OK0 && AD_P0 ==> (MS.sep_calls == __CPROVER_old(MS.sep_calls) + (HAS_SEP ? 1 : 0) && (!HAS_SEP || (MS.sep_start == &tb->last_key && MS.sep_limit == key && MS.t_sep < AD.e[0].t))))
/* ... and before last_key is overwritten with the new key */
__CPROVER_ensures(AD_OK0 && AD_P0 ==> AD.e[0].t < MS.t_copy)
__CPROVER_ensures(AD_OK0 && !AD_P0 ==> (MS.sep_calls == __CPROVER_old(MS.sep_calls) && MS.hx_calls == __CPROVER_old(MS.hx_calls) && tb->index_block.counter == __CPROVER_old(tb->index_block.counter)))
/* every key goes to the filter builder */
__CPROVER_ensures(AD_OK0 ==> (FG.add_calls == __CPROVER_old(FG.add_calls) + (HAS_FILTER ? 1 : 0) && (!HAS_FILTER || FG.add_key == key)))
/* last_key := key, one more entry */
__CPROVER_ensures(AD_OK0 ==> (MS.copy_calls == __CPROVER_old(MS.copy_calls) + 1 && MS.copy_dst == &tb->last_key && MS.copy_src == key->data && MS.copy_n == key->size &&
                              tb->num_entries == __CPROVER_old(tb->num_entries) + 1))
/* the entry itself goes to the data block */
__CPROVER_ensures(AD_OK0 ==> (AD_DATA.bb == &tb->data_block && AD_DATA.kd == key->data && AD_DATA.kn == key->size && AD_DATA.vd == value->data && AD_DATA.vn == value->size))
/* the data block is flushed iff its size estimate has reached block_size */
__CPROVER_ensures(AD_OK0 && !AD_FLUSH ==> (W.n == __CPROVER_old(W.n) && W.flushes == __CPROVER_old(W.flushes) && W.accepted == __CPROVER_old(W.accepted) &&
                                           FG.start_calls == __CPROVER_old(FG.start_calls) && tb->pending_index_entry == 0 && tb->status == LDB_OK &&
                                           tb->data_block.buffer.size == __CPROVER_old(tb->data_block.buffer.size) + IN.add_grow &&
                                           tb->data_block.counter == __CPROVER_old(tb->data_block.counter) + 1 && tb->last_key.size == key->size))
__CPROVER_ensures(AD_FLUSH ==> (tb->data_block.buffer.size == 0 && FG.start_calls == __CPROVER_old(FG.start_calls) + (HAS_FILTER ? 1 : 0) &&
                                (!HAS_FILTER || (FG.start_off == tb->offset && FG.t_add < FG.t_start))))
__CPROVER_ensures(AD_FLUSH && W.n == __CPROVER_old(W.n) + 1 ==> (WLAST.src == (const void *)&tb->data_block && WLAST.off == __CPROVER_old(tb->offset) && tb->pending_index_entry == 1 &&
                                                               tb->pending_handle.offset == WLAST.off && tb->pending_handle.size == WLAST.size &&
                                                               W.flushes == __CPROVER_old(W.flushes) + 1 && tb->status == W.flush_rc))
__CPROVER_ensures(AD_FLUSH && W.n != __CPROVER_old(W.n) + 1 ==> (W.n == __CPROVER_old(W.n) && tb->status != LDB_OK && tb->status == W.fail_rc && tb->pending_index_entry == 0 &&
                                                               W.flushes == __CPROVER_old(W.flushes)))
/* release build: the comparator is never consulted about the key order */
__CPROVER_ensures(MS.cmp_calls == __CPROVER_old(MS.cmp_calls))
/* invariants */
__CPROVER_ensures(TB_INV(tb) && (!tb->pending_index_entry || tb->data_block.buffer.size == 0))
;

/* ============================================================== tblb.finish
 * TableBuilder::Finish.  File layout written (table_format.md):
 *   [last data block] [filter block] [metaindex block] [index block] [footer]
 */
#define FI_OK0 (__CPROVER_old(tb->status) == LDB_OK)
#define FI_D (FI_OK0 && __CPROVER_old(tb->data_block.buffer.size) != 0 ? 1u : 0u)     /* a last data block exists            */
#define FI_F (HAS_FILTER ? 1u : 0u)
#define FI_N0 (__CPROVER_old(W.n))
#define FI_DATA (W.blk[FI_N0])
#define FI_FILT (W.blk[FI_N0 + FI_D])
#define FI_META (W.blk[FI_N0 + FI_D + FI_F])
#define FI_INDEX (W.blk[FI_N0 + FI_D + FI_F + 1])
#define FI_PEND (FI_D ? 1 : __CPROVER_old(tb->pending_index_entry) != 0)               /* an index entry is pending after the flush */
#define FI_IDXE (AD.e[FI_F])                                                          /* the index entry added by finish     */

int c_tblb_finish(ldb_tablegen_t *tb)
__CPROVER_requires(__CPROVER_rw_ok(tb, sizeof(*tb)) && TB_INV(tb) && MS.fx_calls == 0 && MS.foot_appends == 0 && MS.init_calls == 0 && MS.clear_calls == 0 && MS.bn_calls == 0 && FG.fin_calls == 0)
__CPROVER_requires(!tb->closed && W.n + 4 <= WMAX && (tb->status == LDB_OK || tb->status == W.fail_rc))
__CPROVER_requires(((tb->filter_block == NULL && tb->options.filter_policy == NULL) || (tb->filter_block == &g_filtergen && tb->options.filter_policy == &g_policy)) && tb->options.comparator == &g_cmp)
__CPROVER_requires((g_cmp.shortest_separator == NULL || g_cmp.shortest_separator == stub_separator) && (g_cmp.short_successor == NULL || g_cmp.short_successor == stub_successor))
__CPROVER_requires(!tb->pending_index_entry || tb->data_block.buffer.size == 0)
__CPROVER_requires(AD.n == 0 && !tb->data_block.finished && !tb->index_block.finished)
__CPROVER_requires(tb->data_block.counter >= 0 && tb->data_block.counter < (1 << 30) && tb->index_block.counter >= 0 && tb->index_block.counter < (1 << 30))
__CPROVER_requires(IN.add_grow > 0 && IN.add_grow <= ((size_t)1 << 40) && tb->data_block.buffer.size <= ((size_t)1 << 47) && tb->index_block.buffer.size <= ((size_t)1 << 47) && IN.filt_n <= ((size_t)1 << 48))
__CPROVER_requires(tb->status != LDB_OK || (BLOCK_PRE(tb, tb->data_block.buffer.size) && W.n + 4 <= WMAX &&
                                            __CPROVER_r_ok(tb->data_block.buffer.data, tb->data_block.buffer.size + IN.fin_extra) &&
                                            __CPROVER_r_ok(tb->index_block.buffer.data, tb->index_block.buffer.size + IN.add_grow + IN.fin_extra) &&
                                            __CPROVER_r_ok(IN.meta_buf, IN.add_grow + IN.fin_extra) && __CPROVER_r_ok(IN.filt_data, IN.filt_n)))
__CPROVER_assigns(tb->status, tb->offset, tb->pending_handle.offset, tb->pending_handle.size, tb->pending_index_entry, tb->closed, tb->last_key.size,
                  W.failed, W.fail_rc, W.n, W.accepted, W.phase, W.blk[W.n], W.blk[W.n + 1], W.blk[W.n + 2], W.blk[W.n + 3], W.cur_src, W.flushes, W.flush_rc,
                  tb->compressed_output.data, tb->compressed_output.size, tb->compressed_output.alloc, tb->data_block.finished, tb->data_block.counter, tb->data_block.buffer.size,
                  tb->index_block.finished, tb->index_block.counter, tb->index_block.buffer.size, FG, AD, MS)
__CPROVER_ensures(tb->closed == 1)
/* a failed builder: its error is returned, nothing is written */
__CPROVER_ensures(!FI_OK0 ==> (__CPROVER_return_value == __CPROVER_old(tb->status) && tb->status == __CPROVER_old(tb->status) && W.n == FI_N0 && W.accepted == __CPROVER_old(W.accepted) &&
                               MS.foot_appends == 0 && FG.fin_calls == 0 && AD.n == 0 && W.flushes == __CPROVER_old(W.flushes) && MS.init_calls == 0))
/* the result is the builder's status - except that a filter policy whose name does not fit is reported as LDB_INVALID (nothing further written, metaindex builder released) */
__CPROVER_ensures(__CPROVER_return_value == tb->status || (__CPROVER_return_value == LDB_INVALID && tb->status == LDB_OK && HAS_FILTER && !IN.name_ok && MS.bn_calls == 1 &&
                                                          W.n == FI_N0 + FI_D + 1 && MS.init_calls == 1 && MS.clear_calls == 1 && MS.foot_appends == 0 && MS.fx_calls == 0))
/* an I/O error is the first one the file reported, and it stopped everything */
__CPROVER_ensures(tb->status != LDB_OK ==> (W.failed && tb->status == W.fail_rc))
__CPROVER_ensures(MS.init_calls == MS.clear_calls)
/* success: the file now holds, in this order and back to back: [last data block] [filter block] metaindex block, index block, footer */
__CPROVER_ensures(__CPROVER_return_value == LDB_OK ==> (tb->status == LDB_OK && W.n == FI_N0 + FI_D + FI_F + 2 && MS.foot_appends == 1 && tb->offset == W.accepted))
__CPROVER_ensures(__CPROVER_return_value == LDB_OK && FI_D ==> (FI_DATA.src == (const void *)&tb->data_block && FI_DATA.off == __CPROVER_old(tb->offset) && W.flushes == __CPROVER_old(W.flushes) + 1))
__CPROVER_ensures(__CPROVER_return_value == LDB_OK && !FI_D ==> W.flushes == __CPROVER_old(W.flushes))
/* filter block: what the filter builder's finish() returned, stored uncompressed */
__CPROVER_ensures(__CPROVER_return_value == LDB_OK ==> FG.fin_calls == FI_F)
__CPROVER_ensures(__CPROVER_return_value == LDB_OK && FI_F ==> (FI_FILT.src == NULL && FI_FILT.type == 0 && FI_FILT.data == IN.filt_data && FI_FILT.size == IN.filt_n &&
                                                               FI_FILT.off == (FI_D ? FI_DATA.off + FI_DATA.size + 5 : __CPROVER_old(tb->offset))))
/* metaindex block: a fresh block builder with the table's options, holding exactly the entry "filter.<policy>" -> filter handle (iff there is a filter) */
__CPROVER_ensures(__CPROVER_return_value == LDB_OK ==> (MS.init_calls == 1 && MS.init_opt == &tb->options && FI_META.src == (const void *)MS.meta_bb &&
                                                        FI_META.off == (FI_F ? FI_FILT.off + FI_FILT.size + 5 : FI_D ? FI_DATA.off + FI_DATA.size + 5 : __CPROVER_old(tb->offset)) &&
                                                        FI_META.size == (FI_F ? IN.add_grow : 0) + IN.fin_extra - (FI_META.type == 1 ? (FI_F ? IN.add_grow : 0) + IN.fin_extra - IN.enc_len : 0)))
__CPROVER_ensures(__CPROVER_return_value == LDB_OK && FI_F ==> (AD.e[0].bb == MS.meta_bb && AD.e[0].kd == (const uint8_t *)MS.bn_buf && AD.e[0].kn == IN.name_len &&
                                                               AD.e[0].hx && AD.e[0].hx_off == FI_FILT.off && AD.e[0].hx_size == FI_FILT.size))
/* index block: the pending entry (if any) is completed with short_successor(last_key) -> pending handle, then the block goes out */
__CPROVER_ensures(__CPROVER_return_value == LDB_OK ==> (AD.n == FI_F + (FI_PEND ? 1u : 0u) && tb->pending_index_entry == 0 && FI_INDEX.src == (const void *)&tb->index_block &&
                                                        FI_INDEX.off == FI_META.off + FI_META.size + 5))
__CPROVER_ensures(__CPROVER_return_value == LDB_OK && FI_PEND ==> (FI_IDXE.bb == &tb->index_block && FI_IDXE.kd == tb->last_key.data &&
                                                                  FI_IDXE.kn == (HAS_SUCC ? IN.succ_size : __CPROVER_old(tb->last_key.size)) && FI_IDXE.hx &&
                                                                  FI_IDXE.hx_off == (FI_D ? FI_DATA.off : __CPROVER_old(tb->pending_handle.offset)) &&
                                                                  FI_IDXE.hx_size == (FI_D ? FI_DATA.size : __CPROVER_old(tb->pending_handle.size)) &&
                                                                  MS.succ_calls == __CPROVER_old(MS.succ_calls) + (HAS_SUCC ? 1 : 0) &&
                                                                  (!HAS_SUCC || (MS.succ_key == &tb->last_key && MS.t_succ < FI_IDXE.t))))
__CPROVER_ensures(__CPROVER_return_value == LDB_OK && !FI_PEND ==> MS.succ_calls == __CPROVER_old(MS.succ_calls))
/* footer: the metaindex handle and the index handle, appended right after the index block; the file ends there */
__CPROVER_ensures(__CPROVER_return_value == LDB_OK ==> (MS.fx_calls == 1 && MS.fx_mo == FI_META.off && MS.fx_ms == FI_META.size && MS.fx_io == FI_INDEX.off && MS.fx_is == FI_INDEX.size &&
                                                        tb->offset == FI_INDEX.off + FI_INDEX.size + 5 + 48))
/* no separator is computed at finish, no further key reaches the filter */
__CPROVER_ensures(MS.sep_calls == __CPROVER_old(MS.sep_calls) && FG.add_calls == __CPROVER_old(FG.add_calls) && MS.cmp_calls == __CPROVER_old(MS.cmp_calls))
;

/* =============================================================== tblb.misc */
void c_tblb_abandon(ldb_tablegen_t *tb)
__CPROVER_requires(__CPROVER_rw_ok(tb, sizeof(*tb)))
__CPROVER_assigns(tb->closed)
__CPROVER_ensures(tb->closed == 1)
;
int c_tblb_status(const ldb_tablegen_t *tb)
__CPROVER_requires(__CPROVER_r_ok(tb, sizeof(*tb)))
__CPROVER_assigns()
__CPROVER_ensures(__CPROVER_return_value == tb->status)
;
uint64_t c_tblb_entries(const ldb_tablegen_t *tb)
__CPROVER_requires(__CPROVER_r_ok(tb, sizeof(*tb)))
__CPROVER_assigns()
__CPROVER_ensures(__CPROVER_return_value == (uint64_t)tb->num_entries)
;
uint64_t c_tblb_size(const ldb_tablegen_t *tb)
__CPROVER_requires(__CPROVER_r_ok(tb, sizeof(*tb)))
__CPROVER_assigns()
__CPROVER_ensures(__CPROVER_return_value == tb->offset)
;

/* ------------------------------------------------------------- harnesses */
static void init_ghost(void) {
  IN.fin_extra = nondet_size(); IN.add_grow = nondet_size(); IN.est = nondet_size();
  IN.enc_size_ok = nondet_int() ? 1 : 0; IN.enc_max = nondet_size(); IN.enc_len = nondet_size();
  IN.filt_n = nondet_size(); IN.name_ok = nondet_int() ? 1 : 0; IN.name_len = nondet_size();
  IN.sep_size = nondet_size(); IN.succ_size = nondet_size();
  ASSUME(IN.add_grow > 0 && IN.add_grow <= ((size_t)1 << 40));
  ASSUME(IN.fin_extra <= ((size_t)1 << 48) && IN.enc_len <= ((size_t)1 << 48));
  IN.comp_buf = malloc(IN.enc_len); IN.meta_buf = malloc(IN.add_grow + IN.fin_extra); IN.filt_data = malloc(IN.filt_n);
  ASSUME(IN.comp_buf != NULL && IN.meta_buf != NULL && IN.filt_data != NULL);
  W.failed = 0; W.fail_rc = 0; W.phase = 0; W.cur_src = NULL; W.flushes = 0; W.flush_rc = 0;
  W.n = (unsigned)nondet_int(); ASSUME(W.n < WMAX);
  W.accepted = nondet_u64(); ASSUME(W.accepted <= (1ull << 60));
  AD.n = 0;
  FG.start_calls = 0; FG.add_calls = 0; FG.fin_calls = 0; FG.add_key = NULL; FG.start_off = 0; FG.t_add = 0; FG.t_start = 0;
  MS.clock = 0; MS.sep_calls = 0; MS.succ_calls = 0; MS.hx_calls = 0; MS.copy_calls = 0; MS.est_calls = 0; MS.enc_calls = 0; MS.grow_calls = 0;
  MS.init_calls = 0; MS.clear_calls = 0; MS.bn_calls = 0; MS.fx_calls = 0; MS.foot_appends = 0; MS.crc_calls = 0; MS.cmp_calls = 0; MS.meta_bb = NULL; MS.hx_buf = NULL; MS.fx_buf = NULL;
  MS.t_sep = MS.t_succ = MS.t_copy = MS.t_est = 0;
}

/* a builder in an arbitrary state satisfying the invariant; healthy unless failed is chosen */
static ldb_tablegen_t *any_builder(void) {
  ldb_tablegen_t *tb = malloc(sizeof(*tb));
  IN_INT(in_failed); IN_INT(in_has_filter); IN_INT(in_compression); IN_INT(in_has_sep); IN_INT(in_has_succ);
  ASSUME(tb != NULL);
  tb->file = &g_wfile;
  tb->options.compression = in_compression ? LDB_SNAPPY_COMPRESSION : LDB_NO_COMPRESSION;
  tb->options.comparator = &g_cmp; tb->options.filter_policy = in_has_filter ? &g_policy : NULL;
  tb->filter_block = in_has_filter ? &g_filtergen : NULL;
  g_cmp.name = "stub"; g_cmp.compare = stub_compare; g_cmp.shortest_separator = in_has_sep ? stub_separator : NULL; g_cmp.short_successor = in_has_succ ? stub_successor : NULL;
  g_cmp.user_comparator = NULL; g_cmp.state = NULL;
  tb->offset = W.accepted;
  if (in_failed) {
    tb->status = nondet_int(); ASSUME(tb->status != LDB_OK);
    W.failed = 1; W.fail_rc = tb->status;
  } else {
    tb->status = LDB_OK;
  }
  ASSUME(tb->data_block.buffer.size <= ((size_t)1 << 47) && tb->index_block.buffer.size <= ((size_t)1 << 47));
  tb->data_block.buffer.data = malloc(FIN_SIZE(&tb->data_block) + IN.add_grow); tb->index_block.buffer.data = malloc(FIN_SIZE(&tb->index_block) + IN.add_grow);
  ASSUME(tb->data_block.buffer.data != NULL && tb->index_block.buffer.data != NULL);
  tb->data_block.finished = 0; tb->index_block.finished = 0;
  ASSUME(tb->data_block.counter >= 0 && tb->data_block.counter < (1 << 30) && tb->index_block.counter >= 0 && tb->index_block.counter < (1 << 30));
  tb->last_key.data = malloc(1); ASSUME(tb->last_key.data != NULL);
  ASSUME(!tb->pending_index_entry || tb->data_block.buffer.size == 0);
  ASSUME(tb->num_entries >= 0 && tb->num_entries < (1ll << 62));
  tb->compressed_output.data = NULL; tb->compressed_output.size = 0; tb->compressed_output.alloc = 0;
  tb->closed = 0;
  return tb;
}

void h_raw(void) {
  ldb_tablegen_t *tb; ldb_slice_t c; ldb_handle_t h;
  IN_SIZE(in_n); IN_INT(in_type);
  uint8_t *data = malloc(in_n);
  ASSUME(data != NULL);
  init_ghost();
  tb = any_builder();
  c.data = data; c.size = in_n; c.alloc = 0;
  W.cur_src = nondet_int() ? (const void *)&tb->data_block : NULL;
  ldb_tablegen_write_raw_block(tb, &c, (enum ldb_compression)in_type, &h);
  CANARY();
}

void h_write_block(void) {
  ldb_tablegen_t *tb; ldb_handle_t h; ldb_blockgen_t *blk;
  IN_INT(in_which);
  init_ghost();
  tb = any_builder();
  blk = in_which ? &tb->index_block : &tb->data_block;
  ldb_tablegen_write_block(tb, blk, &h);
  CANARY();
}

void h_flush(void) {
  ldb_tablegen_t *tb;
  init_ghost();
  tb = any_builder();
  ldb_tablegen_flush(tb);
  CANARY();
}

void h_add(void) {
  ldb_tablegen_t *tb; ldb_slice_t k, v;
  init_ghost();
  tb = any_builder();
  k.data = malloc(1); k.size = nondet_size(); k.alloc = 0;
  v.data = malloc(1); v.size = nondet_size(); v.alloc = 0;
  ldb_tablegen_add(tb, &k, &v);
  CANARY();
}

void h_finish(void) {
  ldb_tablegen_t *tb; int rc;
  init_ghost();
  tb = any_builder();
  rc = ldb_tablegen_finish(tb);
  (void)rc;
  CANARY();
}

void h_abandon(void) { ldb_tablegen_t *tb; init_ghost(); tb = any_builder(); ldb_tablegen_abandon(tb); CANARY(); }
void h_status(void) { ldb_tablegen_t *tb; init_ghost(); tb = any_builder(); (void)ldb_tablegen_status(tb); CANARY(); }
void h_entries(void) { ldb_tablegen_t *tb; init_ghost(); tb = any_builder(); (void)ldb_tablegen_entries(tb); CANARY(); }
void h_size(void) { ldb_tablegen_t *tb; init_ghost(); tb = any_builder(); (void)ldb_tablegen_size(tb); CANARY(); }
