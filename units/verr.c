/* units/verr.c - key range of a compaction input set, lists of ANY length (group "verr")
 *   ver.getrange.max.u   ldb_versions_get_range: *largest  = the largest  key of a file none of whose peers has a larger one
 *   ver.getrange.min.u   ldb_versions_get_range: *smallest = the smallest key of a file none of whose peers has a smaller one
 *   ver.getrange2.u      ldb_versions_get_range2: the range is taken over inputs1 ++ inputs2 (every element, in place), temporary released
 * Model: units/veru_model.h (abstract key ranks, ghost-index file lists, window g_fo).  Skolem-witness form as in
 * units/veru_bd.c: g_ck is the position of the FIRST file of the list whose largest (mode 0) / smallest (mode 1) key is
 * extremal; g_fcj at g_cj is an arbitrary second file; every other position holds the window g_fo.  One loop contract
 * serves both modes (g_mode selects which pointer is tracked; the other one is only kept valid).
 */
#include "units/veru_model.h"
static void icmp_hook(const ldb_slice_t *x, const ldb_slice_t *y, int res) { (void)x; (void)y; (void)res; }
static void push_hook(const void *x) { (void)x; }
static void push_other_hook(void) { }

int g_mode;                               /* 0: track *largest, 1: track *smallest */
ldb_slice_t g_out_s, g_out_l;

#define L_LT(a, b) LT_(LU(a), LT(a), LU(b), LT(b))
#define L_LE(a, b) (!L_LT(b, a))
#define S_LT(a, b) LT_(SU(a), ST(a), SU(b), ST(b))
#define S_LE(a, b) (!S_LT(b, a))
/* "a is strictly worse than the witness b" / "a is not better than b" in the tracked direction */
#define WORSE(a, b) (g_mode == 0 ? L_LT(a, b) : S_LT(b, a))
#define NOTBETTER(a, b) (g_mode == 0 ? L_LE(a, b) : S_LE(b, a))
#define FC_TOKENS (g_fc.smallest.data == g_tok + 10 && g_fc.largest.data == g_tok + 11 && g_fcj.smallest.data == g_tok + 12 && g_fcj.largest.data == g_tok + 13)
#define FIRSTEXT_FACTS ((g_mode == 0 || g_mode == 1) && g_cn > 0 && g_ck < g_cn && g_cj <= g_cn && (g_cj != g_ck || g_cj == g_cn) && \
  SHAPE(g_fc) && SHAPE(g_fcj) && SHAPE(g_fo) && FC_TOKENS && FO_TOKENS && \
  (g_cj >= g_cn || (g_cj < g_ck ? WORSE(g_fcj, g_fc) : NOTBETTER(g_fcj, g_fc))) && NOTBETTER(g_fo, g_fc) && (g_ck == 0 || WORSE(g_fo, g_fc)))

void c_get_range_u(ldb_versions_t *vset, const ldb_vector_t *inputs, ldb_slice_t *smallest, ldb_slice_t *largest)
__CPROVER_requires(vset == &g_vset && inputs == g_cfiles && __CPROVER_r_ok(inputs, sizeof(*inputs)) && inputs->length == g_cn && g_cn <= NMAX)
__CPROVER_requires(__CPROVER_w_ok(smallest, sizeof(*smallest)) && __CPROVER_w_ok(largest, sizeof(*largest)))
/* REQUIRES: inputs is not empty (version_set.c) */
__CPROVER_requires(FIRSTEXT_FACTS)
__CPROVER_assigns(*smallest, *largest, FO_WINDOW, CMP_GHOST)
__CPROVER_ensures(FO_TOKENS)
/* the range is minimal AND covering: its upper end is (a copy of) the largest key of a file none of whose peers has a larger one ... */
__CPROVER_ensures(g_mode != 0 || (largest->data == g_fc.largest.data && largest->size == g_fc.largest.size && largest->alloc == g_fc.largest.alloc))
/* ... its lower end is (a copy of) the smallest key of a file none of whose peers has a smaller one */
__CPROVER_ensures(g_mode != 1 || (smallest->data == g_fc.smallest.data && smallest->size == g_fc.smallest.size && smallest->alloc == g_fc.smallest.alloc))
/* both ends are keys of files of the list, each of the right kind (a smallest key below, a largest key above) */
__CPROVER_ensures(smallest->data == g_fc.smallest.data || smallest->data == g_fcj.smallest.data || smallest->data == g_fo.smallest.data)
__CPROVER_ensures(largest->data == g_fc.largest.data || largest->data == g_fcj.largest.data || largest->data == g_fo.largest.data)
;
static void **mk_citems(size_t n, size_t k, size_t j) {
  void **items = malloc(n * sizeof(void *));
  __CPROVER_assume(items != NULL);
  __CPROVER_array_set(items, (void *)&g_fo);
  if (j < n) items[j] = &g_fcj;
  if (k < n) items[k] = &g_fc;
  return items;
}
static void h_get_range(int mode) {
  IN_SIZE(in_n); IN_SIZE(in_k); IN_SIZE(in_j);
  ASSUME(in_n <= NMAX);
  mk_world();
  mk_file(&g_fc, g_tok + 10, g_tok + 11); mk_file(&g_fcj, g_tok + 12, g_tok + 13);
  g_mode = mode; g_cn = in_n; g_ck = in_k; g_cj = in_j;
  ASSUME(FIRSTEXT_FACTS);
  g_ver.files[1].items = mk_citems(in_n, in_k, in_j); g_ver.files[1].length = in_n; g_ver.files[1].alloc = in_n;
  g_cfiles = &g_ver.files[1];
  ldb_versions_get_range(&g_vset, &g_ver.files[1], &g_out_s, &g_out_l);
  CANARY();
}
void h_get_range_max_u(void) { h_get_range(0); }
void h_get_range_min_u(void) { h_get_range(1); }
