/* units/ver2_snap.c - ldb_versions_write_snapshot (group "ver2"; C17, C05 R7)
 *
 * The edit is a ghost recorder: ldb_edit_init / set_comparator_name /
 * set_compact_pointer / add_file / export / clear (src/version_edit.c) and
 * ldb_writer_add_record (src/log_writer.c) are stubs that record what they are
 * given and check the protocol (one edit: initialised, filled, exported once,
 * then cleared; the exported buffer is the record appended).  The byte layout
 * of an exported edit is the subject of the edit.* units.
 */
#define VER2_CHUNK_PTRS
#include "ver2_model.h"

#define RMAX 8
static ldb_writer_t g_logw;
static ldb_edit_t *g_ep; static int g_inited, g_cleared, g_exported, g_added, g_rc;
static const char *g_name; static int g_name_n;
static int g_cp_lvl[RMAX]; static const ldb_ikey_t *g_cp_key[RMAX]; static size_t g_cp_n;
static int g_f_lvl[RMAX]; static uint64_t g_f_num[RMAX], g_f_sz[RMAX]; static const ldb_ikey_t *g_f_s[RMAX], *g_f_l[RMAX]; static size_t g_f_n;
static size_t g_x_cp_n, g_x_f_n; static int g_x_name_n;    /* what the edit held when it was exported */
static ldb_buffer_t *g_record;
static uint8_t g_cpk[LDB_NUM_LEVELS][9];

void ldb_edit_init(ldb_edit_t *edit) {
  __CPROVER_assert(!g_inited, "write_snapshot: one edit is built"); g_ep = edit; g_inited = 1;
}
void ldb_edit_set_comparator_name(ldb_edit_t *edit, const char *name) {
  __CPROVER_assert(edit == g_ep && g_inited && !g_exported, "write_snapshot: the edit is filled after init and before export");
  g_name = name; g_name_n++;
}
void ldb_edit_set_compact_pointer(ldb_edit_t *edit, int level, const ldb_ikey_t *key) {
  __CPROVER_assert(edit == g_ep && g_inited && !g_exported, "write_snapshot: the edit is filled after init and before export");
  if (g_cp_n < RMAX) { g_cp_lvl[g_cp_n] = level; g_cp_key[g_cp_n] = key; }
  g_cp_n++;
}
void ldb_edit_add_file(ldb_edit_t *edit, int level, uint64_t number, uint64_t file_size, const ldb_ikey_t *smallest, const ldb_ikey_t *largest) {
  __CPROVER_assert(edit == g_ep && g_inited && !g_exported, "write_snapshot: the edit is filled after init and before export");
  if (g_f_n < RMAX) { g_f_lvl[g_f_n] = level; g_f_num[g_f_n] = number; g_f_sz[g_f_n] = file_size; g_f_s[g_f_n] = smallest; g_f_l[g_f_n] = largest; }
  g_f_n++;
}
void ldb_edit_export(ldb_buffer_t *dst, const ldb_edit_t *edit) {
  __CPROVER_assert(edit == g_ep && g_inited && !g_cleared, "write_snapshot: the edit is exported while it is alive");
  g_exported++; g_record = dst; g_x_cp_n = g_cp_n; g_x_f_n = g_f_n; g_x_name_n = g_name_n;
}
void ldb_edit_clear(ldb_edit_t *edit) {
  __CPROVER_assert(edit == g_ep && g_inited, "write_snapshot: clears its own edit"); g_cleared++;
}
int ldb_writer_add_record(ldb_writer_t *lw, const ldb_slice_t *slice) {
  __CPROVER_assert(lw == &g_logw, "write_snapshot: the record goes to the caller's log");
  __CPROVER_assert(g_exported == 1 && slice == g_record, "write_snapshot: the record appended is the exported edit");
  g_added++; g_rc = nondet_int();
  return g_rc;
}

#define CP_AT(k, l) ((k) < g_cp_n && g_cp_lvl[k] == (l) && g_cp_key[k] == &g_vset.compact_pointer[l])
#define HAS_CP(l) (CP_AT(0, l) || CP_AT(1, l) || CP_AT(2, l) || CP_AT(3, l) || CP_AT(4, l) || CP_AT(5, l) || CP_AT(6, l))
#define CP_LVL_AT(k, l) ((k) < g_cp_n && g_cp_lvl[k] == (l))
#define ANY_CP(l) (CP_LVL_AT(0, l) || CP_LVL_AT(1, l) || CP_LVL_AT(2, l) || CP_LVL_AT(3, l) || CP_LVL_AT(4, l) || CP_LVL_AT(5, l) || CP_LVL_AT(6, l))
#define CP_OK(l) (g_vset.compact_pointer[l].size > 0 ? HAS_CP(l) : !ANY_CP(l))
#define CP_CNT ((g_vset.compact_pointer[0].size > 0) + (g_vset.compact_pointer[1].size > 0) + (g_vset.compact_pointer[2].size > 0) + (g_vset.compact_pointer[3].size > 0) + \
                (g_vset.compact_pointer[4].size > 0) + (g_vset.compact_pointer[5].size > 0) + (g_vset.compact_pointer[6].size > 0))
#define F_AT(k, l, i) ((k) < g_f_n && g_f_lvl[k] == (l) && g_f_num[k] == g_num[l][i] && g_f_sz[k] == g_fsz[l][i] && g_f_s[k] == &g_fmp[l][i]->smallest && g_f_l[k] == &g_fmp[l][i]->largest)
#define HAS_F(l, i) ((i) >= g_n[l] || F_AT(0, l, i) || F_AT(1, l, i) || F_AT(2, l, i) || F_AT(3, l, i) || F_AT(4, l, i) || F_AT(5, l, i))

int c_write_snapshot(ldb_versions_t *vset, ldb_writer_t *log)
__CPROVER_requires(vset == &g_vset && log == &g_logw && g_vset.current == &g_ver)
__CPROVER_requires(!g_inited && !g_cleared && !g_exported && !g_added && g_name_n == 0 && g_cp_n == 0 && g_f_n == 0)
__CPROVER_requires(g_n[0] <= 2 && g_n[1] <= 2 && g_n[6] <= 2 && g_n[2] == 0 && g_n[3] == 0 && g_n[4] == 0 && g_n[5] == 0)
__CPROVER_assigns(g_ep, g_inited, g_cleared, g_exported, g_added, g_rc, g_name, g_name_n, g_cp_n, g_f_n, g_x_cp_n, g_x_f_n, g_x_name_n, g_record,
                  __CPROVER_object_whole(g_cp_lvl), __CPROVER_object_whole(g_cp_key), __CPROVER_object_whole(g_f_lvl), __CPROVER_object_whole(g_f_num),
                  __CPROVER_object_whole(g_f_sz), __CPROVER_object_whole(g_f_s), __CPROVER_object_whole(g_f_l))
/* exactly one record is appended and its status is the result */
__CPROVER_ensures(g_added == 1 && g_exported == 1 && __CPROVER_return_value == g_rc)
/* the edit was complete when it was exported, and is released exactly once */
__CPROVER_ensures(g_x_cp_n == g_cp_n && g_x_f_n == g_f_n && g_x_name_n == g_name_n && g_cleared == 1)
/* comparator name */
__CPROVER_ensures(g_name_n == 1 && g_name == bytewise_comparator.name)
/* every non-empty compact pointer with its level, and no other */
__CPROVER_ensures(CP_OK(0) && CP_OK(1) && CP_OK(2) && CP_OK(3) && CP_OK(4) && CP_OK(5) && CP_OK(6) && g_cp_n == (size_t)CP_CNT)
/* every file of the current version at its level with number, size, smallest, largest - and nothing else */
__CPROVER_ensures(HAS_F(0, 0) && HAS_F(0, 1) && HAS_F(1, 0) && HAS_F(1, 1) && HAS_F(6, 0) && HAS_F(6, 1) && g_f_n == g_n[0] + g_n[1] + g_n[6])
;
void h_write_snapshot(void) {
  IN_SIZE(in_n0); IN_SIZE(in_n1); IN_SIZE(in_n6);
  int l;
  ASSUME(in_n0 <= 2 && in_n1 <= 2 && in_n6 <= 2);
  mk_version(); mk_level(0, in_n0); mk_level(1, in_n1); mk_level(6, in_n6);
  g_vset.current = &g_ver;
  for (l = 0; l < LDB_NUM_LEVELS; l++) {
    g_vset.compact_pointer[l].data = g_cpk[l]; g_vset.compact_pointer[l].size = nondet_int() ? 9 : 0; g_vset.compact_pointer[l].alloc = 9;
  }
  g_inited = 0; g_cleared = 0; g_exported = 0; g_added = 0; g_rc = 0; g_name_n = 0; g_cp_n = 0; g_f_n = 0; g_name = NULL; g_record = NULL; g_ep = NULL;
  g_x_cp_n = 0; g_x_f_n = 0; g_x_name_n = 0;
  ldb_versions_write_snapshot(&g_vset, &g_logw);
  CANARY();
}
