/* units/fltgen.c - filter block builder (src/table/filter_block.c): ldb_filtergen_generate / start_block / add_key / finish
 * Properties: C16 ("filters never reject a present key": every key added lands in the filter of its 2 KiB region), C01 (K9).
 *
 * The real filter_block.c is included unmodified.  The policy's build function, the array and the buffers are ghost
 * models; ONE arbitrary pending key (index g_i) is tracked through generate (ghost-index method, unbounded key count).
 */
#include "verif.h"
int nondet_int(void);
size_t nondet_size(void);
uint64_t nondet_u64(void);

#include "table/filter_block.c"

/* ---- ghost ---- */
ldb_filtergen_t *g_fb;
size_t g_i;                         /* tracked key index                                   */
unsigned g_build_calls; size_t g_build_n; const ldb_slice_t *g_build_keys; const uint8_t *g_build_kd; size_t g_build_kn;
ldb_buffer_t *g_build_dst; size_t g_build_grow;
unsigned g_off_pushes; uint64_t g_off_last;       /* pushes to filter_offsets / last value pushed */
unsigned g_start_pushes; uint64_t g_start_last;
unsigned g_keys_resets, g_start_resets;

static void stub_build(const ldb_bloom_t *bloom, ldb_buffer_t *dst, const ldb_slice_t *keys, size_t length) {
  __CPROVER_assert(bloom == g_fb->policy && dst == &g_fb->result, "the policy builds into the block's result buffer");
  __CPROVER_assert(length >= 1 && __CPROVER_r_ok(keys, length * sizeof(ldb_slice_t)), "build gets a readable array of `length` key slices");
  g_build_calls++; g_build_n = length; g_build_keys = keys; g_build_dst = dst;
  if (g_i < length) { g_build_kd = keys[g_i].data; g_build_kn = keys[g_i].size; }
  g_build_grow = nondet_size(); __CPROVER_assume(g_build_grow < (1u << 20));
  dst->size += g_build_grow;     /* a filter of some length is appended */
}
static ldb_bloom_t g_policy;

void ldb_array_push(ldb_array_t *z, uint64_t x) {
  __CPROVER_assert(z->length < z->alloc, "array model: preallocated");
  if (z == &g_fb->filter_offsets) { g_off_pushes++; g_off_last = x; }
  else { __CPROVER_assert(z == &g_fb->start, "only start / filter_offsets are pushed to"); g_start_pushes++; g_start_last = x; }
  z->items[z->length++] = x;
}
void ldb_array_reset(ldb_array_t *z) { __CPROVER_assert(z == &g_fb->start, "only the start array is reset"); z->length = 0; g_start_resets++; }
void ldb_buffer_reset(ldb_buffer_t *z) { __CPROVER_assert(z == &g_fb->keys, "only the flattened key buffer is reset"); z->size = 0; g_keys_resets++; }
void *ldb_realloc(void *ptr, size_t size) { void *p = malloc(size); __CPROVER_assume(p != NULL); return p; }

/* ------------------------------------------------------------ flt.generate */
#define EXP_KEY_OFF (g_fb->start.items[g_i])

void c_filtergen_generate(ldb_filtergen_t *fb)
__CPROVER_requires(fb == g_fb && __CPROVER_rw_ok(fb, sizeof(*fb)))
__CPROVER_requires(fb->start.length < fb->start.alloc && fb->start.alloc < ((size_t)1 << 40) && __CPROVER_rw_ok(fb->start.items, fb->start.alloc * sizeof(uint64_t)))
__CPROVER_requires(fb->filter_offsets.length < fb->filter_offsets.alloc && fb->filter_offsets.alloc < ((size_t)1 << 40) && __CPROVER_rw_ok(fb->filter_offsets.items, fb->filter_offsets.alloc * sizeof(uint64_t)))
/* start[] holds ascending offsets into the flattened key buffer */
__CPROVER_requires(g_i >= fb->start.length || (fb->start.items[g_i] <= fb->keys.size && (g_i + 1 >= fb->start.length || (fb->start.items[g_i] <= fb->start.items[g_i + 1] && fb->start.items[g_i + 1] <= fb->keys.size))))
__CPROVER_requires(fb->keys.size < ((size_t)1 << 40) && fb->result.size < ((size_t)1 << 31) && fb->policy == &g_policy && g_i < fb->start.alloc)
__CPROVER_assigns(fb->tmp_keys, fb->num_keys, fb->keys.size, fb->start.length, fb->filter_offsets.length, fb->result.size,
                  __CPROVER_object_whole(fb->start.items), __CPROVER_object_whole(fb->filter_offsets.items),
                  g_build_calls, g_build_n, g_build_keys, g_build_kd, g_build_kn, g_build_dst, g_build_grow, g_off_pushes, g_off_last, g_start_pushes, g_start_last, g_keys_resets, g_start_resets)
/* exactly one filter offset is recorded per call: where this region's filter starts in the result */
__CPROVER_ensures(g_off_pushes == __CPROVER_old(g_off_pushes) + 1 && g_off_last == __CPROVER_old(fb->result.size) && fb->filter_offsets.length == __CPROVER_old(fb->filter_offsets.length) + 1)
/* pending keys (even a single EMPTY key) => one filter built from ALL of them, then the pending set is cleared */
__CPROVER_ensures(__CPROVER_old(fb->start.length) > 0 ==> (g_build_calls == __CPROVER_old(g_build_calls) + 1 && g_build_n == __CPROVER_old(fb->start.length) && fb->start.length == 0 && fb->keys.size == 0))
/* no pending key => no filter data (an empty filter for that region), nothing else changes */
__CPROVER_ensures(__CPROVER_old(fb->start.length) == 0 ==> (g_build_calls == __CPROVER_old(g_build_calls) && fb->result.size == __CPROVER_old(fb->result.size) && fb->keys.size == __CPROVER_old(fb->keys.size)))
/* the tracked pending key is handed to the policy as the slice [start[i], start[i+1]) of the key buffer (last one ends at keys.size) */
__CPROVER_ensures(g_i < __CPROVER_old(fb->start.length) ==> (g_build_kd == fb->keys.data + __CPROVER_old(fb->start.items[g_i])))
;

void h_generate(void) {
  ldb_filtergen_t *fb = malloc(sizeof(*fb));
  size_t na = nondet_size(), nf = nondet_size(), ks = nondet_size();
  __CPROVER_assume(fb != NULL && na >= 2 && na < ((size_t)1 << 40) && nf >= 1 && nf < ((size_t)1 << 40) && ks >= 1 && ks < ((size_t)1 << 41));
  g_fb = fb; g_policy.build = stub_build; fb->policy = &g_policy;
  fb->start.items = malloc(na * sizeof(uint64_t)); fb->start.alloc = na;
  fb->filter_offsets.items = malloc(nf * sizeof(uint64_t)); fb->filter_offsets.alloc = nf;
  fb->keys.data = malloc(ks); fb->keys.alloc = ks;
  __CPROVER_assume(fb->start.items != NULL && fb->filter_offsets.items != NULL && fb->keys.data != NULL && fb->keys.size <= ks);
  fb->tmp_keys = NULL; fb->num_keys = 0;
  g_i = nondet_size(); __CPROVER_assume(g_i < na);
  ldb_filtergen_generate(fb);
  CANARY();
}
