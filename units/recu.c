/* units/recu.c - UNBOUNDED, modular proofs of the two record-loop decoders
 *   (A) ldb_batch_iterate  (src/write_batch.c)     C04, C18, C11
 *   (B) ldb_edit_import    (src/version_edit.c)    C17, C18, C05   (-DRECU_EDIT)
 *
 * Every callee of the record loop is replaced by its contract (enforced in groups
 * cod / buf / edit), so one abstract loop iteration is a handful of contract
 * applications.  The loop itself is closed by a loop invariant (loops/recu.json):
 * the cursor stays a suffix of the original buffer, `found` counts iterations.
 *
 * WriteBatch wire format (LevelDB):
 *    rep    := LE64 sequence ‖ LE32 count ‖ record*
 *    record := 0x01 varstring varstring | 0x00 varstring
 *    varstring := varint32 len ‖ len bytes
 * The handler stubs are the specification: callback number i must be the i-th record
 * that the format finds at the ghost cursor g_pos (LPS_* macros of contracts/buf.h:
 * position of the first terminated LEB128 group, its value, "fits in what is left").
 */
#include "verif.h"
#include "contracts/coding.h"
#include "contracts/buf.h"

#include "util/buffer.h"
#include "util/coding.h"
#include "util/internal.h"
#include "util/slice.h"
#include "util/status.h"
#include "dbformat.h"

/* ------------------------------------------------------------------ ghost (all of them exist in every configuration:
 * loops/recu.json names them) */
const uint8_t *g_rep;    /* A: batch->rep.data                               */
size_t g_n;              /* A: batch->rep.size                               */
size_t g_pos;            /* A: spec cursor: offset of the next record        */
int g_calls;             /* A: records delivered so far                      */
void *g_h;               /* A: the handler object                            */
int g_rec0_bad;          /* B: the first record of the input is malformed (spec_edit_rec0_bad) */
#ifndef RECU_EDIT
/* B's ghosts (defined by units/edit.c in configuration B), named by loops/recu.json */
void *g_edit; const uint8_t *g_src; size_t g_srcn; int g_exact_set;
struct { size_t ncp, ndel, nnew; } g_rec;
#endif

#define SPEC_REQ(c, msg) __CPROVER_assert(c, msg); __CPROVER_assume(c)

/* ---- varstring header, every byte read ONCE (the LPS_* macros of contracts/buf.h re-read the bytes ~150 times per use,
 * which is what made the earlier unbounded attempts intractable: each read is a dereference with 7 pointer checks).
 * p: start, n: bytes available.  Result: low 3 bits = number of prefix bytes k (1..5; 0 = no terminated LEB128
 * group within the first min(n, 5) bytes), bits 3.. = the varint32 value (7 bits per group, little end first,
 * truncated to 32 bits). */
static uint64_t spec_vs(const uint8_t *p, size_t n) {
  uint32_t b0 = n > 0 ? p[0] : 128u, b1 = n > 1 ? p[1] : 128u, b2 = n > 2 ? p[2] : 128u, b3 = n > 3 ? p[3] : 128u, b4 = n > 4 ? p[4] : 128u;
  uint32_t v1 = b0 & 127u, v2 = v1 | ((b1 & 127u) << 7), v3 = v2 | ((b2 & 127u) << 14), v4 = v3 | ((b3 & 127u) << 21), v5 = v4 | ((b4 & 127u) << 28);
  return !(b0 & 128u) ? (((uint64_t)v1 << 3) | 1) : !(b1 & 128u) ? (((uint64_t)v2 << 3) | 2) : !(b2 & 128u) ? (((uint64_t)v3 << 3) | 3) :
         !(b3 & 128u) ? (((uint64_t)v4 << 3) | 4) : !(b4 & 128u) ? (((uint64_t)v5 << 3) | 5) : 0;
}
#define VSF_K(x) ((size_t)((x) & 7))
#define VSF_LEN(x) ((size_t)((x) >> 3))
/* a complete varstring: terminated length prefix and the payload fits in what is left */
#define VSF_OK(x, n) (VSF_K(x) != 0 && VSF_LEN(x) <= (n) - VSF_K(x))

/* Cursor carriers.  Both decoders keep their cursor (data, size) a SUFFIX of the input buffer (g_rep, g_n).  After the
 * havoc of a loop contract the cursor pointer has no points-to set and every byte read through it is expanded by symex into a
 * case split over every object of the program (measured: 15 MB of SSA, > 2.4 GB in the SAT conversion).  The carriers
 * therefore (1) require the suffix shape, (2) read the bytes through the ghost base pointer at the integer offset
 * g_n - size, and (3) re-bind the advanced cursor / the payload pointer to the ghost buffer (pointer_in_range_dfcc). */
#define CUR_OK(d, n) ((n) <= g_n && __CPROVER_same_object(d, g_rep) && (d) == g_rep + (g_n - (n)))
#define CUR_PRE(d, n) (__CPROVER_r_ok(g_rep, g_n) && CUR_OK(d, n))
#define OLD_OFF(n) (g_n - __CPROVER_old(n))
#define OLD_VSN(n) spec_vs(g_rep + OLD_OFF(n), __CPROVER_old(n))
#define OLD_VS(x) OLD_VSN((x)->size)

/* ldb_slice_slurp: statement of contracts/buf.h c_slice_slurp (prefix located by spec_vs) for a suffix cursor.
 * Enforced on the real function in recu.slurp. */
int c_recu_slurp(ldb_slice_t *z, ldb_slice_t *x)
__CPROVER_requires(__CPROVER_rw_ok(z, sizeof(*z)) && __CPROVER_rw_ok(x, sizeof(*x)) && !__CPROVER_same_object(z, x))
__CPROVER_requires(CUR_PRE(x->data, x->size))
__CPROVER_assigns(*z, x->data, x->size)
__CPROVER_ensures(__CPROVER_pointer_in_range_dfcc(g_rep, x->data, g_rep + g_n))
__CPROVER_ensures(__CPROVER_return_value != 1 || __CPROVER_pointer_in_range_dfcc(g_rep, z->data, g_rep + g_n))
/* 1 iff a complete varstring starts at the cursor */
__CPROVER_ensures(__CPROVER_return_value == (VSF_OK(OLD_VS(x), __CPROVER_old(x->size)) ? 1 : 0))
/* success: z = the payload (view into the input), cursor just behind it */
__CPROVER_ensures(__CPROVER_return_value != 1 || (z->data == g_rep + OLD_OFF(x->size) + VSF_K(OLD_VS(x)) && z->size == VSF_LEN(OLD_VS(x)) && z->alloc == 0))
__CPROVER_ensures(__CPROVER_return_value != 1 || x->size == __CPROVER_old(x->size) - VSF_K(OLD_VS(x)) - VSF_LEN(OLD_VS(x)))
/* always: the cursor is still a suffix of the input; failure: z untouched */
__CPROVER_ensures(x->size <= __CPROVER_old(x->size) && x->data == g_rep + (g_n - x->size))
__CPROVER_ensures(__CPROVER_return_value != 0 || (z->data == __CPROVER_old(z->data) && z->size == __CPROVER_old(z->size) && z->alloc == __CPROVER_old(z->alloc)))
__CPROVER_ensures(x->alloc == __CPROVER_old(x->alloc))
;

#ifdef RECU_SLURP
#include "util/slice.c"
/* the carrier against the real ldb_slice_slurp, and against the byte-by-byte format macros of contracts/buf.h */
void h_recu_slurp(void) {
  IN_SIZE(in_n); IN_BUF(buf, in_n); SNAP_BUF(buf, in_n);
  IN_SIZE(in_off); IN_SIZE(in_zs); IN_SIZE(in_za); IN_SIZE(in_xa);
  ldb_slice_t z, x; int r; uint64_t vs; const uint8_t *p0; size_t n0;
  ASSUME(in_off <= in_n);
  g_rep = buf; g_n = in_n;
  p0 = buf + in_off; n0 = in_n - in_off;
  z.data = NULL; z.size = in_zs; z.alloc = in_za;
  x.data = (uint8_t *)p0; x.size = n0; x.alloc = in_xa;
  /* the spec function against the byte-by-byte LEB128 macros of contracts/buf.h (same bytes, start of the buffer) */
  vs = spec_vs(buf, in_n);
  CHECK(VSF_K(vs) == LPS_K(buf, in_n) && (VSF_K(vs) == 0 || VSF_LEN(vs) == LPS_LEN(buf, in_n)), "spec_vs: same prefix length and value as the LEB128 format macros of contracts/buf.h");
  r = ldb_slice_slurp(&z, &x);
  CHECK(r == 0 || (z.data >= p0 + 1 && z.data <= p0 + 5 && z.size <= n0 - (size_t)(z.data - p0) && x.data == z.data + z.size), "slice_slurp: payload follows a 1..5 byte prefix, cursor just behind the payload, inside the input");
  CANARY();
}
#endif

#ifndef RECU_EDIT
/* ====================================================================== A */
#include "memtable.h"
#include "write_batch.h"

/* varstring at q (m bytes left): prefix length, payload length, total */
/* the record at offset p (12 <= p < n) of rep is malformed: unknown tag, or a varstring is cut short
 * (direct spec_vs calls only: a spec function called from an ensures clause must not call further functions under dfcc) */
#define REC_M_(p, n) ((n) - (p) - 1)
#define REC_V1_(rep, p, n) spec_vs((rep) + (p) + 1, REC_M_(p, n))
#define REC_E1_(rep, p, n) (VSF_K(REC_V1_(rep, p, n)) + VSF_LEN(REC_V1_(rep, p, n)))
#define REC_BAD(rep, p, n) \
  ((rep)[p] > 1 || !VSF_OK(REC_V1_(rep, p, n), REC_M_(p, n)) || \
   ((rep)[p] == 1 && !VSF_OK(spec_vs((rep) + (p) + 1 + REC_E1_(rep, p, n), REC_M_(p, n) - REC_E1_(rep, p, n)), REC_M_(p, n) - REC_E1_(rep, p, n))))

static void stub_put(ldb_handler_t *h, const ldb_slice_t *key, const ldb_slice_t *value) {
  size_t p = g_pos, m, m2;
  const uint8_t *q, *q2;
  uint64_t v1, v2;
  __CPROVER_assert(h == g_h, "batch_iterate: callbacks receive the caller's handler");
  __CPROVER_assert(__CPROVER_r_ok(key, sizeof(*key)) && __CPROVER_r_ok(value, sizeof(*value)), "batch_iterate: put gets readable key and value slices");
  SPEC_REQ(p >= 12 && p < g_n, "batch: a record is delivered only while unread bytes remain after the 12-byte header");
  SPEC_REQ(g_rep[p] == 1, "batch format: tag byte 1 (kTypeValue) = put");
  q = g_rep + p + 1; m = g_n - p - 1;
  v1 = spec_vs(q, m);
  SPEC_REQ(VSF_OK(v1, m), "batch format: the key of a delivered put is a complete varstring inside rep");
  SPEC_REQ(key->data == q + VSF_K(v1) && key->size == VSF_LEN(v1), "batch format: key = the length-prefixed string after the tag (pointer into rep)");
  q2 = q + VSF_K(v1) + VSF_LEN(v1); m2 = m - VSF_K(v1) - VSF_LEN(v1);
  v2 = spec_vs(q2, m2);
  SPEC_REQ(VSF_OK(v2, m2), "batch format: the value of a delivered put is a complete varstring inside rep");
  SPEC_REQ(value->data == q2 + VSF_K(v2) && value->size == VSF_LEN(v2), "batch format: value = the length-prefixed string after the key (pointer into rep)");
  g_pos = p + 1 + VSF_K(v1) + VSF_LEN(v1) + VSF_K(v2) + VSF_LEN(v2);
  g_calls++;
}
static void stub_del(ldb_handler_t *h, const ldb_slice_t *key) {
  size_t p = g_pos, m;
  const uint8_t *q;
  uint64_t v1;
  __CPROVER_assert(h == g_h, "batch_iterate: callbacks receive the caller's handler");
  __CPROVER_assert(__CPROVER_r_ok(key, sizeof(*key)), "batch_iterate: del gets a readable key slice");
  SPEC_REQ(p >= 12 && p < g_n, "batch: a record is delivered only while unread bytes remain after the 12-byte header");
  SPEC_REQ(g_rep[p] == 0, "batch format: tag byte 0 (kTypeDeletion) = delete");
  q = g_rep + p + 1; m = g_n - p - 1;
  v1 = spec_vs(q, m);
  SPEC_REQ(VSF_OK(v1, m), "batch format: the key of a delivered delete is a complete varstring inside rep");
  SPEC_REQ(key->data == q + VSF_K(v1) && key->size == VSF_LEN(v1), "batch format: key = the length-prefixed string after the tag (pointer into rep)");
  g_pos = p + 1 + VSF_K(v1) + VSF_LEN(v1);
  g_calls++;
}

/* not reached from ldb_batch_iterate (ldb_batch_insert_into is not part of this unit) */
struct ldb_memtable_s { int dummy; };
void ldb_memtable_add(ldb_memtable_t *mt, ldb_seqnum_t sequence, ldb_valtype_t type,
                      const ldb_slice_t *key, const ldb_slice_t *value) {
  __CPROVER_assert(0, "recu: ldb_memtable_add is not reachable from ldb_batch_iterate");
}

#include "write_batch.c"

#define BATCH_OK(b) (__CPROVER_r_ok(b, sizeof(*(b))) && ((b)->rep.size == 0 || __CPROVER_r_ok((b)->rep.data, (b)->rep.size)))
#define HDR_COUNT(rep) ((int)LE32_AT((rep) + 8))
/* found++ is an int: 2 bytes is the shortest record, so this many bytes cannot overflow it */
#define BATCH_MAX_BYTES (12 + 2 * (size_t)2147483647)

int c_recu_batch_iterate(const ldb_batch_t *batch, ldb_handler_t *handler)
__CPROVER_requires(BATCH_OK(batch) && __CPROVER_r_ok(handler, sizeof(*handler)))
__CPROVER_requires(batch->rep.size <= BATCH_MAX_BYTES)
__CPROVER_requires(handler->put == stub_put && handler->del == stub_del)
__CPROVER_requires(g_h == handler && g_rep == batch->rep.data && g_n == batch->rep.size && g_pos == 12 && g_calls == 0)
__CPROVER_assigns(g_pos, g_calls)
/* every outcome */
__CPROVER_ensures(__CPROVER_return_value == LDB_OK || __CPROVER_return_value == LDB_CORRUPTION)
__CPROVER_ensures(!(g_n < 12) || (__CPROVER_return_value == LDB_CORRUPTION && g_calls == 0))
/* OK: the spec cursor consumed rep exactly and exactly header-count records were delivered */
__CPROVER_ensures(!(__CPROVER_return_value == LDB_OK) || (g_n >= 12 && g_pos == g_n && g_calls == HDR_COUNT(g_rep)))
/* CORRUPTION (with a header): stopped exactly at the first malformed record, or everything decoded and the count is wrong */
__CPROVER_ensures(!(__CPROVER_return_value == LDB_CORRUPTION && g_n >= 12) ||
                  (g_pos >= 12 && g_pos <= g_n && (g_pos == g_n ? g_calls != HDR_COUNT(g_rep) : REC_BAD(g_rep, g_pos, g_n))))
;

void h_recu_iterate(void) {
  ldb_batch_t b; static ldb_handler_t h; int r;
  IN_SIZE(in_n); IN_U64(in_number);
  IN_BUF(buf, in_n); SNAP_BUF(buf, in_n);
  ASSUME(in_n <= BATCH_MAX_BYTES);
  b.rep.data = buf; b.rep.size = in_n; b.rep.alloc = in_n;
  h.state = NULL; h.number = in_number; h.put = stub_put; h.del = stub_del;
  g_h = &h; g_rep = buf; g_n = in_n; g_pos = 12; g_calls = 0;
  r = ldb_batch_iterate(&b, &h);
  CHECK(h.number == in_number && h.state == NULL, "batch_iterate: the handler object itself is not written");
  CANARY();
}
#endif /* !RECU_EDIT */

#ifdef RECU_EDIT
/* ====================================================================== B
 * ldb_edit_import (src/version_edit.c).  The environment (recording stubs of the buffer / vector / rb-set operations,
 * the ghosts g_edit, g_src, g_srcn, g_rec, the carriers of the three list mutators enforced in edit.setcp / edit.rmfile /
 * edit.addfile, EDIT_* spec macros) is the one of group `edit`, included as is. */
#include "units/edit.c"

/* number of bytes of the first terminated LEB128 group sequence within the first min(n, 10) bytes (0 = none); each byte read once */
static size_t spec_v64k(const uint8_t *p, size_t n) {
  uint8_t b0 = n > 0 ? p[0] : 128, b1 = n > 1 ? p[1] : 128, b2 = n > 2 ? p[2] : 128, b3 = n > 3 ? p[3] : 128, b4 = n > 4 ? p[4] : 128,
          b5 = n > 5 ? p[5] : 128, b6 = n > 6 ? p[6] : 128, b7 = n > 7 ? p[7] : 128, b8 = n > 8 ? p[8] : 128, b9 = n > 9 ? p[9] : 128;
  return !(b0 & 128) ? 1 : !(b1 & 128) ? 2 : !(b2 & 128) ? 3 : !(b3 & 128) ? 4 : !(b4 & 128) ? 5 :
         !(b5 & 128) ? 6 : !(b6 & 128) ? 7 : !(b7 & 128) ? 8 : !(b8 & 128) ? 9 : !(b9 & 128) ? 10 : 0;
}

/* ldb_varint32_read on a suffix cursor: 1 iff a terminated varint32 starts at the cursor; value and cursor from the format (spec_vs) */
int c_recu_v32(uint32_t *z, const uint8_t **xp, size_t *xn)
__CPROVER_requires(__CPROVER_w_ok(z, sizeof(*z)) && __CPROVER_rw_ok(xp, sizeof(*xp)) && __CPROVER_rw_ok(xn, sizeof(*xn)))
__CPROVER_requires(CUR_PRE(*xp, *xn))
__CPROVER_assigns(*z, *xp, *xn)
__CPROVER_ensures(__CPROVER_pointer_in_range_dfcc(g_rep, *xp, g_rep + g_n))
__CPROVER_ensures(__CPROVER_return_value == (VSF_K(OLD_VSN(*xn)) != 0 ? 1 : 0))
__CPROVER_ensures(__CPROVER_return_value != 1 || (*xn == __CPROVER_old(*xn) - VSF_K(OLD_VSN(*xn)) && *z == (uint32_t)VSF_LEN(OLD_VSN(*xn))))
__CPROVER_ensures(*xn <= __CPROVER_old(*xn) && *xp == g_rep + (g_n - *xn))
;
/* ldb_varint64_read on a suffix cursor: 1 iff a terminated varint64 starts at the cursor; cursor from the format; the VALUE
 * is left arbitrary (the full value contract is contracts/coding.h c_varint64_read, enforced in group cod) */
#define OLD_V64K(n) spec_v64k(g_rep + OLD_OFF(n), __CPROVER_old(n))
int c_recu_v64(uint64_t *z, const uint8_t **xp, size_t *xn)
__CPROVER_requires(__CPROVER_w_ok(z, sizeof(*z)) && __CPROVER_rw_ok(xp, sizeof(*xp)) && __CPROVER_rw_ok(xn, sizeof(*xn)))
__CPROVER_requires(CUR_PRE(*xp, *xn))
__CPROVER_assigns(*z, *xp, *xn)
__CPROVER_ensures(__CPROVER_pointer_in_range_dfcc(g_rep, *xp, g_rep + g_n))
__CPROVER_ensures(__CPROVER_return_value == (OLD_V64K(*xn) != 0 ? 1 : 0))
__CPROVER_ensures(__CPROVER_return_value != 1 || *xn == __CPROVER_old(*xn) - OLD_V64K(*xn))
__CPROVER_ensures(__CPROVER_return_value != 0 || *z == 0)
__CPROVER_ensures(*xn <= __CPROVER_old(*xn) && *xp == g_rep + (g_n - *xn))
;
/* ldb_level_slurp on a suffix cursor: varint32 level, accepted iff < 7 (config::kNumLevels) */
int c_recu_level(int *level, ldb_slice_t *input)
__CPROVER_requires(__CPROVER_rw_ok(level, sizeof(*level)) && __CPROVER_rw_ok(input, sizeof(*input)) && CUR_PRE(input->data, input->size))
__CPROVER_assigns(*level, input->data, input->size)
__CPROVER_ensures(__CPROVER_pointer_in_range_dfcc(g_rep, input->data, g_rep + g_n))
__CPROVER_ensures(__CPROVER_return_value == ((VSF_K(OLD_VS(input)) != 0 && VSF_LEN(OLD_VS(input)) < REF_NUM_LEVELS) ? 1 : 0))
__CPROVER_ensures(__CPROVER_return_value != 1 || (*level == (int)VSF_LEN(OLD_VS(input)) && *level >= 0 && *level < REF_NUM_LEVELS &&
                  input->size == __CPROVER_old(input->size) - VSF_K(OLD_VS(input))))
__CPROVER_ensures(__CPROVER_return_value != 0 || *level == __CPROVER_old(*level))
__CPROVER_ensures(input->size <= __CPROVER_old(input->size) && input->data == g_rep + (g_n - input->size))
__CPROVER_ensures(input->alloc == __CPROVER_old(input->alloc))
;

void h_recu_v32(void) {
  IN_SIZE(in_n); IN_BUF(buf, in_n); SNAP_BUF(buf, in_n);
  IN_SIZE(in_off); uint32_t z = 7; const uint8_t *p; size_t n; int r;
  ASSUME(in_off <= in_n); g_rep = buf; g_n = in_n; p = buf + in_off; n = in_n - in_off;
  r = ldb_varint32_read(&z, &p, &n);
  CHECK(r == 0 || (n < in_n - in_off && in_n - in_off - n <= 5), "varint32_read: consumes 1..5 bytes on success");
  CANARY();
}
void h_recu_v64(void) {
  IN_SIZE(in_n); IN_BUF(buf, in_n); SNAP_BUF(buf, in_n);
  IN_SIZE(in_off); uint64_t z = 7; const uint8_t *p; size_t n; int r;
  ASSUME(in_off <= in_n); g_rep = buf; g_n = in_n; p = buf + in_off; n = in_n - in_off;
  r = ldb_varint64_read(&z, &p, &n);
  CHECK(r == 0 || (n < in_n - in_off && in_n - in_off - n <= 10), "varint64_read: consumes 1..10 bytes on success");
  CHECK(spec_v64k(buf, in_n) == V64_K(buf, in_n), "spec_v64k: same prefix length as the format macro of contracts/edit.h");
  CANARY();
}
void h_recu_level(void) {
  IN_SIZE(in_n); IN_BUF(buf, in_n); SNAP_BUF(buf, in_n); IN_INT(in_level); IN_SIZE(in_xa);
  IN_SIZE(in_off); int level = in_level; ldb_slice_t x; int r;
  ASSUME(in_off <= in_n); g_rep = buf; g_n = in_n;
  x.data = buf + in_off; x.size = in_n - in_off; x.alloc = in_xa;
  r = ldb_level_slurp(&level, &x);
  CHECK(r == 0 || (level >= 0 && level < 7), "level_slurp: an accepted level is < 7");
  CANARY();
}

/* sufficient conditions for "the FIRST record of the input is malformed": no terminated tag, unknown tag (8 included),
 * comparator name cut short, level of a tag 5/6/7 record missing or >= 7, compact-pointer key cut short or < 8 bytes */
static int spec_edit_rec0_bad(const uint8_t *p, size_t n) {
  uint64_t t = spec_vs(p, n), l, k;
  size_t o = VSF_K(t), tag = VSF_LEN(t);
  if (o == 0) return 1;
  if (!(tag >= 1 && tag <= 7) && tag != 9) return 1;
  if (tag == 1) { k = spec_vs(p + o, n - o); return !VSF_OK(k, n - o); }
  if (tag >= 5 && tag <= 7) {
    l = spec_vs(p + o, n - o);
    if (VSF_K(l) == 0 || VSF_LEN(l) >= REF_NUM_LEVELS) return 1;
    o += VSF_K(l);
    if (tag == 5) { k = spec_vs(p + o, n - o); return !VSF_OK(k, n - o) || VSF_LEN(k) < 8; }
  }
  return 0;
}

int c_recu_edit_import(ldb_edit_t *edit, const ldb_slice_t *src)
__CPROVER_requires(__CPROVER_rw_ok(edit, sizeof(*edit)) && __CPROVER_r_ok(src, sizeof(*src)) && __CPROVER_r_ok(src->data, src->size) && src->size <= VERIF_OBJ_MAX)
/* the edit is freshly initialised (ldb_edit_init); releasing a used edit is ldb_edit_reset's business */
__CPROVER_requires(EDIT_EMPTY(edit))
__CPROVER_requires(g_edit == edit && g_src == src->data && g_srcn == src->size && g_ncp == 0 && g_ndel == 0 && g_nnew == 0 && g_exact_set == 0)
__CPROVER_requires((g_rec0_bad == 0 || g_rec0_bad == 1) && g_rep == g_src && g_n == g_srcn)
__CPROVER_assigns(*edit, g_rec)
__CPROVER_ensures(__CPROVER_return_value == 0 || __CPROVER_return_value == 1)
__CPROVER_ensures(EDIT_FLAGS01(edit) && EDIT_UNSET_ZERO(edit) && EDIT_COUNTS(edit) && EDIT_NAME_INSIDE(edit))
/* nothing decoded from an empty record */
__CPROVER_ensures(src->size != 0 || (__CPROVER_return_value == 1 && EDIT_EMPTY(edit)))
/* a malformed first record is rejected (g_rec0_bad is set by the harness from spec_edit_rec0_bad) */
__CPROVER_ensures(!(src->size != 0 && g_rec0_bad) || __CPROVER_return_value == 0)
/* accepted non-empty input: at least one field or list entry was decoded */
__CPROVER_ensures(!(src->size != 0 && __CPROVER_return_value == 1) || edit->has_comparator || edit->has_log_number || edit->has_prev_log_number ||
                  edit->has_next_file_number || edit->has_last_sequence || g_ncp + g_ndel + g_nnew > 0)
;

void h_recu_import(void) {
  IN_SIZE(in_n); IN_BUF(buf, in_n); SNAP_BUF(buf, in_n);
  static ldb_edit_t edit; ldb_slice_t src; int r;
  src.data = buf; src.size = in_n; src.alloc = 0;
  g_edit = &edit; g_src = buf; g_srcn = in_n; g_ncp = 0; g_ndel = 0; g_nnew = 0; g_exact_set = 0;
  ASSUME(in_n <= VERIF_OBJ_MAX); /* no object exceeds the x86-64 user address space */
  g_rep = buf; g_n = in_n;
  g_rec0_bad = (in_n != 0 && spec_edit_rec0_bad(buf, in_n)) ? 1 : 0;
  ldb_edit_init(&edit);
  r = ldb_edit_import(&edit, &src);
  CHECK(r == 0 || r == 1, "edit_import: returns 0 or 1 on arbitrary bytes");
  CHECK(src.data == buf && src.size == in_n, "edit_import: the source slice is not modified");
  CANARY();
}
#endif /* RECU_EDIT */
