/* units/bld.c - ldb_build_table (src/builder.c)
 *   bld.build : C02 (O3: table finished -> synced -> closed before anybody names it), C12 (E4: failed or
 *               empty outputs are removed and reported), C14 (smallest/largest/file_size are what was
 *               written), C13 (no orphan table file after a failure).
 *
 * The real builder.c is included unmodified.  The table builder (ldb_tablegen_*), the writable file,
 * the table cache's verification iterator, the file-name formatter and the INPUT ITERATOR are ghost
 * models (contracts/bld.h): the input is a cursor over an arbitrary sequence of ARBITRARY LENGTH (the
 * copy loop is closed by a loop contract), every I/O step can fail, the input iterator can report any
 * status.
 */
#include "verif.h"
int nondet_int(void);
uint64_t nondet_u64(void);
size_t nondet_size(void);

#include "builder.c"
#include "contracts/bld.h"

static unsigned long bt_tick(void) { __CPROVER_assume(g_bt_clock < (1ul << 40)); return ++g_bt_clock; }

/* ------------------------------------------------------- input iterator */
static void in_clear(void *p) { (void)p; }
static int in_valid(const void *p) { __CPROVER_assert(p == (const void *)&g_bt_cursor, "input iterator op on the input cursor"); return g_bt_cursor.pos < g_bt_n; }
static void in_first(void *p) { __CPROVER_assert(p == (const void *)&g_bt_cursor, "input iterator op on the input cursor"); g_bt_cursor.pos = 0; g_bt_firsts++; }
static void in_last(void *p) { __CPROVER_assert(0, "build_table never moves the input backwards"); }
static void in_seek(void *p, const ldb_slice_t *t) { __CPROVER_assert(0, "build_table never seeks the input"); }
static void in_next(void *p) {
  __CPROVER_assert(p == (const void *)&g_bt_cursor && g_bt_cursor.pos < g_bt_n, "input next: REQUIRES valid()");
  g_bt_cursor.pos++;
}
static void in_prev(void *p) { __CPROVER_assert(0, "build_table never moves the input backwards"); }
static ldb_slice_t in_key(const void *p) {
  ldb_slice_t k;
  __CPROVER_assert(p == (const void *)&g_bt_cursor && g_bt_cursor.pos < g_bt_n, "input key: REQUIRES valid()");
  k.data = g_bt_keybase + g_bt_cursor.pos; k.size = nondet_size(); k.alloc = 0;
  return k;
}
static ldb_slice_t in_value(const void *p) {
  ldb_slice_t v;
  __CPROVER_assert(p == (const void *)&g_bt_cursor && g_bt_cursor.pos < g_bt_n, "input value: REQUIRES valid()");
  v.data = g_bt_valbase + g_bt_cursor.pos; v.size = nondet_size(); v.alloc = 0;
  return v;
}
static int in_status(const void *p) { __CPROVER_assert(p == (const void *)&g_bt_cursor, "input iterator op on the input cursor"); return g_bt_in_status; }
static const ldb_itertbl_t in_table = { in_clear, in_valid, in_first, in_last, in_seek, in_next, in_prev, in_key, in_value, in_status };

/* ------------------------------------- verification iterator (table cache) */
static int vf_marker;
static void vf_clear(void *p) { (void)p; }
static int vf_valid(const void *p) { return 0; }
static void vf_nop(void *p) { (void)p; }
static void vf_seek(void *p, const ldb_slice_t *t) { (void)p; }
static ldb_slice_t vf_slice(const void *p) { ldb_slice_t s = {NULL, 0, 0}; return s; }
static int vf_status(const void *p) { __CPROVER_assert(p == (const void *)&vf_marker, "status asked of the verification iterator"); return g_bt_verify_rc; }
static const ldb_itertbl_t vf_table = { vf_clear, vf_valid, vf_nop, vf_nop, vf_seek, vf_nop, vf_nop, vf_slice, vf_slice, vf_status };

/* ------------------------------------------------------------ env models */
struct ldb_wfile_s { int dummy; };
struct ldb_tablegen_s { int dummy; };
static ldb_wfile_t g_bt_file;
static ldb_tablegen_t g_bt_builder;
static const ldb_readopt_t g_bt_readopt;
const ldb_readopt_t *ldb_readopt_default = &g_bt_readopt;

int ldb_table_filename(char *buf, size_t size, const char *dbname, uint64_t num) {
  __CPROVER_assert(dbname == g_bt_dbname && __CPROVER_w_ok(buf, size) && size >= 1, "table file name is formed from the database name into a valid buffer");
  g_bt_fname_calls++; g_bt_fname = buf; g_bt_fname_num = num;
  g_bt_fname_ok = nondet_int() ? 1 : 0;
  if (g_bt_fname_ok) buf[0] = 0;
  return g_bt_fname_ok;
}
int ldb_truncfile_create(const char *filename, ldb_wfile_t **file) {
  __CPROVER_assert(filename == g_bt_fname && g_bt_fname_ok, "the file created is the table file <number>.ldb");
  g_bt_create_calls++; g_bt_create_rc = nondet_int();
  if (g_bt_create_rc == LDB_OK) *file = &g_bt_file;
  return g_bt_create_rc;
}
ldb_tablegen_t *ldb_tablegen_create(const ldb_dbopt_t *options, ldb_wfile_t *file) {
  __CPROVER_assert(options == g_bt_options && file == &g_bt_file, "the builder writes the new table file with the database's options");
  g_bt_b_created++;
  return &g_bt_builder;
}
void ldb_ikey_copy(ldb_ikey_t *z, const ldb_ikey_t *x) {
  /* only the two bounds of the meta record are ever written; which key they come from is recorded */
  if (z == &g_bt_meta->smallest) { g_bt_small_copies++; g_bt_small_src = x->data; }
  else if (z == &g_bt_meta->largest) { g_bt_large_copies++; g_bt_large_src = x->data; }
  else __CPROVER_assert(0, "only the bounds of the caller's meta record are written");
}
void ldb_tablegen_add(ldb_tablegen_t *tb, const ldb_slice_t *key, const ldb_slice_t *value) {
  __CPROVER_assert(tb == &g_bt_builder && g_bt_b_finished == 0 && g_bt_b_abandoned == 0, "add: REQUIRES finish(), abandon() have not been called");
  __CPROVER_assert(key->data == g_bt_keybase + g_bt_adds && value->data == g_bt_valbase + g_bt_adds, "the i-th entry added is the i-th entry of the input, with its own value");
  g_bt_adds++;
}
int ldb_tablegen_finish(ldb_tablegen_t *tb) {
  __CPROVER_assert(tb == &g_bt_builder && g_bt_b_finished == 0 && g_bt_b_abandoned == 0, "finish: REQUIRES finish(), abandon() have not been called");
  g_bt_b_finished++; g_bt_finish_rc = nondet_int(); g_bt_t_finish = bt_tick();
  g_bt_size = nondet_u64(); __CPROVER_assume(g_bt_size > 0);   /* a finished table is at least its 48-byte footer (tbl.gen.finish) */
  return g_bt_finish_rc;
}
void ldb_tablegen_abandon(ldb_tablegen_t *tb) {
  __CPROVER_assert(tb == &g_bt_builder && g_bt_b_finished == 0 && g_bt_b_abandoned == 0, "abandon: REQUIRES finish(), abandon() have not been called");
  g_bt_b_abandoned++;
}
uint64_t ldb_tablegen_size(const ldb_tablegen_t *tb) {
  __CPROVER_assert(tb == &g_bt_builder && g_bt_b_finished == 1 && g_bt_finish_rc == LDB_OK && g_bt_b_destroyed == 0, "the final size is read from a live builder after a successful finish");
  g_bt_size_reads++;
  return g_bt_size;
}
void ldb_tablegen_destroy(ldb_tablegen_t *tb) {
  __CPROVER_assert(tb == &g_bt_builder && (g_bt_b_finished == 1 || g_bt_b_abandoned == 1) && g_bt_b_destroyed == 0, "destroy: REQUIRES either finish() or abandon() has been called; destroyed once");
  g_bt_b_destroyed++;
}
int ldb_wfile_sync(ldb_wfile_t *file) {
  __CPROVER_assert(file == &g_bt_file && g_bt_f_destroyed == 0, "sync of the live table file");
  __CPROVER_assert(g_bt_b_finished == 1 && g_bt_finish_rc == LDB_OK, "O3: the file is fsynced after the builder finished successfully (all blocks, index and footer written)");
  g_bt_sync_calls++; g_bt_sync_rc = nondet_int(); g_bt_t_sync = bt_tick();
  return g_bt_sync_rc;
}
int ldb_wfile_close(ldb_wfile_t *file) {
  __CPROVER_assert(file == &g_bt_file && g_bt_f_destroyed == 0, "close of the live table file");
  __CPROVER_assert(g_bt_sync_calls == 1 && g_bt_sync_rc == LDB_OK, "O3: the file is closed only after a successful fsync");
  g_bt_close_calls++; g_bt_close_rc = nondet_int(); g_bt_t_close = bt_tick();
  return g_bt_close_rc;
}
void ldb_wfile_destroy(ldb_wfile_t *file) {
  __CPROVER_assert(file == &g_bt_file && g_bt_f_destroyed == 0, "the file object created here is destroyed exactly once (never NULL)");
  __CPROVER_assert(g_bt_b_destroyed == 1, "the file outlives the builder that writes to it");
  g_bt_f_destroyed++;
}
ldb_iter_t *ldb_tables_iterate(ldb_tables_t *cache, const ldb_readopt_t *options, uint64_t file_number, uint64_t file_size, ldb_table_t **tableptr) {
  __CPROVER_assert(cache == g_bt_cache && tableptr == NULL && options == &g_bt_readopt, "verification opens the table through the table cache");
  __CPROVER_assert(g_bt_close_calls == 1 && g_bt_close_rc == LDB_OK && g_bt_f_destroyed == 1, "the table is re-opened for verification only after it was synced and closed successfully");
  g_bt_verify_calls++; g_bt_verify_num = file_number; g_bt_verify_size = file_size;
  g_bt_verify_rc = nondet_int(); g_bt_t_verify = bt_tick();
  return &g_bt_vf_iter;
}
void ldb_iter_destroy(ldb_iter_t *it) {
  __CPROVER_assert(it == &g_bt_vf_iter, "only the verification iterator is destroyed (the input iterator belongs to the caller)");
  g_bt_vf_destroyed++;
}
int ldb_remove_file(const char *filename) {
  __CPROVER_assert(filename == g_bt_fname && g_bt_fname_ok, "the file removed is the table file of this call");
  __CPROVER_assert(g_bt_create_calls == 0 || g_bt_f_destroyed == 1, "the file is removed only after its handle was released");
  g_bt_removed++; g_bt_t_remove = bt_tick();
  return nondet_int();
}

/* ---------------------------------------------------------------- bld.build */
static void bld_ghost_init(void) {
  g_bt_firsts = g_bt_fname_calls = g_bt_create_calls = g_bt_b_created = g_bt_b_finished = g_bt_b_abandoned = g_bt_b_destroyed = 0;
  g_bt_size_reads = g_bt_sync_calls = g_bt_close_calls = g_bt_f_destroyed = g_bt_verify_calls = g_bt_vf_destroyed = g_bt_removed = 0;
  g_bt_adds = 0; g_bt_small_copies = g_bt_large_copies = 0; g_bt_small_src = g_bt_large_src = NULL;
  g_bt_clock = g_bt_t_finish = g_bt_t_sync = g_bt_t_close = g_bt_t_verify = g_bt_t_remove = 0;
}

void h_build(void) {
  ldb_filemeta_t *meta = malloc(sizeof(*meta));
  char *dbname = malloc(2);
  ldb_dbopt_t *opt = malloc(sizeof(*opt));
  char *cache = malloc(1);
  int rc;
  __CPROVER_assume(meta != NULL && dbname != NULL && opt != NULL && cache != NULL);
  dbname[0] = 'd'; dbname[1] = 0;
  bld_ghost_init();
  ldb_readopt_default = &g_bt_readopt;   /* dfcc havocs non-const globals */
  g_bt_dbname = dbname; g_bt_options = opt; g_bt_cache = (ldb_tables_t *)cache; g_bt_meta = meta;
  __CPROVER_assume(g_bt_n < (1ul << 40));
  g_bt_keybase = malloc(g_bt_n + 1); g_bt_valbase = malloc(g_bt_n + 1);
  __CPROVER_assume(g_bt_keybase != NULL && g_bt_valbase != NULL);
  g_bt_in_iter.ptr = &g_bt_cursor; g_bt_in_iter.table = &in_table; g_bt_in_iter.cmp = NULL; g_bt_in_iter.cleanup_head.func = NULL;
  g_bt_vf_iter.ptr = &vf_marker; g_bt_vf_iter.table = &vf_table; g_bt_vf_iter.cmp = NULL; g_bt_vf_iter.cleanup_head.func = NULL;
  rc = ldb_build_table(dbname, opt, (ldb_tables_t *)cache, &g_bt_in_iter, meta);
  (void)rc;
  CANARY();
}
