/* units/ver2_cmp.c - the small decision functions of a compaction (group "ver2")
 *
 *   ver2.deletions  ldb_compaction_add_input_deletions  (C13, C14)
 *   ver2.trivial    ldb_compaction_is_trivial_move      (C14)
 *   ver2.stop       ldb_compaction_should_stop_before   (C14)
 *   ver2.stop.seq   two consecutive calls of should_stop_before (seen_key logic)
 *
 * Compaction model: inputs[0] = the files of model level 1, inputs[1] = model
 * level 2, grandparents = model level 3 (<= 3 files each); c->level symbolic.
 */
#define VER2_CHUNK_PTRS
#include "ver2_model.h"

#define CF 3
static ldb_compaction_t g_c;
static void mk_compaction(size_t n0, size_t n1, size_t ngp) {
  mk_version();
  mk_level(1, n0); mk_level(2, n1); mk_level(3, ngp);
  g_c.input_version = &g_ver;
  g_c.inputs[0] = g_ver.files[1]; g_c.inputs[1] = g_ver.files[2]; g_c.grandparents = g_ver.files[3];
  g_c.max_output_file_size = nondet_u64();
}

/* ======================================================================
 * ver2.deletions - the edit removes exactly the input files (C13, C14)
 * ======================================================================
 * ldb_edit_remove_file is a recorder of (level, number) pairs.
 */
#define DELMAX 8
static ldb_edit_t g_edit;
static int g_del_lvl[DELMAX]; static uint64_t g_del_num[DELMAX]; static size_t g_del_n;
void ldb_edit_remove_file(ldb_edit_t *edit, int level, uint64_t number) {
  __CPROVER_assert(edit == &g_edit, "add_input_deletions: deletions are recorded in the caller's edit");
  if (g_del_n < DELMAX) { g_del_lvl[g_del_n] = level; g_del_num[g_del_n] = number; }
  g_del_n++;
}
#define DEL_AT(k, l, n) ((k) < g_del_n && g_del_lvl[k] == (l) && g_del_num[k] == (n))
#define HAS_DEL(l, n) (DEL_AT(0, l, n) || DEL_AT(1, l, n) || DEL_AT(2, l, n) || DEL_AT(3, l, n) || DEL_AT(4, l, n) || DEL_AT(5, l, n))
/* record k names an input file at its level: level L for inputs[0] (model level 1), L+1 for inputs[1] (model level 2) */
#define IS_INPUT0(l, n) ((l) == g_c.level && ((0 < g_n[1] && (n) == g_num[1][0]) || (1 < g_n[1] && (n) == g_num[1][1]) || (2 < g_n[1] && (n) == g_num[1][2])))
#define IS_INPUT1(l, n) ((l) == g_c.level + 1 && ((0 < g_n[2] && (n) == g_num[2][0]) || (1 < g_n[2] && (n) == g_num[2][1]) || (2 < g_n[2] && (n) == g_num[2][2])))
#define REC_OK(k) ((k) >= g_del_n || IS_INPUT0(g_del_lvl[k], g_del_num[k]) || IS_INPUT1(g_del_lvl[k], g_del_num[k]))

void c_add_input_deletions(ldb_compaction_t *c, ldb_edit_t *edit)
__CPROVER_requires(c == &g_c && edit == &g_edit && g_del_n == 0 && g_c.level >= 0 && g_c.level < LDB_NUM_LEVELS - 1)
__CPROVER_requires(g_n[1] <= CF && g_n[2] <= CF)
__CPROVER_assigns(g_del_n, __CPROVER_object_whole(g_del_lvl), __CPROVER_object_whole(g_del_num))
/* one deletion per input file ... */
__CPROVER_ensures(g_del_n == g_n[1] + g_n[2])
/* ... every file of inputs[0] is removed from `level`, every file of inputs[1] from `level+1` ... */
__CPROVER_ensures((0 >= g_n[1] || HAS_DEL(g_c.level, g_num[1][0])) && (1 >= g_n[1] || HAS_DEL(g_c.level, g_num[1][1])) && (2 >= g_n[1] || HAS_DEL(g_c.level, g_num[1][2])))
__CPROVER_ensures((0 >= g_n[2] || HAS_DEL(g_c.level + 1, g_num[2][0])) && (1 >= g_n[2] || HAS_DEL(g_c.level + 1, g_num[2][1])) && (2 >= g_n[2] || HAS_DEL(g_c.level + 1, g_num[2][2])))
/* ... and nothing else is removed */
__CPROVER_ensures(REC_OK(0) && REC_OK(1) && REC_OK(2) && REC_OK(3) && REC_OK(4) && REC_OK(5))
;
void h_add_input_deletions(void) {
  IN_SIZE(in_n0); IN_SIZE(in_n1); IN_INT(in_level);
  ASSUME(in_n0 <= CF && in_n1 <= CF && in_level >= 0 && in_level < LDB_NUM_LEVELS - 1);
  mk_compaction(in_n0, in_n1, 0);
  g_c.level = in_level;
  /* file numbers are unique across the version (ver.numbers): a file of inputs[0] and one of inputs[1] never share a number */
  g_del_n = 0;
  ldb_compaction_add_input_deletions(&g_c, &g_edit);
  CANARY();
}

/* ======================================================================
 * ver2.trivial - a compaction is a pure move iff one input file, nothing to
 * merge with, and little grandparent overlap (C14)
 * ====================================================================== */
#define SZ50 ((uint64_t)1 << 50)
#define GP_SUM ((int64_t)((0 < g_n[3] ? g_fsz[3][0] : 0) + (1 < g_n[3] ? g_fsz[3][1] : 0) + (2 < g_n[3] ? g_fsz[3][2] : 0)))
#define GP_LIMIT ((int64_t)(10 * (uint64_t)g_opt.max_file_size))
int c_is_trivial_move(const ldb_compaction_t *c)
__CPROVER_requires(c == &g_c && g_n[1] <= CF && g_n[2] <= CF && g_n[3] <= CF)
__CPROVER_requires(g_opt.max_file_size <= SZ50 && g_fsz[3][0] <= SZ50 && g_fsz[3][1] <= SZ50 && g_fsz[3][2] <= SZ50)
__CPROVER_assigns()
__CPROVER_ensures(__CPROVER_return_value == ((g_n[1] == 1 && g_n[2] == 0 && GP_SUM <= GP_LIMIT) ? 1 : 0))
;
void h_is_trivial_move(void) {
  IN_SIZE(in_n0); IN_SIZE(in_n1); IN_SIZE(in_ngp);
  ASSUME(in_n0 <= CF && in_n1 <= CF && in_ngp <= CF);
  mk_compaction(in_n0, in_n1, 3); mk_compaction(in_n0, in_n1, in_ngp);
  g_c.level = nondet_int();
  ASSUME(g_opt.max_file_size <= SZ50 && g_fsz[3][0] <= SZ50 && g_fsz[3][1] <= SZ50 && g_fsz[3][2] <= SZ50);
  ldb_compaction_is_trivial_move(&g_c);
  CANARY();
}

/* ======================================================================
 * ver2.stop - should_stop_before: grandparent-overlap accounting (C14)
 * ======================================================================
 * Grandparents = model level 3, sorted and disjoint.  Keys are presented in
 * ascending order, so every grandparent before grandparent_index ends before
 * the key (precondition and postcondition: the index stays the lower bound).
 */
static ldb_slice_t g_key; static uint8_t g_key_b[9]; static uint8_t g_kuk; static uint64_t g_ktag;
static size_t g_gi0; static int g_seen0; static int64_t g_ob0;
/* key <=_ik largest(gp[i]) */
#define KEY_LE_L(i) LE_(g_kuk, g_ktag, g_luk[3][i], g_ltag[3][i])
/* first index >= g_gi0 whose largest key is >= the key, or n */
#define GI_SPEC ((g_gi0 <= 0 && 0 < g_n[3] && KEY_LE_L(0)) ? 0 : (g_gi0 <= 1 && 1 < g_n[3] && KEY_LE_L(1)) ? 1 : (g_gi0 <= 2 && 2 < g_n[3] && KEY_LE_L(2)) ? 2 : g_n[3])
/* bytes of the grandparents passed over by this call: files g_gi0 .. gi-1 */
#define PASSED(i, gi) ((g_gi0 <= (i) && (i) < (gi)) ? g_fsz[3][i] : (uint64_t)0)
#define OB_MID(gi) (g_ob0 + (g_seen0 ? (int64_t)(PASSED(0, gi) + PASSED(1, gi) + PASSED(2, gi)) : (int64_t)0))
#define GI_PRE_OK ((g_gi0 < 1 || !KEY_LE_L(0)) && (g_gi0 < 2 || !KEY_LE_L(1)) && (g_gi0 < 3 || !KEY_LE_L(2)))
#define GI_IS_LOWER_BOUND(gi) (((gi) < 1 || !KEY_LE_L(0)) && ((gi) < 2 || !KEY_LE_L(1)) && ((gi) < 3 || !KEY_LE_L(2)) && ((gi) >= g_n[3] || LE_(g_kuk, g_ktag, g_luk[3][gi], g_ltag[3][gi])))

int c_should_stop_before(ldb_compaction_t *c, const ldb_slice_t *ikey)
__CPROVER_requires(c == &g_c && ikey == &g_key && g_n[3] <= CF && DISJOINT_SORTED(3))
__CPROVER_requires(g_c.grandparent_index == g_gi0 && g_gi0 <= g_n[3] && g_c.seen_key == g_seen0 && g_c.overlapped_bytes == g_ob0)
__CPROVER_requires(g_ob0 >= 0 && g_ob0 <= (int64_t)SZ50 && g_opt.max_file_size <= SZ50 && g_fsz[3][0] <= SZ50 && g_fsz[3][1] <= SZ50 && g_fsz[3][2] <= SZ50)
__CPROVER_requires(GI_PRE_OK)
__CPROVER_assigns(g_c.grandparent_index, g_c.seen_key, g_c.overlapped_bytes)
/* the index advances (never moves back) to the first grandparent that may still contain the key */
__CPROVER_ensures(g_c.grandparent_index == GI_SPEC && g_c.grandparent_index >= g_gi0 && g_c.grandparent_index <= g_n[3])
__CPROVER_ensures(GI_IS_LOWER_BOUND(g_c.grandparent_index))
/* from now on a key has been seen */
__CPROVER_ensures(g_c.seen_key == 1)
/* bytes of the grandparents passed over are charged to the current output only if it already holds a key;
   stop iff the charge exceeds 10 * max_file_size, and then the count restarts at 0 */
__CPROVER_ensures(__CPROVER_return_value == (OB_MID(GI_SPEC) > GP_LIMIT ? 1 : 0))
__CPROVER_ensures(g_c.overlapped_bytes == (OB_MID(GI_SPEC) > GP_LIMIT ? (int64_t)0 : OB_MID(GI_SPEC)))
;
static void mk_stop(size_t ngp) {
  mk_compaction(0, 0, 3); mk_compaction(0, 0, ngp);
  ASSUME(DISJOINT_SORTED(3));
  ASSUME(g_opt.max_file_size <= SZ50 && g_fsz[3][0] <= SZ50 && g_fsz[3][1] <= SZ50 && g_fsz[3][2] <= SZ50);
  g_c.level = 1;
  g_kuk = nondet_u8(); g_ktag = nondet_u64(); ASSUME((g_ktag & 0xff) <= 1);
  { ldb_buffer_t t; mk_ikey(&t, g_key_b, g_kuk, g_ktag); g_key = t; }
}
void h_should_stop_before(void) {
  IN_SIZE(in_ngp); IN_SIZE(in_gi); IN_INT(in_seen); IN_U64(in_ob);
  ASSUME(in_ngp <= CF && in_gi <= in_ngp && in_ob <= SZ50);
  mk_stop(in_ngp);
  g_gi0 = in_gi; g_seen0 = in_seen ? 1 : 0; g_ob0 = (int64_t)in_ob;
  g_c.grandparent_index = g_gi0; g_c.seen_key = g_seen0; g_c.overlapped_bytes = g_ob0;
  ASSUME(GI_PRE_OK);
  ldb_compaction_should_stop_before(&g_c, &g_key);
  CANARY();
}

/* ---- ver2.stop.seq: a fresh compaction, two keys in ascending order (plain harness on the real function) ---- */
void h_should_stop_seq(void) {
  IN_SIZE(in_ngp);
  uint8_t k1uk, k2uk; uint64_t k1tag, k2tag; int r1, r2; size_t gi1, gi2; uint64_t skipped = 0; size_t i;
  ASSUME(in_ngp <= CF);
  mk_stop(in_ngp);
  g_c.grandparent_index = 0; g_c.seen_key = 0; g_c.overlapped_bytes = 0;   /* as ldb_compaction_init leaves it */
  k1uk = g_kuk; k1tag = g_ktag;
  r1 = ldb_compaction_should_stop_before(&g_c, &g_key);
  gi1 = g_c.grandparent_index;
  CHECK(r1 == 0 && g_c.overlapped_bytes == 0, "should_stop_before: the first key of a compaction never stops the (empty) output and charges nothing, however many grandparents lie before it");
  CHECK(g_c.seen_key == 1, "should_stop_before: the first call marks the output as non-empty");
  /* second key, not smaller than the first */
  k2uk = nondet_u8(); k2tag = nondet_u64(); ASSUME((k2tag & 0xff) <= 1 && LE_(k1uk, k1tag, k2uk, k2tag));
  g_kuk = k2uk; g_ktag = k2tag;
  { ldb_buffer_t t; mk_ikey(&t, g_key_b, g_kuk, g_ktag); g_key = t; }
  r2 = ldb_compaction_should_stop_before(&g_c, &g_key);
  gi2 = g_c.grandparent_index;
  CHECK(gi2 >= gi1 && gi2 <= in_ngp, "should_stop_before: the grandparent index advances monotonically and stays within the list");
  for (i = 0; i < CF; i++) if (i >= gi1 && i < gi2) skipped += g_fsz[3][i];
  CHECK(r2 == ((int64_t)skipped > GP_LIMIT ? 1 : 0), "should_stop_before: stop iff the grandparents passed between two consecutive keys exceed 10 * max_file_size");
  CHECK(g_c.overlapped_bytes == (r2 ? (int64_t)0 : (int64_t)skipped), "should_stop_before: the overlap count is the bytes passed, reset to 0 when a new output is started");
  CHECK(GI_IS_LOWER_BOUND(gi2), "should_stop_before: the index is the first grandparent whose largest key is >= the key");
  CANARY();
}
