/* units/ver3.c - the level file iterator of src/version_set.c (group "ver3": C07, C11, C01)
 *
 *   ldb_numiter_*             LevelFileNumIterator: an internal iterator over the file list of ONE level;
 *                             key() = largest internal key of the file, value() = 16 bytes LE64(number) LE64(file_size)
 *   get_file_iterator         decodes such a value and asks the table cache (wrong size => error iterator, CORRUPTION)
 *   ldb_concatiter_create     two-level iterator (numiter over a level, get_file_iterator, table cache)
 *   ldb_version_add_iterators one table iterator per level-0 file (in list order), one concatenating iterator per
 *                             non-empty level > 0 (in level order)
 *
 * The real version_set.c is included unmodified.  The file list has ANY length (a heap array of symbolic size);
 * one ghost index (g_idx0) is the position of the iterator, the element there is the ghost file g_file
 * (ghost-index method: what holds for one arbitrary position holds for all).
 * The iterator object, the list and the file are statics (constant addresses).
 */
#include "verif.h"
#include "version_set.c"

ldb_numiter_t nondet_numiter(void);
ldb_filemeta_t nondet_filemeta(void);
ldb_comparator_t nondet_comparator(void);
ldb_versions_t nondet_versions(void);
ldb_version_t nondet_version(void);
void *nondet_ptr(void);

static ldb_numiter_t g_it;          /* the iterator under test                                  */
static ldb_vector_t g_fl;           /* its file list: g_n entries                                */
static ldb_filemeta_t g_file;       /* the file at the iterator's position                       */
static ldb_comparator_t g_icmp;     /* the comparator handed to init / create                    */
static size_t g_n;                  /* ghost: length of the list                                 */
static uint32_t g_idx0;             /* ghost: position before the call                           */
static uint8_t g_v0[16];            /* ghost: value scratch before the call                      */

/* A level holds fewer than 2^31 files: find_file narrows the length to uint32_t and returns int,
 * the iterator keeps its position in a uint32_t. */
#define NI_MAXN 2147483647
#define NI_PRE(iter) ((iter) == &g_it && g_it.flist == &g_fl && g_fl.length == g_n && g_n <= NI_MAXN && g_it.index == g_idx0)
#define NI_VALID0 ((size_t)g_idx0 < g_n)
#define NI_INVALID1 (!((size_t)g_it.index < g_n))

/* ---- contracts: the documentation of ldb_itertbl_t (table/iterator.h) on the index ---------------- */
void c3_numiter_init(ldb_numiter_t *iter, const ldb_comparator_t *icmp, const ldb_vector_t *flist)
__CPROVER_requires(iter == &g_it && icmp == &g_icmp && flist == &g_fl && g_fl.length == g_n && g_n <= NI_MAXN)
__CPROVER_assigns(g_it.icmp, g_it.flist, g_it.index)
/* a fresh iterator is not positioned; it owns a COPY of the comparator and refers to the caller's list */
__CPROVER_ensures(g_it.flist == &g_fl && NI_INVALID1)
__CPROVER_ensures(g_it.icmp.name == g_icmp.name && g_it.icmp.compare == g_icmp.compare && g_it.icmp.shortest_separator == g_icmp.shortest_separator &&
                  g_it.icmp.short_successor == g_icmp.short_successor && g_it.icmp.user_comparator == g_icmp.user_comparator && g_it.icmp.state == g_icmp.state)
;
int c3_numiter_valid(const ldb_numiter_t *iter)
__CPROVER_requires(NI_PRE(iter))
__CPROVER_assigns()
__CPROVER_ensures(__CPROVER_return_value == (NI_VALID0 ? 1 : 0))
;
void c3_numiter_first(ldb_numiter_t *iter)
__CPROVER_requires(NI_PRE(iter))
__CPROVER_assigns(g_it.index)
/* first entry; valid iff the list is not empty */
__CPROVER_ensures(g_it.index == 0)
;
void c3_numiter_last(ldb_numiter_t *iter)
__CPROVER_requires(NI_PRE(iter))
__CPROVER_assigns(g_it.index)
/* last entry; not valid iff the list is empty */
__CPROVER_ensures(g_n > 0 ? (size_t)g_it.index == g_n - 1 : NI_INVALID1)
;
void c3_numiter_next(ldb_numiter_t *iter)
__CPROVER_requires(NI_PRE(iter) && NI_VALID0)
__CPROVER_assigns(g_it.index)
/* the following entry; not valid after the last one (index == n) */
__CPROVER_ensures(g_it.index == g_idx0 + 1)
;
void c3_numiter_prev(ldb_numiter_t *iter)
__CPROVER_requires(NI_PRE(iter) && NI_VALID0)
__CPROVER_assigns(g_it.index)
/* the preceding entry; not valid after the first one */
__CPROVER_ensures(g_idx0 > 0 ? g_it.index == g_idx0 - 1 : NI_INVALID1)
;
ldb_slice_t c3_numiter_key(const ldb_numiter_t *iter)
__CPROVER_requires(NI_PRE(iter) && NI_VALID0 && g_fl.items[g_idx0] == (void *)&g_file)
__CPROVER_assigns()
/* the LARGEST internal key of the file at the position (the index the two-level iterator seeks in) */
__CPROVER_ensures(__CPROVER_return_value.data == g_file.largest.data && __CPROVER_return_value.size == g_file.largest.size)
;
#define LE64_AT(p, o, x) ((p)[(o) + 0] == (uint8_t)((x) >> 0) && (p)[(o) + 1] == (uint8_t)((x) >> 8) && (p)[(o) + 2] == (uint8_t)((x) >> 16) && \
                          (p)[(o) + 3] == (uint8_t)((x) >> 24) && (p)[(o) + 4] == (uint8_t)((x) >> 32) && (p)[(o) + 5] == (uint8_t)((x) >> 40) && \
                          (p)[(o) + 6] == (uint8_t)((x) >> 48) && (p)[(o) + 7] == (uint8_t)((x) >> 56))
ldb_slice_t c3_numiter_value(const ldb_numiter_t *iter)
__CPROVER_requires(NI_PRE(iter) && NI_VALID0 && g_fl.items[g_idx0] == (void *)&g_file)
__CPROVER_assigns(__CPROVER_object_upto(g_it.value, 16))
/* 16 bytes: fixed64 little-endian file number, then fixed64 little-endian file size, in the iterator's own scratch */
__CPROVER_ensures(__CPROVER_return_value.data == g_it.value && __CPROVER_return_value.size == 16)
__CPROVER_ensures(LE64_AT(g_it.value, 0, g_file.number) && LE64_AT(g_it.value, 8, g_file.file_size))
;
int c3_numiter_status(const ldb_numiter_t *iter)
__CPROVER_requires(NI_PRE(iter))
__CPROVER_assigns()
__CPROVER_ensures(__CPROVER_return_value == LDB_OK)
;

/* ---- find_file by contract: VERBATIM copy of c_find_file_any / ff_* of units/ver.c (enforced there by ver.find.any,
 * any list length, recording oracle comparator).  r is a transition point of the oracle's answers. ---- */
static const ldb_slice_t *ff_lo_p, *ff_hi_p, *ff_key;
static const ldb_comparator_t *ff_icmp;
static size_t ff_n;
static int ff_compare(const ldb_comparator_t *c, const ldb_slice_t *x, const ldb_slice_t *y) {
  int r = nondet_int();
  __CPROVER_assert(c == ff_icmp && y == ff_key, "find_file: compares element keys (left) with the probe key (right) under the given comparator");
  if (r < 0) ff_lo_p = x; else ff_hi_p = x;
  return r;
}
#define FF_LARGEST(files, i) (&((ldb_filemeta_t *)(files)->items[i])->largest)
int c_find_file_any(const ldb_comparator_t *icmp, const ldb_vector_t *files, const ldb_slice_t *key)
__CPROVER_requires(__CPROVER_r_ok(files, sizeof(*files)) && __CPROVER_r_ok(icmp, sizeof(*icmp)) && icmp->compare == ff_compare)
__CPROVER_requires(icmp == ff_icmp && key == ff_key && files->length == ff_n && ff_n <= 2147483647)
__CPROVER_requires(ff_n == 0 || __CPROVER_r_ok(files->items, ff_n * sizeof(void *)))
__CPROVER_assigns(ff_lo_p, ff_hi_p)
__CPROVER_ensures(__CPROVER_return_value >= 0 && (size_t)__CPROVER_return_value <= ff_n)
__CPROVER_ensures(__CPROVER_return_value > 0 ==> ff_lo_p == FF_LARGEST(files, __CPROVER_return_value - 1))
__CPROVER_ensures((size_t)__CPROVER_return_value < ff_n ==> ff_hi_p == FF_LARGEST(files, __CPROVER_return_value))
;
static ldb_slice_t g_target;
/* seek: the position is what find_file(own comparator copy, own list, target) returns: the first file whose largest key is
 * >= target (transition point of the comparator's answers; lower bound in a sorted level: ver.find / ver.find.any) */
void c3_numiter_seek(ldb_numiter_t *iter, const ldb_slice_t *target)
__CPROVER_requires(NI_PRE(iter) && target == &g_target && ff_icmp == &g_it.icmp && ff_key == &g_target && ff_n == g_n && g_it.icmp.compare == ff_compare)
__CPROVER_requires(g_n == 0 || __CPROVER_r_ok(g_fl.items, g_n * sizeof(void *)))
__CPROVER_assigns(g_it.index, ff_lo_p, ff_hi_p)
__CPROVER_ensures((size_t)g_it.index <= g_n)
__CPROVER_ensures(g_it.index > 0 ==> ff_lo_p == FF_LARGEST(&g_fl, g_it.index - 1))
__CPROVER_ensures((size_t)g_it.index < g_n ==> ff_hi_p == FF_LARGEST(&g_fl, g_it.index))
;

/* ---- harness construction ------------------------------------------------------------------------------ */
static void mk_list(size_t n) {
  g_n = n;
  g_fl.items = malloc(n * sizeof(void *));
  ASSUME(g_fl.items != NULL);
  g_fl.length = n; g_fl.alloc = n;
}
static void mk_iter(size_t n, uint32_t idx) {
  ASSUME(n <= NI_MAXN);
  mk_list(n);
  g_it = nondet_numiter();
  g_it.flist = &g_fl; g_it.index = idx; g_idx0 = idx;
  g_file = nondet_filemeta();
  if ((size_t)idx < n) g_fl.items[idx] = &g_file;
  g_v0[0] = g_it.value[0]; g_v0[15] = g_it.value[15];
}

void h_numiter_init(void) {
  IN_SIZE(in_n);
  ASSUME(in_n <= NI_MAXN);
  mk_list(in_n);
  g_it = nondet_numiter(); g_icmp = nondet_comparator();
  ldb_numiter_init(&g_it, &g_icmp, &g_fl);
  CANARY();
}
void h_numiter_valid(void) { IN_SIZE(in_n); IN_U32(in_idx); mk_iter(in_n, in_idx); ldb_numiter_valid(&g_it); CANARY(); }
void h_numiter_first(void) { IN_SIZE(in_n); IN_U32(in_idx); mk_iter(in_n, in_idx); ldb_numiter_first(&g_it); CANARY(); }
void h_numiter_last(void) { IN_SIZE(in_n); IN_U32(in_idx); mk_iter(in_n, in_idx); ldb_numiter_last(&g_it); CANARY(); }
void h_numiter_next(void) { IN_SIZE(in_n); IN_U32(in_idx); mk_iter(in_n, in_idx); ASSUME((size_t)in_idx < in_n); ldb_numiter_next(&g_it); CANARY(); }
void h_numiter_prev(void) { IN_SIZE(in_n); IN_U32(in_idx); mk_iter(in_n, in_idx); ASSUME((size_t)in_idx < in_n); ldb_numiter_prev(&g_it); CANARY(); }
void h_numiter_key(void) { IN_SIZE(in_n); IN_U32(in_idx); mk_iter(in_n, in_idx); ASSUME((size_t)in_idx < in_n); ldb_numiter_key(&g_it); CANARY(); }
void h_numiter_value(void) { IN_SIZE(in_n); IN_U32(in_idx); mk_iter(in_n, in_idx); ASSUME((size_t)in_idx < in_n); ldb_numiter_value(&g_it); CANARY(); }
void h_numiter_status(void) { IN_SIZE(in_n); IN_U32(in_idx); mk_iter(in_n, in_idx); ldb_numiter_status(&g_it); CANARY(); }
void h_numiter_seek(void) {
  IN_SIZE(in_n); IN_U32(in_idx);
  mk_iter(in_n, in_idx);
  g_it.icmp.compare = ff_compare;
  ff_icmp = &g_it.icmp; ff_key = &g_target; ff_n = in_n; ff_lo_p = NULL; ff_hi_p = NULL;
  ldb_numiter_seek(&g_it, &g_target);
  CANARY();
}

/* ======================================================================================================
 * Stubs of other translation units (plain recorders)
 * ====================================================================================================== */
#define MAXC 8                        /* records kept per stub */
static int g_cache_obj;               /* the table cache is an opaque token */
#define CACHE_TOK ((ldb_tables_t *)&g_cache_obj)
static ldb_readopt_t g_ropt;

/* ldb_malloc: typed allocation of the only thing these functions allocate (a numiter) */
static unsigned g_mallocs; static void *g_malloc_p[MAXC];
void *ldb_malloc(size_t size) {
  ldb_numiter_t *p = malloc(sizeof(ldb_numiter_t));
  __CPROVER_assume(p != NULL);
  __CPROVER_assert(size == sizeof(ldb_numiter_t), "the only allocation is a level file iterator");
  if (g_mallocs < MAXC) g_malloc_p[g_mallocs] = p;
  g_mallocs++;
  return p;
}
/* ldb_iter_create (table/iterator.c): records (ptr, table, cmp), hands out a distinct object per call */
static unsigned g_ic_calls; static void *g_ic_ptr[MAXC]; static const ldb_itertbl_t *g_ic_tbl[MAXC]; static const ldb_comparator_t *g_ic_cmp[MAXC];
static ldb_iter_t g_ic_obj[MAXC];
ldb_iter_t *ldb_iter_create(void *ptr, const ldb_itertbl_t *table, const ldb_comparator_t *cmp) {
  unsigned k = g_ic_calls < MAXC ? g_ic_calls : MAXC - 1;
  g_ic_ptr[k] = ptr; g_ic_tbl[k] = table; g_ic_cmp[k] = cmp;
  g_ic_calls++;
  return &g_ic_obj[k];
}
/* ldb_twoiter_create (table/two_level_iterator.c: two.create): records its arguments */
static unsigned g_tw_calls; static ldb_iter_t *g_tw_idx[MAXC]; static ldb_blockfunc_f g_tw_fn[MAXC]; static void *g_tw_arg[MAXC]; static const ldb_readopt_t *g_tw_opt[MAXC];
static ldb_iter_t g_tw_obj[MAXC];
ldb_iter_t *ldb_twoiter_create(ldb_iter_t *index_iter, ldb_blockfunc_f block_function, void *arg, const ldb_readopt_t *options) {
  unsigned k = g_tw_calls < MAXC ? g_tw_calls : MAXC - 1;
  g_tw_idx[k] = index_iter; g_tw_fn[k] = block_function; g_tw_arg[k] = arg; g_tw_opt[k] = options;
  g_tw_calls++;
  return &g_tw_obj[k];
}
/* ldb_tables_iterate (table_cache.c: tcache.iterate): records its arguments, hands out a distinct object per call
 * (an error is an error iterator, indistinguishable here: the result is passed on untouched) */
static unsigned g_ti_calls; static ldb_tables_t *g_ti_cache[MAXC]; static const ldb_readopt_t *g_ti_opt[MAXC]; static uint64_t g_ti_num[MAXC], g_ti_size[MAXC];
static int g_ti_tp_null[MAXC]; static ldb_iter_t g_ti_obj[MAXC];
ldb_iter_t *ldb_tables_iterate(ldb_tables_t *cache, const ldb_readopt_t *options, uint64_t file_number, uint64_t file_size, ldb_table_t **tableptr) {
  unsigned k = g_ti_calls < MAXC ? g_ti_calls : MAXC - 1;
  g_ti_cache[k] = cache; g_ti_opt[k] = options; g_ti_num[k] = file_number; g_ti_size[k] = file_size; g_ti_tp_null[k] = (tableptr == NULL);
  g_ti_calls++;
  return &g_ti_obj[k];
}
/* ldb_emptyiter_create (table/iterator.c): an iterator that is never valid and reports `status` */
static unsigned g_ei_calls; static int g_ei_status; static ldb_iter_t g_ei_obj;
ldb_iter_t *ldb_emptyiter_create(int status) { g_ei_calls++; g_ei_status = status; return &g_ei_obj; }
/* ldb_vector_push (util/vector.c: vec.push): appends; here a recorder of the appended pointers */
static ldb_vector_t g_iters; static unsigned g_push_n; static const void *g_pushed[MAXC + 4];
void ldb_vector_push(ldb_vector_t *z, const void *x) {
  __CPROVER_assert(z == &g_iters, "add_iterators: iterators are appended to the caller's vector");
  if (g_push_n < MAXC + 4) g_pushed[g_push_n] = x;
  g_push_n++;
}
static void reset_stubs(void) {
  g_mallocs = 0; g_ic_calls = 0; g_tw_calls = 0; g_ti_calls = 0; g_ei_calls = 0; g_ei_status = 0; g_push_n = 0;
}

/* ======================================================================================================
 * ver3.numiter.table / ver3.numiter.create - vtable wiring and construction
 * ====================================================================================================== */
void h_numiter_create(void) {
  IN_SIZE(in_n);
  ldb_iter_t *r; ldb_numiter_t *p;
  ASSUME(in_n <= NI_MAXN);
  reset_stubs();
  mk_list(in_n); g_icmp = nondet_comparator();
  r = ldb_numiter_create(&g_icmp, &g_fl);
  CHECK(g_mallocs == 1 && g_ic_calls == 1 && r == &g_ic_obj[0], "numiter_create: one iterator object, wrapped once");
  p = g_ic_ptr[0];
  CHECK(p == g_malloc_p[0], "numiter_create: the wrapped state is the freshly allocated level file iterator");
  CHECK(p->flist == &g_fl && !((size_t)p->index < in_n), "numiter_create: refers to the caller's list and is not positioned");
  CHECK(p->icmp.compare == g_icmp.compare && p->icmp.user_comparator == g_icmp.user_comparator && p->icmp.name == g_icmp.name && p->icmp.state == g_icmp.state,
        "numiter_create: owns a copy of the comparator");
  CHECK(g_ic_cmp[0] == &p->icmp, "numiter_create: the wrapper's comparator is the iterator's own copy (outlives the caller's argument)");
  CHECK(g_ic_tbl[0] == &ldb_numiter_table, "numiter_create: the wrapper dispatches through the level file iterator's function table");
  /* the function table binds every slot of ldb_itertbl_t to the function of that name */
  CHECK(ldb_numiter_table.clear == (void (*)(void *))ldb_numiter_clear && ldb_numiter_table.valid == (int (*)(const void *))ldb_numiter_valid &&
        ldb_numiter_table.first == (void (*)(void *))ldb_numiter_first && ldb_numiter_table.last == (void (*)(void *))ldb_numiter_last &&
        ldb_numiter_table.seek == (void (*)(void *, const ldb_slice_t *))ldb_numiter_seek && ldb_numiter_table.next == (void (*)(void *))ldb_numiter_next &&
        ldb_numiter_table.prev == (void (*)(void *))ldb_numiter_prev && ldb_numiter_table.key == (ldb_slice_t (*)(const void *))ldb_numiter_key &&
        ldb_numiter_table.value == (ldb_slice_t (*)(const void *))ldb_numiter_value && ldb_numiter_table.status == (int (*)(const void *))ldb_numiter_status,
        "numiter table: first/last/seek/next/prev/key/value/status/valid/clear slots hold the functions of the same name");
  CANARY();
}

/* ver3.numiter.walk - C07 through the function table, one step from an ARBITRARY position of a list of any length:
 * forwards visits 0, 1, .., n-1 then ends; backwards visits n-1, .., 0 then ends; next and prev are inverse */
void h_numiter_walk(void) {
  IN_SIZE(in_n); IN_U32(in_i);
  const ldb_itertbl_t *t = &ldb_numiter_table;
  ASSUME(in_n <= NI_MAXN);
  mk_iter(in_n, in_i);
  t->first(&g_it);
  CHECK(t->valid(&g_it) == (in_n > 0) && (in_n == 0 || g_it.index == 0), "walk: first() stands on entry 0, valid iff the level is not empty");
  t->last(&g_it);
  CHECK(t->valid(&g_it) == (in_n > 0) && (in_n == 0 || (size_t)g_it.index == in_n - 1), "walk: last() stands on entry n-1, valid iff the level is not empty");
  if ((size_t)in_i < in_n) {
    g_it.index = in_i;
    t->next(&g_it);
    CHECK(t->valid(&g_it) == ((size_t)in_i + 1 < in_n), "walk: next() is valid iff the position was not the last entry");
    if (t->valid(&g_it)) {
      CHECK(g_it.index == in_i + 1, "walk: next() moves to the following entry (none skipped, none repeated)");
      t->prev(&g_it);
      CHECK(t->valid(&g_it) && g_it.index == in_i, "walk: prev() after next() returns to the same entry");
    }
    g_it.index = in_i;
    t->prev(&g_it);
    CHECK(t->valid(&g_it) == (in_i > 0), "walk: prev() is valid iff the position was not the first entry");
    if (t->valid(&g_it)) {
      CHECK(g_it.index == in_i - 1, "walk: prev() moves to the preceding entry (none skipped, none repeated)");
      t->next(&g_it);
      CHECK(t->valid(&g_it) && g_it.index == in_i, "walk: next() after prev() returns to the same entry");
    }
    g_it.index = in_i;
    { ldb_slice_t k = t->key(&g_it), v = t->value(&g_it);
      CHECK(k.data == g_file.largest.data && k.size == g_file.largest.size, "walk: key() is the largest key of the file at the position");
      CHECK(v.size == 16 && LE64_AT(v.data, 0, g_file.number) && LE64_AT(v.data, 8, g_file.file_size), "walk: value() = LE64(number) LE64(file_size) of the file at the position");
      CHECK(g_it.index == in_i, "walk: key()/value() do not move the iterator"); }
  }
  CHECK(t->status(&g_it) == LDB_OK, "walk: the level file iterator has no error state");
  CANARY();
}

/* ======================================================================================================
 * ver3.fileiter - get_file_iterator (C11: a malformed index value surfaces as CORRUPTION, never as a table read)
 * ====================================================================================================== */
#define LE64_OF(p, o) ((uint64_t)(p)[(o) + 0] | ((uint64_t)(p)[(o) + 1] << 8) | ((uint64_t)(p)[(o) + 2] << 16) | ((uint64_t)(p)[(o) + 3] << 24) | \
                       ((uint64_t)(p)[(o) + 4] << 32) | ((uint64_t)(p)[(o) + 5] << 40) | ((uint64_t)(p)[(o) + 6] << 48) | ((uint64_t)(p)[(o) + 7] << 56))
void h_get_file_iterator(void) {
  IN_SIZE(in_n);
  IN_BUF(buf, in_n);
  ldb_slice_t v; ldb_iter_t *r;
  SNAP_BUF(buf, in_n);
  reset_stubs();
  v.data = buf; v.size = in_n; v.alloc = 0;
  r = get_file_iterator(CACHE_TOK, &g_ropt, &v);
  if (in_n != 16) {
    CHECK(g_ei_calls == 1 && g_ei_status == LDB_CORRUPTION && r == &g_ei_obj, "get_file_iterator: a value that is not 16 bytes yields an error iterator reporting CORRUPTION");
    CHECK(g_ti_calls == 0, "get_file_iterator: the table cache is not consulted for a malformed value");
  } else {
    CHECK(g_ei_calls == 0 && g_ti_calls == 1 && r == &g_ti_obj[0], "get_file_iterator: a 16-byte value yields exactly the table cache's iterator");
    CHECK(g_ti_cache[0] == CACHE_TOK && g_ti_opt[0] == &g_ropt && g_ti_tp_null[0], "get_file_iterator: cache (the cookie) and read options are passed through, no table pointer requested");
    CHECK(g_ti_num[0] == LE64_OF(buf, 0), "get_file_iterator: file number = little-endian fixed64 at offset 0");
    CHECK(g_ti_size[0] == LE64_OF(buf, 8), "get_file_iterator: file size = little-endian fixed64 at offset 8");
  }
  CANARY();
}
/* round trip: what numiter.value() encodes is what get_file_iterator opens */
void h_value_roundtrip(void) {
  IN_SIZE(in_n); IN_U32(in_idx);
  ldb_slice_t v; ldb_iter_t *r;
  reset_stubs();
  mk_iter(in_n, in_idx);
  ASSUME((size_t)in_idx < in_n);
  v = ldb_numiter_value(&g_it);
  r = get_file_iterator(CACHE_TOK, &g_ropt, &v);
  CHECK(g_ei_calls == 0 && g_ti_calls == 1 && r == &g_ti_obj[0], "round trip: the value of a level file iterator is always accepted");
  CHECK(g_ti_num[0] == g_file.number && g_ti_size[0] == g_file.file_size, "round trip: the table opened is (number, file_size) of the file the index iterator stands on");
  CANARY();
}

/* ======================================================================================================
 * ver3.concat - ldb_concatiter_create; ver3.additers - ldb_version_add_iterators
 * ====================================================================================================== */
static ldb_versions_t g_vset; static ldb_version_t g_ver;
static ldb_filemeta_t g_l0[3]; static void *g_l0_items[3];
static void mk_version(void) {
  g_vset = nondet_versions(); g_ver = nondet_version();
  g_ver.vset = &g_vset; g_vset.table_cache = CACHE_TOK;
}
/* the concatenating iterator created by call #c walks level `level` */
#define CONCAT_OK(c, level) \
  (g_tw_idx[c] == &g_ic_obj[c] && g_tw_fn[c] == &get_file_iterator && g_tw_arg[c] == (void *)CACHE_TOK && g_tw_opt[c] == &g_ropt && \
   g_ic_ptr[c] == g_malloc_p[c] && g_ic_tbl[c] == &ldb_numiter_table && \
   ((ldb_numiter_t *)g_ic_ptr[c])->flist == &g_ver.files[level] && ((ldb_numiter_t *)g_ic_ptr[c])->index == (uint32_t)g_ver.files[level].length && \
   ((ldb_numiter_t *)g_ic_ptr[c])->icmp.compare == g_vset.icmp.compare && ((ldb_numiter_t *)g_ic_ptr[c])->icmp.user_comparator == g_vset.icmp.user_comparator && \
   g_ic_cmp[c] == &((ldb_numiter_t *)g_ic_ptr[c])->icmp)

void h_concatiter_create(void) {
  IN_INT(in_level);
  ldb_iter_t *r;
  ASSUME(in_level >= 0 && in_level < LDB_NUM_LEVELS);
  reset_stubs(); mk_version();
  ASSUME(g_ver.files[in_level].length <= NI_MAXN);
  r = ldb_concatiter_create(&g_ver, &g_ropt, in_level);
  CHECK(g_tw_calls == 1 && r == &g_tw_obj[0] && g_ic_calls == 1 && g_mallocs == 1 && g_ti_calls == 0,
        "concatiter_create: one two-level iterator over one level file iterator; no table is opened yet (lazy)");
  CHECK(CONCAT_OK(0, in_level), "concatiter_create: index = unpositioned level file iterator over files[level] with the version set's internal comparator; "
                                "block function = get_file_iterator with the version set's table cache; the caller's read options");
  CANARY();
}

void h_add_iterators(void) {
  IN_SIZE(in_n0);
  size_t nz1, nz2, nz3, nz4, nz5, nz6, p;
  ASSUME(in_n0 <= 3);
  reset_stubs(); mk_version();
  g_l0[0] = nondet_filemeta(); g_l0[1] = nondet_filemeta(); g_l0[2] = nondet_filemeta();
  g_l0_items[0] = &g_l0[0]; g_l0_items[1] = &g_l0[1]; g_l0_items[2] = &g_l0[2];
  g_ver.files[0].items = g_l0_items; g_ver.files[0].length = in_n0; g_ver.files[0].alloc = 3;
  /* levels 1..6: only the length is looked at; any length below 2^31 */
  ASSUME(g_ver.files[1].length <= NI_MAXN && g_ver.files[2].length <= NI_MAXN && g_ver.files[3].length <= NI_MAXN &&
         g_ver.files[4].length <= NI_MAXN && g_ver.files[5].length <= NI_MAXN && g_ver.files[6].length <= NI_MAXN);
  nz1 = g_ver.files[1].length > 0; nz2 = g_ver.files[2].length > 0; nz3 = g_ver.files[3].length > 0;
  nz4 = g_ver.files[4].length > 0; nz5 = g_ver.files[5].length > 0; nz6 = g_ver.files[6].length > 0;

  ldb_version_add_iterators(&g_ver, &g_ropt, &g_iters);

  CHECK(g_push_n == in_n0 + nz1 + nz2 + nz3 + nz4 + nz5 + nz6, "add_iterators: one iterator per level-0 file plus one per non-empty level 1..6, nothing else");
  CHECK(g_ti_calls == in_n0 && g_tw_calls == nz1 + nz2 + nz3 + nz4 + nz5 + nz6 && g_ei_calls == 0, "add_iterators: level-0 tables are opened eagerly, deeper levels lazily");
#define L0_OK(k) (g_pushed[k] == &g_ti_obj[k] && g_ti_cache[k] == CACHE_TOK && g_ti_opt[k] == &g_ropt && g_ti_tp_null[k] && \
                  g_ti_num[k] == g_l0[k].number && g_ti_size[k] == g_l0[k].file_size)
  CHECK(in_n0 < 1 || L0_OK(0), "add_iterators: iterator #0 reads level-0 file #0 (number, size) through the version set's table cache");
  CHECK(in_n0 < 2 || L0_OK(1), "add_iterators: iterator #1 reads level-0 file #1: every level-0 file individually, in list order");
  CHECK(in_n0 < 3 || L0_OK(2), "add_iterators: iterator #2 reads level-0 file #2: every level-0 file individually, in list order");
#define LVL_OK(level, c) (g_pushed[in_n0 + (c)] == &g_tw_obj[c] && CONCAT_OK(c, level))
  p = 0;
  CHECK(!nz1 || LVL_OK(1, p), "add_iterators: non-empty level 1 gets one concatenating iterator, right after the level-0 iterators"); p += nz1;
  CHECK(!nz2 || LVL_OK(2, p), "add_iterators: non-empty level 2 gets one concatenating iterator, in level order"); p += nz2;
  CHECK(!nz3 || LVL_OK(3, p), "add_iterators: non-empty level 3 gets one concatenating iterator, in level order"); p += nz3;
  CHECK(!nz4 || LVL_OK(4, p), "add_iterators: non-empty level 4 gets one concatenating iterator, in level order"); p += nz4;
  CHECK(!nz5 || LVL_OK(5, p), "add_iterators: non-empty level 5 gets one concatenating iterator, in level order"); p += nz5;
  CHECK(!nz6 || LVL_OK(6, p), "add_iterators: non-empty level 6 (the last level) gets one concatenating iterator"); p += nz6;
  CANARY();
}
