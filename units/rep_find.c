/* units/rep_find.c - find_files (src/repair.c)
 *   rep.find : C19 (every surviving log / table / MANIFEST is classified; the file-number allocator ends up above
 *              every numbered file in the directory), C13 (numbers are never reused).
 *
 * The real repair.c is included unmodified.  The directory listing has an ARBITRARY (unbounded) number of entries;
 * ONE arbitrary entry g_fk is followed through the loop (ghost-index method, as in db.gc): what it parses to is
 * fixed but arbitrary, all other entries parse to anything.
 */
#include "verif.h"
int nondet_int(void);
uint64_t nondet_u64(void);
size_t nondet_size(void);

#include "repair.c"
#include "contracts/rep.h"

/* ------------------------------------------------------------------ ghost */
int g_flen;                          /* entries returned by ldb_get_children, or -1 (error)         */
char **g_fnames; char *g_fname_base; /* name i is the pointer g_fname_base + i                       */
int g_fk;                            /* the tracked entry                                            */
int g_fparses; ldb_filetype_t g_ftype; uint64_t g_fnum;   /* what it parses to                      */
int g_fparse_calls, g_fcur;          /* entries are parsed in order: call number = index             */
unsigned g_fpush_man_k, g_fpush_log_k, g_fpush_tab_k;   /* pushes of the tracked entry, per list    */
unsigned long g_fpush_total;
unsigned g_fchildren_calls, g_ffree_calls; int g_ffree_len; char **g_ffree_list;
int g_fsyserr; unsigned g_fsyserr_calls;
uint64_t g_fnext0;                   /* allocator at entry                                           */

#define FIND_GHOST g_fparse_calls, g_fcur, g_fpush_man_k, g_fpush_log_k, g_fpush_tab_k, g_fpush_total, g_fchildren_calls, g_ffree_calls, g_ffree_len, g_ffree_list, g_fsyserr_calls

int ldb_get_children(const char *path, char ***out) {
  __CPROVER_assert(path == g_rep->dbname, "the database directory is listed");
  g_fchildren_calls++;
  if (g_flen < 0) return -1;
  *out = g_fnames;
  return g_flen;
}
void ldb_free_children(char **list, int len) { g_ffree_calls++; g_ffree_list = list; g_ffree_len = len; }
int ldb_system_error(void) { g_fsyserr_calls++; return g_fsyserr; }
int ldb_parse_filename(ldb_filetype_t *type, uint64_t *num, const char *name) {
  int idx = g_fparse_calls++;
  g_fcur = idx;
  if (idx == g_fk) {
    __CPROVER_assert(name == g_fname_base + g_fk, "entries are examined in directory order, each once");
    if (g_fparses) { *type = g_ftype; *num = g_fnum; }
    return g_fparses;
  }
  if (nondet_int()) {
    int t = nondet_int(); __CPROVER_assume(t >= LDB_FILE_LOG && t <= LDB_FILE_INFO);
    *type = (ldb_filetype_t)t; *num = nondet_u64();
    return 1;
  }
  return 0;
}
void ldb_array_push(ldb_array_t *z, uint64_t x) {
  __CPROVER_assert(z == &g_rep->manifests || z == &g_rep->logs || z == &g_rep->table_numbers, "numbers are recorded in one of the repairer's three lists");
  g_fpush_total++;
  if (g_fcur == g_fk) {
    __CPROVER_assert(x == g_fnum, "the number recorded is the number the name parsed to");
    if (z == &g_rep->manifests) g_fpush_man_k++;
    else if (z == &g_rep->logs) g_fpush_log_k++;
    else g_fpush_tab_k++;
  }
}

int c_find_files(ldb_repair_t *rep)
__CPROVER_requires(rep == g_rep && __CPROVER_rw_ok(rep, sizeof(*rep)) && rep->next_file_number == g_fnext0)
__CPROVER_requires(g_flen >= -1 && g_fk >= 0 && (g_flen <= 0 || g_fk < g_flen))
__CPROVER_requires(g_fparse_calls == 0 && g_fpush_man_k == 0 && g_fpush_log_k == 0 && g_fpush_tab_k == 0 && g_fpush_total == 0 && g_fchildren_calls == 0 && g_ffree_calls == 0 && g_fsyserr_calls == 0)
__CPROVER_assigns(rep->next_file_number, FIND_GHOST)
__CPROVER_ensures(g_fchildren_calls == 1)
/* listing fails: the system error is returned, nothing recorded */
__CPROVER_ensures(g_flen < 0 ==> (__CPROVER_return_value == g_fsyserr && g_fsyserr_calls == 1 && g_fpush_total == 0 && g_ffree_calls == 0 && rep->next_file_number == g_fnext0))
/* empty directory: nothing to repair from */
__CPROVER_ensures(g_flen == 0 ==> (__CPROVER_return_value == LDB_IOERR && g_fpush_total == 0 && rep->next_file_number == g_fnext0))
__CPROVER_ensures(g_flen >= 0 ==> (g_ffree_calls == 1 && g_ffree_list == g_fnames && g_ffree_len == g_flen))
__CPROVER_ensures(g_flen > 0 ==> (__CPROVER_return_value == LDB_OK && g_fparse_calls == g_flen))
/* the tracked entry: recorded exactly once in the list of its kind; names that do not parse and other kinds are recorded nowhere */
__CPROVER_ensures(g_flen > 0 ==> (g_fpush_man_k == ((g_fparses && g_ftype == LDB_FILE_DESC) ? 1u : 0u)))
__CPROVER_ensures(g_flen > 0 ==> (g_fpush_log_k == ((g_fparses && g_ftype == LDB_FILE_LOG) ? 1u : 0u)))
__CPROVER_ensures(g_flen > 0 ==> (g_fpush_tab_k == ((g_fparses && g_ftype == LDB_FILE_TABLE) ? 1u : 0u)))
__CPROVER_ensures(g_fpush_total <= (unsigned long)(g_flen > 0 ? g_flen : 0))
/* allocator: never moves back, and ends above the number of every parsable non-MANIFEST name (logs, tables, temp files ...) */
__CPROVER_ensures(rep->next_file_number >= g_fnext0)
__CPROVER_ensures((g_flen > 0 && g_fparses && g_ftype != LDB_FILE_DESC && g_fnum != 18446744073709551615ull) ==> rep->next_file_number > g_fnum)
;

static char g_dbname[2];
void h_find(void) {
  ldb_repair_t *rep = malloc(sizeof(*rep));
  size_t nn;
  __CPROVER_assume(rep != NULL);
  g_rep = rep; g_pin_buf = NULL; g_dbname[0] = 'd'; g_dbname[1] = 0; rep->dbname = g_dbname;
  __CPROVER_assume(g_flen >= -1);
  nn = (size_t)(g_flen > 0 ? g_flen : 0) + 1;
  g_fname_base = malloc(nn); g_fnames = malloc(nn * sizeof(char *));
  __CPROVER_assume(g_fname_base != NULL && g_fnames != NULL);
  __CPROVER_assume(g_fk >= 0 && (g_flen <= 0 || g_fk < g_flen));
  if (g_flen > 0) g_fnames[g_fk] = g_fname_base + g_fk;     /* name i is the pointer base+i: distinct entries, distinct names */
  __CPROVER_assume(g_fparses == 0 || g_fparses == 1);
  __CPROVER_assume(g_ftype >= LDB_FILE_LOG && g_ftype <= LDB_FILE_INFO);
  g_fparse_calls = 0; g_fcur = -1; g_fpush_man_k = g_fpush_log_k = g_fpush_tab_k = 0; g_fpush_total = 0; g_fchildren_calls = g_ffree_calls = 0; g_fsyserr_calls = 0;
  g_ffree_list = NULL; g_ffree_len = 0;
  g_fnext0 = rep->next_file_number;
  find_files(rep);
  CANARY();
}
