/* units/cmpu.c - UNBOUNDED proofs for the bytewise comparator's key shortening (src/util/comparator.c; C16, C07)
 *   cmp.separator.u : shortest_separator, start and limit of ANY length (loop contract + ghost indices)
 *   cmp.successor.u : short_successor, key of ANY length
 *
 * What is proved are the structural facts from which "start <= result < limit" (resp. "key <= result") follows by the
 * definition of lexicographic order; the bounded units cmp.separator / cmp.successor check that conclusion directly
 * against an executable lexicographic comparison for lengths <= 6.
 *   result has length n' <= n.  For every index k (ghost g_k, arbitrary):
 *     k <  n'-1            : result[k] == start[k]                                   (the prefix is kept)
 *     k == n'-1            : result[k] == start[k] and n' == n   (nothing changed), or
 *                            result[k] == start[k]+1, start[k] != 0xff, k < |limit|, result[k] < limit[k],
 *                            and for every j < k (ghost g_j): start[j] == limit[j]   (=> start < result < limit)
 *     n' < n               : only in the second case
 * The real comparator.c and buffer.c are included unmodified.
 */
#include "verif.h"
size_t nondet_size(void);
#include "util/buffer.c"
#include "util/comparator.c"

size_t g_k, g_j, g_sn, g_ln; uint8_t g_old_k, g_old_j; uint8_t *g_sdata; const uint8_t *g_ldata;

static void mk(ldb_buffer_t *z, size_t *alloc_out) {
  size_t sn = nondet_size(), sa = nondet_size();
  __CPROVER_assume(sn <= sa && sa >= 1 && sa < ((size_t)1 << 40));
  z->data = malloc(sa); __CPROVER_assume(z->data != NULL);
  z->size = sn; z->alloc = sa; *alloc_out = sa;
  g_sn = sn; g_sdata = z->data;
  g_k = nondet_size(); g_j = nondet_size();
  __CPROVER_assume(g_k < sa && g_j < sa);
  g_old_k = z->data[g_k]; g_old_j = z->data[g_j];
}

void h_sep_u(void) {
  ldb_buffer_t start; ldb_slice_t limit; size_t sa, ln = nondet_size(); uint8_t *lb; size_t n2;
  uint8_t lim_k = 0, lim_j = 0;
  mk(&start, &sa);
  __CPROVER_assume(ln < ((size_t)1 << 40));
  lb = malloc(ln + 1); __CPROVER_assume(lb != NULL);
  limit.data = lb; limit.size = ln; limit.alloc = 0; g_ln = ln; g_ldata = lb;
  if (g_k < ln) lim_k = lb[g_k];
  if (g_j < ln) lim_j = lb[g_j];

  shortest_separator(ldb_bytewise_comparator, &start, &limit);

  n2 = start.size;
  CHECK(start.data == g_sdata && start.alloc == sa && n2 <= g_sn, "shortest_separator: never grows or reallocates the key");
  CHECK(limit.data == lb && limit.size == ln && (g_k >= ln || lb[g_k] == lim_k), "shortest_separator: limit is not modified");
  if (g_k < g_sn && g_k + 1 < n2) CHECK(start.data[g_k] == g_old_k, "shortest_separator: bytes before the last one are kept");
  if (g_k < g_sn && n2 >= 1 && g_k == n2 - 1) {
    int same = (start.data[g_k] == g_old_k && n2 == g_sn);
    int bumped = (g_old_k != 0xff && start.data[g_k] == (uint8_t)(g_old_k + 1) && g_k < ln && start.data[g_k] < lim_k);
    CHECK(same || bumped, "shortest_separator: the last byte is the old one (nothing dropped), or the old one + 1 and still below limit's byte there");
    if (!same && g_j < g_k) CHECK(g_j < ln && g_old_j == lim_j, "shortest_separator: when it shortens, everything before the bumped byte equals limit (so start < result < limit)");
  }
  if (n2 == 0) CHECK(g_sn == 0, "shortest_separator: a key is never shortened to nothing");
  CANARY();
}

void h_succ_u(void) {
  ldb_buffer_t key; size_t sa, n2;
  mk(&key, &sa);

  short_successor(ldb_bytewise_comparator, &key);

  n2 = key.size;
  CHECK(key.data == g_sdata && key.alloc == sa && n2 <= g_sn, "short_successor: never grows or reallocates the key");
  if (g_k < g_sn && g_k + 1 < n2) CHECK(key.data[g_k] == g_old_k && g_old_k == 0xff, "short_successor: only leading 0xff bytes are kept before the last byte");
  if (g_k < g_sn && n2 >= 1 && g_k == n2 - 1) {
    int same = (key.data[g_k] == g_old_k && g_old_k == 0xff && n2 == g_sn);
    int bumped = (g_old_k != 0xff && key.data[g_k] == (uint8_t)(g_old_k + 1));
    CHECK(same || bumped, "short_successor: the last byte is the first non-0xff byte + 1, or the key is a run of 0xff and unchanged (=> key <= result)");
  }
  if (n2 == 0) CHECK(g_sn == 0, "short_successor: a key is never shortened to nothing");
  CANARY();
}
