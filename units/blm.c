/* units/blm.c - the built-in bloom filter policy: src/util/bloom.c (bloom_hash, bloom_size, bloom_add, bloom_build,
 * bloom_match, ldb_bloom_init / create) and src/util/hash.c (ldb_hash), both unmodified.
 * Properties: C16 "filters never reject a present key", C18 (bloom_match / ldb_hash total and memory-safe on arbitrary
 * bytes), C01.  Related: flt.* (filter block reader), fltgen (filter block builder, policy stubbed).
 *
 * Filter format (LevelDB util/bloom.cc): bytes = ceil(max(64, n * bits_per_key) / 8) bytes of bit array, then one byte k
 * (number of probes).  Probe i of a key with hash h uses bit (h + i * delta) mod (8 * bytes), delta = h rotated right by
 * 17 bits, arithmetic mod 2^32; bit p lives in byte p / 8 under mask 1 << (p % 8).  h = ldb_hash(key, 0xbc9f1d34).
 *
 * How "a present key is never rejected" is decided WITHOUT unrolling ldb_hash and without a bound on the key count:
 *   the hash is an uninterpreted value (stub ldb_hash: one arbitrary 32-bit number g_h for the tracked key, a fresh
 *   arbitrary number for any other key; blm.hash shows the real function is total, writes nothing and reads only the
 *   key bytes, hence it is a function of the key).
 *   L1  blm.add    bloom_add sets bit pos(j) for an ARBITRARY probe index j < k (ghost index, loop contract: any k) and
 *                  never clears a bit (ghost byte);
 *       blm.build  bloom_build (loop contract over an arbitrary number of keys, bloom_add replaced by its contract)
 *                  leaves bit pos(j) of an ARBITRARY key t < n set, stores k in the last byte, appends exactly
 *                  bloom_size(n) + 1 bytes and keeps what dst held before;
 *   L2  blm.match.spec  bloom_match on ARBITRARY filter bytes returns exactly the conjunction over i < k of "bit pos(i)
 *                  is set" (k <= 30 is a constant of the code: fully unwound);
 *   L1 (for all t, j) and L2 give the property by one instantiation step (not machine-checked: a SAT query has one
 *   state and one ghost index).  blm.rt checks the conclusion directly for one key and every filter length / k / prior
 *   filter content (add then match, both unwound 30 times); blm.build.b end to end for <= 2 keys.
 */
#include "verif.h"
uint32_t nondet_u32(void);
uint64_t nondet_u64(void);
size_t nondet_size(void);
int nondet_int(void);
uint8_t nondet_u8(void);
#include <string.h>

#include "util/bloom.h"
#include "util/buffer.h"
#include "util/slice.h"

/* ---- ghost state */
uint32_t g_h, g_delta;            /* hash of the tracked key, its rotation                                    */
const uint8_t *g_tdata; size_t g_tsize; /* data pointer and length of the tracked key                          */
const ldb_slice_t *g_tkey;        /* the tracked key slice                                                    */
size_t g_j;                       /* tracked probe index                                                      */
uint32_t g_pos;                   /* its bit position: (g_h + g_j * g_delta) mod g_bits                       */
size_t g_bits, g_k;               /* filter size in bits, number of probes                                    */
size_t g_b; uint8_t g_oldb;       /* tracked byte of the bit array and its value before                       */
uint32_t g_seen_seed, g_seen_ret; const uint8_t *g_seen_data; size_t g_seen_size; unsigned g_hash_calls;   /* record of the last ldb_hash call */
size_t g_n, g_t;                  /* build: number of keys, tracked key index                                 */
const ldb_slice_t *g_keys; const ldb_bloom_t *g_pol;
size_t g_pre, g_pb; uint8_t g_pbv; /* build: bytes dst held before, a tracked one of them                      */

#define ROT17(h) ((uint32_t)(((h) >> 17) | ((h) << 15)))
#define BIT_SET(d, pos) (((d)[(pos) / 8] & (1 << ((pos) % 8))) != 0)
#define MAXLEN ((size_t)1 << 40)

#ifdef BLM_REAL_HASH
#include "util/hash.c"
#else
/* uninterpreted hash: the tracked key hashes to g_h (always), any other key to an arbitrary value */
uint32_t ldb_hash(const uint8_t *data, size_t size, uint32_t seed) {
  uint32_t r = (data == g_tdata && size == g_tsize) ? g_h : nondet_u32();
  g_seen_seed = seed; g_seen_data = data; g_seen_size = size; g_seen_ret = r; g_hash_calls++;
  return r;
}
#endif
void *ldb_malloc(size_t n) { void *p = malloc(n); __CPROVER_assume(p != NULL); return p; }
void ldb_free(void *p) { free(p); }
#ifndef BLM_REAL_BUFFER
/* model of ldb_buffer_pad (verified against buffer.c by buf.pad): the buffer moves (worst case for stale pointers),
 * the xn new bytes are zero, earlier content is kept (tracked byte g_pb), size grows by xn */
uint8_t *ldb_buffer_pad(ldb_buffer_t *z, size_t xn) {
  size_t zn = z->size + xn, slack = nondet_size(); uint8_t *nd;
  __CPROVER_assume(slack <= 16);
  nd = calloc(zn + slack + 1, 1); __CPROVER_assume(nd != NULL);
  if (g_pb < z->size) nd[g_pb] = z->data[g_pb];
  z->data = nd; z->alloc = zn + slack + 1; z->size = zn;
  return nd + (zn - xn);
}
#endif

#include "util/bloom.c"

/* ================================================================ contracts */
/* bloom_match on arbitrary bytes: total, reads only the filter, writes nothing (the three g_seen_* are the hash stub's
 * ghost record), the two format rules, and the first probe decides */
int c_bloom_match(const ldb_bloom_t *bloom, const ldb_slice_t *filter, const ldb_slice_t *key)
__CPROVER_requires(__CPROVER_r_ok(filter, sizeof(*filter)) && __CPROVER_r_ok(key, sizeof(*key)) && key->data == g_tdata && key->size == g_tsize)
__CPROVER_requires(filter->size <= MAXLEN && (filter->size == 0 || __CPROVER_r_ok(filter->data, filter->size)))
__CPROVER_assigns(g_seen_seed, g_seen_data, g_seen_size, g_seen_ret, g_hash_calls)
__CPROVER_ensures(__CPROVER_return_value == 0 || __CPROVER_return_value == 1)
__CPROVER_ensures(filter->size >= 2 || __CPROVER_return_value == 0)
__CPROVER_ensures(filter->size < 2 || filter->data[filter->size - 1] <= 30 || __CPROVER_return_value == 1)
__CPROVER_ensures(filter->size < 2 || filter->data[filter->size - 1] != 0 || __CPROVER_return_value == 1)
/* a filter with 1 <= k <= 30 whose FIRST probe bit is clear rejects the key */
__CPROVER_ensures(filter->size < 2 || filter->data[filter->size - 1] > 30 || filter->data[filter->size - 1] == 0 ||
                  BIT_SET(filter->data, g_h % ((filter->size - 1) * 8)) || __CPROVER_return_value == 0)
/* the key is hashed at most once, as ldb_hash(key bytes, 0xbc9f1d34) */
__CPROVER_ensures(g_hash_calls <= __CPROVER_old(g_hash_calls) + 1)
__CPROVER_ensures(g_hash_calls == __CPROVER_old(g_hash_calls) || (g_seen_seed == 0xbc9f1d34 && g_seen_data == key->data && g_seen_size == key->size))
;

/* bloom_add: sets the bit of EVERY probe of the key (ghost probe g_j), clears nothing (ghost byte g_b), stays inside
 * the bit array */
void c_bloom_add(const ldb_bloom_t *bloom, uint8_t *data, const ldb_slice_t *key, size_t bits)
__CPROVER_requires(__CPROVER_r_ok(bloom, sizeof(*bloom)) && __CPROVER_r_ok(key, sizeof(*key)) && bloom->k == g_k)
__CPROVER_requires(bits == g_bits && bits >= 8 && bits % 8 == 0 && bits <= MAXLEN && __CPROVER_rw_ok(data, bits / 8 + 1))
__CPROVER_requires(g_b <= bits / 8 && g_pos == (uint32_t)((uint32_t)(g_h + (uint32_t)g_j * g_delta) % bits) && g_delta == ROT17(g_h))
__CPROVER_assigns(__CPROVER_object_from(data), g_seen_seed, g_seen_data, g_seen_size, g_seen_ret, g_hash_calls)
__CPROVER_ensures((data[g_b] & __CPROVER_old(data[g_b])) == __CPROVER_old(data[g_b]))               /* no bit is ever cleared */
__CPROVER_ensures(g_b < bits / 8 || data[g_b] == __CPROVER_old(data[g_b]))                              /* the byte after the bit array (k) is not touched */
__CPROVER_ensures(key->data != g_tdata || key->size != g_tsize || g_j >= g_k || BIT_SET(data, g_pos))                          /* probe j of the tracked key is set */
;

/* ================================================================ blm.size */
void h_size(void) {
  ldb_bloom_t pol; IN_SIZE(in_n); IN_SIZE(in_bpk); size_t bytes, bits;
  ASSUME(in_n <= ((size_t)1 << 32) && in_bpk <= ((size_t)1 << 24));   /* n * bits_per_key does not wrap */
  pol.bits_per_key = in_bpk; pol.k = nondet_size();
  bytes = bloom_size(&pol, in_n);
  bits = in_n * in_bpk; if (bits < 64) bits = 64;
  CHECK(bytes >= 8, "bloom_size: at least 64 bits");
  CHECK(bytes * 8 >= bits && bytes * 8 < bits + 8, "bloom_size: ceil(max(64, n * bits_per_key) / 8) bytes");
  CANARY();
}

/* ================================================================ blm.init */
void h_init(void) {
  ldb_bloom_t pol, *p; IN_INT(in_bpk); size_t want;
  ASSUME(in_bpk >= 0);
  pol.name = NULL; pol.build = NULL; pol.match = NULL; pol.user_policy = &pol; pol.state = &pol;
  ldb_bloom_init(&pol, in_bpk);
  CHECK(pol.k >= 1 && pol.k <= 30, "bloom_init: 1 <= k <= 30");
  /* k = floor(bits_per_key * 0.69) clamped: bits_per_key * 69 is a multiple of 100 only from 100 on, where k is 30 anyway */
  want = in_bpk >= 44 ? 30 : ((size_t)in_bpk * 69) / 100; if (want < 1) want = 1;
  CHECK(pol.k == want, "bloom_init: k == clamp(floor(bits_per_key * 0.69), 1, 30)");
  CHECK(pol.bits_per_key == (size_t)in_bpk, "bloom_init: bits_per_key stored");
  CHECK(pol.build == bloom_build && pol.match == bloom_match && pol.name == ldb_bloom_default->name, "bloom_init: the built-in build / match / name");
  CHECK(pol.user_policy == NULL && pol.state == NULL, "bloom_init: no user policy, no state");
  CHECK(ldb_bloom_default->bits_per_key == 10 && ldb_bloom_default->k == 6 && ldb_bloom_default->build == bloom_build && ldb_bloom_default->match == bloom_match,
        "ldb_bloom_default: 10 bits per key, 6 probes");
  p = ldb_bloom_create(in_bpk);
  CHECK(p != NULL && p->k == pol.k && p->bits_per_key == pol.bits_per_key && p->match == bloom_match && p->build == bloom_build, "bloom_create: a heap policy initialised the same way");
  ldb_bloom_destroy(p);
  CANARY();
}

/* ================================================================ blm.match.any : enforce c_bloom_match, loop contract */
void h_match_any(void) {
  IN_SIZE(in_n); IN_BUF(buf, in_n); SNAP_BUF(buf, in_n);
  ldb_slice_t filter, key; ldb_bloom_t pol; uint8_t kb[4]; size_t kn = nondet_size();
  ASSUME(kn <= 4);
  filter.data = buf; filter.size = in_n; filter.alloc = 0;
  key.data = kb; key.size = kn; key.alloc = 0;
  g_tdata = kb; g_tsize = kn; g_h = nondet_u32(); g_hash_calls = 0;
  (void)bloom_match(&pol, &filter, &key);
  CANARY();
}

/* ================================================================ blm.match.spec : bloom_match == "all k probe bits set" */
void h_match_spec(void) {
  IN_SIZE(in_n); IN_BUF(buf, in_n); SNAP_BUF(buf, in_n);
  ldb_slice_t filter, key; ldb_bloom_t pol; uint8_t kb[1]; int r, want; size_t i, k, bits; uint32_t hh, dd;
  ASSUME(in_n >= 2 && in_n <= MAXLEN && buf[in_n - 1] <= 30);   /* the other cases: blm.match.any */
  filter.data = buf; filter.size = in_n; filter.alloc = 0;
  key.data = kb; key.size = 1; key.alloc = 0;
  g_tdata = kb; g_tsize = 1; g_h = nondet_u32(); g_hash_calls = 0;
  r = bloom_match(&pol, &filter, &key);
  /* the format: k probes at h, h + delta, h + 2 delta, ... (mod 2^32) mod the number of bits */
  k = buf[in_n - 1]; bits = (in_n - 1) * 8; hh = g_h; dd = ROT17(g_h); want = 1;
  for (i = 0; i < 30; i++) if (i < k) { uint32_t pos = hh % bits; if (!BIT_SET(buf, pos)) want = 0; hh += dd; }
  CHECK(r == want, "bloom_match: 1 exactly when the bit of every one of the k probes is set");
  CHECK(g_seen_seed == 0xbc9f1d34 && g_seen_data == kb && g_seen_size == 1, "bloom_match: the key is hashed with seed 0xbc9f1d34");
  CANARY();
}

/* ================================================================ blm.add : enforce c_bloom_add, loop contract (any k) */
void h_add(void) {
  ldb_bloom_t pol; ldb_slice_t key; uint8_t kb[4]; size_t bytes = nondet_size(); uint8_t *data;
  ASSUME(bytes >= 1 && bytes * 8 <= MAXLEN);
  data = malloc(bytes + 1); ASSUME(data != NULL);
  pol.k = nondet_size(); pol.bits_per_key = nondet_size();
  key.data = kb; key.size = nondet_size(); key.alloc = 0; ASSUME(key.size <= 4);
  g_tdata = nondet_int() ? kb : NULL; g_tsize = key.size;   /* the key is the tracked one, or some other key */
  g_h = nondet_u32(); g_delta = ROT17(g_h); g_k = pol.k; g_bits = bytes * 8;
  g_j = nondet_size(); g_b = nondet_size(); ASSUME(g_b <= bytes);
  g_pos = (uint32_t)((uint32_t)(g_h + (uint32_t)g_j * g_delta) % g_bits);
  g_oldb = data[g_b]; g_hash_calls = 0;
  bloom_add(&pol, data, &key, bytes * 8);
  CANARY();
}

/* ================================================================ blm.rt : add then match on the same key => 1 */
void h_rt(void) {
  ldb_bloom_t pol; ldb_slice_t key, filter; uint8_t kb[1]; size_t bytes = nondet_size(), k = nondet_size(), b = nondet_size(); uint8_t *data, oldb; int r;
  ASSUME(bytes >= 1 && bytes * 8 <= MAXLEN && k >= 1 && k <= 30 && b < bytes);   /* 1 <= k <= 30: ldb_bloom_init (blm.init) */
  data = malloc(bytes + 1); ASSUME(data != NULL);       /* arbitrary earlier content: other keys' bits */
  pol.k = k; pol.bits_per_key = nondet_size();
  key.data = kb; key.size = 1; key.alloc = 0;
  g_tdata = kb; g_tsize = 1; g_h = nondet_u32(); g_hash_calls = 0;
  oldb = data[b];
  filter.data = data; filter.size = bytes + 1; filter.alloc = 0;
  bloom_add(&pol, data, &key, (filter.size - 1) * 8);
  data[bytes] = (uint8_t)k;
  CHECK((data[b] & oldb) == oldb, "bloom_add: never clears a bit");
  r = bloom_match(&pol, &filter, &key);
  CHECK(r == 1, "bloom: a key that was added matches - for every filter length, every k in 1..30, every hash value, whatever else is in the filter");
  CANARY();
}

/* ================================================================ blm.build : any number of keys (loop contract, bloom_add by contract) */
void h_build(void) {
  ldb_bloom_t pol; ldb_buffer_t dst; ldb_slice_t *keys; size_t n = nondet_size(), pre = nondet_size(), bytes, bits, old_size; uint8_t *f;
  ASSUME(n <= ((size_t)1 << 24) && pre <= ((size_t)1 << 30));
  pol.bits_per_key = nondet_size(); ASSUME(pol.bits_per_key <= 1024);
  pol.k = nondet_size(); ASSUME(pol.k >= 1 && pol.k <= 30);
  keys = malloc((n + 1) * sizeof(ldb_slice_t)); ASSUME(keys != NULL);
  dst.data = malloc(pre + 1); ASSUME(dst.data != NULL); dst.size = pre; dst.alloc = pre + 1;
  g_n = n; g_keys = keys; g_pol = &pol; g_k = pol.k;
  g_t = nondet_size(); ASSUME(g_t < n + 1);                 /* tracked key (if g_t < n) */
  g_tdata = keys[g_t].data; g_tsize = keys[g_t].size; ASSUME(g_tdata != NULL);
  g_h = nondet_u32(); g_delta = ROT17(g_h); g_j = nondet_size();
  bits = n * pol.bits_per_key; if (bits < 64) bits = 64;
  bytes = (bits + 7) / 8;                                   /* the format's size (bloom_size itself: blm.size) */
  g_bits = bytes * 8;
  g_pos = (uint32_t)((uint32_t)(g_h + (uint32_t)g_j * g_delta) % g_bits);
  g_b = g_pos / 8;                                          /* the byte holding the tracked bit must keep it */
  g_pb = nondet_size(); g_pbv = 0; if (g_pb < pre) g_pbv = dst.data[g_pb];
  g_pre = pre; old_size = dst.size; g_hash_calls = 0;
  bloom_build(&pol, &dst, keys, n);
  CHECK(dst.size == old_size + bytes + 1, "bloom_build: appends ceil(max(64, n * bits_per_key) / 8) bytes of bits and one byte");
  f = dst.data + old_size;
  CHECK(f[bytes] == (uint8_t)pol.k, "bloom_build: the number of probes k is stored in the last byte");
  if (g_pb < pre) CHECK(dst.data[g_pb] == g_pbv, "bloom_build: what dst held before is kept");
  if (g_t < n && g_j < pol.k) CHECK(BIT_SET(f, g_pos), "bloom_build: the bit of every probe (ghost j) of every key (ghost t) is set in the filter");
  CANARY();
}

/* ================================================================ blm.build.b : end to end, <= BLM_NK keys, direct */
#ifndef BLM_NK
#define BLM_NK 2
#endif
void h_build_b(void) {
  ldb_bloom_t pol; ldb_buffer_t dst; ldb_slice_t keys[BLM_NK], filter; uint8_t kb[BLM_NK][1]; size_t n = nondet_size(), pre = nondet_size(), i, t = nondet_size(); int r;
  ASSUME(n <= BLM_NK && pre <= 8 && t < n);
  pol = *ldb_bloom_default;
  pol.bits_per_key = nondet_size(); ASSUME(pol.bits_per_key <= 64);
  pol.k = nondet_size(); ASSUME(pol.k >= 1 && pol.k <= 30);
  for (i = 0; i < BLM_NK; i++) { keys[i].data = kb[i]; keys[i].size = 1; keys[i].alloc = 0; }
  dst.data = malloc(pre + 1); ASSUME(dst.data != NULL); dst.size = pre; dst.alloc = pre + 1;
  g_tdata = kb[t]; g_tsize = 1; g_h = nondet_u32(); g_pb = nondet_size(); g_hash_calls = 0;
  bloom_build(&pol, &dst, keys, n);
  filter.data = dst.data + pre; filter.size = dst.size - pre; filter.alloc = 0;
  r = bloom_match(&pol, &filter, &keys[t]);
  CHECK(r == 1, "bloom: every key passed to build matches the built filter (no false negative)");
  CANARY();
}

/* ================================================================ blm.hash : ldb_hash total, memory-safe, no writes (real hash.c) */
#ifdef BLM_REAL_HASH
const uint8_t *g_hd; size_t g_hn;
#define HM 0xc6a4a793u
uint32_t c_hash(const uint8_t *data, size_t size, uint32_t seed)
__CPROVER_requires(size <= MAXLEN && (size == 0 || __CPROVER_r_ok(data, size)) && data == g_hd && size == g_hn)
__CPROVER_assigns()
/* short keys in closed form (LevelDB util/hash.cc): no 4-byte step, the tail bytes are added little-endian, one mix */
__CPROVER_ensures(size != 0 || __CPROVER_return_value == seed)
__CPROVER_ensures(size != 1 || __CPROVER_return_value == (uint32_t)((((seed ^ HM) + data[0]) * HM) ^ ((uint32_t)(((seed ^ HM) + data[0]) * HM) >> 24)))
__CPROVER_ensures(size != 2 || __CPROVER_return_value == (uint32_t)((((seed ^ (uint32_t)(2 * HM)) + ((uint32_t)data[1] << 8) + data[0]) * HM) ^
                                 ((uint32_t)(((seed ^ (uint32_t)(2 * HM)) + ((uint32_t)data[1] << 8) + data[0]) * HM) >> 24)))
;
void h_hash(void) {
  IN_SIZE(in_n); IN_BUF(buf, in_n); SNAP_BUF(buf, in_n); IN_U32(in_seed);
  g_hd = buf; g_hn = in_n;
  (void)ldb_hash(buf, in_n, in_seed);
  CANARY();
}
/* blm.hash.det : equal bytes in different objects hash equally (bounded length), and the value does not depend on
 * anything else (two calls in different memory states) */
#ifndef BLM_HL
#define BLM_HL 9
#endif
void h_hash_det(void) {
  uint8_t a[BLM_HL], b[BLM_HL + 3]; size_t n = nondet_size(), i; uint32_t seed = nondet_u32(), h1, h2, h3;
  ASSUME(n <= BLM_HL);
  for (i = 0; i < BLM_HL; i++) { a[i] = nondet_u8(); b[i + 3] = a[i]; }
  h1 = ldb_hash(a, n, seed);
  b[0] = nondet_u8(); g_hn = nondet_size();
  h2 = ldb_hash(b + 3, n, seed);
  h3 = ldb_hash(a, n, seed);
  CHECK(h1 == h2 && h1 == h3, "ldb_hash: a function of the key bytes, the length and the seed only");
  CANARY();
}
#endif
