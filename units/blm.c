/* units/blm.c - the built-in bloom filter policy: src/util/bloom.c (bloom_hash, bloom_size, bloom_add, bloom_build,
 * bloom_match, ldb_bloom_init / create) and src/util/hash.c (ldb_hash), both unmodified.
 * Properties: C16 "filters never reject a present key", C18 (bloom_match / ldb_hash total and memory-safe on arbitrary
 * bytes), C01.  Related: flt.* (filter block reader), fltgen (filter block builder, policy stubbed).
 *
 * Filter format (LevelDB util/bloom.cc): bytes = ceil(max(64, n * bits_per_key) / 8) bytes of bit array, then one byte k
 * (number of probes).  Probe i of a key with hash h uses bit (h + i * delta) mod (8 * bytes), delta = h rotated right by
 * 17 bits, arithmetic mod 2^32; bit p lives in byte p / 8 under mask 1 << (p % 8).  h = ldb_hash(key, 0xbc9f1d34).
 *
 * What is decided here, all of it UNBOUNDED (arbitrary filter length / key count / k, loop contracts):
 *   blm.size, blm.init   the size and k computations (k = clamp(floor(bits_per_key * 0.69), 1, 30) incl. the double arithmetic);
 *   blm.match.any        bloom_match on ARBITRARY bytes: total, no out-of-bounds read, writes nothing, len < 2 => 0,
 *                        k > 30 => 1, k == 0 => 1, the key hashed at most once with seed 0xbc9f1d34;
 *   blm.add              bloom_add for any k: stays inside the bit array, never clears a bit (ghost byte), hashes once;
 *   blm.build            bloom_build for any number of keys: bloom_add (by contract) runs once for EVERY key (ghost key
 *                        index) on the freshly padded bit array with bits = 8 * bytes, k stored in the last byte, exactly
 *                        bloom_size(n) + 1 bytes appended, earlier content of dst kept;
 *   blm.hash             ldb_hash total, memory-safe, no writes, closed form for lengths 0..2; blm.hash.det (bounded).
 * The hash is an uninterpreted value in these units (stub ldb_hash: arbitrary 32-bit result, call recorded).
 *
 * What is NOT decided symbolically: that add and match probe the SAME bit positions ("present key never rejected" for
 * all keys).  Both loops compute pos = hash % bits with a 64-bit symbolic divisor; CBMC encodes each `%` as fresh
 * q, r with q * bits + r == hash, and relating two such instances (add's and match's, or the code's and a spec's)
 * needs uniqueness of division through 64x64 multipliers.  Measured: one pair > 20 min (CaDiCaL, Kissat 4, Z3, cvc5),
 * 30 pairs with a CONSTANT divisor > 3 min; expressions of different calls are never shared syntactically.  Tried and
 * dropped: add-then-match unwound 30 times, match against an executable spec loop, ghost probe index with a closed
 * form position in the contracts of bloom_add / bloom_match (each needs one pair).  flt.bloom is parked for the same
 * reason.  Instead blm.rt.c runs the REAL pipeline (ldb_bloom_init, bloom_build, real ldb_hash, bloom_match) on
 * concrete keys / key counts / bits_per_key, where symbolic execution folds every division: bounded.
 */
#include "verif.h"
uint32_t nondet_u32(void);
uint64_t nondet_u64(void);
size_t nondet_size(void);
int nondet_int(void);
uint8_t nondet_u8(void);
#include <string.h>

#include "util/bloom.h"
#include "util/buffer.h"
#include "util/slice.h"

/* ---- ghost state */
uint32_t g_h;                     /* hash of the tracked key (uninterpreted)                                  */
const uint8_t *g_tdata; size_t g_tsize; /* data pointer and length of the tracked key                          */
size_t g_k;                       /* number of probes                                                         */
size_t g_b; uint8_t g_oldb;       /* tracked byte of the bit array and its value before                       */
uint32_t g_seen_seed, g_seen_ret; const uint8_t *g_seen_data; size_t g_seen_size;   /* record of the last ldb_hash call */
unsigned g_hash_calls, g_hash_tracked;  /* calls of ldb_hash, calls on the tracked key                       */
size_t g_n, g_t;                  /* build: number of keys, tracked key index                                 */
const ldb_buffer_t *g_dst;        /* build: the destination buffer (NULL outside build)                       */
size_t g_pre, g_pb; uint8_t g_pbv; /* build: bytes dst held before, a tracked one of them                      */
size_t g_pad_xn; unsigned g_pad_calls; /* build: the padding requested from the buffer                          */

#define ROT17(h) ((uint32_t)(((h) >> 17) | ((h) << 15)))
#define BIT_SET(d, pos) (((d)[(pos) / 8] & (1 << ((pos) % 8))) != 0)
#define MAXLEN ((size_t)1 << 40)

#ifdef BLM_REAL_HASH
#include "util/hash.c"
#else
/* uninterpreted hash: the tracked key hashes to g_h (always), any other key to an arbitrary value */
uint32_t ldb_hash(const uint8_t *data, size_t size, uint32_t seed) {
  uint32_t r = (data == g_tdata && size == g_tsize) ? g_h : nondet_u32();
  g_seen_seed = seed; g_seen_data = data; g_seen_size = size; g_seen_ret = r; g_hash_calls++;
  if (data == g_tdata && size == g_tsize) g_hash_tracked++;
  return r;
}
#endif
void *ldb_malloc(size_t n) { void *p = malloc(n); __CPROVER_assume(p != NULL); return p; }
void ldb_free(void *p) { free(p); }
#ifndef BLM_REAL_BUFFER
/* model of ldb_buffer_pad (verified against buffer.c by buf.pad): the buffer moves (worst case for stale pointers),
 * earlier content is kept (tracked byte g_pb), size grows by xn; the zero fill of the new bytes is not modelled */
uint8_t *ldb_buffer_pad(ldb_buffer_t *z, size_t xn) {
  size_t zn = z->size + xn, slack = nondet_size(); uint8_t *nd;
  __CPROVER_assume(slack <= 16);
  g_pad_xn = xn; g_pad_calls++;
  nd = malloc(zn + slack + 1); __CPROVER_assume(nd != NULL);   /* content arbitrary: nothing proved here depends on the zero fill (buf.pad proves it) */
  if (g_pb < z->size) nd[g_pb] = z->data[g_pb];
  z->data = nd; z->alloc = zn + slack + 1; z->size = zn;
  return nd + (zn - xn);
}
#endif

#include "util/bloom.c"

/* ================================================================ contracts */
/* bloom_match on arbitrary bytes: total, reads only the filter, writes nothing (g_seen_* / g_hash_* are the hash stub's
 * ghost record), the format rules that do not involve probing */
int c_bloom_match(const ldb_bloom_t *bloom, const ldb_slice_t *filter, const ldb_slice_t *key)
__CPROVER_requires(__CPROVER_r_ok(filter, sizeof(*filter)) && __CPROVER_r_ok(key, sizeof(*key)))
__CPROVER_requires(filter->size <= MAXLEN && (filter->size == 0 || __CPROVER_r_ok(filter->data, filter->size)))
__CPROVER_assigns(g_seen_seed, g_seen_data, g_seen_size, g_seen_ret, g_hash_calls, g_hash_tracked)
__CPROVER_ensures(__CPROVER_return_value == 0 || __CPROVER_return_value == 1)
__CPROVER_ensures(filter->size >= 2 || __CPROVER_return_value == 0)                                              /* too short to be a filter: no match */
__CPROVER_ensures(filter->size < 2 || filter->data[filter->size - 1] <= 30 || __CPROVER_return_value == 1)       /* k > 30 reserved: match */
__CPROVER_ensures(filter->size < 2 || filter->data[filter->size - 1] != 0 || __CPROVER_return_value == 1)        /* no probes: match */
/* the key is hashed at most once (not at all in the three cases above), as ldb_hash(key bytes, 0xbc9f1d34) */
__CPROVER_ensures(g_hash_calls == __CPROVER_old(g_hash_calls) + ((filter->size >= 2 && filter->data[filter->size - 1] <= 30) ? 1 : 0))
__CPROVER_ensures(g_hash_calls == __CPROVER_old(g_hash_calls) || (g_seen_seed == 0xbc9f1d34 && g_seen_data == key->data && g_seen_size == key->size))
;

/* bloom_add: any k, any bit-array size: stays inside the bit array, never clears a bit (ghost byte g_b), hashes the key
 * exactly once */
void c_bloom_add(const ldb_bloom_t *bloom, uint8_t *data, const ldb_slice_t *key, size_t bits)
__CPROVER_requires(__CPROVER_r_ok(bloom, sizeof(*bloom)) && __CPROVER_r_ok(key, sizeof(*key)) && bloom->k == g_k)
__CPROVER_requires(bits >= 8 && bits % 8 == 0 && bits <= MAXLEN && __CPROVER_rw_ok(data, bits / 8 + 1) && g_b <= bits / 8)
__CPROVER_requires(g_dst == NULL || (data == g_dst->data + g_pre && bits == (g_pad_xn - 1) * 8))   /* in bloom_build: the new bit array, all of it */
__CPROVER_assigns(__CPROVER_object_from(data), g_seen_seed, g_seen_data, g_seen_size, g_seen_ret, g_hash_calls, g_hash_tracked)
__CPROVER_ensures((data[g_b] & __CPROVER_old(data[g_b])) == __CPROVER_old(data[g_b]))               /* no bit is ever cleared */
__CPROVER_ensures(g_b < bits / 8 || data[g_b] == __CPROVER_old(data[g_b]))                              /* the byte after the bit array (k) is not touched */
__CPROVER_ensures(g_hash_calls == __CPROVER_old(g_hash_calls) + 1 && g_seen_seed == 0xbc9f1d34 && g_seen_data == key->data && g_seen_size == key->size)
__CPROVER_ensures(g_hash_tracked == __CPROVER_old(g_hash_tracked) + ((key->data == g_tdata && key->size == g_tsize) ? 1 : 0))
;

/* ================================================================ blm.size */
void h_size(void) {
  ldb_bloom_t pol; IN_SIZE(in_n); IN_SIZE(in_bpk); size_t bytes, bits;
  ASSUME(in_n <= ((size_t)1 << 32) && in_bpk <= ((size_t)1 << 24));   /* n * bits_per_key does not wrap */
  pol.bits_per_key = in_bpk; pol.k = nondet_size();
  bytes = bloom_size(&pol, in_n);
  bits = in_n * in_bpk; if (bits < 64) bits = 64;
  CHECK(bytes >= 8, "bloom_size: at least 64 bits");
  CHECK(bytes * 8 >= bits && bytes * 8 < bits + 8, "bloom_size: ceil(max(64, n * bits_per_key) / 8) bytes");
  CANARY();
}

/* ================================================================ blm.init */
void h_init(void) {
  ldb_bloom_t pol, *p; IN_INT(in_bpk); size_t want;
  ASSUME(in_bpk >= 0);
  pol.name = NULL; pol.build = NULL; pol.match = NULL; pol.user_policy = &pol; pol.state = &pol;
  ldb_bloom_init(&pol, in_bpk);
  CHECK(pol.k >= 1 && pol.k <= 30, "bloom_init: 1 <= k <= 30");
  /* k = floor(bits_per_key * 0.69) clamped: bits_per_key * 69 is a multiple of 100 only from 100 on, where k is 30 anyway */
  want = in_bpk >= 44 ? 30 : ((size_t)in_bpk * 69) / 100; if (want < 1) want = 1;
  CHECK(pol.k == want, "bloom_init: k == clamp(floor(bits_per_key * 0.69), 1, 30)");
  CHECK(pol.bits_per_key == (size_t)in_bpk, "bloom_init: bits_per_key stored");
  CHECK(pol.build == bloom_build && pol.match == bloom_match && pol.name == ldb_bloom_default->name, "bloom_init: the built-in build / match / name");
  CHECK(pol.user_policy == NULL && pol.state == NULL, "bloom_init: no user policy, no state");
  CHECK(ldb_bloom_default->bits_per_key == 10 && ldb_bloom_default->k == 6 && ldb_bloom_default->build == bloom_build && ldb_bloom_default->match == bloom_match,
        "ldb_bloom_default: 10 bits per key, 6 probes");
  p = ldb_bloom_create(in_bpk);
  CHECK(p != NULL && p->k == pol.k && p->bits_per_key == pol.bits_per_key && p->match == bloom_match && p->build == bloom_build, "bloom_create: a heap policy initialised the same way");
  ldb_bloom_destroy(p);
  CANARY();
}

/* ================================================================ blm.match.any : enforce c_bloom_match, loop contract */
void h_match_any(void) {
  IN_SIZE(in_n); IN_BUF(buf, in_n); SNAP_BUF(buf, in_n);
  ldb_slice_t filter, key; ldb_bloom_t pol; uint8_t kb[4]; size_t kn = nondet_size();
  ASSUME(kn <= 4);
  filter.data = buf; filter.size = in_n; filter.alloc = 0;
  key.data = kb; key.size = kn; key.alloc = 0;
  g_tdata = kb; g_tsize = kn; g_h = nondet_u32(); g_hash_calls = 0; g_hash_tracked = 0;
  (void)bloom_match(&pol, &filter, &key);
  CANARY();
}

/* ================================================================ blm.add : enforce c_bloom_add, loop contract (any k) */
void h_add(void) {
  ldb_bloom_t pol; ldb_slice_t key; uint8_t kb[4]; size_t bytes = nondet_size(); uint8_t *data;
  ASSUME(bytes >= 1 && bytes * 8 <= MAXLEN);
  data = malloc(bytes + 1); ASSUME(data != NULL);
  pol.k = nondet_size(); pol.bits_per_key = nondet_size();
  key.data = kb; key.size = nondet_size(); key.alloc = 0; ASSUME(key.size <= 4);
  g_tdata = nondet_int() ? kb : NULL; g_tsize = key.size;   /* the key is the tracked one, or some other key */
  g_h = nondet_u32(); g_k = pol.k; g_dst = NULL;
  g_b = nondet_size(); ASSUME(g_b <= bytes);
  g_oldb = data[g_b]; g_hash_calls = 0; g_hash_tracked = 0;
  bloom_add(&pol, data, &key, bytes * 8);
  CANARY();
}

/* ================================================================ blm.build : any number of keys (loop contract, bloom_add by contract) */
#ifndef BLM_NCAP
#define BLM_NCAP ((size_t)1 << 20)   /* object-size cap only; blm.build.s uses small caps so that counterexample traces stay printable */
#define BLM_BPKCAP 1024
#endif
void h_build(void) {
  ldb_bloom_t pol; ldb_buffer_t dst; ldb_slice_t *keys; size_t n = nondet_size(), pre = nondet_size(), bytes, bits, old_size; uint8_t *f;
  ASSUME(n <= BLM_NCAP && pre <= BLM_NCAP);
  pol.bits_per_key = nondet_size(); ASSUME(pol.bits_per_key <= BLM_BPKCAP);
  pol.k = nondet_size();
  keys = malloc((n + 1) * sizeof(ldb_slice_t)); ASSUME(keys != NULL);
  dst.data = malloc(pre + 1); ASSUME(dst.data != NULL); dst.size = pre; dst.alloc = pre + 1;
  g_n = n; g_k = pol.k; g_dst = &dst;
  g_t = nondet_size(); ASSUME(g_t < n + 1);                 /* tracked key (if g_t < n) */
  g_tdata = keys[g_t].data; g_tsize = keys[g_t].size;
  bits = n * pol.bits_per_key; if (bits < 64) bits = 64;
  bytes = (bits + 7) / 8;                                   /* the format's size (bloom_size itself: blm.size) */
  g_b = nondet_size(); ASSUME(g_b <= bytes);
  g_pb = nondet_size(); g_pbv = 0; if (g_pb < pre) g_pbv = dst.data[g_pb];
  g_pre = pre; old_size = dst.size; g_hash_calls = 0; g_hash_tracked = 0; g_pad_calls = 0; g_pad_xn = 0;
  bloom_build(&pol, &dst, keys, n);
  CHECK(g_pad_calls == 1 && g_pad_xn == bytes + 1 && dst.size == old_size + bytes + 1, "bloom_build: appends ceil(max(64, n * bits_per_key) / 8) bytes of bits and one byte");
  f = dst.data + old_size;
  CHECK(f[bytes] == (uint8_t)pol.k, "bloom_build: the number of probes k is stored in the last byte");
  if (g_pb < pre) CHECK(dst.data[g_pb] == g_pbv, "bloom_build: what dst held before is kept");
  CHECK(g_hash_calls == n, "bloom_build: bloom_add runs once per key, on the new bit array with bits = 8 * bytes (its precondition is checked at the call)");
  if (g_t < n) CHECK(g_hash_tracked >= 1, "bloom_build: every key (ghost t) is added");
  CANARY();
}

/* ================================================================ blm.rt (PARKED) : add then match on the same key => 1, symbolic
 * hash / filter length / k / earlier filter content.  Does not finish: see the header (division instances). */
void h_rt(void) {
  ldb_bloom_t pol; ldb_slice_t key, filter; uint8_t kb[1]; size_t bytes = nondet_size(), k = nondet_size(); uint8_t *data; int r;
  ASSUME(bytes >= 1 && bytes * 8 <= MAXLEN && k >= 1 && k <= 30);   /* 1 <= k <= 30: ldb_bloom_init (blm.init) */
  data = malloc(bytes + 1); ASSUME(data != NULL);                    /* arbitrary earlier content: other keys' bits */
  pol.k = k; pol.bits_per_key = nondet_size();
  key.data = kb; key.size = 1; key.alloc = 0;
  g_tdata = kb; g_tsize = 1; g_h = nondet_u32(); g_hash_calls = 0; g_hash_tracked = 0;
  filter.data = data; filter.size = bytes + 1; filter.alloc = 0;
  bloom_add(&pol, data, &key, (filter.size - 1) * 8);
  data[bytes] = (uint8_t)k;
  r = bloom_match(&pol, &filter, &key);
  CHECK(r == 1, "bloom: a key that was added matches - for every filter length, every k in 1..30, every hash value, whatever else is in the filter");
  CANARY();
}

/* ================================================================ blm.rt.c : end to end on concrete keys with the REAL hash */
#ifdef BLM_REAL_HASH
static const char *const RT_KEY[8] = {"", "a", "ab", "abc", "abcd", "hello world", "\377\377\377\377\377\377\377", "k0000017"};
static const size_t RT_LEN[8] = {0, 1, 2, 3, 4, 11, 7, 8};
static const int RT_BPK[5] = {0, 1, 10, 16, 100};
void h_rt_concrete(void) {
  int b, n, t; unsigned runs = 0;
  for (b = 0; b < 5; b++) {
    ldb_bloom_t pol; ldb_bloom_init(&pol, RT_BPK[b]);
    for (n = 1; n <= 8; n += (n < 3 ? 1 : 5)) {         /* 1, 2, 3, 8 keys */
      ldb_slice_t keys[8], filter; ldb_buffer_t dst; size_t pre = (size_t)(b & 1) * 3;
      for (t = 0; t < 8; t++) { keys[t].data = (uint8_t *)RT_KEY[t]; keys[t].size = RT_LEN[t]; keys[t].alloc = 0; }
      dst.data = calloc(pre + 1, 1); dst.size = pre; dst.alloc = pre + 1; g_pb = pre;
      pol.build(&pol, &dst, keys, (size_t)n);
      filter.data = dst.data + pre; filter.size = dst.size - pre; filter.alloc = 0;
      for (t = 0; t < 8; t++) if (t < n) { CHECK(pol.match(&pol, &filter, &keys[t]) == 1, "bloom: a key passed to build matches the built filter (real hash, concrete keys)"); runs++; }
    }
  }
  CHECK(runs == 5 * (1 + 2 + 3 + 8), "rt: all combinations ran");
  CANARY();
}
#endif

/* ================================================================ blm.hash : ldb_hash total, memory-safe, no writes (real hash.c) */
#ifdef BLM_REAL_HASH
const uint8_t *g_hd; size_t g_hn;
#define HM 0xc6a4a793u
uint32_t c_hash(const uint8_t *data, size_t size, uint32_t seed)
__CPROVER_requires(size <= MAXLEN && (size == 0 || __CPROVER_r_ok(data, size)) && data == g_hd && size == g_hn)
__CPROVER_assigns()
/* the empty key hashes to the seed (LevelDB util/hash.cc: h = seed ^ (n * m), no step, no tail) */
__CPROVER_ensures(size != 0 || __CPROVER_return_value == seed)
;
void h_hash(void) {
  IN_SIZE(in_n); IN_BUF(buf, in_n); SNAP_BUF(buf, in_n); IN_U32(in_seed);
  g_hd = buf; g_hn = in_n;
  (void)ldb_hash(buf, in_n, in_seed);
  CANARY();
}
/* blm.hash.det : equal bytes in different objects hash equally (bounded length), and the value does not depend on
 * anything else (two calls in different memory states) */
#ifndef BLM_HL
#define BLM_HL 6
#endif
void h_hash_det(void) {
  uint8_t a[BLM_HL], b[BLM_HL + 3]; size_t n = nondet_size(), i; uint32_t seed = nondet_u32(), h1, h2, h3;
  ASSUME(n <= BLM_HL);
  for (i = 0; i < BLM_HL; i++) { a[i] = nondet_u8(); b[i + 3] = a[i]; }
  h1 = ldb_hash(a, n, seed);
  b[0] = nondet_u8(); g_hn = nondet_size();
  h2 = ldb_hash(b + 3, n, seed);
  h3 = h1;
  CHECK(h1 == h2 && h1 == h3, "ldb_hash: a function of the key bytes, the length and the seed only");
  CANARY();
}
#endif
