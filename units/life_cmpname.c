/* units/life_cmpname.c - comparator-name check of ldb_versions_recover (src/version_set.c)      C20
 *   life.cmpname : a MANIFEST edit that names a comparator other than the one the handle was opened with
 *                  => LDB_INVALID, that edit is not applied, no version is installed, the counters stay
 *                  untouched and nothing on disk is created, reopened for writing, renamed or removed.
 *
 * The real version_set.c is included unmodified.  BOUNDED: the MANIFEST holds at most two records (each decodes
 * to an arbitrary edit; the reader may report damage at any call).  The general, unbounded recovery proof is
 * ver.recover (units/vrec.c); this unit pins the status code, the operands of the comparison and "nothing is
 * modified".  Builder / version construction are the frame contracts of trusted.json.
 */
#include "verif.h"
int nondet_int(void);
uint64_t nondet_u64(void);
size_t nondet_size(void);

#include "version_set.c"

struct cmp_ghost {
  unsigned recs_left, reads, imports, applies, eq_calls, damage_reports;
  int names_equal[2];          /* per record: does the stored name equal the handle's comparator name */
  int has_cmp[2];
  int mismatch_seen; unsigned applies_at_mismatch; unsigned mismatch_idx;
  int import_fail;
  int installed;
  unsigned write_opens, writer_creates, removes, renames, syncs, appends;
  int current_rc, seq_rc; unsigned rfile_destroys;
} CG;
struct ldb_rfile_s { int dummy; } g_rfile_obj;
struct ldb_wfile_s { int dummy; } g_wfile_obj;
static ldb_writer_t g_writer_obj;
static char g_cmpname[2];
static ldb_comparator_t g_ucmp;
static ldb_dbopt_t g_opts;
static ldb_version_t g_version_obj;
static char g_curbuf[24];

/* CURRENT */
int ldb_current_filename(char *buf, size_t size, const char *dbname) { buf[0] = 'C'; buf[1] = 0; return 1; }
int ldb_read_file(const char *fname, ldb_buffer_t *data) {
  size_t n;
  CG.current_rc = nondet_int();
  if (CG.current_rc != LDB_OK) return CG.current_rc;
  n = nondet_size(); __CPROVER_assume(n <= sizeof(g_curbuf));
  data->data = (uint8_t *)g_curbuf; data->size = n; data->alloc = sizeof(g_curbuf);
  return LDB_OK;
}
void ldb_buffer_init(ldb_buffer_t *z) { z->data = NULL; z->size = 0; z->alloc = 0; }
void ldb_buffer_clear(ldb_buffer_t *z) { }
int ldb_join(char *zp, size_t zn, const char *xp, const char *yp) { zp[0] = 'J'; zp[1] = 0; return nondet_int() ? 1 : 0; }
void ldb_log(ldb_logger_t *logger, const char *fmt, ...) { }
const char *ldb_strerror(int code) { return "e"; }
/* a string slice is identified by the string it was made from */
ldb_slice_t ldb_string(const char *xp) { ldb_slice_t s; s.data = (uint8_t *)xp; s.size = 1; s.alloc = 0; return s; }

int ldb_seqfile_create(const char *filename, ldb_rfile_t **file) { CG.seq_rc = nondet_int(); if (CG.seq_rc == LDB_OK) *file = &g_rfile_obj; return CG.seq_rc; }
void ldb_rfile_destroy(ldb_rfile_t *file) { CG.rfile_destroys++; }
void ldb_reader_init(ldb_reader_t *lr, ldb_rfile_t *file, ldb_reporter_t *reporter, int checksum, uint64_t initial_offset) { lr->reporter = reporter; lr->last_end = 0; }
void ldb_reader_clear(ldb_reader_t *lr) { }
int ldb_reader_read_record(ldb_reader_t *lr, ldb_slice_t *record, ldb_buffer_t *scratch) {
  if (nondet_int()) { CG.damage_reports++; report_corruption(lr->reporter, nondet_size(), LDB_CORRUPTION); }
  if (CG.recs_left == 0) return 0;
  CG.recs_left--; CG.reads++;
  lr->last_end += 7;
  return 1;
}
void ldb_slice_init(ldb_slice_t *z) { z->data = NULL; z->size = 0; z->alloc = 0; }
void ldb_edit_init(ldb_edit_t *e) { e->has_comparator = e->has_log_number = e->has_prev_log_number = e->has_next_file_number = e->has_last_sequence = 0; }
void ldb_edit_clear(ldb_edit_t *e) { }
int ldb_edit_import(ldb_edit_t *e, const ldb_slice_t *src) {
  unsigned k = CG.imports++;
  __CPROVER_assert(k < 2, "at most two records");
  if (nondet_int()) { CG.import_fail = 1; return 0; }
  e->has_comparator = CG.has_cmp[k];
  e->has_log_number = nondet_int() ? 1 : 0; e->log_number = nondet_u64();
  e->has_prev_log_number = nondet_int() ? 1 : 0; e->prev_log_number = nondet_u64();
  e->has_next_file_number = nondet_int() ? 1 : 0; e->next_file_number = nondet_u64();
  e->has_last_sequence = nondet_int() ? 1 : 0; e->last_sequence = nondet_u64();
  __CPROVER_assume(e->log_number < (1ull << 62) && e->prev_log_number < (1ull << 62) && e->next_file_number < (1ull << 62));
  return 1;
}
int ldb_slice_equal(const ldb_slice_t *x, const ldb_slice_t *y) {
  unsigned k = CG.imports - 1;
  /* what is compared: the name stored in the edit against the name of the handle's USER comparator */
  __CPROVER_assert(y->data == (const uint8_t *)g_cmpname || x->data == (const uint8_t *)g_cmpname, "one operand is the name of the handle's user comparator");
  CG.eq_calls++;
  if (!CG.names_equal[k] && !CG.mismatch_seen) { CG.mismatch_seen = 1; CG.applies_at_mismatch = CG.applies; CG.mismatch_idx = k; }
  return CG.names_equal[k];
}

/* anything that would modify the directory */
const char *ldb_basename(const char *fname) { return fname; }
int ldb_parse_filename(ldb_filetype_t *type, uint64_t *num, const char *name) { if (nondet_int()) { *type = (ldb_filetype_t)(nondet_int() & 7); *num = nondet_u64(); return 1; } return 0; }
int ldb_file_size(const char *filename, uint64_t *size) { int rc = nondet_int(); if (rc == LDB_OK) *size = nondet_u64(); return rc; }
int ldb_appendfile_create(const char *filename, ldb_wfile_t **file) { int rc = nondet_int(); CG.write_opens++; if (rc == LDB_OK) *file = &g_wfile_obj; return rc; }
int ldb_truncfile_create(const char *filename, ldb_wfile_t **file) { int rc = nondet_int(); CG.write_opens++; if (rc == LDB_OK) *file = &g_wfile_obj; return rc; }
ldb_writer_t *ldb_writer_create(ldb_wfile_t *file, uint64_t length) { CG.writer_creates++; return &g_writer_obj; }
int ldb_remove_file(const char *filename) { CG.removes++; return nondet_int(); }
int ldb_rename_file(const char *from, const char *to) { CG.renames++; return nondet_int(); }
int ldb_set_current_file(const char *dbname, uint64_t n) { CG.renames++; return nondet_int(); }
int ldb_wfile_sync(ldb_wfile_t *f) { CG.syncs++; return nondet_int(); }
int ldb_writer_add_record(ldb_writer_t *lw, const ldb_slice_t *s) { CG.appends++; return nondet_int(); }

/* frame contracts (trusted.json) */
ldb_version_t *c_version_create(ldb_versions_t *vset) __CPROVER_requires(1) __CPROVER_assigns() __CPROVER_ensures(__CPROVER_return_value == &g_version_obj);
void c_builder_init(builder_t *b, ldb_versions_t *vset, ldb_version_t *base) __CPROVER_requires(1) __CPROVER_assigns(*b) __CPROVER_ensures(1);
void c_builder_apply(builder_t *b, const ldb_edit_t *edit) __CPROVER_requires(1) __CPROVER_assigns(*b, CG.applies) __CPROVER_ensures(CG.applies == __CPROVER_old(CG.applies) + 1);
void c_builder_save_to(builder_t *b, ldb_version_t *v) __CPROVER_requires(1) __CPROVER_assigns() __CPROVER_ensures(1);
void c_builder_clear(builder_t *b) __CPROVER_requires(1) __CPROVER_assigns(*b) __CPROVER_ensures(1);
void c_versions_finalize(ldb_versions_t *vset, ldb_version_t *v) __CPROVER_requires(1) __CPROVER_assigns() __CPROVER_ensures(1);
void c_versions_append_version(ldb_versions_t *vset, ldb_version_t *v)
__CPROVER_requires(v == &g_version_obj)
__CPROVER_assigns(vset->current, CG.installed)
__CPROVER_ensures(CG.installed == 1 && vset->current == v)
;

void h_cmpname(void) {
  ldb_versions_t *vs = malloc(sizeof(*vs));
  int save_manifest = 0, rc;
  ldb_version_t *cur0; uint64_t next0, mfn0, seq0, log0, prev0;
  __CPROVER_assume(vs != NULL);
  vs->options = &g_opts; vs->dbname = "d";
  g_cmpname[0] = 'c'; g_cmpname[1] = 0; g_ucmp.name = g_cmpname; vs->icmp.user_comparator = &g_ucmp;
  vs->icmp.name = "leveldb.InternalKeyComparator";
  vs->descriptor_file = NULL; vs->descriptor_log = NULL;
  __CPROVER_assume(g_opts.reuse_logs == 0 || g_opts.reuse_logs == 1);
  __CPROVER_assume(vs->next_file_number < (1ull << 62));
  __CPROVER_assume(CG.recs_left <= 2);
  __CPROVER_assume((CG.names_equal[0] == 0 || CG.names_equal[0] == 1) && (CG.names_equal[1] == 0 || CG.names_equal[1] == 1) && (CG.has_cmp[0] == 0 || CG.has_cmp[0] == 1) && (CG.has_cmp[1] == 0 || CG.has_cmp[1] == 1));
  CG.reads = CG.imports = CG.applies = CG.eq_calls = CG.damage_reports = 0; CG.mismatch_seen = 0; CG.import_fail = 0; CG.installed = 0;
  CG.write_opens = CG.writer_creates = CG.removes = CG.renames = CG.syncs = CG.appends = 0; CG.rfile_destroys = 0;
  cur0 = vs->current; next0 = vs->next_file_number; mfn0 = vs->manifest_file_number; seq0 = vs->last_sequence; log0 = vs->log_number; prev0 = vs->prev_log_number;

  rc = ldb_versions_recover(vs, &save_manifest);

  if (CG.mismatch_seen) {
    CHECK(rc != LDB_OK, "an edit naming a different comparator: the open is refused");
    CHECK(rc == LDB_INVALID || CG.damage_reports > 0, "comparator mismatch is reported as LDB_INVALID (unless MANIFEST damage is reported on top of it)");
    CHECK(CG.applies == CG.applies_at_mismatch && CG.imports == CG.mismatch_idx + 1, "the mismatching edit is not applied and no later record is decoded");
    CHECK(!CG.installed && vs->current == cur0 && save_manifest == 0, "comparator mismatch: no version is installed, no new MANIFEST is requested");
    CHECK(vs->next_file_number == next0 && vs->manifest_file_number == mfn0 && vs->last_sequence == seq0 && vs->log_number == log0 && vs->prev_log_number == prev0, "comparator mismatch: all counters untouched (the allocator is not even marked)");
    CHECK(CG.write_opens == 0 && CG.writer_creates == 0 && CG.removes == 0 && CG.renames == 0 && CG.syncs == 0 && CG.appends == 0, "comparator mismatch: nothing on disk is created, opened for writing, renamed or removed");
    CHECK(vs->descriptor_file == NULL && vs->descriptor_log == NULL, "comparator mismatch: the MANIFEST is not adopted as descriptor log");
    CHECK(CG.rfile_destroys == 1, "the MANIFEST reader's file is released");
  }
  /* every edit that carries a comparator name is compared (no record slips through unchecked) */
  if (rc == LDB_OK) {
    CHECK(!CG.mismatch_seen && !CG.import_fail, "OK only without mismatch");
    CHECK(CG.eq_calls == (unsigned)((CG.imports > 0 && CG.has_cmp[0]) ? 1 : 0) + (unsigned)((CG.imports > 1 && CG.has_cmp[1]) ? 1 : 0), "OK: every decoded edit that names a comparator was compared with the handle's comparator");
  }
  CANARY();
}
