/* units/veru_in.c - ldb_version_get_overlapping_inputs on a level of ANY length (group "veru")
 *   ver.inputs.sorted.u   level > 0: every file whose range intersects [begin, end] is returned exactly once, in list
 *                         order, and no other file
 *   ver2.inputs_l0.u      level 0 with the "range grew, restart" logic: the result is exactly the set of files that overlap
 *                         the FINAL range; the final range contains the requested range and every chosen file (closed under
 *                         expansion) and each of its bounds is the requested bound or the start / limit key of a chosen
 *                         file (least fixpoint); termination by a lexicographic decreases clause
 * One loop contract (loops/veru.json, ldb_version_get_overlapping_inputs.0) serves both.
 *
 * The current range [user_begin, user_end] is local to the function.  Its ghost mirror g_xb / g_xe is maintained by the
 * ldb_vector_reset model ("the restart adopted the left operand of the comparison that triggered it") and VERIFIED by the
 * loop invariant  g_xb == user_begin.size && g_xe == user_end.size  (a wrong mirror is a failed invariant, never an assumption).
 */
#include "units/veru_model.h"

#define BEGIN_PTR (g_has_lo ? &g_bk : (const ldb_ikey_t *)NULL)
#define END_PTR (g_has_hi ? &g_ek : (const ldb_ikey_t *)NULL)
/* file f overlaps the current range (closed, on user ranks) */
#define OVX(f) (!(g_has_lo && g_xb > LU(f)) && !(g_has_hi && g_xe < SU(f)))
#define INSIDE(f) ((!g_has_lo || SU(f) >= g_xb) && (!g_has_hi || LU(f) <= g_xe))

static void icmp_hook(const ldb_slice_t *x, const ldb_slice_t *y, int res) { (void)x; (void)y; (void)res; }
static void push_hook(const void *x) { (void)x; }
static void push_other_hook(void) {
  __CPROVER_assert(OVX(g_fo), "get_overlapping_inputs: a file is added only if it overlaps the current range (none other)");
}
void ldb_vector_reset(ldb_vector_t *z) {
  __CPROVER_assert(z == g_vec, "only the result vector is reset");
  z->length = 0; g_pk = 0; g_pj = 0; g_resets++;
  /* restart: the code adopts the start (limit) key it has just found to lie before (after) the range */
  if (g_last_res < 0 && (g_last_x == TOK_KS || g_last_x == TOK_JS || g_last_x == TOK_OS)) { g_xb = g_last_xsize; g_xb_tok = g_last_x; }
  else if (g_last_res > 0 && (g_last_x == TOK_KL || g_last_x == TOK_JL || g_last_x == TOK_OL)) { g_xe = g_last_xsize; g_xe_tok = g_last_x; }
}

#define MEMBER_K (g_pk == 1)
#define MEMBER_J (g_pj == 1)
void c_get_overlapping_inputs_u(ldb_version_t *ver, int level, const ldb_ikey_t *begin, const ldb_ikey_t *end, ldb_vector_t *inputs)
__CPROVER_requires(ver == &g_ver && level == g_lvl && g_lvl >= 0 && g_lvl < LDB_NUM_LEVELS && begin == BEGIN_PTR && end == END_PTR && inputs == &g_inputs && g_vec == &g_inputs)
__CPROVER_requires(g_ver.files[g_lvl].length == g_n && g_n <= NMAX && g_k < g_j && g_j <= g_n)
__CPROVER_requires(g_inputs.alloc > g_n && __CPROVER_rw_ok(g_inputs.items, g_inputs.alloc * sizeof(void *)))
__CPROVER_requires(SHAPE(g_fk) && SHAPE(g_fj) && SHAPE(g_fo) && g_bk.size >= 8 && g_ek.size >= 8 && g_lo_r == g_bk.size - 8 && g_hi_r == g_ek.size - 8 && g_lo_r < RMAX && g_hi_r < RMAX)
__CPROVER_requires(g_xb == g_lo_r && g_xe == g_hi_r && g_xb_tok == TOK_LO && g_xe_tok == TOK_HI && g_bk.data == TOK_LO && g_ek.data == TOK_HI)
/* level 0: files are individually well-formed on user keys (needed for the least-fixpoint statement only) */
__CPROVER_requires(SU(g_fk) <= LU(g_fk) && SU(g_fj) <= LU(g_fj))
__CPROVER_assigns(FO_WINDOW, CMP_GHOST, VEC_GHOST, g_r, g_inputs.length, __CPROVER_object_whole(g_inputs.items))
__CPROVER_ensures(FO_TOKENS)
/* the range only grows, and only at level 0 */
__CPROVER_ensures((!g_has_lo || g_xb <= g_lo_r) && (!g_has_hi || g_xe >= g_hi_r))
__CPROVER_ensures(g_lvl == 0 || (g_xb == g_lo_r && g_xe == g_hi_r))
/* exactly the files of the level that overlap the (level 0: final) range, each once: arbitrary positions k < j */
__CPROVER_ensures(g_pk <= 1 && g_pj <= 1)
__CPROVER_ensures(g_k >= g_n || (MEMBER_K ? 1 : 0) == (OVX(g_fk) ? 1 : 0))
__CPROVER_ensures(g_j >= g_n || (MEMBER_J ? 1 : 0) == (OVX(g_fj) ? 1 : 0))
__CPROVER_ensures(g_inputs.length <= g_n)
/* in list order, at the recorded positions */
__CPROVER_ensures(!MEMBER_K || (g_posk < g_inputs.length && g_inputs.items[g_posk] == (void *)&g_fk))
__CPROVER_ensures(!MEMBER_J || (g_posj < g_inputs.length && g_inputs.items[g_posj] == (void *)&g_fj))
__CPROVER_ensures(!(MEMBER_K && MEMBER_J) || g_posk < g_posj)
/* level 0, closed under expansion: every chosen file lies inside the final range (so no file left out overlaps the hull of
   the requested range and the chosen files) */
__CPROVER_ensures(g_lvl != 0 || !MEMBER_K || INSIDE(g_fk))
__CPROVER_ensures(g_lvl != 0 || !MEMBER_J || INSIDE(g_fj))
/* least fixpoint: a bound is the requested one, or the start / limit key of a chosen file */
__CPROVER_ensures(g_xb_tok == TOK_LO ? g_xb == g_lo_r : g_xb_tok == TOK_KS ? (MEMBER_K && g_xb == SU(g_fk)) : g_xb_tok == TOK_JS ? (MEMBER_J && g_xb == SU(g_fj)) : g_xb_tok == TOK_OS)
__CPROVER_ensures(g_xe_tok == TOK_HI ? g_xe == g_hi_r : g_xe_tok == TOK_KL ? (MEMBER_K && g_xe == LU(g_fk)) : g_xe_tok == TOK_JL ? (MEMBER_J && g_xe == LU(g_fj)) : g_xe_tok == TOK_OL)
;

static void mk_inputs_world(size_t n, size_t k, size_t j, int level) {
  size_t cap = nondet_size();
  mk_world();
  g_n = n; g_k = k; g_j = j; g_lvl = level;
  g_ver.files[level].items = mk_items(n, k, j); g_ver.files[level].length = n; g_ver.files[level].alloc = n;
  g_has_lo = nondet_int() ? 1 : 0; g_has_hi = nondet_int() ? 1 : 0;
  g_lo_r = nondet_size(); g_hi_r = nondet_size();
  __CPROVER_assume(g_lo_r < RMAX && g_hi_r < RMAX);
  g_bk.data = TOK_LO; g_bk.size = g_lo_r + 8; g_bk.alloc = nondet_u64();
  g_ek.data = TOK_HI; g_ek.size = g_hi_r + 8; g_ek.alloc = nondet_u64();
  g_xb = g_lo_r; g_xe = g_hi_r; g_xb_tok = TOK_LO; g_xe_tok = TOK_HI;
  __CPROVER_assume(cap > n && cap <= NMAX + 1);
  g_inputs.items = malloc(cap * sizeof(void *)); __CPROVER_assume(g_inputs.items != NULL);
  g_inputs.alloc = cap; g_inputs.length = nondet_size(); __CPROVER_assume(g_inputs.length <= cap);
  g_vec = &g_inputs;
  __CPROVER_assume(SU(g_fk) <= LU(g_fk) && SU(g_fj) <= LU(g_fj));
}
void h_inputs_sorted_u(void) {
  IN_SIZE(in_n); IN_SIZE(in_k); IN_SIZE(in_j); IN_INT(in_level);
  ASSUME(in_n <= NMAX && in_k < in_j && in_j <= in_n && in_level >= 1 && in_level < LDB_NUM_LEVELS);
  mk_inputs_world(in_n, in_k, in_j, in_level);
  ldb_version_get_overlapping_inputs(&g_ver, in_level, BEGIN_PTR, END_PTR, &g_inputs);
  CANARY();
}
void h_inputs_level0_u(void) {
  IN_SIZE(in_n); IN_SIZE(in_k); IN_SIZE(in_j);
  ASSUME(in_n <= NMAX && in_k < in_j && in_j <= in_n);
  mk_inputs_world(in_n, in_k, in_j, 0);
  ldb_version_get_overlapping_inputs(&g_ver, 0, BEGIN_PTR, END_PTR, &g_inputs);
  CANARY();
}
