/* units/it_merge.c - proof units for src/table/merger.c (C07, C11)
 *
 * The real merger.c (and iterator_wrapper.h) is included unmodified.  Children
 * are ghost cursors (contracts/it_cursor.h) over sorted arrays of 1-byte keys.
 * Every unit runs ONE operation from an ARBITRARY state satisfying the
 * representation invariant RI(direction) (one-step inductive) and requires
 *   - the children end exactly where the sorted merge says,
 *   - current = the child holding the merge successor / predecessor,
 *   - RI holds again (so the argument extends to any number of steps).
 * BOUNDED: at most 3 children with at most 3 entries each.
 */
#include "verif.h"
#include "util/comparator.h"
#include "util/types.h"
#include "util/status.h"
#include "table/iterator.h"

#define CUR_NCH 3
#ifndef MERGE_MAXLEN
#define MERGE_MAXLEN 3
#endif
#define CUR_MAXLEN MERGE_MAXLEN
#define CUR_KW 1
#define CUR_COMPARE(a, an, b, bn) ((int)(a)[0] - (int)(b)[0])
#include "contracts/it_cursor.h"

static int stub_compare(const ldb_comparator_t *c, const ldb_slice_t *x, const ldb_slice_t *y) {
  __CPROVER_assert(x->size == 1 && y->size == 1, "compare: operands are keys of the children / the seek target");
  return (int)x->data[0] - (int)y->data[0];
}
static const ldb_comparator_t stub_cmp = { "stub", stub_compare, NULL, NULL, NULL, NULL };

#include "table/merger.c"

/* ------------------------------------------------- specification (ghost) */
/* sorted-map vocabulary on child c (keys strictly increasing inside a child) */
static int sp_first_ge(int c, uint8_t k) { int i, r = CUR[c].len; for (i = CUR_MAXLEN - 1; i >= 0; i--) if (i < CUR[c].len && CUR_KEY[c][i][0] >= k) r = i; return r; }
static int sp_first_gt(int c, uint8_t k) { int i, r = CUR[c].len; for (i = CUR_MAXLEN - 1; i >= 0; i--) if (i < CUR[c].len && CUR_KEY[c][i][0] > k) r = i; return r; }
static int sp_last_lt(int c, uint8_t k) { int i, r = CUR[c].len; for (i = 0; i < CUR_MAXLEN; i++) if (i < CUR[c].len && CUR_KEY[c][i][0] < k) r = i; return r; }
/* child holding the smallest current key; ties: the child with the LOWEST index (LevelDB FindSmallest) */
static int sp_argmin(int n) {
  int c, best = -1;
  for (c = 0; c < CUR_NCH; c++)
    if (c < n && CUR_VALID(c) && (best < 0 || CUR_KEY[c][CUR[c].pos][0] < CUR_KEY[best][CUR[best].pos][0])) best = c;
  return best;
}
/* child holding the largest current key; ties: the child with the HIGHEST index (LevelDB FindLargest) */
static int sp_argmax(int n) {
  int c, best = -1;
  for (c = 0; c < CUR_NCH; c++)
    if (c < n && CUR_VALID(c) && (best < 0 || CUR_KEY[c][CUR[c].pos][0] >= CUR_KEY[best][CUR[best].pos][0])) best = c;
  return best;
}

struct merge_expect {      /* what the sorted merge says, computed from the pre-state by the harness */
  int n;
  int pos[CUR_NCH];        /* where every child must end                                           */
  int cur;                 /* index of the child that must be current, -1 = iterator not valid      */
  int dir;
  int status;
} X;

ldb_wrapiter_t W[CUR_NCH];

static int wrap_ok(int c) {
  return W[c].iter == &CUR_ITER[c] && (W[c].valid != 0) == CUR_VALID(c) &&
         (!CUR_VALID(c) || (W[c].key.data == CUR_KEY[c][CUR[c].pos] && W[c].key.size == 1));
}
static int wraps_ok(int n) { int c, ok = 1; for (c = 0; c < CUR_NCH; c++) if (c < n && !wrap_ok(c)) ok = 0; return ok; }

/* well-formed children: lengths, positions, strictly increasing 1-byte keys, vtable binding */
static int children_wf(int n) {
  int c, i, ok = 1;
  for (c = 0; c < CUR_NCH; c++) {
    if (CUR[c].len < 0 || CUR[c].len > CUR_MAXLEN || CUR[c].pos < 0 || CUR[c].pos > CUR[c].len) ok = 0;
    for (i = 0; i < CUR_MAXLEN; i++) if (CUR_KSIZE[c][i] != 1) ok = 0;
    for (i = 0; i + 1 < CUR_MAXLEN; i++) if (i + 1 < CUR[c].len && CUR_KEY[c][i][0] >= CUR_KEY[c][i + 1][0]) ok = 0;
    if (CUR_ITER[c].ptr != &CUR[c] || CUR_ITER[c].table != &cur_table) ok = 0;
  }
  (void)n;
  return ok;
}
/* LevelDB precondition for direction switches: no key occurs in two children (internal keys are unique) */
static int keys_distinct(int n) {
  int a, b, i, j, ok = 1;
  for (a = 0; a < CUR_NCH; a++) for (b = a + 1; b < CUR_NCH; b++)
    for (i = 0; i < CUR_MAXLEN; i++) for (j = 0; j < CUR_MAXLEN; j++)
      if (b < n && i < CUR[a].len && j < CUR[b].len && CUR_KEY[a][i][0] == CUR_KEY[b][j][0]) ok = 0;
  return ok;
}
/* representation invariant of the merging iterator */
static int merge_ri(const ldb_mergeiter_t *mi) {
  int n = mi->n, c, cur;
  uint8_t K;
  if (mi->children != W || mi->comparator != &stub_cmp || !wraps_ok(n)) return 0;
  if (mi->direction != LDB_FORWARD && mi->direction != LDB_REVERSE) return 0;
  cur = mi->direction == LDB_FORWARD ? sp_argmin(n) : sp_argmax(n);
  if (cur < 0) return mi->current == NULL;
  if (mi->current != &W[cur]) return 0;
  K = CUR_KEY[cur][CUR[cur].pos][0];
  for (c = 0; c < CUR_NCH; c++) {
    if (c == cur || c >= n) continue;
    /* FORWARD: every other child stands on its first key > key(); REVERSE: on its last key < key() (or is exhausted) */
    if (mi->direction == LDB_FORWARD ? CUR[c].pos != sp_first_gt(c, K) : CUR[c].pos != sp_last_lt(c, K)) return 0;
  }
  return 1;
}

/* ----------------------------------------------------------- obligations */
#define POS_IS_EXPECTED ((X.n < 1 || CUR[0].pos == X.pos[0]) && (X.n < 2 || CUR[1].pos == X.pos[1]) && (X.n < 3 || CUR[2].pos == X.pos[2]))
#define CURRENT_IS_EXPECTED(mi) ((mi)->current == (X.cur < 0 ? (ldb_wrapiter_t *)NULL : &W[X.cur]))
#define FRAME_OK(mi) ((mi)->children == W && (mi)->comparator == &stub_cmp && (mi)->n == X.n)

/* --------------------------------------------------------------- harness */
int nondet_int(void);
uint8_t nondet_u8(void);

/* arbitrary children; wrappers arbitrary unless coherent is requested */
static void setup(ldb_mergeiter_t *mi, int coherent) {
  int c, i;
  IN_INT(in_n); IN_INT(in_dir);
  ASSUME(in_n >= 1 && in_n <= CUR_NCH);
  for (c = 0; c < CUR_NCH; c++) {
    CUR[c].len = nondet_int(); CUR[c].pos = nondet_int(); CUR[c].status = nondet_int(); CUR[c].ops = 0;
    for (i = 0; i < CUR_MAXLEN; i++) { CUR_KEY[c][i][0] = nondet_u8(); CUR_KSIZE[c][i] = 1; CUR_VAL[c][i] = nondet_u8(); }
    CUR_ITER[c].ptr = &CUR[c]; CUR_ITER[c].table = &cur_table; CUR_ITER[c].cmp = &stub_cmp;
    CUR_ITER[c].cleanup_head.func = NULL; CUR_ITER[c].cleanup_head.next = NULL;
    W[c].iter = &CUR_ITER[c]; W[c].valid = nondet_int(); W[c].key.data = NULL; W[c].key.size = (size_t)nondet_int(); W[c].key.alloc = 0;
  }
  ASSUME(children_wf(in_n));
  if (coherent)
    for (c = 0; c < CUR_NCH; c++) {
      W[c].valid = CUR_VALID(c);
      if (CUR_VALID(c)) { W[c].key.data = CUR_KEY[c][CUR[c].pos]; W[c].key.size = 1; }
    }
  mi->comparator = &stub_cmp; mi->children = W; mi->n = in_n;
  mi->direction = in_dir ? LDB_REVERSE : LDB_FORWARD;
  mi->current = NULL;
  X.n = in_n;
}
/* current may be NULL or any wrapper (first/last/seek do not depend on it) */
static void any_current(ldb_mergeiter_t *mi) { IN_INT(in_cur); ASSUME(in_cur >= -1 && in_cur < mi->n); mi->current = in_cur < 0 ? NULL : &W[in_cur]; }

static void check_after(const ldb_mergeiter_t *mi, int dir) {
  CHECK(POS_IS_EXPECTED, "merge: every child ends exactly where the sorted merge says (first/last/first >= target/first > key()/last < key())");
  CHECK(CURRENT_IS_EXPECTED(mi), "merge: current is the child holding the merge successor/predecessor (ties by child order), NULL iff exhausted");
  CHECK(mi->direction == (enum ldb_direction)dir, "merge: direction recorded");
  CHECK(FRAME_OK(mi), "merge: children array, comparator and n untouched");
  CHECK(wraps_ok(mi->n), "merge: every wrapper caches its child's valid()/key() after the operation");
  CHECK(!keys_distinct(mi->n) || merge_ri(mi), "merge: representation invariant holds again (non-current children stand just beyond key() in the direction of travel)");
}

void h_merge_first(void) {
  ldb_mergeiter_t mi; int c;
  setup(&mi, 0); any_current(&mi);
  for (c = 0; c < CUR_NCH; c++) X.pos[c] = 0;
  { int save[CUR_NCH]; for (c = 0; c < CUR_NCH; c++) { save[c] = CUR[c].pos; CUR[c].pos = X.pos[c]; }
    X.cur = sp_argmin(mi.n); for (c = 0; c < CUR_NCH; c++) CUR[c].pos = save[c]; }
  ldb_mergeiter_first(&mi);
  check_after(&mi, LDB_FORWARD);
  CANARY();
}
void h_merge_last(void) {
  ldb_mergeiter_t mi; int c;
  setup(&mi, 0); any_current(&mi);
  for (c = 0; c < CUR_NCH; c++) X.pos[c] = CUR[c].len > 0 ? CUR[c].len - 1 : CUR[c].len;
  { int save[CUR_NCH]; for (c = 0; c < CUR_NCH; c++) { save[c] = CUR[c].pos; CUR[c].pos = X.pos[c]; }
    X.cur = sp_argmax(mi.n); for (c = 0; c < CUR_NCH; c++) CUR[c].pos = save[c]; }
  ldb_mergeiter_last(&mi);
  check_after(&mi, LDB_REVERSE);
  CANARY();
}
void h_merge_seek(void) {
  ldb_mergeiter_t mi; int c; ldb_slice_t t; uint8_t tb;
  IN_U8(in_target);
  setup(&mi, 0); any_current(&mi);
  tb = in_target; t.data = &tb; t.size = 1; t.alloc = 0;
  for (c = 0; c < CUR_NCH; c++) X.pos[c] = sp_first_ge(c, in_target);
  { int save[CUR_NCH]; for (c = 0; c < CUR_NCH; c++) { save[c] = CUR[c].pos; CUR[c].pos = X.pos[c]; }
    X.cur = sp_argmin(mi.n); for (c = 0; c < CUR_NCH; c++) CUR[c].pos = save[c]; }
  ldb_mergeiter_seek(&mi, &t);
  check_after(&mi, LDB_FORWARD);
  CHECK(X.cur < 0 || CUR_KEY[X.cur][CUR[X.cur].pos][0] >= in_target, "merge seek: lands on a key >= target");
  CANARY();
}
/* next / prev: from ANY state satisfying RI, in either direction */
static uint8_t pre_state(ldb_mergeiter_t *mi) {
  int cur;
  setup(mi, 1);
  ASSUME(keys_distinct(mi->n));
  cur = mi->direction == LDB_FORWARD ? sp_argmin(mi->n) : sp_argmax(mi->n);
  ASSUME(cur >= 0);
  mi->current = &W[cur];
  ASSUME(merge_ri(mi));
  return CUR_KEY[cur][CUR[cur].pos][0];
}
void h_merge_next(void) {
  ldb_mergeiter_t mi; int c; uint8_t K;
  K = pre_state(&mi);
  /* the merge successor of key(): every child moves to its first key > key() */
  for (c = 0; c < CUR_NCH; c++) X.pos[c] = sp_first_gt(c, K);
  { int save[CUR_NCH]; for (c = 0; c < CUR_NCH; c++) { save[c] = CUR[c].pos; CUR[c].pos = X.pos[c]; }
    X.cur = sp_argmin(mi.n); for (c = 0; c < CUR_NCH; c++) CUR[c].pos = save[c]; }
  ldb_mergeiter_next(&mi);
  check_after(&mi, LDB_FORWARD);
  CHECK(X.cur < 0 || CUR_KEY[X.cur][CUR[X.cur].pos][0] > K, "merge next: strictly increasing keys");
  CANARY();
}
void h_merge_prev(void) {
  ldb_mergeiter_t mi; int c; uint8_t K;
  K = pre_state(&mi);
  for (c = 0; c < CUR_NCH; c++) X.pos[c] = sp_last_lt(c, K);
  { int save[CUR_NCH]; for (c = 0; c < CUR_NCH; c++) { save[c] = CUR[c].pos; CUR[c].pos = X.pos[c]; }
    X.cur = sp_argmax(mi.n); for (c = 0; c < CUR_NCH; c++) CUR[c].pos = save[c]; }
  ldb_mergeiter_prev(&mi);
  check_after(&mi, LDB_REVERSE);
  CHECK(X.cur < 0 || CUR_KEY[X.cur][CUR[X.cur].pos][0] < K, "merge prev: strictly decreasing keys");
  CANARY();
}
void h_merge_find_smallest(void) {
  ldb_mergeiter_t mi;
  setup(&mi, 1); any_current(&mi);
  X.cur = sp_argmin(mi.n);
  { int c, p0[CUR_NCH]; for (c = 0; c < CUR_NCH; c++) p0[c] = CUR[c].pos;
  ldb_mergeiter_find_smallest(&mi);
  CHECK(CURRENT_IS_EXPECTED(&mi), "find_smallest: current = valid child with the smallest key, lowest index on ties, NULL if none");
  CHECK(CUR[0].pos == p0[0] && CUR[1].pos == p0[1] && CUR[2].pos == p0[2] && FRAME_OK(&mi), "find_smallest: children not moved"); }
  CANARY();
}
void h_merge_find_largest(void) {
  ldb_mergeiter_t mi;
  setup(&mi, 1); any_current(&mi);
  X.cur = sp_argmax(mi.n);
  { int c, p0[CUR_NCH]; for (c = 0; c < CUR_NCH; c++) p0[c] = CUR[c].pos;
  ldb_mergeiter_find_largest(&mi);
  CHECK(CURRENT_IS_EXPECTED(&mi), "find_largest: current = valid child with the largest key, highest index on ties, NULL if none");
  CHECK(CUR[0].pos == p0[0] && CUR[1].pos == p0[1] && CUR[2].pos == p0[2] && FRAME_OK(&mi), "find_largest: children not moved"); }
  CANARY();
}
void h_merge_status(void) {
  ldb_mergeiter_t mi; int c;
  setup(&mi, 1); any_current(&mi);
  /* first non-OK child status in child order, OK if none */
  X.status = LDB_OK;
  for (c = CUR_NCH - 1; c >= 0; c--) if (c < mi.n && CUR[c].status != LDB_OK) X.status = CUR[c].status;
  { int r = ldb_mergeiter_status(&mi);
  CHECK(r == X.status, "merge status: the first non-OK child status in child order, OK if every child is OK"); }
  CANARY();
}
/* valid / key / value expose exactly the current child's entry */
void h_merge_kv(void) {
  ldb_mergeiter_t mi; int cur; ldb_slice_t k, v;
  IN_INT(in_some_valid);
  setup(&mi, 1);
  ASSUME(keys_distinct(mi.n));
  cur = mi.direction == LDB_FORWARD ? sp_argmin(mi.n) : sp_argmax(mi.n);
  mi.current = cur < 0 ? NULL : &W[cur];
  ASSUME(merge_ri(&mi));
  CHECK((ldb_mergeiter_valid(&mi) != 0) == (cur >= 0), "merge valid: true iff some child is positioned on an entry");
  if (cur >= 0) {
    k = ldb_mergeiter_key(&mi); v = ldb_mergeiter_value(&mi);
    CHECK(k.data == CUR_KEY[cur][CUR[cur].pos] && k.size == 1, "merge key: the current child's key");
    CHECK(v.data == &CUR_VAL[cur][CUR[cur].pos] && v.size == 1, "merge value: the current child's value");
  }
  (void)in_some_valid;
  CANARY();
}
