/* units/vec.c - the containers every other unit models: src/util/vector.c (void* items) and src/util/array.c (uint64 items)
 *   vec.push / arr.push     : append keeps every earlier element (ghost index), the new one is last, capacity grows when full
 *   vec.poptop / arr.poptop : pop / top return the last element, pop shrinks by one and keeps the rest
 *   vec.resize / arr.resize : length set, earlier elements kept, capacity sufficient
 *   vec.copy / arr.copy     : element-wise copy of ANY length (loop contract, ghost index)
 *   vec.swap, vec.lifecycle : swap exchanges the three fields; init/reset/clear
 *   arr.sort.b              : ldb_array_sort with compare_ascending-style comparator: sorted permutation (bounded length)
 * Properties: these are the facts the ghost vector models of the other units assume (C13 delete lists, C05 log lists
 * replayed in ascending order, C14 file lists).  The real sources are included unmodified; ldb_realloc is realloc.
 */
#include "verif.h"
size_t nondet_size(void);
uint64_t nondet_u64(void);
int nondet_int(void);
void *ldb_malloc(size_t n) { void *p = malloc(n); __CPROVER_assume(p != NULL); return p; }
void *ldb_realloc(void *q, size_t n) { void *p = realloc(q, n); __CPROVER_assume(p != NULL); return p; }
void ldb_free(void *p) { free(p); }
#include "util/vector.c"
#define ldb_swap ldb_swap_u64
#define ldb_partition ldb_partition_u64
#define ldb_qsort ldb_qsort_u64
#include "util/array.c"

#define CAPMAX ((size_t)1 << 40)
size_t g_k; void *g_pk; uint64_t g_uk;
void **g_zitems, **g_xitems; size_t g_xlen; uint64_t *g_azitems, *g_axitems;

/* a vector in any reachable state: items == NULL iff alloc == 0, length <= alloc */
static void mk_vec(ldb_vector_t *z) {
  size_t a = nondet_size(), n = nondet_size();
  __CPROVER_assume(n <= a && a < CAPMAX);
  z->alloc = a; z->length = n; z->items = NULL;
  if (a > 0) { z->items = malloc(a * sizeof(void *)); __CPROVER_assume(z->items != NULL); }
  g_k = nondet_size(); g_pk = NULL;
  if (g_k < n) g_pk = z->items[g_k];
}
static void mk_arr(ldb_array_t *z) {
  size_t a = nondet_size(), n = nondet_size();
  __CPROVER_assume(n <= a && a < CAPMAX);
  z->alloc = a; z->length = n; z->items = NULL;
  if (a > 0) { z->items = malloc(a * sizeof(uint64_t)); __CPROVER_assume(z->items != NULL); }
  g_k = nondet_size(); g_uk = 0;
  if (g_k < n) g_uk = z->items[g_k];
}

void h_vec_push(void) {
  ldb_vector_t z; size_t n0, a0; char obj; void *x = nondet_int() ? (void *)&obj : NULL;
  mk_vec(&z); n0 = z.length; a0 = z.alloc;
  ldb_vector_push(&z, x);
  CHECK(z.length == n0 + 1 && z.length <= z.alloc && z.items != NULL, "push: length + 1, room for it");
  CHECK(z.items[n0] == x, "push: the new element is the last one");
  if (g_k < n0) CHECK(z.items[g_k] == g_pk, "push: every earlier element is kept, in place");
  CHECK(n0 < a0 ? z.alloc == a0 : z.alloc > a0, "push: capacity grows exactly when the vector was full");
  CANARY();
}
void h_arr_push(void) {
  ldb_array_t z; size_t n0, a0; uint64_t x = nondet_u64();
  mk_arr(&z); n0 = z.length; a0 = z.alloc;
  ldb_array_push(&z, x);
  CHECK(z.length == n0 + 1 && z.length <= z.alloc && z.items != NULL, "push: length + 1, room for it");
  CHECK(z.items[n0] == x, "push: the new element is the last one");
  if (g_k < n0) CHECK(z.items[g_k] == g_uk, "push: every earlier element is kept, in place");
  CHECK(n0 < a0 ? z.alloc == a0 : z.alloc > a0, "push: capacity grows exactly when the array was full");
  CANARY();
}
void h_vec_poptop(void) {
  ldb_vector_t z; size_t n0; void *last, *t, *p;
  mk_vec(&z); n0 = z.length; __CPROVER_assume(n0 > 0); last = z.items[n0 - 1];
  t = ldb_vector_top(&z);
  CHECK(t == last && z.length == n0, "top: the last element, nothing changes");
  p = ldb_vector_pop(&z);
  CHECK(p == last && z.length == n0 - 1, "pop: the last element, length - 1");
  if (g_k < n0 - 1) CHECK(z.items[g_k] == g_pk, "pop: the other elements are kept");
  CANARY();
}
void h_arr_poptop(void) {
  ldb_array_t z; size_t n0; uint64_t last, t, p;
  mk_arr(&z); n0 = z.length; __CPROVER_assume(n0 > 0); last = z.items[n0 - 1];
  t = ldb_array_top(&z);
  CHECK(t == last && z.length == n0, "top: the last element, nothing changes");
  p = ldb_array_pop(&z);
  CHECK(p == last && z.length == n0 - 1, "pop: the last element, length - 1");
  if (g_k < n0 - 1) CHECK(z.items[g_k] == g_uk, "pop: the other elements are kept");
  CANARY();
}
void h_vec_resize(void) {
  ldb_vector_t z; size_t n0, zn = nondet_size();
  mk_vec(&z); n0 = z.length; __CPROVER_assume(zn < CAPMAX);
  ldb_vector_resize(&z, zn);
  CHECK(z.length == zn && zn <= z.alloc && (zn == 0 || z.items != NULL), "resize: length set, capacity sufficient");
  if (g_k < n0 && g_k < zn) CHECK(z.items[g_k] == g_pk, "resize: surviving elements are kept");
  CANARY();
}
void h_arr_resize(void) {
  ldb_array_t z; size_t n0, zn = nondet_size();
  mk_arr(&z); n0 = z.length; __CPROVER_assume(zn < CAPMAX);
  ldb_array_resize(&z, zn);
  CHECK(z.length == zn && zn <= z.alloc && (zn == 0 || z.items != NULL), "resize: length set, capacity sufficient");
  if (g_k < n0 && g_k < zn) CHECK(z.items[g_k] == g_uk, "resize: surviving elements are kept");
  CANARY();
}
void h_vec_copy(void) {
  ldb_vector_t z, x; void *xk;
  mk_vec(&z); mk_vec(&x);               /* g_k / g_pk now refer to x */
  xk = g_pk; g_xitems = x.items; g_xlen = x.length;
  ldb_vector_copy(&z, &x);
  CHECK(z.length == x.length && x.length == g_xlen && x.items == g_xitems, "copy: same length, source untouched");
  if (g_k < g_xlen) CHECK(z.items[g_k] == xk && x.items[g_k] == xk, "copy: element-wise equal");
  CANARY();
}
void h_arr_copy(void) {
  ldb_array_t z, x; uint64_t xk;
  mk_arr(&z); mk_arr(&x);
  xk = g_uk; g_axitems = x.items; g_xlen = x.length;
  ldb_array_copy(&z, &x);
  CHECK(z.length == x.length && x.length == g_xlen && x.items == g_axitems, "copy: same length, source untouched");
  if (g_k < g_xlen) CHECK(z.items[g_k] == xk && x.items[g_k] == xk, "copy: element-wise equal");
  CANARY();
}
void h_vec_swap(void) {
  ldb_vector_t x, y, x0, y0;
  mk_vec(&x); mk_vec(&y); x0 = x; y0 = y;
  ldb_vector_swap(&x, &y);
  CHECK(x.items == y0.items && x.length == y0.length && x.alloc == y0.alloc && y.items == x0.items && y.length == x0.length && y.alloc == x0.alloc, "swap: contents exchanged");
  CANARY();
}
void h_vec_lifecycle(void) {
  ldb_vector_t z; void **it0; size_t a0;
  ldb_vector_init(&z);
  CHECK(z.items == NULL && z.length == 0 && z.alloc == 0, "init: empty");
  mk_vec(&z); it0 = z.items; a0 = z.alloc;
  ldb_vector_reset(&z);
  CHECK(z.length == 0 && z.items == it0 && z.alloc == a0, "reset: empty, storage kept");
  ldb_vector_clear(&z);
  CHECK(z.items == NULL && z.length == 0 && z.alloc == 0, "clear: storage released, empty again");
  CANARY();
}

/* ---- sort (bounded) */
#ifndef SORTN
#define SORTN 3
#endif
static int ascending(uint64_t x, uint64_t y) { return x < y ? -1 : x > y ? 1 : 0; }
void h_arr_sort(void) {
  ldb_array_t z; uint64_t in[SORTN]; size_t n = nondet_size(), i, cin, cout; uint64_t v = nondet_u64();
  __CPROVER_assume(n <= SORTN);
  z.items = malloc(SORTN * sizeof(uint64_t)); __CPROVER_assume(z.items != NULL); z.alloc = SORTN; z.length = n;
  for (i = 0; i < SORTN; i++) { in[i] = nondet_u64(); z.items[i] = in[i]; }
  ldb_array_sort(&z, ascending);
  CHECK(z.length == n, "sort: length unchanged");
  for (i = 0; i + 1 < SORTN; i++) if (i + 1 < n) CHECK(z.items[i] <= z.items[i + 1], "sort: ascending");
  cin = cout = 0;
  for (i = 0; i < SORTN; i++) if (i < n) { cin += (in[i] == v); cout += (z.items[i] == v); }
  CHECK(cin == cout, "sort: a permutation (every value occurs as often as before)");
  CANARY();
}
