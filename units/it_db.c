/* units/it_db.c - proof units for src/db_iter.c (C07, C06, C01, C11)
 *
 * The real db_iter.c is included unmodified (dbformat.c, buffer.c, internal.c
 * are linked unmodified).  The internal iterator is ONE ghost cursor
 * (contracts/it_cursor.h) over a sequence of internal keys
 *     user key (1 byte) | LE64(seq << 8 | type)
 * sorted in internal-key order (user key ascending, sequence descending).
 * Specification = the SNAPSHOT MAP for sequence S (iter->sequence):
 *     entries with seq > S are invisible; for each user key the newest entry
 *     with seq <= S decides: VALUE -> key present with that value,
 *     DELETION -> key absent (and all older versions hidden).
 * Every unit runs ONE DBIter operation from an ARBITRARY state satisfying the
 * representation invariant db_ri (one-step inductive) and requires that the
 * iterator shows exactly the map neighbour and that db_ri holds again.
 * BOUNDED: at most DB_MAXLEN (6) internal entries, 1-byte user keys, seq <= 7.
 */
#include "verif.h"
#include "util/buffer.h"
#include "util/comparator.h"
#include "util/types.h"
#include "util/status.h"
#include "util/random.h"
#include "table/iterator.h"
#include "dbformat.h"

#ifndef DB_MAXLEN
#define DB_MAXLEN 6
#endif
#define CUR_NCH 1
#define CUR_MAXLEN DB_MAXLEN
#define CUR_KW 9
#define TAGOF(k) ((uint64_t)(k)[1] | ((uint64_t)(k)[2] << 8) | ((uint64_t)(k)[3] << 16) | ((uint64_t)(k)[4] << 24) | \
                  ((uint64_t)(k)[5] << 32) | ((uint64_t)(k)[6] << 40) | ((uint64_t)(k)[7] << 48) | ((uint64_t)(k)[8] << 56))
/* The user comparator of this unit is NOT bytewise: it ignores the top bit of the key byte, so two different byte
   strings can name the same user key (like a case-insensitive comparator).  Everything in db_iter.c must go through
   the comparator - a raw byte comparison disagrees with it. */
#define UKID(b) ((int)((b) & 0x7f))
/* internal-key order: user key ascending, then tag (seq<<8|type) DEscending */
static int ikey_order(const uint8_t *a, size_t an, const uint8_t *b, size_t bn) {
  __CPROVER_assert(an == 9 && bn == 9, "internal iterator seek: target is a 9-byte internal key (user key + tag)");
  if (UKID(a[0]) != UKID(b[0])) return UKID(a[0]) < UKID(b[0]) ? -1 : 1;
  if (TAGOF(a) > TAGOF(b)) return -1;
  if (TAGOF(a) < TAGOF(b)) return 1;
  return 0;
}
#define CUR_COMPARE ikey_order
#include "contracts/it_cursor.h"

/* user comparator on 1-byte user keys: ignores the top bit */
static int stub_ucompare(const ldb_comparator_t *c, const ldb_slice_t *x, const ldb_slice_t *y) {
  __CPROVER_assert(x->size == 1 && y->size == 1, "user comparator: operands are 1-byte user keys (never a slice of an unparsed internal key)");
  if (x->size != 1 || y->size != 1) return 0;
  return UKID(x->data[0]) - UKID(y->data[0]);
}
static const ldb_comparator_t stub_ucmp = { "stub", stub_ucompare, NULL, NULL, NULL, NULL };

/* read sampling is outside this unit (bytes_until_read_sampling is kept large) */
struct ldb_s;
int g_sampled;
void ldb_record_read_sample(struct ldb_s *db, const ldb_slice_t *key) { (void)db; (void)key; g_sampled++; }
uint32_t ldb_rand_uniform(ldb_rand_t *rnd, uint32_t n) { (void)rnd; return n - 1; }

/* byte equality (src/util/slice.c): not called by db_iter.c today; present so that a change that compares keys by bytes
 * instead of through the comparator reaches the semantic obligations */
int ldb_slice_equal(const ldb_slice_t *x, const ldb_slice_t *y) {
  size_t i;
  if (x->size != y->size) return 0;
  for (i = 0; i < x->size; i++) if (x->data[i] != y->data[i]) return 0;
  return 1;
}

#include "db_iter.c"

/* ------------------------------------------------- specification (ghost) */
#define N_ (CUR[0].len)
#define UK(i) UKID(CUR_KEY[0][i][0])
#define UKBYTE(i) (CUR_KEY[0][i][0])
#define SEQ(i) (TAGOF(CUR_KEY[0][i]) >> 8)
#define TYP(i) ((int)(TAGOF(CUR_KEY[0][i]) & 0xff))
uint64_t S_;    /* the snapshot */

/* entry i decides its user key in snapshot S: newest entry with seq <= S */
static int vis(int i) { return i >= 0 && i < N_ && SEQ(i) <= S_ && (i == 0 || UK(i - 1) != UK(i) || SEQ(i - 1) > S_); }
/* entry i is a (key,value) pair of the snapshot map */
static int live(int i) { return vis(i) && TYP(i) == LDB_TYPE_VALUE; }
/* map cursor vocabulary: index of the deciding entry, -1 = none */
static int map_first_ge(int t) { int i, r = -1; for (i = DB_MAXLEN - 1; i >= 0; i--) if (live(i) && UK(i) >= t) r = i; return r; }
static int map_last_lt(int t) { int i, r = -1; for (i = 0; i < DB_MAXLEN; i++) if (live(i) && UK(i) < t) r = i; return r; }

/* well-formed internal sequence: 9-byte keys, type 0/1, small sequence numbers, strictly sorted */
static int seq_wf(void) {
  int i, ok = 1;
  if (N_ < 0 || N_ > DB_MAXLEN || CUR[0].pos < 0 || CUR[0].pos > N_) ok = 0;
  for (i = 0; i < DB_MAXLEN; i++) {
    if (CUR_KSIZE[0][i] != 9) ok = 0;
    if (TYP(i) > 1 || SEQ(i) > 7) ok = 0;
    if (i + 1 < DB_MAXLEN && i + 1 < N_ && ikey_order(CUR_KEY[0][i], 9, CUR_KEY[0][i + 1], 9) >= 0) ok = 0;
  }
  if (CUR_ITER[0].ptr != &CUR[0] || CUR_ITER[0].table != &cur_table) ok = 0;
  return ok;
}

uint8_t KB[16], VB[16];   /* storage of saved_key / saved_value */

static int shape_ok(const ldb_dbiter_t *it) {
  return it->iter == &CUR_ITER[0] && it->ucmp == &stub_ucmp && it->sequence == S_ &&
         it->saved_key.data == KB && it->saved_key.alloc == 16 && it->saved_key.size <= 9 &&
         it->saved_value.data == VB && it->saved_value.alloc == 16 && it->saved_value.size <= 1 &&
         (it->direction == LDB_FORWARD || it->direction == LDB_REVERSE) && it->bytes_until_read_sampling >= 1000;
}
/* index of the map entry the iterator shows (-1: none / broken) */
static int shown(const ldb_dbiter_t *it) {
  int i, r = -1;
  if (it->direction == LDB_FORWARD) return live(CUR[0].pos) ? CUR[0].pos : -1;
  if (it->saved_key.size != 1) return -1;
  for (i = 0; i < DB_MAXLEN; i++) if (live(i) && UK(i) == UKID(KB[0])) r = i;
  return r;
}
/* first index of the block of entries with the user key of entry i */
static int block_start(int i) { int j, r = i; for (j = DB_MAXLEN - 1; j >= 0; j--) if (j <= i && j < N_ && UK(j) == UK(i)) r = j; return r; }

/* representation invariant (db_iter.c, comment on enum ldb_direction) */
static int db_ri(const ldb_dbiter_t *it) {
  int idx, b, q, j;
  if (!shape_ok(it)) return 0;
  if (!it->valid) return 1;
  idx = shown(it);
  if (idx < 0) return 0;
  /* (1) forward: the internal iterator stands on the exact entry that yields key()/value() */
  if (it->direction == LDB_FORWARD) return 1;
  /* (2) reverse: saved_key/saved_value hold the entry; the internal iterator stands just before all entries with
         user key == key(): on the nearest earlier entry visible in the snapshot, or it is exhausted */
  if (it->saved_value.size != 1 || VB[0] != CUR_VAL[0][idx]) return 0;
  b = block_start(idx);
  q = CUR[0].pos;
  if (q == N_) { for (j = 0; j < DB_MAXLEN; j++) if (j < b && SEQ(j) <= S_) return 0; return 1; }
  if (q >= b || SEQ(q) > S_) return 0;
  for (j = 0; j < DB_MAXLEN; j++) if (j > q && j < b && SEQ(j) <= S_) return 0;
  return 1;
}

/* --------------------------------------------------------------- harness */
int nondet_int(void);
uint8_t nondet_u8(void);
static int st0;

static void setup(ldb_dbiter_t *it) {
  int i, j;
  IN_U8(in_snapshot); IN_INT(in_dir); IN_INT(in_valid); IN_INT(in_status);
  CUR[0].len = nondet_int(); CUR[0].pos = nondet_int(); CUR[0].status = nondet_int(); CUR[0].ops = 0;
  for (i = 0; i < DB_MAXLEN; i++) {
    for (j = 0; j < 9; j++) CUR_KEY[0][i][j] = nondet_u8();
    CUR_KSIZE[0][i] = 9; CUR_VAL[0][i] = nondet_u8();
  }
  CUR_ITER[0].ptr = &CUR[0]; CUR_ITER[0].table = &cur_table; CUR_ITER[0].cmp = NULL;
  CUR_ITER[0].cleanup_head.func = NULL; CUR_ITER[0].cleanup_head.next = NULL;
  S_ = in_snapshot; ASSUME(in_snapshot <= 7);
  ASSUME(seq_wf());
  it->db = NULL; it->ucmp = &stub_ucmp; it->iter = &CUR_ITER[0]; it->sequence = S_;
  it->status = in_status; st0 = in_status;
  for (i = 0; i < 9; i++) { KB[i] = nondet_u8(); VB[i] = nondet_u8(); }
  it->saved_key.data = KB; it->saved_key.alloc = 16; it->saved_key.size = (size_t)nondet_int();
  it->saved_value.data = VB; it->saved_value.alloc = 16; it->saved_value.size = (size_t)nondet_int();
  it->direction = in_dir ? LDB_REVERSE : LDB_FORWARD;
  it->valid = in_valid != 0;
  it->bytes_until_read_sampling = 1000000;
  g_sampled = 0;
  ASSUME(shape_ok(it));
}

/* after the operation: the iterator shows map entry `want` (-1 = not valid) */
static void check_shows(ldb_dbiter_t *it, int want) {
  CHECK((it->valid != 0) == (want >= 0), "dbiter: valid() iff the snapshot map has the neighbour asked for");
  CHECK(db_ri(it), "dbiter: representation invariant holds again");
  if (it->valid && want >= 0) {
    ldb_slice_t k = ldb_dbiter_key(it), v = ldb_dbiter_value(it);
    CHECK(shown(it) == want, "dbiter: positioned on the map neighbour (entries with seq > S ignored, newest <= S decides, tombstones hide the key)");
    CHECK(k.size == 1 && UKID(k.data[0]) == UK(want), "dbiter key(): the user key of that map entry (some spelling of it)");
    CHECK(v.size == 1 && v.data[0] == CUR_VAL[0][want], "dbiter value(): the value of the newest visible version");
  }
  CHECK(it->status == st0, "dbiter: status untouched when every internal key parses");
  CHECK(g_sampled == 0, "dbiter: (read sampling not triggered in this unit)");
}

void h_db_first(void) {
  ldb_dbiter_t it; setup(&it);
  ldb_dbiter_first(&it);
  check_shows(&it, map_first_ge(0));
  CHECK(it.direction == LDB_FORWARD, "dbiter first: direction forward");
  CANARY();
}
void h_db_last(void) {
  ldb_dbiter_t it; setup(&it);
  ldb_dbiter_last(&it);
  check_shows(&it, map_last_lt(256));
  CANARY();
}
void h_db_seek(void) {
  ldb_dbiter_t it; ldb_slice_t t; uint8_t tb; IN_U8(in_target);
  setup(&it);
  tb = in_target; t.data = &tb; t.size = 1; t.alloc = 0;
  ldb_dbiter_seek(&it, &t);
  check_shows(&it, map_first_ge(UKID(in_target)));
  CHECK(it.direction == LDB_FORWARD, "dbiter seek: direction forward");
  CANARY();
}
void h_db_next(void) {
  ldb_dbiter_t it; int cur;
  setup(&it);
  ASSUME(it.valid && db_ri(&it));
  cur = shown(&it);
  ldb_dbiter_next(&it);
  check_shows(&it, map_first_ge((int)UK(cur) + 1));
  CHECK(it.direction == LDB_FORWARD, "dbiter next: direction forward");
  CANARY();
}
void h_db_prev(void) {
  ldb_dbiter_t it; int cur;
  setup(&it);
  ASSUME(it.valid && db_ri(&it));
  cur = shown(&it);
  ldb_dbiter_prev(&it);
  check_shows(&it, map_last_lt(UK(cur)));
  CANARY();
}
/* status(): own latched status first, else the internal iterator's; valid() is the flag */
void h_db_status(void) {
  ldb_dbiter_t it; int r;
  setup(&it);
  r = ldb_dbiter_status(&it);
  CHECK(r == (st0 != LDB_OK ? st0 : CUR[0].status), "dbiter status: latched corruption first, else the internal iterator's status");
  CHECK((ldb_dbiter_valid(&it) != 0) == (it.valid != 0), "dbiter valid");
  CANARY();
}

/* ---- corruption: one internal key that does not parse (shorter than 8 bytes, or type byte > 1) ---- */
/* forward scans: the entry is skipped and status becomes CORRUPTION; nothing is read out of bounds */
static void corrupt_one(int *at) {
  IN_INT(in_bad); IN_INT(in_short); IN_SIZE(in_badsize);
  ASSUME(in_bad >= 0 && in_bad < N_);
  if (in_short) { ASSUME(in_badsize < 8); CUR_KSIZE[0][in_bad] = in_badsize; }
  else { CUR_KEY[0][in_bad][1] = 2; }
  *at = in_bad;
}
void h_db_corrupt_first(void) {
  ldb_dbiter_t it; int bad;
  setup(&it);
  corrupt_one(&bad);
  ldb_dbiter_first(&it);
  /* the forward scan from the front has passed the bad entry iff the internal iterator ends beyond it */
  CHECK(!(CUR[0].pos > bad) || it.status == LDB_CORRUPTION, "dbiter first: an unparsable internal key met by the scan latches status CORRUPTION");
  CHECK(!(CUR[0].pos < bad) || it.status == st0, "dbiter first: status untouched when the scan stops before the bad entry");
  CHECK(!it.valid || (CUR[0].pos != bad && CUR[0].pos < N_), "dbiter first: never yields the unparsable entry");
  CHECK(it.valid || CUR[0].pos == N_, "dbiter first: not valid only when the internal iterator is exhausted");
  CANARY();
}
void h_db_corrupt_prev(void) {
  ldb_dbiter_t it; int bad;
  setup(&it);
  ASSUME(it.valid && db_ri(&it));
  /* Reverse scans: only a bad TYPE byte is injected here.  A key shorter than 8 bytes never reaches the DB
     iterator - the block layer rejects it (blk.iter.parse: internal key shorter than 8 => corruption) and memtable
     keys are well-formed (mem.add); with such a key the switch loop of ldb_dbiter_prev would hand the comparator
     a slice of size-8 (recorded as an observation in DESIGN.md 10.3, same in LevelDB release builds). */
  { IN_INT(in_bad); ASSUME(in_bad >= 0 && in_bad < N_); CUR_KEY[0][in_bad][1] = 2; bad = in_bad; }
  ASSUME(it.direction != LDB_FORWARD || CUR[0].pos != bad);   /* the entry shown itself parses */
  ldb_dbiter_prev(&it);
  CHECK(!it.valid || it.saved_key.size == 1, "dbiter prev: yields a parsed user key");
  CANARY();
}
