/* units/it_merge_u.c - UNBOUNDED twins of the it.merge_* units (src/table/merger.c + iterator_wrapper.h; C07, C11)
 *
 * Any number of children (1 .. 2^20, symbolic) of any length; every loop of merger.c that is reached is closed by a loop
 * contract (loops/itu.json).  Ghost-index method: ONE arbitrary child index g_c is tracked (ghost child GC behind the
 * iterator object IT_C); every other child is the shared ghost child GO behind IT_O, which answers every question
 * arbitrarily (valid or not, any key).  Keys are opaque to merger.c (it only copies slices and hands them to the
 * comparator): a key is represented by its RANK in the global sorted order, carried in the .size field of the slice;
 * the comparator compares ranks and returns an arbitrary int of the right sign.
 *
 *   it.merge_find_smallest.u / find_largest.u   the wrapper array has arbitrary content; the function is checked against the
 *        contract c_find_smallest_u / c_find_largest_u (argmin / argmax relative to the arbitrary child g_c)
 *   it.merge_status.u                            oracle form: children are asked in index order, the first non-OK answer wins
 *   it.merge_first.u / last.u / seek.u           every child positioned exactly once (tracked child: by exactly that one
 *        operation, with the caller's target), wrapper caches valid()/key(), then find_smallest / find_largest (by contract)
 *
 * STATE: only it.merge_status.u is a unit (units/itu.json "units").  The find_smallest / find_largest harnesses, contracts and
 * loop contracts below are correct on a 64-byte-element reduction (157 s) but cbmc does not finish within 300 s on the real
 * 40-byte wrapper (cadical, kissat); first / last / seek enter find_* by that contract, so they are drafts too
 * (units/itu.json "draft_units", not loaded by ./check).  next / prev were not written.
 *
 * FRAME of the positioning loops: they write wrap->valid / wrap->key of EVERY wrapper, so the loop assigns clause is the whole
 * wrapper array, which also havocs every wrapper's .iter pointer.  That .iter is never written is proved for an arbitrary
 * index g_f (invariant conjunct "FRAME"); the body at loop index i needs it AT i.  The SAT back end cannot instantiate the
 * ghost index at i (no quantifiers), so frame_hook() below assumes the instance for index i+1 on the PRE-state of
 * iteration i (before anything is written) and the invariant conjunct "PIN" must then be PROVED again after the body.
 */
#include "verif.h"
#include "util/comparator.h"
#include "util/types.h"
#include "util/status.h"
#include "table/iterator.h"

int nondet_int(void);
size_t nondet_size(void);

/* ---------------------------------------------------------------- ghost children */
struct gchild {
  int valid; size_t rank;              /* position: on an entry (rank of its key) or not valid                    */
  int status;
  unsigned n_first, n_last, n_seek, n_next, n_prev, n_status;
  size_t seek_rank;                    /* rank of the target of the last seek                                     */
  /* the tracked child's sorted sequence, as far as one operation can see it */
  int nonempty; size_t min, max;       /* first / last entry                                                      */
  int has_ge; size_t ge;               /* first entry >= g_pivot (the seek target of the unit)                    */
};
struct gchild GC, GO;
ldb_iter_t IT_C, IT_O;
size_t g_pivot;

struct ldb_wrapiter_s;
struct ldb_wrapiter_s *g_W;            /* the wrapper array                                                       */
int g_n;                               /* number of children                                                      */
size_t g_c;                            /* tracked child                                                           */
size_t g_f;                            /* arbitrary index of the FRAME conjunct                                   */
unsigned g_calls;                      /* positioning / status calls received so far = loop index                 */
int g_hook;                            /* unit has a positioning loop                                             */
int g_bad, g_badval; unsigned g_badidx;/* status oracle: first non-OK answer                                      */
unsigned g_c_asked_at;
unsigned g_cmp_calls;

static int stub_compare(const ldb_comparator_t *c, const ldb_slice_t *x, const ldb_slice_t *y) {
  int r = nondet_int();
  (void)c;
  __CPROVER_assume(x->size < y->size ? r < 0 : x->size > y->size ? r > 0 : r == 0);
  g_cmp_calls++;
  return r;
}
static const ldb_comparator_t stub_cmp = { "stub", stub_compare, NULL, NULL, NULL, NULL };

#include "table/merger.c"

ldb_mergeiter_t g_mi;
ldb_wrapiter_t nondet_wrap(void);

#define F_ITER(j) ((size_t)(j) == g_c ? &IT_C : &IT_O)

/* forall-elimination by hand.  Instantiates the invariant conjunct FRAME ("g_W[g_f].iter == F_ITER(g_f)", proved for the
   arbitrary index g_f in the same unit, loops/itu.json) at the NEXT loop index g_calls + 1.  Called as the first thing of the
   first ghost-child operation of an iteration, i.e. on the pre-state of the iteration; the conjunct PIN of the loop
   invariant has to be re-proved for that index after the body. */
static void frame_hook(void) {
  if (g_hook)
    __CPROVER_assume((size_t)g_calls + 1 >= (size_t)g_n || g_W[(size_t)g_calls + 1].iter == F_ITER((size_t)g_calls + 1));
}

static struct gchild *gch(const void *p) {
  __CPROVER_assert(p == (const void *)&GC || p == (const void *)&GO, "child op: the receiver is one of the children");
  return p == (const void *)&GC ? &GC : &GO;
}
static void other_moves(void) { GO.valid = nondet_int() != 0; GO.rank = nondet_size(); }

static void cur_clear(void *p) { (void)p; }
static int cur_valid(const void *p) { return gch(p)->valid; }
static void cur_first(void *p) {
  struct gchild *c = gch(p);
  frame_hook();
  if (c == &GO) other_moves(); else { c->valid = c->nonempty; c->rank = c->min; }
  c->n_first++; g_calls++;
}
static void cur_last(void *p) {
  struct gchild *c = gch(p);
  frame_hook();
  if (c == &GO) other_moves(); else { c->valid = c->nonempty; c->rank = c->max; }
  c->n_last++; g_calls++;
}
static void cur_seek(void *p, const ldb_slice_t *t) {
  struct gchild *c = gch(p);
  frame_hook();
  if (c == &GO) other_moves();
  else if (t->size == g_pivot) { c->valid = c->has_ge; c->rank = c->ge; }
  else { c->valid = nondet_int() != 0; c->rank = nondet_size(); __CPROVER_assume(c->rank >= t->size); }
  c->seek_rank = t->size;
  c->n_seek++; g_calls++;
}
static void cur_next(void *p) {
  struct gchild *c = gch(p);
  __CPROVER_assert(c->valid, "child next: REQUIRES valid()");
  if (c == &GO) other_moves(); else { size_t r = nondet_size(); __CPROVER_assume(r > c->rank); c->valid = nondet_int() != 0 && c->rank != c->max; c->rank = r; }
  c->n_next++;
}
static void cur_prev(void *p) {
  struct gchild *c = gch(p);
  __CPROVER_assert(c->valid, "child prev: REQUIRES valid()");
  if (c == &GO) other_moves(); else { size_t r = nondet_size(); __CPROVER_assume(r < c->rank); c->valid = nondet_int() != 0 && c->rank != c->min; c->rank = r; }
  c->n_prev++;
}
static ldb_slice_t cur_key(const void *p) {
  const struct gchild *c = gch(p); ldb_slice_t k = {NULL, 0, 0};
  __CPROVER_assert(c->valid, "child key: REQUIRES valid()");
  k.size = c->rank;
  return k;
}
static ldb_slice_t cur_value(const void *p) {
  const struct gchild *c = gch(p); ldb_slice_t v = {NULL, 0, 0};
  __CPROVER_assert(c->valid, "child value: REQUIRES valid()");
  return v;
}
/* status oracle: the tracked child reports GC.status, every other child an arbitrary status */
static int cur_status(const void *p) {
  const struct gchild *c = gch(p); int s;
  if (c == &GC) { s = GC.status; g_c_asked_at = g_calls; GC.n_status++; } else s = nondet_int();
  if (s != 0 && !g_bad) { g_bad = 1; g_badval = s; g_badidx = g_calls; }
  g_calls++;
  return s;
}
static const ldb_itertbl_t cur_table = {
  cur_clear, cur_valid, cur_first, cur_last, cur_seek, cur_next, cur_prev, cur_key, cur_value, cur_status
};

/* ---------------------------------------------------------------- specification */
#define WSZ sizeof(ldb_wrapiter_t)
#define WOFF(p) ((size_t)(p) - (size_t)g_W)
/* p is the address of one of the n wrappers */
#define IS_WRAP(p) (__CPROVER_same_object((p), g_W) && WOFF(p) < WSZ * (size_t)g_n && WOFF(p) % WSZ == 0)
/* argmin relative to the arbitrary child g_c: NULL only if child g_c is not valid (for every g_c: no child is valid); otherwise a
   valid wrapper whose key is <= the key of child g_c, and on a tie not a child behind g_c (LevelDB FindSmallest: lowest index) */
#define POST_SMALLEST(cur) ((cur) == NULL ? !g_W[g_c].valid : \
  (IS_WRAP(cur) && (cur)->valid && (!g_W[g_c].valid || (cur)->key.size < g_W[g_c].key.size || ((cur)->key.size == g_W[g_c].key.size && (cur) <= &g_W[g_c]))))
/* argmax: ties go to the HIGHEST index (LevelDB FindLargest scans from the back) */
#define POST_LARGEST(cur) ((cur) == NULL ? !g_W[g_c].valid : \
  (IS_WRAP(cur) && (cur)->valid && (!g_W[g_c].valid || (cur)->key.size > g_W[g_c].key.size || ((cur)->key.size == g_W[g_c].key.size && (cur) >= &g_W[g_c]))))
#define MI_WORLD(mi) ((mi) == &g_mi && g_mi.children == g_W && g_mi.n == g_n && g_mi.comparator == &stub_cmp && g_n >= 1 && g_n <= (1 << 20) && g_c < (size_t)g_n && \
  g_W != NULL && __CPROVER_rw_ok(g_W, WSZ * (size_t)g_n))

void c_find_smallest_u(ldb_mergeiter_t *mi)
__CPROVER_requires(MI_WORLD(mi))
__CPROVER_assigns(mi->current, g_cmp_calls)
__CPROVER_ensures(mi->current == NULL || __CPROVER_pointer_in_range_dfcc(g_W, mi->current, g_W + (g_n - 1)))
__CPROVER_ensures(POST_SMALLEST(mi->current))
;
void c_find_largest_u(ldb_mergeiter_t *mi)
__CPROVER_requires(MI_WORLD(mi))
__CPROVER_assigns(mi->current, g_cmp_calls)
__CPROVER_ensures(mi->current == NULL || __CPROVER_pointer_in_range_dfcc(g_W, mi->current, g_W + (g_n - 1)))
__CPROVER_ensures(POST_LARGEST(mi->current))
;

/* ---------------------------------------------------------------- harness */
/* n wrappers with ARBITRARY content (heap object of symbolic size) */
static void mk_world(void) {
  IN_INT(in_n); IN_SIZE(in_c); IN_SIZE(in_f); IN_INT(in_dir);
  ASSUME(in_n >= 1 && in_n <= (1 << 20));
  ASSUME(in_c < (size_t)in_n && in_f < (size_t)in_n);
  g_n = in_n; g_c = in_c; g_f = in_f;
  g_W = malloc((size_t)in_n * sizeof(ldb_wrapiter_t));
  ASSUME(g_W != NULL);
  IT_C.ptr = &GC; IT_C.table = &cur_table; IT_C.cmp = &stub_cmp; IT_C.cleanup_head.func = NULL; IT_C.cleanup_head.next = NULL;
  IT_O.ptr = &GO; IT_O.table = &cur_table; IT_O.cmp = &stub_cmp; IT_O.cleanup_head.func = NULL; IT_O.cleanup_head.next = NULL;
  GC.valid = nondet_int() != 0; GC.rank = nondet_size(); GC.status = nondet_int();
  GO.valid = nondet_int() != 0; GO.rank = nondet_size(); GO.status = nondet_int();
  GC.n_first = GC.n_last = GC.n_seek = GC.n_next = GC.n_prev = GC.n_status = 0; GC.seek_rank = 0;
  GO.n_first = GO.n_last = GO.n_seek = GO.n_next = GO.n_prev = GO.n_status = 0; GO.seek_rank = 0;
  /* the tracked child: an arbitrary sorted sequence; what first / last / seek(pivot) can see of it */
  g_pivot = nondet_size();
  GC.nonempty = nondet_int() != 0; GC.min = nondet_size(); GC.max = nondet_size(); GC.has_ge = nondet_int() != 0; GC.ge = nondet_size();
  ASSUME(!GC.nonempty || GC.min <= GC.max);
  ASSUME(!GC.has_ge || (GC.nonempty && GC.ge >= g_pivot && GC.min <= GC.ge && GC.ge <= GC.max && (GC.min < g_pivot || GC.ge == GC.min)));
  ASSUME(GC.has_ge || !GC.nonempty || GC.max < g_pivot);
  GO.nonempty = 0; GO.min = GO.max = GO.ge = 0; GO.has_ge = 0;
  g_calls = 0; g_hook = 0; g_bad = 0; g_badval = 0; g_badidx = 0; g_c_asked_at = 0; g_cmp_calls = 0;
  g_mi.comparator = &stub_cmp; g_mi.children = g_W; g_mi.n = in_n;
  g_mi.direction = in_dir ? LDB_REVERSE : LDB_FORWARD;
  /* current before the call: NULL or anything (first / last / seek / find_* / status do not read it) */
  g_mi.current = NULL;
}

void h_find_smallest_u(void) {
  ldb_wrapiter_t c0;
  mk_world();
  c0 = g_W[g_c];
  ldb_mergeiter_find_smallest(&g_mi);
  CHECK(POST_SMALLEST(g_mi.current), "find_smallest: current = a valid child whose key is <= the key of ANY valid child (ties: the lowest index), NULL only if no child is valid");
  CHECK(g_W[g_c].iter == c0.iter && g_W[g_c].valid == c0.valid && g_W[g_c].key.data == c0.key.data && g_W[g_c].key.size == c0.key.size, "find_smallest: wrappers not changed");
  CHECK(g_mi.children == g_W && g_mi.comparator == &stub_cmp && g_mi.n == g_n && GC.n_first + GC.n_last + GC.n_seek + GC.n_next + GC.n_prev == 0 && g_calls == 0, "find_smallest: children not moved, array / comparator / n untouched");
  CANARY();
}
void h_find_largest_u(void) {
  ldb_wrapiter_t c0;
  mk_world();
  c0 = g_W[g_c];
  ldb_mergeiter_find_largest(&g_mi);
  CHECK(POST_LARGEST(g_mi.current), "find_largest: current = a valid child whose key is >= the key of ANY valid child (ties: the highest index), NULL only if no child is valid");
  CHECK(g_W[g_c].iter == c0.iter && g_W[g_c].valid == c0.valid && g_W[g_c].key.data == c0.key.data && g_W[g_c].key.size == c0.key.size, "find_largest: wrappers not changed");
  CHECK(g_mi.children == g_W && g_mi.comparator == &stub_cmp && g_mi.n == g_n && GC.n_first + GC.n_last + GC.n_seek + GC.n_next + GC.n_prev == 0 && g_calls == 0, "find_largest: children not moved, array / comparator / n untouched");
  CANARY();
}

/* status: every wrapper holds the shared other child, wrapper g_c the tracked child */
void h_status_u(void) {
  int r; ldb_wrapiter_t w;
  mk_world();
  w = nondet_wrap(); w.iter = &IT_O;
  __CPROVER_array_set(g_W, w);
  g_W[g_c].iter = &IT_C;
  r = ldb_mergeiter_status(&g_mi);
  CHECK(r == (g_bad ? g_badval : LDB_OK), "merge status: the first non-OK child status in child order, OK if every child is OK");
  CHECK(g_bad ? g_calls == g_badidx + 1 : g_calls == (unsigned)g_n, "merge status: children are asked one by one until the first non-OK answer, all of them if none");
  CHECK(GC.n_status == ((!g_bad || g_badidx >= g_c) ? 1u : 0u), "merge status: child j is asked exactly once unless an earlier child was non-OK");
  CHECK(GC.n_status == 0 || g_c_asked_at == g_c, "merge status: children are asked in index order");
  CHECK(r != LDB_OK || GC.status == LDB_OK, "merge status: OK only if EVERY child is OK");
  CHECK(!(g_bad && g_badidx == g_c) || r == GC.status, "merge status: the reported status is that child's status");
  CANARY();
}

/* first / last / seek: wrappers arbitrary; wrapper j holds F_ITER(j) for every j (stated at the indices the proof looks at) */
static void positioning_world(void) {
  mk_world();
  g_hook = 1;
  g_W[0].iter = F_ITER(0); g_W[g_c].iter = &IT_C;
  ASSUME(g_W[g_f].iter == F_ITER(g_f));
  { IN_INT(in_cur); ASSUME(in_cur >= -1 && in_cur < g_n); g_mi.current = in_cur < 0 ? NULL : &g_W[in_cur]; }
}
#define WRAP_COHERENT ((g_W[g_c].valid != 0) == (GC.valid != 0) && (!GC.valid || g_W[g_c].key.size == GC.rank) && g_W[g_c].iter == &IT_C)
#define FRAME_OK (g_mi.children == g_W && g_mi.comparator == &stub_cmp && g_mi.n == g_n && g_W[g_f].iter == F_ITER(g_f))

void h_first_u(void) {
  positioning_world();
  ldb_mergeiter_first(&g_mi);
  CHECK(g_calls == (unsigned)g_n, "merge first: exactly one positioning call per child");
  CHECK(GC.n_first == 1 && GC.n_last + GC.n_seek + GC.n_next + GC.n_prev == 0, "merge first: EVERY child is positioned by exactly one first() and nothing else");
  CHECK(GC.valid == GC.nonempty && (!GC.valid || GC.rank == GC.min), "merge first: every child stands on its first entry");
  CHECK(WRAP_COHERENT, "merge: every wrapper caches its child's valid()/key() after the operation");
  CHECK(POST_SMALLEST(g_mi.current), "merge: current is the child holding the smallest key (ties by child order), NULL iff exhausted");
  CHECK(g_mi.direction == LDB_FORWARD, "merge: direction recorded");
  CHECK(FRAME_OK, "merge: children array, comparator, n and the wrappers' iterators untouched");
  CANARY();
}
void h_last_u(void) {
  positioning_world();
  ldb_mergeiter_last(&g_mi);
  CHECK(g_calls == (unsigned)g_n, "merge last: exactly one positioning call per child");
  CHECK(GC.n_last == 1 && GC.n_first + GC.n_seek + GC.n_next + GC.n_prev == 0, "merge last: EVERY child is positioned by exactly one last() and nothing else");
  CHECK(GC.valid == GC.nonempty && (!GC.valid || GC.rank == GC.max), "merge last: every child stands on its last entry");
  CHECK(WRAP_COHERENT, "merge: every wrapper caches its child's valid()/key() after the operation");
  CHECK(POST_LARGEST(g_mi.current), "merge: current is the child holding the largest key (ties by child order), NULL iff exhausted");
  CHECK(g_mi.direction == LDB_REVERSE, "merge: direction recorded");
  CHECK(FRAME_OK, "merge: children array, comparator, n and the wrappers' iterators untouched");
  CANARY();
}
void h_seek_u(void) {
  ldb_slice_t t;
  positioning_world();
  t.data = NULL; t.size = g_pivot; t.alloc = 0;
  ldb_mergeiter_seek(&g_mi, &t);
  CHECK(g_calls == (unsigned)g_n, "merge seek: exactly one positioning call per child");
  CHECK(GC.n_seek == 1 && GC.seek_rank == g_pivot && GC.n_first + GC.n_last + GC.n_next + GC.n_prev == 0, "merge seek: EVERY child is positioned by exactly one seek(target) and nothing else");
  CHECK(GC.valid == GC.has_ge && (!GC.valid || (GC.rank == GC.ge && GC.rank >= g_pivot)), "merge seek: every child stands on its first entry >= target");
  CHECK(WRAP_COHERENT, "merge: every wrapper caches its child's valid()/key() after the operation");
  CHECK(POST_SMALLEST(g_mi.current), "merge: current is the child holding the smallest key (ties by child order), NULL iff exhausted");
  CHECK(!g_W[g_c].valid || g_W[g_c].key.size >= g_pivot, "merge seek: every valid child (so also current) stands on a key >= target");
  CHECK(g_mi.direction == LDB_FORWARD, "merge: direction recorded");
  CHECK(FRAME_OK, "merge: children array, comparator, n and the wrappers' iterators untouched");
  CANARY();
}
