/* units/dbc_u.c - ldb_do_compaction_work over an UNBOUNDED input (loop contracts)
 *   dbc.droprule : the DROP RULE for one arbitrary tracked entry k and its predecessor k-1 (ghost-index method),
 *                  smallest_snapshot, and the install gate (whole input consumed, iterator healthy)
 *                  (C01 K6, C06 S2/S3, C11 D4, C12 E3)
 *
 * The real db_impl.c is included unmodified.  The input iterator delivers g_n entries (arbitrary); entries k-1 and k
 * have fixed ghost contents, all other entries answer nondeterministically at every question.  Output records are
 * abstracted by ONE summary object (per-output metadata is the business of dbc.drop / dbc.open / dbc.finish /
 * dbc.install in units/dbc.c); the outputs vector is a pre-populated array + counter.
 */
#include "verif.h"
int nondet_int(void);
uint64_t nondet_u64(void);
size_t nondet_size(void);

#include "db_impl.c"

#define SHUT(db) (*(int *)&(db)->shutting_down)
#define HASIMM(db) (*(int *)&(db)->has_imm)

/* ------------------------------------------------------------------ ghost */
/* ghost state written inside the main loop (one object = one assigns target) and outside it */
struct ghost_loop { size_t pos, allocs, pending_puts; int in_err; uint64_t next_file, alloc_number, fname_number, b_entries, ukbuf_uid;
  int b_live, b_state, f_live, c_fin, c_sync, c_close, c_verify, viter_live, v_rc, ukbuf_set, status_calls, held; unsigned added_k, decided_k, locks, unlocks; } G;
struct ghost_once { int firsts, in_destroys, in_creates, apply_rc, apply_in_err, apply_open, ss_checked; unsigned indel_calls, apply_calls, apply_indel, broadcasts;
  size_t apply_pos, apply_af, pending_dels; } H;
ldb_t *g_db;
#define g_pos G.pos
#define g_in_err G.in_err
#define g_next_file G.next_file
#define g_alloc_number G.alloc_number
#define g_fname_number G.fname_number
#define g_allocs G.allocs
#define g_pending_puts G.pending_puts
#define g_b_live G.b_live
#define g_b_state G.b_state
#define g_b_entries G.b_entries
#define g_f_live G.f_live
#define g_c_fin G.c_fin
#define g_c_sync G.c_sync
#define g_c_close G.c_close
#define g_c_verify G.c_verify
#define g_viter_live G.viter_live
#define g_v_rc G.v_rc
#define g_added_k G.added_k
#define g_decided_k G.decided_k
#define g_ukbuf_set G.ukbuf_set
#define g_ukbuf_uid G.ukbuf_uid
#define g_status_calls G.status_calls
#define g_held G.held
#define g_locks G.locks
#define g_unlocks G.unlocks
#define g_firsts H.firsts
#define g_in_destroys H.in_destroys
#define g_in_creates H.in_creates
#define g_indel_calls H.indel_calls
#define g_apply_calls H.apply_calls
size_t g_af_calls;
#define g_apply_rc H.apply_rc
#define g_apply_pos H.apply_pos
#define g_apply_af H.apply_af
#define g_apply_in_err H.apply_in_err
#define g_apply_open H.apply_open
#define g_apply_indel H.apply_indel
#define g_broadcasts H.broadcasts
#define g_ss_checked H.ss_checked
#define g_pending_dels H.pending_dels
size_t g_n, g_tk;                      /* input length, cursor, tracked index */
int t_parse0, t_parse1, t_type1, t_base1;    /* entry k-1 (suffix 0) and entry k (suffix 1) */
uint64_t t_uid0, t_uid1, t_seq0, t_seq1;
uint8_t *g_key_base, *g_val_base;
uint64_t g_S;                                /* ghost snapshot */
struct ldb_tablegen_s { int dummy; };
struct ldb_wfile_s { int dummy; };
ldb_tablegen_t g_builder_obj; ldb_wfile_t g_wfile_obj;
ldb_iter_t g_input_obj, g_viter_obj; int g_in_state, g_viter_state;
ldb_output_t g_top_out;                      /* summary object for all output records */
ldb_filemeta_t g_in_file;                    /* summary object for all input files */
ldb_snapshot_t g_snap1, g_snap2; uint64_t g_ss;
ldb_cstate_t *g_state;
ldb_compaction_t g_c; ldb_versions_t g_versions; ldb_comparator_t g_ucmp; ldb_readopt_t g_ropt;
char g_tc_obj; ldb_version_t g_iv_obj;

#define MAXSEQ 72057594037927935ull
#define SPEC_DROP_K (t_parse1 && ((g_tk > 0 && t_parse0 && t_uid0 == t_uid1 && t_seq0 <= g_ss) || (t_type1 == LDB_TYPE_DELETION && t_seq1 <= g_ss && t_base1)))

/* ---------------------------------------------------------- thread model */
void ldb_mutex_lock(ldb_mutex_t *m) { __CPROVER_assert(m == &g_db->mutex && !g_held, "lock: DB mutex not held"); g_held = 1; g_locks++; }
void ldb_mutex_unlock(ldb_mutex_t *m) {
  __CPROVER_assert(m == &g_db->mutex && g_held, "unlock: DB mutex held");
  if (!g_ss_checked) {
    uint64_t adv = nondet_u64();
    __CPROVER_assert(g_state->smallest_snapshot == g_ss, "S2: smallest_snapshot = sequence of the OLDEST live snapshot, else last_sequence, fixed before the mutex is released");
    __CPROVER_assert(g_in_creates == 1, "the input iterator is built under the mutex");
    g_ss_checked = 1;
    /* other threads run: writes advance last_sequence, snapshots come and go */
    __CPROVER_assume(adv < (1ull << 40));
    g_db->versions->last_sequence += adv;
    g_snap1.sequence = nondet_u64(); g_snap2.sequence = nondet_u64();
    g_db->snapshots.head.next = nondet_int() ? &g_db->snapshots.head : nondet_int() ? &g_snap1 : &g_snap2;
  }
  g_held = 0; g_unlocks++;
}
void ldb_cond_broadcast(ldb_cond_t *cv) { __CPROVER_assert(cv == &g_db->background_work_finished_signal && g_held, "broadcast on the background signal, under the mutex"); g_broadcasts++; }

/* ------------------------------------------------------------ small env */
int64_t ldb_now_usec(void) { return 0; }
void ldb_log(ldb_logger_t *logger, const char *fmt, ...) { }
const char *ldb_strerror(int code) { return "e"; }
const char *ldb_versions_summary(const ldb_versions_t *vset, char *scratch) { return "s"; }
const ldb_readopt_t *ldb_readopt_import(void) { return &g_ropt; }
void *ldb_malloc(size_t size) {
  void *p;
  if (g_state != NULL) return &g_top_out;          /* output records: one summary object */
  p = malloc(size); __CPROVER_assume(p != NULL); return p;
}
void ldb_vector_init(ldb_vector_t *z) {
  size_t cap = nondet_size();
  __CPROVER_assume(cap > g_n && cap < ((size_t)1 << 40));
  z->items = malloc(cap * sizeof(void *)); __CPROVER_assume(z->items != NULL);
  __CPROVER_array_set(z->items, (void *)&g_top_out);   /* pre-populated: every slot names the summary record */
  z->length = 0; z->alloc = cap;
}
void ldb_vector_push(ldb_vector_t *z, const void *x) {
  __CPROVER_assert(z == &g_state->outputs && x == (const void *)&g_top_out && g_held, "G3: the new output is registered under the mutex");
  __CPROVER_assert(z->length < z->alloc, "at most one output per input entry");
  z->length++;
}
void *ldb_vector_top(const ldb_vector_t *z) { return z->items[z->length - 1]; }

uint64_t ldb_versions_new_file_number(ldb_versions_t *vset) {
  __CPROVER_assert(g_held && vset == g_db->versions, "G3: output file numbers are allocated under the mutex");
  g_allocs++; g_alloc_number = g_next_file; return g_next_file++;
}
int ldb_rb_set64_put(rb_tree_t *tree, uint64_t item) {
  __CPROVER_assert(tree == &g_db->pending_outputs && g_held && item == g_alloc_number && g_pending_puts + 1 == g_allocs, "G3: the freshly allocated output number is protected in pending_outputs at once, under the mutex");
  g_pending_puts++; return 1;
}
int ldb_rb_set64_del(rb_tree_t *tree, uint64_t item) { g_pending_dels++; return 1; }
int ldb_table_filename(char *buf, size_t size, const char *dbname, uint64_t num) {
  __CPROVER_assert(num == g_alloc_number && dbname == g_db->dbname, "the output file is named after the number just allocated");
  g_fname_number = num; return nondet_int() ? 1 : 0;
}

/* ------------------------------------------------------- output file model */
int ldb_truncfile_create(const char *filename, ldb_wfile_t **file) {
  int rc = nondet_int();
  __CPROVER_assert(!g_held && !g_f_live && g_fname_number == g_alloc_number && g_pending_puts == g_allocs, "the protected output file is created with the mutex released");
  if (rc != LDB_OK) return rc;
  g_f_live = 1; g_c_fin = g_c_sync = g_c_close = g_c_verify = 0; *file = &g_wfile_obj;
  return LDB_OK;
}
int ldb_wfile_sync(ldb_wfile_t *file) {
  int rc = nondet_int();
  __CPROVER_assert(file == &g_wfile_obj && g_f_live && !g_held && g_c_fin == 1 && g_c_sync == 0, "O3: sync only after the builder finished OK");
  g_c_sync = (rc == LDB_OK) ? 1 : 2; return rc;
}
int ldb_wfile_close(ldb_wfile_t *file) {
  int rc = nondet_int();
  __CPROVER_assert(file == &g_wfile_obj && g_f_live && !g_held && g_c_sync == 1 && g_c_close == 0, "O3: close only after sync OK");
  g_c_close = (rc == LDB_OK) ? 1 : 2; return rc;
}
void ldb_wfile_destroy(ldb_wfile_t *file) { __CPROVER_assert(file == &g_wfile_obj && g_f_live, "destroys the open output file once"); g_f_live = 0; }

ldb_tablegen_t *ldb_tablegen_create(const ldb_dbopt_t *options, ldb_wfile_t *file) {
  __CPROVER_assert(options == &g_db->options && file == &g_wfile_obj && g_f_live && !g_b_live, "the builder writes the output file just created");
  g_b_live = 1; g_b_state = 0; g_b_entries = 0;
  return &g_builder_obj;
}
uint64_t ldb_tablegen_entries(const ldb_tablegen_t *tb) { __CPROVER_assert(tb == &g_builder_obj && g_b_live, "live builder"); return g_b_entries; }
uint64_t ldb_tablegen_size(const ldb_tablegen_t *tb) { __CPROVER_assert(tb == &g_builder_obj && g_b_live, "live builder"); return nondet_u64(); }
void ldb_tablegen_add(ldb_tablegen_t *tb, const ldb_slice_t *key, const ldb_slice_t *value) {
  size_t idx = (size_t)(key->data - g_key_base);
  __CPROVER_assert(tb == &g_builder_obj && g_b_live && g_b_state == 0 && !g_held, "add to the open builder, mutex released");
  __CPROVER_assert(idx == g_pos && idx < g_n && value->data == g_val_base + idx, "the key/value added are the input iterator's current entry");
  if (idx == g_tk) g_added_k++;
  __CPROVER_assume(g_b_entries < (1ull << 62));
  g_b_entries++;
}
int ldb_tablegen_finish(ldb_tablegen_t *tb) {
  int rc = nondet_int();
  __CPROVER_assert(tb == &g_builder_obj && g_b_live && g_b_state == 0 && !g_held, "finish of the open builder, mutex released");
  __CPROVER_assert(g_in_err == LDB_OK, "D4: a table is finished only while the input iterator reports no error");
  g_b_state = 1; g_c_fin = (rc == LDB_OK) ? 1 : 2;
  return rc;
}
void ldb_tablegen_abandon(ldb_tablegen_t *tb) { __CPROVER_assert(tb == &g_builder_obj && g_b_live && g_b_state == 0, "abandon of the open builder"); g_b_state = 2; g_c_fin = 3; }
void ldb_tablegen_destroy(ldb_tablegen_t *tb) { __CPROVER_assert(tb == &g_builder_obj && g_b_live && g_b_state != 0, "a builder is destroyed only after finish or abandon"); g_b_live = 0; }

static int v_status(const void *p) { __CPROVER_assert(g_viter_live, "status of the verification iterator"); g_c_verify = (g_v_rc == LDB_OK) ? 1 : 2; return g_v_rc; }
static const ldb_itertbl_t g_vtable = { 0, 0, 0, 0, 0, 0, 0, 0, 0, v_status };
ldb_iter_t *ldb_tables_iterate(ldb_tables_t *cache, const ldb_readopt_t *options, uint64_t file_number, uint64_t file_size, ldb_table_t **tableptr) {
  __CPROVER_assert(cache == g_db->table_cache && !g_held && file_number == g_alloc_number, "verification read of the output just written, mutex released");
  __CPROVER_assert(g_c_fin == 1 && g_c_sync == 1 && g_c_close == 1, "O3: verification only after finish, sync and close succeeded");
  g_v_rc = nondet_int(); g_viter_live = 1;
  return &g_viter_obj;
}
void ldb_iter_destroy(ldb_iter_t *it) {
  if (it == &g_input_obj) g_in_destroys++;
  else { __CPROVER_assert(it == &g_viter_obj && g_viter_live, "destroys the verification iterator once"); g_viter_live = 0; }
}

/* ---------------------------------------------------------- input iterator */
static void maybe_err(void) { if (g_in_err == LDB_OK && nondet_int()) { g_in_err = nondet_int(); __CPROVER_assume(g_in_err != LDB_OK); } }
static int in_valid(const void *p) { return g_firsts > 0 && g_pos < g_n; }
static void in_first(void *p) { __CPROVER_assert(!g_held && g_firsts == 0, "input is read with the mutex released"); g_pos = 0; g_firsts++; maybe_err(); }
static void in_next(void *p) {
  __CPROVER_assert(!g_held && g_firsts == 1 && g_pos < g_n, "next on a valid input iterator, mutex released");
  g_pos++; maybe_err();
  if (nondet_int()) SHUT(g_db) = 1;
}
static ldb_slice_t in_key(const void *p) { ldb_slice_t s; __CPROVER_assert(g_pos < g_n, "key of a valid iterator"); s.data = g_key_base + g_pos; s.size = nondet_size(); s.alloc = 0; __CPROVER_assume(s.size >= 8); return s; }
static ldb_slice_t in_value(const void *p) { ldb_slice_t s; __CPROVER_assert(g_pos < g_n, "value of a valid iterator"); s.data = g_val_base + g_pos; s.size = nondet_size(); s.alloc = 0; return s; }
static int in_status(const void *p) { g_status_calls++; return g_in_err; }
static const ldb_itertbl_t g_in_table = { 0, in_valid, in_first, 0, 0, in_next, 0, in_key, in_value, in_status };
ldb_iter_t *ldb_inputiter_create(ldb_versions_t *vset, ldb_compaction_t *c) {
  __CPROVER_assert(g_held && vset == g_db->versions && c == &g_c, "input iterator over the picked compaction, created under the mutex");
  __CPROVER_assert(g_state->smallest_snapshot == g_ss, "S2: smallest_snapshot is fixed before the input iterator is built");
  g_in_creates++;
  g_input_obj.ptr = &g_in_state; g_input_obj.table = &g_in_table;
  return &g_input_obj;
}

/* ---------------------------------------- keys, comparator, compaction hints */
static uint64_t uid_at(size_t idx) { return idx == g_tk ? t_uid1 : idx + 1 == g_tk ? t_uid0 : nondet_u64(); }
int ldb_pkey_import(ldb_pkey_t *z, const ldb_slice_t *x) {
  size_t idx = (size_t)(x->data - g_key_base);
  int parse; uint64_t seq; int type;
  __CPROVER_assert(idx == g_pos && idx < g_n, "the key parsed is the iterator's current key");
  if (idx == g_tk) { g_decided_k++; parse = t_parse1; seq = t_seq1; type = t_type1; }
  else if (idx + 1 == g_tk) { parse = t_parse0; seq = t_seq0; type = nondet_int() ? LDB_TYPE_VALUE : LDB_TYPE_DELETION; }
  else { parse = nondet_int() ? 1 : 0; seq = nondet_u64(); __CPROVER_assume(seq < MAXSEQ); type = nondet_int() ? LDB_TYPE_VALUE : LDB_TYPE_DELETION; }
  if (!parse) return 0;
  z->user_key.data = x->data; z->user_key.size = x->size - 8; z->user_key.alloc = 0;
  z->sequence = seq; z->type = (ldb_valtype_t)type;
  return 1;
}
void ldb_buffer_init(ldb_buffer_t *z) { z->data = NULL; z->size = 0; z->alloc = 0; }
void ldb_buffer_clear(ldb_buffer_t *z) { }
void ldb_buffer_reset(ldb_buffer_t *z) { z->size = 0; g_ukbuf_set = 0; }
void ldb_buffer_set(ldb_buffer_t *z, const uint8_t *xp, size_t xn) {
  size_t idx = (size_t)(xp - g_key_base);
  __CPROVER_assert(idx == g_pos, "the remembered user key is the current entry's user key");
  z->size = xn; g_ukbuf_set = 1; g_ukbuf_uid = uid_at(idx);
}
static int u_compare(const ldb_comparator_t *cmp, const ldb_slice_t *x, const ldb_slice_t *y) {
  size_t i = (size_t)(x->data - g_key_base);
  __CPROVER_assert(cmp == &g_ucmp && i == g_pos && i < g_n, "user comparator, current entry's user key on the left");
  __CPROVER_assert(g_ukbuf_set, "the remembered user key is compared only when one is remembered");
  return uid_at(i) == g_ukbuf_uid ? 0 : nondet_int() ? -1 : 1;
}
int ldb_compaction_should_stop_before(ldb_compaction_t *c, const ldb_slice_t *ikey) {
  __CPROVER_assert(c == &g_c && (size_t)(ikey->data - g_key_base) == g_pos, "should_stop_before is asked about the current key");
  return nondet_int() ? 1 : 0;
}
int ldb_compaction_is_base_level_for_key(ldb_compaction_t *c, const ldb_slice_t *user_key) {
  size_t idx = (size_t)(user_key->data - g_key_base);
  __CPROVER_assert(c == &g_c && idx == g_pos, "is_base_level_for_key is asked about the current user key");
  return idx == g_tk ? t_base1 : nondet_int() ? 1 : 0;
}
void ldb_ikey_init(ldb_ikey_t *k) { k->data = NULL; k->size = 0; k->alloc = 0; }
void ldb_ikey_clear(ldb_ikey_t *k) { }
void ldb_ikey_copy(ldb_ikey_t *z, const ldb_ikey_t *x) { z->data = x->data; z->size = x->size; }

/* ------------------------------------------------------------ edit / apply */
void ldb_compaction_add_input_deletions(ldb_compaction_t *c, ldb_edit_t *edit) { __CPROVER_assert(c == &g_c && edit == &g_c.edit && g_held, "the inputs of THIS compaction are deleted in its own edit"); g_indel_calls++; }
void ldb_edit_add_file(ldb_edit_t *edit, int level, uint64_t number, uint64_t file_size, const ldb_ikey_t *smallest, const ldb_ikey_t *largest) {
  __CPROVER_assert(edit == &g_c.edit && level == g_c.level + 1, "outputs are added to the compaction's edit at level+1");
  g_af_calls++;
}
int ldb_versions_apply(ldb_versions_t *vset, ldb_edit_t *edit, ldb_mutex_t *mu) {
  __CPROVER_assert(g_held && mu == &g_db->mutex && vset == g_db->versions && edit == &g_c.edit, "apply is entered with the mutex held, on the compaction's edit");
  g_apply_calls++; g_apply_af = g_af_calls; g_apply_indel = g_indel_calls; g_apply_in_err = g_in_err; g_apply_pos = g_pos; g_apply_open = g_b_live;
  g_held = 0; g_held = 1;
  g_apply_rc = nondet_int();
  return g_apply_rc;
}

/* ------------------------------------------------------------------ contract */
#define WORK_GHOST G, H, g_af_calls, g_input_obj, g_viter_obj, g_top_out, g_snap1, g_snap2, g_versions.last_sequence

int c_work(ldb_t *db, ldb_cstate_t *state)
__CPROVER_requires(db == g_db && state == g_state && g_held && __CPROVER_rw_ok(db, sizeof(*db)) && __CPROVER_rw_ok(state, sizeof(*state)))
__CPROVER_assigns(WORK_GHOST, __CPROVER_object_whole(db), __CPROVER_object_whole(state))
__CPROVER_ensures(g_held && g_locks - __CPROVER_old(g_locks) == g_unlocks - __CPROVER_old(g_unlocks))
__CPROVER_ensures(g_ss_checked && g_in_creates == 1 && g_in_destroys == 1 && g_firsts == 1 && !g_viter_live)
/* the drop rule for the tracked entry */
__CPROVER_ensures(g_added_k <= 1 && g_decided_k <= 1 && g_added_k <= g_decided_k)
__CPROVER_ensures(g_added_k == 1 ==> !SPEC_DROP_K)
__CPROVER_ensures((__CPROVER_return_value == LDB_OK && g_tk < g_n) ==> (g_decided_k == 1 && g_added_k == (SPEC_DROP_K ? 0u : 1u)))
/* S3: the entry a snapshot S >= smallest_snapshot reads survives (unless it is a base-level tombstone) */
__CPROVER_ensures((__CPROVER_return_value == LDB_OK && g_tk < g_n && g_S >= g_ss && t_parse1 && t_seq1 <= g_S && !(g_tk > 0 && t_parse0 && t_uid0 == t_uid1 && t_seq0 <= g_S))
                  ==> (g_added_k == 1 || (t_type1 == LDB_TYPE_DELETION && t_seq1 <= g_ss && t_base1)))
/* install gate */
__CPROVER_ensures(g_apply_calls <= 1)
__CPROVER_ensures(g_apply_calls == 1 ==> (g_apply_pos == g_n && g_apply_in_err == LDB_OK && !g_apply_open && g_apply_indel == 1 && g_apply_af == state->outputs.length && __CPROVER_return_value == g_apply_rc))
__CPROVER_ensures(g_apply_calls == 0 ==> __CPROVER_return_value != LDB_OK)
__CPROVER_ensures(g_in_err != LDB_OK ==> (__CPROVER_return_value != LDB_OK && g_apply_calls == 0))
__CPROVER_ensures(__CPROVER_return_value != LDB_OK ==> (db->bg_error != LDB_OK && g_broadcasts >= 1))
__CPROVER_ensures(__CPROVER_return_value == LDB_OK ==> (db->bg_error == LDB_OK && state->builder == NULL && state->outfile == NULL && g_pos == g_n))
__CPROVER_ensures(g_pending_puts == g_allocs && g_pending_dels == 0 && state->outputs.length == g_allocs)
;

void h_work_u(void) {
  ldb_t *db = malloc(sizeof(ldb_t));
  ldb_cstate_t *state;
  int nsnap, l;
  size_t n0, n1, cap0, cap1;
  __CPROVER_assume(db != NULL);
  g_db = db; db->versions = &g_versions; db->table_cache = (ldb_tables_t *)&g_tc_obj;
  g_ucmp.compare = u_compare; db->internal_comparator.user_comparator = &g_ucmp;
  g_versions.last_sequence = nondet_u64(); __CPROVER_assume(g_versions.last_sequence < MAXSEQ - (1ull << 41));
  __CPROVER_assume(db->bg_error == LDB_OK);
  db->imm = NULL; HASIMM(db) = 0;
  g_held = 1; g_locks = 1; g_unlocks = 0; g_broadcasts = 0;
  g_n = nondet_size(); __CPROVER_assume(g_n < ((size_t)1 << 40));
  g_tk = nondet_size(); g_pos = 0;
  g_key_base = malloc(g_n + 1); g_val_base = malloc(g_n + 1); __CPROVER_assume(g_key_base != NULL && g_val_base != NULL);
  t_parse0 = nondet_int() ? 1 : 0; t_parse1 = nondet_int() ? 1 : 0; t_base1 = nondet_int() ? 1 : 0;
  t_type1 = nondet_int() ? LDB_TYPE_VALUE : LDB_TYPE_DELETION;
  t_uid0 = nondet_u64(); t_uid1 = nondet_u64(); t_seq0 = nondet_u64(); t_seq1 = nondet_u64(); g_S = nondet_u64();
  __CPROVER_assume(t_seq0 < MAXSEQ && t_seq1 < MAXSEQ);
  g_in_err = LDB_OK; g_firsts = g_in_destroys = g_in_creates = g_status_calls = 0; g_added_k = g_decided_k = 0; g_ukbuf_set = 0;
  g_b_live = g_b_state = 0; g_f_live = 0; g_c_fin = g_c_sync = g_c_close = g_c_verify = 0; g_viter_live = 0;
  g_next_file = nondet_u64(); g_allocs = g_pending_puts = g_pending_dels = 0;
  g_indel_calls = g_apply_calls = 0; g_af_calls = 0; g_ss_checked = 0;
  /* compaction: arbitrary numbers of input files */
  l = nondet_int(); __CPROVER_assume(l >= 0 && l < LDB_NUM_LEVELS - 1); g_c.level = l;
  g_c.max_output_file_size = nondet_u64(); g_c.input_version = &g_iv_obj;
  n0 = nondet_size(); n1 = nondet_size(); cap0 = nondet_size(); cap1 = nondet_size();
  __CPROVER_assume(n0 >= 1 && n0 < cap0 && cap0 < ((size_t)1 << 40) && n1 < cap1 && cap1 < ((size_t)1 << 40));
  g_c.inputs[0].items = malloc(cap0 * sizeof(void *)); g_c.inputs[1].items = malloc(cap1 * sizeof(void *));
  __CPROVER_assume(g_c.inputs[0].items != NULL && g_c.inputs[1].items != NULL);
  __CPROVER_array_set(g_c.inputs[0].items, (void *)&g_in_file); __CPROVER_array_set(g_c.inputs[1].items, (void *)&g_in_file);
  g_c.inputs[0].length = n0; g_c.inputs[0].alloc = cap0; g_c.inputs[1].length = n1; g_c.inputs[1].alloc = cap1;
  /* snapshot list: 0, 1 or 2 live snapshots, oldest first */
  nsnap = nondet_int(); __CPROVER_assume(nsnap >= 0 && nsnap <= 2);
  g_snap1.sequence = nondet_u64(); g_snap2.sequence = nondet_u64();
  __CPROVER_assume(g_snap1.sequence <= g_snap2.sequence && g_snap2.sequence <= g_versions.last_sequence);
  ldb_snaplist_init(&db->snapshots);
  if (nsnap >= 1) { db->snapshots.head.next = &g_snap1; g_snap1.prev = &db->snapshots.head; g_snap1.next = &db->snapshots.head; db->snapshots.head.prev = &g_snap1; }
  if (nsnap == 2) { g_snap1.next = &g_snap2; g_snap2.prev = &g_snap1; g_snap2.next = &db->snapshots.head; db->snapshots.head.prev = &g_snap2; }
  g_ss = nsnap ? g_snap1.sequence : g_versions.last_sequence;
  g_viter_obj.ptr = &g_viter_state; g_viter_obj.table = &g_vtable;
  g_state = NULL;
  state = ldb_cstate_create(&g_c);
  g_state = state;
  ldb_do_compaction_work(db, state);
  CANARY();
}
