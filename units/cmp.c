/* units/cmp.c - bounded units for src/util/comparator.c (bytewise comparator; C16, C07)
 * The real comparator.c and buffer.c are included unmodified.  The oracle is an
 * independent lexicographic comparison (bytes as unsigned, a proper prefix sorts first). */
#include "verif.h"
#include "util/buffer.c"
#include "util/comparator.c"

#define CMP_MAX 6
#define SIGN(v) ((v) < 0 ? -1 : (v) > 0 ? 1 : 0)

static int spec_lex(const uint8_t *x, size_t xn, const uint8_t *y, size_t yn) {
  size_t i;
  for (i = 0; i < xn && i < yn; i++) {
    if (x[i] != y[i])
      return x[i] < y[i] ? -1 : 1;
  }
  return xn < yn ? -1 : xn > yn ? 1 : 0;
}

void h_slice_compare(void) {
  IN_SIZE(in_xn); IN_SIZE(in_yn); IN_BYTES(in_x, CMP_MAX); IN_BYTES(in_y, CMP_MAX); ldb_slice_t x, y; int r;
  ASSUME(in_xn <= CMP_MAX && in_yn <= CMP_MAX);
  x.data = in_x; x.size = in_xn; x.alloc = 0; y.data = in_y; y.size = in_yn; y.alloc = 0;
  CHECK(ldb_bytewise_comparator->compare == slice_compare && ldb_bytewise_comparator->shortest_separator == shortest_separator &&
        ldb_bytewise_comparator->short_successor == short_successor, "bytewise comparator: vtable bound to the three functions");
  r = slice_compare(ldb_bytewise_comparator, &x, &y);
  CHECK(SIGN(r) == spec_lex(in_x, in_xn, in_y, in_yn), "slice_compare: lexicographic on unsigned bytes, a proper prefix sorts first");
  CANARY();
}

/* start buffer: heap, capacity == size (as ldb_buffer_set leaves it) or larger */
#define MK_START(z) \
  IN_SIZE(in_sn); IN_SIZE(in_salloc); IN_BYTES(in_s, CMP_MAX); ldb_buffer_t z; uint8_t old[CMP_MAX]; size_t q; \
  ASSUME(in_sn <= in_salloc && in_salloc <= CMP_MAX && in_salloc >= 1); \
  z.data = malloc(in_salloc); ASSUME(z.data != NULL); z.size = in_sn; z.alloc = in_salloc; \
  for (q = 0; q < CMP_MAX; q++) { old[q] = in_s[q]; if (q < in_salloc) z.data[q] = in_s[q]; }

void h_shortest_separator(void) {
  IN_SIZE(in_ln); IN_BYTES(in_l, CMP_MAX); ldb_slice_t limit; uint8_t *d0; size_t j;
  MK_START(start);
  ASSUME(in_ln <= CMP_MAX);
  limit.data = in_l; limit.size = in_ln; limit.alloc = 0; d0 = start.data;
  shortest_separator(ldb_bytewise_comparator, &start, &limit);
  CHECK(start.data == d0 && start.alloc == in_salloc && start.size <= in_sn, "shortest_separator: never grows or reallocates the key");
  if (spec_lex(old, in_sn, in_l, in_ln) < 0) {
    CHECK(spec_lex(old, in_sn, start.data, start.size) <= 0, "shortest_separator: start <= result");
    CHECK(spec_lex(start.data, start.size, in_l, in_ln) < 0, "shortest_separator: result < limit (index keys separate the blocks)");
  }
  /* shape: unchanged, or the first differing byte incremented and everything after it dropped */
  if (start.size == in_sn && (in_sn == 0 || start.data[in_sn - 1] == old[in_sn - 1])) {
    for (j = 0; j < in_sn; j++) CHECK(start.data[j] == old[j], "shortest_separator: an unshortened key is unchanged");
  } else {
    CHECK(start.size >= 1 && start.data[start.size - 1] == (uint8_t)(old[start.size - 1] + 1) && old[start.size - 1] != 0xff,
          "shortest_separator: exactly one byte is incremented (never 0xff)");
    for (j = 0; j + 1 < start.size; j++) CHECK(start.data[j] == old[j], "shortest_separator: the common prefix is kept");
  }
  CANARY();
}

void h_short_successor(void) {
  uint8_t *d0; size_t j;
  MK_START(key);
  d0 = key.data;
  short_successor(ldb_bytewise_comparator, &key);
  CHECK(key.data == d0 && key.alloc == in_salloc && key.size <= in_sn, "short_successor: never grows or reallocates the key");
  CHECK(spec_lex(old, in_sn, key.data, key.size) <= 0, "short_successor: result >= key");
  if (key.size == in_sn && (in_sn == 0 || key.data[in_sn - 1] == old[in_sn - 1])) {
    for (j = 0; j < in_sn; j++) CHECK(key.data[j] == old[j] && old[j] == 0xff, "short_successor: only a run of 0xff bytes is left alone");
  } else {
    CHECK(key.size >= 1 && key.data[key.size - 1] == (uint8_t)(old[key.size - 1] + 1) && old[key.size - 1] != 0xff,
          "short_successor: the first byte that is not 0xff is incremented, the rest dropped");
    for (j = 0; j + 1 < key.size; j++) CHECK(key.data[j] == old[j] && old[j] == 0xff, "short_successor: only leading 0xff bytes are kept");
  }
  CANARY();
}
