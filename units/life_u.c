/* units/life_u.c - ldb_recover (src/db_impl.c), UNBOUNDED twin of units/life_recover.c
 *   life.recover.u      : ldb_recover against the property-level spec (C05 R3/R4, C03 P2/P4, C13 G4, C20)
 *   life.recover_call.u : the same function against the call carrier c_recover_u (c_recover of contracts/life.h with the
 *                         allocator clause stated for an arbitrary tracked log instead of the four slots of the bounded trace)
 *
 * The real db_impl.c is included unmodified.  The directory listing has an ARBITRARY number of entries (int, >= -1) and the
 * recovered version names an ARBITRARY number of table files.  Both loops of ldb_recover are closed by loop contracts
 * (loops/lifeu.json).  Universally quantified facts are proved for arbitrary tracked elements (ghost-index method):
 *   g_k            an arbitrary directory entry, with an arbitrary parse result (g_parses_k, g_type_k, g_num_k);
 *                  every other entry parses to an arbitrary result at the moment it is examined;
 *   u_E            an arbitrary table number, u_E_member: the recovered version names it, u_E_absent: no directory entry
 *                  carries that number;
 *   u_q            an arbitrary position of the collected (unsorted) log list;
 *   u_t            an arbitrary position of the sorted log list (and the adjacent pair u_t, u_t+1).
 * ldb_array_sort is a MODEL (array.c is not part of this unit): the result is a fresh array that is a permutation of the
 * collected one (tracked: position g_pos_k -> u_spos_k, position u_q -> u_t, injective) and is sorted with respect to the
 * comparator THE CODE PASSES (the real compare_ascending is called on the tracked adjacent pair).
 * ldb_recover_log_file is replaced by the ghost carrier c_recover_log_file_u: the same facts as c_recover_log_file
 * (contracts/life.h, trusted.json) with the trace kept for the tracked elements instead of four array slots.
 */
#include "verif.h"
int nondet_int(void);
uint64_t nondet_u64(void);
size_t nondet_size(void);

#include "db_impl.c"
#include "contracts/dbgc.h"
#include "contracts/life.h"

/* ------------------------------------------------------------ ghost state */
/* directory: RG.dlen entries, names g_filenames[i]; tracked entry g_k = (g_parses_k, g_type_k, g_num_k)   (contracts/dbgc.h) */
uint64_t u_minlog, u_prevlog;      /* log_number / prev_log_number of the recovered version set                             */
int u_should_k;                    /* the tracked entry belongs to the recovery set (fixed when the MANIFEST was recovered) */
int u_cur_parsed, u_cur_pushed; ldb_filetype_t u_cur_type; uint64_t u_cur_num;   /* the entry examined last                */
/* expected tables */
uint64_t u_E; int u_E_member, u_E_absent, u_E_present;
unsigned long u_nexp, u_exp_size;  /* number of tables named by the version; how many of them are not ticked off yet        */
/* log list */
uint64_t *u_items, *u_sorted; unsigned long u_cap;
unsigned long u_q; uint64_t u_qval;               /* tracked position of the collected list and the number stored there    */
unsigned long u_t; uint64_t u_tval, u_rep_t;       /* tracked position of the sorted list, its content, what was replayed   */
unsigned long u_spos_k;                            /* where the sort put the tracked entry's number                         */
unsigned u_replayed_k, u_marked_k;                 /* replays / allocator marks of the tracked entry                        */
/* the replay before the current one */
uint64_t u_last_num; int u_last_rc, u_last_flag;

#define SHOULD_K(minlog, prevlog) (g_parses_k && g_type_k == LDB_FILE_LOG && (g_num_k >= (minlog) || g_num_k == (prevlog)))
#define IN_RECOVERY_SET(x, minlog, prevlog) ((x) >= (minlog) || (x) == (prevlog))

static ldb_comparator_t g_ucmp;
static const char g_cmp_name[] = "verif.cmp";
static ldb_versions_t g_versions;

/* ghost contract of ldb_recover_log_file as ldb_recover sees it (functional spec: db.recoverlog).  Same facts as
   c_recover_log_file: records (number, last_log flag, status); arbitrary status; max_sequence only grows; may demand a MANIFEST
   save (then nothing may be garbage-collected before the edit is applied); the last log may be handed back for reuse together
   with its memtable.  The preconditions are the obligations of the property on the CALLER, for an arbitrary call. */
int c_recover_log_file_u(ldb_t *db, uint64_t log_number, int last_log, int *save_manifest, ldb_edit_t *edit, ldb_seqnum_t *max_sequence)
__CPROVER_requires(db == g_db && g_held && KG.locked)
/* every log replayed before this one was replayed successfully and marked in the allocator */
__CPROVER_requires(RG.nmarked == TG.n && (TG.n == 0 || u_last_rc == LDB_OK))
__CPROVER_requires(*max_sequence == TG.maxseq)
__CPROVER_requires(RG.set_clears == 0 && RG.sorts == 1)
__CPROVER_requires(*save_manifest == 0 || *save_manifest == 1)
/* no more replays than logs collected; only the newest log is flagged as last (candidate for reuse) */
__CPROVER_requires(TG.n < g_pushed_total && last_log == (TG.n + 1 == g_pushed_total ? 1 : 0))
/* call number i replays position i of the sorted list: the tracked entry's number at u_spos_k, the tracked position's content at u_t */
__CPROVER_requires(!(g_pushed_k && (unsigned long)TG.n == u_spos_k) || log_number == g_num_k)
__CPROVER_requires((unsigned long)TG.n != u_t || log_number == u_tval)
/* logs are replayed in ascending number order (the order in which they were written): tracked adjacent pair */
__CPROVER_requires((unsigned long)TG.n != u_t + 1 || log_number >= u_rep_t)
__CPROVER_assigns(TG.n, TG.maxseq, TG.saved_by_replay, u_last_num, u_last_rc, u_last_flag, u_rep_t, u_replayed_k, *save_manifest, *max_sequence, g_gc_allowed,
                  db->logfile, db->log, db->mem, db->logfile_number)
__CPROVER_ensures(TG.n == __CPROVER_old(TG.n) + 1 && u_last_num == log_number && u_last_flag == last_log && u_last_rc == __CPROVER_return_value)
__CPROVER_ensures(u_rep_t == ((unsigned long)__CPROVER_old(TG.n) == u_t ? log_number : __CPROVER_old(u_rep_t)))
__CPROVER_ensures(u_replayed_k == __CPROVER_old(u_replayed_k) + ((g_pushed_k && (unsigned long)__CPROVER_old(TG.n) == u_spos_k) ? 1u : 0u))
__CPROVER_ensures(*max_sequence >= __CPROVER_old(*max_sequence) && TG.maxseq == *max_sequence)
__CPROVER_ensures(__CPROVER_return_value != LDB_OK ==> *max_sequence == __CPROVER_old(*max_sequence))
__CPROVER_ensures((*save_manifest == __CPROVER_old(*save_manifest) && g_gc_allowed == __CPROVER_old(g_gc_allowed) && TG.saved_by_replay == __CPROVER_old(TG.saved_by_replay)) ||
                  (*save_manifest == 1 && g_gc_allowed == 0 && TG.saved_by_replay == 1))
__CPROVER_ensures((db->logfile == __CPROVER_old(db->logfile) && db->log == __CPROVER_old(db->log) && db->mem == __CPROVER_old(db->mem) && db->logfile_number == __CPROVER_old(db->logfile_number)) ||
                  (__CPROVER_return_value == LDB_OK && last_log && db->logfile == g_rlogfile && db->log == g_rlog && db->mem == g_rmem && db->logfile_number == log_number))
;

/* call protocol of ldb_recover as ldb_open relies on it: c_recover (contracts/life.h) clause by clause; the allocator clause
   (G4/P4) is stated for the arbitrary tracked directory entry instead of the four slots of the bounded trace */
int c_recover_u(ldb_t *db, ldb_edit_t *edit, int *save_manifest)
__CPROVER_requires(db == g_db && g_held && db->db_lock == NULL && !KG.locked && KG.lock_calls == 0 && KG.unlock_calls == 0)
__CPROVER_requires(__CPROVER_rw_ok(save_manifest, sizeof(*save_manifest)) && *save_manifest == 0 && db->mem == NULL && db->log == NULL && db->logfile == NULL)
__CPROVER_requires(NG.calls == 0 && NG.cur_installed == 0)
__CPROVER_requires(db->versions == &g_versions)
__CPROVER_assigns(RG, TG, NG, KG, g_gc_allowed, *save_manifest, db->db_lock, db->mem, db->log, db->logfile, db->logfile_number,
                  g_versions.log_number, g_versions.prev_log_number, g_versions.last_sequence, g_versions.next_file_number,
                  u_minlog, u_prevlog, u_should_k, u_cur_parsed, u_cur_pushed, u_cur_type, u_cur_num, u_E_present, u_exp_size, u_sorted, u_qval, u_tval, u_rep_t, u_spos_k,
                  u_replayed_k, u_marked_k, u_last_num, u_last_rc, u_last_flag, g_cur_parse_idx, g_pushed_k, g_pos_k, g_pushed_total, __CPROVER_object_whole(u_items))
__CPROVER_ensures(g_held)
/* the handle owns the LOCK exactly when db_lock is set (so that a failed open can release it) */
__CPROVER_ensures((db->db_lock != NULL) == (KG.locked == 1) && (KG.locked == 0 || KG.locked == 1) && KG.unlock_calls == 0 && KG.lock_calls <= 1)
__CPROVER_ensures(__CPROVER_return_value == LDB_OK ==> KG.locked == 1)
/* after a successful recovery garbage may be collected at once only if nothing recovered still waits for a MANIFEST edit */
__CPROVER_ensures(__CPROVER_return_value == LDB_OK ==> (g_gc_allowed || *save_manifest == 1))
__CPROVER_ensures(*save_manifest == 0 || *save_manifest == 1)
__CPROVER_ensures(db->db_lock == NULL || db->db_lock == g_lock_obj_p)
/* a memtable is handed back only together with the reused log it belongs to (all three, or none) */
__CPROVER_ensures((db->mem == NULL && db->log == NULL && db->logfile == NULL) || (db->mem == g_rmem && db->log == g_rlog && db->logfile == g_rlogfile && g_rmem != NULL && g_rlog != NULL && g_rlogfile != NULL))
/* G4/P4: every log of the recovery set was replayed and the file-number allocator ends above it */
__CPROVER_ensures(__CPROVER_return_value == LDB_OK ==> (u_replayed_k == ((RG.dlen > 0 && u_should_k) ? 1u : 0u) && (u_replayed_k == 0 || g_versions.next_file_number > g_num_k)))
;

/* ---------------------------------------------------------- thread model */
void ldb_mutex_lock(ldb_mutex_t *m) { __CPROVER_assert(m == &g_db->mutex && !g_held, "lock: DB mutex not held"); g_held = 1; g_locks++; }
void ldb_mutex_unlock(ldb_mutex_t *m) { __CPROVER_assert(m == &g_db->mutex && g_held, "unlock: DB mutex held"); g_held = 0; g_unlocks++; }

/* ------------------------------------------------------------ env models */
void ldb_log(ldb_logger_t *logger, const char *fmt, ...) { }
const char *ldb_strerror(int code) { return "e"; }
int ldb_system_error(void) { int e = nondet_int(); __CPROVER_assume(e != LDB_OK); return e; }
int ldb_create_dir(const char *dirname) { RG.mkdirs++; return nondet_int(); }
int ldb_lock_filename(char *buf, size_t size, const char *dbname) { buf[0] = 'L'; buf[1] = 0; return nondet_int() ? 1 : 0; }
int ldb_current_filename(char *buf, size_t size, const char *dbname) { buf[0] = 'C'; buf[1] = 0; return nondet_int() ? 1 : 0; }
int ldb_lock_file(const char *filename, ldb_filelock_t **lock) {
  int rc = nondet_int();
  __CPROVER_assert(g_held, "recovery runs under the DB mutex");
  __CPROVER_assert(KG.lock_calls == 0 && !KG.locked, "the LOCK is taken once");
  __CPROVER_assert(lock == &g_db->db_lock, "the lock object is stored in the handle (so that close / failed open release it)");
  __CPROVER_assert(RG.exists_calls == 0 && NG.calls == 0 && RG.vrecover_calls == 0 && RG.children_calls == 0 && TG.n == 0,
                   "the LOCK is taken before the database is inspected, created or recovered");
  KG.lock_calls++; RG.lock_rc = rc;
  if (rc != LDB_OK) return rc;
  KG.locked = 1; *lock = g_lock_obj_p;
  return LDB_OK;
}
int ldb_file_exists(const char *filename) {
  __CPROVER_assert(KG.locked, "CURRENT is looked for only with the LOCK held");
  RG.exists_calls++;
  return RG.db_exists;
}
int ldb_versions_recover(ldb_versions_t *vset, int *save_manifest) {
  int rc = nondet_int();
  __CPROVER_assert(KG.locked && g_held && vset == g_db->versions, "the MANIFEST is read with the LOCK held");
  __CPROVER_assert(RG.db_exists || NG.cur_installed, "the MANIFEST is read only if CURRENT exists (it existed, or the database was just created successfully)");
  __CPROVER_assert(!(RG.db_exists && g_db->options.error_if_exists), "error_if_exists: an existing database is refused before anything is read");
  RG.vrecover_calls++; RG.vrecover_rc = rc;
  if (rc != LDB_OK) return rc;
  vset->log_number = nondet_u64(); vset->prev_log_number = nondet_u64(); vset->last_sequence = nondet_u64();
  vset->next_file_number = nondet_u64(); __CPROVER_assume(vset->next_file_number < (1ull << 62));
  u_minlog = vset->log_number; u_prevlog = vset->prev_log_number; u_should_k = SHOULD_K(u_minlog, u_prevlog) ? 1 : 0;
  RG.seq_manifest = vset->last_sequence;
  if (nondet_int()) *save_manifest = 1;   /* MANIFEST not reused */
  g_gc_allowed = 1;                       /* the on-disk version set is now known */
  return LDB_OK;
}
int ldb_get_children(const char *path, char ***out) {
  __CPROVER_assert(KG.locked && RG.vrecover_calls == 1 && RG.vrecover_rc == LDB_OK, "the directory is listed after the MANIFEST was recovered, with the LOCK held");
  RG.children_calls++;
  if (RG.dlen < 0) return -1;
  *out = g_filenames;
  return RG.dlen;
}
void ldb_free_children(char **list, int len) { __CPROVER_assert(list == g_filenames && len == RG.dlen, "the listing is released"); RG.free_children++; }
int ldb_parse_filename(ldb_filetype_t *type, uint64_t *num, const char *name) {
  int idx = (int)RG.parse_calls;
  RG.parse_calls++;
  g_cur_parse_idx = idx; u_cur_pushed = 0;
  if (idx == g_k) {
    __CPROVER_assert(name == g_name_base + g_k, "entries are examined once each, in directory order");
    u_cur_parsed = g_parses_k; u_cur_type = g_type_k; u_cur_num = g_num_k;
    if (g_parses_k) { *type = g_type_k; *num = g_num_k; }
    return g_parses_k;
  }
  __CPROVER_assume(name != g_name_base + g_k);   /* directory entries have distinct names */
  if (nondet_int()) {
    int t = nondet_int(); uint64_t n = nondet_u64();
    __CPROVER_assume(t >= LDB_FILE_LOG && t <= LDB_FILE_INFO);
    __CPROVER_assume(n < (1ull << 62));            /* file numbers on disk are far from wrapping the 64-bit allocator */
    if (u_E_absent) __CPROVER_assume(n != u_E);    /* scenario: no directory entry carries the tracked table number */
    *type = (ldb_filetype_t)t; *num = n;
    u_cur_parsed = 1; u_cur_type = (ldb_filetype_t)t; u_cur_num = n;
    return 1;
  }
  u_cur_parsed = 0;
  return 0;
}

/* the set of table numbers the recovered version names: arbitrary size; membership is fixed for the tracked number u_E and
   arbitrary for every other number (the set never holds fewer elements than it is known to hold) */
void ldb_rb_tree_init(rb_tree_t *tree, rb_cmp_f *compare, void *arg) { tree->size = 0; RG.set_inits++; }
void ldb_rb_tree_clear(rb_tree_t *tree, rb_clear_f *clear) { RG.set_clears++; }
void ldb_versions_add_files(ldb_versions_t *vset, rb_set64_t *live) {
  __CPROVER_assert(vset == g_db->versions && RG.set_inits == 1 && RG.parse_calls == 0, "expected files = the tables of the recovered version, computed before the directory is examined");
  RG.addfiles_calls++;
  u_exp_size = u_nexp; u_E_present = u_E_member;
  live->size = u_exp_size;
}
int ldb_rb_set64_del(rb_tree_t *tree, uint64_t item) {
  __CPROVER_assert(RG.addfiles_calls == 1, "files are ticked off after the expected set was filled");
  __CPROVER_assert(u_cur_parsed && item == u_cur_num, "the number ticked off is the number of the directory entry just examined");
  if (u_E_present && item == u_E) { u_E_present = 0; u_exp_size--; tree->size = u_exp_size; return 1; }
  if (item != u_E && u_exp_size > (unsigned long)u_E_present && nondet_int()) { u_exp_size--; tree->size = u_exp_size; return 1; }
  return 0;
}

/* integer array: room for one number per directory entry (push never reallocates in this model) */
void ldb_array_init(ldb_array_t *z) { z->items = u_items; z->length = 0; z->alloc = u_cap; RG.arr_inits++; }
void ldb_array_clear(ldb_array_t *z) { RG.arr_clears++; }
void ldb_array_push(ldb_array_t *z, uint64_t x) {
  __CPROVER_assert(z->length < z->alloc, "at most one log per directory entry");
  __CPROVER_assert(u_cur_parsed && !u_cur_pushed && x == u_cur_num && u_cur_type == LDB_FILE_LOG && IN_RECOVERY_SET(x, u_minlog, u_prevlog),
                   "only log files of the directory with number >= log_number or == prev_log_number are collected, each once");
  u_cur_pushed = 1;
  if (g_cur_parse_idx == g_k) { g_pushed_k++; g_pos_k = z->length; }
  if (z->length == u_q) u_qval = x;
  z->items[z->length++] = x;
  g_pushed_total++;
}
void ldb_array_sort(ldb_array_t *z, int (*cmp)(uint64_t, uint64_t)) {
  uint64_t *s = malloc(u_cap * sizeof(uint64_t));   /* arbitrary content */
  __CPROVER_assume(s != NULL);
  __CPROVER_assert(TG.n == 0 && z->items == u_items && z->length == g_pushed_total, "logs are sorted before the first one is replayed");
  RG.sorts++;
  /* permutation: the tracked entry's number is somewhere in the result */
  if (g_pushed_k) { u_spos_k = nondet_size(); __CPROVER_assume(u_spos_k < z->length && s[u_spos_k] == g_num_k); }
  /* sorted with respect to the comparator passed by the code */
  if (u_t + 1 < z->length) __CPROVER_assume(cmp(s[u_t], s[u_t + 1]) <= 0);
  /* permutation: position u_t of the result holds what was collected at position u_q; positions correspond one to one */
  if (u_t < z->length) {
    __CPROVER_assume(u_q < z->length && s[u_t] == z->items[u_q]);
    if (g_pushed_k) __CPROVER_assume((g_pos_k == u_q) == (u_spos_k == u_t));
    u_tval = s[u_t];
  }
  z->items = s; u_sorted = s;
}

void ldb_versions_mark_file_number(ldb_versions_t *vset, uint64_t number) {
  __CPROVER_assert(vset == &g_versions && TG.n >= 1 && RG.nmarked == TG.n - 1 && number == u_last_num && u_last_rc == LDB_OK,
                   "the allocator is moved past exactly the log that was just replayed successfully");
  __CPROVER_assume(number < (1ull << 62));   /* file numbers on disk are far from wrapping the 64-bit allocator (every collected number was parsed from a name) */
  RG.nmarked++;
  if (g_pushed_k && (unsigned long)(TG.n - 1) == u_spos_k) u_marked_k++;
  if (vset->next_file_number <= number) vset->next_file_number = number + 1;   /* spec of ver.numbers */
}

/* ldb_new_db is replaced by c_new_db (life.newdb); its callees are never reached in this unit */

static ldb_t *life_db(void) {
  ldb_t *db = malloc(sizeof(ldb_t));
  __CPROVER_assume(db != NULL);
  g_db = db; db->versions = &g_versions;
  g_ucmp.name = g_cmp_name;
  db->internal_comparator.user_comparator = &g_ucmp;
  db->dbname[0] = 'd'; db->dbname[1] = 0;
  g_held = 1; g_locks = 1; g_unlocks = 0;
  return db;
}

static void recover_inputs(ldb_t *db) {
  size_t nn;
  g_lock_obj_p = malloc(1); __CPROVER_assume(g_lock_obj_p != NULL);
  g_rlogfile = malloc(1); g_rlog = malloc(1); g_rmem = malloc(1);
  __CPROVER_assume(g_rlogfile != NULL && g_rlog != NULL && g_rmem != NULL);
  /* the directory: any length; name i is the pointer base+i (distinct entries have distinct names) */
  __CPROVER_assume(RG.dlen >= -1);
  nn = (size_t)(RG.dlen > 0 ? RG.dlen : 0) + 1;
  g_name_base = malloc(nn); g_filenames = malloc(nn * sizeof(char *));
  __CPROVER_assume(g_name_base != NULL && g_filenames != NULL);
  __CPROVER_assume(g_k >= 0 && (RG.dlen <= 0 || g_k < RG.dlen));
  if (RG.dlen > 0) g_filenames[g_k] = g_name_base + g_k;
  __CPROVER_assume(g_parses_k == 0 || g_parses_k == 1);
  __CPROVER_assume(g_type_k >= LDB_FILE_LOG && g_type_k <= LDB_FILE_INFO);
  __CPROVER_assume(g_num_k < (1ull << 62));       /* file numbers on disk are far from wrapping the 64-bit allocator */
  /* the tracked table number */
  __CPROVER_assume((u_E_member == 0 || u_E_member == 1) && (u_E_absent == 0 || u_E_absent == 1));
  __CPROVER_assume(u_nexp >= (unsigned long)u_E_member && u_nexp < (1ul << 40));
  __CPROVER_assume(!(u_E_absent && g_parses_k && g_num_k == u_E));
  /* the log list: room for every directory entry */
  __CPROVER_assume(u_cap >= nn && u_cap < (1ul << 40));
  u_items = malloc(u_cap * sizeof(uint64_t)); __CPROVER_assume(u_items != NULL);
  u_sorted = NULL;
  __CPROVER_assume(u_q < (1ul << 40) && u_t < (1ul << 40));

  db->db_lock = NULL; db->mem = NULL; db->log = NULL; db->logfile = NULL;
  KG.locked = 0; KG.lock_calls = 0; KG.unlock_calls = 0;
  NG.calls = 0; NG.cur_installed = 0; NG.creates = NG.create_ok = NG.winit = NG.exports = NG.appends = NG.append_ok = NG.syncs = NG.sync_ok = 0;
  NG.closes = NG.close_ok = NG.fdestroy = NG.removes = NG.setcur_calls = 0; NG.clock = 0; NG.edit_inits = NG.edit_clears = NG.buf_inits = NG.buf_clears = 0;
  RG.mkdirs = RG.exists_calls = RG.vrecover_calls = RG.children_calls = RG.addfiles_calls = RG.set_inits = RG.set_clears = RG.arr_inits = RG.arr_clears = RG.sorts = RG.free_children = 0;
  TG.n = 0; RG.nmarked = 0; TG.maxseq = 0; TG.saved_by_replay = 0; RG.parse_calls = 0; RG.vrecover_rc = LDB_OK;
  g_gc_allowed = 0;
  g_pushed_k = 0; g_pushed_total = 0; g_pos_k = 0; g_cur_parse_idx = -1;
  u_cur_parsed = u_cur_pushed = 0; u_E_present = 0; u_exp_size = 0; u_should_k = 0;
  u_replayed_k = u_marked_k = 0; u_spos_k = 0; u_last_rc = LDB_OK; u_last_flag = 0;
  __CPROVER_assume(RG.db_exists == 0 || RG.db_exists == 1);
}

void h_recover_u(void) {
  ldb_t *db = life_db();
  ldb_edit_t *edit = malloc(sizeof(ldb_edit_t));
  int save_manifest = 0;
  int create, eie, rc;
  uint64_t minlog, prevlog;
  __CPROVER_assume(edit != NULL);
  recover_inputs(db);
  create = db->options.create_if_missing != 0; eie = db->options.error_if_exists != 0;

  rc = ldb_recover(db, edit, &save_manifest);

  minlog = g_versions.log_number; prevlog = g_versions.prev_log_number;
  CHECK(g_held && g_locks == 1 && g_unlocks == 0, "recover: runs entirely under the DB mutex");
  CHECK((db->db_lock != NULL) == (KG.locked == 1) && KG.unlock_calls == 0, "recover: the handle records the LOCK exactly when it holds it");
  CHECK(RG.set_inits == RG.set_clears && RG.arr_inits == RG.arr_clears && RG.free_children == (RG.children_calls == 1 && RG.dlen >= 0 ? 1u : 0u), "recover: bookkeeping released on every path");
  if (KG.lock_calls == 0 || RG.lock_rc != LDB_OK) {
    CHECK(rc != LDB_OK && !KG.locked && RG.exists_calls == 0 && NG.calls == 0 && RG.vrecover_calls == 0 && TG.n == 0, "LOCK not obtained: error returned, nothing inspected, created or recovered");
    if (KG.lock_calls) CHECK(rc == RG.lock_rc, "a busy or failed LOCK is reported with its own status");
  }
  if (rc == LDB_OK) CHECK(KG.locked, "OK only with the LOCK held");
  if (RG.exists_calls) {
    if (!RG.db_exists && !create) CHECK(rc == LDB_INVALID && NG.calls == 0 && RG.vrecover_calls == 0 && RG.children_calls == 0 && TG.n == 0, "missing database without create_if_missing: INVALID, nothing created, nothing recovered");
    if (RG.db_exists && eie) CHECK(rc == LDB_INVALID && NG.calls == 0 && RG.vrecover_calls == 0 && RG.children_calls == 0 && TG.n == 0, "existing database with error_if_exists: refused with INVALID, nothing read or modified");
    if (RG.db_exists) CHECK(NG.calls == 0, "an existing database is never re-created");
    if (!RG.db_exists && create) CHECK(NG.calls == 1, "missing database with create_if_missing: created");
    if (NG.calls && !NG.cur_installed) CHECK(rc != LDB_OK && RG.vrecover_calls == 0, "failed creation is reported, no recovery attempted");
  }
  if (RG.vrecover_calls) {
    CHECK(RG.vrecover_calls == 1, "the MANIFEST is recovered once");
    if (RG.vrecover_rc != LDB_OK) CHECK(rc == RG.vrecover_rc && RG.children_calls == 0 && TG.n == 0, "failed MANIFEST recovery (e.g. comparator mismatch: INVALID) is returned as is; no log is replayed");
  }
  if (RG.children_calls && RG.dlen < 0) CHECK(rc != LDB_OK && TG.n == 0, "unreadable directory: error, nothing replayed");
  if (RG.children_calls && RG.dlen >= 0) {
    CHECK(RG.parse_calls == (unsigned)RG.dlen, "every directory entry is examined");
    CHECK(u_should_k == (SHOULD_K(minlog, prevlog) ? 1 : 0) && u_minlog == minlog && u_prevlog == prevlog, "the recovery set is defined by log_number / prev_log_number of the recovered version set");
    /* R3: every table of the recovered version must be on disk (for the arbitrary table number u_E) */
    if (u_E_member && u_E_absent) CHECK(u_E_present && rc == LDB_CORRUPTION && TG.n == 0, "a table named by the recovered version is missing from the directory: CORRUPTION, no log replayed");
    if (u_E_member && RG.dlen > 0 && g_parses_k && g_num_k == u_E) CHECK(!u_E_present, "a directory entry of ANY type carrying the number of an expected table ticks it off");
    if (!u_E_member) CHECK(!u_E_present, "a number the version does not name is never counted as missing");
    if (u_exp_size != 0) CHECK(rc == LDB_CORRUPTION && TG.n == 0 && RG.sorts == 0, "expected tables left over after the whole directory was examined: CORRUPTION, no log replayed");
    else {
      /* P2: logs replayed = { n : n >= log_number or n == prev_log_number }, ascending, each marked in the allocator.
         g_pushed_total = number of directory entries in the recovery set (each collected once: model of ldb_array_push) */
      CHECK(TG.n <= g_pushed_total && g_pushed_total <= (unsigned)RG.dlen, "no log is replayed twice and none outside the recovery set");
      CHECK(g_pushed_k == (RG.dlen > 0 && u_should_k ? 1u : 0u), "a directory entry is collected for replay iff it is a log file with number >= log_number or == prev_log_number");
      CHECK(u_replayed_k <= g_pushed_k && u_marked_k <= u_replayed_k, "an entry outside the recovery set is neither replayed nor marked; no entry is replayed twice");
      if (u_t < TG.n) {
        CHECK(u_rep_t == u_tval && u_tval == u_qval && IN_RECOVERY_SET(u_rep_t, minlog, prevlog), "every replayed number is a log file of the directory with number >= log_number or == prev_log_number");
      }
      /* ascending order and the last-log flag of every call: preconditions of c_recover_log_file_u */
      CHECK(TG.n == 0 || u_last_flag == (TG.n == g_pushed_total), "only the newest log is flagged as last (candidate for reuse)");
      if (TG.n > 0 && u_last_rc != LDB_OK) {
        CHECK(rc == u_last_rc, "a failing log replay ends recovery with that error");
        CHECK(RG.nmarked == TG.n - 1, "a log that failed to replay is not marked");
        if (g_pushed_k && (unsigned long)(TG.n - 1) == u_spos_k) CHECK(u_replayed_k == 1 && u_marked_k == 0, "a log that failed to replay is not marked");
      } else {
        CHECK(rc == LDB_OK, "all expected tables present and every log replayed: recovery succeeds");
        CHECK(TG.n == g_pushed_total, "every log with number >= log_number or == prev_log_number is replayed");
        if (RG.dlen > 0 && u_should_k) CHECK(u_replayed_k == 1, "no log of the recovery set is skipped; each is replayed exactly once");
        CHECK(RG.nmarked == TG.n && u_marked_k == u_replayed_k, "every replayed log number is marked in the file-number allocator");
        if (u_replayed_k) CHECK(g_versions.next_file_number > g_num_k, "the allocator ends above every replayed log number (no file number is reused)");
        CHECK(g_versions.last_sequence == (RG.seq_manifest > TG.maxseq ? RG.seq_manifest : TG.maxseq), "last_sequence = max(MANIFEST value, largest sequence replayed): later writes win");
        CHECK(RG.sorts == 1, "the log list is sorted once");
      }
    }
  }
  if (rc == LDB_OK) {
    CHECK(RG.vrecover_calls == 1 && RG.children_calls == 1, "OK: MANIFEST recovered and directory checked");
    CHECK(g_gc_allowed || save_manifest == 1, "OK: either nothing recovered waits for a MANIFEST edit, or save_manifest is set");
    CHECK(!TG.saved_by_replay || save_manifest == 1, "a replay that produced a table forces the MANIFEST edit to be saved");
  }
  CANARY();
}

void h_recover_call_u(void) {
  ldb_t *db = life_db();
  ldb_edit_t *edit = malloc(sizeof(ldb_edit_t));
  int save_manifest = 0;
  __CPROVER_assume(edit != NULL);
  recover_inputs(db);
  ldb_recover(db, edit, &save_manifest);
  CANARY();
}
