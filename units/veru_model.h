/* units/veru_model.h - shared UNBOUNDED model of a version for the group "veru"
 *
 * The real version_set.c is included unmodified (all statics visible).
 *
 * Keys are ABSTRACT RANKS.  A key never has bytes: the comparators are models that order keys by integers stored in
 * the key slice itself, so every copy the code makes of a key (ldb_ikey_user_key, `user_begin = file_start`,
 * `*largest_key = *large`) carries its rank along:
 *     user key      slice.size                = rank of the user key         (0 .. 2^40)
 *     internal key  slice.size - 8            = rank of its user key
 *                   slice.alloc               = tag  (sequence << 8 | type)
 *     a <_ik b  iff  urank(a) < urank(b), or urank(a) = urank(b) and tag(a) > tag(b)      (LevelDB internal key order)
 * slice.data is a token (never dereferenced).  A rank is the position of the key in the sorted set of all keys that
 * occur in the (finite) version: every finite totally ordered key set embeds into the integers, nothing is lost.
 *
 * File lists of ANY length (ghost-index method).  A level's `items` array has symbolic length; position g_k holds the
 * tracked file g_fk, position g_j (if used) the second tracked file g_fj, EVERY other position holds the one shared
 * object g_fo.  The rank fields of g_fo are a WINDOW: every loop contract lists them in its assigns clause, so each
 * loop iteration sees g_fo with fresh arbitrary ranks (subject to the constraints every untracked file satisfies,
 * restated in the invariant); within one iteration the content is fixed (one consistent file).  What is proved for
 * the arbitrary tracked position holds for every position; untracked files behave arbitrarily (a superset of all
 * consistent behaviours).
 */
#ifndef VERU_MODEL_H
#define VERU_MODEL_H
#include "verif.h"
#include "version_set.c"

ldb_versions_t nondet_versions(void);
ldb_version_t nondet_version(void);
ldb_filemeta_t nondet_filemeta(void);

#define RMAX ((size_t)1 << 40)           /* user-key ranks are < 2^40                              */
#define NMAX ((size_t)1 << 40)           /* file lists have <= 2^40 entries                        */
#define TAGMAX ((((uint64_t)1 << 56) - 1) << 8 | 1)

/* ghost state named in loops/veru.json: plain globals */
ldb_versions_t g_vset; ldb_version_t g_ver; ldb_comparator_t g_ucmp; ldb_dbopt_t g_opt;
ldb_filemeta_t g_fk, g_fj, g_fo;         /* tracked file k, tracked file j, shared "other" (window) */
size_t g_n, g_k, g_j;                    /* length of the list under test, tracked positions       */
int g_lvl;                               /* level whose list is under test                         */
uint8_t g_tok[16];                       /* data tokens: identify whose key a slice is a copy of   */
/* ghost records are structs so that a loop / function contract names ONE assigns target per record (dfcc cost grows with the number of targets) */
struct veru_cmp_s { size_t ucalls, icalls;            /* comparator call counters                               */
                    const uint8_t *last_x, *last_y;   /* data tokens of the last comparison's operands          */
                    size_t last_xsize; int last_res;  /* size field of its left operand, its result             */
} g_c;
#define g_ucalls g_c.ucalls
#define g_icalls g_c.icalls
#define g_last_x g_c.last_x
#define g_last_y g_c.last_y
#define g_last_xsize g_c.last_xsize
#define g_last_res g_c.last_res
/* result-vector model (ldb_vector_push / reset with preallocated storage) */
ldb_vector_t *g_vec;                     /* the vector the code under test may append to           */
struct veru_vec_s { size_t pk, pj, posk, posj;        /* appends of the tracked files since the last reset, their positions */
                    size_t pushes, resets; } g_v;
#define g_pk g_v.pk
#define g_pj g_v.pj
#define g_posk g_v.posk
#define g_posj g_v.posj
#define g_pushes g_v.pushes
#define g_resets g_v.resets
/* range ghosts (all named in loops/veru.json, which is applied to every unit of the group) */
ldb_slice_t g_lo, g_hi; int g_has_lo, g_has_hi;   /* ver.overlap.*: user-key bounds, NULL = infinite          */
int g_ovk;                               /* ver.overlap.*: the tracked file exists and overlaps [lo, hi]        */
ldb_ikey_t g_bk, g_ek; ldb_vector_t g_inputs;     /* ver.inputs.*: begin / end internal keys, result vector    */
size_t g_lo_r, g_hi_r;                   /* user ranks of the requested bounds                                  */
struct veru_rng_s { size_t xb, xe;                    /* mirror of the current (expanded) range                              */
                    const uint8_t *xb_tok, *xe_tok; } g_r; /* whose key the current bound is a copy of                      */
#define g_xb g_r.xb
#define g_xe g_r.xe
#define g_xb_tok g_r.xb_tok
#define g_xe_tok g_r.xe_tok
/* ver.live: */
ldb_version_t g_va, g_vb;                /* windows: every version before / after the tracked one on the ring       */
void **g_oitems; size_t g_ocap;          /* a list of g_ocap entries, all &g_fo: backing store of every untracked list */
rb_set64_t g_live; uint64_t g_q; int g_q_in; size_t g_puts;
/* ver2.deletions / ver2.stop: */
ldb_compaction_t g_cmpn; ldb_edit_t g_edit;
size_t g_n0, g_n1;                       /* lengths of inputs[0] (tracked position g_k: g_fk) and inputs[1] (tracked position g_j: g_fj) */
size_t g_gi0; int g_seen0; int64_t g_ob0; uint64_t g_sum;   /* should_stop_before: state before the call, bytes of the grandparents passed */
size_t g_del_n, g_delk, g_delj;          /* remove_file calls: all / naming (level, number of g_fk) / naming (level+1, number of g_fj) */
/* ver2.base: */
ldb_slice_t g_bq; size_t g_bqr;          /* probe user key and its rank                                             */
int g_pl; size_t g_lp0;                  /* an arbitrary second level and its pointer before the call               */
/* ver.boundary.*: */
ldb_filemeta_t g_fc, g_fcj;              /* compaction-set list: its first-maximum file, an arbitrary second file   */
const ldb_vector_t *g_cfiles; size_t g_cn, g_ck, g_cj;   /* that list, its length, positions of g_fc / g_fcj           */
ldb_slice_t g_out;                       /* find_largest_key result                                                */
size_t g_kuk; uint64_t g_ktag;           /* ranks of the probe key of find_smallest_boundary_file                   */
int g_world_fixed;                       /* 1: the caller fixed the boundary witness (g_k, g_fk); 0: the contract picks it */
ldb_vector_t g_cfv; int g_store_unbounded; size_t g_cn0;
size_t g_ca; void *g_caval;              /* an arbitrary position of the given compaction set and what it held      */

#define TOK_KS (g_tok + 0)
#define TOK_KL (g_tok + 1)
#define TOK_JS (g_tok + 2)
#define TOK_JL (g_tok + 3)
#define TOK_OS (g_tok + 4)
#define TOK_OL (g_tok + 5)
#define TOK_LO (g_tok + 6)
#define TOK_HI (g_tok + 7)
#define TOK_KEY (g_tok + 8)
#define TOK_TMP (g_tok + 9)

#define SU(f) ((f).smallest.size - 8)    /* user rank of the smallest key                           */
#define ST(f) ((f).smallest.alloc)       /* tag of the smallest key                                 */
#define LU(f) ((f).largest.size - 8)
#define LT(f) ((f).largest.alloc)
#define LT_(uk1, t1, uk2, t2) ((uk1) < (uk2) || ((uk1) == (uk2) && (t1) > (t2)))
#define LE_(uk1, t1, uk2, t2) (!LT_(uk2, t2, uk1, t1))
/* shape every file satisfies: ranks in range, tags valid */
#define SHAPE(f) ((f).smallest.size >= 8 && (f).smallest.size < RMAX + 8 && (f).largest.size >= 8 && (f).largest.size < RMAX + 8 && \
                  (f).smallest.alloc <= TAGMAX && (f).largest.alloc <= TAGMAX)
/* smallest <=_ik largest */
#define WF(f) LE_(SU(f), ST(f), LU(f), LT(f))

static int sign3(int lt, int gt) {
  int r = nondet_int();
  __CPROVER_assume(r > -2147483647 - 1);
  __CPROVER_assume(lt ? r < 0 : gt ? r > 0 : r == 0);
  return r;
}
/* user comparator model: orders user keys by rank (slice.size) */
int m_ucmp(const ldb_comparator_t *c, const ldb_slice_t *x, const ldb_slice_t *y) {
  __CPROVER_assert(c == &g_ucmp, "user keys are compared under the user comparator");
  g_ucalls++; g_last_x = x->data; g_last_y = y->data; g_last_xsize = x->size;
  g_last_res = sign3(x->size < y->size, x->size > y->size);
  return g_last_res;
}
/* internal key comparator model: user rank ascending, then tag descending */
int m_icmp(const ldb_comparator_t *c, const ldb_slice_t *x, const ldb_slice_t *y) {
  __CPROVER_assert(c == &g_vset.icmp, "internal keys are compared under the version set's internal key comparator");
  __CPROVER_assert(x->size >= 8 && y->size >= 8, "internal key comparator is handed internal keys (user key + 8-byte trailer)");
  g_icalls++; g_last_x = x->data; g_last_y = y->data; g_last_xsize = x->size;
  g_last_res = sign3(LT_(x->size - 8, x->alloc, y->size - 8, y->alloc), LT_(y->size - 8, y->alloc, x->size - 8, x->alloc));
  icmp_hook(x, y, g_last_res);
  return g_last_res;
}
static void icmp_hook(const ldb_slice_t *x, const ldb_slice_t *y, int res);   /* unit-specific bookkeeping on every internal-key comparison */
static void push_other_hook(void);
static void push_hook(const void *x);   /* unit-specific bookkeeping on every append */   /* unit-specific obligation on an untracked file that is appended */
/* dbformat.c is not linked: internal keys built by the code under test are built in the rank representation */
void ldb_ikey_init(ldb_ikey_t *ikey) { ikey->data = NULL; ikey->size = 0; ikey->alloc = 0; }
void ldb_ikey_set(ldb_ikey_t *ikey, const ldb_slice_t *user_key, uint64_t sequence, ldb_valtype_t type) {
  __CPROVER_assert(sequence <= LDB_MAX_SEQUENCE, "ikey_set: sequence fits 56 bits");
  ikey->data = TOK_TMP; ikey->size = user_key->size + 8; ikey->alloc = (sequence << 8) | (uint64_t)type;
}
void ldb_ikey_clear(ldb_ikey_t *ikey) { ikey->data = NULL; ikey->size = 0; ikey->alloc = 0; }
void ldb_log(ldb_logger_t *logger, const char *fmt, ...) { }

#define CMP_GHOST g_c
#define FO_WINDOW g_fo
#define VEC_GHOST g_v
/* a contract that lists the window g_fo in its assigns clause restates which keys it stands for */
#define FO_TOKENS (g_fo.smallest.data == TOK_OS && g_fo.largest.data == TOK_OL)

/* util/vector.c is not linked.  dfcc forbids heap allocation inside a loop that is under a loop contract: vectors the code
   under test appends to have preallocated storage (the harness sizes it for the longest possible result), push never
   reallocates.  The model records where the tracked files are appended. */
void **g_store; size_t g_store_cap; size_t g_inits, g_clears;
void ldb_vector_init(ldb_vector_t *z) { z->items = g_store; z->length = 0; z->alloc = g_store_cap; g_vec = z; g_inits++; }
void ldb_vector_clear(ldb_vector_t *z) {
  __CPROVER_assert(z == g_vec, "vector model: only the result vector is released");
  z->items = NULL; z->length = 0; z->alloc = 0; g_clears++;
}
void ldb_vector_grow(ldb_vector_t *z, size_t zn) { __CPROVER_assert(z == g_vec && zn <= z->alloc, "vector model: preallocated storage is large enough"); }
void ldb_vector_push(ldb_vector_t *z, const void *x) {
  __CPROVER_assert(z == g_vec, "files are appended to the caller's result vector only");
  __CPROVER_assert(g_store_unbounded || z->length < z->alloc, "vector model: at most one append per file of the list");
  __CPROVER_assert(x == (const void *)&g_fk || x == (const void *)&g_fj || x == (const void *)&g_fo, "only files of the list are appended");
  if (x == (const void *)&g_fk) { g_pk++; g_posk = z->length; }
  else if (x == (const void *)&g_fj) { g_pj++; g_posj = z->length; }
  else push_other_hook();
  push_hook(x);
  if (g_store_unbounded) z->length++; else z->items[z->length++] = (void *)x;
  g_pushes++;
}

static void mk_file(ldb_filemeta_t *f, uint8_t *toks, uint8_t *tokl) {
  *f = nondet_filemeta();
  f->refs = 1;
  f->smallest.data = toks; f->largest.data = tokl;
  __CPROVER_assume(SHAPE(*f));
}
static void mk_world(void) {
  int l;
  g_vset = nondet_versions(); g_ver = nondet_version(); g_opt.max_file_size = nondet_size();
  g_vset.options = &g_opt; g_vset.table_cache = NULL;
  g_ucmp.name = "rank"; g_ucmp.compare = m_ucmp; g_ucmp.shortest_separator = NULL; g_ucmp.short_successor = NULL; g_ucmp.user_comparator = NULL; g_ucmp.state = NULL;
  g_vset.icmp.name = "rank.internal"; g_vset.icmp.compare = m_icmp; g_vset.icmp.shortest_separator = NULL; g_vset.icmp.short_successor = NULL;
  g_vset.icmp.user_comparator = &g_ucmp; g_vset.icmp.state = NULL;
  g_ver.vset = &g_vset; g_ver.next = &g_ver; g_ver.prev = &g_ver; g_ver.refs = 1;
  g_ver.file_to_compact = NULL; g_ver.file_to_compact_level = -1;
  g_ver.files[0].items = NULL; g_ver.files[0].length = 0; g_ver.files[0].alloc = 0;
  g_ver.files[1] = g_ver.files[0]; g_ver.files[2] = g_ver.files[0]; g_ver.files[3] = g_ver.files[0];
  g_ver.files[4] = g_ver.files[0]; g_ver.files[5] = g_ver.files[0]; g_ver.files[6] = g_ver.files[0];
  mk_file(&g_fk, TOK_KS, TOK_KL); mk_file(&g_fj, TOK_JS, TOK_JL); mk_file(&g_fo, TOK_OS, TOK_OL);
  g_ucalls = 0; g_icalls = 0; g_last_x = NULL; g_last_y = NULL; g_last_xsize = 0; g_last_res = 0;
  g_store_unbounded = 0; g_world_fixed = 1;
  g_store = NULL; g_store_cap = 0; g_inits = 0; g_clears = 0;
  g_vec = NULL; g_pk = 0; g_pj = 0; g_posk = 0; g_posj = 0; g_pushes = 0; g_resets = 0;
  (void)l;
}
/* a list of n entries: every position holds g_fo, position k (if < n) g_fk, position j (if < n, != k) g_fj */
static void **mk_items(size_t n, size_t k, size_t j) {
  void **items = malloc(n * sizeof(void *));
  __CPROVER_assume(items != NULL);
  __CPROVER_array_set(items, (void *)&g_fo);
  if (j < n) items[j] = &g_fj;
  if (k < n) items[k] = &g_fk;
  return items;
}
#endif
