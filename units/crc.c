/* units/crc.c - proof units for src/util/crc32c.h (mask/unmask) and the
 * portable CRC-32C of src/util/crc32c.c (tables, crc32c_generic)  (C15, C11, C16)
 *
 * Independent oracle: CRC-32C (Castagnoli), reflected polynomial 0x82F63B78,
 * computed bit by bit:   l = crc ^ ~0;  for each byte b: l ^= b; 8 x { l = (l >> 1) ^ (l & 1 ? 0x82F63B78 : 0) };  crc' = l ^ ~0.
 * The hardware (SSE4.2 / ARMv8) paths are NOT verified here (inline asm).
 */
#include "verif.h"
#include "util/crc32c.h"
#include "util/crc32c.c"

#define SPEC_POLY 0x82F63B78u
#define SPEC_MASK(c) ((uint32_t)((((uint32_t)(c) >> 15) | ((uint32_t)(c) << 17)) + 0xa282ead8u))
#define SPEC_UNMASK(m) ((uint32_t)((((uint32_t)((m) - 0xa282ead8u)) >> 17) | (((uint32_t)((m) - 0xa282ead8u)) << 15)))

/* one bit step of the reflected LFSR */
static uint32_t spec_step(uint32_t l) { return (l >> 1) ^ ((l & 1u) ? SPEC_POLY : 0u); }
static uint32_t spec_steps(uint32_t l, unsigned n) { unsigned i; for (i = 0; i < n; i++) l = spec_step(l); return l; }
/* bitwise reference CRC-32C extend */
static uint32_t spec_crc32c(uint32_t z, const uint8_t *p, size_t n) {
  uint32_t l = z ^ 0xffffffffu; size_t i; unsigned k;
  for (i = 0; i < n; i++) {
    l ^= p[i];
    for (k = 0; k < 8; k++) l = spec_step(l);
  }
  return l ^ 0xffffffffu;
}

#ifndef VERIF_NATIVE
uint32_t c_crc32c_mask(uint32_t crc)
__CPROVER_assigns()
__CPROVER_ensures(__CPROVER_return_value == SPEC_MASK(crc))
;
uint32_t c_crc32c_unmask(uint32_t masked_crc)
__CPROVER_assigns()
__CPROVER_ensures(__CPROVER_return_value == SPEC_UNMASK(masked_crc))
/* the inverse of mask on every 32-bit value */
__CPROVER_ensures(SPEC_MASK(__CPROVER_return_value) == masked_crc)
;
#endif

void h_mask(void) { IN_U32(in_x); uint32_t r = ldb_crc32c_mask(in_x);
  CHECK(r == SPEC_MASK(in_x), "crc32c_mask: rotate right by 15 bits, add 0xa282ead8 (mod 2^32)"); CANARY(); }
void h_unmask(void) { IN_U32(in_x); uint32_t r = ldb_crc32c_unmask(in_x);
  CHECK(r == SPEC_UNMASK(in_x), "crc32c_unmask: subtract 0xa282ead8, rotate left by 15 bits"); CANARY(); }
void h_mask_rt(void) { IN_U32(in_x);
  CHECK(ldb_crc32c_unmask(ldb_crc32c_mask(in_x)) == in_x, "crc32c: unmask(mask(x)) = x for all 2^32 x");
  CHECK(ldb_crc32c_mask(ldb_crc32c_unmask(in_x)) == in_x, "crc32c: mask(unmask(x)) = x for all 2^32 x");
  CANARY(); }

/* tables: every one of the 256 entries */
void h_tab_byte(void) { IN_U8(in_i);
  CHECK(byte_ext_table[in_i] == spec_steps(in_i, 8), "crc32c byte table: entry i = i advanced by 8 bit steps of polynomial 0x82F63B78 (reflected)");
  CANARY(); }
void h_tab_stride(void) { IN_U8(in_i);
  /* a 4-byte state word is advanced across one 16-byte swath: byte k of the word (value i << 8k) advanced by 128 bit steps */
  CHECK(stride_ext_table_3[in_i] == spec_steps((uint32_t)in_i, 128), "crc32c stride table 3: low byte advanced by 16 bytes");
  CHECK(stride_ext_table_2[in_i] == spec_steps((uint32_t)in_i << 8, 128), "crc32c stride table 2: byte 1 advanced by 16 bytes");
  CHECK(stride_ext_table_1[in_i] == spec_steps((uint32_t)in_i << 16, 128), "crc32c stride table 1: byte 2 advanced by 16 bytes");
  CHECK(stride_ext_table_0[in_i] == spec_steps((uint32_t)in_i << 24, 128), "crc32c stride table 0: high byte advanced by 16 bytes");
  CANARY(); }

/* crc32c_generic == bitwise reference; bounded: n <= CRC_MAXN bytes, alignments 0..3 */
#ifndef CRC_MAXN
#define CRC_MAXN 24
#endif
void h_generic(void) {
  uint32_t store[(CRC_MAXN + 3 + 3) / 4 + 1];   /* 4-byte aligned backing store */
  IN_SIZE(in_n); IN_SIZE(in_align); IN_U32(in_z);
  const uint8_t *p; uint32_t r;
  ASSUME(in_n <= CRC_MAXN && in_align <= 3);
  p = (const uint8_t *)store + in_align;
  r = crc32c_generic(in_z, p, in_n);
  CHECK(r == spec_crc32c(in_z, p, in_n), "crc32c_generic: equals the bit-by-bit CRC-32C (poly 0x82F63B78 reflected, init/final xor ~0) of the buffer, continuing from z");
  CANARY();
}
