/* units/ver2.c - second wave of proof units for src/version_set.c (group "ver2")
 *
 *   ver2.sort        ldb_vector_sort (real src/util/vector.c quicksort) against
 *                    "result is a permutation, sorted by the comparator", n <= 3
 *   ver2.foreach_l0  ldb_version_for_each_overlapping: level-0 RECENCY (C01 K5)
 *   ver2.base        ldb_compaction_is_base_level_for_key (C01 K6)
 *   ver2.inputs_l0   ldb_version_get_overlapping_inputs at level 0 (C14)
 *
 * Model of a version: contracts/ver2_model.h (one-byte user keys under the real
 * comparators, every file and key an object of its own).
 */
#define VER2_CHUNK_PTRS   /* no byte buffers are reallocated in this file */
#include "ver2_model.h"

/* ======================================================================
 * ver2.sort - the contract that replaces ldb_vector_sort in ver2.foreach_l0
 * ======================================================================
 * The vector holds <= 3 files of model level 0 (any subset, any order).  The
 * contract is written without dereferencing the elements in the post state:
 * NUM_OF maps an element pointer to the ghost number of that file, the
 * precondition ties the ghost numbers to the real `number` fields that the
 * real comparator newest_first reads.
 */
#define IS_L0(p) ((p) == (void *)&fm_0_0 || (p) == (void *)&fm_0_1 || (p) == (void *)&fm_0_2)
#define NUM_OF(p) ((p) == (void *)&fm_0_0 ? g_num[0][0] : (p) == (void *)&fm_0_1 ? g_num[0][1] : g_num[0][2])
#define L0_NUMS_TIED (fm_0_0.number == g_num[0][0] && fm_0_1.number == g_num[0][1] && fm_0_2.number == g_num[0][2])
/* (n0,n1,n2) is a permutation of (o0,o1,o2) restricted to the first n slots */
#define PERM1(n0, o0) ((n0) == (o0))
#define PERM2(n0, n1, o0, o1) (((n0) == (o0) && (n1) == (o1)) || ((n0) == (o1) && (n1) == (o0)))
#define PERM3(n0, n1, n2, o0, o1, o2) \
  (((n0) == (o0) && PERM2(n1, n2, o1, o2)) || ((n0) == (o1) && PERM2(n1, n2, o0, o2)) || ((n0) == (o2) && PERM2(n1, n2, o0, o1)))

void c_vector_sort(ldb_vector_t *z, int (*cmp)(void *, void *))
__CPROVER_requires(__CPROVER_rw_ok(z, sizeof(*z)) && cmp == newest_first)
__CPROVER_requires(z->length >= 1 && z->length <= 3 && __CPROVER_rw_ok(z->items, 3 * sizeof(void *)))
__CPROVER_requires(IS_L0(z->items[0]) && (z->length < 2 || IS_L0(z->items[1])) && (z->length < 3 || IS_L0(z->items[2])))
__CPROVER_requires(L0_NUMS_TIED)
/* the three slots named one by one: havocking them as typed pointers is far cheaper than a byte-wise object_upto */
__CPROVER_assigns(z->items[0], z->items[1], z->items[2])
/* same elements, each as often as before */
__CPROVER_ensures(z->length == 1 ==> PERM1(z->items[0], __CPROVER_old(z->items[0])))
__CPROVER_ensures(z->length == 2 ==> PERM2(z->items[0], z->items[1], __CPROVER_old(z->items[0]), __CPROVER_old(z->items[1])))
__CPROVER_ensures(z->length == 3 ==> PERM3(z->items[0], z->items[1], z->items[2], __CPROVER_old(z->items[0]), __CPROVER_old(z->items[1]), __CPROVER_old(z->items[2])))
/* ordered by the comparator: newest_first(a, b) <= 0 for neighbours, i.e. file numbers descend */
__CPROVER_ensures(z->length < 2 || NUM_OF(z->items[0]) >= NUM_OF(z->items[1]))
__CPROVER_ensures(z->length < 3 || NUM_OF(z->items[1]) >= NUM_OF(z->items[2]))
;

static void *g_sort_items[3];
void h_vector_sort(void) {
  IN_SIZE(in_n); IN_SIZE(in_a); IN_SIZE(in_b); IN_SIZE(in_c);
  ldb_vector_t z;
  ASSUME(in_n >= 1 && in_n <= 3 && in_a < 3 && in_b < 3 && in_c < 3);
  mk_version(); mk_level(0, 3);
  z.items = g_sort_items;   /* a typed array: cheaper for CBMC than a byte-addressed heap chunk */
  z.length = in_n; z.alloc = 3;
  /* any files of the level, in any order, repetitions allowed */
  z.items[0] = g_fmp[0][in_a]; z.items[1] = g_fmp[0][in_b]; z.items[2] = g_fmp[0][in_c];
  ldb_vector_sort(&z, newest_first);
  CANARY();
}

/* ======================================================================
 * ver2.foreach_l0 - level-0 recency of ldb_version_for_each_overlapping
 * ======================================================================
 * The callback is a recorder: it checks each visited (level, file) against the
 * expected sequence computed from the ghost scalars and asks to stop at an
 * arbitrary point.
 */
#define GETF0 3
static ldb_lkey_t g_lk; static uint8_t g_uk; static uint64_t g_lseq;
static ldb_filemeta_t *g_exp_f[GETF0 + 6]; static int g_exp_lvl[GETF0 + 6];
static size_t g_exp_n, g_calls;
static int g_stopped; static int g_cb_arg;
static ldb_slice_t g_uks, g_iks;

static int fe_cb(void *arg, int level, ldb_filemeta_t *f) {
  __CPROVER_assert(arg == &g_cb_arg, "for_each_overlapping: callback argument passed through");
  __CPROVER_assert(!g_stopped, "for_each_overlapping: no file is visited after the callback asked to stop");
  __CPROVER_assert(g_calls < g_exp_n && f == g_exp_f[g_calls] && level == g_exp_lvl[g_calls],
                   "for_each_overlapping: files are visited in recency order - level-0 files containing the key by DESCENDING file number (files not containing the key skipped), then the single candidate of each level 1..6");
  g_calls++;
  if (nondet_int()) return 1;
  g_stopped = 1;
  return 0;
}
void c_for_each_overlapping(ldb_version_t *ver, const ldb_slice_t *user_key, const ldb_slice_t *internal_key, void *arg,
                            int (*func)(void *, int, ldb_filemeta_t *))
__CPROVER_requires(ver == &g_ver && user_key == &g_uks && internal_key == &g_iks && arg == &g_cb_arg && func == fe_cb)
__CPROVER_requires(g_calls == 0 && g_stopped == 0)
__CPROVER_assigns(g_calls, g_stopped)
/* unless the callback stops the walk, every expected file is visited (NOTFOUND only after all were consulted) */
__CPROVER_ensures(!g_stopped ==> g_calls == g_exp_n)
/* never more visits than expected */
__CPROVER_ensures(g_calls <= g_exp_n)
;

static void exp_push(int l, size_t i) { g_exp_f[g_exp_n] = g_fmp[l][i]; g_exp_lvl[g_exp_n] = l; g_exp_n++; }
#define L0_HAS(i) ((i) < g_n[0] && g_suk[0][i] <= g_uk && g_uk <= g_luk[0][i])
static void exp_level0(void) {
  /* selection by descending file number among the level-0 files whose user range contains the key */
  int done0 = 0, done1 = 0, done2 = 0, round;
  for (round = 0; round < GETF0; round++) {
    int c0 = L0_HAS(0) && !done0, c1 = L0_HAS(1) && !done1, c2 = L0_HAS(2) && !done2;
    if (c0 && (!c1 || g_num[0][0] > g_num[0][1]) && (!c2 || g_num[0][0] > g_num[0][2])) { exp_push(0, 0); done0 = 1; }
    else if (c1 && (!c2 || g_num[0][1] > g_num[0][2])) { exp_push(0, 1); done1 = 1; }
    else if (c2) { exp_push(0, 2); done2 = 1; }
  }
}
static void exp_level(int l) {
  /* first file whose largest key is >= the lookup internal key (uk, seq<<8|1); consulted iff its smallest user key <= uk */
  uint64_t tag = (g_lseq << 8) | 1;
  size_t i;
  if (g_n[l] > 0 && LE_(g_uk, tag, g_luk[l][0], g_ltag[l][0])) i = 0;
  else if (g_n[l] > 1 && LE_(g_uk, tag, g_luk[l][1], g_ltag[l][1])) i = 1;
  else return;
  if (g_suk[l][i] <= g_uk) exp_push(l, i);
}
static void mk_lookup(void) {
  g_uk = nondet_u8(); g_lseq = nondet_u64(); ASSUME(g_lseq <= LDB_MAX_SEQUENCE);
  g_lk.space[0] = 9;
  { ldb_buffer_t t; mk_ikey(&t, g_lk.space + 1, g_uk, (g_lseq << 8) | 1); }
  g_lk.start = g_lk.space; g_lk.kstart = g_lk.space + 1; g_lk.end = g_lk.space + 10;
  g_uks.data = g_lk.space + 1; g_uks.size = 1; g_uks.alloc = 0;
  g_iks.data = g_lk.space + 1; g_iks.size = 9; g_iks.alloc = 0;
}
/* <= 3 files in level 0 (arbitrary, overlapping ranges, distinct numbers); <= in_n1 files in level 1, <= in_n6 in level 6 */
static void for_each_common(size_t n0, size_t n1, size_t n6) {
  mk_version();
  /* all three level-0 model files exist as objects with tied numbers even when the level is shorter (the sort contract names them) */
  mk_level(0, 3); mk_level(0, n0);
  mk_level(1, n1); mk_level(6, n6);
  ASSUME(DISJOINT_SORTED(1) && DISJOINT_SORTED(6));
  /* level-0 files have distinct numbers (the allocator never hands a number out twice: ver.numbers) */
  ASSUME(g_num[0][0] != g_num[0][1] && g_num[0][0] != g_num[0][2] && g_num[0][1] != g_num[0][2]);
  mk_lookup();
  g_exp_n = 0; exp_level0(); exp_level(1); exp_level(6);
  g_calls = 0; g_stopped = 0;
  ldb_version_for_each_overlapping(&g_ver, &g_uks, &g_iks, &g_cb_arg, fe_cb);
}
void h_for_each_l0(void) {
  IN_SIZE(in_n0); IN_SIZE(in_n1); IN_SIZE(in_n6);
  ASSUME(in_n0 <= GETF0 && in_n1 <= 2 && in_n6 <= 2);
  for_each_common(in_n0, in_n1, in_n6);
  CANARY();
}

/* ======================================================================
 * ver2.base - is_base_level_for_key (C01 K6, C06)
 * ======================================================================
 * Files in model levels 2, 5 and 6 (<= 2 each, levels 3 and 4 empty);
 * compaction level 0 (levels 2..6 are searched), 3 (levels 5, 6) or 4 (level 6).
 */
static ldb_compaction_t g_c; static uint8_t g_bq;   /* probe user key */
static ldb_slice_t g_bqs; static uint8_t g_bq_b[1];
static size_t g_lp0[LDB_NUM_LEVELS];                /* level pointers before the call */
#define HAS_KEY_AT(l, i) ((l) >= g_c.level + 2 && (i) < g_n[l] && g_suk[l][i] <= g_bq && g_bq <= g_luk[l][i])
#define HAS_KEY_BELOW (HAS_KEY_AT(2,0) || HAS_KEY_AT(2,1) || HAS_KEY_AT(3,0) || HAS_KEY_AT(3,1) || HAS_KEY_AT(4,0) || HAS_KEY_AT(4,1) || \
                       HAS_KEY_AT(5,0) || HAS_KEY_AT(5,1) || HAS_KEY_AT(6,0) || HAS_KEY_AT(6,1))
/* every file before the level pointer ends before the probe key (keys are presented in ascending order) */
#define PTR_OK(l) (g_c.level_ptrs[l] <= g_n[l] && (g_c.level_ptrs[l] < 1 || g_luk[l][0] < g_bq) && (g_c.level_ptrs[l] < 2 || g_luk[l][1] < g_bq))
#define PTRS_OK (PTR_OK(2) && PTR_OK(3) && PTR_OK(4) && PTR_OK(5) && PTR_OK(6))
#define PTR_FWD(l) (g_c.level_ptrs[l] >= g_lp0[l])
#define PTR_SAME(l) (g_c.level_ptrs[l] == g_lp0[l])
int c_is_base_level_for_key(ldb_compaction_t *c, const ldb_slice_t *user_key)
__CPROVER_requires(c == &g_c && user_key == &g_bqs && g_c.input_version == &g_ver && g_c.level >= 0 && g_c.level <= LDB_NUM_LEVELS - 2)
__CPROVER_requires(g_n[2] <= 2 && g_n[3] <= 2 && g_n[4] <= 2 && g_n[5] <= 2 && g_n[6] <= 2)
__CPROVER_requires(DISJOINT_SORTED(2) && DISJOINT_SORTED(3) && DISJOINT_SORTED(4) && DISJOINT_SORTED(5) && DISJOINT_SORTED(6))
__CPROVER_requires(PTRS_OK)
__CPROVER_requires(PTR_SAME(0) && PTR_SAME(1) && PTR_SAME(2) && PTR_SAME(3) && PTR_SAME(4) && PTR_SAME(5) && PTR_SAME(6))
__CPROVER_assigns(__CPROVER_object_whole(g_c.level_ptrs))
/* 0 iff some file in a level >= level+2 contains the user key in [smallest.user, largest.user] */
__CPROVER_ensures(__CPROVER_return_value == (HAS_KEY_BELOW ? 0 : 1))
/* the pointers only move forward and keep their meaning for the next (larger) key */
__CPROVER_ensures(PTRS_OK)
__CPROVER_ensures(PTR_SAME(0) && PTR_SAME(1))
__CPROVER_ensures(PTR_FWD(2) && PTR_FWD(3) && PTR_FWD(4) && PTR_FWD(5) && PTR_FWD(6))
/* levels the compaction itself reads or writes (< level+2) are never consulted */
__CPROVER_ensures((g_c.level + 2 <= 2 || PTR_SAME(2)) && (g_c.level + 2 <= 3 || PTR_SAME(3)) && (g_c.level + 2 <= 4 || PTR_SAME(4)) && (g_c.level + 2 <= 5 || PTR_SAME(5)) && (g_c.level + 2 <= 6 || PTR_SAME(6)))
;
void h_is_base_level(void) {
  IN_INT(in_level); IN_SIZE(in_n2); IN_SIZE(in_n5); IN_SIZE(in_n6);
  ASSUME(in_n2 <= 2 && in_n5 <= 2 && in_n6 <= 2);
  mk_version(); mk_level(2, in_n2); mk_level(5, in_n5); mk_level(6, in_n6);
  ASSUME(DISJOINT_SORTED(2) && DISJOINT_SORTED(5) && DISJOINT_SORTED(6));
  g_c.input_version = &g_ver;
  g_lp0[0] = nondet_size(); g_lp0[1] = nondet_size(); g_lp0[2] = nondet_size(); g_lp0[3] = nondet_size();
  g_lp0[4] = nondet_size(); g_lp0[5] = nondet_size(); g_lp0[6] = nondet_size();
  g_c.level_ptrs[0] = g_lp0[0]; g_c.level_ptrs[1] = g_lp0[1]; g_c.level_ptrs[2] = g_lp0[2]; g_c.level_ptrs[3] = g_lp0[3];
  g_c.level_ptrs[4] = g_lp0[4]; g_c.level_ptrs[5] = g_lp0[5]; g_c.level_ptrs[6] = g_lp0[6];
  g_bq = nondet_u8(); g_bq_b[0] = g_bq; g_bqs.data = g_bq_b; g_bqs.size = 1; g_bqs.alloc = 0;
  ASSUME(PTRS_OK);
  /* one call site per concrete level (keeps the level index of every access constant for CBMC) */
  switch (in_level) {
    case 0: g_c.level = 0; ldb_compaction_is_base_level_for_key(&g_c, &g_bqs); break;
    case 3: g_c.level = 3; ldb_compaction_is_base_level_for_key(&g_c, &g_bqs); break;
    default: g_c.level = 4; ldb_compaction_is_base_level_for_key(&g_c, &g_bqs); break;
  }
  CANARY();
}

/* ======================================================================
 * ver2.inputs_l0 - get_overlapping_inputs at level 0: the result is closed
 * under range expansion (C14, C01)
 * ======================================================================
 * expected set = least fixpoint of "add every file overlapping the range,
 * widen the range to it", computed by the harness independently of the
 * code's restart logic.
 */
#define INF 3
static ldb_ikey_t g_bk, g_ek2; static uint8_t g_bk_b[9], g_ek_b[9];
static ldb_vector_t g_inputs;
static int g_has_lo, g_has_hi; static uint8_t g_lo_v, g_hi_v;
static uint8_t g_xlo, g_xhi;       /* ghost: the expanded user-key range */
#define BEGIN_PTR (g_has_lo ? &g_bk : (const ldb_ikey_t *)NULL)
#define END_PTR (g_has_hi ? &g_ek2 : (const ldb_ikey_t *)NULL)
#define EXP_IN(i) ((i) < g_n[0] && !(g_has_lo && g_xlo > g_luk[0][i]) && !(g_has_hi && g_xhi < g_suk[0][i]))
#define EXP_CNT ((EXP_IN(0) ? 1 : 0) + (EXP_IN(1) ? 1 : 0) + (EXP_IN(2) ? 1 : 0))
#define IN_MEMBER(i) ((g_inputs.length > 0 && g_inputs.items[0] == g_fmp[0][i]) || (g_inputs.length > 1 && g_inputs.items[1] == g_fmp[0][i]) || \
                      (g_inputs.length > 2 && g_inputs.items[2] == g_fmp[0][i]))
#define IN_EXACT_AT(i) ((EXP_IN(i) ? 1 : 0) == (IN_MEMBER(i) ? 1 : 0))
/* closure: no file outside the result overlaps the user-key hull of the result (and of the requested range) */
void c_get_overlapping_inputs0(ldb_version_t *ver, int level, const ldb_ikey_t *begin, const ldb_ikey_t *end, ldb_vector_t *inputs)
__CPROVER_requires(ver == &g_ver && level == 0 && begin == BEGIN_PTR && end == END_PTR && inputs == &g_inputs)
__CPROVER_requires(g_n[0] <= INF && g_inputs.items == NULL && g_inputs.alloc == 0)
__CPROVER_assigns(g_inputs.items, g_inputs.length, g_inputs.alloc)
/* exactly the files of the level that overlap the expanded range, each once */
__CPROVER_ensures(g_inputs.length == (size_t)EXP_CNT)
__CPROVER_ensures(IN_EXACT_AT(0) && IN_EXACT_AT(1) && IN_EXACT_AT(2))
;
static void spec_expand(void) {
  int round; size_t i;
  g_xlo = g_lo_v; g_xhi = g_hi_v;
  for (round = 0; round < INF; round++)
    for (i = 0; i < INF; i++)
      if (EXP_IN(i)) {
        if (g_has_lo && g_suk[0][i] < g_xlo) g_xlo = g_suk[0][i];
        if (g_has_hi && g_luk[0][i] > g_xhi) g_xhi = g_luk[0][i];
      }
}
static void inputs_l0_common(size_t n) {
  mk_version();
  g_has_lo = nondet_int() ? 1 : 0; g_has_hi = nondet_int() ? 1 : 0;
  g_lo_v = nondet_u8(); g_hi_v = nondet_u8();
  mk_ikey(&g_bk, g_bk_b, g_lo_v, nondet_u64());
  mk_ikey(&g_ek2, g_ek_b, g_hi_v, nondet_u64());
  g_inputs.items = NULL; g_inputs.length = 0; g_inputs.alloc = 0;
  mk_level(0, n);
  /* files are well-formed: smallest user key <= largest user key */
  ASSUME((n < 1 || g_suk[0][0] <= g_luk[0][0]) && (n < 2 || g_suk[0][1] <= g_luk[0][1]) && (n < 3 || g_suk[0][2] <= g_luk[0][2]));
  spec_expand();
  ldb_version_get_overlapping_inputs(&g_ver, 0, BEGIN_PTR, END_PTR, &g_inputs);
  /* closure, stated directly on the result: no file left outside overlaps the hull of (requested range + files inside) */
  { size_t i; uint8_t hlo = g_lo_v, hhi = g_hi_v;
    for (i = 0; i < INF; i++)
      if (i < n && IN_MEMBER(i)) {
        if (g_suk[0][i] < hlo) hlo = g_suk[0][i];
        if (g_luk[0][i] > hhi) hhi = g_luk[0][i];
      }
    for (i = 0; i < INF; i++)
      if (i < n && !IN_MEMBER(i))
        CHECK((g_has_lo && g_luk[0][i] < hlo) || (g_has_hi && g_suk[0][i] > hhi),
              "get_overlapping_inputs(level 0): closed under range expansion - every file left out lies entirely outside the user-key hull of the requested range and the chosen files");
  }
}
void h_inputs_level0(void) {
  IN_SIZE(in_n);
  ASSUME(in_n <= 2);
  inputs_l0_common(in_n);
  CANARY();
}
