/* units/ver2.c - second wave of proof units for src/version_set.c (group "ver2")
 *
 *   ver2.sort        ldb_vector_sort (real src/util/vector.c quicksort) against
 *                    "result is a permutation, sorted by the comparator", n <= 3
 *   ver2.foreach_l0  ldb_version_for_each_overlapping: level-0 RECENCY (C01 K5)
 *   ver2.base        ldb_compaction_is_base_level_for_key (C01 K6)
 *   ver2.inputs_l0   ldb_version_get_overlapping_inputs at level 0 (C14)
 *
 * Model of a version: contracts/ver2_model.h (one-byte user keys under the real
 * comparators, every file and key an object of its own).
 */
#define VER2_CHUNK_PTRS   /* no byte buffers are reallocated in this file */
#include "ver2_model.h"

/* ======================================================================
 * ver2.sort - the contract that replaces ldb_vector_sort in ver2.foreach_l0
 * ======================================================================
 * The vector holds <= 3 files of model level 0 (any subset, any order).  The
 * contract is written without dereferencing the elements in the post state:
 * NUM_OF maps an element pointer to the ghost number of that file, the
 * precondition ties the ghost numbers to the real `number` fields that the
 * real comparator newest_first reads.
 */
#define IS_L0(p) ((p) == (void *)&fm_0_0 || (p) == (void *)&fm_0_1 || (p) == (void *)&fm_0_2)
#define NUM_OF(p) ((p) == (void *)&fm_0_0 ? g_num[0][0] : (p) == (void *)&fm_0_1 ? g_num[0][1] : g_num[0][2])
#define L0_NUMS_TIED (fm_0_0.number == g_num[0][0] && fm_0_1.number == g_num[0][1] && fm_0_2.number == g_num[0][2])
/* (n0,n1,n2) is a permutation of (o0,o1,o2) restricted to the first n slots */
#define PERM1(n0, o0) ((n0) == (o0))
#define PERM2(n0, n1, o0, o1) (((n0) == (o0) && (n1) == (o1)) || ((n0) == (o1) && (n1) == (o0)))
#define PERM3(n0, n1, n2, o0, o1, o2) \
  (((n0) == (o0) && PERM2(n1, n2, o1, o2)) || ((n0) == (o1) && PERM2(n1, n2, o0, o2)) || ((n0) == (o2) && PERM2(n1, n2, o0, o1)))

void c_vector_sort(ldb_vector_t *z, int (*cmp)(void *, void *))
__CPROVER_requires(__CPROVER_rw_ok(z, sizeof(*z)) && cmp == newest_first)
__CPROVER_requires(z->length >= 1 && z->length <= 3 && __CPROVER_rw_ok(z->items, 3 * sizeof(void *)))
__CPROVER_requires(IS_L0(z->items[0]) && (z->length < 2 || IS_L0(z->items[1])) && (z->length < 3 || IS_L0(z->items[2])))
__CPROVER_requires(L0_NUMS_TIED)
__CPROVER_assigns(__CPROVER_object_upto(z->items, 3 * sizeof(void *)))
/* same elements, each as often as before */
__CPROVER_ensures(z->length == 1 ==> PERM1(z->items[0], __CPROVER_old(z->items[0])))
__CPROVER_ensures(z->length == 2 ==> PERM2(z->items[0], z->items[1], __CPROVER_old(z->items[0]), __CPROVER_old(z->items[1])))
__CPROVER_ensures(z->length == 3 ==> PERM3(z->items[0], z->items[1], z->items[2], __CPROVER_old(z->items[0]), __CPROVER_old(z->items[1]), __CPROVER_old(z->items[2])))
/* ordered by the comparator: newest_first(a, b) <= 0 for neighbours, i.e. file numbers descend */
__CPROVER_ensures(z->length < 2 || NUM_OF(z->items[0]) >= NUM_OF(z->items[1]))
__CPROVER_ensures(z->length < 3 || NUM_OF(z->items[1]) >= NUM_OF(z->items[2]))
;

static void *g_sort_items[3];
void h_vector_sort(void) {
  IN_SIZE(in_n); IN_SIZE(in_a); IN_SIZE(in_b); IN_SIZE(in_c);
  ldb_vector_t z;
  ASSUME(in_n >= 1 && in_n <= 3 && in_a < 3 && in_b < 3 && in_c < 3);
  mk_version(); mk_level(0, 3);
  z.items = g_sort_items;   /* a typed array: cheaper for CBMC than a byte-addressed heap chunk */
  z.length = in_n; z.alloc = 3;
  /* any files of the level, in any order, repetitions allowed */
  z.items[0] = g_fmp[0][in_a]; z.items[1] = g_fmp[0][in_b]; z.items[2] = g_fmp[0][in_c];
  ldb_vector_sort(&z, newest_first);
  CANARY();
}

/* ======================================================================
 * ver2.foreach_l0 - level-0 recency of ldb_version_for_each_overlapping
 * ======================================================================
 * The callback is a recorder: it checks each visited (level, file) against the
 * expected sequence computed from the ghost scalars and asks to stop at an
 * arbitrary point.
 */
#define GETF0 3
static ldb_lkey_t g_lk; static uint8_t g_uk; static uint64_t g_lseq;
static ldb_filemeta_t *g_exp_f[GETF0 + 6]; static int g_exp_lvl[GETF0 + 6];
static size_t g_exp_n, g_calls;
static int g_stopped; static int g_cb_arg;
static ldb_slice_t g_uks, g_iks;

static int fe_cb(void *arg, int level, ldb_filemeta_t *f) {
  __CPROVER_assert(arg == &g_cb_arg, "for_each_overlapping: callback argument passed through");
  __CPROVER_assert(!g_stopped, "for_each_overlapping: no file is visited after the callback asked to stop");
  __CPROVER_assert(g_calls < g_exp_n && f == g_exp_f[g_calls] && level == g_exp_lvl[g_calls],
                   "for_each_overlapping: files are visited in recency order - level-0 files containing the key by DESCENDING file number (files not containing the key skipped), then the single candidate of each level 1..6");
  g_calls++;
  if (nondet_int()) return 1;
  g_stopped = 1;
  return 0;
}
void c_for_each_overlapping(ldb_version_t *ver, const ldb_slice_t *user_key, const ldb_slice_t *internal_key, void *arg,
                            int (*func)(void *, int, ldb_filemeta_t *))
__CPROVER_requires(ver == &g_ver && user_key == &g_uks && internal_key == &g_iks && arg == &g_cb_arg && func == fe_cb)
__CPROVER_requires(g_calls == 0 && g_stopped == 0)
__CPROVER_assigns(g_calls, g_stopped)
/* unless the callback stops the walk, every expected file is visited (NOTFOUND only after all were consulted) */
__CPROVER_ensures(!g_stopped ==> g_calls == g_exp_n)
/* never more visits than expected */
__CPROVER_ensures(g_calls <= g_exp_n)
;

static void exp_push(int l, size_t i) { g_exp_f[g_exp_n] = g_fmp[l][i]; g_exp_lvl[g_exp_n] = l; g_exp_n++; }
#define L0_HAS(i) ((i) < g_n[0] && g_suk[0][i] <= g_uk && g_uk <= g_luk[0][i])
static void exp_level0(void) {
  /* selection by descending file number among the level-0 files whose user range contains the key */
  int done0 = 0, done1 = 0, done2 = 0, round;
  for (round = 0; round < GETF0; round++) {
    int c0 = L0_HAS(0) && !done0, c1 = L0_HAS(1) && !done1, c2 = L0_HAS(2) && !done2;
    if (c0 && (!c1 || g_num[0][0] > g_num[0][1]) && (!c2 || g_num[0][0] > g_num[0][2])) { exp_push(0, 0); done0 = 1; }
    else if (c1 && (!c2 || g_num[0][1] > g_num[0][2])) { exp_push(0, 1); done1 = 1; }
    else if (c2) { exp_push(0, 2); done2 = 1; }
  }
}
static void exp_level(int l) {
  /* first file whose largest key is >= the lookup internal key (uk, seq<<8|1); consulted iff its smallest user key <= uk */
  uint64_t tag = (g_lseq << 8) | 1;
  size_t i;
  if (g_n[l] > 0 && LE_(g_uk, tag, g_luk[l][0], g_ltag[l][0])) i = 0;
  else if (g_n[l] > 1 && LE_(g_uk, tag, g_luk[l][1], g_ltag[l][1])) i = 1;
  else return;
  if (g_suk[l][i] <= g_uk) exp_push(l, i);
}
static void mk_lookup(void) {
  g_uk = nondet_u8(); g_lseq = nondet_u64(); ASSUME(g_lseq <= LDB_MAX_SEQUENCE);
  g_lk.space[0] = 9;
  { ldb_buffer_t t; mk_ikey(&t, g_lk.space + 1, g_uk, (g_lseq << 8) | 1); }
  g_lk.start = g_lk.space; g_lk.kstart = g_lk.space + 1; g_lk.end = g_lk.space + 10;
  g_uks.data = g_lk.space + 1; g_uks.size = 1; g_uks.alloc = 0;
  g_iks.data = g_lk.space + 1; g_iks.size = 9; g_iks.alloc = 0;
}
/* <= 3 files in level 0 (arbitrary, overlapping ranges, distinct numbers); <= in_n1 files in level 1, <= in_n6 in level 6 */
static void for_each_common(size_t n0, size_t n1, size_t n6) {
  mk_version();
  /* all three level-0 model files exist as objects with tied numbers even when the level is shorter (the sort contract names them) */
  mk_level(0, 3); mk_level(0, n0);
  mk_level(1, n1); mk_level(6, n6);
  ASSUME(DISJOINT_SORTED(1) && DISJOINT_SORTED(6));
  /* level-0 files have distinct numbers (the allocator never hands a number out twice: ver.numbers) */
  ASSUME(g_num[0][0] != g_num[0][1] && g_num[0][0] != g_num[0][2] && g_num[0][1] != g_num[0][2]);
  mk_lookup();
  g_exp_n = 0; exp_level0(); exp_level(1); exp_level(6);
  g_calls = 0; g_stopped = 0;
  ldb_version_for_each_overlapping(&g_ver, &g_uks, &g_iks, &g_cb_arg, fe_cb);
}
void h_for_each_l0(void) {
  IN_SIZE(in_n0); IN_SIZE(in_n1);
  ASSUME(in_n0 <= GETF0 && in_n1 <= 1);
  for_each_common(in_n0, in_n1, 0);
  CANARY();
}
void h_for_each_l0only(void) {
  IN_SIZE(in_n0);
  ASSUME(in_n0 <= GETF0);
  for_each_common(in_n0, 0, 0);
  CANARY();
}
