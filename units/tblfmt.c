/* units/tblfmt.c - proof units for src/table/format.c (C16, C18, C11)
 *
 * The real format.c is included unmodified.  BlockHandle / Footer units check
 * the wire format of contracts/tblfmt.h; ldb_read_block runs against a
 * random-access file stub that may fail, return short, and return arbitrary
 * bytes, a recording crc stub and recording snappy stubs.
 */
#include "verif.h"
#include "contracts/coding.h"
#include "contracts/tblfmt.h"

#include "util/buffer.h"
#include "util/coding.h"
#include "util/crc32c.h"
#include "util/env.h"
#include "util/internal.h"
#include "util/options.h"
#include "util/slice.h"
#include "util/snappy.h"
#include "util/status.h"
#include "table/format.h"

#ifndef VERIF_NATIVE
/* ------------------------------------------------------------------ ghost
 * (dfcc makes statics nondeterministic at start: the harness initialises) */
struct ldb_rfile_s { int dummy; };
ldb_rfile_t g_the_rfile;
int g_mapped;                 /* what ldb_rfile_mapped answers                 */
int g_pread_calls;
int g_pread_rc;               /* status the file returned                      */
uint8_t *g_pread_buf;         /* scratch buffer the caller handed to pread     */
size_t g_pread_count;
uint64_t g_pread_offset;
const uint8_t *g_pread_data;  /* where the file put the data                   */
size_t g_pread_size;          /* how much it returned                          */
uint8_t *g_map_base;          /* the file's own (mapped) memory, n+5 bytes     */
int g_full;                   /* the file returned all n+5 bytes               */
uint8_t g_type;               /* then: the block-type byte it returned (data[n])            */
uint32_t g_stored;            /* and the stored (masked) crc, LE32(data+n+1)                */
int g_crc_calls;
uint32_t g_crc_z; const uint8_t *g_crc_p; size_t g_crc_n; uint32_t g_crc_ret;
int g_dsz_calls; const uint8_t *g_dsz_p; size_t g_dsz_n; int g_dsz_ret; size_t g_dsz_len;
int g_dec_calls; uint8_t *g_dec_zp; const uint8_t *g_dec_p; size_t g_dec_n; int g_dec_ret;

int nondet_int(void);
uint32_t nondet_u32(void);
size_t nondet_size(void);

int ldb_rfile_mapped(ldb_rfile_t *file) {
  __CPROVER_assert(file == &g_the_rfile, "read_block: asks the file it was given");
  return g_mapped;
}

int ldb_rfile_pread(ldb_rfile_t *file, ldb_slice_t *result, void *buf, size_t count, uint64_t offset) {
  int rc = nondet_int();
  __CPROVER_assert(file == &g_the_rfile, "read_block: reads the file it was given");
  __CPROVER_assert(g_pread_calls == 0, "read_block: exactly one pread");
  g_pread_calls++;
  g_pread_buf = buf; g_pread_count = count; g_pread_offset = offset;
  if (!g_mapped)
    __CPROVER_assert(count == 0 || __CPROVER_w_ok(buf, count), "read_block: unmapped file gets a scratch buffer of the requested size");
  g_pread_rc = rc;
  if (rc != LDB_OK) {
    __CPROVER_assume((rc >= LDB_MINERR && rc <= LDB_MAXERR) || (rc > 0 && rc < 200));
    return rc;
  }
  /* success: any size up to count (short read at end of file); the data is in
     the scratch buffer (unmapped) or in the file's own memory (mapped).  The
     bytes are arbitrary in both cases (malloc'ed memory is nondeterministic). */
  g_pread_size = nondet_size();
  __CPROVER_assume(g_pread_size <= count);
  g_pread_data = g_mapped ? g_map_base : (const uint8_t *)buf;
  result->data = (uint8_t *)g_pread_data;
  result->size = g_pread_size;
  result->alloc = 0;
  g_full = (g_pread_size == count && count >= 5);
  if (g_full) {
    g_type = g_pread_data[count - 5];
    g_stored = LE32_AT(g_pread_data + (count - 4));
  }
  return LDB_OK;
}

/* crc32c: uninterpreted; records what it was asked about */
uint32_t ldb_crc32c_extend(uint32_t z, const uint8_t *xp, size_t xn) {
  __CPROVER_assert(xn == 0 || __CPROVER_r_ok(xp, xn), "crc: covered bytes readable");
  g_crc_calls++;
  g_crc_z = z; g_crc_p = xp; g_crc_n = xn; g_crc_ret = nondet_u32();
  return g_crc_ret;
}

int snappy_decode_size(size_t *zn, const uint8_t *xp, size_t xn) {
  __CPROVER_assert(xn == 0 || __CPROVER_r_ok(xp, xn), "snappy_decode_size: input readable");
  __CPROVER_assert(g_dec_calls == 0, "snappy: decode_size precedes decode");
  g_dsz_calls++; g_dsz_p = xp; g_dsz_n = xn;
  g_dsz_ret = nondet_int() ? 1 : 0;
  g_dsz_len = nondet_size();
  if (g_dsz_ret) *zn = g_dsz_len;
  return g_dsz_ret;
}

int snappy_decode(uint8_t *zp, const uint8_t *xp, size_t xn) {
  __CPROVER_assert(xn == 0 || __CPROVER_r_ok(xp, xn), "snappy_decode: input readable");
  __CPROVER_assert(g_dsz_calls == 1 && g_dsz_ret == 1, "snappy: decode only after a successful decode_size");
  __CPROVER_assert(g_dsz_len == 0 || __CPROVER_w_ok(zp, g_dsz_len), "snappy_decode: output buffer has the size decode_size announced");
  g_dec_calls++; g_dec_zp = zp; g_dec_p = xp; g_dec_n = xn;
  g_dec_ret = nondet_int() ? 1 : 0;
  return g_dec_ret;
}
#endif /* !VERIF_NATIVE */

#include "table/format.c"

#define SPEC_UNMASK(m) ((uint32_t)((((uint32_t)((m) - 0xa282ead8u)) >> 17) | (((uint32_t)((m) - 0xa282ead8u)) << 15)))

/* ============================================================ BlockHandle */

void h_handle_size(void) {
  ldb_handle_t h; IN_U64(in_off); IN_U64(in_size); size_t r;
  h.offset = in_off; h.size = in_size;
  r = ldb_handle_size(&h);
  CHECK(r == SPEC_HLEN(in_off, in_size), "handle_size: varint64 length of offset plus varint64 length of size");
  CANARY();
}

void h_handle_write(void) {
  ldb_handle_t h; IN_U64(in_off); IN_U64(in_size); uint8_t *b, *e;
  h.offset = in_off; h.size = in_size;
  b = malloc(SPEC_HLEN(in_off, in_size)); /* exactly the encoded size: any further byte written is out of bounds */
  ASSUME(b != NULL);
  e = ldb_handle_write(b, &h);
  CHECK(POST_HANDLE_WRITE(e, b, in_off, in_size), "handle_write: varint64(offset) followed by varint64(size), nothing else");
  CHECK(h.offset == in_off && h.size == in_size, "handle_write: handle not modified");
  CANARY();
}

void h_handle_read(void) {
  IN_SIZE(in_n); IN_BUF(buf, in_n); SNAP_BUF(buf, in_n);
  ldb_handle_t h; const uint8_t *p = buf; size_t n = in_n; int r;
  h.offset = 7; h.size = 7;
  r = ldb_handle_read(&h, &p, &n);
  CHECK(POST_HANDLE_READ_RET(r, buf, in_n), "handle_read: succeeds iff two terminated varint64 lie inside the input");
  CHECK(POST_HANDLE_READ_OK(r, h.offset, h.size, p, n, buf, in_n), "handle_read: offset and size are the two LEB128 values, cursor advanced by exactly their length");
  CHECK(POST_HANDLE_READ_FAIL(r, p, n, buf, in_n), "handle_read: on failure the cursor stays inside the input");
  CANARY();
}

void h_handle_import(void) {
  IN_SIZE(in_n); IN_BUF(buf, in_n); SNAP_BUF(buf, in_n);
  ldb_handle_t h; ldb_slice_t x; int r;
  x.data = buf; x.size = in_n; x.alloc = 0;
  r = ldb_handle_import(&h, &x);
  CHECK(POST_HANDLE_READ_RET(r, buf, in_n), "handle_import: succeeds iff the slice starts with two terminated varint64");
  CHECK(r != 1 || (h.offset == spec_handle_offset(buf, in_n) && h.size == spec_handle_size(buf, in_n)), "handle_import: offset and size are the two LEB128 values");
  CHECK(x.data == buf && x.size == in_n, "handle_import: the caller's slice is not consumed");
  CANARY();
}

/* ================================================================= Footer */

void h_footer_write(void) {
  ldb_footer_t f; IN_U64(in_mo); IN_U64(in_ms); IN_U64(in_io); IN_U64(in_is); uint8_t *b, *e;
  f.metaindex_handle.offset = in_mo; f.metaindex_handle.size = in_ms;
  f.index_handle.offset = in_io; f.index_handle.size = in_is;
  b = malloc(SPEC_FOOTER_SIZE);
  ASSUME(b != NULL);
  e = ldb_footer_write(b, &f);
  CHECK(POST_FOOTER_WRITE(e, b, in_mo, in_ms, in_io, in_is), "footer_write: metaindex handle, index handle, zero padding to 40 bytes, magic 0xdb4775248b80fb57 little-endian, exactly 48 bytes");
  CANARY();
}

void h_footer_read(void) {
  IN_SIZE(in_n); IN_BUF(buf, in_n); SNAP_BUF(buf, in_n);
  ldb_footer_t f; const uint8_t *p = buf; size_t n = in_n; int r;
  r = ldb_footer_read(&f, &p, &n);
  CHECK(POST_FOOTER_READ_RET(r, buf, in_n), "footer_read: succeeds iff >= 48 bytes, magic at byte 40, two well-formed handles");
  CHECK(POST_FOOTER_READ_OK(r, f.metaindex_handle.offset, f.metaindex_handle.size, f.index_handle.offset, f.index_handle.size, p, n, buf, in_n),
        "footer_read: handles are the decoded values, cursor advanced by exactly 48");
  CHECK(POST_FOOTER_READ_FAIL(r, p, n, buf, in_n), "footer_read: short input / wrong magic rejected with the cursor untouched; cursor never leaves the input");
  CANARY();
}

void h_footer_import(void) {
  IN_SIZE(in_n); IN_BUF(buf, in_n); SNAP_BUF(buf, in_n);
  ldb_footer_t f; ldb_slice_t x; int r;
  x.data = buf; x.size = in_n; x.alloc = 0;
  r = ldb_footer_import(&f, &x);
  CHECK(POST_FOOTER_READ_RET(r, buf, in_n), "footer_import: succeeds iff >= 48 bytes, magic at byte 40, two well-formed handles");
  CHECK(r != 1 || (f.metaindex_handle.offset == spec_handle_offset(buf, in_n) && f.metaindex_handle.size == spec_handle_size(buf, in_n)), "footer_import: metaindex handle decoded");
  CHECK(x.data == buf && x.size == in_n, "footer_import: the caller's slice is not consumed");
  CANARY();
}

/* round trips on the real code (real varint codecs), every 64-bit value */
void h_handle_rt(void) {
  ldb_handle_t h, g; IN_U64(in_off); IN_U64(in_size); uint8_t b[LDB_HANDLE_SIZE]; uint8_t *e; const uint8_t *p = b; size_t n; int r;
  h.offset = in_off; h.size = in_size;
  e = ldb_handle_write(b, &h);
  CHECK((size_t)(e - b) == ldb_handle_size(&h) && (size_t)(e - b) <= LDB_HANDLE_SIZE, "handle: written length = handle_size <= 20");
  n = (size_t)(e - b);
  r = ldb_handle_read(&g, &p, &n);
  CHECK(r == 1 && g.offset == in_off && g.size == in_size && n == 0 && p == e, "handle: read(write(h)) = h consuming exactly what was written");
  CANARY();
}

void h_footer_rt(void) {
  ldb_footer_t f, g; IN_U64(in_mo); IN_U64(in_ms); IN_U64(in_io); IN_U64(in_is);
  uint8_t b[LDB_FOOTER_SIZE]; uint8_t *e; const uint8_t *p = b; size_t n = LDB_FOOTER_SIZE; int r;
  f.metaindex_handle.offset = in_mo; f.metaindex_handle.size = in_ms;
  f.index_handle.offset = in_io; f.index_handle.size = in_is;
  e = ldb_footer_write(b, &f);
  CHECK(e == b + 48, "footer: exactly 48 bytes written");
  r = ldb_footer_read(&g, &p, &n);
  CHECK(r == 1 && n == 0 && p == e, "footer: read(write(f)) succeeds consuming 48 bytes");
  CHECK(g.metaindex_handle.offset == in_mo && g.metaindex_handle.size == in_ms && g.index_handle.offset == in_io && g.index_handle.size == in_is,
        "footer: read(write(f)) = f for all 64-bit values");
  CANARY();
}

/* ============================================================== ReadBlock
 * Contract of ldb_read_block over the ghost record of what the environment
 * did.  n = handle->size; the file holds n data bytes, 1 type byte, 4 crc bytes.
 */
#ifndef VERIF_NATIVE
#define RB_N (handle->size)
#define RB_READ_OK (g_pread_calls == 1 && g_pread_rc == LDB_OK)
#define RB_CRC_MATCH (SPEC_UNMASK(g_stored) == g_crc_ret)
/* the point at which the block type is looked at */
#define RB_TYPED (RB_READ_OK && g_full && (!options->verify_checksums || RB_CRC_MATCH))
#define RB_EMPTY(res) ((res)->data.data == NULL && (res)->data.size == 0 && (res)->cachable == 0 && (res)->heap_allocated == 0)

int c_read_block(ldb_contents_t *result, ldb_rfile_t *file, const ldb_readopt_t *options, const ldb_handle_t *handle)
__CPROVER_requires(__CPROVER_w_ok(result, sizeof(*result)) && __CPROVER_r_ok(options, sizeof(*options)) && __CPROVER_r_ok(handle, sizeof(*handle)))
__CPROVER_requires(file == &g_the_rfile && (g_mapped == 0 || g_mapped == 1))
__CPROVER_requires(g_mapped ==> (handle->size <= SIZE_MAX - 5 && __CPROVER_r_ok(g_map_base, handle->size + 5)))
__CPROVER_requires(g_pread_calls == 0 && g_crc_calls == 0 && g_dsz_calls == 0 && g_dec_calls == 0 && g_full == 0)
__CPROVER_assigns(*result, g_pread_calls, g_pread_rc, g_pread_buf, g_pread_count, g_pread_offset, g_pread_data, g_pread_size, g_full, g_type, g_stored,
                  g_crc_calls, g_crc_z, g_crc_p, g_crc_n, g_crc_ret, g_dsz_calls, g_dsz_p, g_dsz_n, g_dsz_ret, g_dsz_len,
                  g_dec_calls, g_dec_zp, g_dec_p, g_dec_n, g_dec_ret)
/* size + 5 must not wrap: rejected before anything is read */
__CPROVER_ensures(RB_N > SIZE_MAX - 5 ==> (__CPROVER_return_value == LDB_CORRUPTION && g_pread_calls == 0))
/* exactly n + 5 bytes are requested at handle->offset */
__CPROVER_ensures(g_pread_calls == 1 ==> (RB_N <= SIZE_MAX - 5 && g_pread_count == RB_N + 5 && g_pread_offset == handle->offset))
__CPROVER_ensures(g_pread_calls <= 1 && (RB_N <= SIZE_MAX - 5 && __CPROVER_return_value != LDB_ENOMEM ==> g_pread_calls == 1))
/* read error propagated; short read is an I/O error */
__CPROVER_ensures(g_pread_calls == 1 && g_pread_rc != LDB_OK ==> __CPROVER_return_value == g_pread_rc)
__CPROVER_ensures(RB_READ_OK && !g_full ==> __CPROVER_return_value == LDB_IOERR)
/* checksum: the stored crc, unmasked, is compared with crc32c(data[0 .. n]) = contents and type byte */
__CPROVER_ensures(RB_READ_OK && g_full && options->verify_checksums ==>
                  (g_crc_calls == 1 && g_crc_z == 0 && g_crc_p == g_pread_data && g_crc_n == RB_N + 1))
__CPROVER_ensures(RB_READ_OK && g_full && options->verify_checksums && !RB_CRC_MATCH ==> __CPROVER_return_value == LDB_CORRUPTION)
__CPROVER_ensures(!options->verify_checksums ==> g_crc_calls == 0)
/* block type: 0 = raw, 1 = snappy, anything else is corruption */
__CPROVER_ensures(RB_TYPED && g_type != 0 && g_type != 1 ==> __CPROVER_return_value == LDB_CORRUPTION)
__CPROVER_ensures(__CPROVER_return_value == LDB_OK ==> (RB_TYPED && (g_type == 0 || g_type == 1)))
/* raw block: the n data bytes the file returned; the result owns them iff they sit in the scratch buffer */
__CPROVER_ensures(RB_TYPED && g_type == 0 ==> (__CPROVER_return_value == LDB_OK && result->data.data == g_pread_data && result->data.size == RB_N &&
                  result->heap_allocated == (g_mapped ? 0 : 1) && result->cachable == (g_mapped ? 0 : 1) && g_dsz_calls == 0 && g_dec_calls == 0))
__CPROVER_ensures(RB_TYPED && g_type == 0 && !g_mapped ==> (result->data.data == g_pread_buf && __CPROVER_rw_ok(result->data.data, RB_N + 5)))
/* snappy block: decode_size then decode, both on (data, n); result = fresh buffer of the announced size, owned */
__CPROVER_ensures(RB_TYPED && g_type == 1 ==> (g_dsz_calls == 1 && g_dsz_p == g_pread_data && g_dsz_n == RB_N))
__CPROVER_ensures(RB_TYPED && g_type == 1 && !g_dsz_ret ==> (__CPROVER_return_value == LDB_CORRUPTION && g_dec_calls == 0))
__CPROVER_ensures(RB_TYPED && g_type == 1 && g_dec_calls == 1 ==> (g_dsz_ret && g_dec_p == g_pread_data && g_dec_n == RB_N))
__CPROVER_ensures(RB_TYPED && g_type == 1 && g_dec_calls == 1 && !g_dec_ret ==> __CPROVER_return_value == LDB_CORRUPTION)
__CPROVER_ensures(RB_TYPED && g_type == 1 && g_dsz_ret && g_dec_calls == 0 ==> __CPROVER_return_value == LDB_ENOMEM)
__CPROVER_ensures(RB_TYPED && g_type == 1 && g_dec_calls == 1 && g_dec_ret ==> (__CPROVER_return_value == LDB_OK && result->data.data == g_dec_zp &&
                  result->data.size == g_dsz_len && result->heap_allocated == 1 && result->cachable == 1 &&
                  (g_dsz_len == 0 || __CPROVER_rw_ok(result->data.data, g_dsz_len))))
/* any failure: empty contents, nothing for the caller to free (leaks are excluded by --memory-leak-check) */
__CPROVER_ensures(__CPROVER_return_value != LDB_OK ==> RB_EMPTY(result))
__CPROVER_ensures(__CPROVER_return_value == LDB_OK || __CPROVER_return_value == LDB_CORRUPTION || __CPROVER_return_value == LDB_IOERR ||
                  __CPROVER_return_value == LDB_ENOMEM || (g_pread_calls == 1 && __CPROVER_return_value == g_pread_rc))
;

void h_read_block(void) {
  ldb_contents_t res; ldb_readopt_t opt; ldb_handle_t h; int rc;
  IN_U64(in_size); IN_U64(in_offset); IN_INT(in_verify); IN_INT(in_mapped);
  h.offset = in_offset; h.size = in_size;
  opt.verify_checksums = in_verify; opt.fill_cache = nondet_int(); opt.snapshot = NULL;
  g_mapped = in_mapped ? 1 : 0;
  g_map_base = NULL;
  if (g_mapped) {
    ASSUME(in_size <= SIZE_MAX - 5); /* a mapped file hands out pointers into its mapping: the mapping exists */
    g_map_base = malloc(in_size + 5);
    ASSUME(g_map_base != NULL);
  }
  g_pread_calls = 0; g_crc_calls = 0; g_dsz_calls = 0; g_dec_calls = 0; g_full = 0; g_pread_rc = 0; g_pread_size = 0;
  g_dsz_ret = 0; g_dec_ret = 0; g_pread_buf = NULL; g_pread_data = NULL; g_dec_zp = NULL;
  rc = ldb_read_block(&res, &g_the_rfile, &opt, &h);
  /* the caller's side of the ownership protocol: free exactly what the flags say; then nothing may be left (--memory-leak-check) */
  if (rc == LDB_OK && res.heap_allocated)
    free(res.data.data);
  if (g_map_base != NULL)
    free(g_map_base);
  CANARY();
}
#endif
