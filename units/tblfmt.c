/* units/tblfmt.c - proof units for src/table/format.c (C16, C18, C11)
 *
 * The real format.c is included unmodified.  BlockHandle / Footer units check
 * the wire format of contracts/tblfmt.h; ldb_read_block runs against a
 * random-access file stub that may fail, return short, and return arbitrary
 * bytes, a recording crc stub and recording snappy stubs.
 */
#include "verif.h"
#include "contracts/coding.h"
#include "contracts/tblfmt.h"

#include "util/buffer.h"
#include "util/coding.h"
#include "util/crc32c.h"
#include "util/env.h"
#include "util/internal.h"
#include "util/options.h"
#include "util/slice.h"
#include "util/snappy.h"
#include "util/status.h"
#include "table/format.h"

#ifndef VERIF_NATIVE
/* ------------------------------------------------------------------ ghost
 * (dfcc makes statics nondeterministic at start: the harness initialises) */
struct ldb_rfile_s { int dummy; };
ldb_rfile_t g_the_rfile;
int g_mapped;                 /* what ldb_rfile_mapped answers                 */
int g_pread_calls;
int g_pread_rc;               /* status the file returned                      */
uint8_t *g_pread_buf;         /* scratch buffer the caller handed to pread     */
size_t g_pread_count;
uint64_t g_pread_offset;
const uint8_t *g_pread_data;  /* where the file put the data                   */
size_t g_pread_size;          /* how much it returned                          */
uint8_t *g_map_base;          /* the file's own (mapped) memory, n+5 bytes     */
int g_crc_calls;
uint32_t g_crc_z; const uint8_t *g_crc_p; size_t g_crc_n; uint32_t g_crc_ret;
int g_dsz_calls; const uint8_t *g_dsz_p; size_t g_dsz_n; int g_dsz_ret; size_t g_dsz_len;
int g_dec_calls; uint8_t *g_dec_zp; const uint8_t *g_dec_p; size_t g_dec_n; int g_dec_ret;

int nondet_int(void);
uint32_t nondet_u32(void);
size_t nondet_size(void);

int ldb_rfile_mapped(ldb_rfile_t *file) {
  __CPROVER_assert(file == &g_the_rfile, "read_block: asks the file it was given");
  return g_mapped;
}

int ldb_rfile_pread(ldb_rfile_t *file, ldb_slice_t *result, void *buf, size_t count, uint64_t offset) {
  int rc = nondet_int();
  __CPROVER_assert(file == &g_the_rfile, "read_block: reads the file it was given");
  __CPROVER_assert(g_pread_calls == 0, "read_block: exactly one pread");
  g_pread_calls++;
  g_pread_buf = buf; g_pread_count = count; g_pread_offset = offset;
  if (!g_mapped)
    __CPROVER_assert(count == 0 || __CPROVER_w_ok(buf, count), "read_block: unmapped file gets a scratch buffer of the requested size");
  g_pread_rc = rc;
  if (rc != LDB_OK) {
    __CPROVER_assume((rc >= LDB_MINERR && rc <= LDB_MAXERR) || (rc > 0 && rc < 200));
    return rc;
  }
  /* success: any size up to count (short read at end of file); the data is in
     the scratch buffer (unmapped) or in the file's own memory (mapped).  The
     bytes are arbitrary in both cases (malloc'ed memory is nondeterministic). */
  g_pread_size = nondet_size();
  __CPROVER_assume(g_pread_size <= count);
  g_pread_data = g_mapped ? g_map_base : (const uint8_t *)buf;
  result->data = (uint8_t *)g_pread_data;
  result->size = g_pread_size;
  result->alloc = 0;
  return LDB_OK;
}

/* crc32c: uninterpreted; records what it was asked about */
uint32_t ldb_crc32c_extend(uint32_t z, const uint8_t *xp, size_t xn) {
  __CPROVER_assert(xn == 0 || __CPROVER_r_ok(xp, xn), "crc: covered bytes readable");
  g_crc_calls++;
  g_crc_z = z; g_crc_p = xp; g_crc_n = xn; g_crc_ret = nondet_u32();
  return g_crc_ret;
}

int snappy_decode_size(size_t *zn, const uint8_t *xp, size_t xn) {
  __CPROVER_assert(xn == 0 || __CPROVER_r_ok(xp, xn), "snappy_decode_size: input readable");
  __CPROVER_assert(g_dec_calls == 0, "snappy: decode_size precedes decode");
  g_dsz_calls++; g_dsz_p = xp; g_dsz_n = xn;
  g_dsz_ret = nondet_int() ? 1 : 0;
  g_dsz_len = nondet_size();
  if (g_dsz_ret) *zn = g_dsz_len;
  return g_dsz_ret;
}

int snappy_decode(uint8_t *zp, const uint8_t *xp, size_t xn) {
  __CPROVER_assert(xn == 0 || __CPROVER_r_ok(xp, xn), "snappy_decode: input readable");
  __CPROVER_assert(g_dsz_calls == 1 && g_dsz_ret == 1, "snappy: decode only after a successful decode_size");
  __CPROVER_assert(g_dsz_len == 0 || __CPROVER_w_ok(zp, g_dsz_len), "snappy_decode: output buffer has the size decode_size announced");
  g_dec_calls++; g_dec_zp = zp; g_dec_p = xp; g_dec_n = xn;
  g_dec_ret = nondet_int() ? 1 : 0;
  return g_dec_ret;
}
#endif /* !VERIF_NATIVE */

#include "table/format.c"

#define SPEC_UNMASK(m) ((uint32_t)((((uint32_t)((m) - 0xa282ead8u)) >> 17) | (((uint32_t)((m) - 0xa282ead8u)) << 15)))

/* ============================================================ BlockHandle */

void h_handle_size(void) {
  ldb_handle_t h; IN_U64(in_off); IN_U64(in_size); size_t r;
  h.offset = in_off; h.size = in_size;
  r = ldb_handle_size(&h);
  CHECK(r == SPEC_HLEN(in_off, in_size), "handle_size: varint64 length of offset plus varint64 length of size");
  CANARY();
}

void h_handle_write(void) {
  ldb_handle_t h; IN_U64(in_off); IN_U64(in_size); uint8_t *b, *e;
  h.offset = in_off; h.size = in_size;
  b = malloc(SPEC_HLEN(in_off, in_size)); /* exactly the encoded size: any further byte written is out of bounds */
  ASSUME(b != NULL);
  e = ldb_handle_write(b, &h);
  CHECK(POST_HANDLE_WRITE(e, b, in_off, in_size), "handle_write: varint64(offset) followed by varint64(size), nothing else");
  CHECK(h.offset == in_off && h.size == in_size, "handle_write: handle not modified");
  CANARY();
}

void h_handle_read(void) {
  IN_SIZE(in_n); IN_BUF(buf, in_n); SNAP_BUF(buf, in_n);
  ldb_handle_t h; const uint8_t *p = buf; size_t n = in_n; int r;
  h.offset = 7; h.size = 7;
  r = ldb_handle_read(&h, &p, &n);
  CHECK(POST_HANDLE_READ_RET(r, buf, in_n), "handle_read: succeeds iff two terminated varint64 lie inside the input");
  CHECK(POST_HANDLE_READ_OK(r, h.offset, h.size, p, n, buf, in_n), "handle_read: offset and size are the two LEB128 values, cursor advanced by exactly their length");
  CHECK(POST_HANDLE_READ_FAIL(r, p, n, buf, in_n), "handle_read: on failure the cursor stays inside the input");
  CANARY();
}

void h_handle_import(void) {
  IN_SIZE(in_n); IN_BUF(buf, in_n); SNAP_BUF(buf, in_n);
  ldb_handle_t h; ldb_slice_t x; int r;
  x.data = buf; x.size = in_n; x.alloc = 0;
  r = ldb_handle_import(&h, &x);
  CHECK(POST_HANDLE_READ_RET(r, buf, in_n), "handle_import: succeeds iff the slice starts with two terminated varint64");
  CHECK(r != 1 || (h.offset == spec_handle_offset(buf, in_n) && h.size == spec_handle_size(buf, in_n)), "handle_import: offset and size are the two LEB128 values");
  CHECK(x.data == buf && x.size == in_n, "handle_import: the caller's slice is not consumed");
  CANARY();
}

/* ================================================================= Footer */

void h_footer_write(void) {
  ldb_footer_t f; IN_U64(in_mo); IN_U64(in_ms); IN_U64(in_io); IN_U64(in_is); uint8_t *b, *e;
  f.metaindex_handle.offset = in_mo; f.metaindex_handle.size = in_ms;
  f.index_handle.offset = in_io; f.index_handle.size = in_is;
  b = malloc(SPEC_FOOTER_SIZE);
  ASSUME(b != NULL);
  e = ldb_footer_write(b, &f);
  CHECK(POST_FOOTER_WRITE(e, b, in_mo, in_ms, in_io, in_is), "footer_write: metaindex handle, index handle, zero padding to 40 bytes, magic 0xdb4775248b80fb57 little-endian, exactly 48 bytes");
  CANARY();
}

void h_footer_read(void) {
  IN_SIZE(in_n); ASSUME(in_n == 60); IN_BUF(buf, in_n); SNAP_BUF(buf, in_n);
  ldb_footer_t f; const uint8_t *p = buf; size_t n = in_n; int r;
  r = ldb_footer_read(&f, &p, &n);
  CHECK(POST_FOOTER_READ_RET(r, buf, in_n), "footer_read: succeeds iff >= 48 bytes, magic at byte 40, two well-formed handles");
  CHECK(POST_FOOTER_READ_OK(r, f.metaindex_handle.offset, f.metaindex_handle.size, f.index_handle.offset, f.index_handle.size, p, n, buf, in_n),
        "footer_read: handles are the decoded values, cursor advanced by exactly 48");
  CHECK(POST_FOOTER_READ_FAIL(r, p, n, buf, in_n), "footer_read: short input / wrong magic rejected with the cursor untouched; cursor never leaves the input");
  CANARY();
}

void h_footer_import(void) {
  IN_SIZE(in_n); IN_BUF(buf, in_n); SNAP_BUF(buf, in_n);
  ldb_footer_t f; ldb_slice_t x; int r;
  x.data = buf; x.size = in_n; x.alloc = 0;
  r = ldb_footer_import(&f, &x);
  CHECK(POST_FOOTER_READ_RET(r, buf, in_n), "footer_import: succeeds iff >= 48 bytes, magic at byte 40, two well-formed handles");
  CHECK(r != 1 || (f.metaindex_handle.offset == spec_handle_offset(buf, in_n) && f.metaindex_handle.size == spec_handle_size(buf, in_n)), "footer_import: metaindex handle decoded");
  CHECK(x.data == buf && x.size == in_n, "footer_import: the caller's slice is not consumed");
  CANARY();
}

/* round trips on the real code (real varint codecs), every 64-bit value */
void h_handle_rt(void) {
  ldb_handle_t h, g; IN_U64(in_off); IN_U64(in_size); uint8_t b[LDB_HANDLE_SIZE]; uint8_t *e; const uint8_t *p = b; size_t n; int r;
  h.offset = in_off; h.size = in_size;
  e = ldb_handle_write(b, &h);
  CHECK((size_t)(e - b) == ldb_handle_size(&h) && (size_t)(e - b) <= LDB_HANDLE_SIZE, "handle: written length = handle_size <= 20");
  n = (size_t)(e - b);
  r = ldb_handle_read(&g, &p, &n);
  CHECK(r == 1 && g.offset == in_off && g.size == in_size && n == 0 && p == e, "handle: read(write(h)) = h consuming exactly what was written");
  CANARY();
}

void h_footer_rt(void) {
  ldb_footer_t f, g; IN_U64(in_mo); IN_U64(in_ms); IN_U64(in_io); IN_U64(in_is);
  uint8_t b[LDB_FOOTER_SIZE]; uint8_t *e; const uint8_t *p = b; size_t n = LDB_FOOTER_SIZE; int r;
  f.metaindex_handle.offset = in_mo; f.metaindex_handle.size = in_ms;
  f.index_handle.offset = in_io; f.index_handle.size = in_is;
  e = ldb_footer_write(b, &f);
  CHECK(e == b + 48, "footer: exactly 48 bytes written");
  r = ldb_footer_read(&g, &p, &n);
  CHECK(r == 1 && n == 0 && p == e, "footer: read(write(f)) succeeds consuming 48 bytes");
  CHECK(g.metaindex_handle.offset == in_mo && g.metaindex_handle.size == in_ms && g.index_handle.offset == in_io && g.index_handle.size == in_is,
        "footer: read(write(f)) = f for all 64-bit values");
  CANARY();
}
