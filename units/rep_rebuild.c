/* units/rep_rebuild.c - repair_table (src/repair.c): salvage of a table whose scan ended with an iterator error
 *   rep.rebuild : C19 (whatever the iterator still delivers is copied, in order, into a NEW file under a fresh number;
 *                 the damaged original is ARCHIVED, never unlinked; the copy takes over the original's number only
 *                 after it was finished and closed; the record is registered iff that rename succeeded),
 *                 C13 (failed or empty copies are removed), C12.
 * Enforces c_repair_table (contracts/rep.h), the carrier used by rep.scan.
 * The table iterator is a ghost cursor over an arbitrary sequence (unbounded, loop contract); every I/O step may fail.
 */
#include "verif.h"
int nondet_int(void);
uint64_t nondet_u64(void);
size_t nondet_size(void);

#include "repair.c"

struct rb_cursor { unsigned long pos; };
struct rb_cursor g_rb;
unsigned long g_rb_n, g_rb_adds; uint8_t *g_rb_keybase, *g_rb_valbase;
ldb_iter_t g_rb_iter;
unsigned g_rb_firsts, g_rb_tfn_calls, g_rb_create_calls, g_rb_b_created, g_rb_b_finished, g_rb_b_abandoned, g_rb_b_destroyed, g_rb_sync_calls, g_rb_close_calls, g_rb_f_destroyed;
unsigned g_rb_iterate_calls, g_rb_iter_destroys, g_rb_evicts, g_rb_rename_calls, g_rb_removes, g_rb_push_calls, g_rb_free_calls, g_rb_metaclear;
int g_rb_create_rc, g_rb_finish_rc, g_rb_close_rc, g_rb_rename_rc;
uint64_t g_rb_size, g_rb_copy_num, g_rb_orig_num, g_rb_it_number, g_rb_it_size, g_rb_evict_num;
char *g_rb_copy_buf, *g_rb_orig_buf;
unsigned long g_rb_clock, g_rb_t_arch, g_rb_t_finish, g_rb_t_close, g_rb_t_rename, g_rb_t_evict, g_rb_t_iterdestroy;
unsigned g_rb_arch_at_finish;
uint64_t g_rb_next0, g_rb_number0, g_rb_size0;
#define REP_RT_EXTRA , g_rb.pos, g_rb_adds, g_rb_firsts, g_rb_tfn_calls, g_rb_create_calls, g_rb_b_created, g_rb_b_finished, g_rb_b_abandoned, g_rb_b_destroyed, g_rb_sync_calls, \
  g_rb_close_calls, g_rb_f_destroyed, g_rb_iterate_calls, g_rb_iter_destroys, g_rb_evicts, g_rb_rename_calls, g_rb_removes, g_rb_push_calls, g_rb_free_calls, g_rb_metaclear, \
  g_rb_create_rc, g_rb_finish_rc, g_rb_close_rc, g_rb_rename_rc, g_rb_size, g_rb_copy_num, g_rb_orig_num, g_rb_it_number, g_rb_it_size, g_rb_evict_num, g_rb_copy_buf, g_rb_orig_buf, \
  g_rb_clock, g_rb_t_finish, g_rb_t_close, g_rb_t_rename, g_rb_t_evict, g_rb_t_iterdestroy, g_rb_arch_at_finish
#include "contracts/rep.h"

static unsigned long rb_tick(void) { __CPROVER_assume(g_rb_clock < (1ul << 40)); return ++g_rb_clock; }

static void in_clear(void *p) { (void)p; }
static int in_valid(const void *p) { __CPROVER_assert(p == (const void *)&g_rb, "iterator op on the table cursor"); return g_rb.pos < g_rb_n; }
static void in_first(void *p) { __CPROVER_assert(p == (const void *)&g_rb, "iterator op on the table cursor"); g_rb.pos = 0; g_rb_firsts++; }
static void in_last(void *p) { __CPROVER_assert(0, "never moves backwards"); }
static void in_seek(void *p, const ldb_slice_t *t) { __CPROVER_assert(0, "never seeks"); }
static void in_next(void *p) { __CPROVER_assert(p == (const void *)&g_rb && g_rb.pos < g_rb_n, "next: REQUIRES valid()"); g_rb.pos++; }
static void in_prev(void *p) { __CPROVER_assert(0, "never moves backwards"); }
static ldb_slice_t in_key(const void *p) { ldb_slice_t k; __CPROVER_assert(p == (const void *)&g_rb && g_rb.pos < g_rb_n, "key: REQUIRES valid()"); k.data = g_rb_keybase + g_rb.pos; k.size = nondet_size(); k.alloc = 0; return k; }
static ldb_slice_t in_value(const void *p) { ldb_slice_t v; __CPROVER_assert(p == (const void *)&g_rb && g_rb.pos < g_rb_n, "value: REQUIRES valid()"); v.data = g_rb_valbase + g_rb.pos; v.size = nondet_size(); v.alloc = 0; return v; }
static int in_status(const void *p) { return nondet_int(); }
static const ldb_itertbl_t in_table = { in_clear, in_valid, in_first, in_last, in_seek, in_next, in_prev, in_key, in_value, in_status };

struct ldb_wfile_s { int dummy; };
struct ldb_tablegen_s { int dummy; };
static ldb_wfile_t g_rb_file; static ldb_tablegen_t g_rb_builder;
static const ldb_readopt_t g_readopt0;
const ldb_readopt_t *ldb_readopt_default = &g_readopt0;

int ldb_table_filename(char *buf, size_t size, const char *dbname, uint64_t num) {
  __CPROVER_assert(dbname == g_rep->dbname, "table names are formed in the database directory");
  if (g_rb_tfn_calls == 0) { g_rb_copy_buf = buf; g_rb_copy_num = num; } else { g_rb_orig_buf = buf; g_rb_orig_num = num; }
  g_rb_tfn_calls++; buf[0] = 0; g_nm_buf = buf; g_nm_kind = LDB_FILE_TABLE; g_nm_num = num;
  return 1;
}
int ldb_truncfile_create(const char *filename, ldb_wfile_t **file) {
  __CPROVER_assert(filename == g_rb_copy_buf && g_rb_tfn_calls == 1, "the copy is written to a new table file");
  g_rb_create_calls++; g_rb_create_rc = nondet_int();
  if (g_rb_create_rc == LDB_OK) *file = &g_rb_file;
  return g_rb_create_rc;
}
ldb_tablegen_t *ldb_tablegen_create(const ldb_dbopt_t *options, ldb_wfile_t *file) { __CPROVER_assert(options == &g_rep->options && file == &g_rb_file, "builder on the copy"); g_rb_b_created++; return &g_rb_builder; }
ldb_iter_t *ldb_tables_iterate(ldb_tables_t *cache, const ldb_readopt_t *options, uint64_t file_number, uint64_t file_size, ldb_table_t **tableptr) {
  __CPROVER_assert(cache == g_rep->table_cache && tableptr == NULL, "the damaged table is read through the table cache");
  g_rb_iterate_calls++; g_rb_it_number = file_number; g_rb_it_size = file_size;
  return &g_rb_iter;
}
void ldb_tablegen_add(ldb_tablegen_t *tb, const ldb_slice_t *key, const ldb_slice_t *value) {
  __CPROVER_assert(tb == &g_rb_builder && g_rb_b_finished == 0 && g_rb_b_abandoned == 0, "add: before finish/abandon");
  __CPROVER_assert(key->data == g_rb_keybase + g_rb_adds && value->data == g_rb_valbase + g_rb_adds, "the i-th entry copied is the i-th entry delivered, with its own value");
  g_rb_adds++;
}
void ldb_iter_destroy(ldb_iter_t *it) { __CPROVER_assert(it == &g_rb_iter, "the table iterator is released"); g_rb_iter_destroys++; g_rb_t_iterdestroy = rb_tick(); }
void ldb_tables_evict(ldb_tables_t *cache, uint64_t file_number) {
  __CPROVER_assert(cache == g_rep->table_cache && g_rb_iter_destroys == 1, "the damaged table is evicted from the cache after its iterator was released");
  g_rb_evicts++; g_rb_evict_num = file_number; g_rb_t_evict = rb_tick();
}
void ldb_tablegen_abandon(ldb_tablegen_t *tb) { __CPROVER_assert(tb == &g_rb_builder && g_rb_b_finished == 0 && g_rb_b_abandoned == 0, "abandon: once, not after finish"); g_rb_b_abandoned++; }
int ldb_tablegen_finish(ldb_tablegen_t *tb) {
  __CPROVER_assert(tb == &g_rb_builder && g_rb_b_finished == 0 && g_rb_b_abandoned == 0, "finish: once, not after abandon");
  g_rb_b_finished++; g_rb_finish_rc = nondet_int(); g_rb_t_finish = rb_tick(); g_rb_arch_at_finish = g_arch_calls;
  g_rb_size = nondet_u64(); __CPROVER_assume(g_rb_size > 0);
  return g_rb_finish_rc;
}
uint64_t ldb_tablegen_size(const ldb_tablegen_t *tb) { __CPROVER_assert(tb == &g_rb_builder && g_rb_b_finished == 1 && g_rb_finish_rc == LDB_OK && g_rb_b_destroyed == 0, "size read after a successful finish"); return g_rb_size; }
void ldb_tablegen_destroy(ldb_tablegen_t *tb) { __CPROVER_assert(tb == &g_rb_builder && (g_rb_b_finished == 1 || g_rb_b_abandoned == 1) && g_rb_b_destroyed == 0, "destroy: REQUIRES finish() or abandon()"); g_rb_b_destroyed++; }
int ldb_wfile_sync(ldb_wfile_t *file) { g_rb_sync_calls++; return nondet_int(); }
int ldb_wfile_close(ldb_wfile_t *file) {
  __CPROVER_assert(file == &g_rb_file && g_rb_f_destroyed == 0 && g_rb_b_destroyed == 1, "close of the live copy after the builder is gone");
  g_rb_close_calls++; g_rb_close_rc = nondet_int(); g_rb_t_close = rb_tick();
  return g_rb_close_rc;
}
void ldb_wfile_destroy(ldb_wfile_t *file) { __CPROVER_assert(file == &g_rb_file && g_rb_f_destroyed == 0, "file object destroyed once"); g_rb_f_destroyed++; }
int ldb_rename_file(const char *from, const char *to) {
  __CPROVER_assert(from == g_rb_copy_buf && to == g_rb_orig_buf && g_rb_tfn_calls == 2, "the copy is renamed onto the original table name");
  __CPROVER_assert(g_rb_b_finished == 1 && g_rb_finish_rc == LDB_OK && g_rb_close_calls == 1 && g_rb_close_rc == LDB_OK && g_rb_f_destroyed == 1, "the copy takes over the number only after it was finished and closed successfully");
  __CPROVER_assert(g_arch_calls == 1, "the damaged original was moved away before the copy is renamed over its name");
  g_rb_rename_calls++; g_rb_rename_rc = nondet_int(); g_rb_t_rename = rb_tick();
  return g_rb_rename_rc;
}
int ldb_remove_file(const char *filename) {
  __CPROVER_assert(filename == g_rb_copy_buf, "repair_table unlinks nothing but its own copy");
  __CPROVER_assert(g_rb_f_destroyed == 1, "the copy is removed after its handle was released");
  g_rb_removes++;
  return nondet_int();
}
void ldb_vector_push(ldb_vector_t *z, const void *x) {
  __CPROVER_assert(z == &g_rep->tables, "registered in the repairer's table list");
  __CPROVER_assert(g_rb_rename_calls == 1 && g_rb_rename_rc == LDB_OK, "the record is registered only after the copy is in place under the original number");
  g_rb_push_calls++; g_rt_calls++; g_rt_t = (ldb_tabinfo_t *)x;
}
void ldb_filemeta_clear(ldb_filemeta_t *meta) { g_rb_metaclear++; }
void ldb_free(void *ptr) { g_rb_free_calls++; g_rt_calls++; g_rt_t = (ldb_tabinfo_t *)ptr; }
void ldb_log(ldb_logger_t *logger, const char *fmt, ...) { }
const char *ldb_strerror(int code) { return "e"; }

static char g_dbname[2];
static char g_src[2];
void h_rebuild(void) {
  ldb_repair_t *rep = malloc(sizeof(*rep));
  ldb_tabinfo_t *t = malloc(sizeof(*t));
  char *cache = malloc(1);
  int copied, installed;
  __CPROVER_assume(rep != NULL && t != NULL && cache != NULL);
  g_rep = rep; g_dbname[0] = 'd'; g_dbname[1] = 0; rep->dbname = g_dbname; rep->table_cache = (ldb_tables_t *)cache;
  ldb_readopt_default = &g_readopt0;
  g_src[0] = 's'; g_src[1] = 0;
  g_nm_buf = g_src; g_nm_kind = nondet_int() ? LDB_FILE_TABLE : NM_SST; g_nm_num = t->meta.number; g_found_kind = g_nm_kind;
  g_pin_buf = g_src; g_pin_kind = g_nm_kind; g_pin_num = g_nm_num;   /* src keeps its meaning while other names are formatted */
  __CPROVER_assume(g_rb_n < (1ul << 31));     /* fewer than 2^31 entries: 'counter' is an int */
  g_rb_keybase = malloc(g_rb_n + 1); g_rb_valbase = malloc(g_rb_n + 1); __CPROVER_assume(g_rb_keybase != NULL && g_rb_valbase != NULL);
  g_rb_iter.ptr = &g_rb; g_rb_iter.table = &in_table; g_rb_iter.cmp = NULL; g_rb_iter.cleanup_head.func = NULL;
  g_rb.pos = 0; g_rb_adds = 0; g_rb_firsts = g_rb_tfn_calls = g_rb_create_calls = g_rb_b_created = g_rb_b_finished = g_rb_b_abandoned = g_rb_b_destroyed = g_rb_sync_calls = g_rb_close_calls = g_rb_f_destroyed = 0;
  g_rb_iterate_calls = g_rb_iter_destroys = g_rb_evicts = g_rb_rename_calls = g_rb_removes = g_rb_push_calls = g_rb_free_calls = g_rb_metaclear = 0;
  g_rb_clock = g_rb_t_finish = g_rb_t_close = g_rb_t_rename = g_rb_t_evict = g_rb_t_iterdestroy = 0; g_rb_arch_at_finish = 0;
  g_rb_copy_buf = g_rb_orig_buf = NULL;
  g_arch_calls = 0; g_arch_track_hits = 0; g_arch_removes = 0; g_arch_track_kind = g_nm_kind; g_arch_track_num = g_nm_num; g_rt_calls = 0; g_rt_t = NULL;
  __CPROVER_assume(rep->next_file_number < (1ull << 62));
  g_rb_next0 = rep->next_file_number; g_rb_number0 = t->meta.number; g_rb_size0 = t->meta.file_size;

  repair_table(rep, g_src, t);

  CHECK(g_rb_tfn_calls >= 1 && g_rb_copy_num == g_rb_next0 && rep->next_file_number == g_rb_next0 + 1, "rebuild: the copy gets a FRESH file number; the allocator advances by one");
  CHECK(g_rb_create_calls == 1, "rebuild: one copy file is created");
  if (g_rb_create_rc != LDB_OK) {
    CHECK(g_arch_calls == 0 && g_rb_iterate_calls == 0 && g_rb_removes == 0 && g_rb_push_calls == 0 && g_rb_free_calls == 1, "rebuild: copy cannot be created => the original is left in place untouched, the record is dropped");
  } else {
    copied = g_rb_n > 0;
    installed = copied && g_rb_finish_rc == LDB_OK && g_rb_close_rc == LDB_OK && g_rb_rename_rc == LDB_OK;
    CHECK(g_rb_iterate_calls == 1 && g_rb_it_number == g_rb_number0 && g_rb_it_size == g_rb_size0, "rebuild: the damaged table is read under its number and scanned size");
    CHECK(g_rb_firsts == 1 && g_rb.pos == g_rb_n && g_rb_adds == g_rb_n && g_rb_iter_destroys == 1, "rebuild: every entry the iterator delivers is copied, in order, exactly once; iterator released");
    CHECK(g_rb_evicts == 1 && g_rb_evict_num == g_rb_number0, "rebuild: the damaged table is evicted from the table cache (the number will name a different file)");
    CHECK(g_arch_calls == 1 && g_arch_name == g_src && g_arch_track_hits == 1, "rebuild: the damaged original is archived (moved to lost/), exactly once");
    CHECK(g_rb_b_created == 1 && g_rb_b_destroyed == 1 && g_rb_f_destroyed == 1 && g_rb_b_finished + g_rb_b_abandoned == 1, "rebuild: builder finished or abandoned exactly once, then destroyed; file object released");
    CHECK(g_rb_b_abandoned == (copied ? 0u : 1u), "rebuild: nothing salvaged => builder abandoned, else finished");
    CHECK(g_rb_close_calls == ((!copied || g_rb_finish_rc == LDB_OK) ? 1u : 0u), "rebuild: the copy is closed unless finish failed");
    CHECK(g_rb_sync_calls == 0, "rebuild (observation): the copy is NOT fsynced before it is renamed over the original number (same as LevelDB)");
    CHECK(g_rb_rename_calls == ((copied && g_rb_finish_rc == LDB_OK && g_rb_close_rc == LDB_OK) ? 1u : 0u), "rebuild: renamed iff something was salvaged and the copy is complete and closed");
    if (g_rb_rename_calls) CHECK(g_rb_orig_num == g_rb_number0 && g_rb_t_finish < g_rb_t_close && g_rb_t_close < g_rb_t_rename, "rebuild: finish -> close -> rename onto <original number>.ldb");
    CHECK(g_rb_push_calls == (installed ? 1u : 0u) && g_rb_free_calls == (installed ? 0u : 1u), "rebuild: the record is registered iff the copy was installed, otherwise dropped");
    CHECK(g_rb_removes == (installed ? 0u : 1u), "rebuild: a copy that is empty, failed or could not be installed is removed; an installed copy is kept");
    if (installed) CHECK(t->meta.file_size == g_rb_size && t->meta.number == g_rb_number0, "rebuild: the registered record keeps the number and carries the new file's size");
  }
  CHECK(g_arch_removes == 0, "rebuild: no data file is unlinked");
  CANARY();
}
