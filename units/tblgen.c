/* units/tblgen.c - proof units for src/table/table_builder.c: the block
 * writer ldb_tablegen_write_raw_block (C16, C11, C12).
 *
 * Table file format: each block is  contents[n] ‖ type[1] ‖ LE32(mask(crc32c(contents ‖ type)))
 * and is referred to by the handle (file offset of contents[0], n).
 *
 * The real table_builder.c is included unmodified.  The writable file is a
 * ghost recorder whose appends may fail at every call; crc32c is an
 * uninterpreted function that records its arguments.
 */
#include "verif.h"
#include "contracts/coding.h"

#include "util/env.h"
#include "util/crc32c.h"
#include "util/status.h"
#include "util/options.h"
#include "table/format.h"

#ifndef VERIF_NATIVE
struct ldb_wfile_s { int dummy; };
ldb_wfile_t g_the_file;
int g_failed, g_fail_rc;
int g_appends;
const uint8_t *g_a0_data; size_t g_a0_size;     /* first append: pointer identity and length */
size_t g_a1_size; uint8_t g_tr[5];              /* second append: the 5 trailer bytes */
uint64_t g_accepted;
int g_crc_calls;
uint32_t g_c0_z; const uint8_t *g_c0_p; size_t g_c0_n; uint32_t g_c0_ret;
uint32_t g_c1_z; size_t g_c1_n; uint8_t g_c1_byte; uint32_t g_c1_ret;

#define SPEC_MASK(c) ((uint32_t)((((uint32_t)(c) >> 15) | ((uint32_t)(c) << 17)) + 0xa282ead8u))

int nondet_int(void);
uint32_t nondet_u32(void);

int ldb_wfile_append(ldb_wfile_t *file, const ldb_slice_t *data) {
  int rc = nondet_int();
  __CPROVER_assert(file == &g_the_file, "raw_block: appends go to the builder's file");
  __CPROVER_assert(!g_failed, "raw_block: nothing is appended after a failed append");
  __CPROVER_assert(data->size == 0 || __CPROVER_r_ok(data->data, data->size), "raw_block: appended slice readable");
  __CPROVER_assert(g_appends < 2, "raw_block: exactly two appends per block (contents, trailer)");
  if (rc != LDB_OK) {
    __CPROVER_assume((rc >= LDB_MINERR && rc <= LDB_MAXERR) || (rc > 0 && rc < 200));
    g_failed = 1; g_fail_rc = rc;
    return rc;
  }
  if (g_appends == 0) {
    g_a0_data = data->data; g_a0_size = data->size;
  } else {
    g_a1_size = data->size;
    if (data->size == 5) {
      g_tr[0] = data->data[0]; g_tr[1] = data->data[1]; g_tr[2] = data->data[2]; g_tr[3] = data->data[3]; g_tr[4] = data->data[4];
    }
  }
  g_appends++;
  g_accepted += data->size;
  return LDB_OK;
}

uint32_t ldb_crc32c_extend(uint32_t z, const uint8_t *xp, size_t xn) {
  __CPROVER_assert(xn == 0 || __CPROVER_r_ok(xp, xn), "crc: covered bytes readable");
  if (g_crc_calls == 0) {
    g_c0_z = z; g_c0_p = xp; g_c0_n = xn; g_c0_ret = nondet_u32(); g_crc_calls++;
    return g_c0_ret;
  }
  g_c1_z = z; g_c1_n = xn; g_c1_byte = xn >= 1 ? xp[0] : 0; g_c1_ret = nondet_u32(); g_crc_calls++;
  return g_c1_ret;
}
#endif

#include "table/table_builder.c"

#ifndef VERIF_NATIVE
#define RAW_N (block_contents->size)
void c_write_raw_block(ldb_tablegen_t *tb, const ldb_slice_t *block_contents, enum ldb_compression type, ldb_handle_t *handle)
__CPROVER_requires(__CPROVER_rw_ok(tb, sizeof(*tb)) && __CPROVER_r_ok(block_contents, sizeof(*block_contents)) && __CPROVER_w_ok(handle, sizeof(*handle)))
__CPROVER_requires(RAW_N == 0 || __CPROVER_r_ok(block_contents->data, RAW_N))
__CPROVER_requires(tb->file == &g_the_file && g_appends == 0 && g_crc_calls == 0 && !g_failed)
__CPROVER_requires(type == LDB_NO_COMPRESSION || type == LDB_SNAPPY_COMPRESSION)
/* a file cannot grow beyond 2^64 bytes */
__CPROVER_requires(RAW_N <= 0xffffffffffffffffull - 5 && tb->offset <= 0xffffffffffffffffull - 5 - RAW_N)
__CPROVER_assigns(tb->status, tb->offset, handle->offset, handle->size, g_failed, g_fail_rc, g_appends, g_a0_data, g_a0_size, g_a1_size,
                  __CPROVER_object_whole(g_tr), g_accepted, g_crc_calls, g_c0_z, g_c0_p, g_c0_n, g_c0_ret, g_c1_z, g_c1_n, g_c1_byte, g_c1_ret)
/* handle = (file offset before the block, size of the contents without trailer) */
__CPROVER_ensures(handle->offset == __CPROVER_old(tb->offset) && handle->size == RAW_N)
/* success: contents appended as they are, then the 5-byte trailer */
__CPROVER_ensures(tb->status == LDB_OK ==> (!g_failed && g_appends == 2 && g_a0_data == block_contents->data && g_a0_size == RAW_N && g_a1_size == 5))
/* trailer = type byte, then LE32 of the masked crc32c of contents followed by the type byte */
__CPROVER_ensures(tb->status == LDB_OK ==> g_tr[0] == (uint8_t)type)
__CPROVER_ensures(tb->status == LDB_OK ==> (g_crc_calls == 2 && g_c0_z == 0 && g_c0_p == block_contents->data && g_c0_n == RAW_N &&
                                            g_c1_z == g_c0_ret && g_c1_n == 1 && g_c1_byte == (uint8_t)type))
__CPROVER_ensures(tb->status == LDB_OK ==> LE32_AT(g_tr + 1) == SPEC_MASK(g_c1_ret))
/* the file offset advances by size + 5 exactly when both appends succeeded */
__CPROVER_ensures(tb->status == LDB_OK ==> tb->offset == __CPROVER_old(tb->offset) + RAW_N + 5)
__CPROVER_ensures(tb->status != LDB_OK ==> tb->offset == __CPROVER_old(tb->offset))
__CPROVER_ensures(g_accepted == __CPROVER_old(g_accepted) + (g_appends >= 1 ? RAW_N : 0) + (g_appends == 2 ? 5 : 0))
/* the append status is the builder's status */
__CPROVER_ensures(tb->status != LDB_OK ==> (g_failed && tb->status == g_fail_rc))
__CPROVER_ensures(g_failed ==> tb->status != LDB_OK)
;

void h_write_raw_block(void) {
  ldb_tablegen_t *tb = malloc(sizeof(*tb));
  ldb_slice_t c; ldb_handle_t h;
  IN_SIZE(in_n); IN_U64(in_offset); IN_INT(in_type);
  uint8_t *data = malloc(in_n);
  ASSUME(tb != NULL && data != NULL);
  tb->file = &g_the_file; tb->offset = in_offset; tb->status = LDB_OK;
  c.data = data; c.size = in_n; c.alloc = 0;
  g_appends = 0; g_crc_calls = 0; g_failed = 0; g_fail_rc = 0;
  ldb_tablegen_write_raw_block(tb, &c, (enum ldb_compression)in_type, &h);
  CANARY();
}
#endif
