/* units/ver3_u.c - ldb_version_add_iterators with ANY number of level-0 files (group "ver3": C07, C01)
 *
 *   ver3.additers.u   both loops of ldb_version_add_iterators closed by loop contracts (loops/ver3.json); ghost-index method:
 *                     one arbitrary level-0 position g_j holds the file g_file, every other position the file g_other;
 *                     one arbitrary level g_L in 1..6 is watched.
 * Proved for the arbitrary position / level:
 *     call #g_j of ldb_tables_iterate is (table cache, read options, number and size of THAT file, no table pointer) and the
 *     iterator it returned is the g_j-th pointer appended;  after the level-0 part exactly n0 iterators were appended;
 *     level g_L, if not empty, gets exactly one concatenating iterator (numiter over files[g_L], get_file_iterator, table
 *     cache, read options), appended at position n0 + (number of non-empty levels below g_L);  in total
 *     n0 + (number of non-empty levels) iterators are appended.
 * The bounded twin ver3.additers (units/ver3.c, <= 3 level-0 files, all positions and all levels at once) checks the same facts
 * without the loop contracts.
 */
#include "verif.h"
#include "version_set.c"

ldb_versions_t nondet_versions(void);
ldb_version_t nondet_version(void);
ldb_filemeta_t nondet_filemeta(void);

/* ghost state named in loops/ver3.json: plain globals */
ldb_versions_t g_vset; ldb_version_t g_ver; ldb_vector_t g_iters; ldb_readopt_t g_ropt;
ldb_filemeta_t g_file, g_other;
size_t g_n0, g_j;                      /* level-0 length, watched position                                   */
int g_L;                               /* watched level 1..6                                                 */
size_t g_nz[LDB_NUM_LEVELS];           /* g_nz[l] = 1 iff level l is not empty                               */
size_t g_ti_calls, g_push_n, g_tw_calls, g_ic_calls, g_mallocs;
int g_rec_ok, g_others_ok;             /* call #g_j had the right arguments / every other call named g_other */
const void *g_watched;                 /* pointer appended at position g_j                                   */
char *g_pool, *g_pool2;                /* distinct iterator tokens: g_pool + k, g_pool2 + k                  */
int g_lvl_seen, g_lvl_ok; const void *g_lvl_ret; size_t g_lvl_pos; int g_lvl_pushed;
void *g_ic_last_ptr; const ldb_itertbl_t *g_ic_last_tbl; const ldb_comparator_t *g_ic_last_cmp;
ldb_iter_t g_ic_obj;
static int g_cache_obj;
#define CACHE_TOK ((ldb_tables_t *)&g_cache_obj)

/* dfcc does not allow heap allocation inside a loop that is under a loop contract: the allocator model hands out one static
   object (each concatenating iterator is inspected by the ldb_twoiter_create model before the next one is built) */
ldb_numiter_t g_ni_obj;
void *ldb_malloc(size_t size) {
  __CPROVER_assert(size == sizeof(ldb_numiter_t), "the only allocation is a level file iterator");
  g_mallocs++;
  return &g_ni_obj;
}
ldb_iter_t *ldb_iter_create(void *ptr, const ldb_itertbl_t *table, const ldb_comparator_t *cmp) {
  g_ic_last_ptr = ptr; g_ic_last_tbl = table; g_ic_last_cmp = cmp; g_ic_calls++;
  return &g_ic_obj;
}
ldb_iter_t *ldb_twoiter_create(ldb_iter_t *index_iter, ldb_blockfunc_f block_function, void *arg, const ldb_readopt_t *options) {
  const ldb_numiter_t *ni = g_ic_last_ptr;
  ldb_iter_t *r = (ldb_iter_t *)(g_pool2 + g_tw_calls);
  if (index_iter == &g_ic_obj && ni->flist == &g_ver.files[g_L]) {
    /* the concatenating iterator of the watched level */
    g_lvl_ok = !g_lvl_seen && g_ic_last_tbl == &ldb_numiter_table && g_ic_last_cmp == &ni->icmp &&
               ni->icmp.compare == g_vset.icmp.compare && ni->icmp.user_comparator == g_vset.icmp.user_comparator &&
               ni->index == (uint32_t)g_ver.files[g_L].length &&
               block_function == &get_file_iterator && arg == (void *)CACHE_TOK && options == &g_ropt;
    g_lvl_seen = 1; g_lvl_ret = r;
  }
  g_tw_calls++;
  return r;
}
ldb_iter_t *ldb_tables_iterate(ldb_tables_t *cache, const ldb_readopt_t *options, uint64_t file_number, uint64_t file_size, ldb_table_t **tableptr) {
  ldb_iter_t *r = (ldb_iter_t *)(g_pool + g_ti_calls);
  int common = cache == CACHE_TOK && options == &g_ropt && tableptr == NULL;
  if (g_ti_calls == g_j) g_rec_ok = common && file_number == g_file.number && file_size == g_file.file_size;
  else if (!(common && file_number == g_other.number && file_size == g_other.file_size)) g_others_ok = 0;
  g_ti_calls++;
  return r;
}
void ldb_vector_push(ldb_vector_t *z, const void *x) {
  __CPROVER_assert(z == &g_iters, "add_iterators: iterators are appended to the caller's vector");
  if (g_push_n == g_j) g_watched = x;
  if (g_lvl_seen && !g_lvl_pushed && x == g_lvl_ret) { g_lvl_pos = g_push_n; g_lvl_pushed = 1; }
  g_push_n++;
}
ldb_iter_t *ldb_emptyiter_create(int status) { __CPROVER_assert(0, "add_iterators: no error iterator is created here"); (void)status; return &g_ic_obj; }

#define CNT_BELOW(l) (((l) > 1 ? g_nz[1] : 0) + ((l) > 2 ? g_nz[2] : 0) + ((l) > 3 ? g_nz[3] : 0) + ((l) > 4 ? g_nz[4] : 0) + ((l) > 5 ? g_nz[5] : 0) + ((l) > 6 ? g_nz[6] : 0))

void h_add_iterators_u(void) {
  IN_SIZE(in_n0); IN_SIZE(in_j); IN_INT(in_level);
  ASSUME(in_n0 <= ((size_t)1 << 40) && in_j < in_n0 + 1);
  ASSUME(in_level >= 1 && in_level < LDB_NUM_LEVELS);
  g_vset = nondet_versions(); g_ver = nondet_version(); g_ver.vset = &g_vset; g_vset.table_cache = CACHE_TOK;
  g_file = nondet_filemeta(); g_other = nondet_filemeta();
  g_n0 = in_n0; g_j = in_j; g_L = in_level;
  /* level 0: every position holds g_other, position g_j (if it exists) holds g_file */
  g_ver.files[0].items = malloc(in_n0 * sizeof(void *));
  ASSUME(g_ver.files[0].items != NULL);
  g_ver.files[0].length = in_n0; g_ver.files[0].alloc = in_n0;
  __CPROVER_array_set(g_ver.files[0].items, (void *)&g_other);
  if (in_j < in_n0) g_ver.files[0].items[in_j] = &g_file;
  /* (no loop in the harness: with loop contracts applied every loop of the unit would need one) */
#define MK_NZ(l) ASSUME(g_ver.files[l].length <= 2147483647); g_nz[l] = g_ver.files[l].length > 0 ? 1 : 0
  MK_NZ(1); MK_NZ(2); MK_NZ(3); MK_NZ(4); MK_NZ(5); MK_NZ(6);
  g_nz[0] = 0;
  g_pool = malloc(in_n0 + 1); g_pool2 = malloc(8);
  ASSUME(g_pool != NULL && g_pool2 != NULL);
  g_ti_calls = 0; g_push_n = 0; g_tw_calls = 0; g_ic_calls = 0; g_mallocs = 0; g_rec_ok = 0; g_others_ok = 1; g_watched = NULL;
  g_lvl_seen = 0; g_lvl_ok = 0; g_lvl_ret = NULL; g_lvl_pos = 0; g_lvl_pushed = 0;
  g_ic_last_ptr = NULL; g_ic_last_tbl = NULL; g_ic_last_cmp = NULL;

  ldb_version_add_iterators(&g_ver, &g_ropt, &g_iters);

  CHECK(g_ti_calls == in_n0, "add_iterators: exactly one table iterator per level-0 file");
  CHECK(g_others_ok, "add_iterators: every level-0 call passes (table cache, read options, number, size) of a file of the level, no table pointer");
  if (in_j < in_n0) {
    CHECK(g_rec_ok, "add_iterators: the table opened for level-0 position j is file j (number and size), through the version set's table cache with the caller's read options");
    CHECK(g_watched == (const void *)(g_pool + in_j), "add_iterators: the iterator of level-0 file j is appended at position j (every file individually, in list order)");
  }
  CHECK(g_tw_calls == CNT_BELOW(LDB_NUM_LEVELS) && g_ic_calls == g_tw_calls && g_mallocs == g_tw_calls, "add_iterators: one concatenating iterator per non-empty level 1..6");
  CHECK(g_push_n == in_n0 + CNT_BELOW(LDB_NUM_LEVELS), "add_iterators: nothing else is appended");
  if (g_nz[in_level]) {
    CHECK(g_lvl_seen && g_lvl_ok, "add_iterators: a non-empty level gets exactly one two-level iterator: unpositioned level file iterator over files[level] under the internal comparator, get_file_iterator, table cache, read options");
    CHECK(g_lvl_pushed && g_lvl_pos == in_n0 + CNT_BELOW(in_level), "add_iterators: it is appended after the level-0 iterators, in level order");
  } else {
    CHECK(!g_lvl_seen, "add_iterators: an empty level gets no iterator");
  }
  CANARY();
}
