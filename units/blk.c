/* units/blk.c - proof units for src/table/block.c (C16, C18, C11, C07)
 *
 * The real block.c is included unmodified (statics become visible).
 */
#include "verif.h"
#include "contracts/coding.h"
#include "contracts/blk.h"

#include "table/block.c"

/* ===================================================================== spec
 * Independent decoder of an entry header (three LEB128 varint32), written
 * from the table-format description.  Pure: no writes outside its locals. */
typedef struct spec_hdr_s {
  size_t len;            /* bytes of header, 0 = not decodable within n bytes */
  uint32_t shared, non_shared, value_length;
} spec_hdr_t;

static spec_hdr_t spec_entry_header(const uint8_t *p, size_t n) {
  spec_hdr_t h;
  size_t k1, k2, k3;
  h.len = 0; h.shared = 0; h.non_shared = 0; h.value_length = 0;
  k1 = BLK_VLEN5(p, n);
  if (k1 == 0) return h;
  k2 = BLK_VLEN5(p + k1, n - k1);
  if (k2 == 0) return h;
  k3 = BLK_VLEN5(p + k1 + k2, n - k1 - k2);
  if (k3 == 0) return h;
  h.shared = V32_VAL(p, k1);
  h.non_shared = V32_VAL(p + k1, k2);
  h.value_length = V32_VAL(p + k1 + k2, k3);
  h.len = k1 + k2 + k3;
  return h;
}

/* q = result, (s, ns, vl) = outputs, p/n = input cursor and bytes up to limit */
static int spec_decode_entry_ok(const uint8_t *q, uint32_t s, uint32_t ns, uint32_t vl, const uint8_t *p, size_t n) {
  spec_hdr_t h = spec_entry_header(p, n);
  int decodable = h.len != 0 && (uint64_t)h.non_shared + (uint64_t)h.value_length <= (uint64_t)(n - h.len);
  if (!decodable)
    return q == NULL;
  return q == p + h.len && s == h.shared && ns == h.non_shared && vl == h.value_length;
}

/* ============================================================== blk.decode */
const uint8_t *c_decode_entry(uint32_t *shared, uint32_t *non_shared, uint32_t *value_length,
                              const uint8_t *xp, const uint8_t *limit)
__CPROVER_requires(__CPROVER_w_ok(shared, sizeof(*shared)) && __CPROVER_w_ok(non_shared, sizeof(*non_shared)) && __CPROVER_w_ok(value_length, sizeof(*value_length)))
__CPROVER_requires(__CPROVER_same_object(xp, limit))
__CPROVER_requires(limit < xp || __CPROVER_r_ok(xp, (size_t)(limit - xp)))
__CPROVER_assigns(*shared, *non_shared, *value_length)
/* limit before the cursor: nothing to decode */
__CPROVER_ensures(!(limit < xp) || __CPROVER_return_value == NULL)
/* result is NULL exactly when [xp, limit) does not start with three terminated varint32 followed by
 * non_shared + value_length bytes; otherwise it points just past the header and the outputs are the LEB128 values */
__CPROVER_ensures(limit < xp || POST_DECODE_ENTRY(__CPROVER_return_value, *shared, *non_shared, *value_length, xp, (size_t)(limit - xp)))
;

void h_decode_entry(void) {
  IN_SIZE(in_n); IN_SIZE(in_off); IN_SIZE(in_lim);
  IN_BUF(buf, in_n); SNAP_BUF(buf, in_n);
  uint32_t s = 0, ns = 0, vl = 0;
  const uint8_t *q;
  ASSUME(in_off <= in_n && in_lim <= in_n);
  /* either the object ends exactly at limit (any read at/after limit is an
   * out-of-bounds read), or the cursor is already past the limit */
  ASSUME(in_lim == in_n || in_off > in_lim);
  q = decode_entry(&s, &ns, &vl, buf + in_off, buf + in_lim);
  if (in_off > in_lim) {
    CHECK(q == NULL, "decode_entry: cursor past limit yields NULL");
  } else {
    size_t n = in_lim - in_off;
    CHECK(n >= 3 || q == NULL, "decode_entry: fewer than 3 bytes cannot hold an entry header");
    CHECK(spec_decode_entry_ok(q, s, ns, vl, buf + in_off, n), "decode_entry: NULL iff undecodable, else header end and the three LEB128 values");
    CHECK(q == NULL || (q >= buf + in_off + 3 && q <= buf + in_lim && (uint64_t)ns + vl <= (uint64_t)(buf + in_lim - q)),
          "decode_entry: key delta and value lie within [result, limit)");
  }
  CANARY();
}
