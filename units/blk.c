/* units/blk.c - proof units for src/table/block.c (C16, C18, C11, C07)
 *
 * The real block.c is included unmodified (statics become visible).
 */
#include "verif.h"
#include "contracts/coding.h"
#include "contracts/blk.h"

#include "table/block.c"

/* ===================================================================== spec
 * Independent decoder of an entry header (three LEB128 varint32), written
 * from the table-format description.  Pure: no writes outside its locals. */
/* first min(n,15) bytes at p; bytes that do not exist read as 0x80, a
 * continuation byte that terminates nothing */
#define SPEC_B(p, n, j) ((j) < (n) ? (p)[j] : (uint8_t)0x80)
#define SPEC_VLEN(h, i) (!((h)[(i)] & 128) ? 1u : !((h)[(i) + 1] & 128) ? 2u : !((h)[(i) + 2] & 128) ? 3u : !((h)[(i) + 3] & 128) ? 4u : !((h)[(i) + 4] & 128) ? 5u : 0u)
#define SPEC_VVAL(h, i, k) ((uint32_t)(((uint64_t)((h)[(i)] & 127)) | ((k) > 1 ? ((uint64_t)((h)[(i) + 1] & 127) << 7) : 0) | \
  ((k) > 2 ? ((uint64_t)((h)[(i) + 2] & 127) << 14) : 0) | ((k) > 3 ? ((uint64_t)((h)[(i) + 3] & 127) << 21) : 0) | ((k) > 4 ? ((uint64_t)((h)[(i) + 4] & 127) << 28) : 0)))

/* q = result, (s, ns, vl) = outputs, p/n = input cursor and bytes up to limit */
static int spec_decode_entry_ok(const uint8_t *q, uint32_t s, uint32_t ns, uint32_t vl, const uint8_t *p, size_t n) {
  uint8_t h[20];
  size_t k1, k2, k3, len;
  uint32_t es, ens, evl;
  h[0] = SPEC_B(p, n, 0); h[1] = SPEC_B(p, n, 1); h[2] = SPEC_B(p, n, 2); h[3] = SPEC_B(p, n, 3); h[4] = SPEC_B(p, n, 4);
  h[5] = SPEC_B(p, n, 5); h[6] = SPEC_B(p, n, 6); h[7] = SPEC_B(p, n, 7); h[8] = SPEC_B(p, n, 8); h[9] = SPEC_B(p, n, 9);
  h[10] = SPEC_B(p, n, 10); h[11] = SPEC_B(p, n, 11); h[12] = SPEC_B(p, n, 12); h[13] = SPEC_B(p, n, 13); h[14] = SPEC_B(p, n, 14);
  h[15] = 0x80; h[16] = 0x80; h[17] = 0x80; h[18] = 0x80; h[19] = 0x80;
  k1 = SPEC_VLEN(h, 0);
  if (k1 == 0) return q == NULL;
  k2 = SPEC_VLEN(h, k1);
  if (k2 == 0) return q == NULL;
  k3 = SPEC_VLEN(h, k1 + k2);
  if (k3 == 0) return q == NULL;
  len = k1 + k2 + k3;
  es = SPEC_VVAL(h, 0, k1); ens = SPEC_VVAL(h, k1, k2); evl = SPEC_VVAL(h, k1 + k2, k3);
  if ((uint64_t)ens + (uint64_t)evl > (uint64_t)(n - len)) return q == NULL;
  return q == p + len && s == es && ns == ens && vl == evl;
}

/* ============================================================== blk.decode */
const uint8_t *c_decode_entry(uint32_t *shared, uint32_t *non_shared, uint32_t *value_length,
                              const uint8_t *xp, const uint8_t *limit)
__CPROVER_requires(__CPROVER_w_ok(shared, sizeof(*shared)) && __CPROVER_w_ok(non_shared, sizeof(*non_shared)) && __CPROVER_w_ok(value_length, sizeof(*value_length)))
__CPROVER_requires(__CPROVER_same_object(xp, limit))
__CPROVER_requires(limit < xp || __CPROVER_r_ok(xp, (size_t)(limit - xp)))
__CPROVER_assigns(*shared, *non_shared, *value_length)
/* for callers that replace the call: the result points into [xp, limit] (must be the first clause: it binds the pointer) */
__CPROVER_ensures(__CPROVER_return_value == NULL || __CPROVER_pointer_in_range_dfcc(xp, __CPROVER_return_value, limit))
/* limit before the cursor: nothing to decode */
__CPROVER_ensures(!(limit < xp) || __CPROVER_return_value == NULL)
/* result is NULL exactly when [xp, limit) does not start with three terminated varint32 followed by
 * non_shared + value_length bytes; otherwise it points just past the header and the outputs are the LEB128 values */
__CPROVER_ensures(limit < xp || spec_decode_entry_ok(__CPROVER_return_value, *shared, *non_shared, *value_length, xp, (size_t)(limit - xp)))
;

void h_decode_entry(void) {
  IN_SIZE(in_n);
  IN_BUF(buf, in_n); SNAP_BUF(buf, in_n);
  uint32_t s = 0, ns = 0, vl = 0;
  const uint8_t *q;
  /* the object ends exactly at limit: any read at/after limit is an out-of-bounds read */
  q = decode_entry(&s, &ns, &vl, buf, buf + in_n);
  CHECK(in_n >= 3 || q == NULL, "decode_entry: fewer than 3 bytes cannot hold an entry header");
  CHECK(q == NULL || (__CPROVER_same_object(q, buf) && (size_t)(q - buf) >= 3 && (size_t)(q - buf) <= 15 && (size_t)(q - buf) <= in_n &&
                      (uint64_t)ns + vl <= (uint64_t)(in_n - (size_t)(q - buf))),
        "decode_entry: header is 3..15 bytes, key delta and value lie within [result, limit)");
  CHECK(q == NULL || in_n < 3 || !(buf[0] < 128 && buf[1] < 128 && buf[2] < 128) || (q == buf + 3 && s == buf[0] && ns == buf[1] && vl == buf[2]),
        "decode_entry: three one-byte varints decode to themselves");
  CANARY();
}

/* cursor already past the limit (both inside one object) */
void h_decode_entry_past(void) {
  IN_SIZE(in_n); IN_SIZE(in_off); IN_SIZE(in_lim);
  IN_BUF(buf, in_n);
  uint32_t s = 0, ns = 0, vl = 0;
  const uint8_t *q;
  ASSUME(in_off <= in_n && in_lim < in_off);
  q = decode_entry(&s, &ns, &vl, buf + in_off, buf + in_lim);
  CHECK(q == NULL, "decode_entry: cursor past limit yields NULL");
  CANARY();
}

/* ================================================================ blk.init */
uint32_t c_block_restarts(const ldb_block_t *block)
__CPROVER_requires(__CPROVER_r_ok(block, sizeof(*block)) && block->size >= 4 && __CPROVER_r_ok(block->data, block->size))
__CPROVER_assigns()
__CPROVER_ensures(__CPROVER_return_value == BLK_NRESTARTS(block->data, block->size))
;

void h_block_restarts(void) {
  ldb_block_t b;
  IN_SIZE(in_n); IN_BUF(buf, in_n); SNAP_BUF(buf, in_n);
  uint32_t r;
  ASSUME(in_n >= 4);
  b.data = buf; b.size = in_n; b.restart_offset = 0; b.owned = 0;
  r = ldb_block_restarts(&b);
  CHECK(r == LE32_AT(buf + (in_n - 4)), "block_restarts: the count is the little-endian word in the last 4 bytes of the block");
  CANARY();
}

static void block_init_harness(size_t in_n, int in_heap) {
  ldb_block_t b;
  ldb_contents_t c;
  IN_BUF(buf, in_n);
  c.data.data = buf; c.data.size = in_n; c.data.alloc = 0; c.cachable = 0; c.heap_allocated = in_heap;
  b.data = NULL; b.size = 77; b.restart_offset = 77; b.owned = 77;
  ldb_block_init(&b, &c);
  CHECK(POST_BLOCK_INIT_FIELDS(&b, buf, in_heap), "block_init: data pointer and ownership flag are taken from the contents");
  CHECK(POST_BLOCK_INIT_BAD(&b, buf, in_n), "block_init: size < 4 or restart count > (size-4)/4 sets the error marker size = 0");
  CHECK(POST_BLOCK_INIT_GOOD(&b, buf, in_n), "block_init: restart_offset + 4*(1+num_restarts) == size exactly (no wrap, no truncation)");
  CHECK(BLK_RI(&b), "block_init: block invariant holds afterwards");
}

void h_block_init(void) {
  IN_SIZE(in_n); IN_INT(in_heap);
  ASSUME(in_n <= 0xffffffffu);
  block_init_harness(in_n, in_heap);
  CANARY();
}

/* same obligations, block of ANY size_t size */
void h_block_init_huge(void) {
  IN_SIZE(in_n); IN_INT(in_heap);
  block_init_harness(in_n, in_heap);
  CANARY();
}

/* ================================================================ blk.iter
 * Environment of the iterator units.
 *
 * Key buffer: its storage is abstracted.  ldb_buffer_{init,reset,resize,append,clear}
 * are stubs over a ghost store (g_keystore) that check the buffer invariant
 * size <= alloc before every operation and reproduce the size / capacity
 * arithmetic of the contracts enforced on the real buffer.c in the buf.* units
 * (growth only when needed, never shrinking).  Content of the key is not
 * modelled (arbitrary).
 * Comparator: a stub that checks that both operands are readable slices and
 * returns an arbitrary int.
 */
uint8_t g_keystore[8];
#define KEY_RI(z) ((z)->size <= (z)->alloc && (z)->alloc <= ((size_t)1 << 47) && \
                   ((z)->alloc == 0 ? (z)->data == NULL : (z)->data == g_keystore))

void ldb_buffer_init(ldb_buffer_t *z) { z->data = NULL; z->size = 0; z->alloc = 0; }
void ldb_buffer_reset(ldb_buffer_t *z) { z->size = 0; }
void ldb_buffer_clear(ldb_buffer_t *z) {
  __CPROVER_assert(KEY_RI(z), "key buffer invariant holds when the buffer is cleared");
  z->data = NULL; z->size = 0; z->alloc = 0;
}
uint8_t *ldb_buffer_resize(ldb_buffer_t *z, size_t zn) {
  __CPROVER_assert(KEY_RI(z), "key buffer invariant holds when the buffer is resized");
  __CPROVER_assert(zn <= ((size_t)1 << 47), "key buffer: requested size is a possible object size");
  if (zn > z->alloc) { z->alloc = zn; z->data = g_keystore; }
  z->size = zn;
  return z->data;
}
void ldb_buffer_append(ldb_buffer_t *z, const uint8_t *xp, size_t xn) {
  size_t zn;
  __CPROVER_assert(KEY_RI(z), "key buffer invariant holds when bytes are appended");
  __CPROVER_assert(xn == 0 || __CPROVER_r_ok(xp, xn), "key buffer: appended bytes are readable");
  __CPROVER_assert(xn <= ((size_t)1 << 47), "key buffer: appended length is a possible object size");
  zn = z->size + xn;
  if (zn > z->alloc) {
    size_t a = nondet_size();
    __CPROVER_assume(a >= zn && (a == zn || a <= (z->alloc * 3) / 2));
    z->alloc = a; z->data = g_keystore;
  }
  z->size = zn;
}

ldb_comparator_t g_cmp;      /* the iterator's comparator */
ldb_comparator_t g_ucmp;     /* its user comparator when it is an internal-key comparator */
int g_cmp_calls, g_last_cmp; const ldb_slice_t *g_last_x, *g_last_y;   /* g_cmp_calls: 0/1 flag "compared at least once"; the most recent comparison */
#define SLICE_READABLE(x) ((x)->size == 0 || (x)->data == g_keystore || __CPROVER_r_ok((x)->data, (x)->size))
static int stub_compare(const ldb_comparator_t *c, const ldb_slice_t *x, const ldb_slice_t *y) {
  __CPROVER_assert(c == &g_cmp, "comparator: called with the iterator's comparator");
  __CPROVER_assert(SLICE_READABLE(x), "comparator: left operand is a readable slice");
  __CPROVER_assert(SLICE_READABLE(y), "comparator: right operand is a readable slice");
  g_cmp_calls = 1; g_last_x = x; g_last_y = y; g_last_cmp = nondet_int();
  return g_last_cmp;
}

/* ---- representation invariant of ldb_blockiter_t (over arbitrary block bytes) ----
 * IT_STATIC: the block: data readable for restarts + 4*num_restarts + 4 bytes (entries, restart array, count),
 *            at least one restart, everything below 4 GiB; comparator bound; key buffer invariant.
 * IT_POS:    the value slice lies inside the entry area [data, data+restarts] - parse_next_key continues at its end.
 * IT_RI:     valid (current < restarts)  => restart_index < num_restarts, IT_POS, value starts after the >= 3 header bytes;
 *            invalid                     => current == restarts and restart_index == num_restarts.            */
#define IT_BLOCK_BYTES(it) ((size_t)(it)->restarts + 4 * (size_t)(it)->num_restarts + 4)
#define IT_STATIC(it) ((it)->num_restarts >= 1 && (uint64_t)(it)->restarts + 4 * (uint64_t)(it)->num_restarts + 4 <= 0xffffffffu && \
  __CPROVER_r_ok((it)->data, IT_BLOCK_BYTES(it)) && (it)->comparator == &g_cmp && KEY_RI(&(it)->key))
#define IT_VOFF(it) ((size_t)((it)->value.data - (it)->data))
#define IT_POS(it) (__CPROVER_same_object((it)->value.data, (it)->data) && (it)->value.data >= (it)->data && \
  (it)->value.size <= (size_t)(it)->restarts && IT_VOFF(it) <= (size_t)(it)->restarts - (it)->value.size)
#define IT_NEXT_OFF(it) (IT_VOFF(it) + (it)->value.size)
#define IT_OLD_NEXT_OFF(it) ((size_t)(__CPROVER_old((it)->value.data) - (it)->data) + __CPROVER_old((it)->value.size))
#define IT_RI_VALID(it) (!((it)->current < (it)->restarts) || ((it)->restart_index < (it)->num_restarts && IT_POS(it) && IT_VOFF(it) >= (size_t)(it)->current + 3))
#define IT_RI_INVALID(it) ((it)->current < (it)->restarts || ((it)->current == (it)->restarts && (it)->restart_index == (it)->num_restarts))
#define IT_RI(it) (IT_STATIC(it) && IT_RI_VALID(it) && IT_RI_INVALID(it))
#define IT_IS_CORRUPT(it) ((it)->current == (it)->restarts && (it)->restart_index == (it)->num_restarts && (it)->status == LDB_CORRUPTION && \
  (it)->key.size == 0 && (it)->value.data == NULL && (it)->value.size == 0)
/* the i-th restart point, clamped to the entry area */
#define IT_RESTART_RAW(it, i) LE32_AT((it)->data + ((size_t)(it)->restarts + 4 * (size_t)(i)))
#define IT_RESTART(it, i) (IT_RESTART_RAW(it, i) > (it)->restarts ? (it)->restarts : IT_RESTART_RAW(it, i))

/* harness: an iterator over an ARBITRARY block (contents, entry-area size and
 * restart count symbolic; the heap object ends exactly at the end of the
 * trailer), key buffer of arbitrary size/capacity, any status */
#define MK_ITER(it) \
  ldb_blockiter_t it; \
  IN_U32(in_restarts); IN_U32(in_num); IN_U32(in_current); IN_U32(in_ridx); IN_INT(in_status); IN_INT(in_internal); \
  IN_SIZE(in_ksize); IN_SIZE(in_kalloc); IN_SIZE(in_voff); IN_SIZE(in_vsize); IN_INT(in_vnull); \
  uint8_t *blk; \
  ASSUME(in_num >= 1 && (uint64_t)in_restarts + 4 * (uint64_t)in_num + 4 <= 0xffffffffu); \
  blk = malloc((size_t)in_restarts + 4 * (size_t)in_num + 4); ASSUME(blk != NULL); \
  g_cmp.name = "stub"; g_cmp.compare = stub_compare; g_cmp.shortest_separator = NULL; g_cmp.short_successor = NULL; \
  g_cmp.user_comparator = in_internal ? &g_ucmp : NULL; g_cmp.state = NULL; \
  it.comparator = &g_cmp; it.data = blk; it.restarts = in_restarts; it.num_restarts = in_num; \
  it.current = in_current; it.restart_index = in_ridx; it.status = in_status; \
  ASSUME(in_ksize <= in_kalloc && in_kalloc <= ((size_t)1 << 47)); \
  it.key.data = in_kalloc ? g_keystore : NULL; it.key.size = in_ksize; it.key.alloc = in_kalloc; \
  ASSUME(in_voff <= (size_t)in_restarts); \
  it.value.data = in_vnull ? NULL : blk + in_voff; it.value.size = in_vsize; it.value.alloc = 0

/* ---- get_restart_point ---- */
uint32_t c_get_restart_point(const ldb_blockiter_t *iter, uint32_t index)
__CPROVER_requires(__CPROVER_r_ok(iter, sizeof(*iter)) && iter->num_restarts >= 1 && index < iter->num_restarts)
__CPROVER_requires((uint64_t)iter->restarts + 4 * (uint64_t)iter->num_restarts + 4 <= 0xffffffffu && __CPROVER_r_ok(iter->data, IT_BLOCK_BYTES(iter)))
__CPROVER_assigns()
/* the index-th little-endian word of the restart array, clamped to the end of the entry area */
__CPROVER_ensures(__CPROVER_return_value == IT_RESTART(iter, index))
__CPROVER_ensures(__CPROVER_return_value <= iter->restarts)
;

void h_get_restart_point(void) {
  MK_ITER(it); IN_U32(in_index);
  uint32_t r;
  ASSUME(in_index < in_num);
  r = get_restart_point(&it, in_index);
  CHECK(r <= in_restarts, "get_restart_point: never points past the entry area");
  CHECK(r == (LE32_AT(blk + ((size_t)in_restarts + 4 * (size_t)in_index)) > in_restarts ? in_restarts : LE32_AT(blk + ((size_t)in_restarts + 4 * (size_t)in_index))),
        "get_restart_point: the index-th word of the restart array, clamped");
  CANARY();
}

/* ---- seek_to_restart_point ---- */
void c_seek_to_restart_point(ldb_blockiter_t *iter, uint32_t index)
__CPROVER_requires(__CPROVER_rw_ok(iter, sizeof(*iter)) && IT_STATIC(iter) && index < iter->num_restarts)
__CPROVER_assigns(iter->key.size, iter->restart_index, iter->value.data, iter->value.size, iter->value.alloc)
__CPROVER_ensures(__CPROVER_pointer_in_range_dfcc(iter->data, iter->value.data, iter->data + iter->restarts))
__CPROVER_ensures(iter->key.size == 0 && iter->restart_index == index)
__CPROVER_ensures(iter->value.data == iter->data + IT_RESTART(iter, index) && iter->value.size == 0 && iter->value.alloc == 0)
;

void h_seek_to_restart_point(void) {
  MK_ITER(it); IN_U32(in_index);
  ASSUME(in_index < in_num);
  seek_to_restart_point(&it, in_index);
  CHECK(IT_STATIC(&it) && IT_POS(&it), "seek_to_restart_point: iterator is positioned inside the entry area for parse_next_key");
  CHECK(it.current == in_current && it.status == in_status, "seek_to_restart_point: current and status untouched");
  CANARY();
}

/* ---- ldb_blockiter_corruption ---- */
void c_blockiter_corruption(ldb_blockiter_t *iter)
__CPROVER_requires(__CPROVER_rw_ok(iter, sizeof(*iter)))
__CPROVER_assigns(iter->current, iter->restart_index, iter->status, iter->key.size, iter->value.data, iter->value.size, iter->value.alloc)
__CPROVER_ensures(IT_IS_CORRUPT(iter) && iter->value.alloc == 0)
;

void h_blockiter_corruption(void) {
  MK_ITER(it);
  ldb_blockiter_corruption(&it);
  CHECK(!ldb_blockiter_valid(&it) && ldb_blockiter_status(&it) == LDB_CORRUPTION, "corruption: iterator invalid with status LDB_CORRUPTION");
  CHECK(IT_RI(&it), "corruption: representation invariant holds");
  CANARY();
}

/* ---- parse_next_key ----
 * spec of one step, written against the table format: p = first byte of the
 * next entry, n = bytes left in the entry area (> 0), old_ksz = size of the
 * previous key; voff = new value offset relative to p */
static int spec_parse_next_ok(int ret, size_t old_ksz, size_t new_ksz, size_t voff, size_t vsz, const uint8_t *p, size_t n, int internal) {
  uint8_t h[20];
  size_t k1, k2, k3, len;
  uint32_t es, ens, evl;
  h[0] = SPEC_B(p, n, 0); h[1] = SPEC_B(p, n, 1); h[2] = SPEC_B(p, n, 2); h[3] = SPEC_B(p, n, 3); h[4] = SPEC_B(p, n, 4);
  h[5] = SPEC_B(p, n, 5); h[6] = SPEC_B(p, n, 6); h[7] = SPEC_B(p, n, 7); h[8] = SPEC_B(p, n, 8); h[9] = SPEC_B(p, n, 9);
  h[10] = SPEC_B(p, n, 10); h[11] = SPEC_B(p, n, 11); h[12] = SPEC_B(p, n, 12); h[13] = SPEC_B(p, n, 13); h[14] = SPEC_B(p, n, 14);
  h[15] = 0x80; h[16] = 0x80; h[17] = 0x80; h[18] = 0x80; h[19] = 0x80;
  k1 = SPEC_VLEN(h, 0);
  if (k1 == 0) return ret == 0;
  k2 = SPEC_VLEN(h, k1);
  if (k2 == 0) return ret == 0;
  k3 = SPEC_VLEN(h, k1 + k2);
  if (k3 == 0) return ret == 0;
  len = k1 + k2 + k3;
  es = SPEC_VVAL(h, 0, k1); ens = SPEC_VVAL(h, k1, k2); evl = SPEC_VVAL(h, k1 + k2, k3);
  if ((uint64_t)ens + (uint64_t)evl > (uint64_t)(n - len)) return ret == 0;  /* entry does not fit the block */
  if ((size_t)es > old_ksz) return ret == 0;                                 /* shares more than the previous key has */
  if (internal && (uint64_t)es + (uint64_t)ens < 8) return ret == 0;         /* an internal key has an 8-byte trailer */
  return ret == 1 && new_ksz == (size_t)es + (size_t)ens && voff == len + (size_t)ens && vsz == (size_t)evl;
}

int c_parse_next_key(ldb_blockiter_t *iter)
__CPROVER_requires(__CPROVER_rw_ok(iter, sizeof(*iter)) && IT_STATIC(iter) && IT_POS(iter) && iter->restart_index < iter->num_restarts)
__CPROVER_assigns(iter->current, iter->restart_index, iter->status, iter->key.data, iter->key.size, iter->key.alloc,
                  iter->value.data, iter->value.size, iter->value.alloc)
__CPROVER_ensures(__CPROVER_return_value == 0 || __CPROVER_pointer_in_range_dfcc(iter->data, iter->value.data, iter->data + iter->restarts))
__CPROVER_ensures(__CPROVER_return_value == 0 || __CPROVER_return_value == 1)
/* "returns 1 iff now valid", and the representation invariant */
__CPROVER_ensures((__CPROVER_return_value == 1) == (iter->current < iter->restarts))
__CPROVER_ensures(IT_RI(iter))
/* end of the entry area: invalid, nothing else changes */
__CPROVER_ensures(!(IT_OLD_NEXT_OFF(iter) >= (size_t)iter->restarts) ||
  (__CPROVER_return_value == 0 && iter->status == __CPROVER_old(iter->status) && iter->key.size == __CPROVER_old(iter->key.size) &&
   iter->value.data == __CPROVER_old(iter->value.data) && iter->value.size == __CPROVER_old(iter->value.size)))
/* otherwise the entry starting where the previous one ended is decoded per the format or rejected as corrupt */
__CPROVER_ensures(IT_OLD_NEXT_OFF(iter) >= (size_t)iter->restarts ||
  spec_parse_next_ok(__CPROVER_return_value, __CPROVER_old(iter->key.size), iter->key.size,
                     __CPROVER_return_value ? (IT_VOFF(iter) - IT_OLD_NEXT_OFF(iter)) : 0, iter->value.size,
                     iter->data + IT_OLD_NEXT_OFF(iter), (size_t)iter->restarts - IT_OLD_NEXT_OFF(iter),
                     iter->comparator->user_comparator != NULL))
__CPROVER_ensures(IT_OLD_NEXT_OFF(iter) >= (size_t)iter->restarts || __CPROVER_return_value == 1 || IT_IS_CORRUPT(iter))
__CPROVER_ensures(__CPROVER_return_value == 0 || (iter->current == IT_OLD_NEXT_OFF(iter) && iter->status == __CPROVER_old(iter->status) &&
  iter->restart_index >= __CPROVER_old(iter->restart_index)))
;

void h_parse_next_key(void) {
  MK_ITER(it);
  int r;
  ASSUME(!in_vnull && in_vsize <= in_restarts && in_voff <= (size_t)in_restarts - in_vsize);
  ASSUME(in_ridx < in_num);
  r = parse_next_key(&it);
  CHECK(r == ldb_blockiter_valid(&it), "parse_next_key: returns 1 iff the iterator is valid afterwards");
  CHECK(!r || (size_t)it.current == in_voff + in_vsize, "parse_next_key: the new entry starts where the previous one ended");
  CHECK(!r || IT_NEXT_OFF(&it) > (size_t)it.current, "parse_next_key: progress - the next entry offset strictly increases");
  CANARY();
}

/* ---- trivial observers ---- */
int c_blockiter_valid(const ldb_blockiter_t *iter)
__CPROVER_requires(__CPROVER_r_ok(iter, sizeof(*iter)))
__CPROVER_assigns()
__CPROVER_ensures(__CPROVER_return_value == (iter->current < iter->restarts ? 1 : 0))
;
void h_blockiter_valid(void) { MK_ITER(it); int r = ldb_blockiter_valid(&it); CHECK(r == (in_current < in_restarts), "valid: current lies inside the entry area"); CANARY(); }

int c_blockiter_status(const ldb_blockiter_t *iter)
__CPROVER_requires(__CPROVER_r_ok(iter, sizeof(*iter)))
__CPROVER_assigns()
__CPROVER_ensures(__CPROVER_return_value == iter->status)
;
void h_blockiter_status(void) { MK_ITER(it); int r = ldb_blockiter_status(&it); CHECK(r == in_status, "status: the latched status"); CANARY(); }

ldb_slice_t c_blockiter_key(const ldb_blockiter_t *iter)
__CPROVER_requires(__CPROVER_r_ok(iter, sizeof(*iter)))
__CPROVER_assigns()
__CPROVER_ensures(__CPROVER_return_value.data == iter->key.data && __CPROVER_return_value.size == iter->key.size)
;
void h_blockiter_key(void) { MK_ITER(it); ldb_slice_t r = ldb_blockiter_key(&it); CHECK(r.data == it.key.data && r.size == in_ksize, "key: the reconstructed key buffer"); CANARY(); }

ldb_slice_t c_blockiter_value(const ldb_blockiter_t *iter)
__CPROVER_requires(__CPROVER_r_ok(iter, sizeof(*iter)))
__CPROVER_assigns()
__CPROVER_ensures(__CPROVER_return_value.data == iter->value.data && __CPROVER_return_value.size == iter->value.size)
;
void h_blockiter_value(void) { MK_ITER(it); ldb_slice_t r = ldb_blockiter_value(&it); CHECK(r.data == it.value.data && r.size == in_vsize, "value: the value slice inside the block"); CANARY(); }

#define IT_ASSIGNS(iter) iter->current, iter->restart_index, iter->status, iter->key.data, iter->key.size, iter->key.alloc, \
                         iter->value.data, iter->value.size, iter->value.alloc
/* an iterator that ended up invalid either hit corruption (status latched, cleared) or kept its status */
#define IT_INVALID_OUTCOME(iter) (iter->current < iter->restarts || IT_IS_CORRUPT(iter) || iter->status == __CPROVER_old(iter->status))

/* ---- next: exactly one parse step from a valid position ---- */
void c_blockiter_next(ldb_blockiter_t *iter)
__CPROVER_requires(__CPROVER_rw_ok(iter, sizeof(*iter)) && IT_RI(iter) && iter->current < iter->restarts)
__CPROVER_assigns(IT_ASSIGNS(iter))
__CPROVER_ensures(iter->current >= iter->restarts || __CPROVER_pointer_in_range_dfcc(iter->data, iter->value.data, iter->data + iter->restarts))
__CPROVER_ensures(IT_RI(iter))
__CPROVER_ensures(IT_INVALID_OUTCOME(iter))
__CPROVER_ensures(!(iter->current < iter->restarts) || (iter->current == IT_OLD_NEXT_OFF(iter) && iter->status == __CPROVER_old(iter->status)))
__CPROVER_ensures(IT_OLD_NEXT_OFF(iter) >= (size_t)iter->restarts ||
  spec_parse_next_ok(iter->current < iter->restarts, __CPROVER_old(iter->key.size), iter->key.size,
                     iter->current < iter->restarts ? (IT_VOFF(iter) - IT_OLD_NEXT_OFF(iter)) : 0, iter->value.size,
                     iter->data + IT_OLD_NEXT_OFF(iter), (size_t)iter->restarts - IT_OLD_NEXT_OFF(iter),
                     iter->comparator->user_comparator != NULL))
;
void h_blockiter_next(void) {
  MK_ITER(it);
  ASSUME(IT_RI(&it) && in_current < in_restarts);
  ldb_blockiter_next(&it);
  CHECK(!ldb_blockiter_valid(&it) || it.current > in_current, "next: a valid result lies strictly after the previous entry");
  CANARY();
}

/* ---- first: restart point 0, then one parse step with an empty previous key ---- */
void c_blockiter_first(ldb_blockiter_t *iter)
__CPROVER_requires(__CPROVER_rw_ok(iter, sizeof(*iter)) && IT_STATIC(iter))
__CPROVER_assigns(IT_ASSIGNS(iter))
__CPROVER_ensures(iter->current >= iter->restarts || __CPROVER_pointer_in_range_dfcc(iter->data, iter->value.data, iter->data + iter->restarts))
__CPROVER_ensures(IT_RI(iter))
__CPROVER_ensures(IT_INVALID_OUTCOME(iter))
__CPROVER_ensures(!(iter->current < iter->restarts) || (iter->current == IT_RESTART(iter, 0) && iter->status == __CPROVER_old(iter->status)))
__CPROVER_ensures(IT_RESTART(iter, 0) >= iter->restarts ||
  spec_parse_next_ok(iter->current < iter->restarts, 0, iter->key.size,
                     iter->current < iter->restarts ? (IT_VOFF(iter) - (size_t)IT_RESTART(iter, 0)) : 0, iter->value.size,
                     iter->data + IT_RESTART(iter, 0), (size_t)iter->restarts - IT_RESTART(iter, 0),
                     iter->comparator->user_comparator != NULL))
;
void h_blockiter_first(void) {
  MK_ITER(it);
  ldb_blockiter_first(&it);
  CHECK(ldb_blockiter_valid(&it) || it.status == LDB_CORRUPTION || it.status == in_status, "first: invalid only at corruption or for an empty entry area");
  CANARY();
}

/* ---- last: restart point num_restarts-1, then parse to the end of the entry area ---- */
void c_blockiter_last(ldb_blockiter_t *iter)
__CPROVER_requires(__CPROVER_rw_ok(iter, sizeof(*iter)) && IT_STATIC(iter))
__CPROVER_assigns(IT_ASSIGNS(iter))
__CPROVER_ensures(iter->current >= iter->restarts || __CPROVER_pointer_in_range_dfcc(iter->data, iter->value.data, iter->data + iter->restarts))
__CPROVER_ensures(IT_RI(iter))
__CPROVER_ensures(IT_INVALID_OUTCOME(iter))
/* a valid result is an entry that ends exactly at the end of the entry area, at or after the last restart point */
__CPROVER_ensures(!(iter->current < iter->restarts) || (IT_NEXT_OFF(iter) == (size_t)iter->restarts && iter->current >= IT_RESTART(iter, iter->num_restarts - 1) &&
                  iter->status == __CPROVER_old(iter->status)))
/* invalid without corruption only if the last restart point is the end of the entry area */
__CPROVER_ensures(iter->current < iter->restarts || IT_IS_CORRUPT(iter) || IT_RESTART(iter, iter->num_restarts - 1) == iter->restarts)
;
void h_blockiter_last(void) {
  MK_ITER(it);
  ldb_blockiter_last(&it);
  CHECK(!ldb_blockiter_valid(&it) || IT_NEXT_OFF(&it) == (size_t)in_restarts, "last: the entry returned ends where the restart array begins");
  CANARY();
}

/* ---- prev ---- */
void c_blockiter_prev(ldb_blockiter_t *iter)
__CPROVER_requires(__CPROVER_rw_ok(iter, sizeof(*iter)) && IT_RI(iter) && iter->current < iter->restarts)
__CPROVER_assigns(IT_ASSIGNS(iter))
__CPROVER_ensures(iter->current >= iter->restarts || __CPROVER_pointer_in_range_dfcc(iter->data, iter->value.data, iter->data + iter->restarts))
__CPROVER_ensures(IT_RI(iter))
__CPROVER_ensures(IT_INVALID_OUTCOME(iter))
/* a valid result lies strictly before the entry we came from and leaves the status alone */
__CPROVER_ensures(!(iter->current < iter->restarts) || (iter->current < __CPROVER_old(iter->current) && iter->status == __CPROVER_old(iter->status)))
/* no restart point before the entry we came from: invalid ("before the first entry"), nothing latched */
__CPROVER_ensures(iter->current < iter->restarts || IT_IS_CORRUPT(iter) || iter->status == __CPROVER_old(iter->status))
;
void h_blockiter_prev(void) {
  MK_ITER(it);
  ASSUME(IT_RI(&it) && in_current < in_restarts);
  ldb_blockiter_prev(&it);
  CHECK(ldb_blockiter_valid(&it) || it.status == LDB_CORRUPTION || it.status == in_status, "prev: invalid only at corruption or before the first entry");
  CHECK(!ldb_blockiter_valid(&it) || it.current < in_current, "prev: a valid result lies strictly before the entry we came from");
  CANARY();
}

/* ============================================================== blk.create
 * ldb_blockiter_create / ldb_blockiter_init.  Environment: ldb_malloc never
 * returns NULL (util/internal.c aborts instead); ldb_emptyiter_create and
 * ldb_iter_create (table/iterator.c) are stubs that record their arguments. */
void *ldb_malloc(size_t size) { void *p = malloc(size); __CPROVER_assume(p != NULL); return p; }
ldb_iter_t g_iter_empty, g_iter_block;
int g_empty_calls, g_empty_status, g_ic_calls;
void *g_ic_ptr; const ldb_itertbl_t *g_ic_table; const ldb_comparator_t *g_ic_cmp;
ldb_iter_t *ldb_emptyiter_create(int status) { g_empty_calls++; g_empty_status = status; return &g_iter_empty; }
ldb_iter_t *ldb_iter_create(void *ptr, const ldb_itertbl_t *table, const ldb_comparator_t *cmp) {
  g_ic_calls++; g_ic_ptr = ptr; g_ic_table = table; g_ic_cmp = cmp; return &g_iter_block;
}
#define CREATED_IT ((ldb_blockiter_t *)g_ic_ptr)

ldb_iter_t *c_blockiter_create(const ldb_block_t *block, const ldb_comparator_t *comparator)
__CPROVER_requires(__CPROVER_r_ok(block, sizeof(*block)) && block->size <= 0xffffffffu && (block->size < 4 || BLK_RI(block)))
__CPROVER_requires(block->size == 0 || __CPROVER_r_ok(block->data, block->size))
__CPROVER_requires(g_empty_calls == 0 && g_ic_calls == 0)
__CPROVER_assigns(g_empty_calls, g_empty_status, g_ic_calls, g_ic_ptr, g_ic_table, g_ic_cmp)
/* error marker (or any block too short for a trailer): an empty iterator that reports corruption */
__CPROVER_ensures(!(block->size < 4) || (__CPROVER_return_value == &g_iter_empty && g_empty_calls == 1 && g_empty_status == LDB_CORRUPTION && g_ic_calls == 0))
/* zero restart points: an empty iterator with OK status */
__CPROVER_ensures(!(block->size >= 4 && BLK_NRESTARTS(block->data, block->size) == 0) ||
                  (__CPROVER_return_value == &g_iter_empty && g_empty_calls == 1 && g_empty_status == LDB_OK && g_ic_calls == 0))
/* otherwise a block iterator over exactly this block, not yet positioned, satisfying the iterator invariant */
__CPROVER_ensures(!(block->size >= 4 && BLK_NRESTARTS(block->data, block->size) != 0) ||
                  (__CPROVER_return_value == &g_iter_block && g_empty_calls == 0 && g_ic_calls == 1 && g_ic_table == &ldb_blockiter_table && g_ic_cmp == comparator &&
                   CREATED_IT->comparator == comparator && CREATED_IT->data == block->data && CREATED_IT->restarts == block->restart_offset &&
                   CREATED_IT->num_restarts == BLK_NRESTARTS(block->data, block->size) &&
                   (uint64_t)CREATED_IT->restarts + 4 * (uint64_t)CREATED_IT->num_restarts + 4 == (uint64_t)block->size &&
                   CREATED_IT->current == CREATED_IT->restarts && CREATED_IT->restart_index == CREATED_IT->num_restarts &&
                   CREATED_IT->key.data == NULL && CREATED_IT->key.size == 0 && CREATED_IT->key.alloc == 0 &&
                   CREATED_IT->value.data == NULL && CREATED_IT->value.size == 0 && CREATED_IT->status == LDB_OK))
;

void h_blockiter_create(void) {
  ldb_block_t b; ldb_iter_t *r;
  IN_SIZE(in_n); IN_SIZE(in_size); IN_U32(in_ro); IN_INT(in_owned);
  IN_BUF(buf, in_n);
  ASSUME(in_n <= 0xffffffffu && (in_size == in_n || in_size == 0));   /* size = 0 is the error marker of ldb_block_init */
  b.data = buf; b.size = in_size; b.restart_offset = in_ro; b.owned = in_owned;
  ASSUME(in_size < 4 || BLK_RI(&b));   /* blocks shorter than a trailer need not come from ldb_block_init */
  g_empty_calls = 0; g_ic_calls = 0; g_ic_ptr = NULL; g_ic_table = NULL; g_ic_cmp = NULL; g_empty_status = -1;
  r = ldb_blockiter_create(&b, &g_cmp);
  CHECK(r == &g_iter_empty || r == &g_iter_block, "blockiter_create: returns the empty iterator or a block iterator");
  CHECK(r != &g_iter_block || !ldb_blockiter_valid(CREATED_IT), "blockiter_create: a fresh block iterator is not positioned");
  CANARY();
}

/* ---- seek ---- */
void c_blockiter_seek(ldb_blockiter_t *iter, const ldb_slice_t *target)
__CPROVER_requires(__CPROVER_rw_ok(iter, sizeof(*iter)) && IT_RI(iter) && __CPROVER_r_ok(target, sizeof(*target)) && SLICE_READABLE(target))
__CPROVER_requires(g_cmp_calls == 0)
__CPROVER_assigns(IT_ASSIGNS(iter), g_cmp_calls, g_last_cmp, g_last_x, g_last_y)
__CPROVER_ensures(iter->current >= iter->restarts || __CPROVER_pointer_in_range_dfcc(iter->data, iter->value.data, iter->data + iter->restarts))
__CPROVER_ensures(IT_RI(iter))
__CPROVER_ensures(IT_INVALID_OUTCOME(iter))
/* an internal-key iterator rejects a target without the 8-byte trailer */
__CPROVER_ensures(!(iter->comparator->user_comparator != NULL && target->size < 8) || IT_IS_CORRUPT(iter))
/* a valid result: the last thing seek did was to compare the current key with the target, and it was >= target */
__CPROVER_ensures(!(iter->current < iter->restarts) || (g_cmp_calls == 1 && g_last_x == &iter->key && g_last_y == target && g_last_cmp >= 0 &&
                  iter->status == __CPROVER_old(iter->status)))
;
void h_blockiter_seek(void) {
  MK_ITER(it);
  ldb_slice_t t; IN_SIZE(in_tn); IN_BUF(tbuf, in_tn);
  ASSUME(IT_RI(&it));
  t.data = tbuf; t.size = in_tn; t.alloc = 0;
  g_cmp_calls = 0; g_last_cmp = 0; g_last_x = NULL; g_last_y = NULL;
  ldb_blockiter_seek(&it, &t);
  CHECK(ldb_blockiter_valid(&it) || it.status == LDB_CORRUPTION || it.status == in_status, "seek: invalid only at corruption or past the last entry");
  CANARY();
}
