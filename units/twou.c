/* units/twou.c - UNBOUNDED proof units for src/table/two_level_iterator.c (C07, C11, C16)
 *
 * The real two_level_iterator.c (and iterator_wrapper.h) is included unmodified.  The two loops
 * ldb_twoiter_skip_forward / ldb_twoiter_skip_backward are closed by loop contracts (loops/twou.json:
 * invariant + decreases); every unit runs ONE operation from an ARBITRARY state satisfying the
 * representation invariant (one-step induction).
 *
 * World (nothing is capped for tractability):
 *   index iterator   a ghost cursor IDX.pos over g_n entries, g_n symbolic (0 .. 2^31); entry i names data block i:
 *                    key = rank i, value (block handle) = the opaque slice {size = i} (handles pairwise distinct,
 *                    as file offsets are)
 *   data block b     g_blen[b] entries (ANY size_t, may be 0) and iterator status g_bstat[b] (ANY int); both live in
 *                    heap arrays of symbolic size with arbitrary content = an arbitrary function block -> (len, status).
 *                    A block that could not be read (ldb_table_blockreader -> ldb_emptyiter_create(rc)) is the special
 *                    case len == 0 && status != OK.
 *   data iterators   block_function hands out one of TWO ghost iterator objects IT_D0, IT_D1 (the two-level iterator
 *                    holds one and creates the next before it destroys the old one; the stub asserts a free slot
 *                    exists), ghost state DG0 / DG1 = (alive, block, position); position == len means not valid.
 *   keys             opaque to two_level_iterator.c (copied, never compared): entry p of block b is the slice
 *                    {size = p, alloc = b}.
 * "For all blocks j" = the arbitrary ghost index g_j (no quantifiers in the SAT back end).
 */
#include "verif.h"
#include "util/buffer.h"
#include "util/comparator.h"
#include "util/internal.h"
#include "util/options.h"
#include "util/slice.h"
#include "util/status.h"
#include "util/types.h"
#include "table/iterator.h"

int nondet_int(void);
size_t nondet_size(void);

/* ------------------------------------------------------------------ world */
size_t g_n;                      /* number of index entries = number of data blocks            */
size_t *g_blen;                  /* g_blen[b] = entries of data block b   (g_n + 1 slots)       */
int *g_bstat;                    /* g_bstat[b] = status of block b's iterator                   */
size_t g_j;                      /* the arbitrary tracked block                                 */

struct gidx { size_t pos; int status; } IDX;              /* pos == g_n: not valid              */
struct gslot { int alive; size_t blk; size_t pos; size_t len; int stat; } DG0, DG1;   /* len / stat: g_blen[blk] / g_bstat[blk], read once at creation */
ldb_iter_t IT_IDX, IT_D0, IT_D1;

/* constants of one operation (set by the harness before the call, never written afterwards) */
struct gconst {
  size_t lo, e0;                 /* where the skip loop starts: index position, position of the data iterator there */
  int st0;                       /* iter->status before the operation                                                */
  size_t cached0;                /* block whose iterator was cached before the operation (g_n + 1: none)             */
  size_t iseek, dseek;           /* seek oracle: first index entry >= target; first entry >= target of THAT block    */
  const ldb_slice_t *target;
  int arg_tag; ldb_readopt_t ropt0;
} K;
/* ghost state written by the stubs */
struct ghost {
  int bad; int badval; size_t badblk;   /* first non-OK status among the data iterators destroyed so far (latched) */
  int jd;                               /* the iterator of block g_j has been destroyed                              */
  int fn_bad, bad_destroy, idx_destroys, seek_bad, needless;
} G;

static struct gslot *slot_of(const void *p) {
  __CPROVER_assert(p == (const void *)&DG0 || p == (const void *)&DG1, "child op: receiver is one of the children");
  return p == (const void *)&DG1 ? &DG1 : &DG0;
}
#define SLOT_OK(d) __CPROVER_assert((d)->alive && (d)->blk < g_n, "child op: on a live data iterator")

/* Points-to repair (proof scaffolding, an identity): after the havoc of a loop contract the invariant pins
   iter->data_iter.iter to NULL / &IT_D0 / &IT_D1 by equalities only, and symex has no target for a pointer known
   by equality alone (AUTHORING.md: "assign it explicitly").  The index cursor's next/prev is the first child call
   of every loop iteration: it ASSERTS that the pointer is one of the three values and writes the same value back. */
struct ldb_twoiter_s;
static void rematerialise(void);
static void cur_clear(void *p) { (void)p; }
static int cur_valid(const void *p) {
  struct gslot *d;
  if (p == (const void *)&IDX) return IDX.pos < g_n;
  d = slot_of(p); SLOT_OK(d); return d->pos < d->len;
}
static void cur_first(void *p) {
  struct gslot *d;
  if (p == (void *)&IDX) { IDX.pos = 0; return; }
  d = slot_of(p); SLOT_OK(d); d->pos = 0;
}
static void cur_last(void *p) {
  struct gslot *d;
  if (p == (void *)&IDX) { IDX.pos = g_n > 0 ? g_n - 1 : g_n; return; }
  d = slot_of(p); SLOT_OK(d); d->pos = d->len > 0 ? d->len - 1 : d->len;
}
/* seek oracle: the children are sorted sequences; where a child's seek(target) lands is the child's own contract
   (blk.iter.seek).  The index lands on K.iseek (arbitrary in 0..g_n), block K.iseek's iterator on K.dseek (arbitrary in
   0..len), any other block anywhere. */
static void cur_seek(void *p, const ldb_slice_t *t) {
  struct gslot *d;
  if (t != K.target) G.seek_bad = 1;
  if (p == (void *)&IDX) { IDX.pos = K.iseek; return; }
  d = slot_of(p); SLOT_OK(d);
  if (d->blk == K.iseek) d->pos = K.dseek;
  else { size_t r = nondet_size(); __CPROVER_assume(r <= d->len); d->pos = r; }
}
static void cur_next(void *p) {
  struct gslot *d;
  if (p == (void *)&IDX) { __CPROVER_assert(IDX.pos < g_n, "index next: REQUIRES valid()"); IDX.pos++; rematerialise(); return; }
  d = slot_of(p); SLOT_OK(d);
  __CPROVER_assert(d->pos < d->len, "child next: REQUIRES valid()");
  d->pos++;
}
static void cur_prev(void *p) {
  struct gslot *d;
  if (p == (void *)&IDX) { __CPROVER_assert(IDX.pos < g_n, "index prev: REQUIRES valid()"); IDX.pos = IDX.pos > 0 ? IDX.pos - 1 : g_n; rematerialise(); return; }
  d = slot_of(p); SLOT_OK(d);
  __CPROVER_assert(d->pos < d->len, "child prev: REQUIRES valid()");
  d->pos = d->pos > 0 ? d->pos - 1 : d->len;
}
static ldb_slice_t cur_key(const void *p) {
  ldb_slice_t s = {NULL, 0, 0}; struct gslot *d;
  if (p == (const void *)&IDX) { __CPROVER_assert(IDX.pos < g_n, "index key: REQUIRES valid()"); s.size = IDX.pos; return s; }
  d = slot_of(p); SLOT_OK(d);
  __CPROVER_assert(d->pos < d->len, "child key: REQUIRES valid()");
  s.size = d->pos; s.alloc = d->blk;
  return s;
}
static ldb_slice_t cur_value(const void *p) {
  ldb_slice_t s = {NULL, 0, 0}; struct gslot *d;
  if (p == (const void *)&IDX) { __CPROVER_assert(IDX.pos < g_n, "index value: REQUIRES valid()"); s.size = IDX.pos; return s; }
  d = slot_of(p); SLOT_OK(d);
  __CPROVER_assert(d->pos < d->len, "child value: REQUIRES valid()");
  s.size = d->pos; s.alloc = d->blk;
  return s;
}
static int cur_status(const void *p) {
  struct gslot *d;
  if (p == (const void *)&IDX) return IDX.status;
  d = slot_of(p); SLOT_OK(d); return d->stat;
}
static const ldb_itertbl_t cur_table = {
  cur_clear, cur_valid, cur_first, cur_last, cur_seek, cur_next, cur_prev, cur_key, cur_value, cur_status
};

/* block_function: index value -> iterator over that data block (ldb_table_blockreader in the real table) */
static ldb_iter_t *stub_blockfn(void *arg, const ldb_readopt_t *options, const ldb_slice_t *index_value) {
  size_t b = index_value->size; struct gslot *d;
  if (arg != (void *)&K.arg_tag || options->verify_checksums != K.ropt0.verify_checksums || options->fill_cache != K.ropt0.fill_cache ||
      options->snapshot != K.ropt0.snapshot || !(IDX.pos < g_n) || b != IDX.pos)
    G.fn_bad = 1;
  __CPROVER_assert(b < g_n, "block_function: called with the value of a live index entry");
  __CPROVER_assume(b < g_n);
  if ((DG0.alive && DG0.blk == b) || (DG1.alive && DG1.blk == b)) G.needless = 1;
  d = DG0.alive ? &DG1 : &DG0;
  __CPROVER_assert(!d->alive, "block_function: at most two data iterators exist at any time (no leak)");
  d->alive = 1; d->blk = b; d->len = g_blen[b]; d->stat = g_bstat[b];
  d->pos = d->len;                                          /* a fresh iterator is not positioned */
  return d == &DG1 ? &IT_D1 : &IT_D0;
}
void ldb_iter_destroy(ldb_iter_t *iter) {
  struct gslot *d;
  if (iter == &IT_IDX) { G.idx_destroys = 1; return; }
  if (iter != &IT_D0 && iter != &IT_D1) { G.bad_destroy = 1; return; }
  d = iter == &IT_D1 ? &DG1 : &DG0;
  if (!d->alive || !(d->blk < g_n)) { G.bad_destroy = 1; return; }
  d->alive = 0;
  if (d->blk == g_j) G.jd = 1;
  if (d->stat != 0 && !G.bad) { G.bad = 1; G.badval = d->stat; G.badblk = d->blk; }
}
ldb_iter_t *ldb_iter_create(void *ptr, const ldb_itertbl_t *table, const ldb_comparator_t *cmp) { (void)ptr; (void)table; (void)cmp; return NULL; }

/* rank models of util/slice.c and util/buffer.c: a handle is the opaque slice {size = block number} */
int ldb_slice_equal(const ldb_slice_t *x, const ldb_slice_t *y) { return x->size == y->size; }
void ldb_buffer_copy(ldb_buffer_t *z, const ldb_buffer_t *x) { z->size = x->size; }
void ldb_buffer_init(ldb_buffer_t *z) { z->data = NULL; z->size = 0; z->alloc = 0; }
void ldb_buffer_clear(ldb_buffer_t *z) { (void)z; }
void *ldb_malloc(size_t n) { void *p = malloc(n); __CPROVER_assume(p != NULL); return p; }

#include "table/two_level_iterator.c"

ldb_twoiter_t g_it;
static void rematerialise(void) {
  ldb_iter_t *p = g_it.data_iter.iter;
  __CPROVER_assert(p == NULL || p == &IT_D0 || p == &IT_D1, "scaffolding: the data iterator is NULL or one of the two ghost iterators");
  g_it.data_iter.iter = p == &IT_D0 ? &IT_D0 : p == &IT_D1 ? &IT_D1 : NULL;
}

/* ------------------------------------------------- representation invariant */
#define CURD (g_it.data_iter.iter == &IT_D0 ? &DG0 : g_it.data_iter.iter == &IT_D1 ? &DG1 : (struct gslot *)NULL)
static int two_ri(int settled) {
  struct gslot *d = CURD;
  if (g_it.block_function != stub_blockfn || g_it.arg != (void *)&K.arg_tag) return 0;
  if (g_it.options.verify_checksums != K.ropt0.verify_checksums || g_it.options.fill_cache != K.ropt0.fill_cache || g_it.options.snapshot != K.ropt0.snapshot) return 0;
  if (g_it.index_iter.iter != &IT_IDX || IDX.pos > g_n || (g_it.index_iter.valid != 0) != (IDX.pos < g_n)) return 0;
  if (IDX.pos < g_n && g_it.index_iter.key.size != IDX.pos) return 0;
  if (d == NULL && g_it.data_iter.iter != NULL) return 0;
  if (DG0.alive != (d == &DG0) || DG1.alive != (d == &DG1)) return 0;               /* exactly the current data iterator is alive */
  if (d != NULL) {
    if (!(d->blk < g_n) || d->len != g_blen[d->blk] || d->stat != g_bstat[d->blk] || d->pos > d->len) return 0;
    if ((g_it.data_iter.valid != 0) != (d->pos < d->len)) return 0;
    if (d->pos < d->len && (g_it.data_iter.key.size != d->pos || g_it.data_iter.key.alloc != d->blk)) return 0;
    if (g_it.data_block_handle.size != d->blk) return 0;                             /* cached handle names the current block */
  }
  if (settled) {
    /* after any positioning operation: valid on (block = index position), or exhausted with no data iterator */
    if (d != NULL) { if (IDX.pos != d->blk || !(d->pos < d->len)) return 0; }
    else if (IDX.pos < g_n) return 0;
  }
  return 1;
}

/* --------------------------------------------------------------- harness */
static void mk_iter(ldb_iter_t *it, void *ptr) { it->ptr = ptr; it->table = &cur_table; it->cmp = NULL; it->cleanup_head.func = NULL; it->cleanup_head.next = NULL; }
static void setup(int settled) {
  IN_SIZE(in_n); IN_SIZE(in_j); IN_SIZE(in_ipos); IN_INT(in_cur); IN_SIZE(in_blk); IN_SIZE(in_pos); IN_INT(in_st0);
  ASSUME(in_n <= ((size_t)1 << 31));
  ASSUME(in_j <= in_n && in_ipos <= in_n);
  g_n = in_n; g_j = in_j;
  g_blen = malloc((in_n + 1) * sizeof(size_t)); g_bstat = malloc((in_n + 1) * sizeof(int));
  ASSUME(g_blen != NULL && g_bstat != NULL);
  IDX.pos = in_ipos; IDX.status = nondet_int();
  mk_iter(&IT_IDX, &IDX); mk_iter(&IT_D0, &DG0); mk_iter(&IT_D1, &DG1);
  DG0.alive = 0; DG0.blk = 0; DG0.pos = 0; DG0.len = 0; DG0.stat = 0; DG1 = DG0;
  G.bad = 0; G.badval = 0; G.badblk = 0; G.jd = 0; G.fn_bad = 0; G.bad_destroy = 0; G.idx_destroys = 0; G.seek_bad = 0; G.needless = 0;
  K.ropt0.verify_checksums = nondet_int(); K.ropt0.fill_cache = nondet_int(); K.ropt0.snapshot = NULL;
  K.st0 = in_st0; K.lo = 0; K.e0 = 0; K.iseek = 0; K.dseek = 0; K.target = NULL; K.cached0 = in_n + 1;
  g_it.block_function = stub_blockfn; g_it.arg = &K.arg_tag; g_it.options = K.ropt0; g_it.status = in_st0;
  g_it.index_iter.iter = &IT_IDX; g_it.index_iter.valid = in_ipos < in_n;
  g_it.index_iter.key.data = NULL; g_it.index_iter.key.size = in_ipos; g_it.index_iter.key.alloc = 0;
  g_it.data_block_handle.data = NULL; g_it.data_block_handle.size = nondet_size(); g_it.data_block_handle.alloc = 0;
  g_it.data_iter.iter = NULL; g_it.data_iter.valid = 0; g_it.data_iter.key.data = NULL; g_it.data_iter.key.size = 0; g_it.data_iter.key.alloc = 0;
  if (in_cur) {
    struct gslot *d = in_cur > 0 ? &DG1 : &DG0;
    ASSUME(in_blk < in_n);
    d->alive = 1; d->blk = in_blk; d->len = g_blen[in_blk]; d->stat = g_bstat[in_blk]; d->pos = in_pos;
    ASSUME(in_pos <= d->len);
    g_it.data_iter.iter = in_cur > 0 ? &IT_D1 : &IT_D0; g_it.data_iter.valid = in_pos < d->len;
    g_it.data_iter.key.size = in_pos; g_it.data_iter.key.alloc = in_blk;
    g_it.data_block_handle.size = in_blk;
    K.cached0 = in_blk;
  }
  ASSUME(two_ri(settled));
}

/* Where the operation must land, from the property: the entry (K.lo, K.e0) if block K.lo has such an entry, else the
   FIRST entry of the first non-empty block after K.lo (forward) resp. the LAST entry of the last non-empty block before
   K.lo (backward); not valid iff there is none, and then the index iterator is exhausted. */
static void check_after(int fwd) {
  struct gslot *d = CURD; size_t j = g_j;
  CHECK(two_ri(1), "two-level: representation invariant holds again (exactly the current data iterator alive = every replaced one destroyed once, cached handle = its index value, wrappers coherent, index on the current block or exhausted)");
  CHECK(!G.fn_bad && !G.bad_destroy && !G.idx_destroys && !G.seek_bad, "two-level: block_function gets (arg, the iterator's read options, the current index value); only live data iterators are destroyed, the index iterator is not; children are sought with the caller's target");
  CHECK(!G.needless, "two-level: block_function is not asked for the block whose iterator is cached");
  CHECK((ldb_twoiter_valid(&g_it) != 0) == (d != NULL), "two-level: valid iff positioned on a data entry");
  if (d != NULL) {
    size_t X = d->blk, q = d->pos;
    CHECK(K.lo < g_n && (X == K.lo ? (q == K.e0 && K.e0 < g_blen[K.lo]) : K.e0 >= g_blen[K.lo]),
          "two-level: stays in the block it was sent to exactly when that block has an entry there");
    if (fwd) {
      CHECK(X >= K.lo && (X == K.lo || q == 0), "two-level forward: otherwise lands on the FIRST entry of a later block");
      CHECK(!(K.lo < j && j < X) || g_blen[j] == 0, "two-level forward: every block skipped is empty (no live key omitted)");
    } else {
      CHECK(X <= K.lo && (X == K.lo || q + 1 == g_blen[X]), "two-level backward: otherwise lands on the LAST entry of an earlier block");
      CHECK(!(X < j && j < K.lo) || g_blen[j] == 0, "two-level backward: every block skipped is empty (no live key omitted)");
    }
    { ldb_slice_t kk = ldb_twoiter_key(&g_it), vv = ldb_twoiter_value(&g_it);
      CHECK(kk.size == q && kk.alloc == X && vv.size == q && vv.alloc == X, "two-level: key / value are those of the data entry it stands on"); }
    CHECK(!(j < g_n && (fwd ? (K.lo <= j && j < X) : (X < j && j <= K.lo))) || G.jd, "two-level: the iterator of every block left behind was destroyed");
  } else {
    CHECK(IDX.pos == g_n, "two-level: not valid only once the index iterator is exhausted");
    CHECK(K.lo >= g_n || K.e0 >= g_blen[K.lo], "two-level: not valid only if the block it was sent to has no entry there");
    if (fwd) CHECK(!(K.lo < j && j < g_n) || g_blen[j] == 0, "two-level forward: not valid only if every later block is empty");
    else     CHECK(!(j < K.lo && j < g_n) || g_blen[j] == 0, "two-level backward: not valid only if every earlier block is empty");
  }
  /* error latching */
  CHECK(g_it.status == (K.st0 != LDB_OK ? K.st0 : G.bad ? G.badval : LDB_OK),
        "two-level: the first non-OK status of a discarded data iterator is latched (an earlier latched error is kept)");
  {
    int left = j < g_n && K.lo < g_n && (fwd ? (K.lo <= j && (d == NULL || j < d->blk)) : (j <= K.lo && (d == NULL || j > d->blk)));
    CHECK(!(left && g_bstat[j] != LDB_OK) || g_it.status != LDB_OK, "two-level: the error of a failed block that was skipped is not lost");
    CHECK(!(left && g_bstat[j] != LDB_OK && K.st0 == LDB_OK) ||
          (G.bad && G.badblk < g_n && g_it.status == g_bstat[G.badblk] && ((fwd ? G.badblk <= j : G.badblk >= j) || G.badblk == K.cached0)),
          "two-level: the latched error is the one of the FIRST failed block in the direction of travel (or of the cached iterator dropped before)");
    CHECK(ldb_twoiter_status(&g_it) == (IDX.status != LDB_OK ? IDX.status : (d != NULL && g_bstat[d->blk] != LDB_OK) ? g_bstat[d->blk] : g_it.status),
          "two-level status: the index iterator's error, else the current data iterator's, else the latched one");
  }
}

void h_next_u(void) {
  struct gslot *d;
  setup(1); d = CURD;
  ASSUME(d != NULL);                                  /* REQUIRES valid() */
  K.lo = d->blk; K.e0 = d->pos + 1;                   /* the entry after the current one */
  ldb_twoiter_next(&g_it);
  check_after(1);
  CANARY();
}
void h_prev_u(void) {
  struct gslot *d;
  setup(1); d = CURD;
  ASSUME(d != NULL);                                  /* REQUIRES valid() */
  K.lo = d->blk;
  K.e0 = d->pos > 0 ? d->pos - 1 : d->len;            /* the entry before the current one; none: position "len" */
  ldb_twoiter_prev(&g_it);
  check_after(0);
  CANARY();
}
void h_first_u(void) {
  setup(0);
  K.lo = 0; K.e0 = 0;                                 /* first entry of the first block */
  ldb_twoiter_first(&g_it);
  check_after(1);
  CANARY();
}
void h_last_u(void) {
  setup(0);
  K.lo = g_n > 0 ? g_n - 1 : g_n;                     /* last entry of the last block */
  K.e0 = g_n > 0 ? (g_blen[g_n - 1] > 0 ? g_blen[g_n - 1] - 1 : 0) : 0;
  ldb_twoiter_last(&g_it);
  check_after(0);
  CANARY();
}
void h_seek_u(void) {
  ldb_slice_t t; IN_SIZE(in_iseek); IN_SIZE(in_dseek);
  setup(0);
  /* the index entry of block b is a separator >= every key of block b and < every key of block b+1: the first entry
     >= target of the whole table is the first entry >= target of block in_iseek (first index entry >= target), or, if
     that block has none, the first entry of the next non-empty block */
  ASSUME(in_iseek <= g_n && (in_iseek >= g_n || in_dseek <= g_blen[in_iseek]));
  t.data = NULL; t.size = nondet_size(); t.alloc = 0;
  K.iseek = in_iseek; K.dseek = in_dseek; K.target = &t;
  K.lo = in_iseek; K.e0 = in_dseek;
  ldb_twoiter_seek(&g_it, &t);
  check_after(1);
  CANARY();
}
/* status from ANY state: index error first, then the current data iterator's, then the latched one */
void h_status_u(void) {
  struct gslot *d; int r, e;
  setup(0); d = CURD;
  e = IDX.status != LDB_OK ? IDX.status : (d != NULL && g_bstat[d->blk] != LDB_OK) ? g_bstat[d->blk] : g_it.status;
  r = ldb_twoiter_status(&g_it);
  CHECK(r == e, "two-level status: the index iterator's error, else the current data iterator's, else the error latched from discarded data iterators, else OK");
  CHECK(r != LDB_OK || (IDX.status == LDB_OK && g_it.status == LDB_OK && (d == NULL || g_bstat[d->blk] == LDB_OK)), "two-level status: OK only if no error is pending anywhere");
  CANARY();
}
