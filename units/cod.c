/* units/cod.c - proof units for src/util/coding.h (C17, C18; used by every codec)
 * The real header is included unmodified. */
#include "verif.h"
#include "util/coding.h"
#include "contracts/coding.h"

/* ---- fixed ---- */
void h_fixed32_encode(void) { IN_U32(in_x); uint8_t b[4]; ldb_fixed32_encode(b, in_x); CHECK(IS_LE32(b, in_x), "fixed32_encode: little-endian layout"); CANARY(); }
void h_fixed64_encode(void) { IN_U64(in_x); uint8_t b[8]; ldb_fixed64_encode(b, in_x); CHECK(IS_LE64(b, in_x), "fixed64_encode: little-endian layout"); CANARY(); }
void h_fixed32_write(void) { IN_U32(in_x); uint8_t b[4]; uint8_t *r = ldb_fixed32_write(b, in_x); CHECK(r == b + 4 && IS_LE32(b, in_x), "fixed32_write: 4 bytes little-endian"); CANARY(); }
void h_fixed64_write(void) { IN_U64(in_x); uint8_t b[8]; uint8_t *r = ldb_fixed64_write(b, in_x); CHECK(r == b + 8 && IS_LE64(b, in_x), "fixed64_write: 8 bytes little-endian"); CANARY(); }
void h_fixed32_decode(void) { IN_BYTES(in_b, 4); uint32_t r = ldb_fixed32_decode(in_b); CHECK(r == LE32_AT(in_b), "fixed32_decode: little-endian value"); CANARY(); }
void h_fixed64_decode(void) { IN_BYTES(in_b, 8); uint64_t r = ldb_fixed64_decode(in_b); CHECK(r == LE64_AT(in_b), "fixed64_decode: little-endian value"); CANARY(); }

void h_fixed32_read(void) {
  IN_SIZE(in_n); IN_BUF(buf, in_n); SNAP_BUF(buf, in_n);
  uint32_t z = 0; const uint8_t *p = buf; size_t n = in_n;
  int r = ldb_fixed32_read(&z, &p, &n);
  CHECK(r == (in_n >= 4), "fixed32_read: succeeds iff 4 bytes available");
  CHECK(r ? (n == in_n - 4 && p == buf + 4 && z == LE32_AT(buf)) : (n == in_n && p == buf), "fixed32_read: consumes 4 or leaves cursor untouched");
  CANARY();
}
void h_fixed64_read(void) {
  IN_SIZE(in_n); IN_BUF(buf, in_n); SNAP_BUF(buf, in_n);
  uint64_t z = 0; const uint8_t *p = buf; size_t n = in_n;
  int r = ldb_fixed64_read(&z, &p, &n);
  CHECK(r == (in_n >= 8), "fixed64_read: succeeds iff 8 bytes available");
  CHECK(r ? (n == in_n - 8 && p == buf + 8 && z == LE64_AT(buf)) : (n == in_n && p == buf), "fixed64_read: consumes 8 or leaves cursor untouched");
  CANARY();
}

/* ---- varint ---- */
void h_v32_size(void) { IN_U32(in_x); size_t r = ldb_varint32_size(in_x); CHECK(r == V32_SIZE(in_x), "varint32_size: LEB128 length"); CANARY(); }
void h_v64_size(void) { IN_U64(in_x); size_t r = ldb_varint64_size(in_x); CHECK(r == V64_SIZE(in_x), "varint64_size: LEB128 length"); CANARY(); }

void h_v32_write(void) {
  IN_U32(in_x); uint8_t *b = malloc(V32_SIZE(in_x)); uint8_t *r;
  ASSUME(b != NULL);
  r = ldb_varint32_write(b, in_x);
  CHECK(r == b + V32_SIZE(in_x), "varint32_write: emits exactly size(x) bytes");
  CHECK(V_WELLFORMED(b, V32_SIZE(in_x)) && V32_VAL(b, V32_SIZE(in_x)) == in_x, "varint32_write: bytes are the LEB128 encoding of x");
  CANARY();
}
void h_v64_write(void) {
  IN_U64(in_x); uint8_t *b = malloc(V64_SIZE(in_x)); uint8_t *r;
  ASSUME(b != NULL);
  r = ldb_varint64_write(b, in_x);
  CHECK(r == b + V64_SIZE(in_x), "varint64_write: emits exactly size(x) bytes");
  CHECK(V_WELLFORMED(b, V64_SIZE(in_x)) && V64_VAL(b, V64_SIZE(in_x)) == in_x, "varint64_write: bytes are the LEB128 encoding of x");
  CANARY();
}

void h_v32_read(void) {
  IN_SIZE(in_n); IN_BUF(buf, in_n); SNAP_BUF(buf, in_n);
  uint32_t z = 7; const uint8_t *p = buf; size_t n = in_n;
  int r = ldb_varint32_read(&z, &p, &n);
  CHECK(POST_VREAD_CURSOR(r, p, n, buf, in_n, 5), "varint32_read: consumes <= 5 bytes, never past the end, cursor advanced by the consumed count");
  CHECK(POST_VREAD_OK(r, p, n, buf, in_n), "varint32_read: success only on a terminated LEB128 group sequence");
  CHECK(POST_VREAD_FAIL(r, z, p, n, buf, in_n, 5), "varint32_read: failure iff no terminator within min(n,5) bytes, *z = 0");
  CHECK(POST_V32READ_VAL(r, z, n, buf, in_n), "varint32_read: value is the LEB128 value");
  CANARY();
}
void h_v64_read(void) {
  IN_SIZE(in_n); IN_BUF(buf, in_n); SNAP_BUF(buf, in_n);
  uint64_t z = 7; const uint8_t *p = buf; size_t n = in_n;
  int r = ldb_varint64_read(&z, &p, &n);
  CHECK(POST_VREAD_CURSOR(r, p, n, buf, in_n, 10), "varint64_read: consumes <= 10 bytes, never past the end, cursor advanced by the consumed count");
  CHECK(POST_VREAD_OK(r, p, n, buf, in_n), "varint64_read: success only on a terminated LEB128 group sequence");
  CHECK(POST_VREAD_FAIL(r, z, p, n, buf, in_n, 10), "varint64_read: failure iff no terminator within min(n,10) bytes, *z = 0");
  CHECK(POST_V64READ_VAL(r, z, n, buf, in_n), "varint64_read: value is the LEB128 value");
  CANARY();
}

/* round trips on the real code, every 32/64-bit value */
void h_v32_rt(void) {
  IN_U32(in_x); uint8_t b[5]; uint32_t z; const uint8_t *p = b; size_t n;
  uint8_t *e = ldb_varint32_write(b, in_x);
  int r;
  n = (size_t)(e - b);
  r = ldb_varint32_read(&z, &p, &n);
  CHECK(r == 1 && z == in_x && n == 0 && p == e, "varint32: read(write(x)) = x consuming exactly what was written");
  CHECK((size_t)(e - b) == ldb_varint32_size(in_x), "varint32: size(x) is the written length");
  CANARY();
}
void h_v64_rt(void) {
  IN_U64(in_x); uint8_t b[10]; uint64_t z; const uint8_t *p = b; size_t n;
  uint8_t *e = ldb_varint64_write(b, in_x);
  int r;
  n = (size_t)(e - b);
  r = ldb_varint64_read(&z, &p, &n);
  CHECK(r == 1 && z == in_x && n == 0 && p == e, "varint64: read(write(x)) = x consuming exactly what was written");
  CHECK((size_t)(e - b) == ldb_varint64_size(in_x), "varint64: size(x) is the written length");
  CANARY();
}
void h_fixed_rt(void) {
  IN_U32(in_x); IN_U64(in_y); uint8_t b[8];
  ldb_fixed32_encode(b, in_x); CHECK(ldb_fixed32_decode(b) == in_x, "fixed32: decode(encode(x)) = x");
  ldb_fixed64_encode(b, in_y); CHECK(ldb_fixed64_decode(b) == in_y, "fixed64: decode(encode(x)) = x");
  CANARY();
}

void h_zraw_read(void) {
  IN_SIZE(in_n); IN_SIZE(in_zn); IN_BUF(buf, in_n); SNAP_BUF(buf, in_n);
  const uint8_t *z = NULL; const uint8_t *p = buf; size_t n = in_n;
  int r = ldb_zraw_read(&z, in_zn, &p, &n);
  CHECK(r == (in_n >= in_zn), "zraw_read: succeeds iff zn bytes available");
  CHECK(r ? (z == buf && p == buf + in_zn && n == in_n - in_zn) : (p == buf && n == in_n), "zraw_read: result is the prefix, cursor advanced by zn, or untouched");
  CANARY();
}
