/* units/pool.c - the thread pool (src/util/thread_pool.c), properties C09 (no lost wake-up / stuck call) and C20 (close completes)
 *
 *   pool.create    : ldb_pool_create          threads < 1 clamped, every field initialised, primitives initialised once
 *   pool.q_push    : ldb_queue_push           enforce c_queue_push: appends at the TAIL (FIFO), frame: no other node written
 *   pool.q_shift   : ldb_queue_shift          enforce c_queue_shift: removes the HEAD, returns it with next == NULL
 *   pool.q_clear   : ldb_queue_clear          queue of ANY length (loop contract): every node freed exactly once, in order
 *   pool.schedule  : ldb_pool_schedule        lazy start of exactly `threads` detached workers, one enqueue, signal, I_pool
 *   pool.worker    : worker_thread            any number of items (loop contracts): head only, run outside the mutex, ...
 *   pool.wait      : ldb_pool_wait            returns only with left == 0, predicate re-tested
 *   pool.destroy   : ldb_pool_destroy         discards queued work, stop + broadcast, waits for running == 0, tears down once
 *   pool.wait.b / pool.destroy.b / pool.worker.b : bounded siblings without loop contracts (they also decide mutants that
 *                    change the loop structure, e.g. while -> if, which a loop-contract unit reports as extraction break)
 *   pool.q_clear.b : ldb_queue_clear on 0..3 separately allocated, really freed nodes (double free / use after free)
 * Loop contracts: loops/pool.json (ldb_queue_clear, ldb_pool_schedule, ldb_pool_wait, ldb_pool_destroy, worker_thread x2).
 * Carriers c_queue_push / c_queue_shift are enforced here and replaced nowhere (no trusted.json entry needed).
 *
 * The real thread_pool.c is included unmodified.  Environment (ghost models, all in this file):
 *   - ldb_malloc = malloc that does not fail (lcdb aborts on allocation failure); ldb_free = ghost bookkeeping
 *     (which object, how often, in which state) + the real free() for the pool object;
 *   - ldb_mutex_* / ldb_cond_* / ldb_thread_* follow the lock-invariant method (DESIGN 3.5):
 *       the monitor invariant I_pool is ASSERTED whenever the thread under test lets go of the pool mutex
 *       (ldb_mutex_unlock, entry of ldb_cond_wait); it is ASSUMED only for the state the other threads leave behind
 *       when the thread under test (re)acquires the mutex (ldb_mutex_lock, return of ldb_cond_wait): others_act().
 *
 * I_pool (check_ipool):
 *   queue: length >= 0, head == NULL <=> tail == NULL <=> length == 0, tail->next == NULL, length == 1 <=> head == tail,
 *          length >= 2 => head->next != NULL, length == 2 <=> head->next == tail   (the local unfolding of "length = number of
 *          nodes of the NULL-terminated list from head, ending in tail"; pool.q_push / pool.q_shift / pool.q_clear prove the
 *          inductive steps with the frame "no other node is written")
 *   threads >= 1 (constant), stop in {0,1}, 0 <= running <= threads, running in {0, threads} before stop,
 *   left >= queue.length + (items this thread has taken and not yet accounted for),
 *   running == 0 before stop => nothing queued, nothing outstanding;   stop => queue empty
 *   wake-up debts (state based, checked at every release):
 *     worker: if the queue grew in this critical section, `worker` was signalled/broadcast under the mutex when the queue
 *             already had its final length (i.e. AFTER the last enqueue);
 *             if stop was set in this critical section, `worker` was BROADCAST (every blocked worker must leave) after that;
 *     master: if left reached 0 in this critical section and stop is not set, `master` was signalled when left was 0;
 *             if running reached 0 in this critical section, `master` was signalled when running was 0.
 *     (left == 0 under stop needs no signal: see "assumes" of pool.worker - the only legitimate waiter on master after
 *      stop is the destroyer, whose predicate is running == 0.)
 *
 * What the other threads may do while the thread under test does not hold the mutex (others_act), always leaving I_pool:
 *   - schedulers: start the workers (running 0 -> threads), push items at the tail, left++      (not once stop is set)
 *   - other workers: take items from the head, later left--, after stop: running--
 *   - the destroyer (at most one, only when the thread under test is a worker): clear the queue and set stop (never reset)
 *   - nobody changes `threads`; nobody frees the pool while a worker is registered in `running`
 *   - fairness (only used for the termination measures): after finitely many acquisitions (ghost fuel, arbitrary) the
 *     condition the thread under test waits for holds.
 *
 * Observations about the code (not failures of these units, see the "assumes" of pool.worker / pool.destroy):
 *   - master is signalled, not broadcast: two concurrent ldb_pool_wait callers => one stays blocked with left == 0
 *     (-DPOOL_MULTI_WAITER turns this into an obligation of pool.worker, which then fails on the unchanged code);
 *   - ldb_pool_destroy discards queued items without subtracting them from left, and a worker does not signal
 *     left == 0 once stop is set: a ldb_pool_wait racing with ldb_pool_destroy is never woken for left == 0 (and may
 *     swallow the single running == 0 signal meant for the destroyer).  The API gives no way to use that race safely
 *     (the pool is freed), so it is recorded as an observation.
 */
#include "verif.h"
#include <stddef.h>
#include <limits.h>

int nondet_int(void);
unsigned nondet_unsigned(void);
void *nondet_ptr(void);

#include "util/thread_pool.c"

/* ldb_queue_shift aborts on an empty queue: reaching it is a violation (a worker must only shift a non-empty queue) */
void abort(void) {
  __CPROVER_assert(0, "abort() is never reached: ldb_queue_shift is only called on a non-empty queue");
  __CPROVER_assume(0);
}

/* ------------------------------------------------------------------ ghost */
enum { R_NONE, R_SCHED, R_WORKER, R_WAIT, R_DESTROY };
int g_role;
ldb_pool_t *g_pool;            /* the pool of the call under test                                        */
int g_threads0;                /* pool->threads (constant)                                               */
unsigned g_lock_fuel;           /* fairness budget left after the last ldb_mutex_lock (termination measure of nested loops) */
int g_array_queue;             /* the queue the other threads leave is the array-embedded list g_nodes   */

/* protocol state written by the primitive models (one object: one assigns target in the loop contracts) */
struct g_proto {
  int held; unsigned locks, unlocks, waits;
  unsigned fuel;               /* fairness budget, see others_act                                        */
  int exited;                  /* the worker under test has deregistered (--running)                     */
  int pool_freed;
  /* shared state as found at the last acquisition of the mutex */
  int acq_len, acq_left, acq_running, acq_stop, acq_mine;
  /* signals sent since the last acquisition */
  int wsig_len;                /* queue length when `worker` was last signalled / broadcast, -1: not at all */
  int wbc_stop;                /* `worker` was broadcast while stop was set                               */
  int msig_left0, msig_run0;   /* `master` was signalled while left == 0 / running == 0                   */
  unsigned sig_worker, bc_worker, sig_master, bc_master, sig_other;
  /* shared state as left at the last release */
  int rel_valid, rel_len, rel_left, rel_running, rel_stop;
  int mine;                    /* items the thread under test has taken and not yet subtracted from left  */
  ldb_work_t *acq_tail;        /* queue tail at the last acquisition                                      */
  /* the work item the worker under test holds */
  int cur;                     /* 0 none / finished, 1 taken, 2 executed, (finished = freed -> 0)         */
  unsigned takes, execs, nfrees;
  unsigned job_calls, job2_calls;
} G;

/* thread creation */
struct g_threads {
  unsigned creates, detaches; int undetached; unsigned long last_tid;
} GT;

/* allocation */
unsigned g_mallocs; void *g_last_alloc; size_t g_last_alloc_size;
unsigned g_pool_frees, g_bad_frees;
int g_real_nodes; unsigned g_real_frees;
/* initialisation / destruction of the primitives */
unsigned g_mutex_inits, g_cond_inits, g_mutex_destroys, g_cw_destroys, g_cm_destroys, g_other_destroys;
ldb_mutex_t *g_minit_ptr; ldb_cond_t *g_cinit_ptr[2];

/* queue window: a queue of ANY length in canonical form; only the nodes the code can reach in one step are objects:
 *   len == 1: w0            len == 2: w0 -> w3        len == 3: w0 -> w1 -> w3
 *   len >= 4: w0 -> w1 -> w2 -> (len - 4 nodes that are never touched) -> w3;   w2 = the arbitrary middle node (ghost index) */
ldb_work_t g_w[4];               /* one object: one assigns target */
#define g_w0 g_w[0]
#define g_w1 g_w[1]
#define g_w2 g_w[2]
#define g_w3 g_w[3]
void *g_arg0;

/* array-embedded queue of ANY length n (q_clear / destroy): node i is g_nodes[i].w, g_nodes[i].w.next == &g_nodes[i+1].w;
 * g_k = tracked (ghost) index.  The nodes sit in 32-byte slots (index arithmetic by shifts: 10x faster than x24 in SAT). */
struct g_slot { ldb_work_t w; char pad[32 - sizeof(ldb_work_t)]; } *g_nodes; int g_n; int g_k;
struct g_arr { int frees; int freed_k; } GA;

/* ------------------------------------------------------------ work functions */
static void job_stub(void *arg) {
  __CPROVER_assert(!G.held, "a work item is executed with the pool mutex NOT held");
  __CPROVER_assert(g_role == R_WORKER, "work items are executed by workers only (never by schedule / wait / destroy)");
  __CPROVER_assert(G.cur == 1, "the item taken from the queue is executed exactly once, before it is freed");
  __CPROVER_assert(arg == g_arg0, "the executed item is the one that was at the HEAD of the queue (its arg is passed)");
  G.cur = 2; G.execs++; G.job_calls++;
}
static void job_stub2(void *arg) { G.job2_calls++; }

/* ------------------------------------------------------------ allocation */
void *ldb_malloc(size_t size) {
  void *p = malloc(size);
  __CPROVER_assume(p != NULL);
  g_mallocs++; g_last_alloc = p; g_last_alloc_size = size;
  return p;
}

void ldb_free(void *p) {
  if (p == NULL) return;
  if (g_pool != NULL && p == (void *)g_pool) {
    __CPROVER_assert(g_pool_frees == 0, "the pool is freed exactly once");
    __CPROVER_assert(g_role == R_DESTROY, "only ldb_pool_destroy frees the pool");
    __CPROVER_assert(!G.held, "the pool is freed with its mutex released");
    __CPROVER_assert(g_mutex_destroys == 1 && g_cw_destroys == 1 && g_cm_destroys == 1, "the pool is freed after its mutex and both condition variables were destroyed");
    g_pool_frees++; G.pool_freed = 1;
    free(p);                       /* the real free: any later access to the pool is flagged by the pointer checks */
    return;
  }
  if (g_array_queue && g_nodes != NULL && __CPROVER_same_object(p, g_nodes)) {
    __CPROVER_assert(GA.frees < g_n && p == (void *)&g_nodes[GA.frees].w, "the queued items are freed in list order, each exactly once (none twice, none skipped)");
    if (GA.frees == g_k) GA.freed_k++;
    GA.frees++;
    /* the list precondition (g_nodes[i].next == &g_nodes[i+1], NULL at the end) is instantiated lazily for the next
       node (no quantifiers in the SAT back end).  Sound because no node memory is in the assigns clause of the
       clearing loop: dfcc proves the loop never writes a node, so this is a fact about the initial state. */
    if (GA.frees < g_n)
      __CPROVER_assume(g_nodes[GA.frees].w.next == (GA.frees + 1 < g_n ? &g_nodes[GA.frees + 1].w : NULL));
    return;
  }
  if (g_real_nodes) {              /* pool.q_clear.b: separately allocated nodes, really freed (double free / use after free flagged by cbmc) */
    g_real_frees++;
    free(p);
    return;
  }
  if (g_role == R_WORKER) {
    __CPROVER_assert(p == (void *)&g_w0, "a worker frees only the item it took from the head of the queue");
    __CPROVER_assert(G.cur == 2, "the taken item is freed exactly once, after it was executed");
    G.cur = 0; G.nfrees++;
    return;
  }
  g_bad_frees++;
  __CPROVER_assert(0, "nothing else is freed");
}

/* --------------------------------------------------------------- I_pool */
static void check_ipool(void) {
  ldb_pool_t *p = g_pool; ldb_queue_t *q = &p->queue;
  __CPROVER_assert(q->length >= 0, "I_pool: queue length >= 0 (checked whenever the mutex is released)");
  __CPROVER_assert((q->head == NULL) == (q->length == 0) && (q->tail == NULL) == (q->length == 0), "I_pool: head == NULL <=> tail == NULL <=> length == 0 (checked whenever the mutex is released)");
  if (q->length > 0 && q->tail != NULL && q->head != NULL) {
    __CPROVER_assert(q->tail->next == NULL, "I_pool: the tail node ends the list (tail->next == NULL)");
    __CPROVER_assert((q->length == 1) == (q->head == q->tail), "I_pool: length == 1 <=> head == tail");
    if (q->length >= 2)
      __CPROVER_assert(q->head->next != NULL && ((q->length == 2) == (q->head->next == q->tail)), "I_pool: length counts the nodes (length >= 2 => head has a successor, which is the tail iff length == 2)");
  }
  __CPROVER_assert(p->threads >= 1 && p->threads == g_threads0, "I_pool: threads >= 1 and constant");
  __CPROVER_assert(p->stop == 0 || p->stop == 1, "I_pool: stop in {0,1}");
  __CPROVER_assert(0 <= p->running && p->running <= p->threads, "I_pool: 0 <= running <= threads");
  __CPROVER_assert(p->stop || p->running == 0 || p->running == p->threads, "I_pool: before stop, running is 0 (not started) or threads (all started)");
  __CPROVER_assert((long)p->left >= (long)q->length + G.mine, "I_pool: left >= queued items + the item this thread has taken (left = queued + executing)");
  __CPROVER_assert(!(p->running == 0 && !p->stop) || (q->length == 0 && p->left == 0), "I_pool: work is queued or outstanding only after the workers were started (running != 0)");
  __CPROVER_assert(!p->stop || q->length == 0, "I_pool: the queue is empty once stop is set");
}

/* canonical queue of length len over the window nodes */
static void set_window(ldb_queue_t *q, int len) {
  q->length = len;
  q->head = len == 0 ? NULL : &g_w0;
  q->tail = len == 0 ? NULL : len == 1 ? &g_w0 : &g_w3;
  g_w0.next = len <= 1 ? NULL : len == 2 ? &g_w3 : &g_w1;
  g_w1.next = len == 3 ? &g_w3 : &g_w2;
}
/* one-time content of the window nodes (fields that others_act never rewrites) */
static void init_window(ldb_work_f *f) {
  g_arg0 = nondet_ptr();
  g_w0.func = f; g_w0.arg = g_arg0; g_w0.next = NULL;
  g_w1.func = f; g_w1.arg = nondet_ptr(); g_w1.next = &g_w2;
  g_w2.func = f; g_w2.arg = nondet_ptr(); g_w2.next = nondet_ptr();   /* the arbitrary middle node: successor unknown */
  g_w3.func = f; g_w3.arg = nondet_ptr(); g_w3.next = NULL;
}
static void set_array_queue(ldb_queue_t *q, int n) {
  q->length = n;
  q->head = n == 0 ? NULL : &g_nodes[0].w;
  q->tail = n == 0 ? NULL : &g_nodes[n - 1].w;
}

/* ---------------------------------------------------- the other threads act */
static void others_act(void) {
  ldb_pool_t *p = g_pool;
  int len = nondet_int(), left = nondet_int(), running = nondet_int(), stop = nondet_int() ? 1 : 0;
  int force = 0;
  if (G.fuel == 0) force = 1; else G.fuel--;
  switch (g_role) {
  case R_WORKER:                 /* the destroyer may come at any time; it must come eventually (C20 presupposes a close) */
    if (force) stop = 1;
    __CPROVER_assume(running >= 1);            /* the worker under test is counted in running until it deregisters */
    break;
  case R_WAIT:                   /* no destroy while a thread is inside ldb_pool_wait (the pool would be freed under it) */
    __CPROVER_assume(!stop);
    if (force) left = 0;
    break;
  case R_SCHED:                  /* no schedule once destroy has begun */
    __CPROVER_assume(!stop);
    break;
  case R_DESTROY:                /* destroy is called once: nobody else sets stop, nobody resets it */
    __CPROVER_assume(stop == (G.rel_valid ? G.rel_stop : 0));
    if (stop && force) running = 0;
    if (G.rel_valid) __CPROVER_assume(len == 0);   /* no schedule once destroy has begun */
    break;
  default:
    __CPROVER_assert(0, "no mutex acquisition outside the four roles");
  }
  /* ... leaving I_pool */
  __CPROVER_assume(len >= 0 && left < INT_MAX && (long)left >= (long)len + G.mine);
  __CPROVER_assume(0 <= running && running <= g_threads0 && (stop || running == 0 || running == g_threads0));
  __CPROVER_assume(!(running == 0 && !stop) || (len == 0 && left == 0));
  __CPROVER_assume(!stop || len == 0);
  p->running = running; p->left = left; p->stop = stop;
  if (g_array_queue) {
    __CPROVER_assume(G.rel_valid || len == g_n);       /* first acquisition: the array list, afterwards: empty */
    set_array_queue(&p->queue, len);
  } else
    set_window(&p->queue, len);
}

static void on_acquire(void) {
  ldb_pool_t *p = g_pool;
  others_act();
  G.acq_len = p->queue.length; G.acq_left = p->left; G.acq_running = p->running; G.acq_stop = p->stop; G.acq_mine = G.mine; G.acq_tail = p->queue.tail;
  G.wsig_len = -1; G.wbc_stop = 0; G.msig_left0 = 0; G.msig_run0 = 0;
}

/* inputs of the schedule call under test */
ldb_work_f *g_in_func; void *g_in_arg;

/* the thread under test lets go of the mutex: its obligations */
static void on_release(int at_wait) {
  ldb_pool_t *p = g_pool; ldb_queue_t *q = &p->queue;
  __CPROVER_assert(p->threads == g_threads0, "threads is never changed");
  switch (g_role) {
  case R_WORKER:
    __CPROVER_assert(p->stop == G.acq_stop, "a worker never changes stop");
    __CPROVER_assert(p->left == G.acq_left - G.acq_mine, "a worker decrements left exactly once per item it executed (under the mutex, at its next acquisition), and not otherwise");
    G.mine = 0;
    if (q->length != G.acq_len) {
      __CPROVER_assert(G.acq_len >= 1 && q->length == G.acq_len - 1 && q->head == (G.acq_len == 1 ? NULL : G.acq_len == 2 ? &g_w3 : &g_w1),
                       "a worker takes exactly one item per critical section, and takes it from the HEAD of the queue");
      __CPROVER_assert(g_w0.next == NULL, "the taken item is unlinked from the queue (next == NULL)");
      __CPROVER_assert(!G.acq_stop, "no work is taken once stop is set");
      __CPROVER_assert(!at_wait, "a worker that has taken an item does not block");
      __CPROVER_assert(G.cur == 0, "the previous item was executed and freed before the next one is taken");
      G.cur = 1; G.takes++; G.mine = 1;
    } else {
      __CPROVER_assert(q->head == (G.acq_len == 0 ? NULL : &g_w0) && (G.acq_len == 0 || g_w0.next == (G.acq_len == 1 ? NULL : G.acq_len == 2 ? &g_w3 : &g_w1)), "otherwise the queue is left as found");
    }
    __CPROVER_assert(G.acq_len < 3 || g_w1.next == (G.acq_len == 3 ? &g_w3 : &g_w2), "nodes behind the head are not written (FIFO order kept)");
    if (p->running != G.acq_running) {
      __CPROVER_assert(p->running == G.acq_running - 1 && !G.exited, "running is decremented exactly once by a worker ...");
      __CPROVER_assert(p->stop, "... and only after stop was set");
      __CPROVER_assert(!at_wait && q->length == G.acq_len && G.mine == 0, "... on its way out: it takes no more work and does not block afterwards");
      G.exited = 1;
    }
    __CPROVER_assert(!(p->left == 0 && G.acq_left > 0 && !p->stop) || G.msig_left0, "C09 wake-up: left reached 0 (and stop is not set) => master was signalled under the mutex after that (ldb_pool_wait is woken)");
    __CPROVER_assert(!(p->running == 0 && G.acq_running > 0) || G.msig_run0, "C09/C20 wake-up: running reached 0 => master was signalled under the mutex after that (ldb_pool_destroy is woken)");
    break;
  case R_SCHED:
    __CPROVER_assert(!at_wait, "ldb_pool_schedule never blocks");
    __CPROVER_assert(p->stop == G.acq_stop, "schedule does not change stop");
    __CPROVER_assert(q->length == G.acq_len + 1 && g_mallocs == 1 && q->tail == (ldb_work_t *)g_last_alloc && g_last_alloc_size == sizeof(ldb_work_t),
                     "schedule enqueues exactly one new item, at the TAIL");
    __CPROVER_assert(q->tail->func == g_in_func && q->tail->arg == g_in_arg && q->tail->next == NULL, "the new item carries (func, arg) and ends the list");
    __CPROVER_assert(G.acq_len == 0 ? q->head == q->tail : (q->head == &g_w0 && G.acq_tail->next == q->tail), "the new item is linked behind the old tail (FIFO); the head is kept");
    __CPROVER_assert(p->left == G.acq_left + 1, "schedule increments left exactly once");
    if (G.acq_running == 0)
      __CPROVER_assert(p->running == p->threads && GT.creates == (unsigned)p->threads, "first schedule: running = threads and exactly `threads` workers are started");
    else
      __CPROVER_assert(p->running == G.acq_running && GT.creates == 0, "later schedules start no thread and leave running alone");
    __CPROVER_assert(GT.detaches == GT.creates && !GT.undetached, "every started thread is detached exactly once");
    __CPROVER_assert(G.wsig_len == q->length, "C09 wake-up: `worker` is signalled under the mutex AFTER the enqueue (a blocked worker is woken for the new item)");
    break;
  case R_WAIT:
    __CPROVER_assert(q->length == G.acq_len && p->left == G.acq_left && p->running == G.acq_running && p->stop == G.acq_stop && q->head == (G.acq_len == 0 ? NULL : &g_w0), "ldb_pool_wait changes nothing");
    break;
  case R_DESTROY:
    if (!G.rel_valid) {
      /* first critical section */
      __CPROVER_assert(!at_wait, "destroy does not block before it has set stop and woken the workers");
      __CPROVER_assert(q->length == 0 && q->head == NULL && q->tail == NULL && GA.frees == g_n, "destroy discards every queued item (each freed exactly once) and leaves the queue empty");
      __CPROVER_assert(p->stop == 1, "destroy sets stop");
      __CPROVER_assert(G.wbc_stop, "C09/C20 wake-up: after stop is set `worker` is BROADCAST under the mutex (every blocked worker must leave)");
    } else {
      __CPROVER_assert(q->length == 0 && p->stop == 1, "destroy: queue stays empty, stop stays set");
    }
    __CPROVER_assert(p->running == G.acq_running, "destroy does not change running (the workers deregister themselves)");
    __CPROVER_assert(p->left == G.acq_left, "destroy leaves left alone (observation: discarded items stay counted in left)");
    break;
  default:
    __CPROVER_assert(0, "no mutex release outside the four roles");
  }
  check_ipool();
  G.rel_valid = 1; G.rel_len = q->length; G.rel_left = p->left; G.rel_running = p->running; G.rel_stop = p->stop;
}

/* ---------------------------------------------------------- thread model */
void ldb_mutex_init(ldb_mutex_t *m) { g_mutex_inits++; g_minit_ptr = m; }
void ldb_cond_init(ldb_cond_t *cv) { if (g_cond_inits < 2) g_cinit_ptr[g_cond_inits] = cv; g_cond_inits++; }

void ldb_mutex_lock(ldb_mutex_t *m) {
  __CPROVER_assert(!G.pool_freed, "no use of the pool after it was freed (lock)");
  __CPROVER_assert(g_mutex_destroys == 0, "no lock after the mutex was destroyed");
  __CPROVER_assert(m == &g_pool->mutex, "lock: the pool mutex");
  __CPROVER_assert(!G.held, "lock: not already held by this thread (self-deadlock)");
  __CPROVER_assert(!G.exited, "a worker does not touch the pool after it deregistered (the destroyer may free it)");
  G.held = 1; G.locks++;
  on_acquire();
  g_lock_fuel = G.fuel;
}
void ldb_mutex_unlock(ldb_mutex_t *m) {
  __CPROVER_assert(!G.pool_freed, "no use of the pool after it was freed (unlock)");
  __CPROVER_assert(m == &g_pool->mutex && G.held, "unlock: the pool mutex, held");
  on_release(0);
  G.held = 0; G.unlocks++;
}
void ldb_cond_wait(ldb_cond_t *cv, ldb_mutex_t *m) {
  ldb_pool_t *p = g_pool;
  __CPROVER_assert(!G.pool_freed, "no use of the pool after it was freed (wait)");
  __CPROVER_assert(m == &p->mutex && G.held, "wait: with the pool mutex held");
  switch (g_role) {
  case R_WORKER:
    __CPROVER_assert(cv == &p->worker, "a worker waits on `worker` only");
    __CPROVER_assert(!p->stop && p->queue.length == 0, "a worker blocks only while the queue is empty and stop is not set");
    break;
  case R_WAIT:
    __CPROVER_assert(cv == &p->master, "ldb_pool_wait waits on `master` only");
    __CPROVER_assert(p->left > 0, "ldb_pool_wait blocks only while left > 0");
    break;
  case R_DESTROY:
    __CPROVER_assert(cv == &p->master, "ldb_pool_destroy waits on `master` only");
    __CPROVER_assert(p->running > 0 && p->stop == 1 && G.rel_valid, "ldb_pool_destroy blocks only while workers are registered, after it set stop and woke them");
    break;
  default:
    __CPROVER_assert(0, "ldb_pool_schedule never blocks");
  }
  on_release(1);
  G.held = 0; G.waits++;
  /* the other threads run; wake-up (signalled, broadcast or spurious) */
  G.held = 1;
  on_acquire();
}
void ldb_cond_signal(ldb_cond_t *cv) {
  ldb_pool_t *p = g_pool;
  __CPROVER_assert(!G.pool_freed, "no use of the pool after it was freed (signal)");
  __CPROVER_assert(G.held, "signal: under the pool mutex");
  if (cv == &p->worker) { G.sig_worker++; G.wsig_len = p->queue.length; }
  else if (cv == &p->master) {
    G.sig_master++;
    /* a signal wakes ONE thread blocked on master.  That is enough under the assumption recorded in the unit records:
       at most one thread is blocked on master at any time (one ldb_pool_wait caller, or the destroyer).  With
       -DPOOL_MULTI_WAITER (several concurrent ldb_pool_wait callers) only a broadcast pays the left == 0 debt; the
       unchanged code then FAILS "left reached 0 => master was signalled" in pool.worker - see the group's report. */
#ifndef POOL_MULTI_WAITER
    if (p->left == 0) G.msig_left0 = 1;
#endif
    if (p->running == 0) G.msig_run0 = 1;
  }
  else { G.sig_other++; __CPROVER_assert(0, "signal: one of the pool's condition variables"); }
}
void ldb_cond_broadcast(ldb_cond_t *cv) {
  ldb_pool_t *p = g_pool;
  __CPROVER_assert(!G.pool_freed, "no use of the pool after it was freed (broadcast)");
  __CPROVER_assert(G.held, "broadcast: under the pool mutex");
  if (cv == &p->worker) { G.bc_worker++; G.wsig_len = p->queue.length; if (p->stop) G.wbc_stop = 1; }
  else if (cv == &p->master) { G.bc_master++; if (p->left == 0) G.msig_left0 = 1; if (p->running == 0) G.msig_run0 = 1; }
  else { G.sig_other++; __CPROVER_assert(0, "broadcast: one of the pool's condition variables"); }
}
static void teardown_ok(void) {
  __CPROVER_assert(!G.pool_freed, "no use of the pool after it was freed (teardown)");
  __CPROVER_assert(g_role == R_DESTROY && !G.held, "primitives are destroyed by ldb_pool_destroy, with the mutex released");
  __CPROVER_assert(G.rel_valid && G.rel_running == 0 && G.rel_stop == 1, "C20: primitives are destroyed only after running == 0 was seen under the mutex (no worker can touch them any more)");
}
void ldb_mutex_destroy(ldb_mutex_t *m) { teardown_ok(); __CPROVER_assert(m == &g_pool->mutex && g_mutex_destroys == 0, "the pool mutex is destroyed exactly once"); g_mutex_destroys++; }
void ldb_cond_destroy(ldb_cond_t *cv) {
  teardown_ok();
  if (cv == &g_pool->worker) { __CPROVER_assert(g_cw_destroys == 0, "`worker` is destroyed exactly once"); g_cw_destroys++; }
  else if (cv == &g_pool->master) { __CPROVER_assert(g_cm_destroys == 0, "`master` is destroyed exactly once"); g_cm_destroys++; }
  else { g_other_destroys++; __CPROVER_assert(0, "only the pool's condition variables are destroyed"); }
}
void ldb_thread_create(ldb_thread_t *thread, void (*start)(void *), void *arg) {
  __CPROVER_assert(g_role == R_SCHED && G.held, "workers are started by ldb_pool_schedule, under the mutex (running is set in the same critical section)");
  __CPROVER_assert(G.acq_running == 0, "workers are started only when none is running (running == 0)");
  __CPROVER_assert(start == worker_thread && arg == (void *)g_pool, "each thread runs worker_thread(pool)");
  __CPROVER_assert(!GT.undetached, "the previous thread handle was detached before it is overwritten");
  GT.last_tid++; thread->handle = (pthread_t)GT.last_tid;
  GT.creates++; GT.undetached = 1;
}
void ldb_thread_detach(ldb_thread_t *thread) {
  __CPROVER_assert(GT.undetached && thread->handle == (pthread_t)GT.last_tid, "detach: the thread just started, not yet detached (each started thread is detached exactly once)");
  GT.undetached = 0; GT.detaches++;
}
void ldb_thread_join(ldb_thread_t *thread) { __CPROVER_assert(0, "the pool never joins (workers are detached)"); }

/* -------------------------------------------------------------- harness setup */
static void reset_ghost(int role) {
  g_role = role; g_array_queue = 0; g_real_nodes = 0; g_real_frees = 0; g_pool = NULL; g_threads0 = 1;
  G.held = 0; G.locks = 0; G.unlocks = 0; G.waits = 0; G.exited = 0; G.pool_freed = 0;
  G.fuel = nondet_unsigned(); __CPROVER_assume(G.fuel < (1u << 30));
  G.acq_len = G.acq_left = G.acq_running = G.acq_stop = G.acq_mine = 0;
  G.wsig_len = -1; G.wbc_stop = 0; G.msig_left0 = G.msig_run0 = 0;
  G.sig_worker = G.bc_worker = G.sig_master = G.bc_master = G.sig_other = 0;
  G.acq_tail = NULL; G.rel_valid = 0; G.rel_len = G.rel_left = G.rel_running = G.rel_stop = 0; G.mine = 0;
  G.cur = 0; G.takes = G.execs = G.nfrees = 0;
  GT.creates = GT.detaches = 0; GT.undetached = 0; GT.last_tid = 0;
  GA.frees = 0; GA.freed_k = 0;
  g_mallocs = 0; g_last_alloc = NULL; g_last_alloc_size = 0; g_pool_frees = 0; g_bad_frees = 0;
  g_mutex_inits = g_cond_inits = g_mutex_destroys = g_cw_destroys = g_cm_destroys = g_other_destroys = 0;
  g_minit_ptr = NULL; g_cinit_ptr[0] = g_cinit_ptr[1] = NULL;
  G.job_calls = G.job2_calls = 0;
  g_nodes = NULL; g_n = 0; g_k = 0;
}
/* a pool object whose shared fields are filled in by others_act at the first acquisition */
static ldb_pool_t *mk_pool(void) {
  ldb_pool_t *p = malloc(sizeof(ldb_pool_t));
  __CPROVER_assume(p != NULL);
  g_pool = p;
  g_threads0 = nondet_int(); __CPROVER_assume(g_threads0 >= 1);
  p->threads = g_threads0;
  p->queue.head = NULL; p->queue.tail = NULL; p->queue.length = 0;
  return p;
}

/* ------------------------------------------------------------- pool.create */
void h_create(void) {
  IN_INT(in_threads);
  ldb_pool_t *p;
  reset_ghost(R_NONE);
  p = ldb_pool_create(in_threads);
  CHECK(p != NULL && g_mallocs == 1 && (void *)p == g_last_alloc && g_last_alloc_size == sizeof(ldb_pool_t), "create: returns one freshly allocated pool object");
  CHECK(p->threads == (in_threads < 1 ? 1 : in_threads), "create: threads < 1 is clamped to 1, otherwise kept");
  CHECK(p->running == 0 && p->left == 0 && p->stop == 0, "create: no worker running, nothing outstanding, not stopped");
  CHECK(p->queue.head == NULL && p->queue.tail == NULL && p->queue.length == 0, "create: empty queue");
  CHECK(g_mutex_inits == 1 && g_minit_ptr == &p->mutex, "create: the pool mutex is initialised exactly once");
  CHECK(g_cond_inits == 2 && ((g_cinit_ptr[0] == &p->master && g_cinit_ptr[1] == &p->worker) || (g_cinit_ptr[0] == &p->worker && g_cinit_ptr[1] == &p->master)), "create: `master` and `worker` are initialised exactly once each");
  CHECK(G.locks == 0 && G.sig_worker + G.sig_master + G.bc_worker + G.bc_master == 0 && GT.creates == 0, "create: no thread is started, nothing is locked or signalled");
  g_pool = p; g_threads0 = p->threads;
  check_ipool();                 /* the new pool satisfies I_pool */
  CANARY();
}

/* ------------------------------------------------------- pool.q_push / q_shift */
#define WFQ_HEADTAIL(q) ((q)->length >= 0 && (((q)->head == NULL) == ((q)->length == 0)) && (((q)->tail == NULL) == ((q)->length == 0)))

void c_queue_push(ldb_queue_t *queue, ldb_work_f *func, void *arg)
__CPROVER_requires(__CPROVER_rw_ok(queue, sizeof(*queue)))
__CPROVER_requires(WFQ_HEADTAIL(queue) && queue->length < INT_MAX)
__CPROVER_requires(queue->tail == NULL || (__CPROVER_rw_ok(queue->tail, sizeof(ldb_work_t)) && queue->tail->next == NULL))
/* frame: besides the three queue fields only the old tail's link is written - every queued node keeps func, arg and position */
__CPROVER_assigns(queue->head, queue->tail, queue->length, g_mallocs, g_last_alloc, g_last_alloc_size)
__CPROVER_assigns(queue->tail != NULL: queue->tail->next)
__CPROVER_ensures(queue->length == __CPROVER_old(queue->length) + 1)
__CPROVER_ensures(g_mallocs == __CPROVER_old(g_mallocs) + 1 && queue->tail == (ldb_work_t *)g_last_alloc && g_last_alloc_size == sizeof(ldb_work_t))
__CPROVER_ensures(queue->tail->func == func && queue->tail->arg == arg && queue->tail->next == NULL)
__CPROVER_ensures(__CPROVER_old(queue->tail) == NULL ? queue->head == queue->tail
                  : (queue->head == __CPROVER_old(queue->head) && __CPROVER_old(queue->tail)->next == queue->tail))
;

ldb_work_t *c_queue_shift(ldb_queue_t *queue)
__CPROVER_requires(__CPROVER_rw_ok(queue, sizeof(*queue)))
__CPROVER_requires(WFQ_HEADTAIL(queue) && queue->length >= 1)
__CPROVER_requires(__CPROVER_rw_ok(queue->head, sizeof(ldb_work_t)) && ((queue->head->next == NULL) == (queue->length == 1)) && ((queue->head == queue->tail) == (queue->length == 1)))
/* frame: only the three queue fields and the removed node's link are written */
__CPROVER_assigns(queue->head, queue->tail, queue->length, queue->head->next)
__CPROVER_ensures(__CPROVER_return_value == __CPROVER_old(queue->head) && __CPROVER_return_value->next == NULL)
__CPROVER_ensures(queue->head == __CPROVER_old(queue->head->next))
__CPROVER_ensures(queue->length == __CPROVER_old(queue->length) - 1)
__CPROVER_ensures(queue->head == NULL ? queue->tail == NULL : queue->tail == __CPROVER_old(queue->tail))
__CPROVER_ensures(WFQ_HEADTAIL(queue))
;

struct node_snap { ldb_work_f *func; void *arg; ldb_work_t *next; };
static struct node_snap snap(const ldb_work_t *w) { struct node_snap s; s.func = w->func; s.arg = w->arg; s.next = w->next; return s; }
#define SAME(s, w) ((s).func == (w).func && (s).arg == (w).arg && (s).next == (w).next)
#define SAME_FA(s, w) ((s).func == (w).func && (s).arg == (w).arg)

void h_q_push(void) {
  ldb_queue_t q; int len = nondet_int();
  void *arg = nondet_ptr(); ldb_work_f *func = nondet_int() ? job_stub : job_stub2;
  struct node_snap s0, s1, s2, s3; ldb_work_t *tail0; ldb_work_t *nw;
  reset_ghost(R_NONE);
  __CPROVER_assume(len >= 0 && len < INT_MAX);
  init_window(nondet_int() ? job_stub : job_stub2); set_window(&q, len);
  s0 = snap(&g_w0); s1 = snap(&g_w1); s2 = snap(&g_w2); s3 = snap(&g_w3); tail0 = q.tail;

  ldb_queue_push(&q, func, arg);

  nw = q.tail;
  CHECK(q.length == len + 1 && g_mallocs == 1 && nw == (ldb_work_t *)g_last_alloc && nw != &g_w0 && nw != &g_w1 && nw != &g_w2 && nw != &g_w3, "push: one new node, it is the tail, length + 1");
  CHECK(nw->func == func && nw->arg == arg && nw->next == NULL, "push: the new node carries (func, arg) and ends the list");
  if (len == 0) CHECK(q.head == nw, "push on an empty queue: the new node is also the head");
  else CHECK(q.head == &g_w0 && tail0->next == nw, "push: the head is kept and the OLD TAIL is linked to the new node (FIFO, not LIFO)");
  /* every queued node keeps (func, arg) and its successor - only the old tail's link changed: order of the queue is kept */
  CHECK(SAME_FA(s0, g_w0) && SAME_FA(s1, g_w1) && SAME_FA(s2, g_w2) && SAME_FA(s3, g_w3), "push: every queued item keeps its (func, arg)");
  CHECK(tail0 == &g_w0 || s0.next == g_w0.next, "push: the head's link is kept (unless it was the tail)");
  CHECK(s1.next == g_w1.next && s2.next == g_w2.next, "push: the links of the middle nodes are kept (ghost node at an arbitrary position)");
  CHECK(tail0 == &g_w3 || s3.next == g_w3.next, "push: w3 is only written when it is the old tail");
  CANARY();
}

void h_q_shift(void) {
  ldb_queue_t q; int len = nondet_int();
  struct node_snap s0, s1, s2, s3; ldb_work_t *second, *tail0, *r;
  reset_ghost(R_NONE);
  __CPROVER_assume(len >= 1);
  init_window(nondet_int() ? job_stub : job_stub2); set_window(&q, len);
  s0 = snap(&g_w0); s1 = snap(&g_w1); s2 = snap(&g_w2); s3 = snap(&g_w3); second = g_w0.next; tail0 = q.tail;

  r = ldb_queue_shift(&q);

  CHECK(r == &g_w0 && r->next == NULL && SAME_FA(s0, g_w0), "shift: returns the HEAD node, unlinked (next == NULL), with its (func, arg)");
  CHECK(q.head == second && q.length == len - 1, "shift: the second node becomes the head, length - 1");
  CHECK(len == 1 ? (q.head == NULL && q.tail == NULL) : q.tail == tail0, "shift: tail is cleared when the queue becomes empty, kept otherwise");
  CHECK(SAME(s1, g_w1) && SAME(s2, g_w2) && SAME(s3, g_w3), "shift: the remaining nodes are untouched (ghost node at an arbitrary position)");
  CHECK(g_mallocs == 0 && G.nfrees == 0 && GA.frees == 0, "shift: allocates and frees nothing");
  CANARY();
}

/* ------------------------------------------------------------- pool.q_clear */
static void mk_array_list(int maxn) {
  g_array_queue = 1;
  g_n = nondet_int(); __CPROVER_assume(g_n >= 0 && g_n < maxn);
  /* symbolic size: the object stays in the array theory (AUTHORING); the bounded siblings use a small constant size */
  g_nodes = malloc(maxn <= 8 ? 8 * sizeof(struct g_slot) : (size_t)g_n * sizeof(struct g_slot)); __CPROVER_assume(g_nodes != NULL);
  g_k = nondet_int(); __CPROVER_assume(g_k >= 0 && (g_k < g_n || g_n == 0));
  /* list precondition, instantiated for the first node (the rest lazily in ldb_free) */
  if (g_n > 0) __CPROVER_assume(g_nodes[0].w.next == (g_n > 1 ? &g_nodes[1].w : NULL));
}
void h_q_clear(void) {
  ldb_queue_t q;
  reset_ghost(R_NONE);
  mk_array_list(1 << 30);
  set_array_queue(&q, g_n);

  ldb_queue_clear(&q);

  CHECK(GA.frees == g_n, "clear: every queued node is freed (in order, each exactly once: see ldb_free) - none is leaked");
  CHECK(g_n == 0 || GA.freed_k == 1, "clear: the node at an arbitrary position (ghost index) is freed exactly once");
  CHECK(q.head == NULL && q.tail == NULL && q.length == 0, "clear: the queue is empty afterwards");
  CHECK(G.job_calls == 0 && G.job2_calls == 0, "clear: discarded items are never executed");
  CANARY();
}

/* ------------------------------------------------------------ pool.schedule */
void h_schedule(void) {
  ldb_pool_t *p;
  reset_ghost(R_SCHED);
  p = mk_pool();
  init_window(nondet_int() ? job_stub : job_stub2);
  g_in_func = nondet_int() ? job_stub : job_stub2; g_in_arg = nondet_ptr();
  /* the old tail, as others_act will leave it (canonical window) - recorded at release from acq_len */

  ldb_pool_schedule(p, g_in_func, g_in_arg);

  CHECK(!G.held && G.locks == 1 && G.unlocks == 1 && G.waits == 0, "schedule: takes the mutex once, releases it once, never blocks");
  CHECK(G.rel_valid && G.rel_len == G.acq_len + 1 && G.rel_left == G.acq_left + 1, "schedule: one item enqueued, left + 1 (at the release of the mutex)");
  CHECK(G.sig_worker + G.bc_worker >= 1 && G.sig_master + G.bc_master == 0, "schedule: signals `worker`, not `master`");
  CHECK(G.job_calls == 0 && G.job2_calls == 0, "schedule does not run the work itself (threaded build)");
  CHECK(G.acq_running != 0 || (GT.creates == (unsigned)g_threads0 && GT.detaches == (unsigned)g_threads0), "first schedule: exactly `threads` workers started and detached");
  CANARY();
}

/* -------------------------------------------------------------- pool.worker */
void h_worker(void) {
  ldb_pool_t *p;
  reset_ghost(R_WORKER);
  p = mk_pool();
  init_window(job_stub);

  worker_thread(p);

  CHECK(!G.held && G.locks == G.unlocks, "worker: the mutex is released at exit, lock/unlock balanced");
  CHECK(G.exited && G.rel_stop == 1, "worker: leaves only after stop, having deregistered (--running) exactly once");
  CHECK(G.cur == 0 && G.execs == G.takes && G.nfrees == G.takes, "worker: every item it took was executed exactly once and freed exactly once");
  CHECK(G.mine == 0, "worker: every executed item was subtracted from left before it left");
  CANARY();
}

/* ---------------------------------------------------------------- pool.wait */
void h_wait(void) {
  ldb_pool_t *p;
  reset_ghost(R_WAIT);
  p = mk_pool();
  init_window(job_stub);

  ldb_pool_wait(p);

  CHECK(!G.held && G.locks == G.unlocks, "wait: returns with the mutex released, lock/unlock balanced");
  CHECK(G.rel_valid && G.rel_left == 0, "wait: returns only when left == 0 was seen under the mutex");
  CHECK(G.sig_worker + G.bc_worker + G.sig_master + G.bc_master == 0 && G.job_calls == 0, "wait: signals nothing, runs nothing");
  CANARY();
}

/* ------------------------------------------------------------- pool.destroy */
#define DESTROY_CHECKS() do { \
  CHECK(!G.held && G.locks == G.unlocks, "destroy: mutex released, lock/unlock balanced"); \
  CHECK(GA.frees == g_n && (g_n == 0 || GA.freed_k == 1), "destroy: every queued item is discarded: freed exactly once (ghost index)"); \
  CHECK(G.job_calls == 0 && G.job2_calls == 0, "destroy: discarded items are never executed"); \
  CHECK(G.rel_running == 0 && G.rel_stop == 1, "C20: destroy returns only after every worker has deregistered (running == 0 seen under the mutex)"); \
  CHECK(g_mutex_destroys == 1 && g_cw_destroys == 1 && g_cm_destroys == 1 && g_other_destroys == 0, "destroy: mutex and both condition variables destroyed exactly once"); \
  CHECK(g_pool_frees == 1 && G.pool_freed, "destroy: the pool is freed exactly once"); \
} while (0)
void h_destroy(void) {
  ldb_pool_t *p;
  reset_ghost(R_DESTROY);
  p = mk_pool();
  mk_array_list(1 << 30);

  ldb_pool_destroy(p);

  DESTROY_CHECKS();
  CANARY();
}

/* ------------------------------------------------------------------ bounded siblings
 * Same obligations without loop contracts (plain unwinding with unwinding assertions, at most 3 acquisitions of the
 * mutex / 3 queued items).  They do not depend on the loop structure of the functions, so they also decide mutants that
 * add or remove a loop (while -> if around ldb_cond_wait), which the loop-contract units can only report as
 * "extraction changed".  Never counted as proofs. */
void h_wait_b(void) {
  ldb_pool_t *p;
  reset_ghost(R_WAIT); __CPROVER_assume(G.fuel <= 2);
  p = mk_pool();
  init_window(job_stub);

  ldb_pool_wait(p);

  CHECK(!G.held && G.locks == G.unlocks, "wait: returns with the mutex released, lock/unlock balanced");
  CHECK(G.rel_valid && G.rel_left == 0, "wait: returns only when left == 0 was seen under the mutex");
  CHECK(G.sig_worker + G.bc_worker + G.sig_master + G.bc_master == 0 && G.job_calls == 0, "wait: signals nothing, runs nothing");
  CANARY();
}
void h_destroy_b(void) {
  ldb_pool_t *p; int i;
  reset_ghost(R_DESTROY); __CPROVER_assume(G.fuel <= 4);   /* 2 acquisitions by the two lock calls + up to 3 waits */
  p = mk_pool();
  mk_array_list(4);
  /* without loop contracts symex needs the links as assignments (a pointer read from memory that is only constrained by
     an assumption has no points-to set) */
  for (i = 0; i < g_n; i++) g_nodes[i].w.next = i + 1 < g_n ? &g_nodes[i + 1].w : NULL;

  ldb_pool_destroy(p);

  DESTROY_CHECKS();
  CANARY();
}
void h_worker_b(void) {
  ldb_pool_t *p;
  reset_ghost(R_WORKER); __CPROVER_assume(G.fuel <= 2);
  p = mk_pool();
  init_window(job_stub);

  worker_thread(p);

  CHECK(!G.held && G.locks == G.unlocks, "worker: the mutex is released at exit, lock/unlock balanced");
  CHECK(G.exited && G.rel_stop == 1, "worker: leaves only after stop, having deregistered (--running) exactly once");
  CHECK(G.cur == 0 && G.execs == G.takes && G.nfrees == G.takes, "worker: every item it took was executed exactly once and freed exactly once");
  CHECK(G.mine == 0, "worker: every executed item was subtracted from left before it left");
  CANARY();
}
/* ldb_queue_clear on 0..3 separately allocated nodes that are really freed */
void h_q_clear_b(void) {
  ldb_queue_t q; int n = nondet_int(), i; ldb_work_t *prev = NULL;
  reset_ghost(R_NONE); g_real_nodes = 1;
  __CPROVER_assume(n >= 0 && n <= 3);
  q.head = NULL; q.tail = NULL; q.length = n;
  for (i = 0; i < n; i++) {
    ldb_work_t *w = malloc(sizeof(ldb_work_t)); __CPROVER_assume(w != NULL);
    w->func = job_stub2; w->arg = nondet_ptr(); w->next = NULL;
    if (prev == NULL) q.head = w; else prev->next = w;
    prev = w; q.tail = w;
  }

  ldb_queue_clear(&q);

  CHECK(g_real_frees == (unsigned)n, "clear: exactly one free per queued node (double free / use after free are flagged by the memory model)");
  CHECK(q.head == NULL && q.tail == NULL && q.length == 0, "clear: the queue is empty afterwards");
  CHECK(G.job_calls == 0 && G.job2_calls == 0, "clear: discarded items are never executed");
  CANARY();
}
