/* units/edit.c - proof units for the decoder of src/version_edit.c (C17, C18, C05)
 *
 * The real version_edit.c is included unmodified.  What it calls outside the
 * file is modelled with ghost recording instead of copying:
 *   - ldb_buffer_slurp / ldb_ikey_copy record *where in the input* the name /
 *     key lies (a read-only view: data pointer into the input, alloc 0) instead
 *     of copying it, and check "inside the input" / "internal key >= 8 bytes";
 *   - ldb_vector_push / rb_set_put record the entry (level < 7 is checked
 *     there) and count;
 *   - init / clear of buffers, vectors and the rb-set only reset the fields.
 * The leaf decoders ldb_varint32_read and ldb_varint64_read are replaced by
 * their contracts (enforced in cod.* units); ldb_slice_slurp / ldb_slice_read /
 * ldb_zraw_read are the real code (src/util/slice.c included).
 */
#include "verif.h"
#include "contracts/coding.h"
#include "contracts/buf.h"
#include "contracts/edit.h"

#include "util/buffer.h"
#include "util/slice.h"
#include "util/vector.h"
#include "util/rbt.h"
#include "dbformat.h"
#include "version_edit.h"

/* ------------------------------------------------------------------ ghost */
ldb_edit_t *g_edit;          /* the edit being filled                        */
const uint8_t *g_src;        /* the input record                             */
size_t g_srcn;
/* what the three collections were handed (one object: a single assigns target) */
struct edit_ghost_s {
  size_t ncp, ndel, nnew;      /* number of entries handed over                 */
  ikey_entry_t *cp[2];         /* first and latest compact-pointer entry        */
  file_entry_t del[2];         /* first and latest deleted-file entry (by value: a duplicate is freed by the real code) */
  int del_ins[2];              /* whether rb_set_put reported "inserted"        */
  meta_entry_t *nw[2];         /* first and latest new-file entry               */
} g_rec;
#define g_ncp g_rec.ncp
#define g_ndel g_rec.ndel
#define g_nnew g_rec.nnew
#define g_cp g_rec.cp
#define g_del g_rec.del
#define g_del_ins g_rec.del_ins
#define g_new g_rec.nw
int g_exact_set;             /* 1: rb_set_put models a set over the recorded entries (bounded units) */

size_t nondet_size(void);
int nondet_int(void);

#define INSIDE_SRC(p, n) ((n) <= g_srcn && (const uint8_t *)(p) >= g_src && (const uint8_t *)(p) + (n) <= g_src + g_srcn)

/* ------------------------------------------------------------- environment */
void ldb_buffer_init(ldb_buffer_t *z) { z->data = NULL; z->size = 0; z->alloc = 0; }
void ldb_buffer_clear(ldb_buffer_t *z) { z->data = NULL; z->size = 0; z->alloc = 0; }

/* ldb_buffer_slurp = ldb_slice_slurp + copy (src/util/buffer.c); here the real ldb_slice_slurp decodes and
 * the payload is recorded as a view instead of being copied */
int ldb_buffer_slurp(ldb_buffer_t *z, ldb_slice_t *x) {
  ldb_slice_t t;
  __CPROVER_assert(z == &g_edit->comparator, "edit_import: only the comparator name is copied into a buffer");
  if (!ldb_slice_slurp(&t, x))
    return 0;
  z->data = t.data; z->size = t.size; z->alloc = 0;
  return 1;
}

void ldb_ikey_init(ldb_ikey_t *ikey) { ikey->data = NULL; ikey->size = 0; ikey->alloc = 0; }
void ldb_ikey_clear(ldb_ikey_t *ikey) { ikey->data = NULL; ikey->size = 0; ikey->alloc = 0; }
void ldb_ikey_copy(ldb_ikey_t *z, const ldb_ikey_t *x) {
  __CPROVER_assert(x->size >= 8, "edit_import: every internal key stored in an edit has at least 8 bytes (user key + sequence/type trailer)");
  __CPROVER_assert(INSIDE_SRC(x->data, x->size), "edit_import: decoded key lies inside the input record");
  z->data = x->data; z->size = x->size; z->alloc = 0;
}

void ldb_vector_init(ldb_vector_t *z) { z->items = NULL; z->length = 0; z->alloc = 0; }
void ldb_vector_clear(ldb_vector_t *z) { z->items = NULL; z->length = 0; z->alloc = 0; }
void ldb_vector_push(ldb_vector_t *z, const void *x) {
  if (z == &g_edit->compact_pointers) {
    ikey_entry_t *e = (ikey_entry_t *)x;
    __CPROVER_assert(e->level >= 0 && e->level < REF_NUM_LEVELS, "edit_import: compact-pointer level < 7");
    g_cp[g_ncp == 0 ? 0 : 1] = e;
    g_ncp++;
  } else {
    meta_entry_t *e = (meta_entry_t *)x;
    __CPROVER_assert(z == &g_edit->new_files, "edit_import: entries are pushed to the edit's own lists");
    __CPROVER_assert(e->level >= 0 && e->level < REF_NUM_LEVELS, "edit_import: new-file level < 7");
    g_new[g_nnew == 0 ? 0 : 1] = e;
    g_nnew++;
  }
  z->length++;
}

void ldb_rb_tree_init(rb_tree_t *tree, rb_cmp_f *compare, void *arg) { tree->root = NULL; tree->compare = compare; tree->arg = arg; tree->size = 0; }
void ldb_rb_tree_clear(rb_tree_t *tree, rb_clear_f *clear) { (void)clear; tree->root = NULL; tree->size = 0; }
int ldb_rb_set_put(rb_tree_t *tree, const void *item) {
  const file_entry_t *e = (const file_entry_t *)item;
  int ins;
  __CPROVER_assert(tree == &g_edit->deleted_files, "edit_import: deleted files go to the edit's own set");
  __CPROVER_assert(e->level >= 0 && e->level < REF_NUM_LEVELS, "edit_import: deleted-file level < 7");
  if (g_exact_set)
    ins = !(g_ndel >= 1 && g_del_ins[0] && g_del[0].level == e->level && g_del[0].number == e->number);
  else
    ins = nondet_int() ? 1 : 0;   /* duplicate or not: both outcomes */
  g_del[g_ndel == 0 ? 0 : 1] = *e;
  g_del_ins[g_ndel == 0 ? 0 : 1] = ins;
  g_ndel++;
  tree->size += (size_t)ins;
  return ins;
}

#include "util/slice.c"
#include "version_edit.c"

/* ------------------------------------------------------------- contracts */

/* Cursor-only carriers of the varint readers: what a decoder needs for memory
 * safety and termination (the value is left arbitrary, so every tag / level /
 * number is considered at every position).  No byte of the input is mentioned,
 * which keeps the unbounded unit small.  Enforced against the real functions in
 * edit.v32cur / edit.v64cur; the full value contracts are in contracts/coding.h. */
int c_varint32_read_cur(uint32_t *z, const uint8_t **xp, size_t *xn)
__CPROVER_requires(__CPROVER_w_ok(z, sizeof(*z)) && __CPROVER_rw_ok(xp, sizeof(*xp)) && __CPROVER_rw_ok(xn, sizeof(*xn)))
__CPROVER_requires(__CPROVER_r_ok(*xp, *xn))
__CPROVER_assigns(*z, *xp, *xn)
__CPROVER_ensures(__CPROVER_pointer_in_range_dfcc(__CPROVER_old(*xp), *xp, __CPROVER_old(*xp) + __CPROVER_old(*xn)))
__CPROVER_ensures(POST_VREAD_CURSOR(__CPROVER_return_value, *xp, *xn, __CPROVER_old(*xp), __CPROVER_old(*xn), 5))
__CPROVER_ensures(__CPROVER_return_value == 1 ==> *xn < __CPROVER_old(*xn))
;
int c_varint64_read_cur(uint64_t *z, const uint8_t **xp, size_t *xn)
__CPROVER_requires(__CPROVER_w_ok(z, sizeof(*z)) && __CPROVER_rw_ok(xp, sizeof(*xp)) && __CPROVER_rw_ok(xn, sizeof(*xn)))
__CPROVER_requires(__CPROVER_r_ok(*xp, *xn))
__CPROVER_assigns(*z, *xp, *xn)
__CPROVER_ensures(__CPROVER_pointer_in_range_dfcc(__CPROVER_old(*xp), *xp, __CPROVER_old(*xp) + __CPROVER_old(*xn)))
__CPROVER_ensures(POST_VREAD_CURSOR(__CPROVER_return_value, *xp, *xn, __CPROVER_old(*xp), __CPROVER_old(*xn), 10))
__CPROVER_ensures(__CPROVER_return_value == 1 ==> *xn < __CPROVER_old(*xn))
;
void h_v32cur(void) {
  IN_SIZE(in_n); IN_BUF(buf, in_n); SNAP_BUF(buf, in_n);
  uint32_t z = 7; const uint8_t *p = buf; size_t n = in_n;
  int r = ldb_varint32_read(&z, &p, &n);
  CHECK(POST_VREAD_CURSOR(r, p, n, buf, in_n, 5) && (r != 1 || n < in_n), "varint32_read: consumes 1..5 bytes on success, never past the end");
  CANARY();
}
void h_v64cur(void) {
  IN_SIZE(in_n); IN_BUF(buf, in_n); SNAP_BUF(buf, in_n);
  uint64_t z = 7; const uint8_t *p = buf; size_t n = in_n;
  int r = ldb_varint64_read(&z, &p, &n);
  CHECK(POST_VREAD_CURSOR(r, p, n, buf, in_n, 10) && (r != 1 || n < in_n), "varint64_read: consumes 1..10 bytes on success, never past the end");
  CANARY();
}

#define EDIT_EMPTY(e) ((e)->comparator.data == NULL && (e)->comparator.size == 0 && (e)->comparator.alloc == 0 && \
  (e)->log_number == 0 && (e)->prev_log_number == 0 && (e)->next_file_number == 0 && (e)->last_sequence == 0 && \
  (e)->has_comparator == 0 && (e)->has_log_number == 0 && (e)->has_prev_log_number == 0 && \
  (e)->has_next_file_number == 0 && (e)->has_last_sequence == 0 && \
  (e)->compact_pointers.length == 0 && (e)->deleted_files.size == 0 && (e)->new_files.length == 0)
#define IS01(x) ((x) == 0 || (x) == 1)
#define EDIT_FLAGS01(e) (IS01((e)->has_comparator) && IS01((e)->has_log_number) && IS01((e)->has_prev_log_number) && \
  IS01((e)->has_next_file_number) && IS01((e)->has_last_sequence))
/* a set flag means the field was decoded; an unset flag means the field still has its initial value */
#define EDIT_UNSET_ZERO(e) (((e)->has_comparator || (e)->comparator.size == 0) && ((e)->has_log_number || (e)->log_number == 0) && \
  ((e)->has_prev_log_number || (e)->prev_log_number == 0) && ((e)->has_next_file_number || (e)->next_file_number == 0) && \
  ((e)->has_last_sequence || (e)->last_sequence == 0))
#define EDIT_COUNTS(e) ((e)->compact_pointers.length == g_ncp && (e)->new_files.length == g_nnew && (e)->deleted_files.size <= g_ndel)
#define EDIT_NAME_INSIDE(e) (!(e)->has_comparator || INSIDE_SRC((e)->comparator.data, (e)->comparator.size))

/* The three list mutators allocate an entry; dfcc loop contracts do not admit
 * allocation inside the loop body, so in edit.import they are replaced by the
 * contracts below (enforced against the real functions, with the recording
 * stubs above, in edit.setcp / edit.rmfile / edit.addfile).  Their REQUIRES
 * clauses are the obligations on the decoder at each call site: level < 7,
 * internal keys >= 8 bytes, keys inside the input record.  (What is stored in
 * the entry is checked by the CHECKs of the three harnesses and, end to end,
 * by edit.import2; a pointer-valued ensures clause cannot be assumed after a
 * replaced call.) */
#define KEY_OK(k) (__CPROVER_r_ok(k, sizeof(*(k))) && (k)->size >= 8 && INSIDE_SRC((k)->data, (k)->size))

void c_edit_set_compact_pointer(ldb_edit_t *edit, int level, const ldb_ikey_t *key)
__CPROVER_requires(edit == g_edit && __CPROVER_rw_ok(edit, sizeof(*edit)))
__CPROVER_requires(level >= 0 && level < REF_NUM_LEVELS)
__CPROVER_requires(KEY_OK(key))
__CPROVER_assigns(edit->compact_pointers.length, g_rec)
__CPROVER_ensures(edit->compact_pointers.length == __CPROVER_old(edit->compact_pointers.length) + 1 && g_rec.ncp == __CPROVER_old(g_rec.ncp) + 1)
__CPROVER_ensures(g_rec.ndel == __CPROVER_old(g_rec.ndel) && g_rec.nnew == __CPROVER_old(g_rec.nnew))
;

void c_edit_remove_file(ldb_edit_t *edit, int level, uint64_t number)
__CPROVER_requires(edit == g_edit && __CPROVER_rw_ok(edit, sizeof(*edit)))
__CPROVER_requires(level >= 0 && level < REF_NUM_LEVELS)
__CPROVER_assigns(edit->deleted_files.size, g_rec)
__CPROVER_ensures(g_rec.ndel == __CPROVER_old(g_rec.ndel) + 1 && g_rec.ncp == __CPROVER_old(g_rec.ncp) && g_rec.nnew == __CPROVER_old(g_rec.nnew))
__CPROVER_ensures(edit->deleted_files.size == __CPROVER_old(edit->deleted_files.size) || edit->deleted_files.size == __CPROVER_old(edit->deleted_files.size) + 1)
__CPROVER_ensures(g_rec.del[__CPROVER_old(g_rec.ndel) == 0 ? 0 : 1].level == level && g_rec.del[__CPROVER_old(g_rec.ndel) == 0 ? 0 : 1].number == number)
;

void c_edit_add_file(ldb_edit_t *edit, int level, uint64_t number, uint64_t file_size, const ldb_ikey_t *smallest, const ldb_ikey_t *largest)
__CPROVER_requires(edit == g_edit && __CPROVER_rw_ok(edit, sizeof(*edit)))
__CPROVER_requires(level >= 0 && level < REF_NUM_LEVELS)
__CPROVER_requires(KEY_OK(smallest) && KEY_OK(largest))
__CPROVER_assigns(edit->new_files.length, g_rec)
__CPROVER_ensures(edit->new_files.length == __CPROVER_old(edit->new_files.length) + 1 && g_rec.nnew == __CPROVER_old(g_rec.nnew) + 1)
__CPROVER_ensures(g_rec.ndel == __CPROVER_old(g_rec.ndel) && g_rec.ncp == __CPROVER_old(g_rec.ncp))
;

/* harnesses of the three mutators: arbitrary counters, arbitrary level in range, keys inside an arbitrary input */
#define MUT_SETUP \
  IN_SIZE(in_n); IN_BUF(buf, in_n); SNAP_BUF(buf, in_n); ldb_edit_t edit; IN_INT(in_level); IN_SIZE(in_ncp); IN_SIZE(in_ndel); IN_SIZE(in_nnew); \
  g_edit = &edit; g_src = buf; g_srcn = in_n; g_exact_set = 0; ldb_edit_init(&edit); \
  ASSUME(in_ncp < 1000000 && in_ndel < 1000000 && in_nnew < 1000000); \
  g_ncp = in_ncp; g_ndel = in_ndel; g_nnew = in_nnew; edit.compact_pointers.length = in_ncp; edit.new_files.length = in_nnew; edit.deleted_files.size = in_ndel; \
  ASSUME(in_level >= 0 && in_level < REF_NUM_LEVELS)
#define MK_KEYVIEW(k, off, len) IN_SIZE(off); IN_SIZE(len); ldb_ikey_t k; ASSUME(len >= 8 && len <= in_n && off <= in_n - len); k.data = buf + off; k.size = len; k.alloc = 0

void h_edit_setcp(void) {
  MUT_SETUP; MK_KEYVIEW(key, in_off, in_len);
  ldb_edit_set_compact_pointer(&edit, in_level, &key);
  CHECK(g_ncp == in_ncp + 1 && g_cp[in_ncp == 0 ? 0 : 1]->level == in_level && g_cp[in_ncp == 0 ? 0 : 1]->key.data == key.data && g_cp[in_ncp == 0 ? 0 : 1]->key.size == in_len,
        "edit_set_compact_pointer: one entry (level, copy of the key) pushed to compact_pointers");
  CANARY();
}
void h_edit_rmfile(void) {
  MUT_SETUP; IN_U64(in_number);
  ldb_edit_remove_file(&edit, in_level, in_number);
  CHECK(g_ndel == in_ndel + 1 && g_del[in_ndel == 0 ? 0 : 1].level == in_level && g_del[in_ndel == 0 ? 0 : 1].number == in_number,
        "edit_remove_file: one entry (level, number) put into deleted_files");
  CANARY();
}
void h_edit_addfile(void) {
  MUT_SETUP; IN_U64(in_number); IN_U64(in_fsize); MK_KEYVIEW(sm, in_off1, in_len1); MK_KEYVIEW(lg, in_off2, in_len2);
  ldb_edit_add_file(&edit, in_level, in_number, in_fsize, &sm, &lg);
  CHECK(g_nnew == in_nnew + 1 && g_new[in_nnew == 0 ? 0 : 1]->level == in_level && g_new[in_nnew == 0 ? 0 : 1]->meta.number == in_number && g_new[in_nnew == 0 ? 0 : 1]->meta.file_size == in_fsize &&
        g_new[in_nnew == 0 ? 0 : 1]->meta.smallest.data == sm.data && g_new[in_nnew == 0 ? 0 : 1]->meta.largest.data == lg.data,
        "edit_add_file: one entry (level, number, size, smallest, largest) pushed to new_files");
  CANARY();
}

int c_edit_import(ldb_edit_t *edit, const ldb_slice_t *src)
__CPROVER_requires(__CPROVER_rw_ok(edit, sizeof(*edit)) && __CPROVER_r_ok(src, sizeof(*src)) && __CPROVER_r_ok(src->data, src->size) && src->size <= VERIF_OBJ_MAX)
/* the edit is freshly initialised (ldb_edit_init); releasing a used edit is ldb_edit_reset's business (unit edit.reset) */
__CPROVER_requires(EDIT_EMPTY(edit))
__CPROVER_requires(g_edit == edit && g_src == src->data && g_srcn == src->size && g_ncp == 0 && g_ndel == 0 && g_nnew == 0 && g_exact_set == 0)
__CPROVER_assigns(*edit, g_rec)
__CPROVER_ensures(__CPROVER_return_value == 0 || __CPROVER_return_value == 1)
__CPROVER_ensures(EDIT_FLAGS01(edit) && EDIT_UNSET_ZERO(edit) && EDIT_COUNTS(edit))
/* nothing decoded from an empty record */
__CPROVER_ensures(src->size == 0 ==> (__CPROVER_return_value == 1 && EDIT_EMPTY(edit)))
;

void h_edit_import(void) {
  IN_SIZE(in_n); IN_BUF(buf, in_n); SNAP_BUF(buf, in_n);
  ldb_edit_t edit; ldb_slice_t src; int r;
  src.data = buf; src.size = in_n; src.alloc = 0;
  g_edit = &edit; g_src = buf; g_srcn = in_n; g_ncp = 0; g_ndel = 0; g_nnew = 0; g_exact_set = 0;
  ASSUME(in_n <= VERIF_OBJ_MAX); /* no object exceeds the x86-64 user address space */
  ldb_edit_init(&edit);
  r = ldb_edit_import(&edit, &src);
  CHECK(r == 0 || r == 1, "edit_import: returns 0 or 1 on arbitrary bytes");
  CHECK(src.data == buf && src.size == in_n, "edit_import: the source slice is not modified");
  CANARY();
}

/* ------------------------------------------------------------------------
 * edit.import2 (bounded in the number of records, not in their length):
 * arbitrary bytes of arbitrary length holding at most two records.  The
 * decoded edit must equal what the reference decoder of contracts/edit.h
 * yields: every malformed / truncated / unknown-tag input is rejected, each
 * tag sets exactly its field, a later scalar overrides an earlier one, list
 * entries are appended in order, everything else keeps its initial value.
 * The real varint / slice readers run (no contracts replaced).
 */
#define SAME_VIEW(b, p, n) ((b).size == (n) && (b).data == (p))

static void ref_check_scalar(const ldb_edit_t *e, const ref_rec_t *A, const ref_rec_t *B, int nrec) {
  /* the record that decides a scalar field is the last one with its tag */
  const ref_rec_t *R;
#define LAST_WITH(t) ((nrec >= 2 && B->tag == (t)) ? B : (nrec >= 1 && A->tag == (t)) ? A : (const ref_rec_t *)0)
  R = LAST_WITH(1);
  CHECK(e->has_comparator == (R != 0), "edit_import: has_comparator set iff a tag-1 record was decoded");
  CHECK(R ? SAME_VIEW(e->comparator, R->k1, R->k1n) : (e->comparator.size == 0), "edit_import: comparator = the length-prefixed name of the last tag-1 record");
  R = LAST_WITH(2);
  CHECK(e->has_log_number == (R != 0) && e->log_number == (R ? R->num : 0), "edit_import: tag 2 sets exactly log_number (varint64 at that position)");
  R = LAST_WITH(9);
  CHECK(e->has_prev_log_number == (R != 0) && e->prev_log_number == (R ? R->num : 0), "edit_import: tag 9 sets exactly prev_log_number");
  R = LAST_WITH(3);
  CHECK(e->has_next_file_number == (R != 0) && e->next_file_number == (R ? R->num : 0), "edit_import: tag 3 sets exactly next_file_number");
  R = LAST_WITH(4);
  CHECK(e->has_last_sequence == (R != 0) && e->last_sequence == (R ? R->num : 0), "edit_import: tag 4 sets exactly last_sequence");
}

#define IMPORT_MAX 40
static void import_upto(int maxrec) {
  /* the input occupies the END of a fixed 40-byte object, so any read past the input's end is out of bounds */
  IN_SIZE(in_n); IN_BYTES(in_store, IMPORT_MAX); uint8_t *buf;
  ldb_edit_t edit; ldb_slice_t src; int r;
  ref_rec_t A, B; size_t la, lb = 0; int nrec, bad;
  size_t ecp, edel, enew;
  ASSUME(in_n <= IMPORT_MAX); buf = in_store + (IMPORT_MAX - in_n);
  src.data = buf; src.size = in_n; src.alloc = 0;
  g_edit = &edit; g_src = buf; g_srcn = in_n; g_ncp = 0; g_ndel = 0; g_nnew = 0; g_exact_set = 1;
  /* reference decoding of up to two records */
  nrec = 0; bad = 0;
  if (in_n > 0) {
    la = ref_record(&A, buf, in_n);
    if (la == 0) bad = 1;
    else {
      nrec = 1;
      if (maxrec == 1) ASSUME(la == in_n); /* bound of edit.import1: a single record */
      if (in_n - la > 0) {
        lb = ref_record(&B, buf + la, in_n - la);
        if (lb == 0) bad = 1;
        else { nrec = 2; ASSUME(la + lb == in_n); /* bound of this unit: at most two records */ }
      }
    }
  }
  ldb_edit_init(&edit);
  r = ldb_edit_import(&edit, &src);
  CHECK(r == (bad ? 0 : 1), "edit_import: returns 1 iff every record is well formed (known tag, complete fields, level < 7, keys >= 8 bytes)");
  if (r == 1) {
    ref_check_scalar(&edit, &A, &B, nrec);
    ecp = (nrec >= 1 && A.tag == 5) + (nrec >= 2 && B.tag == 5);
    edel = (nrec >= 1 && A.tag == 6) + (nrec >= 2 && B.tag == 6);
    enew = (nrec >= 1 && A.tag == 7) + (nrec >= 2 && B.tag == 7);
    CHECK(g_ncp == ecp && edit.compact_pointers.length == ecp, "edit_import: one compact pointer per tag-5 record");
    CHECK(g_ndel == edel, "edit_import: one deleted-file entry per tag-6 record");
    CHECK(g_nnew == enew && edit.new_files.length == enew, "edit_import: one new file per tag-7 record");
    if (ecp >= 1) {
      const ref_rec_t *R = (A.tag == 5) ? &A : &B;
      CHECK(g_cp[0]->level == (int)R->level && SAME_VIEW(g_cp[0]->key, R->k1, R->k1n), "edit_import: compact pointer = (level, length-prefixed key) of the record");
    }
    if (ecp == 2)
      CHECK(g_cp[1]->level == (int)B.level && SAME_VIEW(g_cp[1]->key, B.k1, B.k1n), "edit_import: second compact pointer appended after the first");
    if (edel >= 1) {
      const ref_rec_t *R = (A.tag == 6) ? &A : &B;
      CHECK(g_del[0].level == (int)R->level && g_del[0].number == R->num, "edit_import: deleted file = (level, varint64 number) of the record");
    }
    if (edel == 2)
      CHECK(g_del[1].level == (int)B.level && g_del[1].number == B.num, "edit_import: second deleted file handed to the set");
    if (enew >= 1) {
      const ref_rec_t *R = (A.tag == 7) ? &A : &B;
      CHECK(g_new[0]->level == (int)R->level && g_new[0]->meta.number == R->num && g_new[0]->meta.file_size == R->fsize &&
            SAME_VIEW(g_new[0]->meta.smallest, R->k1, R->k1n) && SAME_VIEW(g_new[0]->meta.largest, R->k2, R->k2n),
            "edit_import: new file = (level, number, size, smallest, largest) in this order");
      CHECK(g_new[0]->meta.refs == 0 && g_new[0]->meta.allowed_seeks == (1 << 30), "edit_import: new file metadata starts unreferenced with the default seek allowance");
    }
    if (enew == 2)
      CHECK(g_new[1]->level == (int)B.level && g_new[1]->meta.number == B.num && g_new[1]->meta.file_size == B.fsize &&
            SAME_VIEW(g_new[1]->meta.smallest, B.k1, B.k1n) && SAME_VIEW(g_new[1]->meta.largest, B.k2, B.k2n),
            "edit_import: second new file appended after the first");
  }
  CHECK(src.data == buf && src.size == in_n, "edit_import: the source slice is not modified");
}
void h_edit_import1(void) { import_upto(1); CANARY(); }
void h_edit_import2(void) { import_upto(2); CANARY(); }
