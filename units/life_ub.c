/* units/life_ub.c - ldb_backup_inner, ldb_backup, ldb_copy, ldb_destroy (src/db_impl.c), UNBOUNDED twin of units/life_backup.c   C20
 *   life.backup_inner.u : per-file-type action table, failure clean-up, destination locked, source never modified
 *   life.backup.u       : ldb_backup holds the DB mutex, waits for background work (W3), refuses after a background error
 *   life.copy.u         : ldb_copy requires CURRENT, takes the SOURCE lock around the copy, passes no live set
 *   life.destroy.u      : ldb_destroy takes the LOCK, unlinks only names that parse, LOCK file last
 *
 * The real db_impl.c is included unmodified.  Every directory listing (source, destination, lost/) has an ARBITRARY length
 * (int >= -1, -1 = the listing fails).  All loops are closed by loop contracts (loops/lifeub.json).  Per-entry facts are
 * proved for ONE arbitrary tracked entry of each listing (ghost-index method: b_sk / b_dk / b_qk with arbitrary parse
 * results, liveness and failure behaviour); every other entry parses to an arbitrary result at the moment it is examined.
 * Facts about EVERY call ("nothing is removed in the source", "only names that parse are unlinked", "nothing is copied after
 * a failure", orderings) are assertions inside the environment models, which run in an arbitrary loop iteration.
 * Names: entry i of a listing is the pointer base+i for the tracked entry, an arbitrary other pointer otherwise; paths are
 * identified by the buffer the ldb_join / ldb_*_filename call wrote them to and by the entry examined last.
 */
#include "verif.h"
int nondet_int(void);
uint64_t nondet_u64(void);
size_t nondet_size(void);

#include "db_impl.c"

enum { ACT_NONE = 0, ACT_COPY = 1, ACT_LINK = 2 };
enum { PH_NONE = 0, PH_SRC = 1, PH_DST = 2, PH_SUB = 3 };

/* ------------------------------------------------------------------ inputs */
int b_slen, b_dlen, b_sublen;                       /* listing lengths (-1: the listing fails)                              */
int b_sk, b_dk, b_qk;                               /* tracked entry of the source / destination / lost/ listing           */
int b_s_parses; ldb_filetype_t b_s_type; uint64_t b_s_num; int b_s_live;
int b_d_parses; ldb_filetype_t b_d_type;
int b_q_parses;
int b_current_exists, b_lost_current_exists;
int b_live_is_null;                                 /* ldb_copy: no live set                                                */
int b_mode_destroy;                                 /* 1: ldb_destroy (removals in the source are what it is for)           */
int b_is_copy;                                      /* 1: entered through ldb_copy (the source LOCK must be held throughout) */
int b_want_k;                                       /* what the action table says for the tracked source entry             */
unsigned long b_wakeups_left;                       /* fairness: the pending background call ends after finitely many wake-ups */
/* ------------------------------------------------------------------- trace */
int b_phase; int b_parse_calls;                     /* listing being walked; entries examined so far (= index of the next) */
int b_cur_idx, b_cur_parsed, b_cur_live; ldb_filetype_t b_cur_type; uint64_t b_cur_num; const char *b_cur_name;
int b_cur_join_src, b_cur_join_dst, b_cur_join_sub, b_cur_done;   /* paths built / action taken for the entry examined last */
unsigned b_mkdirs; int b_mkdir_ok;
unsigned b_dstlock_calls, b_srclock_calls, b_dst_unlocks, b_src_unlocks; int b_dst_locked, b_src_locked, b_dstlock_rc, b_srclock_rc;
unsigned b_slist_calls, b_dlist_calls, b_sublist_calls, b_free_children;
unsigned b_acts; int b_failed, b_fail_idx, b_fail_rc;
int b_act_k, b_act_rc_k, b_s_joinfail_src_k, b_s_joinfail_dst_k;
unsigned b_s_removed_k, b_d_removed_k, b_q_removed_k; int b_s_remove_rc_k, b_d_joinfail_k, b_q_joinfail_k;
unsigned b_src_removed_total, b_dst_removed_total, b_sub_removed_total, b_dstlock_removed, b_srclock_removed, b_other_removed;
unsigned b_syncdirs, b_rmdir_dst, b_rmdir_src, b_rmdir_sub; int b_syncdir_rc;
const char *b_dstlock_buf, *b_srclock_buf, *b_current_buf, *b_subdir_buf, *b_lostcurrent_buf, *b_srcpath_buf, *b_dstpath_buf, *b_subpath_buf;
unsigned b_waits, b_addfiles, b_set_inits, b_set_clears;

static char *g_src, *g_dst;                 /* directory names (identified by address) */
static char *g_sbase, *g_dbase, *g_subbase; /* tracked name of a listing = base + index */
static char **g_snames, **g_dnames, **g_subnames;
static ldb_filelock_t *g_dst_token, *g_src_token;
static ldb_t *g_db; static int g_held; static unsigned g_locks, g_unlocks; static int g_need_mutex;
static ldb_versions_t g_versions;

#define MUTEX_OK (!g_need_mutex || g_held)

/* ---------------------------------------------------------- thread model */
void ldb_mutex_lock(ldb_mutex_t *m) { __CPROVER_assert(m == &g_db->mutex && !g_held, "lock: DB mutex not held"); g_held = 1; g_locks++; }
void ldb_mutex_unlock(ldb_mutex_t *m) { __CPROVER_assert(m == &g_db->mutex && g_held, "unlock: DB mutex held"); g_held = 0; g_unlocks++; }
void ldb_cond_wait(ldb_cond_t *cv, ldb_mutex_t *m) {
  __CPROVER_assert(m == &g_db->mutex && g_held && cv == &g_db->background_work_finished_signal, "backup waits on the background signal with the mutex held");
  __CPROVER_assert(g_db->background_compaction_scheduled, "W3: backup waits only while a background call is pending (it broadcasts when it ends)");
  __CPROVER_assert(b_mkdirs == 0 && b_slist_calls == 0, "nothing is copied before background work has finished");
  g_held = 0; b_waits++;
  /* other threads run: the background call ends, possibly reschedules itself (more work) finitely often, possibly latches an error */
  if (b_wakeups_left == 0) g_db->background_compaction_scheduled = 0;
  else { b_wakeups_left--; g_db->background_compaction_scheduled = nondet_int() ? 1 : 0; }
  if (g_db->bg_error == LDB_OK && nondet_int()) g_db->bg_error = nondet_int();
  g_held = 1;
}

/* ------------------------------------------------------------ env models */
size_t strlen(const char *s) { return nondet_int() ? 2 : (size_t)LDB_PATH_MAX; }   /* short name, or one that is too long */
void ldb_log(ldb_logger_t *logger, const char *fmt, ...) { }
int ldb_system_error(void) { int e = nondet_int(); __CPROVER_assume(e != LDB_OK); return e; }
int ldb_lock_filename(char *buf, size_t size, const char *dir) {
  int ok = nondet_int() ? 1 : 0;
  buf[0] = 'L'; buf[1] = 0;
  if (dir == g_dst) b_dstlock_buf = buf; else { __CPROVER_assert(dir == g_src, "LOCK name of the source or of the destination"); b_srclock_buf = buf; }
  if (b_current_buf == buf) b_current_buf = NULL;       /* the path buffer is reused */
  return ok;
}
int ldb_current_filename(char *buf, size_t size, const char *dir) {
  int ok = nondet_int() ? 1 : 0;
  buf[0] = 'C'; buf[1] = 0;
  if (dir == g_src) b_current_buf = buf; else { __CPROVER_assert(dir == b_subdir_buf, "CURRENT of the database or of its lost/ directory"); b_lostcurrent_buf = buf; }
  return ok;
}
int ldb_file_exists(const char *filename) {
  if (filename == b_lostcurrent_buf) return b_lost_current_exists;
  __CPROVER_assert(filename == b_current_buf, "existence is asked of CURRENT");
  return b_current_exists;
}
int ldb_create_dir(const char *dirname) {
  int rc = nondet_int();
  __CPROVER_assert(!b_mode_destroy, "destroy creates nothing");
  __CPROVER_assert(dirname == g_dst && MUTEX_OK, "only the destination directory is created");
  b_mkdirs++; b_mkdir_ok = (rc == LDB_OK);
  return rc;
}
int ldb_lock_file(const char *filename, ldb_filelock_t **lock) {
  int rc = nondet_int();
  __CPROVER_assert(MUTEX_OK, "backup runs under the DB mutex");
  if (filename == b_dstlock_buf) {
    __CPROVER_assert(b_mkdir_ok && b_dstlock_calls == 0, "the destination is locked once, after its directory was created by this call (an existing directory is never used)");
    __CPROVER_assert(b_slist_calls == 0 && b_acts == 0, "the destination is locked before anything is read or copied");
    b_dstlock_calls++; b_dstlock_rc = rc;
    if (rc == LDB_OK) { b_dst_locked = 1; *lock = g_dst_token; }
    return rc;
  }
  __CPROVER_assert(filename == b_srclock_buf && b_srclock_calls == 0, "the LOCK of the source database");
  b_srclock_calls++; b_srclock_rc = rc;
  if (rc == LDB_OK) { b_src_locked = 1; *lock = g_src_token; }
  return rc;
}
int ldb_unlock_file(ldb_filelock_t *lock) {
  if (lock == g_dst_token) {
    __CPROVER_assert(b_dst_locked, "destination LOCK released once");
    __CPROVER_assert(!b_is_copy || b_src_locked, "copy: the source stays locked until copying and clean-up are over");
    b_dst_locked = 0; b_dst_unlocks++;
  } else {
    __CPROVER_assert(lock == g_src_token && b_src_locked, "source LOCK released once");
    __CPROVER_assert(!b_dst_locked, "copy: the source stays locked until copying and clean-up are over (destination already released)");
    b_src_locked = 0; b_src_unlocks++;
  }
  return nondet_int();
}
int ldb_get_children(const char *path, char ***out) {
  __CPROVER_assert(MUTEX_OK, "directories are listed under the DB mutex (ldb_backup)");
  b_parse_calls = 0; b_cur_idx = -1; b_cur_parsed = 0; b_cur_join_src = b_cur_join_dst = b_cur_join_sub = 0; b_cur_done = 0; b_cur_name = NULL;
  if (path == g_src) {
    __CPROVER_assert(b_slist_calls == 0, "the source is listed once");
    __CPROVER_assert(!b_is_copy || b_src_locked, "copy: the source is read with its LOCK held");
    b_slist_calls++; b_phase = PH_SRC;
    if (b_slen < 0) return -1;
    *out = g_snames; return b_slen;
  }
  if (path == b_subdir_buf && b_subdir_buf != NULL) {
    __CPROVER_assert(b_sublist_calls == 0, "lost/ is listed once");
    b_sublist_calls++; b_phase = PH_SUB;
    if (b_sublen < 0) return -1;
    *out = g_subnames; return b_sublen;
  }
  __CPROVER_assert(path == g_dst, "only the source and the destination are listed");
  __CPROVER_assert(b_dlist_calls == 0, "the destination is listed once (for clean-up)");
  b_dlist_calls++; b_phase = PH_DST;
  if (b_dlen < 0) return -1;
  *out = g_dnames; return b_dlen;
}
void ldb_free_children(char **list, int len) {
  __CPROVER_assert(len >= 0 && ((list == g_snames && len == b_slen) || (list == g_dnames && len == b_dlen) || (list == g_subnames && len == b_sublen)), "a listing that was obtained is released");
  b_free_children++;
}
int ldb_parse_filename(ldb_filetype_t *type, uint64_t *num, const char *name) {
  int idx = b_parse_calls++;
  int tracked = b_phase == PH_SRC ? b_sk : b_phase == PH_DST ? b_dk : b_qk;
  const char *tname = b_phase == PH_SRC ? g_sbase + b_sk : b_phase == PH_DST ? g_dbase + b_dk : g_subbase + b_qk;
  __CPROVER_assert(b_phase != PH_NONE, "names come from a listing");
  b_cur_idx = idx; b_cur_name = name; b_cur_join_src = b_cur_join_dst = b_cur_join_sub = 0; b_cur_done = 0; b_cur_live = 0;
  if (idx == tracked) {
    __CPROVER_assert(name == tname, "entries are examined once each, in directory order");
    b_cur_parsed = b_phase == PH_SRC ? b_s_parses : b_phase == PH_DST ? b_d_parses : b_q_parses;
    if (b_cur_parsed) {
      b_cur_type = b_phase == PH_SRC ? b_s_type : b_phase == PH_DST ? b_d_type : LDB_FILE_TABLE;
      b_cur_num = b_phase == PH_SRC ? b_s_num : nondet_u64();
      *type = b_cur_type; *num = b_cur_num;
    }
    return b_cur_parsed;
  }
  __CPROVER_assume(name != tname);   /* directory entries have distinct names */
  if (nondet_int()) {
    int t = nondet_int();
    __CPROVER_assume(t >= LDB_FILE_LOG && t <= LDB_FILE_INFO);
    b_cur_parsed = 1; b_cur_type = (ldb_filetype_t)t; b_cur_num = nondet_u64();
    *type = b_cur_type; *num = b_cur_num;
    return 1;
  }
  b_cur_parsed = 0;
  return 0;
}
int ldb_join(char *zp, size_t zn, const char *xp, const char *yp) {
  int ok = nondet_int() ? 1 : 0;
  if (b_phase == PH_NONE) {                            /* ldb_destroy: the lost/ sub-directory name, before anything is listed */
    __CPROVER_assert(b_mode_destroy && xp == g_src, "the lost/ directory of the database being destroyed");
    b_subdir_buf = zp; return ok;
  }
  __CPROVER_assert(yp == b_cur_name && b_cur_parsed && !b_cur_done, "a path is built from the directory entry just examined, which parsed as a database file");
  if (b_phase == PH_SUB) {
    __CPROVER_assert(xp == b_subdir_buf, "lost/ path is built from a lost/ entry");
    b_cur_join_sub = ok; b_subpath_buf = zp;
    if (!ok && b_cur_idx == b_qk) b_q_joinfail_k = 1;
    return ok;
  }
  if (b_phase == PH_DST) {
    __CPROVER_assert(xp == g_dst, "clean-up paths are built in the destination directory");
    b_cur_join_dst = ok; b_dstpath_buf = zp;
    if (!ok && b_cur_idx == b_dk) b_d_joinfail_k = 1;
    return ok;
  }
  if (xp == g_src) {
    b_cur_join_src = ok; b_srcpath_buf = zp;
    if (!ok && b_cur_idx == b_sk) b_s_joinfail_src_k = 1;
  } else {
    __CPROVER_assert(xp == g_dst, "paths are built in the source or in the destination directory only");
    b_cur_join_dst = ok; b_dstpath_buf = zp;
    if (!ok && b_cur_idx == b_sk) b_s_joinfail_dst_k = 1;
  }
  if (!ok && !b_mode_destroy && !b_failed) { b_failed = 1; b_fail_idx = b_cur_idx; b_fail_rc = LDB_INVALID; }
  return ok;
}
static int do_action(int kind, const char *from, const char *to) {
  int rc = nondet_int();
  __CPROVER_assert(MUTEX_OK, "files are copied under the DB mutex (ldb_backup)");
  __CPROVER_assert(b_phase == PH_SRC && b_cur_parsed && b_cur_join_src && b_cur_join_dst && from == b_srcpath_buf && to == b_dstpath_buf,
                   "a file is copied/linked from the source directory to the same name in the destination directory");
  __CPROVER_assert(b_dst_locked && !b_failed && b_dlist_calls == 0, "files are copied only with the destination locked, not after a failure, and never once clean-up has begun");
  __CPROVER_assert(!b_cur_done, "each source entry is handled at most once");
  __CPROVER_assert(!b_is_copy || b_src_locked, "copy: files are copied with the source LOCK held");
  __CPROVER_assert(kind == ACT_COPY ? (b_cur_type == LDB_FILE_LOG || b_cur_type == LDB_FILE_DESC || b_cur_type == LDB_FILE_CURRENT || (b_cur_type == LDB_FILE_INFO && b_live_is_null))
                                    : (b_cur_type == LDB_FILE_TABLE && (b_live_is_null || b_cur_live)),
                   "action table: only LOG / MANIFEST / CURRENT (info logs: ldb_copy only) are copied, only live tables (all tables for ldb_copy) are hard-linked");
  b_cur_done = 1; b_acts++;
  if (b_cur_idx == b_sk) { b_act_k = kind; b_act_rc_k = rc; }
  if (rc != LDB_OK) { b_failed = 1; b_fail_idx = b_cur_idx; b_fail_rc = rc; }
  return rc;
}
int ldb_copy_file(const char *from, const char *to) { return do_action(ACT_COPY, from, to); }
int ldb_link_file(const char *from, const char *to) { return do_action(ACT_LINK, from, to); }
int ldb_rb_set64_has(const rb_tree_t *tree, uint64_t item) {
  __CPROVER_assert(!b_live_is_null && b_phase == PH_SRC && b_cur_parsed && b_cur_type == LDB_FILE_TABLE && item == b_cur_num, "liveness is asked for the table being examined");
  b_cur_live = (b_cur_idx == b_sk) ? b_s_live : (nondet_int() ? 1 : 0);
  return b_cur_live;
}
int ldb_remove_file(const char *filename) {
  int rc = nondet_int();
  __CPROVER_assert(MUTEX_OK, "clean-up runs under the DB mutex (ldb_backup)");
  if (filename == b_dstlock_buf && b_dstlock_buf != NULL) {
    __CPROVER_assert(b_dst_unlocks == 1 && !b_dst_locked && b_dstlock_removed == 0, "the destination LOCK file is removed once, after the LOCK was released");
    b_dstlock_removed++; return rc;
  }
  if (filename == b_srclock_buf && b_srclock_buf != NULL) {
    __CPROVER_assert(b_mode_destroy, "backup/copy never removes anything in the SOURCE database");
    __CPROVER_assert(b_src_unlocks == 1 && !b_src_locked && b_srclock_removed == 0, "destroy: the LOCK file is removed last, after the LOCK was released");
    b_srclock_removed++; return rc;
  }
  if (b_phase == PH_DST && filename == b_dstpath_buf && b_cur_join_dst && !b_cur_done) {
    __CPROVER_assert(b_cur_parsed && b_cur_type != LDB_FILE_LOCK, "clean-up: only database files are removed from the destination; foreign names and LOCK are not touched in the loop");
    __CPROVER_assert(b_failed || b_slen < 0 || b_dstlock_rc != LDB_OK, "nothing that was created is removed unless the backup failed");
    __CPROVER_assert(b_dst_unlocks == 0 && b_dstlock_removed == 0, "clean-up happens with the destination still locked (if it ever was); unlock, then LOCK file removal");
    b_cur_done = 1; b_dst_removed_total++;
    if (b_cur_idx == b_dk) b_d_removed_k++;
    return rc;
  }
  if (b_phase == PH_SUB && filename == b_subpath_buf && b_cur_join_sub && !b_cur_done) {
    __CPROVER_assert(b_mode_destroy && b_cur_parsed && !b_lost_current_exists, "destroy: in lost/ only database file names are unlinked, and only if lost/ is not a database of its own");
    __CPROVER_assert(b_src_locked && b_srclock_removed == 0, "destroy: files are unlinked while the LOCK is held");
    b_cur_done = 1; b_sub_removed_total++;
    if (b_cur_idx == b_qk) b_q_removed_k++;
    return rc;
  }
  if (b_phase == PH_SRC && filename == b_srcpath_buf && b_cur_join_src && !b_cur_done) {
    __CPROVER_assert(b_mode_destroy, "backup/copy never removes anything in the SOURCE database");
    __CPROVER_assert(b_cur_parsed && b_cur_type != LDB_FILE_LOCK, "destroy: exactly the names that parse as database files are unlinked (foreign files are never touched; LOCK is not removed in the loop)");
    __CPROVER_assert(b_src_locked && b_srclock_removed == 0, "destroy: files are unlinked while the LOCK is held");
    b_cur_done = 1; b_src_removed_total++;
    if (b_cur_idx == b_sk) { b_s_removed_k++; b_s_remove_rc_k = rc; }
    return rc;
  }
  b_other_removed++;
  return rc;
}
int ldb_sync_dir(const char *dirname) { __CPROVER_assert(dirname == g_dst && !b_failed, "the destination directory is synced (only after a complete copy)"); b_syncdirs++; b_syncdir_rc = nondet_int(); return b_syncdir_rc; }
int ldb_remove_dir(const char *dirname) {
  if (dirname == g_dst) b_rmdir_dst++; else if (dirname == g_src) { __CPROVER_assert(b_mode_destroy, "backup/copy never removes anything in the SOURCE database"); b_rmdir_src++; }
  else { __CPROVER_assert(dirname == b_subdir_buf && b_mode_destroy, "only the destination, the destroyed database or its lost/ directory is removed"); b_rmdir_sub++; }
  return nondet_int();
}
void ldb_rb_tree_init(rb_tree_t *tree, rb_cmp_f *compare, void *arg) { b_set_inits++; }
void ldb_rb_tree_clear(rb_tree_t *tree, rb_clear_f *clear) { b_set_clears++; }
void ldb_versions_add_files(ldb_versions_t *vset, rb_set64_t *live) {
  __CPROVER_assert(g_held && vset == g_db->versions && b_set_inits == 1, "the live set is computed under the mutex");
  __CPROVER_assert(!g_db->background_compaction_scheduled, "the live set is computed after background work has finished (no version change can follow while the mutex is held)");
  __CPROVER_assert(b_slist_calls == 0 && b_mkdirs == 0, "the live set is taken before the directory is read, in the same critical section");
  b_addfiles++;
}

/* ------------------------------------------------------------------ setup */
/* what the property's action table says for the tracked source entry */
#define WANT_ACT_K(copy_mode) (!b_s_parses ? ACT_NONE : \
  (b_s_type == LDB_FILE_LOG || b_s_type == LDB_FILE_DESC || b_s_type == LDB_FILE_CURRENT) ? ACT_COPY : \
  b_s_type == LDB_FILE_TABLE ? (((copy_mode) || b_s_live) ? ACT_LINK : ACT_NONE) : \
  b_s_type == LDB_FILE_INFO ? ((copy_mode) ? ACT_COPY : ACT_NONE) : ACT_NONE)

static char **listing(int len, int k, char **base) {
  size_t nn = (size_t)(len > 0 ? len : 0) + 1;
  char **names = malloc(nn * sizeof(char *));
  *base = malloc(nn);
  __CPROVER_assume(names != NULL && *base != NULL);
  if (len > 0) names[k] = *base + k;      /* the tracked name; every other slot holds an arbitrary different pointer */
  return names;
}

static void backup_inputs(void) {
  g_src = malloc(4); g_dst = malloc(4);
  g_dst_token = malloc(1); g_src_token = malloc(1);
  __CPROVER_assume(g_src && g_dst && g_dst_token && g_src_token);
  __CPROVER_assume(b_slen >= -1 && b_dlen >= -1 && b_sublen >= -1);
  __CPROVER_assume(b_sk >= 0 && (b_slen <= 0 || b_sk < b_slen) && b_dk >= 0 && (b_dlen <= 0 || b_dk < b_dlen) && b_qk >= 0 && (b_sublen <= 0 || b_qk < b_sublen));
  g_snames = listing(b_slen, b_sk, &g_sbase); g_dnames = listing(b_dlen, b_dk, &g_dbase); g_subnames = listing(b_sublen, b_qk, &g_subbase);
  __CPROVER_assume((b_s_parses == 0 || b_s_parses == 1) && b_s_type >= LDB_FILE_LOG && b_s_type <= LDB_FILE_INFO && (b_s_live == 0 || b_s_live == 1));
  __CPROVER_assume((b_d_parses == 0 || b_d_parses == 1) && b_d_type >= LDB_FILE_LOG && b_d_type <= LDB_FILE_INFO && (b_q_parses == 0 || b_q_parses == 1));
  __CPROVER_assume((b_current_exists == 0 || b_current_exists == 1) && (b_lost_current_exists == 0 || b_lost_current_exists == 1));
  b_phase = PH_NONE; b_parse_calls = 0; b_cur_idx = -1; b_cur_parsed = 0; b_cur_live = 0; b_cur_name = NULL;
  b_cur_join_src = b_cur_join_dst = b_cur_join_sub = b_cur_done = 0;
  b_mkdirs = 0; b_mkdir_ok = 0; b_dstlock_calls = b_srclock_calls = b_dst_unlocks = b_src_unlocks = 0; b_dst_locked = b_src_locked = 0; b_dstlock_rc = b_srclock_rc = LDB_OK;
  b_slist_calls = b_dlist_calls = b_sublist_calls = b_free_children = 0;
  b_acts = 0; b_failed = 0; b_fail_idx = -1; b_fail_rc = LDB_OK;
  b_act_k = ACT_NONE; b_act_rc_k = LDB_OK; b_s_joinfail_src_k = b_s_joinfail_dst_k = 0;
  b_s_removed_k = b_d_removed_k = b_q_removed_k = 0; b_s_remove_rc_k = LDB_OK; b_d_joinfail_k = b_q_joinfail_k = 0;
  b_src_removed_total = b_dst_removed_total = b_sub_removed_total = b_dstlock_removed = b_srclock_removed = b_other_removed = 0;
  b_syncdirs = b_rmdir_dst = b_rmdir_src = b_rmdir_sub = 0; b_syncdir_rc = LDB_OK;
  b_dstlock_buf = b_srclock_buf = b_current_buf = b_subdir_buf = b_lostcurrent_buf = b_srcpath_buf = b_dstpath_buf = b_subpath_buf = NULL;
  b_waits = b_addfiles = b_set_inits = b_set_clears = 0;
  b_mode_destroy = 0; b_is_copy = 0; b_live_is_null = 0; b_want_k = ACT_NONE;
  g_need_mutex = 0; g_held = 0; g_locks = g_unlocks = 0;
}

/* obligations on the copy phase + clean-up, shared by the three harnesses (rc = result of ldb_backup_inner) */
static void check_inner(int rc, int copy_mode) {
  int anyfail;
  CHECK(b_other_removed == 0 && b_src_removed_total == 0 && b_s_removed_k == 0 && b_srclock_removed == 0 && b_rmdir_src == 0 && b_sub_removed_total == 0 && b_rmdir_sub == 0,
        "backup/copy never removes anything in the SOURCE database");
  CHECK(b_mkdirs <= 1 && b_dstlock_calls <= 1 && !b_dst_locked && b_dst_unlocks == (b_dstlock_calls && b_dstlock_rc == LDB_OK ? 1u : 0u), "the destination LOCK is released exactly when it was taken");
  if (b_mkdirs == 0 || !b_mkdir_ok) {
    CHECK(rc != LDB_OK && b_dstlock_calls == 0 && b_slist_calls == 0 && b_acts == 0 && b_dlist_calls == 0 && b_rmdir_dst == 0 && b_dstlock_removed == 0,
          "destination directory could not be created (e.g. it already exists): error, nothing read, nothing written, nothing removed");
    return;
  }
  CHECK(b_dstlock_calls == 1, "the destination is locked");
  if (b_dstlock_rc != LDB_OK) CHECK(rc != LDB_OK && b_slist_calls == 0 && b_acts == 0, "destination LOCK not obtained: error, source not read, nothing copied");
  /* action table, in directory order, stopping at the first failure: the arbitrary source entry b_sk */
  if (b_dstlock_rc == LDB_OK && b_sk < b_slen) {
    CHECK(b_want_k == WANT_ACT_K(copy_mode), "the tracked entry's row of the action table");
    if (b_failed && b_fail_idx < b_sk) CHECK(b_act_k == ACT_NONE, "nothing is copied after the first failure");
    else if (b_s_parses && (b_s_joinfail_src_k || b_s_joinfail_dst_k)) CHECK(b_act_k == ACT_NONE && rc == LDB_INVALID && b_failed && b_fail_idx == b_sk, "a path that cannot be formed fails the backup with INVALID");
    else {
      CHECK(b_act_k == b_want_k, "action table: LOG / MANIFEST / CURRENT are copied, live tables (all tables for ldb_copy) are hard-linked, info logs only by ldb_copy, TEMP / LOCK / dead tables / foreign names are skipped");
      if (b_act_k != ACT_NONE && b_act_rc_k != LDB_OK) CHECK(rc == b_act_rc_k && b_failed && b_fail_idx == b_sk, "a failed copy/link is reported with its status");
    }
  }
  if (b_failed) {
    CHECK(rc == b_fail_rc && rc != LDB_OK, "the first failure is reported with its status");
    CHECK(b_fail_idx >= 0 && b_fail_idx < b_slen && b_acts <= (unsigned)b_fail_idx + 1, "the first failure ends the copy: nothing is copied for later entries");
  }
  else if (b_dstlock_rc == LDB_OK && b_slen >= 0) CHECK(b_acts <= (unsigned)b_slen, "at most one copy/link per source entry");
  if (b_dstlock_rc == LDB_OK && b_slen < 0) CHECK(rc != LDB_OK && b_acts == 0, "unreadable source directory: error");
  anyfail = b_failed || b_dstlock_rc != LDB_OK || b_slen < 0;
  if (!anyfail) {
    CHECK(b_dlist_calls == 0 && b_dst_removed_total == 0 && b_d_removed_k == 0 && b_rmdir_dst == 0, "success: nothing that was created is removed");
    CHECK(b_dstlock_removed == 1 && b_syncdirs == 1 && rc == b_syncdir_rc, "success: destination unlocked, its LOCK file removed, directory synced; the result is the sync's status");
  } else {
    CHECK(rc != LDB_OK && b_syncdirs == 0, "failure is reported");
    CHECK(b_dlist_calls == 1 && b_rmdir_dst == 1, "failure: the destination is listed for clean-up and the directory removal is attempted");
    if (b_dk < b_dlen)
      CHECK(b_d_removed_k == ((b_d_parses && b_d_type != LDB_FILE_LOCK && !b_d_joinfail_k) ? 1u : 0u), "failure: every database file found in the destination (everything this call created) is removed; foreign names and LOCK are not touched in the loop");
    else CHECK(b_d_removed_k == 0 && (b_dlen > 0 || b_dst_removed_total == 0), "failure: nothing outside the destination listing is removed");
    CHECK(b_dstlock_removed == (b_dstlock_rc == LDB_OK ? 1u : 0u), "failure: the LOCK file is removed last, if the LOCK had been obtained");
  }
  CHECK(b_free_children == (b_slist_calls && b_slen >= 0 ? 1u : 0u) + (b_dlist_calls && b_dlen >= 0 ? 1u : 0u), "listings are released");
}

/* ---------------------------------------------------- life.backup_inner.u */
void h_backup_inner_u(void) {
  rb_set64_t *live = malloc(sizeof(rb_set64_t));
  int copy_mode = nondet_int() ? 1 : 0, rc;
  __CPROVER_assume(live != NULL);
  backup_inputs();
  b_live_is_null = copy_mode; b_want_k = WANT_ACT_K(copy_mode);
  rc = ldb_backup_inner(g_src, g_dst, copy_mode ? NULL : live);
  check_inner(rc, copy_mode);
  CANARY();
}

/* ---------------------------------------------------------- life.backup.u */
void h_backup_u(void) {
  ldb_t *db = malloc(sizeof(ldb_t));
  int rc;
  __CPROVER_assume(db != NULL);
  backup_inputs();
  g_db = db; db->versions = &g_versions; g_need_mutex = 1; b_live_is_null = 0; b_want_k = WANT_ACT_K(0);
  g_src = db->dbname;                                 /* the source is the handle's own directory */
  __CPROVER_assume(db->background_compaction_scheduled == 0 || db->background_compaction_scheduled == 1);
  __CPROVER_assume(b_wakeups_left < (1ul << 40));

  rc = ldb_backup(db, g_dst);

  CHECK(!g_held && g_locks == g_unlocks, "backup: the DB mutex is released at return, lock/unlock balanced");
  if (g_locks == 0) CHECK(rc == LDB_INVALID && b_mkdirs == 0, "over-long destination name: INVALID before anything happens");
  else {
    CHECK(!db->background_compaction_scheduled, "backup proceeds only when no background call is pending");
    if (db->bg_error != LDB_OK) CHECK(rc == db->bg_error && b_mkdirs == 0 && b_slist_calls == 0 && b_addfiles == 0, "after a background error the backup is refused with that error; nothing is created");
    else {
      CHECK(b_addfiles == 1 && b_set_inits == 1 && b_set_clears == 1, "the live set is computed once and released");
      if (b_mkdirs) check_inner(rc, 0);
    }
  }
  CHECK(b_srclock_calls == 0 && b_src_unlocks == 0, "backup of an open handle does not touch the source LOCK (the handle holds it)");
  CANARY();
}

/* ------------------------------------------------------------ life.copy.u */
void h_copy_u(void) {
  int rc;
  backup_inputs();
  b_live_is_null = 1; b_is_copy = 1; b_want_k = WANT_ACT_K(1);
  rc = ldb_copy(g_src, g_dst, NULL);
  CHECK(b_srclock_calls <= 1 && !b_src_locked && b_src_unlocks == (b_srclock_calls && b_srclock_rc == LDB_OK ? 1u : 0u), "copy: the source LOCK is released exactly when it was taken");
  CHECK(b_srclock_removed == 0, "copy: the source's LOCK file is left in place");
  if (b_srclock_calls == 0) CHECK(rc != LDB_OK && b_mkdirs == 0, "copy: without the source LOCK nothing happens");
  if (b_current_buf == NULL && b_srclock_buf == NULL) CHECK(rc == LDB_INVALID, "copy: unusable names: INVALID");
  if (b_srclock_calls && b_srclock_rc != LDB_OK) CHECK(rc == b_srclock_rc && b_mkdirs == 0 && b_slist_calls == 0, "copy: a source that is open (LOCK busy) is refused; nothing is created");
  if (b_srclock_calls) CHECK(b_current_exists, "copy: the source must be a database (CURRENT exists) before its LOCK is even created");
  if (b_mkdirs) {
    CHECK(b_srclock_rc == LDB_OK && b_srclock_calls == 1, "copy: the destination is created only with the source LOCK held");
    check_inner(rc, 1);
  }
  CANARY();
}

/* --------------------------------------------------------- life.destroy.u */
void h_destroy_u(void) {
  int rc;
  backup_inputs();
  b_mode_destroy = 1;
  rc = ldb_destroy(g_src, NULL);
  CHECK(b_mkdirs == 0 && b_acts == 0 && b_dstlock_calls == 0, "destroy creates nothing");
  CHECK(!b_src_locked && b_src_unlocks == (b_srclock_calls && b_srclock_rc == LDB_OK ? 1u : 0u), "destroy: the LOCK is released exactly when it was taken");
  CHECK(b_other_removed == 0 && b_dst_removed_total == 0, "destroy: nothing but entries of the database directory, of lost/ and the LOCK file is unlinked");
  if (b_slist_calls == 0) CHECK(rc == LDB_INVALID && b_srclock_calls == 0, "destroy: unusable names: INVALID, nothing touched");
  else if (b_slen < 0) CHECK(b_srclock_calls == 0 && b_srclock_removed == 0 && b_rmdir_src == 0 && b_src_removed_total == 0, "destroy: unreadable / missing directory: nothing is touched (missing directory counts as success)");
  else if (b_srclock_calls == 0 || b_srclock_rc != LDB_OK) {
    CHECK(rc != LDB_OK && rc == b_srclock_rc, "destroy: a database that is open (LOCK busy) is refused with the lock's status");
    CHECK(b_src_removed_total == 0 && b_s_removed_k == 0 && b_srclock_removed == 0 && b_rmdir_src == 0 && b_sub_removed_total == 0 && b_q_removed_k == 0 && b_rmdir_sub == 0,
          "destroy: without the LOCK nothing is unlinked");
  } else {
    if (b_sk < b_slen) {
      int want = b_s_parses && b_s_type != LDB_FILE_LOCK && !b_s_joinfail_src_k;
      CHECK(b_s_removed_k == (want ? 1u : 0u), "destroy: exactly the names that parse as database files are unlinked (foreign files are never touched; LOCK is not removed in the loop)");
      if (b_s_parses && b_s_type != LDB_FILE_LOCK) {
        if (b_s_joinfail_src_k) CHECK(rc != LDB_OK, "destroy: a path that cannot be formed is reported");
        else if (b_s_remove_rc_k != LDB_OK) CHECK(rc != LDB_OK, "destroy: a failed unlink is reported");
      }
    }
    CHECK(b_src_removed_total <= (unsigned)b_slen, "destroy: at most one unlink per directory entry");
    CHECK(b_srclock_removed == 1, "destroy: the LOCK file is removed last, after the LOCK was released");
    CHECK(b_rmdir_src == 1, "destroy: removal of the directory is attempted (failure ignored: it may hold foreign files)");
    /* lost/ (left by ldb_repair) is emptied only if it is not itself a database */
    if (b_sub_removed_total || b_q_removed_k) CHECK(!b_lost_current_exists && b_sublist_calls == 1 && b_sublen > 0 && b_sub_removed_total <= (unsigned)b_sublen, "destroy: in lost/ only database file names are unlinked, and only if lost/ is not a database of its own");
    if (b_sublist_calls && b_qk < b_sublen) CHECK(b_q_removed_k == ((b_q_parses && !b_q_joinfail_k) ? 1u : 0u), "destroy: when lost/ is emptied every database file name in it is unlinked, foreign names are not");
  }
  CHECK(b_free_children == (b_slist_calls && b_slen >= 0 ? 1u : 0u) + (b_sublist_calls && b_sublen >= 0 ? 1u : 0u), "listings are released");
  CANARY();
}
