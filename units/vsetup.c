/* units/vsetup.c - ldb_versions_setup_other_inputs (src/version_set.c): how compaction inputs are assembled
 * Properties: C14, C01 (K7: one user key never ends up newer-below-older), C06.
 *
 * The real version_set.c is included unmodified.  The set computations it calls
 * (add_boundary_inputs, get_overlapping_inputs, get_range, get_range2,
 * total_file_size) are used through call-protocol carriers (trusted.json; their
 * functional specs are ver.boundary.*, ver.inputs.*, ver2.inputs_l0): a ghost
 * records, for each of the four vectors in play, whether it is currently
 * BOUNDARY-CLOSED (add_boundary_inputs was applied after its last recomputation)
 * and what it was computed from.
 */
#include "verif.h"
int nondet_int(void);
size_t nondet_size(void);
long nondet_long(void);

#include "version_set.c"

/* roles of the vectors */
#define R_IN0 0
#define R_IN1 1
#define R_EX0 2
#define R_EX1 3
ldb_versions_t *g_vs; ldb_compaction_t *g_c; ldb_version_t *g_cur; int g_level;
int g_closed[4];          /* vector is closed under add_boundary_inputs w.r.t. its level                 */
int g_lvl[4];             /* the level whose files it was drawn from / closed against (-1 = unknown)      */
int g_from_range[4];      /* for overlap results: which range it was computed from (see RNG_*)            */
#define RNG_NONE 0
#define RNG_IN0 1         /* range(inputs[0])                          */
#define RNG_ALL 2         /* range(inputs[0] U inputs[1])               */
#define RNG_EX0 3         /* range(expanded0)                          */
int g_rng_src_closed;     /* the vector(s) a range was computed from were boundary-closed at that time     */
int g_cur_range;          /* what the local (smallest,largest) / (all_start,all_limit) currently denote   */
int g_small_tag, g_all_tag;   /* tags carried in the slices' size fields (see range models)                */
int g_grand_from; unsigned g_grand_calls;
int g_cp_tag, g_cp_level, g_cp_edit_tag, g_cp_edit_level;
unsigned g_swaps;

static int role_of(const ldb_vector_t *v) {
  if (v == &g_c->inputs[0]) return R_IN0;
  if (v == &g_c->inputs[1]) return R_IN1;
  return -1;
}

/* carriers ------------------------------------------------------------------------------------------ */
/* add_boundary_inputs(icmp, level_files, compaction_files): afterwards compaction_files is boundary-closed w.r.t. level_files */
void c_add_boundary_inputs(const ldb_comparator_t *icmp, const ldb_vector_t *level_files, ldb_vector_t *cfiles)
__CPROVER_requires(icmp == &g_vs->icmp)
__CPROVER_requires(level_files == &g_cur->files[g_level] || level_files == &g_cur->files[g_level + 1])
/* a vector is closed against the level it was drawn from */
__CPROVER_requires(cfiles == &g_c->inputs[0] ==> level_files == &g_cur->files[g_level])
__CPROVER_requires(cfiles == &g_c->inputs[1] ==> level_files == &g_cur->files[g_level + 1])
__CPROVER_assigns(cfiles == &g_c->inputs[0]: g_closed[0];
                  cfiles == &g_c->inputs[1]: g_closed[1];
                  cfiles != &g_c->inputs[0] && cfiles != &g_c->inputs[1] && level_files == &g_cur->files[g_level]: g_closed[2];
                  cfiles != &g_c->inputs[0] && cfiles != &g_c->inputs[1] && level_files == &g_cur->files[g_level + 1]: g_closed[3])
__CPROVER_ensures(cfiles == &g_c->inputs[0] ==> g_closed[0] == 1)
__CPROVER_ensures(cfiles == &g_c->inputs[1] ==> g_closed[1] == 1)
__CPROVER_ensures((cfiles != &g_c->inputs[0] && cfiles != &g_c->inputs[1] && level_files == &g_cur->files[g_level]) ==> g_closed[2] == 1)
__CPROVER_ensures((cfiles != &g_c->inputs[0] && cfiles != &g_c->inputs[1] && level_files == &g_cur->files[g_level + 1]) ==> g_closed[3] == 1)
;
/* ranges: the computed slices carry a tag (in .size) saying what they are the range of */
void c_get_range(ldb_versions_t *vset, const ldb_vector_t *inputs, ldb_slice_t *smallest, ldb_slice_t *largest)
__CPROVER_requires(vset == g_vs && __CPROVER_w_ok(smallest, sizeof(*smallest)) && __CPROVER_w_ok(largest, sizeof(*largest)))
/* K7: a range that decides which files of the NEXT level are pulled in must be taken from a boundary-closed set */
__CPROVER_requires(inputs == &g_c->inputs[0] ? g_closed[0] == 1 : g_closed[2] == 1)
__CPROVER_assigns(*smallest, *largest)
__CPROVER_ensures(smallest->size == (inputs == &g_c->inputs[0] ? RNG_IN0 : RNG_EX0) && largest->size == smallest->size)
;
void c_get_range2(ldb_versions_t *vset, const ldb_vector_t *inputs1, const ldb_vector_t *inputs2, ldb_slice_t *smallest, ldb_slice_t *largest)
__CPROVER_requires(vset == g_vs && inputs1 == &g_c->inputs[0] && inputs2 == &g_c->inputs[1] && g_closed[0] == 1 && g_closed[1] == 1)
__CPROVER_requires(__CPROVER_w_ok(smallest, sizeof(*smallest)) && __CPROVER_w_ok(largest, sizeof(*largest)))
__CPROVER_assigns(*smallest, *largest)
__CPROVER_ensures(smallest->size == RNG_ALL && largest->size == RNG_ALL)
;
/* overlap: result vector is recomputed (no longer closed) from (level, range tag) */
void c_get_overlapping_inputs(ldb_version_t *ver, int level, const ldb_ikey_t *begin, const ldb_ikey_t *end, ldb_vector_t *inputs)
__CPROVER_requires(ver == g_cur && begin != NULL && end != NULL && begin->size == end->size)
__CPROVER_requires(level == g_level || level == g_level + 1 || level == g_level + 2)
/* level+1 files are selected by range(inputs[0]) or range(expanded0); level files by the total range; grandparents by the total range */
__CPROVER_requires(level == g_level + 1 ==> (begin->size == RNG_IN0 || begin->size == RNG_EX0))
__CPROVER_requires((level == g_level || level == g_level + 2) ==> begin->size == RNG_ALL)
__CPROVER_requires(level == g_level + 2 ==> inputs == &g_c->grandparents)
__CPROVER_requires(level == g_level + 1 && begin->size == RNG_IN0 ==> inputs == &g_c->inputs[1])
__CPROVER_assigns(inputs == &g_c->inputs[1]: g_closed[1], g_from_range[1];
                  inputs != &g_c->inputs[1] && level == g_level: g_closed[2], g_from_range[2];
                  inputs != &g_c->inputs[1] && level == g_level + 1: g_closed[3], g_from_range[3];
                  level == g_level + 2: g_grand_from, g_grand_calls)
__CPROVER_ensures(inputs == &g_c->inputs[1] ==> (g_closed[1] == 0 && g_from_range[1] == (int)begin->size))
__CPROVER_ensures((inputs != &g_c->inputs[1] && level == g_level) ==> (g_closed[2] == 0 && g_from_range[2] == (int)begin->size))
__CPROVER_ensures((inputs != &g_c->inputs[1] && level == g_level + 1) ==> (g_closed[3] == 0 && g_from_range[3] == (int)begin->size))
__CPROVER_ensures(level == g_level + 2 ==> (g_grand_from == (int)begin->size && g_grand_calls == __CPROVER_old(g_grand_calls) + 1))
;
int64_t c_total_file_size(const ldb_vector_t *files)
__CPROVER_requires(1) __CPROVER_assigns() __CPROVER_ensures(__CPROVER_return_value >= 0 && __CPROVER_return_value < ((int64_t)1 << 50))
;

/* plain models (other translation units) */
void ldb_vector_init(ldb_vector_t *z) { z->items = NULL; z->length = nondet_size(); z->alloc = 0; }
void ldb_vector_clear(ldb_vector_t *z) { }
void ldb_log(ldb_logger_t *logger, const char *fmt, ...) { }
void ldb_vector_swap(ldb_vector_t *x, ldb_vector_t *y) {
  /* inputs[0] <-> expanded0, inputs[1] <-> expanded1: the ghost attributes travel with the contents */
  int rx = role_of(x), t;
  size_t l;
  __CPROVER_assert(rx == R_IN0 || rx == R_IN1, "swap replaces one of the compaction's input sets");
  t = g_closed[rx]; g_closed[rx] = g_closed[rx + 2]; g_closed[rx + 2] = t;
  t = g_from_range[rx]; g_from_range[rx] = g_from_range[rx + 2]; g_from_range[rx + 2] = t;
  l = x->length; x->length = y->length; y->length = l;
  g_swaps++;
}
void ldb_buffer_copy(ldb_buffer_t *z, const ldb_buffer_t *x) { __CPROVER_assert(z == &g_vs->compact_pointer[g_level], "compact pointer of the compaction's level"); g_cp_tag = (int)x->size; g_cp_level = g_level; }
void ldb_edit_set_compact_pointer(ldb_edit_t *edit, int level, const ldb_ikey_t *key) { __CPROVER_assert(edit == &g_c->edit, "compact pointer recorded in the compaction's edit"); g_cp_edit_tag = (int)key->size; g_cp_edit_level = level; }

static ldb_dbopt_t g_opts;

void h_setup(void) {
  ldb_versions_t *vs = malloc(sizeof(*vs));
  ldb_compaction_t *c = malloc(sizeof(*c));
  ldb_version_t *cur = malloc(sizeof(*cur));
  int expanded;
  __CPROVER_assume(vs != NULL && c != NULL && cur != NULL);
  g_vs = vs; g_c = c; g_cur = cur; vs->current = cur; vs->options = &g_opts;
  __CPROVER_assume(c->level >= 0 && c->level < LDB_NUM_LEVELS - 1);
  g_level = c->level;
  __CPROVER_assume(g_opts.max_file_size > 0 && g_opts.max_file_size < ((size_t)1 << 40));
  /* inputs[0] as handed over by pick_compaction / compact_range: NOT yet boundary-closed */
  g_closed[0] = 0; g_closed[1] = 0; g_closed[2] = 0; g_closed[3] = 0;
  g_from_range[0] = g_from_range[1] = g_from_range[2] = g_from_range[3] = RNG_NONE;
  g_grand_calls = 0; g_grand_from = RNG_NONE; g_swaps = 0; g_cp_tag = g_cp_edit_tag = -1;
  __CPROVER_assume(c->inputs[0].length >= 1 && c->inputs[0].length < 1000 && c->inputs[1].length < 1000);

  ldb_versions_setup_other_inputs(vs, c);

  expanded = g_swaps > 0;
  CHECK(g_swaps == 0 || g_swaps == 2, "inputs are replaced by the expanded sets together or not at all");
  CHECK(g_closed[0] == 1, "K7: inputs[0] is closed under add_boundary_inputs (no file of the level that continues the last user key at an older sequence is left behind)");
  CHECK(g_closed[1] == 1, "K7: inputs[1] is closed under add_boundary_inputs");
  CHECK(g_from_range[1] == (expanded ? RNG_EX0 : RNG_IN0), "inputs[1] = the level+1 files overlapping the range of the (boundary-closed) inputs[0] actually used");
  CHECK(g_level + 2 >= LDB_NUM_LEVELS || (g_grand_calls == 1 && g_grand_from == RNG_ALL), "grandparents = level+2 files overlapping the total range of the final inputs");
  CHECK(g_cp_tag == (expanded ? RNG_EX0 : RNG_IN0) && g_cp_edit_tag == g_cp_tag && g_cp_edit_level == g_level, "the compact pointer (in memory and in the edit) is the largest key of the final inputs[0]");
  CANARY();
}
