/* units/rep_run.c - repair_run (src/repair.c): order of the four repair phases
 *   rep.run : C19: find_files -> convert_logs_to_tables -> extract_meta_data -> write_descriptor, each exactly once and
 *             only after find_files succeeded; the descriptor is written LAST (after every log was converted and every
 *             table scanned); the result is find_files' error or write_descriptor's status.
 * The four phases are used through call-order carriers (ghost phase counter only); their functional specs are
 * rep.find, rep.log, rep.scan/rep.rebuild and rep.desc.  BOUNDED only in the final statistics loop (<= 2 tables).
 */
#include "verif.h"
int nondet_int(void);
uint64_t nondet_u64(void);
size_t nondet_size(void);

#include "repair.c"
#include "contracts/rep.h"

int g_phase;                 /* 0 start, 1 files found, 2 logs converted, 3 metadata extracted, 4 descriptor written */
int g_find_rc, g_desc_rc; unsigned g_find_calls, g_logs_calls, g_meta_calls, g_desc_calls;

int c_run_find_files(ldb_repair_t *rep)
__CPROVER_requires(rep == g_rep && g_phase == 0)
__CPROVER_assigns(g_phase, g_find_rc, g_find_calls)
__CPROVER_ensures(g_find_calls == __CPROVER_old(g_find_calls) + 1 && __CPROVER_return_value == g_find_rc && g_phase == (g_find_rc == LDB_OK ? 1 : 0))
;
void c_run_convert_logs(ldb_repair_t *rep)
__CPROVER_requires(rep == g_rep && g_phase == 1)     /* only after the directory was classified */
__CPROVER_assigns(g_phase, g_logs_calls)
__CPROVER_ensures(g_logs_calls == __CPROVER_old(g_logs_calls) + 1 && g_phase == 2)
;
void c_run_extract_meta(ldb_repair_t *rep)
__CPROVER_requires(rep == g_rep && g_phase == 2)     /* only after the logs became tables: their tables must be scanned too */
__CPROVER_assigns(g_phase, g_meta_calls)
__CPROVER_ensures(g_meta_calls == __CPROVER_old(g_meta_calls) + 1 && g_phase == 3)
;
int c_run_write_descriptor(ldb_repair_t *rep)
__CPROVER_requires(rep == g_rep && g_phase == 3)     /* only after every table was scanned (bounds, max_sequence, allocator final) */
__CPROVER_assigns(g_phase, g_desc_rc, g_desc_calls)
__CPROVER_ensures(g_desc_calls == __CPROVER_old(g_desc_calls) + 1 && __CPROVER_return_value == g_desc_rc && g_phase == 4)
;
void ldb_log(ldb_logger_t *logger, const char *fmt, ...) { }

static ldb_tabinfo_t g_tab[2]; static void *g_items[2];
void h_run(void) {
  IN_SIZE(in_ntables);
  ldb_repair_t *rep = malloc(sizeof(*rep));
  int rc;
  __CPROVER_assume(rep != NULL && in_ntables <= 2);
  g_rep = rep; g_pin_buf = NULL;
  g_items[0] = &g_tab[0]; g_items[1] = &g_tab[1];
  rep->tables.items = g_items; rep->tables.length = in_ntables; rep->tables.alloc = 2;
  g_phase = 0; g_find_calls = g_logs_calls = g_meta_calls = g_desc_calls = 0;
  rc = repair_run(rep);
  CHECK(g_find_calls == 1, "run: the directory is classified exactly once, first");
  if (g_find_rc != LDB_OK) CHECK(rc == g_find_rc && g_logs_calls == 0 && g_meta_calls == 0 && g_desc_calls == 0, "run: find_files fails => its error, nothing is converted, scanned or written");
  else CHECK(g_logs_calls == 1 && g_meta_calls == 1 && g_desc_calls == 1 && g_phase == 4 && rc == g_desc_rc, "run: logs converted, then tables scanned, then the descriptor written, each once; the descriptor's status is the result");
  CANARY();
}
