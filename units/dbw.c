/* units/dbw.c - proof unit for ldb_write / ldb_build_batch_group (src/db_impl.c)
 * Properties: C02, C03, C04, C09 (wake-up discipline), C12.
 *
 * The real db_impl.c is included unmodified.  Environment:
 *  - thread primitives follow the lock-invariant method (DESIGN 3.5): unlock and
 *    cond_wait assert the monitor invariant, cond_wait then lets the *other
 *    threads* act (the previous leader completes us, or leaves us at the head,
 *    or nothing happens), lock assumes nothing beyond the invariant;
 *  - log writer / log file / write-batch functions are models with ghost state;
 *    every I/O call can fail;
 *  - ldb_make_room_for_write is used through its contract.
 */
#include "verif.h"
#include <stddef.h>

int nondet_int(void);
uint64_t nondet_u64(void);
size_t nondet_size(void);

#include "db_impl.c"

/* ------------------------------------------------------------------ ghost */
ldb_t *g_db;
ldb_waiter_t *g_me;            /* the waiter of the call under test (set by ldb_cond_init)        */
ldb_waiter_t g_a1, g_f1, g_f2; /* a writer queued ahead; two writers that queue up behind us       */
int g_nf;                      /* how many writers queue up behind us while we wait (0..2)          */
int g_held;                    /* DB mutex held by this thread                                       */
unsigned g_locks, g_unlocks;
uint64_t g_hwm;                /* highest sequence number whose entry has been inserted in mem       */
int g_waits;                   /* cond_wait calls on our own cv                                      */
int g_room_waits;              /* waits for background work inside make_room                         */
/* signals */
int g_sig_a1, g_sig_f1, g_sig_f2, g_sig_me, g_sig_other;
/* log / batch model */
int g_log_appends, g_log_failed, g_log_rc, g_syncs, g_synced, g_sync_failed, g_inserts, g_insert_rc;
const void *g_log_data; size_t g_log_size;
ldb_batch_t *g_ins_batch;
uint64_t g_ins_seq; uint32_t g_ins_count; size_t g_ins_size;
int g_bgerr_calls;
/* abstract batches: count, size, sequence; the order in which sources were appended to tmp_batch */
ldb_batch_t g_bme, g_bf1, g_bf2, g_btmp;
uint32_t g_cnt_me, g_cnt_f1, g_cnt_f2, g_cnt_tmp;
size_t g_sz_me, g_sz_f1, g_sz_f2, g_sz_tmp;
uint64_t g_seq_me, g_seq_tmp; int g_seqset_me, g_seqset_tmp;
int g_napp; const ldb_batch_t *g_app_src[4];
int g_tmp_resets;
int g_seq_assigned; uint64_t g_first_seq;
uint64_t g_pub_at_setseq;       /* last published sequence at the moment the group's sequence was assigned */

static uint32_t *cnt_of(const ldb_batch_t *b) { return b == &g_bme ? &g_cnt_me : b == &g_bf1 ? &g_cnt_f1 : b == &g_bf2 ? &g_cnt_f2 : &g_cnt_tmp; }
static size_t *sz_of(const ldb_batch_t *b) { return b == &g_bme ? &g_sz_me : b == &g_bf1 ? &g_sz_f1 : b == &g_bf2 ? &g_sz_f2 : &g_sz_tmp; }
#define KNOWN_BATCH(b) ((b) == &g_bme || (b) == &g_bf1 || (b) == &g_bf2 || (b) == &g_btmp)

/* ---------------------------------------------------- write batch (model) */
size_t ldb_batch_size(const ldb_batch_t *b) { __CPROVER_assert(KNOWN_BATCH(b), "batch_size on a batch of this call"); return *sz_of(b); }
int ldb_batch_count(const ldb_batch_t *b) { __CPROVER_assert(KNOWN_BATCH(b), "batch_count on a batch of this call"); return (int)*cnt_of(b); }
void ldb_batch_append(ldb_batch_t *dst, const ldb_batch_t *src) {
  __CPROVER_assert(dst == &g_btmp, "group commit: only the DB's scratch batch is appended to, never a caller's batch");
  __CPROVER_assert(src == &g_bme || src == &g_bf1 || src == &g_bf2, "group commit: appended batch belongs to a queued writer");
  __CPROVER_assert(g_napp < 3, "group commit: each member batch is appended at most once");
  g_app_src[g_napp++] = src;
  g_cnt_tmp += *cnt_of(src);
  g_sz_tmp += *sz_of(src) - 12;
}
void ldb_batch_set_sequence(ldb_batch_t *b, ldb_seqnum_t seq) {
  __CPROVER_assert(g_held, "the group's sequence is assigned under the mutex");
  g_pub_at_setseq = g_db->versions->last_sequence; g_seq_assigned = 1; g_first_seq = seq;
  if (b == &g_btmp) { g_seq_tmp = seq; g_seqset_tmp = 1; } else { __CPROVER_assert(b == &g_bme, "sequence is set on the group batch"); g_seq_me = seq; g_seqset_me = 1; }
}
ldb_slice_t ldb_batch_contents(const ldb_batch_t *b) { ldb_slice_t s; s.data = (uint8_t *)b; s.size = *sz_of(b); s.alloc = 0; return s; }
void ldb_batch_reset(ldb_batch_t *b) { __CPROVER_assert(b == &g_btmp, "only the scratch batch is reset"); g_cnt_tmp = 0; g_sz_tmp = 12; g_tmp_resets++; }

int ldb_batch_insert_into(const ldb_batch_t *b, ldb_memtable_t *table) {
  __CPROVER_assert(!g_held, "memtable insert runs outside the mutex (only the leader writes)");
  __CPROVER_assert(g_log_appends == 1 && !g_log_failed, "memtable insert only after the batch was appended to the log successfully");
  __CPROVER_assert(!g_sync_failed, "memtable insert never after a failed log sync");
  __CPROVER_assert(table == g_db->mem, "insert goes to the current memtable");
  g_inserts++; g_ins_batch = (ldb_batch_t *)b;
  g_ins_seq = (b == &g_btmp) ? g_seq_tmp : g_seq_me;
  g_ins_count = *cnt_of(b); g_ins_size = *sz_of(b);
  g_insert_rc = nondet_int();
  if (g_insert_rc == LDB_OK) {
    /* the entries now exist with sequences seq .. seq+count-1 */
    if (g_ins_count > 0 && g_ins_seq + g_ins_count - 1 > g_hwm) g_hwm = g_ins_seq + g_ins_count - 1;
  }
  return g_insert_rc;
}

/* ------------------------------------------------------- log writer (model) */
struct ldb_wfile_s { int dummy; };
ldb_wfile_t g_logfile; ldb_writer_t g_logw;

int ldb_writer_add_record(ldb_writer_t *lw, const ldb_slice_t *slice) {
  __CPROVER_assert(lw == g_db->log, "the record goes to the DB's current log");
  __CPROVER_assert(g_log_appends == 0, "one log record per write group");
  __CPROVER_assert(g_me != NULL && g_db->writers.head == g_me, "only the head of the writer queue logs");
  g_log_appends++; g_log_data = slice->data; g_log_size = slice->size;
  g_log_rc = nondet_int();
  if (g_log_rc != LDB_OK) g_log_failed = 1;
  return g_log_rc;
}
int ldb_wfile_sync(ldb_wfile_t *file) {
  int rc = nondet_int();
  __CPROVER_assert(file == g_db->logfile, "sync goes to the DB's current log file");
  __CPROVER_assert(g_log_appends == 1 && !g_log_failed, "log sync comes after the successful append of this group");
  __CPROVER_assert(g_inserts == 0, "log sync comes before the memtable insert");
  g_syncs++;
  if (rc != LDB_OK) g_sync_failed = 1; else g_synced = 1;
  return rc;
}

/* --------------------------------------------------- thread model (3.5) */
#define WAITER_OF(cv) ((ldb_waiter_t *)((char *)(cv) - offsetof(ldb_waiter_t, cv)))
/* monitor invariant, checked whenever this thread lets go of the mutex */
static void monitor_invariant(const char *where) {
  __CPROVER_assert(!(g_seq_assigned && g_inserts == 0 && !g_log_failed && !g_sync_failed) || g_db->versions->last_sequence < g_first_seq,
                   "I_db(a): the group's sequence numbers are not published before its entries are in the memtable (checked whenever the mutex is released)");
  __CPROVER_assert(g_db->writers.length >= 0 && ((g_db->writers.head == NULL) == (g_db->writers.length == 0)), "writer queue: head is NULL iff the queue is empty (checked when the mutex is released)");
}
void ldb_mutex_lock(ldb_mutex_t *m) { __CPROVER_assert(m == &g_db->mutex && !g_held, "lock: DB mutex, not already held"); g_held = 1; g_locks++; }
void ldb_mutex_unlock(ldb_mutex_t *m) { __CPROVER_assert(m == &g_db->mutex && g_held, "unlock: DB mutex held"); monitor_invariant("unlock"); g_held = 0; g_unlocks++; }
/* ldb_waiter_init(&w): remember our waiter.  The writers that will queue up behind us while we wait for
   room are linked behind it here already; they become visible in tail/length when make_room returns. */
void ldb_cond_init(ldb_cond_t *cv) {
  g_me = WAITER_OF(cv);
  if (g_nf >= 1) { g_me->next = &g_f1; g_f1.next = (g_nf >= 2) ? &g_f2 : NULL; g_f2.next = NULL; }
}
/* ldb_waiter_clear(&w) is the last thing ldb_write does with its waiter: snapshot it for the postconditions */
int g_me_done, g_me_status; ldb_waiter_t *g_me_addr;
void ldb_cond_destroy(ldb_cond_t *cv) { ldb_waiter_t *w = WAITER_OF(cv); __CPROVER_assert(w == g_me, "destroys its own waiter"); g_me_done = w->done; g_me_status = w->status; g_me_addr = w; }
void ldb_cond_signal(ldb_cond_t *cv) {
  ldb_waiter_t *w = WAITER_OF(cv);
  __CPROVER_assert(g_held, "signal under the mutex");
  if (w == &g_a1) g_sig_a1++; else if (w == &g_f1) g_sig_f1++; else if (w == &g_f2) g_sig_f2++; else if (w == g_me) g_sig_me++; else g_sig_other++;
}
void ldb_cond_broadcast(ldb_cond_t *cv) { }
static void wait_for_background(void);
void ldb_cond_wait(ldb_cond_t *cv, ldb_mutex_t *m) {
  int what;
  __CPROVER_assert(m == &g_db->mutex && g_held, "wait: DB mutex held");
  if (cv == &g_db->background_work_finished_signal) { wait_for_background(); return; }
  __CPROVER_assert(WAITER_OF(cv) == g_me, "a writer waits on its own condition variable");
  __CPROVER_assert(!g_me->done && g_db->writers.head != g_me, "a writer blocks only while it is neither completed nor at the head of the queue");
  monitor_invariant("wait");
  g_held = 0;
  g_waits++;
  /* ---- other threads run: the leader ahead of us (g_a1) finishes its group ---- */
  what = nondet_int();
  if (g_waits >= 3) __CPROVER_assume(what != 0);   /* fairness: no more than two spurious wake-ups */
  if (what != 0) {
    uint64_t adv = nondet_u64();
    __CPROVER_assume(adv < ((uint64_t)1 << 40) && g_db->versions->last_sequence < ((uint64_t)1 << 56) - adv);
    g_db->versions->last_sequence += adv; g_hwm = g_db->versions->last_sequence > g_hwm ? g_db->versions->last_sequence : g_hwm;
    if (g_db->bg_error == LDB_OK && nondet_int()) g_db->bg_error = nondet_int();   /* errors latch, they never clear */
    if (what > 0) {
      /* its group included us: we are completed and dequeued */
      g_me->status = nondet_int(); g_me->done = 1;
      g_db->writers.head = NULL; g_db->writers.tail = NULL; g_db->writers.length = 0;
      g_me->next = NULL;
    } else {
      /* it finished alone: we are the new head */
      g_db->writers.head = g_me; g_db->writers.tail = g_me; g_db->writers.length = 1 + g_nf;
    }
  }
  g_held = 1;
}

/* ------------------------------------------------ make_room_for_write */
int g_bg_sched_calls;          /* ldb_pool_schedule calls                                              */
uint64_t g_next_file, g_alloc_number; int g_allocs, g_reuses;
int g_create_calls, g_create_ok, g_close_calls2, g_close_failed, g_wdestroy, g_fdestroy, g_wcreate;
ldb_memtable_t *g_old_mem; ldb_memtable_t g_new_mem_obj; int g_mem_creates, g_mem_refs;
size_t g_mem_usage;
ldb_wfile_t g_old_logfile; ldb_writer_t g_old_logw;

int g_l0_files;                /* number of level-0 files (ldb_versions_files(.., 0))                 */
int g_needs_compaction;        /* ldb_versions_needs_compaction()                                      */
/* ghost state written by the environment models that make_room can reach */
#define ROOM_GHOST g_room_waits, g_held, g_locks, g_unlocks, g_l0_files, g_needs_compaction, g_bg_sched_calls, g_next_file, g_alloc_number, g_allocs, g_reuses, \
  g_create_calls, g_create_ok, g_close_calls2, g_close_failed, g_wdestroy, g_fdestroy, g_wcreate, g_mem_creates, g_mem_refs
#define SHUTTING_DOWN(db) (*(int *)&(db)->shutting_down != 0)
/* ... and a full level 0 (writes stop at 12 files) always has a compaction scheduled */
#define I_DB_C0(db) (!(g_l0_files >= LDB_L0_STOP_WRITES_TRIGGER && (db)->bg_error == LDB_OK) || (db)->background_compaction_scheduled)
#define I_DB_C(db) (!((db)->imm != NULL && (db)->bg_error == LDB_OK && !SHUTTING_DOWN(db)) || (db)->background_compaction_scheduled)

/* queue after the leader waited for room: up to two writers queued up behind it */
int c_make_room_for_write(ldb_t *db, int force)
__CPROVER_requires(db == g_db && g_held)
/* the caller is the head of the writer queue (a spuriously woken writer must not get here) */
__CPROVER_requires(g_me != NULL && db->writers.head == g_me && !g_me->done)
/* I_db(c): pending background work is scheduled (so whoever waits for it will be woken) */
__CPROVER_requires(I_DB_C(db) && I_DB_C0(db))
/* no write is issued once close has begun; the DB always has a current log */
__CPROVER_requires(!SHUTTING_DOWN(db) && db->log != NULL && db->logfile != NULL && db->mem != NULL)
__CPROVER_assigns(db->mem, db->imm, db->log, db->logfile, db->logfile_number, db->has_imm, db->bg_error, db->background_compaction_scheduled,
                  ROOM_GHOST)
__CPROVER_ensures(g_held && I_DB_C(db) && I_DB_C0(db) && !SHUTTING_DOWN(db) && db->log != NULL && db->logfile != NULL && db->mem != NULL && g_locks - __CPROVER_old(g_locks) == g_unlocks - __CPROVER_old(g_unlocks))
/* a latched background error is returned: nothing more is written after a failed log or MANIFEST write */
__CPROVER_ensures(__CPROVER_old(db->bg_error) != LDB_OK ==> __CPROVER_return_value != LDB_OK)
__CPROVER_ensures(__CPROVER_return_value == LDB_OK ==> db->bg_error == LDB_OK)
;

static ldb_versions_t g_versions;
static ldb_writeopt_t g_wopt;

/* ---------------------------------------------- stubs used by make_room */
int ldb_versions_files(const ldb_versions_t *vset, int level) { __CPROVER_assert(level == 0, "level-0 file count"); return g_l0_files; }
int ldb_versions_needs_compaction(const ldb_versions_t *vset) { return g_needs_compaction; }
size_t ldb_memtable_usage(const ldb_memtable_t *mt) { return mt == &g_new_mem_obj ? 0 : g_mem_usage; /* a fresh memtable is empty */ }
void ldb_sleep_usec(int64_t usec) { __CPROVER_assert(!g_held, "sleeping writers do not hold the mutex"); }
void ldb_log(ldb_logger_t *logger, const char *fmt, ...) { }
void ldb_pool_schedule(ldb_pool_t *pool, ldb_work_f *func, void *arg) { __CPROVER_assert(g_held && arg == g_db, "background work is scheduled under the mutex for this DB"); g_bg_sched_calls++; }
uint64_t ldb_versions_new_file_number(ldb_versions_t *vset) { g_allocs++; g_alloc_number = g_next_file; return g_next_file++; }
void ldb_versions_reuse_file_number(ldb_versions_t *vset, uint64_t n) { g_reuses++; __CPROVER_assert(n == g_alloc_number, "only the number just allocated is given back"); if (g_next_file == n + 1) g_next_file = n; }
int ldb_log_filename(char *buf, size_t size, const char *dbname, uint64_t num) { __CPROVER_assert(num == g_alloc_number, "new log file is named after the freshly allocated number"); return 1; }
int ldb_truncfile_create(const char *filename, ldb_wfile_t **file) {
  int rc = nondet_int();
  __CPROVER_assert(g_db->imm == NULL, "log switch starts only when no immutable memtable is pending (it would be overwritten and its unflushed data lost)");
  __CPROVER_assert(g_l0_files < LDB_L0_STOP_WRITES_TRIGGER, "log switch (which produces another level-0 file) does not start while level 0 is full");
  g_create_calls++;
  if (rc != LDB_OK) return rc;
  g_create_ok++; *file = &g_logfile;
  return LDB_OK;
}
void ldb_writer_destroy(ldb_writer_t *lw) { __CPROVER_assert(g_create_ok == 1, "log switch: the old log writer is dropped only after the new log file exists"); __CPROVER_assert(lw == &g_old_logw, "old writer"); g_wdestroy++; }
int ldb_wfile_close(ldb_wfile_t *f) {
  int rc = nondet_int();
  __CPROVER_assert(g_create_ok == 1, "log switch: the old log file is closed only after the new log file exists");
  __CPROVER_assert(f == &g_old_logfile, "closes the old log file");
  g_close_calls2++;
  if (rc != LDB_OK) g_close_failed = 1;
  return rc;
}
void ldb_wfile_destroy(ldb_wfile_t *f) { __CPROVER_assert(f == &g_old_logfile && g_close_calls2 == 1, "old log file is closed before it is destroyed"); g_fdestroy++; }
ldb_writer_t *ldb_writer_create(ldb_wfile_t *file, uint64_t length) {
  __CPROVER_assert(file == &g_logfile && length == 0, "new log writer starts at offset 0 of the new (truncated) file");
  g_wcreate++; return &g_logw;
}
ldb_memtable_t *ldb_memtable_create(const ldb_comparator_t *cmp) { __CPROVER_assert(cmp == &g_db->internal_comparator, "memtable uses the internal comparator"); g_mem_creates++; return &g_new_mem_obj; }
void ldb_memtable_ref(ldb_memtable_t *mt) { g_mem_refs++; }

/* the leader waits for background work: the background thread runs */
static void wait_for_background(void) {
  __CPROVER_assert(g_db->imm != NULL || g_l0_files >= LDB_L0_STOP_WRITES_TRIGGER, "a writer waits for background work only while the previous memtable is still being flushed or level 0 is full");
  __CPROVER_assert(g_db->bg_error == LDB_OK, "a writer does not wait once a background error is latched");
  __CPROVER_assert(g_db->background_compaction_scheduled, "W3: whoever waits for the background signal has a scheduled background call (no lost wake-up)");
  monitor_invariant("wait-bg");
  g_held = 0; g_room_waits++;
  /* background call: flushes imm and/or compacts, or fails; it reschedules itself if work remains */
  if (nondet_int()) { g_db->bg_error = nondet_int(); __CPROVER_assume(g_db->bg_error != LDB_OK); }
  else if (g_room_waits >= 2 || nondet_int()) { g_db->imm = NULL; *(int *)&g_db->has_imm = 0; g_l0_files = nondet_int(); __CPROVER_assume(g_l0_files >= 0 && g_l0_files < LDB_L0_STOP_WRITES_TRIGGER); }
  g_needs_compaction = nondet_int() ? 1 : 0;
  g_db->background_compaction_scheduled = (g_db->bg_error == LDB_OK && (g_db->imm != NULL || g_needs_compaction)) ? 1 : nondet_int() ? 1 : 0;
  __CPROVER_assume(g_l0_files < LDB_L0_STOP_WRITES_TRIGGER || g_needs_compaction);
  g_held = 1;
}

void h_room(void) {
  ldb_t *db = malloc(sizeof(ldb_t));
  ldb_waiter_t me;
  int force = nondet_int() ? 1 : 0;
  int bg0, rc;
  ldb_memtable_t *mem0; ldb_memtable_t *imm0; uint64_t lognum0;
  __CPROVER_assume(db != NULL);
  g_db = db; g_me = &me; me.done = 0; me.next = NULL;
  db->versions = &g_versions;
  db->writers.head = &me; db->writers.tail = &me; db->writers.length = 1;
  db->log = &g_old_logw; db->logfile = &g_old_logfile;
  __CPROVER_assume(db->mem != NULL && db->mem != &g_new_mem_obj);
  __CPROVER_assume(g_l0_files >= 0 && g_l0_files <= 64 && (g_needs_compaction == 0 || g_needs_compaction == 1));
  __CPROVER_assume(g_l0_files < LDB_L0_SLOWDOWN_WRITES_TRIGGER / 2 || g_needs_compaction); /* level 0 >= 4 files triggers compaction */
  __CPROVER_assume(I_DB_C(db));
  __CPROVER_assume(I_DB_C0(db) && !SHUTTING_DOWN(db));
  __CPROVER_assume(g_next_file < ((uint64_t)1 << 60));
  g_held = 1; g_locks = 1; g_unlocks = 0; g_room_waits = 0; g_seq_assigned = 0; g_inserts = 0; g_log_failed = 0; g_sync_failed = 0;
  g_bg_sched_calls = 0; g_allocs = g_reuses = 0; g_create_calls = g_create_ok = g_close_calls2 = g_close_failed = g_wdestroy = g_fdestroy = g_wcreate = 0;
  g_mem_creates = g_mem_refs = 0;
  bg0 = db->bg_error; mem0 = db->mem; imm0 = db->imm; lognum0 = db->logfile_number;
  {
    uint64_t next0 = g_next_file;
    int had_log = db->log != NULL, had_file = db->logfile != NULL;
    rc = ldb_make_room_for_write(db, force);
    CHECK(g_held && g_locks == g_unlocks + 1, "make_room: returns with the mutex held, lock/unlock balanced");
    CHECK(db->writers.head == &me && db->writers.length == 1, "make_room: the writer queue is not touched");
    if (bg0 != LDB_OK) CHECK(rc == bg0 && g_create_calls == 0 && db->mem == mem0, "a latched background error is returned at once and nothing is switched");
    if (g_create_ok) {
      /* the memtable was switched */
      CHECK(g_create_calls == 1 && g_allocs == 1 && g_reuses == 0, "log switch: exactly one new log file, numbered by a fresh file number that is kept");
      CHECK(db->imm == mem0 && *(int *)&db->has_imm == 1, "log switch: the full memtable becomes imm (has_imm published) - it is not dropped");
      CHECK(db->mem == &g_new_mem_obj && g_mem_creates == 1 && g_mem_refs == 1, "log switch: a fresh referenced memtable takes the writes");
      CHECK(db->logfile == &g_logfile && db->log == &g_logw && g_wcreate == 1 && db->logfile_number == next0, "log switch: writes go to the new log, logfile_number is its number");
      CHECK(!had_log || g_wdestroy == 1, "log switch: the old writer is released");
      CHECK(!had_file || (g_close_calls2 == 1 && g_fdestroy == 1), "log switch: the old log file is closed (flushing its buffer) and destroyed");
      CHECK(!g_close_failed || (db->bg_error != LDB_OK && rc != LDB_OK), "a failed close of the old log (its buffered tail may be lost) latches bg_error and fails the write");
    } else {
      CHECK(db->mem == mem0 && db->logfile_number == lognum0 && g_wdestroy == 0 && g_close_calls2 == 0 && g_mem_creates == 0, "no switch: memtable and log untouched");
      if (g_create_calls) CHECK(rc != LDB_OK && g_reuses == 1 && g_next_file == next0, "failed log creation: reported, the file number is given back, nothing switched");
    }
    if (rc == LDB_OK) {
      CHECK(db->bg_error == LDB_OK, "OK only without background error");
      CHECK(force && g_create_ok || g_mem_usage <= db->options.write_buffer_size || g_create_ok, "OK only if the current memtable has room or was just switched");
    }
    CHECK(I_DB_C(db) && I_DB_C0(db), "I_db(c) re-established: pending background work is scheduled");
  }
  CANARY();
}

/* ------------------------------------------------------------- harness */

void h_write(void) {
  ldb_t *db = malloc(sizeof(ldb_t));
  int ahead = nondet_int() ? 1 : 0;
  int have_batch = nondet_int() ? 1 : 0;
  uint64_t seq0;
  uint32_t cnt_me0, cnt_f1_0, cnt_f2_0;
  int rc;
  __CPROVER_assume(db != NULL);
  g_db = db; g_me = NULL;
  db->versions = &g_versions;
  db->log = &g_logw; db->logfile = &g_logfile; db->tmp_batch = &g_btmp;
  __CPROVER_assume(db->mem != NULL);
  __CPROVER_assume(g_versions.last_sequence < ((uint64_t)1 << 56) - ((uint64_t)1 << 42));
  g_hwm = g_versions.last_sequence;            /* everything published so far has been inserted */
  __CPROVER_assume(I_DB_C(db) && I_DB_C0(db) && !SHUTTING_DOWN(db));   /* monitor invariant (c) holds when we get the mutex; close has not begun */
  g_held = 0; g_locks = 0; g_unlocks = 0; g_waits = 0;
  g_sig_a1 = g_sig_f1 = g_sig_f2 = g_sig_me = g_sig_other = 0;
  g_log_appends = g_log_failed = g_syncs = g_synced = g_sync_failed = g_inserts = 0; g_ins_batch = NULL;
  g_seq_assigned = 0; g_napp = 0; g_tmp_resets = 0; g_seqset_me = g_seqset_tmp = 0;
  __CPROVER_assume(g_nf >= 0 && g_nf <= 2);
  /* batches: arbitrary counts / sizes (a batch has a 12-byte header) */
  __CPROVER_assume(g_sz_me >= 12 && g_sz_me < ((size_t)1 << 40) && g_sz_f1 >= 12 && g_sz_f1 < ((size_t)1 << 40) && g_sz_f2 >= 12 && g_sz_f2 < ((size_t)1 << 40));
  __CPROVER_assume(g_cnt_me < (1u << 28) && g_cnt_f1 < (1u << 28) && g_cnt_f2 < (1u << 28));
  g_cnt_tmp = 0; g_sz_tmp = 12;                /* the scratch batch is empty between writes */
  cnt_me0 = g_cnt_me; cnt_f1_0 = g_cnt_f1; cnt_f2_0 = g_cnt_f2;
  /* followers: arbitrary sync flags, batch or NULL (compaction trigger), not yet completed */
  g_f1.batch = nondet_int() ? &g_bf1 : NULL; g_f1.done = 0; g_f1.sync = nondet_int() ? 1 : 0; g_f1.next = NULL; g_f1.status = 0x7777;
  g_f2.batch = nondet_int() ? &g_bf2 : NULL; g_f2.done = 0; g_f2.sync = nondet_int() ? 1 : 0; g_f2.next = NULL; g_f2.status = 0x7777;
  /* queue before the call: empty, or one writer (the current leader) ahead of us */
  g_a1.next = NULL; g_a1.done = 0;
  /* the g_nf writers that queue up behind us are linked behind our waiter in ldb_cond_init (see there); the
     queue length counts them from the start (over-approximation: they may arrive at any time), the tail
     pointer is only read by other threads' pushes, which are not modelled */
  if (ahead) { db->writers.head = &g_a1; db->writers.tail = &g_a1; db->writers.length = 1 + g_nf; }
  else { db->writers.head = NULL; db->writers.tail = NULL; db->writers.length = g_nf; }
  g_wopt.sync = nondet_int() ? 1 : 0;
  seq0 = g_versions.last_sequence;

  rc = ldb_write(db, have_batch ? &g_bme : NULL, &g_wopt);

  CHECK(!g_held && g_locks == g_unlocks, "ldb_write: mutex released at return, lock/unlock balanced");
  if (g_me_done) {
    /* completed by the previous leader: our status is what it recorded; we did no I/O */
    CHECK(rc == g_me_status, "follower: returns the status recorded by the leader of its group");
    CHECK(g_log_appends == 0 && g_inserts == 0 && g_syncs == 0, "follower: performs no log or memtable write itself");
  } else {
    uint32_t total = 0;
    int in1, in2;
    CHECK(db->writers.head != g_me_addr, "leader: removed itself from the writer queue");
    /* members of the group = dequeued followers */
    in1 = g_nf >= 1 && g_f1.done; in2 = g_nf >= 2 && g_f2.done;
    CHECK(!in2 || in1, "group commit: members are a prefix of the queue (order kept)");
    if (rc == LDB_OK && have_batch) {
      CHECK(g_log_appends == 1 && !g_log_failed, "acknowledged write: exactly one log record was appended successfully");
      CHECK(!g_wopt.sync || (g_syncs == 1 && g_synced), "acknowledged sync write: the log was fsynced after the append and before returning");
      CHECK(g_inserts == 1 && g_insert_rc == LDB_OK, "acknowledged write: the group was inserted into the memtable");
      total = cnt_me0 + (in1 && g_f1.batch ? cnt_f1_0 : 0) + (in2 && g_f2.batch ? cnt_f2_0 : 0);
      CHECK(g_ins_count == total, "group commit: the inserted/logged batch holds exactly the updates of its members");
      CHECK(g_ins_seq == g_pub_at_setseq + 1, "group commit: the group's sequence range starts right after the last published sequence");
      CHECK(g_versions.last_sequence == g_ins_seq + total - 1, "acknowledged write: last_sequence advanced by exactly the group's update count");
      CHECK(g_log_data == (const void *)g_ins_batch && g_log_size == g_ins_size, "the logged record is the contents of the batch that was inserted");
      if (!in1) CHECK(g_ins_batch == &g_bme && g_napp == 0, "a single writer logs its own batch undisturbed");
      else if (g_f1.batch || (in2 && g_f2.batch)) {
        CHECK(g_ins_batch == &g_btmp && g_app_src[0] == &g_bme, "group commit: members are merged into the scratch batch, leader first");
      }
      if (in1 && g_f1.batch && in2 && g_f2.batch) CHECK(g_napp == 3 && g_app_src[1] == &g_bf1 && g_app_src[2] == &g_bf2, "group commit: member batches appended in queue order");
      CHECK(g_cnt_me == cnt_me0, "the caller's batch is left undisturbed");
      /* a sync writer is never folded into a non-sync leader's group */
      CHECK(!(in1 && g_f1.sync && !g_wopt.sync) && !(in2 && g_f2.sync && !g_wopt.sync), "group commit: a sync write is never carried by a non-sync leader");
    }
    if (g_log_failed || g_sync_failed) {
      CHECK(rc != LDB_OK, "a failed log append or sync is reported to the writer");
      CHECK(db->bg_error != LDB_OK, "any log failure latches bg_error: no later write can be acknowledged on a damaged log");
      CHECK(g_inserts == 0, "nothing reaches the memtable after a failed log write");
    }
    if (g_inserts && g_insert_rc != LDB_OK) CHECK(rc != LDB_OK, "a failed memtable insert is reported");
    if (rc != LDB_OK && g_log_appends == 0) CHECK(g_inserts == 0 && g_syncs == 0, "refused write: nothing logged, nothing inserted");
    /* wake-up discipline (C09 W1) */
    if (in1) CHECK(g_f1.status == rc && g_sig_f1 >= 1, "every dequeued follower gets the group's status, done = 1 and a signal");
    if (in2) CHECK(g_f2.status == rc && g_sig_f2 >= 1, "every dequeued follower gets the group's status, done = 1 and a signal (second)");
    if (g_nf >= 1 && !in1) { CHECK(g_f1.status == 0x7777 && db->writers.head == &g_f1 && g_sig_f1 >= 1, "the new head of the writer queue is signalled and otherwise untouched"); }
    else if (g_nf >= 2 && !in2) { CHECK(g_f2.status == 0x7777 && db->writers.head == &g_f2 && g_sig_f2 >= 1, "the new head of the writer queue is signalled (second follower)"); }
    else CHECK(db->writers.head == NULL && db->writers.length == 0 && db->writers.tail == NULL, "queue empty after the last member");
    CHECK(g_tmp_resets >= (g_ins_batch == &g_btmp ? 1 : 0) && (g_napp == 0 || g_cnt_tmp == 0), "the scratch batch is reset after use");
  }
  CHECK(g_sig_other == 0, "no signal to unknown condition variables");
  CANARY();
}
