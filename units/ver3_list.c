/* units/ver3_list.c - the list of live versions of src/version_set.c (group "ver3": C13)
 *
 *   ver3.list.create   ldb_version_create / ldb_version_init: a fresh version is empty, unlinked, unreferenced
 *   ver3.list.append   ldb_versions_append_version: the new version becomes current with one reference and is linked last;
 *                      the old current loses one reference and is destroyed exactly when that was the last one
 *   ver3.list.unref    ldb_version_ref / ldb_version_unref / ldb_version_destroy / ldb_version_clear on a version anywhere in a
 *                      list of 1..3: unlinked, its files released once each and the object freed exactly when refs reaches 0
 *   ver3.list.discard  ldb_version_destroy of a never-installed version (the failure path of ldb_versions_apply)
 *
 * The real version_set.c is included unmodified.  Models of other translation units: ldb_malloc / ldb_free (util/internal.c)
 * record the allocation / release, ldb_vector_init / ldb_vector_clear (util/vector.c: vec.lifecycle) are the obvious field
 * models, ldb_filemeta_unref (version_edit.c) counts per file.
 */
#include "verif.h"
#include "version_set.c"

ldb_versions_t nondet_versions(void);
ldb_version_t nondet_version(void);

#define NV 4                                  /* version objects: 0..2 list members, 3 = the new one */
#define NFL (3 * NV + 1)                      /* file objects: three private files per version and one file shared by all */
static ldb_versions_t g_vset;
/* every version and every file is an object of its own (constant offsets only: a pointer into an array of structs with a symbolic
   index is bit-blasted byte-wise) */
static ldb_version_t g_v0, g_v1, g_v2, g_v3;
static ldb_version_t * const g_vp[NV] = {&g_v0, &g_v1, &g_v2, &g_v3};
#define g_vo(k) (*g_vp[k])
static ldb_filemeta_t g_f0, g_f1, g_f2, g_f3, g_f4, g_f5, g_f6, g_f7, g_f8, g_f9, g_f10, g_f11, g_f12;
static ldb_filemeta_t * const g_fp[NFL] = {&g_f0, &g_f1, &g_f2, &g_f3, &g_f4, &g_f5, &g_f6, &g_f7, &g_f8, &g_f9, &g_f10, &g_f11, &g_f12};
#define g_fo(k) (*g_fp[k])
#define SHARED (NFL - 1)
static void *g_i0[NV][2], *g_i6[NV][2];       /* backing store of files[0] / files[6] of each version */
static int g_unrefs[NFL], g_bad_unref;
static unsigned g_frees, g_vclears[NV], g_vinits, g_bad_clear, g_mallocs;
static void *g_freed;

void *ldb_malloc(size_t size) {
  __CPROVER_assert(size == sizeof(ldb_version_t), "the only allocation is a version object");
  g_mallocs++;
  return &g_v3;
}
void ldb_free(void *ptr) { g_freed = ptr; g_frees++; }
void ldb_vector_init(ldb_vector_t *z) { z->items = NULL; z->length = 0; z->alloc = 0; g_vinits++; }
void ldb_vector_clear(ldb_vector_t *z) {
  int k = __CPROVER_same_object(z, &g_v0) ? 0 : __CPROVER_same_object(z, &g_v1) ? 1 : __CPROVER_same_object(z, &g_v2) ? 2 : __CPROVER_same_object(z, &g_v3) ? 3 : -1;
  if (k < 0) g_bad_clear = 1; else g_vclears[k]++;
  z->items = NULL; z->length = 0; z->alloc = 0;
}
void ldb_filemeta_unref(ldb_filemeta_t *z) {
  int k = -1, j;
  for (j = 0; j < NFL; j++) if (z == g_fp[j]) k = j;
  if (k < 0) { g_bad_unref = 1; return; }
  z->refs--; g_unrefs[k]++;
}

#define DUMMY (&g_vset.dummy_versions)
/* version k lists its private files 3k, 3k+1 in level 0 (n0 <= 2 of them) and 3k+2, SHARED in level 6 (n6 <= 2 of them) */
static size_t g_n0[NV], g_n6[NV];
static void mk_ver(int k) {
  int l;
  g_vo(k) = nondet_version();
  g_vo(k).vset = &g_vset;
  for (l = 0; l < LDB_NUM_LEVELS; l++) { g_vo(k).files[l].items = NULL; g_vo(k).files[l].length = 0; g_vo(k).files[l].alloc = 0; }
  g_n0[k] = nondet_size(); g_n6[k] = nondet_size();
  ASSUME(g_n0[k] <= 2 && g_n6[k] <= 2);
  g_i0[k][0] = g_fp[3 * k]; g_i0[k][1] = g_fp[3 * k + 1];
  g_i6[k][0] = g_fp[3 * k + 2]; g_i6[k][1] = g_fp[SHARED];
  g_vo(k).files[0].items = g_i0[k]; g_vo(k).files[0].length = g_n0[k]; g_vo(k).files[0].alloc = 2;
  g_vo(k).files[6].items = g_i6[k]; g_vo(k).files[6].length = g_n6[k]; g_vo(k).files[6].alloc = 2;
}
/* how often version k lists pool file f */
static int lists(int k, int f) {
  return (g_n0[k] > 0 && f == 3 * k) + (g_n0[k] > 1 && f == 3 * k + 1) + (g_n6[k] > 0 && f == 3 * k + 2) + (g_n6[k] > 1 && f == SHARED);
}
static int g_refs0[NV], g_frefs0[NFL];
/* list = dummy <-> v0 <-> .. <-> v(n-1) <-> dummy ; current = last (NULL if empty) */
static void mk_world(size_t n) {
  int k;
  ASSUME(n <= 3);
  g_vset = nondet_versions();
  mk_ver(0); mk_ver(1); mk_ver(2);
  DUMMY->vset = &g_vset; DUMMY->refs = 0;
  DUMMY->next = n > 0 ? &g_v0 : DUMMY;
  DUMMY->prev = n == 0 ? DUMMY : n == 1 ? &g_v0 : n == 2 ? &g_v1 : &g_v2;
  for (k = 0; k < 3; k++) {
    if ((size_t)k < n) {
      g_vo(k).prev = k > 0 ? g_vp[k - 1] : DUMMY;
      g_vo(k).next = (size_t)k + 1 < n ? g_vp[k + 1] : DUMMY;
      ASSUME(g_vo(k).refs >= 1 && g_vo(k).refs < 1000);
    }
    g_refs0[k] = g_vo(k).refs;
  }
  g_vset.current = n == 0 ? (ldb_version_t *)NULL : n == 1 ? &g_v0 : n == 2 ? &g_v1 : &g_v2;
  for (k = 0; k < NFL; k++) { g_fo(k).refs = nondet_int(); ASSUME(g_fo(k).refs >= 8 && g_fo(k).refs < 1000); g_frefs0[k] = g_fo(k).refs; g_unrefs[k] = 0; }
  g_bad_unref = 0; g_frees = 0; g_freed = NULL; g_vinits = 0; g_bad_clear = 0; g_mallocs = 0;
  for (k = 0; k < NV; k++) g_vclears[k] = 0;
}
/* version k was released: its files lost one reference per listing, its seven lists were cleared, the object was freed */
static int files_released_once(int k) {
  int f, ok = 1;
  for (f = 0; f < NFL; f++) if (g_unrefs[f] != lists(k, f) || g_fo(f).refs != g_frefs0[f] - lists(k, f)) ok = 0;
  return ok && !g_bad_unref;
}
static int nothing_released(void) {
  int f, ok = 1;
  for (f = 0; f < NFL; f++) if (g_unrefs[f] != 0 || g_fo(f).refs != g_frefs0[f]) ok = 0;
  return ok && !g_bad_unref && g_frees == 0 && !g_bad_clear && g_vclears[0] == 0 && g_vclears[1] == 0 && g_vclears[2] == 0 && g_vclears[3] == 0;
}

/* ======================================================================================================
 * ver3.list.create
 * ====================================================================================================== */
void h_version_create(void) {
  ldb_version_t *v; int l;
  IN_SIZE(in_j);
  mk_world(0);
  g_v3 = nondet_version();
  v = ldb_version_create(&g_vset);
  ASSUME(in_j < LDB_NUM_LEVELS);
  CHECK(v == &g_v3 && g_mallocs == 1, "version_create: returns the one object it allocated");
  CHECK(v->vset == &g_vset && v->next == v && v->prev == v && v->refs == 0, "version_create: belongs to the version set, linked to itself only, no reference yet");
  CHECK(v->file_to_compact == NULL && v->file_to_compact_level == -1, "version_create: no seek-triggered candidate");
  CHECK(v->compaction_score == -1 && v->compaction_level == -1, "version_create: no size-triggered candidate before finalize()");
  CHECK(g_vinits == LDB_NUM_LEVELS && v->files[in_j].length == 0 && v->files[in_j].items == NULL && v->files[in_j].alloc == 0, "version_create: all seven file lists are empty");
  (void)l;
  CANARY();
}

/* ======================================================================================================
 * ver3.list.append
 * ====================================================================================================== */
void h_append_version(void) {
  IN_SIZE(in_n);
  ldb_version_t *old, *v = &g_v3, *old_prev;
  int oldk;
  mk_world(in_n);
  /* the new version: as built by ldb_version_create + builder_save_to (unlinked, unreferenced, holds files) */
  mk_ver(3); v->next = v; v->prev = v; v->refs = 0; g_refs0[3] = 0;
  old = g_vset.current; oldk = (int)in_n - 1;
  old_prev = old != NULL ? old->prev : DUMMY;

  ldb_versions_append_version(&g_vset, v);

  CHECK(g_vset.current == v && v->refs == 1, "append_version: the new version is current and holds exactly one reference (the version set's)");
  CHECK(v->next == DUMMY && DUMMY->prev == v, "append_version: the new version is the last element of the list");
  CHECK(g_vclears[3] == 0 && g_freed != (void *)v, "append_version: the new version itself is not released");
  if (old == NULL) {
    CHECK(v->prev == DUMMY && DUMMY->next == v && nothing_released(), "append_version: first version: the list is exactly { v }, nothing released");
  } else if (g_refs0[oldk] > 1) {
    /* somebody else (an iterator, a compaction, a reader) still uses the old current version */
    CHECK(old->refs == g_refs0[oldk] - 1, "append_version: the old current version loses exactly the version set's reference");
    CHECK(v->prev == old && old->next == v && old->prev == old_prev, "append_version: a still referenced old version stays linked, right before the new one");
    CHECK(nothing_released(), "append_version: nothing is released while the old version is referenced");
  } else {
    CHECK(g_frees == 1 && g_freed == (void *)old, "append_version: an old current version nobody else references is freed exactly once");
    CHECK(v->prev == old_prev && old_prev->next == v, "append_version: the released version is unlinked: its predecessor is followed by the new version");
    CHECK(files_released_once(oldk) && g_vclears[oldk] == LDB_NUM_LEVELS && !g_bad_clear, "append_version: the released version drops one reference per file it lists and clears its seven lists");
  }
  /* the other members are untouched and still in place */
  if (in_n >= 2) CHECK(g_vo(0).refs == g_refs0[0] && DUMMY->next == &g_v0 && g_vo(0).prev == DUMMY && g_vclears[0] == 0, "append_version: older versions keep their references and their place");
  if (in_n >= 3) CHECK(g_vo(1).refs == g_refs0[1] && g_vo(0).next == &g_v1 && g_vo(1).prev == &g_v0 && g_vclears[1] == 0, "append_version: older versions keep their references and their place");
  CANARY();
}

/* ======================================================================================================
 * ver3.list.unref
 * ====================================================================================================== */
void h_version_unref(void) {
  IN_SIZE(in_n); IN_SIZE(in_t); IN_INT(in_extra_ref);
  ldb_version_t *t, *p, *q, *cur;
  int k;
  mk_world(in_n);
  ASSUME(in_n >= 1 && in_t < in_n);
  t = in_t == 0 ? &g_v0 : in_t == 1 ? &g_v1 : &g_v2; p = t->prev; q = t->next; cur = g_vset.current;
  if (in_extra_ref) { ldb_version_ref(t); CHECK(t->refs == g_refs0[in_t] + 1, "version_ref: one more reference"); g_refs0[in_t]++; }

  /* one call site per concrete list position */
  if (in_t == 0) ldb_version_unref(&g_v0); else if (in_t == 1) ldb_version_unref(&g_v1); else ldb_version_unref(&g_v2);

  if (g_refs0[in_t] > 1) {
    CHECK(t->refs == g_refs0[in_t] - 1 && t->prev == p && t->next == q && p->next == t && q->prev == t, "version_unref: a version that is still referenced only loses one reference and stays linked");
    CHECK(nothing_released(), "version_unref: nothing is released while references remain");
  } else {
    CHECK(p->next == q && q->prev == p, "version_unref: at zero references the version is unlinked (its neighbours now point at each other)");
    CHECK(g_frees == 1 && g_freed == (void *)t, "version_unref: at zero references the version object is freed exactly once");
    CHECK(files_released_once((int)in_t) && g_vclears[in_t] == LDB_NUM_LEVELS && !g_bad_clear, "version_unref: at zero references every listed file loses exactly one reference (per listing) and the seven lists are cleared");
  }
  for (k = 0; k < 3; k++)
    if ((size_t)k < in_n && (size_t)k != in_t)
      CHECK(g_vo(k).refs == g_refs0[k] && g_vclears[k] == 0, "version_unref: other versions are untouched");
  CHECK(g_vset.current == cur, "version_unref: does not move the current pointer");
  CANARY();
}

/* ======================================================================================================
 * ver3.list.discard - a version that was never installed (ldb_versions_apply failure path)
 * ====================================================================================================== */
void h_version_discard(void) {
  IN_SIZE(in_n);
  ldb_version_t *v = &g_v3, *first, *last;
  int k;
  mk_world(in_n);
  mk_ver(3); v->next = v; v->prev = v; v->refs = 0;
  first = DUMMY->next; last = DUMMY->prev;
  ldb_version_destroy(v);
  CHECK(g_frees == 1 && g_freed == (void *)v, "version_destroy: the discarded version is freed exactly once");
  CHECK(files_released_once(3) && g_vclears[3] == LDB_NUM_LEVELS && !g_bad_clear, "version_destroy: the files it had taken lose exactly the references it held");
  CHECK(DUMMY->next == first && DUMMY->prev == last, "version_destroy: discarding an unlinked version leaves the list alone");
  for (k = 0; k < 3; k++)
    if ((size_t)k < in_n) CHECK(g_vo(k).refs == g_refs0[k] && g_vclears[k] == 0 && (k == 0 ? g_vo(k).prev == DUMMY : g_vo(k).prev == g_vp[k - 1]), "version_destroy: installed versions are untouched");
  CANARY();
}
