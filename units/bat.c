/* units/bat.c - proof units for src/write_batch.c (C04, C18, C11, C03, C01)
 *
 * The real write_batch.c is included unmodified (byte for byte); its callees in
 * util/slice.c, util/buffer.c and util/coding.h are replaced by the contracts
 * of contracts/buf.h and contracts/coding.h (enforced in groups buf / cod).  The environment of ldb_batch_iterate (the
 * handler callbacks, and ldb_memtable_add for ldb_batch_insert_into) is an
 * *independent decoder of the WriteBatch wire format*:
 *
 *    rep    := LE64 sequence ‖ LE32 count ‖ record*
 *    record := 0x01 varstring varstring | 0x00 varstring
 *    varstring := varint32 len ‖ len bytes
 *
 * Every callback is checked against the record the spec decoder finds at its
 * own cursor g_pos: right tag, key/value slices exactly the length-prefixed
 * strings of that record (pointer identity into rep), in order, none skipped.
 */
#include "verif.h"
#include "contracts/coding.h"
#include "contracts/buf.h"

#include "util/buffer.h"
#include "util/coding.h"
#include "util/internal.h"
#include "util/slice.h"
#include "util/status.h"
#include "dbformat.h"
#include "memtable.h"
#include "write_batch.h"

/* ------------------------------------------------------------------ ghost */
const uint8_t *g_rep;    /* batch->rep.data                                  */
size_t g_n;              /* batch->rep.size                                  */
size_t g_pos;            /* spec decoder cursor: offset of the next record   */
int g_calls;             /* records delivered so far                         */
int g_mode;              /* 0: handler stubs are the sink, 1: ldb_memtable_add is */
ldb_handler_t *g_h;      /* mode 0: the handler object                       */
ldb_memtable_t *g_mt;    /* mode 1: the memtable                             */
uint64_t g_seq0;         /* mode 1: sequence stored in the batch header      */

/* assert, then continue only on the good path (keeps later reads defined) */
#define SPEC_REQ(c, msg) __CPROVER_assert(c, msg); __CPROVER_assume(c)

/* number of bytes of the LEB128 group sequence at p (at most 5, at most m); 0 = none terminates */
static size_t spec_vlen(const uint8_t *p, size_t m) {
  if (m >= 1 && !(p[0] & 128)) return 1;
  if (m >= 2 && !(p[1] & 128)) return 2;
  if (m >= 3 && !(p[2] & 128)) return 3;
  if (m >= 4 && !(p[3] & 128)) return 4;
  if (m >= 5 && !(p[4] & 128)) return 5;
  return 0;
}
/* varstring at q with m bytes left is malformed: no terminated varint32 or the length exceeds what is left */
static int spec_vs_bad(const uint8_t *q, size_t m) {
  size_t l = spec_vlen(q, m);
  if (l == 0) return 1;
  return (size_t)V32_VAL(q, l) > m - l;
}
/* total encoded length of a well-formed varstring */
static size_t spec_vs_len(const uint8_t *q, size_t m) {
  size_t l = spec_vlen(q, m);
  return l + (size_t)V32_VAL(q, l);
}
/* the record at offset p (p < n) of rep is malformed */
static int spec_rec_bad(const uint8_t *rep, size_t p, size_t n) {
  const uint8_t *q = rep + p + 1;
  size_t m = n - p - 1;
  if (rep[p] > 1) return 1;
  if (spec_vs_bad(q, m)) return 1;
  if (rep[p] == 1) {
    size_t k = spec_vs_len(q, m);
    return spec_vs_bad(q + k, m - k);
  }
  return 0;
}

/* one record delivered to the sink */
static void spec_on_record(int type, const ldb_slice_t *key, const ldb_slice_t *value) {
  size_t p = g_pos, l1, l2 = 0, q;
  SPEC_REQ(p >= 12 && p < g_n, "batch: a record is delivered only while unread bytes remain after the 12-byte header");
  SPEC_REQ(g_rep[p] == type, "batch format: tag byte 1 = put (kTypeValue), 0 = delete (kTypeDeletion) decides the callback");
  l1 = spec_vlen(g_rep + p + 1, g_n - p - 1);
  SPEC_REQ(l1 != 0, "batch format: key length is a terminated varint32 inside rep");
  SPEC_REQ(key->size == (size_t)V32_VAL(g_rep + p + 1, l1), "batch format: key length is the varint32 after the tag");
  SPEC_REQ(key->size <= g_n - p - 1 - l1, "batch: key slice lies inside rep");
  SPEC_REQ(key->data == g_rep + p + 1 + l1, "batch format: key bytes follow their length prefix (pointer into rep)");
  q = p + 1 + l1 + key->size;
  if (type == 1) {
    l2 = spec_vlen(g_rep + q, g_n - q);
    SPEC_REQ(l2 != 0, "batch format: value length is a terminated varint32 inside rep");
    SPEC_REQ(value->size == (size_t)V32_VAL(g_rep + q, l2), "batch format: value length is the varint32 after the key");
    SPEC_REQ(value->size <= g_n - q - l2, "batch: value slice lies inside rep");
    SPEC_REQ(value->data == g_rep + q + l2, "batch format: value bytes follow their length prefix (pointer into rep)");
    q = q + l2 + value->size;
  }
  g_pos = q;
  g_calls++;
}

static void stub_put(ldb_handler_t *h, const ldb_slice_t *key, const ldb_slice_t *value) {
  __CPROVER_assert(g_mode == 0 && h == g_h, "batch_iterate: callbacks receive the caller's handler");
  __CPROVER_assert(__CPROVER_r_ok(key, sizeof(*key)) && __CPROVER_r_ok(value, sizeof(*value)), "batch_iterate: put gets readable key and value slices");
  spec_on_record(1, key, value);
}
static void stub_del(ldb_handler_t *h, const ldb_slice_t *key) {
  __CPROVER_assert(g_mode == 0 && h == g_h, "batch_iterate: callbacks receive the caller's handler");
  __CPROVER_assert(__CPROVER_r_ok(key, sizeof(*key)), "batch_iterate: del gets a readable key slice");
  spec_on_record(0, key, NULL);
}

/* memtable sink of ldb_batch_insert_into */
struct ldb_memtable_s { int dummy; };
ldb_memtable_t g_the_mt;

void ldb_memtable_add(ldb_memtable_t *mt, ldb_seqnum_t sequence, ldb_valtype_t type,
                      const ldb_slice_t *key, const ldb_slice_t *value) {
  __CPROVER_assert(g_mode == 1 && mt == g_mt, "batch_insert_into: entries go to the caller's memtable");
  __CPROVER_assert(type == LDB_TYPE_VALUE || type == LDB_TYPE_DELETION, "batch_insert_into: entry type is value or deletion");
  __CPROVER_assert(sequence == g_seq0 + (uint64_t)g_calls, "batch_insert_into: the i-th record of the batch is inserted with sequence seq(batch)+i");
  __CPROVER_assert(__CPROVER_r_ok(key, sizeof(*key)) && __CPROVER_r_ok(value, sizeof(*value)), "batch_insert_into: key and value slices readable");
  if (type == LDB_TYPE_DELETION)
    __CPROVER_assert(value->size == 0, "batch_insert_into: a deletion is inserted with an empty value");
  spec_on_record(type == LDB_TYPE_VALUE ? 1 : 0, key, value);
}

/* units that inline the real length-prefixed-slice reader instead of using its contract */
#ifdef BAT_INLINE_SLICE
#include "util/slice.c"
#endif
/* encoder units: the real growable buffer and length-prefixed writer are inlined */
#ifdef BAT_INLINE_BUF
#include "util/buffer.c"
#include "util/slice.c"
#endif
#include "write_batch.c"

/* =================================================================== iter */

#define BATCH_OK(b) (__CPROVER_r_ok(b, sizeof(*(b))) && ((b)->rep.size == 0 || __CPROVER_r_ok((b)->rep.data, (b)->rep.size)))
#define HDR_COUNT(rep) ((int)LE32_AT((rep) + 8))
#define HDR_SEQ(rep) LE64_AT(rep)
/* found++ is an int: 2 bytes is the shortest record, so this many bytes cannot overflow it */
#define BATCH_MAX_BYTES (12 + 2 * (size_t)2147483647)

int c_batch_iterate(const ldb_batch_t *batch, ldb_handler_t *handler)
__CPROVER_requires(BATCH_OK(batch) && __CPROVER_r_ok(handler, sizeof(*handler)))
__CPROVER_requires(batch->rep.size <= BATCH_MAX_BYTES)
__CPROVER_requires(handler->put == stub_put && handler->del == stub_del)
__CPROVER_requires(g_mode == 0 && g_h == handler && g_rep == batch->rep.data && g_n == batch->rep.size && g_pos == 12 && g_calls == 0)
__CPROVER_assigns(g_pos, g_calls)
/* every outcome */
__CPROVER_ensures(__CPROVER_return_value == LDB_OK || __CPROVER_return_value == LDB_CORRUPTION)
__CPROVER_ensures(g_n < 12 ==> (__CPROVER_return_value == LDB_CORRUPTION && g_calls == 0))
/* OK: the spec decoder consumed rep exactly and delivered exactly header-count records */
__CPROVER_ensures(__CPROVER_return_value == LDB_OK ==> (g_n >= 12 && g_pos == g_n && g_calls == HDR_COUNT(g_rep)))
/* CORRUPTION (with a header): stopped exactly at the first malformed record, or everything decoded and the count is wrong */
__CPROVER_ensures((__CPROVER_return_value == LDB_CORRUPTION && g_n >= 12) ==>
                  (g_pos <= g_n && (g_pos == g_n ? g_calls != HDR_COUNT(g_rep) : spec_rec_bad(g_rep, g_pos, g_n))))
;

void h_iterate(void) {
  ldb_batch_t b; ldb_handler_t h; int r;
  IN_SIZE(in_n); IN_U64(in_number);
  IN_BUF(buf, in_n); SNAP_BUF(buf, in_n);
  ASSUME(in_n <= BATCH_MAX_BYTES);
  b.rep.data = buf; b.rep.size = in_n; b.rep.alloc = in_n;
  h.state = NULL; h.number = in_number; h.put = stub_put; h.del = stub_del;
  g_mode = 0; g_h = &h; g_mt = NULL; g_seq0 = 0;
  g_rep = buf; g_n = in_n; g_pos = 12; g_calls = 0;
  r = ldb_batch_iterate(&b, &h);
  CHECK(h.number == in_number && h.state == NULL, "batch_iterate: the handler object itself is not written");
  CANARY();
}

/* bounded stand-in: rep of at most BAT_B bytes, record loop unwound.  The buffer is a heap
 * object of exactly in_n bytes (one constant-size allocation per length, so out-of-bounds
 * reads past rep.size are still detected) */
#define BAT_B 18
#define BAT_CASE(k) case k: buf = malloc(k); break;
void h_iterate_b(void) {
  ldb_batch_t b; ldb_handler_t h; int r; uint8_t *buf = NULL;
  IN_SIZE(in_n); IN_U64(in_number);
  ASSUME(in_n <= BAT_B);
  switch (in_n) {
    BAT_CASE(0) BAT_CASE(1) BAT_CASE(2) BAT_CASE(3) BAT_CASE(4) BAT_CASE(5) BAT_CASE(6) BAT_CASE(7) BAT_CASE(8) BAT_CASE(9)
    BAT_CASE(10) BAT_CASE(11) BAT_CASE(12) BAT_CASE(13) BAT_CASE(14) BAT_CASE(15) BAT_CASE(16) BAT_CASE(17) BAT_CASE(18)
  }
  ASSUME(buf != NULL);
  b.rep.data = buf; b.rep.size = in_n; b.rep.alloc = in_n;
  h.state = NULL; h.number = in_number; h.put = stub_put; h.del = stub_del;
  g_mode = 0; g_h = &h; g_mt = NULL; g_seq0 = 0;
  g_rep = buf; g_n = in_n; g_pos = 12; g_calls = 0;
  r = ldb_batch_iterate(&b, &h);
  CHECK(h.number == in_number && h.state == NULL, "batch_iterate: the handler object itself is not written");
  CANARY();
}

/* ==================================================================== enc */
/* header: bytes 0..7 = LE64 sequence, bytes 8..11 = LE32 count */
#define BATCH_HDR_OK(b) (__CPROVER_r_ok(b, sizeof(*(b))) && (b)->rep.size >= 12 && __CPROVER_rw_ok((b)->rep.data, 12))

int c_batch_count(const ldb_batch_t *batch)
__CPROVER_requires(BATCH_HDR_OK(batch))
__CPROVER_assigns()
__CPROVER_ensures(__CPROVER_return_value == HDR_COUNT(batch->rep.data))
;
void c_batch_set_count(ldb_batch_t *batch, int count)
__CPROVER_requires(BATCH_HDR_OK(batch))
__CPROVER_assigns(__CPROVER_object_upto(batch->rep.data + 8, 4))
__CPROVER_ensures(IS_LE32(batch->rep.data + 8, (uint32_t)count))
;
ldb_seqnum_t c_batch_sequence(const ldb_batch_t *batch)
__CPROVER_requires(BATCH_HDR_OK(batch))
__CPROVER_assigns()
__CPROVER_ensures(__CPROVER_return_value == HDR_SEQ(batch->rep.data))
;
void c_batch_set_sequence(ldb_batch_t *batch, ldb_seqnum_t seq)
__CPROVER_requires(BATCH_HDR_OK(batch))
__CPROVER_assigns(__CPROVER_object_upto(batch->rep.data, 8))
__CPROVER_ensures(IS_LE64(batch->rep.data, seq))
;
#define H_HDR_SETUP \
  ldb_batch_t b; IN_SIZE(in_n); IN_BUF(buf, in_n); SNAP_BUF(buf, in_n); \
  ASSUME(in_n >= 12); b.rep.data = buf; b.rep.size = in_n; b.rep.alloc = in_n
void h_count(void) { H_HDR_SETUP; int r = ldb_batch_count(&b); CANARY(); }
void h_sequence(void) { H_HDR_SETUP; ldb_seqnum_t r = ldb_batch_sequence(&b); CANARY(); }
void h_set_count(void) {
  H_HDR_SETUP; IN_INT(in_count); uint64_t seq0 = LE64_AT(buf); IN_SIZE(in_j); uint8_t old = in_j < in_n ? buf[in_j] : 0;
  ldb_batch_set_count(&b, in_count);
  CHECK(LE64_AT(buf) == seq0, "batch_set_count: the sequence field is untouched");
  CHECK(!(in_j >= 12 && in_j < in_n) || buf[in_j] == old, "batch_set_count: the records are untouched");
  CHECK(b.rep.data == buf && b.rep.size == in_n, "batch_set_count: rep not resized");
  CANARY();
}
void h_set_sequence(void) {
  H_HDR_SETUP; IN_U64(in_seq); uint32_t cnt0 = LE32_AT(buf + 8); IN_SIZE(in_j); uint8_t old = in_j < in_n ? buf[in_j] : 0;
  ldb_batch_set_sequence(&b, in_seq);
  CHECK(LE32_AT(buf + 8) == cnt0, "batch_set_sequence: the count field is untouched");
  CHECK(!(in_j >= 12 && in_j < in_n) || buf[in_j] == old, "batch_set_sequence: the records are untouched");
  CHECK(b.rep.data == buf && b.rep.size == in_n, "batch_set_sequence: rep not resized");
  CANARY();
}
/* header round trip on the real code */
void h_hdr_rt(void) {
  H_HDR_SETUP; IN_INT(in_count); IN_U64(in_seq);
  ldb_batch_set_count(&b, in_count); ldb_batch_set_sequence(&b, in_seq);
  CHECK(ldb_batch_count(&b) == in_count && ldb_batch_sequence(&b) == in_seq, "batch header: count and sequence read back what was set, independently");
  CANARY();
}

/* reset: rep = 12 zero bytes (sequence 0, count 0) */
void c_batch_reset(ldb_batch_t *batch)
__CPROVER_requires(__CPROVER_rw_ok(batch, sizeof(*batch)) && BUF_PRE(&batch->rep))
__CPROVER_assigns(batch->rep.data, batch->rep.size, batch->rep.alloc, __CPROVER_object_upto(batch->rep.data, batch->rep.alloc))
__CPROVER_frees(batch->rep.data)
__CPROVER_ensures(BUF_POST(&batch->rep) && batch->rep.size == 12)
__CPROVER_ensures(HDR_SEQ(batch->rep.data) == 0 && LE32_AT(batch->rep.data + 8) == 0)
;
#define MK_BATCH(b, cap) \
  ldb_batch_t b; IN_SIZE(in_alloc); IN_SIZE(in_size); IN_SIZE(in_j); IN_SIZE(in_k); \
  ASSUME(in_size <= in_alloc && in_alloc <= (cap)); \
  b.rep.alloc = in_alloc; b.rep.size = in_size; b.rep.data = in_alloc ? malloc(in_alloc) : NULL; \
  ASSUME(in_alloc == 0 || b.rep.data != NULL); \
  g_bj = in_j; g_bk = in_k; g_bold = (in_j < in_size) ? b.rep.data[in_j] : 0
void h_reset(void) {
  MK_BATCH(b, VERIF_OBJ_MAX);
  ldb_batch_reset(&b);
  if (in_alloc <= 64) { CANARY(); }
}

/* put / del: count + 1, and the record `tag ‖ varint32(klen) ‖ key [‖ varint32(vlen) ‖ value]` appended.
 * Sizes, header and growth for all sizes; record bytes when g_bcontent is set (bounded twins). */
#define OLD_B(b, i) ((uint32_t)__CPROVER_old((b)->rep.data[i]))
#define OLD_COUNT(b) (OLD_B(b, 8) | (OLD_B(b, 9) << 8) | (OLD_B(b, 10) << 16) | (OLD_B(b, 11) << 24))
#define OLD_SEQ(b) ((uint64_t)(OLD_B(b, 0) | (OLD_B(b, 1) << 8) | (OLD_B(b, 2) << 16) | (OLD_B(b, 3) << 24)) | \
                    ((uint64_t)(OLD_B(b, 4) | (OLD_B(b, 5) << 8) | (OLD_B(b, 6) << 16) | (OLD_B(b, 7) << 24)) << 32))
#define REC_PUT_LEN(k, v) (1 + V32_SIZE(k) + (k) + V32_SIZE(v) + (v))
#define REC_DEL_LEN(k) (1 + V32_SIZE(k) + (k))
/* count + 1 is computed in int: the header count must be below INT_MAX (see report: signed overflow otherwise) */
#define BATCH_PRE(b) (__CPROVER_rw_ok(b, sizeof(*(b))) && BUF_PRE(&(b)->rep) && BUF_KEEP_PRE(&(b)->rep) && (b)->rep.size >= 12 && \
                      HDR_COUNT((b)->rep.data) != 2147483647)
#define KV_OK(x, b) (__CPROVER_r_ok(x, sizeof(*(x))) && (x)->size <= VERIF_U32_MAX && SLICE_OK(x) && \
                     ((x)->size == 0 || !__CPROVER_same_object((x)->data, (b)->rep.data)) && BUF_CONTENT_PRE(&(b)->rep, (x)->size))
void c_batch_put(ldb_batch_t *batch, const ldb_slice_t *key, const ldb_slice_t *value)
__CPROVER_requires(BATCH_PRE(batch) && KV_OK(key, batch) && KV_OK(value, batch))
__CPROVER_assigns(batch->rep.data, batch->rep.size, batch->rep.alloc, __CPROVER_object_upto(batch->rep.data, batch->rep.alloc))
__CPROVER_frees(batch->rep.data)
__CPROVER_ensures(BUF_POST(&batch->rep) && batch->rep.size == __CPROVER_old(batch->rep.size) + REC_PUT_LEN(key->size, value->size))
__CPROVER_ensures(HDR_COUNT(batch->rep.data) == (int)(OLD_COUNT(batch) + 1u))
__CPROVER_ensures(HDR_SEQ(batch->rep.data) == OLD_SEQ(batch))
__CPROVER_ensures(g_bcontent ==> ((g_bj >= 8 && g_bj < 12) || BUF_KEEP_POST(&batch->rep, __CPROVER_old(batch->rep.size))))
__CPROVER_ensures(g_bcontent ==> batch->rep.data[__CPROVER_old(batch->rep.size)] == 1)
__CPROVER_ensures(g_bcontent ==> LPS_PREFIX_IS(batch->rep.data + __CPROVER_old(batch->rep.size) + 1, key->size))
__CPROVER_ensures(g_bcontent ==> (g_bk < key->size ==> batch->rep.data[__CPROVER_old(batch->rep.size) + 1 + V32_SIZE(key->size) + g_bk] == key->data[g_bk]))
__CPROVER_ensures(g_bcontent ==> LPS_PREFIX_IS(batch->rep.data + __CPROVER_old(batch->rep.size) + 1 + V32_SIZE(key->size) + key->size, value->size))
__CPROVER_ensures(g_bcontent ==> (g_bk < value->size ==> batch->rep.data[__CPROVER_old(batch->rep.size) + 1 + V32_SIZE(key->size) + key->size + V32_SIZE(value->size) + g_bk] == value->data[g_bk]))
;
void c_batch_del(ldb_batch_t *batch, const ldb_slice_t *key)
__CPROVER_requires(BATCH_PRE(batch) && KV_OK(key, batch))
__CPROVER_assigns(batch->rep.data, batch->rep.size, batch->rep.alloc, __CPROVER_object_upto(batch->rep.data, batch->rep.alloc))
__CPROVER_frees(batch->rep.data)
__CPROVER_ensures(BUF_POST(&batch->rep) && batch->rep.size == __CPROVER_old(batch->rep.size) + REC_DEL_LEN(key->size))
__CPROVER_ensures(HDR_COUNT(batch->rep.data) == (int)(OLD_COUNT(batch) + 1u))
__CPROVER_ensures(HDR_SEQ(batch->rep.data) == OLD_SEQ(batch))
__CPROVER_ensures(g_bcontent ==> ((g_bj >= 8 && g_bj < 12) || BUF_KEEP_POST(&batch->rep, __CPROVER_old(batch->rep.size))))
__CPROVER_ensures(g_bcontent ==> batch->rep.data[__CPROVER_old(batch->rep.size)] == 0)
__CPROVER_ensures(g_bcontent ==> LPS_PREFIX_IS(batch->rep.data + __CPROVER_old(batch->rep.size) + 1, key->size))
__CPROVER_ensures(g_bcontent ==> (g_bk < key->size ==> batch->rep.data[__CPROVER_old(batch->rep.size) + 1 + V32_SIZE(key->size) + g_bk] == key->data[g_bk]))
;
#define MK_KV(x, nm, buf, cap) IN_SIZE(nm); ASSUME(nm <= (cap)); IN_BUF(buf, nm); ldb_slice_t x; x.data = buf; x.size = nm; x.alloc = 0
#define H_PUT(fname, cap, kvcap, content) void fname(void) { \
  g_bcontent = (content); \
  MK_BATCH(b, cap); MK_KV(key, in_kn, kb, kvcap); MK_KV(val, in_vn, vb, kvcap); \
  ASSUME(in_size >= 12 && HDR_COUNT(b.rep.data) != 2147483647); \
  ldb_batch_put(&b, &key, &val); \
  if (in_alloc <= 64 && in_kn <= 64 && in_vn <= 64) { CANARY(); } \
}
#define H_DEL(fname, cap, kvcap, content) void fname(void) { \
  g_bcontent = (content); \
  MK_BATCH(b, cap); MK_KV(key, in_kn, kb, kvcap); \
  ASSUME(in_size >= 12 && HDR_COUNT(b.rep.data) != 2147483647); \
  ldb_batch_del(&b, &key); \
  if (in_alloc <= 64 && in_kn <= 64) { CANARY(); } \
}
H_PUT(h_put, VERIF_OBJ_MAX, VERIF_U32_MAX, 0)
H_PUT(h_put_b, BUF_CONTENT_MAX, 4, 1)
H_DEL(h_del, VERIF_OBJ_MAX, VERIF_U32_MAX, 0)
H_DEL(h_del_b, BUF_CONTENT_MAX, 4, 1)
