/* units/bat.c - proof units for src/write_batch.c (C04, C18, C11, C03, C01)
 *
 * The real write_batch.c is included unmodified (byte for byte); its callees in
 * util/slice.c, util/buffer.c and util/coding.h are replaced by the contracts
 * of contracts/buf.h and contracts/coding.h (enforced in groups buf / cod).  The environment of ldb_batch_iterate (the
 * handler callbacks, and ldb_memtable_add for ldb_batch_insert_into) is an
 * *independent decoder of the WriteBatch wire format*:
 *
 *    rep    := LE64 sequence ‖ LE32 count ‖ record*
 *    record := 0x01 varstring varstring | 0x00 varstring
 *    varstring := varint32 len ‖ len bytes
 *
 * Every callback is checked against the record the spec decoder finds at its
 * own cursor g_pos: right tag, key/value slices exactly the length-prefixed
 * strings of that record (pointer identity into rep), in order, none skipped.
 */
#include "verif.h"
#include "contracts/coding.h"
#include "contracts/buf.h"

#include "util/buffer.h"
#include "util/coding.h"
#include "util/internal.h"
#include "util/slice.h"
#include "util/status.h"
#include "dbformat.h"
#include "memtable.h"
#include "write_batch.h"

/* ------------------------------------------------------------------ ghost */
const uint8_t *g_rep;    /* batch->rep.data                                  */
size_t g_n;              /* batch->rep.size                                  */
size_t g_pos;            /* spec decoder cursor: offset of the next record   */
int g_calls;             /* records delivered so far                         */
int g_mode;              /* 0: handler stubs are the sink, 1: ldb_memtable_add is */
ldb_handler_t *g_h;      /* mode 0: the handler object                       */
ldb_memtable_t *g_mt;    /* mode 1: the memtable                             */
uint64_t g_seq0;         /* mode 1: sequence stored in the batch header      */

/* assert, then continue only on the good path (keeps later reads defined) */
#define SPEC_REQ(c, msg) __CPROVER_assert(c, msg); __CPROVER_assume(c)

/* number of bytes of the LEB128 group sequence at p (at most 5, at most m); 0 = none terminates */
static size_t spec_vlen(const uint8_t *p, size_t m) {
  if (m >= 1 && !(p[0] & 128)) return 1;
  if (m >= 2 && !(p[1] & 128)) return 2;
  if (m >= 3 && !(p[2] & 128)) return 3;
  if (m >= 4 && !(p[3] & 128)) return 4;
  if (m >= 5 && !(p[4] & 128)) return 5;
  return 0;
}
/* varstring at q with m bytes left is malformed: no terminated varint32 or the length exceeds what is left */
static int spec_vs_bad(const uint8_t *q, size_t m) {
  size_t l = spec_vlen(q, m);
  if (l == 0) return 1;
  return (size_t)V32_VAL(q, l) > m - l;
}
/* total encoded length of a well-formed varstring */
static size_t spec_vs_len(const uint8_t *q, size_t m) {
  size_t l = spec_vlen(q, m);
  return l + (size_t)V32_VAL(q, l);
}
/* the record at offset p (p < n) of rep is malformed */
static int spec_rec_bad(const uint8_t *rep, size_t p, size_t n) {
  const uint8_t *q = rep + p + 1;
  size_t m = n - p - 1;
  if (rep[p] > 1) return 1;
  if (spec_vs_bad(q, m)) return 1;
  if (rep[p] == 1) {
    size_t k = spec_vs_len(q, m);
    return spec_vs_bad(q + k, m - k);
  }
  return 0;
}

/* one record delivered to the sink */
static void spec_on_record(int type, const ldb_slice_t *key, const ldb_slice_t *value) {
  size_t p = g_pos, l1, l2 = 0, q;
  SPEC_REQ(p >= 12 && p < g_n, "batch: a record is delivered only while unread bytes remain after the 12-byte header");
  SPEC_REQ(g_rep[p] == type, "batch format: tag byte 1 = put (kTypeValue), 0 = delete (kTypeDeletion) decides the callback");
  l1 = spec_vlen(g_rep + p + 1, g_n - p - 1);
  SPEC_REQ(l1 != 0, "batch format: key length is a terminated varint32 inside rep");
  SPEC_REQ(key->size == (size_t)V32_VAL(g_rep + p + 1, l1), "batch format: key length is the varint32 after the tag");
  SPEC_REQ(key->size <= g_n - p - 1 - l1, "batch: key slice lies inside rep");
  SPEC_REQ(key->data == g_rep + p + 1 + l1, "batch format: key bytes follow their length prefix (pointer into rep)");
  q = p + 1 + l1 + key->size;
  if (type == 1) {
    l2 = spec_vlen(g_rep + q, g_n - q);
    SPEC_REQ(l2 != 0, "batch format: value length is a terminated varint32 inside rep");
    SPEC_REQ(value->size == (size_t)V32_VAL(g_rep + q, l2), "batch format: value length is the varint32 after the key");
    SPEC_REQ(value->size <= g_n - q - l2, "batch: value slice lies inside rep");
    SPEC_REQ(value->data == g_rep + q + l2, "batch format: value bytes follow their length prefix (pointer into rep)");
    q = q + l2 + value->size;
  }
  g_pos = q;
  g_calls++;
}

static void stub_put(ldb_handler_t *h, const ldb_slice_t *key, const ldb_slice_t *value) {
  __CPROVER_assert(g_mode == 0 && h == g_h, "batch_iterate: callbacks receive the caller's handler");
  __CPROVER_assert(__CPROVER_r_ok(key, sizeof(*key)) && __CPROVER_r_ok(value, sizeof(*value)), "batch_iterate: put gets readable key and value slices");
  spec_on_record(1, key, value);
}
static void stub_del(ldb_handler_t *h, const ldb_slice_t *key) {
  __CPROVER_assert(g_mode == 0 && h == g_h, "batch_iterate: callbacks receive the caller's handler");
  __CPROVER_assert(__CPROVER_r_ok(key, sizeof(*key)), "batch_iterate: del gets a readable key slice");
  spec_on_record(0, key, NULL);
}

/* memtable sink of ldb_batch_insert_into */
struct ldb_memtable_s { int dummy; };
ldb_memtable_t g_the_mt;

void ldb_memtable_add(ldb_memtable_t *mt, ldb_seqnum_t sequence, ldb_valtype_t type,
                      const ldb_slice_t *key, const ldb_slice_t *value) {
  __CPROVER_assert(g_mode == 1 && mt == g_mt, "batch_insert_into: entries go to the caller's memtable");
  __CPROVER_assert(type == LDB_TYPE_VALUE || type == LDB_TYPE_DELETION, "batch_insert_into: entry type is value or deletion");
  __CPROVER_assert(sequence == g_seq0 + (uint64_t)g_calls, "batch_insert_into: the i-th record of the batch is inserted with sequence seq(batch)+i");
  __CPROVER_assert(__CPROVER_r_ok(key, sizeof(*key)) && __CPROVER_r_ok(value, sizeof(*value)), "batch_insert_into: key and value slices readable");
  if (type == LDB_TYPE_DELETION)
    __CPROVER_assert(value->size == 0, "batch_insert_into: a deletion is inserted with an empty value");
  spec_on_record(type == LDB_TYPE_VALUE ? 1 : 0, key, value);
}

/* units that inline the real length-prefixed-slice reader instead of using its contract */
#ifdef BAT_INLINE_SLICE
#include "util/slice.c"
#endif
#include "write_batch.c"

/* =================================================================== iter */

#define BATCH_OK(b) (__CPROVER_r_ok(b, sizeof(*(b))) && ((b)->rep.size == 0 || __CPROVER_r_ok((b)->rep.data, (b)->rep.size)))
#define HDR_COUNT(rep) ((int)LE32_AT((rep) + 8))
#define HDR_SEQ(rep) LE64_AT(rep)
/* found++ is an int: 2 bytes is the shortest record, so this many bytes cannot overflow it */
#define BATCH_MAX_BYTES (12 + 2 * (size_t)2147483647)

int c_batch_iterate(const ldb_batch_t *batch, ldb_handler_t *handler)
__CPROVER_requires(BATCH_OK(batch) && __CPROVER_r_ok(handler, sizeof(*handler)))
__CPROVER_requires(batch->rep.size <= BATCH_MAX_BYTES)
__CPROVER_requires(handler->put == stub_put && handler->del == stub_del)
__CPROVER_requires(g_mode == 0 && g_h == handler && g_rep == batch->rep.data && g_n == batch->rep.size && g_pos == 12 && g_calls == 0)
__CPROVER_assigns(g_pos, g_calls)
/* every outcome */
__CPROVER_ensures(__CPROVER_return_value == LDB_OK || __CPROVER_return_value == LDB_CORRUPTION)
__CPROVER_ensures(g_n < 12 ==> (__CPROVER_return_value == LDB_CORRUPTION && g_calls == 0))
/* OK: the spec decoder consumed rep exactly and delivered exactly header-count records */
__CPROVER_ensures(__CPROVER_return_value == LDB_OK ==> (g_n >= 12 && g_pos == g_n && g_calls == HDR_COUNT(g_rep)))
/* CORRUPTION (with a header): stopped exactly at the first malformed record, or everything decoded and the count is wrong */
__CPROVER_ensures((__CPROVER_return_value == LDB_CORRUPTION && g_n >= 12) ==>
                  (g_pos <= g_n && (g_pos == g_n ? g_calls != HDR_COUNT(g_rep) : spec_rec_bad(g_rep, g_pos, g_n))))
;

void h_iterate(void) {
  ldb_batch_t b; ldb_handler_t h; int r;
  IN_SIZE(in_n); IN_U64(in_number);
  IN_BUF(buf, in_n); SNAP_BUF(buf, in_n);
  ASSUME(in_n <= BATCH_MAX_BYTES);
  b.rep.data = buf; b.rep.size = in_n; b.rep.alloc = in_n;
  h.state = NULL; h.number = in_number; h.put = stub_put; h.del = stub_del;
  g_mode = 0; g_h = &h; g_mt = NULL; g_seq0 = 0;
  g_rep = buf; g_n = in_n; g_pos = 12; g_calls = 0;
  r = ldb_batch_iterate(&b, &h);
  CHECK(h.number == in_number && h.state == NULL, "batch_iterate: the handler object itself is not written");
  CANARY();
}

/* bounded stand-in: rep of at most BAT_B bytes (<= (BAT_B-12)/2 records), record loop unwound */
#define BAT_B 24
void h_iterate_b(void) {
  ldb_batch_t b; ldb_handler_t h; int r;
  IN_SIZE(in_n); IN_U64(in_number);
  IN_BUF(buf, in_n); SNAP_BUF(buf, in_n);
  ASSUME(in_n <= BAT_B);
  b.rep.data = buf; b.rep.size = in_n; b.rep.alloc = in_n;
  h.state = NULL; h.number = in_number; h.put = stub_put; h.del = stub_del;
  g_mode = 0; g_h = &h; g_mt = NULL; g_seq0 = 0;
  g_rep = buf; g_n = in_n; g_pos = 12; g_calls = 0;
  r = ldb_batch_iterate(&b, &h);
  CHECK(h.number == in_number && h.state == NULL, "batch_iterate: the handler object itself is not written");
  CANARY();
}
