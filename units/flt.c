/* units/flt.c - proof units for src/table/filter_block.c and src/util/bloom.c
 * (C16, C18, C11, C01).  Both files are included unmodified.
 *
 * Filter block format (LevelDB table_format.md / filter_block.cc):
 *   [filter 0] ... [filter N-1]
 *   [offset of filter 0 : LE32] ... [offset of filter N-1 : LE32]
 *   [array_offset : LE32]          offset of the offset array
 *   [base_lg : 1 byte]             11: one filter per 2 KiB of file offset
 * filter i covers blocks whose file offset lies in [i << base_lg, (i+1) << base_lg);
 * filter i = bytes [offset[i], offset[i+1]) where offset[N] is the array_offset word.
 */
#include "verif.h"
#include "contracts/coding.h"

#include "util/array.h"
#include "util/bloom.h"
#include "util/buffer.h"
#include "util/coding.h"
#include "util/hash.h"
#include "util/internal.h"
#include "util/slice.h"
#include "table/filter_block.h"

#include "table/filter_block.c"
#ifndef FLT_NO_BLOOM
#include "util/bloom.c" /* left out of the reader/builder units: bloom_match would be a second candidate target of policy->match */
#endif

#ifndef VERIF_NATIVE
int nondet_int(void);
uint8_t nondet_u8(void);

/* ------------------------------------------------------- policy stub (ghost) */
int g_match_calls;
const ldb_bloom_t *g_match_bloom;
const uint8_t *g_match_fdata;
size_t g_match_flen;
const ldb_slice_t *g_match_key;
int g_match_ret;

static int stub_match(const ldb_bloom_t *bloom, const ldb_slice_t *filter, const ldb_slice_t *key) {
  __CPROVER_assert(filter->size == 0 || __CPROVER_r_ok(filter->data, filter->size), "filter_matches: the filter slice handed to the policy is readable");
  g_match_calls++;
  g_match_bloom = bloom; g_match_fdata = filter->data; g_match_flen = filter->size; g_match_key = key;
  g_match_ret = nondet_int() ? 1 : 0;
  return g_match_ret;
}

/* ================================================================ flt.read */

/* ldb_filter_init on arbitrary contents */
#define FI_N (contents->size)
#define FI_AO LE32_AT(contents->data + (FI_N - 5))
#define FI_UNUSABLE(fr) ((fr)->data == NULL && (fr)->offset == NULL && (fr)->num == 0)

void c_filter_init(ldb_filter_t *fr, const ldb_bloom_t *policy, const ldb_slice_t *contents)
__CPROVER_requires(__CPROVER_w_ok(fr, sizeof(*fr)) && __CPROVER_r_ok(contents, sizeof(*contents)))
__CPROVER_requires(__CPROVER_r_ok(contents->data, contents->size))
__CPROVER_assigns(*fr)
__CPROVER_ensures(fr->policy == policy)
/* too short for array_offset + base_lg: unusable (every lookup will say "may match") */
__CPROVER_ensures(FI_N >= 5 || (FI_UNUSABLE(fr) && fr->base_lg == 0))
/* base_lg = last byte (taken mod 64 so that the shift is defined) */
__CPROVER_ensures(FI_N < 5 || fr->base_lg == (size_t)(contents->data[FI_N - 1] & 63))
/* array_offset beyond the block: unusable */
__CPROVER_ensures(FI_N < 5 || FI_AO <= FI_N - 5 || FI_UNUSABLE(fr))
/* otherwise: data = block start, offset = start of the offset array, num = number of whole 4-byte entries before the array_offset word */
__CPROVER_ensures(FI_N < 5 || FI_AO > FI_N - 5 ||
                  (fr->data == contents->data && fr->offset == contents->data + FI_AO && fr->num == (FI_N - 5 - FI_AO) / 4))
;

void h_filter_init(void) {
  IN_SIZE(in_n); IN_BUF(buf, in_n); SNAP_BUF(buf, in_n);
  ldb_filter_t fr; ldb_bloom_t pol; ldb_slice_t c;
  c.data = buf; c.size = in_n; c.alloc = 0;
  ldb_filter_init(&fr, &pol, &c);
  /* consequence used by filter_matches: every offset-array entry it may read, including entry num, lies inside the block */
  CHECK(fr.num == 0 || (size_t)(fr.offset - fr.data) + 4 * fr.num + 4 <= in_n - 1, "filter_init: offset[0..num] lie inside the block");
  CANARY();
}

/* ldb_filter_matches: fr is in a state produced by ldb_filter_init on the
 * block (g_blk, g_blk_n).  Logical variables (bound by the requires clauses,
 * so that every byte of the block is read once in the specification):
 *   g_ao     = array_offset word of the block
 *   g_index  = block_offset >> base_lg
 *   g_start / g_limit = offset-array entries #index and #index+1 (when index < num) */
const uint8_t *g_blk; size_t g_blk_n;
size_t g_ao; uint32_t g_start, g_limit;
#define FM_RI(fr) ((fr)->base_lg < 64 && ((fr)->num == 0 || \
   (g_blk_n >= 5 && g_ao == LE32_AT(g_blk + (g_blk_n - 5)) && g_ao <= g_blk_n - 5 && \
    (fr)->data == g_blk && (fr)->offset == g_blk + g_ao && (fr)->num == (g_blk_n - 5 - g_ao) / 4)))
#define FM_INDEX (block_offset >> fr->base_lg)
#define FM_INRANGE (FM_INDEX < fr->num)
#define FM_USABLE (g_start <= g_limit && g_limit <= g_ao)

int c_filter_matches(const ldb_filter_t *fr, uint64_t block_offset, const ldb_slice_t *key)
__CPROVER_requires(__CPROVER_r_ok(fr, sizeof(*fr)) && __CPROVER_r_ok(key, sizeof(*key)))
__CPROVER_requires(__CPROVER_r_ok(g_blk, g_blk_n) && FM_RI(fr))
__CPROVER_requires(!FM_INRANGE || (g_start == LE32_AT(fr->offset + FM_INDEX * 4) && g_limit == LE32_AT(fr->offset + FM_INDEX * 4 + 4)))
__CPROVER_requires(__CPROVER_r_ok(fr->policy, sizeof(*fr->policy)) && fr->policy->match == stub_match && g_match_calls == 0)
__CPROVER_assigns(g_match_calls, g_match_bloom, g_match_fdata, g_match_flen, g_match_key, g_match_ret)
/* no filter for this block offset (unusable block, index beyond the array): may match, policy not asked */
__CPROVER_ensures(FM_INRANGE || (__CPROVER_return_value == 1 && g_match_calls == 0))
/* well-formed entry: the policy decides, on exactly filter #(block_offset >> base_lg) = [start, limit) and the caller's key */
__CPROVER_ensures(!FM_INRANGE || !FM_USABLE ||
   (g_match_calls == 1 && g_match_bloom == fr->policy && g_match_fdata == g_blk + g_start && g_match_flen == (size_t)(g_limit - g_start) &&
    g_match_key == key && __CPROVER_return_value == g_match_ret))
/* malformed entry (start > limit, or limit beyond the offset array): may match - never a false negative; except the empty filter start == limit: no match, as in LevelDB */
__CPROVER_ensures(!FM_INRANGE || FM_USABLE || (g_match_calls == 0 && __CPROVER_return_value == (g_start == g_limit ? 0 : 1)))
;

void h_filter_matches(void) {
  IN_SIZE(in_n); IN_BUF(buf, in_n); SNAP_BUF(buf, in_n);
  IN_U64(in_block_offset);
  ldb_filter_t fr; ldb_bloom_t pol; ldb_slice_t c, key;
  c.data = buf; c.size = in_n; c.alloc = 0;
  key.data = NULL; key.size = 0; key.alloc = 0;
  pol.match = stub_match; pol.build = NULL;
  ldb_filter_init(&fr, &pol, &c);      /* real initialiser (its own contract: flt.init) */
  g_blk = buf; g_blk_n = in_n; g_match_calls = 0;
  /* logical variables: arbitrary here, bound by the requires clauses of the contract */
  g_ao = nondet_size(); g_start = nondet_u32(); g_limit = nondet_u32();
  ASSUME(in_n < 5 || g_ao == LE32_AT(buf + (in_n - 5)));
  CHECK(FM_RI(&fr), "filter_init leaves the reader in the state filter_matches requires (offset array inside the block)");
  ldb_filter_matches(&fr, in_block_offset, &key);
  CANARY();
}

#ifndef FLT_NO_BLOOM
/* ================================================================ flt.bloom
 * bounded: <= 3 keys of <= 6 bytes, real ldb_hash */
#ifndef BL_MAXKEYS
#define BL_MAXKEYS 3
#define BL_MAXKLEN 6
#endif

static void bl_harness(size_t bpk, size_t k, size_t in_nkeys, size_t in_pre) {
  ldb_bloom_t pol; ldb_buffer_t dst; ldb_slice_t keys[BL_MAXKEYS], filter;
  uint8_t kb[BL_MAXKEYS][BL_MAXKLEN];
  uint8_t pre[4];
  size_t i, bytes, bits, j;
  int r;
  pol = *ldb_bloom_default; pol.bits_per_key = bpk; pol.k = k;
  for (i = 0; i < BL_MAXKEYS; i++) {
    size_t len = nondet_size();
    ASSUME(len <= BL_MAXKLEN);
    keys[i].data = kb[i]; keys[i].size = len; keys[i].alloc = 0;
  }
  /* dst already holds in_pre bytes (earlier filters): build must append */
  dst.data = NULL; dst.size = 0; dst.alloc = 0;
  if (in_pre > 0) {
    dst.data = malloc(in_pre); ASSUME(dst.data != NULL);
    dst.size = in_pre; dst.alloc = in_pre;
    for (i = 0; i < in_pre; i++) pre[i] = dst.data[i];
  }
  bloom_build(&pol, &dst, keys, in_nkeys);
  bits = in_nkeys * bpk; if (bits < 64) bits = 64;
  bytes = (bits + 7) / 8;
  CHECK(dst.size == in_pre + bytes + 1, "bloom_build: appends max(64, n*bits_per_key) bits rounded up to bytes, plus one byte");
  CHECK(dst.data[dst.size - 1] == k, "bloom_build: number of probes k stored in the last byte");
  for (i = 0; i < in_pre; i++)
    CHECK(dst.data[i] == pre[i], "bloom_build: earlier contents of dst unchanged");
  filter.data = dst.data + in_pre; filter.size = bytes + 1; filter.alloc = 0;
  j = nondet_size(); ASSUME(j < in_nkeys);
  r = bloom_match(&pol, &filter, &keys[j]);
  CHECK(r == 1, "bloom: every key passed to build matches the built filter (no false negative)");
}

void h_bloom_default(void) {
  IN_SIZE(in_nkeys); IN_SIZE(in_pre);
  ASSUME(in_nkeys <= BL_MAXKEYS && in_pre <= 4);
  /* case split so that the filter size (and the divisor of hash % bits) is a constant in each case */
  if (in_nkeys == 0) bl_harness(10, 6, 0, in_pre);
  else if (in_nkeys == 1) bl_harness(10, 6, 1, in_pre);
  else if (in_nkeys == 2) bl_harness(10, 6, 2, in_pre);
  else bl_harness(10, 6, BL_MAXKEYS, in_pre);
  CANARY();
}

void h_bloom_anyk(void) {
  IN_SIZE(in_nkeys); IN_SIZE(in_pre); IN_SIZE(in_bpk); IN_SIZE(in_k);
  ASSUME(in_nkeys <= BL_MAXKEYS && in_pre <= 4);
  ASSUME(in_bpk >= 1 && in_bpk <= 64 && in_k >= 1 && in_k <= 30);
  bl_harness(in_bpk, in_k, in_nkeys, in_pre);
  CANARY();
}

/* bloom_match on arbitrary filter bytes, the two format rules that do not
 * involve hashing: a filter shorter than 2 bytes matches nothing; a stored
 * probe count k > 30 is reserved for future encodings and matches everything */
void h_bloom_match(void) {
  IN_SIZE(in_n); IN_BUF(buf, in_n); SNAP_BUF(buf, in_n);
  ldb_slice_t filter, key; ldb_bloom_t pol; uint8_t kb[1];
  int r;
  ASSUME(in_n < 2 || buf[in_n - 1] > 30); /* restricts THIS unit to the two rules; the probing path is flt.bloom */
  filter.data = buf; filter.size = in_n; filter.alloc = 0;
  key.data = kb; key.size = 1; key.alloc = 0;
  r = bloom_match(&pol, &filter, &key);
  CHECK(in_n >= 2 || r == 0, "bloom_match: a filter shorter than 2 bytes matches nothing (LevelDB)");
  CHECK(in_n < 2 || r == 1, "bloom_match: k > 30 is reserved: treated as a match");
  CANARY();
}
#endif /* !FLT_NO_BLOOM */
#endif /* !VERIF_NATIVE */
