/* units/edit_rt.c - export layout and export -> import round trip of version edits (C17, C14)
 *
 * Everything is the real repository code: version_edit.c (included), and
 * util/buffer.c, util/slice.c, util/vector.c, util/rbt.c, dbformat.c,
 * util/internal.c (linked).  The edit is built through the public setters.
 * Bounded: <= 2 entries per list, keys 8..12 bytes, comparator name <= 8 bytes;
 * scalar fields are arbitrary 64-bit values, presence flags arbitrary.
 */
#include "verif.h"
#include "contracts/coding.h"
#include "contracts/buf.h"
#include "contracts/edit.h"

#include "version_edit.c"

#define KEY_MAX 12
#define NAME_MAX 8
#define LIST_MAX 2

size_t nondet_size(void);

/* an arbitrary internal key of 8..12 arbitrary bytes (owned buffer, as ldb_ikey_t is) */
static void mk_key(ldb_ikey_t *k, size_t len) {
  uint8_t *d = malloc(KEY_MAX);
  __CPROVER_assume(d != NULL);
  __CPROVER_assume(len >= 8 && len <= KEY_MAX);
  k->data = d; k->size = len; k->alloc = KEY_MAX;
}

/* the model of what was put in (kept by the harness, independent of the edit's storage) */
struct in_edit_s {
  int has_cmp, has_log, has_prev, has_next, has_seq;
  char name[NAME_MAX + 1]; size_t name_len;
  uint64_t log, prev, next, seq;
  size_t ncp, ndel, nnew;
  int cp_level[LIST_MAX]; ldb_ikey_t cp_key[LIST_MAX];
  int del_level[LIST_MAX]; uint64_t del_num[LIST_MAX];
  int new_level[LIST_MAX]; uint64_t new_num[LIST_MAX], new_size[LIST_MAX]; ldb_ikey_t new_small[LIST_MAX], new_large[LIST_MAX];
} M;

#define WHICH_SCALARS 1
#define WHICH_CP 2
#define WHICH_DEL 4
#define WHICH_NEW 8

static void build_edit(ldb_edit_t *e, int which, size_t listmax) {
  size_t i;
  ldb_edit_init(e);
  M.has_cmp = M.has_log = M.has_prev = M.has_next = M.has_seq = 0;
  M.ncp = M.ndel = M.nnew = 0; M.name_len = 0;
  if (which & WHICH_SCALARS) {
    IN_INT(in_flags); IN_U64(in_log); IN_U64(in_prev); IN_U64(in_next); IN_U64(in_seq); IN_SIZE(in_name_len);
    M.log = in_log; M.prev = in_prev; M.next = in_next; M.seq = in_seq;
    if (in_flags & 1) {
      ASSUME(in_name_len <= NAME_MAX);
      for (i = 0; i < NAME_MAX; i++) ASSUME(i >= in_name_len || M.name[i] != 0);
      M.name[in_name_len] = 0; M.name_len = in_name_len; M.has_cmp = 1;
      ldb_edit_set_comparator_name(e, M.name);
    }
    if (in_flags & 2) { M.has_log = 1; ldb_edit_set_log_number(e, in_log); }
    if (in_flags & 4) { M.has_prev = 1; ldb_edit_set_prev_log_number(e, in_prev); }
    if (in_flags & 8) { M.has_next = 1; ldb_edit_set_next_file(e, in_next); }
    if (in_flags & 16) { M.has_seq = 1; ldb_edit_set_last_sequence(e, in_seq); }
  }
  if (which & WHICH_CP) {
    IN_SIZE(in_ncp); ASSUME(in_ncp <= listmax); M.ncp = in_ncp;
    for (i = 0; i < in_ncp; i++) {
      IN_INT(in_level); IN_SIZE(in_klen);
      ASSUME(in_level >= 0 && in_level < REF_NUM_LEVELS);
      M.cp_level[i] = in_level; mk_key(&M.cp_key[i], in_klen);
      ldb_edit_set_compact_pointer(e, in_level, &M.cp_key[i]);
    }
  }
  if (which & WHICH_DEL) {
    IN_SIZE(in_ndel); ASSUME(in_ndel <= listmax); M.ndel = in_ndel;
    for (i = 0; i < in_ndel; i++) {
      IN_INT(in_level); IN_U64(in_num);
      ASSUME(in_level >= 0 && in_level < REF_NUM_LEVELS);
      /* the deleted-file collection is a set ordered by (level, number): the model keeps distinct entries in that order */
      if (i == 1) ASSUME(M.del_level[0] < in_level || (M.del_level[0] == in_level && M.del_num[0] < in_num));
      M.del_level[i] = in_level; M.del_num[i] = in_num;
    }
    /* inserted in arbitrary order */
    if (in_ndel == 2 && (nondet_size() & 1)) {
      ldb_edit_remove_file(e, M.del_level[1], M.del_num[1]);
      ldb_edit_remove_file(e, M.del_level[0], M.del_num[0]);
    } else {
      for (i = 0; i < in_ndel; i++) ldb_edit_remove_file(e, M.del_level[i], M.del_num[i]);
    }
  }
  if (which & WHICH_NEW) {
    IN_SIZE(in_nnew); ASSUME(in_nnew <= listmax); M.nnew = in_nnew;
    for (i = 0; i < in_nnew; i++) {
      IN_INT(in_level); IN_U64(in_num); IN_U64(in_fsize); IN_SIZE(in_slen); IN_SIZE(in_llen);
      ASSUME(in_level >= 0 && in_level < REF_NUM_LEVELS);
      M.new_level[i] = in_level; M.new_num[i] = in_num; M.new_size[i] = in_fsize;
      mk_key(&M.new_small[i], in_slen); mk_key(&M.new_large[i], in_llen);
      ldb_edit_add_file(e, in_level, in_num, in_fsize, &M.new_small[i], &M.new_large[i]);
    }
  }
}

/* bytes [p, p+n) equal the key k: length and an arbitrary position */
#define BYTES_EQ(p, n, kd, kn, j) ((n) == (kn) && (!((j) < (kn)) || (p)[j] == (kd)[j]))

/* ------------------------------------------------------------- edit.layout
 * ldb_edit_export emits, in this order: tag 1 (len-prefixed comparator name),
 * 2 log_number, 9 prev_log_number, 3 next_file_number, 4 last_sequence
 * (varint64 each, only if present), then every compact pointer as 5 (level,
 * len-prefixed key), every deleted file as 6 (level, number) in (level,
 * number) order, every new file as 7 (level, number, size, smallest,
 * largest).  The output is walked with the reference decoder. */
#define EXPECT_REC(cond, msg) do { \
    CHECK(pos < out.size, "edit_export: a record is emitted for every present field / list entry"); \
    len = ref_record(&R, out.data + pos, out.size - pos); \
    CHECK(len > 0, "edit_export: every emitted record is well formed"); \
    CHECK(cond, msg); \
    pos += len; \
  } while (0)

static void check_layout(int which, size_t listmax) {
  ldb_edit_t e; ldb_buffer_t out; ref_rec_t R; size_t pos = 0, len, i; IN_SIZE(in_j);
  build_edit(&e, which, listmax);
  ldb_buffer_init(&out);
  ldb_buffer_grow(&out, 160); /* destination with enough capacity: reallocation during export is buf.expand's business, not this unit's */
  ldb_edit_export(&out, &e);
  if (M.has_cmp) EXPECT_REC(R.tag == 1 && BYTES_EQ(R.k1, R.k1n, (const uint8_t *)M.name, M.name_len, in_j), "edit_export: first tag 1 with the length-prefixed comparator name");
  if (M.has_log) EXPECT_REC(R.tag == 2 && R.num == M.log, "edit_export: then tag 2 with log_number as varint64");
  if (M.has_prev) EXPECT_REC(R.tag == 9 && R.num == M.prev, "edit_export: then tag 9 with prev_log_number as varint64");
  if (M.has_next) EXPECT_REC(R.tag == 3 && R.num == M.next, "edit_export: then tag 3 with next_file_number as varint64");
  if (M.has_seq) EXPECT_REC(R.tag == 4 && R.num == M.seq, "edit_export: then tag 4 with last_sequence as varint64");
  for (i = 0; i < M.ncp; i++)
    EXPECT_REC(R.tag == 5 && (int)R.level == M.cp_level[i] && BYTES_EQ(R.k1, R.k1n, M.cp_key[i].data, M.cp_key[i].size, in_j), "edit_export: compact pointers as tag 5 (level, length-prefixed key), in insertion order");
  for (i = 0; i < M.ndel; i++)
    EXPECT_REC(R.tag == 6 && (int)R.level == M.del_level[i] && R.num == M.del_num[i], "edit_export: deleted files as tag 6 (level, number), ordered by (level, number)");
  for (i = 0; i < M.nnew; i++)
    EXPECT_REC(R.tag == 7 && (int)R.level == M.new_level[i] && R.num == M.new_num[i] && R.fsize == M.new_size[i] &&
               BYTES_EQ(R.k1, R.k1n, M.new_small[i].data, M.new_small[i].size, in_j) && BYTES_EQ(R.k2, R.k2n, M.new_large[i].data, M.new_large[i].size, in_j),
               "edit_export: new files as tag 7 (level, number, size, smallest, largest), in insertion order");
  CHECK(pos == out.size, "edit_export: nothing else is emitted");
}

void h_layout_scalars(void) { check_layout(WHICH_SCALARS, 0); CANARY(); }
void h_layout_cp(void) { check_layout(WHICH_CP, LIST_MAX); CANARY(); }
void h_layout_del(void) { check_layout(WHICH_DEL, LIST_MAX); CANARY(); }
void h_layout_new(void) { check_layout(WHICH_NEW, LIST_MAX); CANARY(); }
void h_layout_all1(void) { check_layout(WHICH_SCALARS | WHICH_CP | WHICH_DEL | WHICH_NEW, 1); CANARY(); }

/* ----------------------------------------------------------------- edit.rt
 * decode(encode(e)) = e */
static void check_rt(int which, size_t listmax) {
  ldb_edit_t e, d; ldb_buffer_t out; ldb_slice_t rec; int r; size_t i; IN_SIZE(in_j);
  rb_iter_t it;
  build_edit(&e, which, listmax);
  ldb_buffer_init(&out);
  ldb_buffer_grow(&out, 160); /* destination with enough capacity: reallocation during export is buf.expand's business, not this unit's */
  ldb_edit_export(&out, &e);
  rec.data = out.data; rec.size = out.size; rec.alloc = 0;
  ldb_edit_init(&d);
  r = ldb_edit_import(&d, &rec);
  CHECK(r == 1, "edit round trip: the exported edit is accepted by the decoder");
  if (r != 1) return;
  CHECK(d.has_comparator == M.has_cmp && d.has_log_number == M.has_log && d.has_prev_log_number == M.has_prev &&
        d.has_next_file_number == M.has_next && d.has_last_sequence == M.has_seq, "edit round trip: presence flags survive");
  CHECK(!M.has_cmp || BYTES_EQ(d.comparator.data, d.comparator.size, (const uint8_t *)M.name, M.name_len, in_j), "edit round trip: comparator name survives");
  CHECK((!M.has_log || d.log_number == M.log) && (!M.has_prev || d.prev_log_number == M.prev) &&
        (!M.has_next || d.next_file_number == M.next) && (!M.has_seq || d.last_sequence == M.seq), "edit round trip: 64-bit scalar fields survive at full width");
  CHECK((M.has_log || d.log_number == 0) && (M.has_prev || d.prev_log_number == 0) && (M.has_next || d.next_file_number == 0) && (M.has_seq || d.last_sequence == 0),
        "edit round trip: absent scalar fields stay 0");
  CHECK(d.compact_pointers.length == M.ncp && d.deleted_files.size == M.ndel && d.new_files.length == M.nnew, "edit round trip: list lengths survive");
  for (i = 0; i < M.ncp && i < d.compact_pointers.length; i++) {
    const ikey_entry_t *x = d.compact_pointers.items[i];
    CHECK(x->level == M.cp_level[i] && BYTES_EQ(x->key.data, x->key.size, M.cp_key[i].data, M.cp_key[i].size, in_j), "edit round trip: compact pointers survive in order");
  }
  i = 0;
  rb_set_each(&d.deleted_files, it) {
    const file_entry_t *x = rb_key_ptr(it);
    CHECK(i < M.ndel && x->level == M.del_level[i] && x->number == M.del_num[i], "edit round trip: deleted-file set survives");
    i++;
  }
  CHECK(i == M.ndel, "edit round trip: deleted-file set has the same cardinality");
  for (i = 0; i < M.nnew && i < d.new_files.length; i++) {
    const meta_entry_t *x = d.new_files.items[i];
    CHECK(x->level == M.new_level[i] && x->meta.number == M.new_num[i] && x->meta.file_size == M.new_size[i] &&
          BYTES_EQ(x->meta.smallest.data, x->meta.smallest.size, M.new_small[i].data, M.new_small[i].size, in_j) &&
          BYTES_EQ(x->meta.largest.data, x->meta.largest.size, M.new_large[i].data, M.new_large[i].size, in_j), "edit round trip: new files survive in order (level, number, size, smallest, largest)");
  }
}

void h_rt_scalars(void) { check_rt(WHICH_SCALARS, 0); CANARY(); }
void h_rt_cp(void) { check_rt(WHICH_CP, LIST_MAX); CANARY(); }
void h_rt_del(void) { check_rt(WHICH_DEL, LIST_MAX); CANARY(); }
void h_rt_new(void) { check_rt(WHICH_NEW, LIST_MAX); CANARY(); }
void h_rt_all1(void) { check_rt(WHICH_SCALARS | WHICH_CP | WHICH_DEL | WHICH_NEW, 1); CANARY(); }
