/* units/it.c - proof units for src/table/iterator.c: ldb_iter_compare and the
 * derived seeks ldb_iter_seek_{ge,gt,le,lt}  (C07)
 *
 * The real iterator.c is included unmodified.  The child iterator is a GHOST
 * CURSOR over an abstract strictly sorted sequence of SYMBOLIC length g_len.
 * The sequence is not stored: with respect to one target a strictly sorted
 * sequence is completely described by
 *     g_ge  = index of the first element >= target   (0 .. g_len; g_len = none)
 *     g_eq  = the element at g_ge equals the target   (only if g_ge < g_len)
 * so elements at i < g_ge are < target, the element at g_ge is == or > target
 * and elements at i > g_ge are > target.  The comparator stub answers exactly
 * that (with arbitrary magnitudes); the key of position i is the 1-byte slice
 * g_keys + i of a heap object of g_len bytes, so keys identify positions.
 * The cursor position g_pos is 0 .. g_len, g_len meaning "not valid".
 */
#include "verif.h"
#define LDB_ITERATOR_C /* as iterator.c does before including iterator.h: real functions, not the macros */
#include "util/comparator.h"
#include "util/types.h"
#include "table/iterator.h"

/* ------------------------------------------------------------------ ghost */
struct it_ghost {
  size_t len;              /* length of the child sequence (symbolic)          */
  size_t ge;               /* first index with key >= target, len if none      */
  int eq;                  /* key at ge == target                              */
  size_t pos;              /* cursor; len = invalid                            */
  const uint8_t *keys;     /* object of len bytes; key(i) = (keys + i, 1)      */
  const ldb_slice_t *target;
  int child_tag;           /* the object iter->ptr points to                   */
  int seeks, moves;        /* calls to seek / to next,prev,last,first          */
  int neg, pos_mag;        /* magnitudes the comparator answers with           */
} T;

static void child_clear(void *p) { (void)p; }
static int child_valid(const void *p) {
  __CPROVER_assert(p == &T.child_tag, "child op on the wrapped iterator");
  return T.pos < T.len;
}
static void child_first(void *p) {
  __CPROVER_assert(p == &T.child_tag, "child op on the wrapped iterator");
  T.pos = 0; T.moves++;
}
static void child_last(void *p) {
  __CPROVER_assert(p == &T.child_tag, "child op on the wrapped iterator");
  T.pos = T.len > 0 ? T.len - 1 : T.len; T.moves++;
}
static void child_seek(void *p, const ldb_slice_t *target) {
  __CPROVER_assert(p == &T.child_tag, "child op on the wrapped iterator");
  __CPROVER_assert(target == T.target, "child seek: the caller's target is passed through");
  T.pos = T.ge; T.seeks++;
}
static void child_next(void *p) {
  __CPROVER_assert(p == &T.child_tag, "child op on the wrapped iterator");
  __CPROVER_assert(T.pos < T.len, "child next: REQUIRES valid()");
  T.pos++; T.moves++;
}
static void child_prev(void *p) {
  __CPROVER_assert(p == &T.child_tag, "child op on the wrapped iterator");
  __CPROVER_assert(T.pos < T.len, "child prev: REQUIRES valid()");
  T.pos = T.pos > 0 ? T.pos - 1 : T.len; T.moves++;
}
static ldb_slice_t child_key(const void *p) {
  ldb_slice_t k;
  __CPROVER_assert(p == &T.child_tag, "child op on the wrapped iterator");
  __CPROVER_assert(T.pos < T.len, "child key: REQUIRES valid()");
  k.data = (uint8_t *)T.keys + T.pos; k.size = 1; k.alloc = 0;
  return k;
}
static ldb_slice_t child_value(const void *p) {
  ldb_slice_t v = {NULL, 0, 0};
  __CPROVER_assert(0, "child value: the derived seeks look at keys only");
  return v;
}
static int child_status(const void *p) { (void)p; return 0; }

static const ldb_itertbl_t child_table = {
  child_clear, child_valid, child_first, child_last, child_seek, child_next, child_prev, child_key, child_value, child_status
};

/* comparator consistent with the abstract sequence; x must be a key of the sequence, y the target */
static int stub_compare(const ldb_comparator_t *c, const ldb_slice_t *x, const ldb_slice_t *y) {
  size_t i;
  __CPROVER_assert(y == T.target, "compare: right operand is the seek target");
  __CPROVER_assert(x->size == 1 && __CPROVER_same_object(x->data, T.keys), "compare: left operand is a key of the child");
  i = (size_t)(x->data - T.keys);
  __CPROVER_assert(i < T.len, "compare: left operand is a key of the child");
  if (i < T.ge) return T.neg;
  if (i == T.ge && T.eq) return 0;
  return T.pos_mag;
}
static const ldb_comparator_t stub_cmp = { "stub", stub_compare, NULL, NULL, NULL, NULL };

#include "table/iterator.c"

/* ------------------------------------------------------------- contracts */
/* sorted-map cursor specification, as positions (len = invalid) */
#define HAS_EQ (T.ge < T.len && T.eq)
#define SPEC_GE (T.ge)                                          /* first key >= target */
#define SPEC_GT (HAS_EQ ? T.ge + 1 : T.ge)                      /* first key >  target */
#define SPEC_LE (HAS_EQ ? T.ge : (T.ge > 0 ? T.ge - 1 : T.len)) /* last  key <= target */
#define SPEC_LT (T.ge > 0 ? T.ge - 1 : T.len)                   /* last  key <  target */

#define IT_PRE(it_, tg_) \
  (__CPROVER_r_ok(it_, sizeof(*(it_))) && (it_)->ptr == &T.child_tag && (it_)->table == &child_table && (it_)->cmp == &stub_cmp && \
   (tg_) == T.target && T.ge <= T.len && T.pos <= T.len && T.neg < 0 && T.pos_mag > 0 && \
   (T.len == 0 || __CPROVER_r_ok(T.keys, T.len)) && T.seeks == 0 && T.moves == 0)

void c_iter_seek_ge(ldb_iter_t *iter, const ldb_slice_t *target)
__CPROVER_requires(IT_PRE(iter, target))
__CPROVER_assigns(T.pos, T.seeks, T.moves)
__CPROVER_ensures(T.pos == SPEC_GE && T.seeks == 1 && T.moves == 0)
;
void c_iter_seek_gt(ldb_iter_t *iter, const ldb_slice_t *target)
__CPROVER_requires(IT_PRE(iter, target))
__CPROVER_assigns(T.pos, T.seeks, T.moves)
__CPROVER_ensures(T.pos == SPEC_GT && T.seeks == 1 && T.moves <= 1)
;
void c_iter_seek_le(ldb_iter_t *iter, const ldb_slice_t *target)
__CPROVER_requires(IT_PRE(iter, target))
__CPROVER_assigns(T.pos, T.seeks, T.moves)
__CPROVER_ensures(T.pos == SPEC_LE && T.seeks == 1 && T.moves <= 1)
;
void c_iter_seek_lt(ldb_iter_t *iter, const ldb_slice_t *target)
__CPROVER_requires(IT_PRE(iter, target))
__CPROVER_assigns(T.pos, T.seeks, T.moves)
__CPROVER_ensures(T.pos == SPEC_LT && T.seeks == 1 && T.moves <= 1)
;
/* compare: sign of (current key vs key), cursor untouched */
int c_iter_compare(const ldb_iter_t *iter, const ldb_slice_t *key)
__CPROVER_requires(IT_PRE(iter, key) && T.pos < T.len)
__CPROVER_assigns()
__CPROVER_ensures(T.pos < T.ge ? __CPROVER_return_value < 0 : (T.pos == T.ge && T.eq) ? __CPROVER_return_value == 0 : __CPROVER_return_value > 0)
;

static void setup(ldb_iter_t *it, ldb_slice_t *target) {
  IN_SIZE(in_len); IN_SIZE(in_ge); IN_INT(in_eq); IN_SIZE(in_pos); IN_INT(in_neg); IN_INT(in_posmag);
  uint8_t *keys = malloc(in_len);
  ASSUME(keys != NULL);
  ASSUME(in_ge <= in_len && in_pos <= in_len && in_neg < 0 && in_posmag > 0);
  T.len = in_len; T.ge = in_ge; T.eq = in_eq != 0; T.pos = in_pos; T.keys = keys; T.target = target;
  T.seeks = 0; T.moves = 0; T.neg = in_neg; T.pos_mag = in_posmag;
  it->ptr = &T.child_tag; it->table = &child_table; it->cmp = &stub_cmp;
  it->cleanup_head.func = NULL; it->cleanup_head.next = NULL;
  target->data = NULL; target->size = 0; target->alloc = 0;
}

void h_seek_ge(void) { ldb_iter_t it; ldb_slice_t t; setup(&it, &t); ldb_iter_seek_ge(&it, &t); CANARY(); }
void h_seek_gt(void) { ldb_iter_t it; ldb_slice_t t; setup(&it, &t); ldb_iter_seek_gt(&it, &t); CANARY(); }
void h_seek_le(void) { ldb_iter_t it; ldb_slice_t t; setup(&it, &t); ldb_iter_seek_le(&it, &t); CANARY(); }
void h_seek_lt(void) { ldb_iter_t it; ldb_slice_t t; setup(&it, &t); ldb_iter_seek_lt(&it, &t); CANARY(); }
void h_compare(void) { ldb_iter_t it; ldb_slice_t t; setup(&it, &t); ASSUME(T.pos < T.len); ldb_iter_compare(&it, &t); CANARY(); }
