/* units/dbbg.c - ldb_background_compaction as a whole (src/db_impl.c)
 *   db.bgcompact : the real function against its carrier c_background_compaction (contracts/dbbg.h) - the contract
 *                  db.bg uses - plus the call protocol of every branch                 (C12 E3, C13 G5, C14, C09)
 *
 *   branch 1  immutable memtable present  -> ldb_compact_memtable only
 *   branch 2  nothing picked              -> nothing changes
 *   branch 3  trivial move                -> one edit (detail: dbc.trivial)
 *   branch 4  real compaction             -> do_compaction_work, error latched on failure, cleanup_compaction (pending
 *                                            entries released), inputs released, THEN the collector - under its
 *                                            precondition (contracts/dbgc.h) - and the compaction object destroyed
 *   manual requests (branches 2 and 4)    -> range picked from the request, progress recorded in it, request consumed
 *
 * The callees ldb_compact_memtable, ldb_do_compaction_work, ldb_cleanup_compaction and ldb_remove_obsolete_files are
 * replaced by their carriers; version-set functions are ghost models.
 */
#include "verif.h"
int nondet_int(void);
uint64_t nondet_u64(void);

#include "db_impl.c"

#define SHUT(db) (*(int *)&(db)->shutting_down)
#define HASIMM(db) (*(int *)&(db)->has_imm)

ldb_versions_t g_versions; ldb_compaction_t g_c; ldb_memtable_t g_imm_obj;
ldb_filemeta_t g_f0, g_f1; void *g_in0[2];
ldb_manual_t g_manual; ldb_ikey_t g_mbegin, g_mend;
ldb_compaction_t *g_pick_result; int g_is_trivial;
unsigned g_pick_calls, g_range_calls, g_trivial_calls, g_cdestroy_calls, g_release_calls, g_apply_calls, g_broadcasts;
int g_range_level; const ldb_ikey_t *g_range_begin, *g_range_end;
int g_apply_rc; unsigned g_rm_calls, g_af_calls;
const ldb_ikey_t *g_copy_src; ldb_ikey_t *g_copy_dst; unsigned g_copies;
unsigned g_cl_at_release;        /* ordering observation */
#define DBBG_UNIT_GHOST , g_pick_calls, g_range_calls, g_trivial_calls, g_cdestroy_calls, g_release_calls, g_apply_calls, g_broadcasts, g_range_level, g_range_begin, g_range_end, \
  g_apply_rc, g_rm_calls, g_af_calls, g_copy_src, g_copy_dst, g_copies, g_cl_at_release
#include "contracts/dbgc.h"
#include "contracts/dbbg.h"

void ldb_cond_broadcast(ldb_cond_t *cv) { __CPROVER_assert(cv == &g_db->background_work_finished_signal && g_held, "broadcast on the background signal, under the mutex"); g_broadcasts++; }
void ldb_log(ldb_logger_t *logger, const char *fmt, ...) { }
const char *ldb_strerror(int code) { return "e"; }
const char *ldb_versions_summary(const ldb_versions_t *vset, char *scratch) { return "s"; }
void *ldb_malloc(size_t size) { void *p = malloc(size); __CPROVER_assume(p != NULL); return p; }
void ldb_vector_init(ldb_vector_t *z) { z->items = NULL; z->length = 0; z->alloc = 0; }
void *ldb_vector_top(const ldb_vector_t *z) { __CPROVER_assert(z->length >= 1, "top of a non-empty vector"); return z->items[z->length - 1]; }
void ldb_ikey_copy(ldb_ikey_t *z, const ldb_ikey_t *x) { g_copies++; g_copy_dst = z; g_copy_src = x; }

ldb_compaction_t *ldb_versions_pick_compaction(ldb_versions_t *vset) { __CPROVER_assert(g_held && vset == g_db->versions, "compaction picked under the mutex"); g_pick_calls++; return g_pick_result; }
ldb_compaction_t *ldb_versions_compact_range(ldb_versions_t *vset, int level, const ldb_ikey_t *begin, const ldb_ikey_t *end) {
  __CPROVER_assert(g_held && vset == g_db->versions, "manual range picked under the mutex");
  g_range_calls++; g_range_level = level; g_range_begin = begin; g_range_end = end; return g_pick_result;
}
int ldb_compaction_is_trivial_move(const ldb_compaction_t *c) { __CPROVER_assert(c == &g_c, "trivial-move test on the picked compaction"); g_trivial_calls++; return g_is_trivial; }
void ldb_compaction_release_inputs(ldb_compaction_t *c) {
  __CPROVER_assert(c == &g_c && g_held, "the inputs' version is unpinned under the mutex");
  g_release_calls++; g_cl_at_release = g_cl_calls;
}
void ldb_compaction_destroy(ldb_compaction_t *c) { __CPROVER_assert(c == &g_c && g_held, "the picked compaction is destroyed under the mutex"); g_cdestroy_calls++; }
void ldb_edit_remove_file(ldb_edit_t *edit, int level, uint64_t number) { g_rm_calls++; }
void ldb_edit_add_file(ldb_edit_t *edit, int level, uint64_t number, uint64_t file_size, const ldb_ikey_t *smallest, const ldb_ikey_t *largest) { g_af_calls++; }
int ldb_versions_apply(ldb_versions_t *vset, ldb_edit_t *edit, ldb_mutex_t *mu) {
  __CPROVER_assert(g_held && mu == &g_db->mutex && vset == g_db->versions && edit == &g_c.edit, "apply: the compaction's edit, mutex held");
  g_apply_calls++; g_apply_rc = nondet_int();
  if (g_apply_rc == LDB_OK) g_gc_allowed = 1;
  return g_apply_rc;
}

void h_bgcompact(void) {
  ldb_t *db = malloc(sizeof(ldb_t));
  int had_imm = nondet_int() ? 1 : 0, manual = nondet_int() ? 1 : 0, n_in0;
  unsigned gc0; const ldb_ikey_t *begin0, *end0;
  __CPROVER_assume(db != NULL);
  g_db = db; db->versions = &g_versions;
  g_held = 1; g_locks = 1; g_unlocks = 0;
  g_cm_calls = 0; g_bw_calls = 0; g_cl_calls = 0; g_gc_calls = 0; g_gc_allowed = 0; g_unprotected_outputs = 0;
  g_pick_calls = g_range_calls = g_trivial_calls = g_cdestroy_calls = g_release_calls = g_apply_calls = g_broadcasts = 0;
  g_rm_calls = g_af_calls = 0; g_copies = 0; g_copied_pending = 0; g_added_versions = 0; g_removed_total = 0;
  /* db.bg: background work runs only without a latched error and not during shutdown */
  __CPROVER_assume(db->bg_error == LDB_OK && SHUT(db) == 0);
  db->imm = had_imm ? &g_imm_obj : NULL; HASIMM(db) = had_imm;
  db->manual_compaction = manual ? &g_manual : NULL;
  g_manual.level = nondet_int(); g_manual.done = 0; g_manual.begin = nondet_int() ? &g_mbegin : NULL; g_manual.end = nondet_int() ? &g_mend : NULL;
  begin0 = g_manual.begin; end0 = g_manual.end;
  g_pick_result = nondet_int() ? &g_c : NULL;
  g_is_trivial = nondet_int() ? 1 : 0;
  n_in0 = nondet_int() ? 1 : 2;
  g_in0[0] = &g_f0; g_in0[1] = &g_f1;
  g_c.inputs[0].items = g_in0; g_c.inputs[0].length = g_is_trivial ? 1 : (size_t)n_in0; g_c.inputs[0].alloc = 2;
  g_c.inputs[1].items = NULL; g_c.inputs[1].length = 0; g_c.inputs[1].alloc = 0;
  g_c.level = nondet_int(); __CPROVER_assume(g_c.level >= 0 && g_c.level < 6);
  gc0 = g_gc_calls;

  ldb_background_compaction(db);

  CHECK(g_held && g_locks == 1 + g_unlocks, "background compaction returns with the mutex held");
  if (had_imm) {
    CHECK(g_cm_calls == 1 && g_pick_calls == 0 && g_range_calls == 0 && g_bw_calls == 0 && g_apply_calls == 0 && g_cdestroy_calls == 0,
          "an immutable memtable is flushed first: that call does nothing else");
    CHECK(db->manual_compaction == (manual ? &g_manual : NULL) && g_manual.done == 0, "a pending manual request is left for the next call");
  } else {
    int real = (g_pick_result != NULL) && (manual || !g_is_trivial);
    CHECK(g_cm_calls == 0, "no flush without an immutable memtable");
    if (manual) {
      CHECK(g_range_calls == 1 && g_pick_calls == 0 && g_range_level == g_manual.level && g_range_begin == begin0 && g_range_end == end0, "manual: the compaction is picked from the request's level and range");
      CHECK(db->manual_compaction == NULL, "manual: the request is consumed");
      if (g_pick_result == NULL) CHECK(g_manual.done == 1, "manual: nothing left in the range => done");
      else {
        CHECK(g_copies == 1 && g_copy_dst == &g_manual.tmp_storage && g_copy_src == &((ldb_filemeta_t *)g_in0[g_c.inputs[0].length - 1])->largest,
              "manual: progress = largest key of the LAST input file of the level");
        if (g_bw_rc != LDB_OK) CHECK(g_manual.done == 1, "manual: a failed compaction ends the request (no endless retry)");
        else CHECK(g_manual.done == 0 && g_manual.begin == &g_manual.tmp_storage, "manual: after a successful partial compaction the request restarts just past the compacted range");
      }
    } else {
      CHECK(g_pick_calls == 1 && g_range_calls == 0, "automatic: one compaction picked");
    }
    if (g_pick_result == NULL) {
      CHECK(g_apply_calls == 0 && g_bw_calls == 0 && g_cdestroy_calls == 0 && db->bg_error == LDB_OK && g_gc_calls == gc0, "nothing to compact: nothing changes");
    } else if (!real) {
      CHECK(g_apply_calls == 1 && g_rm_calls == 1 && g_af_calls == 1 && g_bw_calls == 0 && g_cdestroy_calls == 1, "trivial move: one edit moving the file, no table written (dbc.trivial)");
      CHECK((db->bg_error != LDB_OK) == (g_apply_rc != LDB_OK), "E3: a failed MANIFEST write latches bg_error");
    } else {
      CHECK(g_bw_calls == 1, "compaction: the work runs once");
      CHECK(g_bw_state != NULL, "compaction: on a state object");
      CHECK(g_bw_comp == &g_c, "compaction: the state is for the picked compaction");
      CHECK(g_bw_rc == LDB_OK || db->bg_error != LDB_OK, "E3: a failed compaction latches bg_error (no later write is acknowledged on top of it)");
      CHECK(g_cl_calls == 1 && g_cl_state == g_bw_state, "compaction: the state is cleaned up once (pending_outputs entries released)");
      CHECK(g_bw_rc == LDB_OK || g_cl_bgerr != LDB_OK, "compaction: the error is latched BEFORE the outputs lose their pending_outputs protection");
      CHECK(g_release_calls == 1 && g_cl_at_release == 1, "compaction: the input version is released after the cleanup");
      CHECK(g_cdestroy_calls == 1, "compaction: the compaction object is destroyed once");
      CHECK(db->bg_error != LDB_OK || (g_copied_pending && g_added_versions), "G5: unless an error is latched, the obsolete inputs are collected in the same call");
    }
  }
  CANARY();
}
