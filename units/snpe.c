/* units/snpe.c - the Snappy ENCODER of src/util/snappy.c (C16: a table block written compressed must decode to what was written)
 *   snp.enc.driver : snappy_encode - the fragmentation of an input of ANY length: preamble = varint32(length), every input byte
 *                    is handed to exactly one fragment encoder, in order, with no gap (loop contract; encode_block /
 *                    emit_literal through call-protocol carriers)
 *   snp.enc.literal: emit_literal - the element is a literal of exactly xn bytes in the standard form, followed by those bytes
 *   snp.enc.copy   : emit_copy - the emitted copy elements all carry the offset and their lengths add up to len
 *   snp.enc.size   : snappy_encode_size - 32 + n + n/6, refused above 2^31-1
 * encode_block (the matcher) itself is NOT under contract: a round-trip proof through the hash-table matcher did not come within
 * reach; its carrier is listed in trusted.json.  The real snappy.c is included unmodified.
 */
#include "verif.h"
size_t nondet_size(void);
uint32_t nondet_u32(void);
uint8_t nondet_u8(void);
#include "util/coding.h"
#include "util/snappy.h"

#ifdef SNPE_MEMCPY_MODEL
size_t g_mk; uint8_t g_msrc_k; int g_mcalls; const void *g_msrc; void *g_mdst; size_t g_mn;
void *memcpy(void *dst, const void *src, size_t n) {
  __CPROVER_assert(n == 0 || __CPROVER_w_ok(dst, n), "memcpy: destination writable for n bytes");
  __CPROVER_assert(n == 0 || __CPROVER_r_ok(src, n), "memcpy: source readable for n bytes");
  g_mcalls++; g_msrc = src; g_mdst = dst; g_mn = n;
  if (g_mk < n) ((uint8_t *)dst)[g_mk] = ((const uint8_t *)src)[g_mk];   /* the byte at the ghost index */
  return dst;
}
#endif

#include "util/snappy.c"

/* ------------------------------------------------------------------ driver */
const uint8_t *g_in; size_t g_n, g_cov; uint8_t *g_out; size_t g_w, g_cap; unsigned long g_frags;   /* g_w: bytes of output produced so far */

uint8_t *c_encode_block(uint8_t *zp, const uint8_t *xp, size_t xn)
/* the next fragment starts exactly where the previous one ended */
__CPROVER_requires(xp == g_in + g_cov && g_cov <= g_n && xn <= g_n - g_cov)
/* fragment sizes the matcher is written for */
__CPROVER_requires(xn >= 17 && xn <= 65536)
/* a short fragment is only ever the LAST one */
__CPROVER_requires(xn == 65536 || xn == g_n - g_cov)
__CPROVER_requires(zp == g_out + g_w && g_w <= g_cap)
__CPROVER_assigns(g_cov, g_frags, g_w)
__CPROVER_ensures(g_w > __CPROVER_old(g_w) && g_w <= g_cap && __CPROVER_return_value == g_out + g_w)
__CPROVER_ensures(g_cov == __CPROVER_old(g_cov) + xn && g_frags == __CPROVER_old(g_frags) + 1)
;
uint8_t *c_emit_literal_tail(uint8_t *zp, const uint8_t *xp, size_t xn)
__CPROVER_requires(xp == g_in + g_cov && g_cov <= g_n && xn == g_n - g_cov)
__CPROVER_requires(xn >= 1 && xn <= 16)
__CPROVER_requires(zp == g_out + g_w && g_w <= g_cap)
__CPROVER_assigns(g_cov, g_frags, g_w)
__CPROVER_ensures(g_w > __CPROVER_old(g_w) && g_w <= g_cap && __CPROVER_return_value == g_out + g_w)
__CPROVER_ensures(g_cov == __CPROVER_old(g_cov) + xn && g_frags == __CPROVER_old(g_frags) + 1)
;

void h_enc_driver(void) {
  size_t n = nondet_size(), cap; uint8_t *in, *out; int r;
  __CPROVER_assume(n <= 0x7fffffff && 32 + n + n / 6 <= 0x7fffffff);   /* what snappy_encode_size accepts (snp.enc.size) */
  cap = 32 + n + n / 6;                   /* the buffer the caller allocates; that the fragments fit is assumed by the carriers */
  in = malloc(n + 1); out = malloc(cap); __CPROVER_assume(in != NULL && out != NULL);
  g_in = in; g_n = n; g_cov = 0; g_out = out; g_cap = cap; g_frags = 0;
  g_w = n < 128 ? 1 : n < 16384 ? 2 : n < 2097152 ? 3 : n < 268435456 ? 4 : 5;   /* the preamble comes first */
  r = snappy_encode(out, in, n);
  CHECK(g_cov == n, "encode: every input byte went to exactly one fragment encoder, in order, without a gap (nothing dropped at the end)");
  CHECK(r >= 1 && (size_t)r == g_w, "encode: returns the number of bytes produced");
  {
    /* preamble: LEB128 of n */
    size_t l = n < 128 ? 1 : n < 16384 ? 2 : n < 2097152 ? 3 : n < 268435456 ? 4 : 5;
    uint32_t v = 0; size_t j;
    for (j = 0; j < 5; j++) if (j < l) v |= (uint32_t)(out[j] & 127) << (7 * j);
    CHECK(v == (uint32_t)n && (out[l - 1] & 128) == 0 && (l == 1 || (out[0] & 128)), "encode: the stream starts with varint32(uncompressed length)");
  }
  CHECK(g_frags == (n + 65535) / 65536, "encode: one fragment per started 64 KiB of input");
  CANARY();
}

/* ----------------------------------------------------------------- literal */
#ifdef SNPE_MEMCPY_MODEL
void h_enc_literal(void) {
  size_t xn = nondet_size(); uint8_t *in, *out, *e; size_t hdr, len;
  __CPROVER_assume(xn >= 1 && xn <= 65536);
  in = malloc(xn); out = malloc(xn + 3); __CPROVER_assume(in != NULL && out != NULL);
  g_mk = nondet_size(); __CPROVER_assume(g_mk < xn); g_mcalls = 0;
  e = emit_literal(out, in, xn);
  /* decode the element header as the format defines it */
  CHECK((out[0] & 3) == 0, "literal: tag 00");
  if ((out[0] >> 2) < 60) { hdr = 1; len = (size_t)(out[0] >> 2) + 1; }
  else if ((out[0] >> 2) == 60) { hdr = 2; len = (size_t)out[1] + 1; }
  else { CHECK((out[0] >> 2) == 61, "literal: at most two length bytes for fragments of <= 64 KiB"); hdr = 3; len = ((size_t)out[1] | ((size_t)out[2] << 8)) + 1; }
  CHECK(len == xn, "literal: the encoded length is exactly the number of bytes that follow");
  CHECK(e == out + hdr + xn, "literal: header + bytes, nothing else");
  CHECK(g_mcalls == 1 && g_mdst == out + hdr && g_msrc == in && g_mn == xn, "literal: the bytes are copied right behind the header");
  CHECK(out[hdr + g_mk] == in[g_mk], "literal: byte for byte (ghost index)");
  CANARY();
}
#endif

/* -------------------------------------------------------------------- copy */
void h_enc_copy(void) {
  uint32_t off = nondet_u32(), len = nondet_u32(); uint8_t out[64], *e, *p; uint32_t total = 0; int ops = 0;
  __CPROVER_assume(off >= 1 && off <= 65535 && len >= 4 && len <= SNPE_MAXLEN);
  e = emit_copy(out, off, len);
  for (p = out; p < e && ops < 16; ops++) {
    if ((p[0] & 3) == 1) {                  /* copy1: len 4..11, 11-bit offset */
      uint32_t l = 4 + ((p[0] >> 2) & 7), o = ((uint32_t)(p[0] >> 5) << 8) | p[1];
      CHECK(o == off && off < 2048, "copy: 1-byte-offset form only for offsets < 2048, offset preserved");
      total += l; p += 2;
    } else {
      uint32_t l, o;
      CHECK((p[0] & 3) == 2, "copy: only copy1 / copy2 elements are produced");
      l = 1 + (p[0] >> 2); o = (uint32_t)p[1] | ((uint32_t)p[2] << 8);
      CHECK(o == off, "copy: offset preserved in every element");
      CHECK(l >= 4, "copy: no element shorter than 4 bytes (the matcher's minimum, and what the last element may be left with)");
      total += l; p += 3;
    }
  }
  CHECK(p == e, "copy: the elements fill the output exactly");
  CHECK(total == len, "copy: the element lengths add up to the match length");
  CANARY();
}

/* -------------------------------------------------------------------- size */
void h_enc_size(void) {
  size_t xn = nondet_size(), zn = 7; int r;
  r = snappy_encode_size(&zn, xn);
  if (xn > 0x7fffffff || 32 + xn + xn / 6 > 0x7fffffff) CHECK(r == 0 && zn == 7, "encode_size: refuses inputs whose worst case exceeds 2^31-1, output untouched");
  else CHECK(r == 1 && zn == 32 + xn + xn / 6, "encode_size: 32 + n + n/6");
  CANARY();
}
