/* units/bat2.c - group commit helpers of src/write_batch.c not covered by group bat
 *   bat.append : ldb_batch_append   (C04 A2: group's bytes = members' bodies in order, count = sum)
 *   bat.insert : ldb_batch_insert_into + memtable_put/memtable_del   (C04 A4/A5, C03 P6, C01 K2)
 * The real write_batch.c is included unmodified; buffer append and the memtable are ghost models.
 */
#include "verif.h"
#include "contracts/coding.h"
int nondet_int(void);
uint64_t nondet_u64(void);
size_t nondet_size(void);

#include "write_batch.c"

/* ---- ghost ---- */
ldb_buffer_t *g_app_dst; const uint8_t *g_app_ptr; size_t g_app_len; unsigned g_app_calls;
void ldb_buffer_append(ldb_buffer_t *z, const uint8_t *xp, size_t xn) {
  __CPROVER_assert(xn == 0 || __CPROVER_r_ok(xp, xn), "appended bytes readable");
  g_app_calls++; g_app_dst = z; g_app_ptr = xp; g_app_len = xn;
}

#define OLD_BYTE(b, i) ((uint64_t)__CPROVER_old((b)->rep.data[i]))
#define OLD_COUNT(b) ((uint32_t)(OLD_BYTE(b, 8) | (OLD_BYTE(b, 9) << 8) | (OLD_BYTE(b, 10) << 16) | (OLD_BYTE(b, 11) << 24)))
#define OLD_SEQ(b) (OLD_BYTE(b, 0) | (OLD_BYTE(b, 1) << 8) | (OLD_BYTE(b, 2) << 16) | (OLD_BYTE(b, 3) << 24) | (OLD_BYTE(b, 4) << 32) | (OLD_BYTE(b, 5) << 40) | (OLD_BYTE(b, 6) << 48) | (OLD_BYTE(b, 7) << 56))
void c_batch_append(ldb_batch_t *dst, const ldb_batch_t *src)
__CPROVER_requires(__CPROVER_rw_ok(dst, sizeof(*dst)) && __CPROVER_r_ok(src, sizeof(*src)))
__CPROVER_requires(dst->rep.size >= 12 && __CPROVER_rw_ok(dst->rep.data, dst->rep.size) && src->rep.size >= 12 && __CPROVER_r_ok(src->rep.data, src->rep.size))
/* entry counts are far below INT_MAX (a group is limited to 1 MiB) */
__CPROVER_requires(LE32_AT(dst->rep.data + 8) < (1u << 30) && LE32_AT(src->rep.data + 8) < (1u << 30))
__CPROVER_assigns(__CPROVER_object_upto(dst->rep.data, 12), g_app_calls, g_app_dst, g_app_ptr, g_app_len)
/* count' = count(dst) + count(src); the sequence field and the source are untouched */
__CPROVER_ensures(LE32_AT(dst->rep.data + 8) == OLD_COUNT(dst) + LE32_AT(src->rep.data + 8))
__CPROVER_ensures(LE64_AT(dst->rep.data) == OLD_SEQ(dst))
/* rep' = rep(dst) ++ rep(src)[12..]: exactly the source's records (without its header), appended once, to dst */
__CPROVER_ensures(g_app_calls == __CPROVER_old(g_app_calls) + 1 && g_app_dst == &dst->rep && g_app_ptr == src->rep.data + 12 && g_app_len == src->rep.size - 12)
;

void h_append(void) {
  ldb_batch_t dst, src;
  size_t nd = nondet_size(), ns = nondet_size();
  __CPROVER_assume(nd >= 12 && ns >= 12);
  dst.rep.data = malloc(nd); dst.rep.size = nd; dst.rep.alloc = nd;
  src.rep.data = malloc(ns); src.rep.size = ns; src.rep.alloc = ns;
  __CPROVER_assume(dst.rep.data != NULL && src.rep.data != NULL);
  ldb_batch_append(&dst, &src);
  CANARY();
}

/* ---- bat.insert: a batch { put k1 v1 ; del k2 } with symbolic contents ---- */
ldb_memtable_t g_table;
unsigned g_adds; uint64_t g_add_seq[3]; int g_add_type[3]; const uint8_t *g_add_key[3]; size_t g_add_klen[3]; const uint8_t *g_add_val[3]; size_t g_add_vlen[3];
void ldb_memtable_add(ldb_memtable_t *mt, ldb_seqnum_t sequence, ldb_valtype_t type, const ldb_slice_t *key, const ldb_slice_t *value) {
  __CPROVER_assert(mt == &g_table, "entries go to the memtable passed to insert_into");
  __CPROVER_assert(g_adds < 3, "no more inserts than the batch holds");
  g_add_seq[g_adds] = sequence; g_add_type[g_adds] = (int)type; g_add_key[g_adds] = key->data; g_add_klen[g_adds] = key->size;
  g_add_val[g_adds] = value->data; g_add_vlen[g_adds] = value->size; g_adds++;
}
void ldb_buffer_init(ldb_buffer_t *z) { z->data = NULL; z->size = 0; z->alloc = 0; }

void h_insert(void) {
  /* rep = seq64 count32=2 | 01 klen k1 vlen v1 | 00 klen k2   (lengths 0..3, single-byte varints) */
  uint8_t rep[12 + 1 + 1 + 3 + 1 + 3 + 1 + 1 + 3];
  ldb_batch_t b;
  uint8_t k1n = nondet_u64() & 3, v1n = nondet_u64() & 3, k2n = nondet_u64() & 3;
  uint64_t seq = nondet_u64();
  size_t p = 12, k1o, v1o, k2o;
  int rc;
  __CPROVER_assume(seq < (1ull << 56) - 2);
  ldb_fixed64_encode(rep, seq); ldb_fixed32_encode(rep + 8, 2);
  rep[p++] = 1; rep[p++] = k1n; k1o = p; p += k1n; rep[p++] = v1n; v1o = p; p += v1n;
  rep[p++] = 0; rep[p++] = k2n; k2o = p; p += k2n;
  b.rep.data = rep; b.rep.size = p; b.rep.alloc = sizeof(rep);
  g_adds = 0;
  rc = ldb_batch_insert_into(&b, &g_table);
  CHECK(rc == LDB_OK, "a well-formed batch whose count matches is inserted completely");
  CHECK(g_adds == 2, "exactly count entries reach the memtable");
  CHECK(g_add_seq[0] == seq && g_add_seq[1] == seq + 1, "A5/P6: the i-th update of a batch gets sequence seq(batch)+i (original order is kept)");
  CHECK(g_add_type[0] == LDB_TYPE_VALUE && g_add_type[1] == LDB_TYPE_DELETION, "tag 1 is a put, tag 0 a delete");
  CHECK(g_add_key[0] == rep + k1o && g_add_klen[0] == k1n && g_add_val[0] == rep + v1o && g_add_vlen[0] == v1n, "put: key and value are the length-prefixed slices of the record");
  CHECK(g_add_key[1] == rep + k2o && g_add_klen[1] == k2n && g_add_vlen[1] == 0, "delete: key slice of the record, empty value");
  CANARY();
}

/* ---- bat.insert.frame: ldb_batch_insert_into is REENTRANT.  It runs with the DB mutex released, and two databases of one
 * process (or a recovery next to a writer of another database) may be inside it at the same time.  Frame: it writes to the
 * memtable it was handed (here: the recording model's ghost) and to nothing else - in particular to no static or global. */
const ldb_batch_t *g_frame_batch;
int c_batch_insert_into(const ldb_batch_t *batch, ldb_memtable_t *table)
__CPROVER_requires(batch == g_frame_batch && table == &g_table && g_adds == 0)
__CPROVER_assigns(g_adds, __CPROVER_object_whole(g_add_seq), __CPROVER_object_whole(g_add_type), __CPROVER_object_whole(g_add_key), __CPROVER_object_whole(g_add_klen),
                  __CPROVER_object_whole(g_add_val), __CPROVER_object_whole(g_add_vlen))
__CPROVER_ensures(__CPROVER_return_value == LDB_OK ==> g_adds == 2)
;
void h_insert_frame(void) {
  uint8_t rep[12 + 1 + 1 + 3 + 1 + 3 + 1 + 1 + 3];
  ldb_batch_t b;
  uint8_t k1n = nondet_u64() & 3, v1n = nondet_u64() & 3, k2n = nondet_u64() & 3;
  uint64_t seq = nondet_u64();
  size_t p = 12;
  __CPROVER_assume(seq < (1ull << 56) - 2);
  ldb_fixed64_encode(rep, seq); ldb_fixed32_encode(rep + 8, 2);
  rep[p++] = 1; rep[p++] = k1n; p += k1n; rep[p++] = v1n; p += v1n;
  rep[p++] = 0; rep[p++] = k2n; p += k2n;
  b.rep.data = rep; b.rep.size = p; b.rep.alloc = sizeof(rep);
  g_adds = 0; g_frame_batch = &b;
  (void)ldb_batch_insert_into(&b, &g_table);
  CANARY();
}
