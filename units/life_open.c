/* units/life_open.c - ldb_open, ldb_create, ldb_close / ldb_destroy_internal (src/db_impl.c)
 *   life.open  : ldb_open (C20 lock released on failed open, C05/C03 P3 new-log-before-edit, C02 O5, C13 G5, C09 W3)
 *   life.close : ldb_close = ldb_destroy_internal (C20 lock released on close, C09 W3)
 *
 * The real db_impl.c is included unmodified; ldb_create, ldb_sanitize_options, ldb_destroy_internal and
 * ldb_maybe_schedule_compaction run as real code.  ldb_recover is used through its call carrier c_recover
 * (enforced in life.recover_call), ldb_remove_obsolete_files through c_gc_call (enforced in db.gc_call).
 * Everything below the DB layer (env, version set, memtable, pool, caches) is a ghost model in which every
 * fallible call can fail.
 */
#include "verif.h"
int nondet_int(void);
uint64_t nondet_u64(void);
size_t nondet_size(void);

#include "db_impl.c"
#include "contracts/dbgc.h"
#include "contracts/life.h"

/* ------------------------------------------------------------------ ghost */
struct open_ghost {
  int db_allocated, db_freed; void *db_ptr;
  unsigned frees_other;
  unsigned long clock;
  /* construction / destruction of the parts of the handle */
  unsigned tables_create, tables_destroy, pool_create, pool_destroy, versions_create, versions_destroy, batch_create, batch_destroy;
  unsigned mutex_init, mutex_destroy, cond_init, cond_destroy, logger_open, logger_destroy, lru_create, lru_destroy;
  unsigned mem_create, mem_ref, mem_unref, writer_create, writer_destroy, wfile_destroy, set_init, set_clear, edit_inits, edit_clears;
  unsigned long t_pool_destroy, t_unlock, t_shutdown_wait;
  /* new log */
  unsigned allocs; uint64_t alloc_number; unsigned logname_calls; uint64_t logname_number;
  unsigned creates, create_ok; unsigned long t_create;
  /* MANIFEST edit */
  unsigned applies; int apply_rc; int a_has_log, a_has_prev; uint64_t a_log, a_prev; unsigned long t_apply;
  uint64_t lognum_at_apply; int mem_at_apply;
  /* background */
  int needs_compaction; unsigned sched_calls, waits, broadcasts; int sched_held;
  int path_ok;
} OG;
static unsigned long otick(void) { __CPROVER_assume(OG.clock < (1ul << 40)); return ++OG.clock; }
static ldb_versions_t g_versions;
static ldb_comparator_t g_ucmp;
struct ldb_wfile_s { int dummy; };
static ldb_wfile_t g_newlogfile; static ldb_writer_t g_newlog; static ldb_memtable_t *g_newmem;

/* ---------------------------------------------------------- thread model */
void ldb_mutex_init(ldb_mutex_t *m) { OG.mutex_init++; }
void ldb_mutex_destroy(ldb_mutex_t *m) { __CPROVER_assert(!g_held, "the mutex is destroyed unlocked"); OG.mutex_destroy++; }
void ldb_cond_init(ldb_cond_t *cv) { OG.cond_init++; }
void ldb_cond_destroy(ldb_cond_t *cv) { OG.cond_destroy++; }
void ldb_mutex_lock(ldb_mutex_t *m) { __CPROVER_assert(m == &g_db->mutex && !g_held && !OG.db_freed, "lock: DB mutex not held"); g_held = 1; g_locks++; }
void ldb_mutex_unlock(ldb_mutex_t *m) { __CPROVER_assert(m == &g_db->mutex && g_held && !OG.db_freed, "unlock: DB mutex held"); g_held = 0; g_unlocks++; }
void ldb_cond_broadcast(ldb_cond_t *cv) { OG.broadcasts++; }
void ldb_cond_wait(ldb_cond_t *cv, ldb_mutex_t *m) {
  __CPROVER_assert(m == &g_db->mutex && g_held && cv == &g_db->background_work_finished_signal, "close waits on the background signal with the mutex held");
  __CPROVER_assert(g_db->background_compaction_scheduled, "W3: close waits only while a background call is pending (it broadcasts when it ends)");
  __CPROVER_assert(*(int *)&g_db->shutting_down != 0, "shutting_down is published before close waits (so the background call does not reschedule itself)");
  g_held = 0; OG.waits++; OG.t_shutdown_wait = otick();
  /* the pending background call ends; with shutting_down set it does not reschedule (db.bg); spurious wake-ups at most twice */
  if (OG.waits >= 3 || nondet_int()) g_db->background_compaction_scheduled = 0;
  g_held = 1;
}
void ldb_pool_schedule(ldb_pool_t *pool, ldb_work_f *func, void *arg) {
  __CPROVER_assert(g_held && arg == g_db && pool == g_db->pool, "background work is scheduled under the mutex for this DB");
  OG.sched_calls++;
}
int ldb_versions_needs_compaction(const ldb_versions_t *vset) { return OG.needs_compaction; }

/* ------------------------------------------------------------- allocator */
void *ldb_malloc(size_t size) {
  void *p = malloc(size); __CPROVER_assume(p != NULL);
  if (!OG.db_allocated && size == sizeof(ldb_t)) { OG.db_allocated = 1; OG.db_ptr = p; g_db = p; }
  return p;
}
void ldb_free(void *ptr) {
  if (ptr == OG.db_ptr) { __CPROVER_assert(!OG.db_freed, "the handle is freed once"); OG.db_freed = 1; }
  else OG.frees_other++;
  free(ptr);
}

/* --------------------------------------------------- construction models */
/* every path name in this unit is the 2-character string the ldb_path_absolute model produces; a constant length keeps
   ldb_create's memcpy(db->dbname, ..) from becoming a symbolic-size update of the whole handle object */
size_t strlen(const char *s) { __CPROVER_assert(s[0] != 0 && s[1] != 0 && s[2] == 0, "strlen model: 2-character path"); return 2; }

int ldb_crc32c_init(void) { return 1; }
int ldb_path_absolute(char *buf, size_t size, const char *name) { OG.path_ok = nondet_int() ? 1 : 0; if (OG.path_ok) { buf[0] = '/'; buf[1] = 'd'; buf[2] = 0; } return OG.path_ok; }
void ldb_ikc_init(ldb_comparator_t *ikc, const ldb_comparator_t *user_comparator) { ikc->user_comparator = user_comparator; }
void ldb_ifp_init(ldb_bloom_t *ifp, const ldb_bloom_t *user_policy) { }
int ldb_info_filename(char *buf, size_t size, const char *dbname) { buf[0] = 'I'; buf[1] = 0; return nondet_int() ? 1 : 0; }
int ldb_oldinfo_filename(char *buf, size_t size, const char *dbname) { buf[0] = 'O'; buf[1] = 0; return nondet_int() ? 1 : 0; }
int ldb_create_dir(const char *dirname) { return nondet_int(); }
int ldb_rename_file(const char *from, const char *to) { return nondet_int(); }
static ldb_logger_t *g_logger_token; static ldb_lru_t *g_lru_token; static ldb_tables_t *g_tables_token; static ldb_pool_t *g_pool_token; static ldb_batch_t *g_batch_token;
int ldb_logger_open(const char *filename, ldb_logger_t **result) { int rc = nondet_int(); if (rc == LDB_OK) { *result = g_logger_token; OG.logger_open++; } return rc; }
void ldb_logger_destroy(ldb_logger_t *logger) { __CPROVER_assert(logger == g_logger_token, "only the info log opened by this handle is closed"); OG.logger_destroy++; }
ldb_lru_t *ldb_lru_create(size_t capacity) { OG.lru_create++; return g_lru_token; }
void ldb_lru_destroy(ldb_lru_t *lru) { __CPROVER_assert(lru == g_lru_token, "only the block cache created by this handle is destroyed"); OG.lru_destroy++; }
ldb_tables_t *ldb_tables_create(const char *dbname, const ldb_dbopt_t *options, int entries) { OG.tables_create++; return g_tables_token; }
void ldb_tables_destroy(ldb_tables_t *cache) { __CPROVER_assert(cache == g_tables_token, "table cache of this handle"); OG.tables_destroy++; }
ldb_batch_t *ldb_batch_create(void) { OG.batch_create++; return g_batch_token; }
void ldb_batch_destroy(ldb_batch_t *batch) { __CPROVER_assert(batch == g_batch_token, "scratch batch of this handle"); OG.batch_destroy++; }
void ldb_rb_tree_init(rb_tree_t *tree, rb_cmp_f *compare, void *arg) { OG.set_init++; }
void ldb_rb_tree_clear(rb_tree_t *tree, rb_clear_f *clear) { OG.set_clear++; }
ldb_pool_t *ldb_pool_create(int threads) { OG.pool_create++; return g_pool_token; }
void ldb_pool_destroy(ldb_pool_t *pool) {
  __CPROVER_assert(pool == g_pool_token && !g_held, "the pool is shut down with the mutex released (its worker needs it to finish)");
  __CPROVER_assert(!g_db->background_compaction_scheduled, "the pool is destroyed only when no background call is pending");
  OG.pool_destroy++; OG.t_pool_destroy = otick();
}
ldb_versions_t *ldb_versions_create(const char *dbname, const ldb_dbopt_t *options, ldb_tables_t *table_cache, const ldb_comparator_t *cmp) { OG.versions_create++; return &g_versions; }
void ldb_versions_destroy(ldb_versions_t *vset) { __CPROVER_assert(vset == &g_versions, "version set of this handle"); OG.versions_destroy++; }
void ldb_log(ldb_logger_t *logger, const char *fmt, ...) { }
const char *ldb_strerror(int code) { return "e"; }

/* ---------------------------------------------------------- LOCK release */
int ldb_unlock_file(ldb_filelock_t *lock) {
  __CPROVER_assert(lock == g_lock_obj_p && KG.locked, "the LOCK released is the one this handle took");
  __CPROVER_assert(OG.pool_destroy == 1, "the LOCK is released only after background work has stopped (no writer of this handle can still touch the directory)");
  KG.locked = 0; KG.unlock_calls++; OG.t_unlock = otick();
  return nondet_int();
}

/* ----------------------------------------------------- new log and edit */
void ldb_edit_init(ldb_edit_t *edit) { OG.edit_inits++; edit->has_comparator = edit->has_log_number = edit->has_prev_log_number = edit->has_next_file_number = edit->has_last_sequence = 0; }
void ldb_edit_clear(ldb_edit_t *edit) { OG.edit_clears++; }
void ldb_edit_set_log_number(ldb_edit_t *edit, uint64_t num) { edit->has_log_number = 1; edit->log_number = num; }
void ldb_edit_set_prev_log_number(ldb_edit_t *edit, uint64_t num) { edit->has_prev_log_number = 1; edit->prev_log_number = num; }
uint64_t ldb_versions_new_file_number(ldb_versions_t *vset) { OG.allocs++; OG.alloc_number = vset->next_file_number; return vset->next_file_number++; }
int ldb_log_filename(char *buf, size_t size, const char *dbname, uint64_t num) { buf[0] = 'l'; buf[1] = 0; OG.logname_calls++; OG.logname_number = num; return 1; }
int ldb_truncfile_create(const char *filename, ldb_wfile_t **file) {
  int rc = nondet_int();
  __CPROVER_assert(KG.locked && g_held, "the new log is created with the LOCK held");
  __CPROVER_assert(OG.allocs == 1 && OG.logname_calls == 1 && OG.logname_number == OG.alloc_number, "the new log file is named after the freshly allocated file number");
  __CPROVER_assert(OG.applies == 0, "the new log file is created before the MANIFEST edit that names it is applied");
  __CPROVER_assert(g_db->mem == NULL && g_db->log == NULL && g_db->logfile == NULL, "a new log is created only if recovery did not hand back a reusable log and its memtable (they would be dropped and the reused log's records orphaned)");
  OG.creates++;
  if (rc != LDB_OK) return rc;
  OG.create_ok++; OG.t_create = otick(); *file = &g_newlogfile;
  return LDB_OK;
}
ldb_writer_t *ldb_writer_create(ldb_wfile_t *file, uint64_t length) {
  __CPROVER_assert(file == &g_newlogfile && length == 0, "the new log writer starts at offset 0 of the new (truncated) file");
  OG.writer_create++; return &g_newlog;
}
void ldb_writer_destroy(ldb_writer_t *lw) { OG.writer_destroy++; }
void ldb_wfile_destroy(ldb_wfile_t *f) { OG.wfile_destroy++; }
ldb_memtable_t *ldb_memtable_create(const ldb_comparator_t *cmp) { __CPROVER_assert(cmp == &g_db->internal_comparator, "memtable uses the internal comparator"); OG.mem_create++; return g_newmem; }
void ldb_memtable_ref(ldb_memtable_t *mt) { OG.mem_ref++; }
void ldb_memtable_unref(ldb_memtable_t *mt) { OG.mem_unref++; }
int ldb_versions_apply(ldb_versions_t *vset, ldb_edit_t *edit, ldb_mutex_t *mu) {
  __CPROVER_assert(g_held && mu == &g_db->mutex && vset == g_db->versions && KG.locked, "apply is entered with the mutex and the LOCK held");
  OG.applies++;
  OG.a_has_log = edit->has_log_number; OG.a_log = edit->log_number; OG.a_has_prev = edit->has_prev_log_number; OG.a_prev = edit->prev_log_number;
  OG.lognum_at_apply = g_db->logfile_number; OG.mem_at_apply = g_db->mem != NULL && g_db->log != NULL && g_db->logfile != NULL;
  g_held = 0; g_held = 1;    /* apply releases the mutex around the MANIFEST write */
  OG.apply_rc = nondet_int(); OG.t_apply = otick();
  if (OG.apply_rc == LDB_OK) g_gc_allowed = 1;
  return OG.apply_rc;
}

static void open_ghost_init(void) {
  OG.db_allocated = OG.db_freed = 0; OG.db_ptr = NULL; OG.frees_other = 0; OG.clock = 0;
  OG.tables_create = OG.tables_destroy = OG.pool_create = OG.pool_destroy = OG.versions_create = OG.versions_destroy = OG.batch_create = OG.batch_destroy = 0;
  OG.mutex_init = OG.mutex_destroy = OG.cond_init = OG.cond_destroy = OG.logger_open = OG.logger_destroy = OG.lru_create = OG.lru_destroy = 0;
  OG.mem_create = OG.mem_ref = OG.mem_unref = OG.writer_create = OG.writer_destroy = OG.wfile_destroy = OG.set_init = OG.set_clear = OG.edit_inits = OG.edit_clears = 0;
  OG.allocs = OG.logname_calls = OG.creates = OG.create_ok = OG.applies = 0; OG.apply_rc = LDB_OK; OG.sched_calls = OG.waits = OG.broadcasts = 0; OG.path_ok = 0;
  OG.t_pool_destroy = OG.t_unlock = OG.t_create = OG.t_apply = 0;
  __CPROVER_assume(OG.needs_compaction == 0 || OG.needs_compaction == 1);
  KG.locked = 0; KG.lock_calls = 0; KG.unlock_calls = 0; NG.calls = 0; NG.cur_installed = 0;
  g_held = 0; g_locks = 0; g_unlocks = 0; g_gc_allowed = 0; g_unprotected_outputs = 0; g_gc_calls = 0; g_copied_pending = 0; g_added_versions = 0; g_removed_total = 0;
  g_db = NULL;
  g_lock_obj_p = malloc(1); g_logger_token = malloc(1); g_lru_token = malloc(1); g_tables_token = malloc(1); g_pool_token = malloc(1); g_batch_token = malloc(1);
  g_newmem = malloc(1); g_rlogfile = malloc(1); g_rlog = malloc(1); g_rmem = malloc(1);
  __CPROVER_assume(g_lock_obj_p && g_logger_token && g_lru_token && g_tables_token && g_pool_token && g_batch_token && g_newmem && g_rlogfile && g_rlog && g_rmem);
  __CPROVER_assume(g_versions.next_file_number < (1ull << 62));
}

#define TEARDOWN_DONE (OG.db_freed && OG.pool_destroy == 1 && OG.versions_destroy == 1 && OG.tables_destroy == 1 && OG.batch_destroy == 1 && OG.mutex_destroy == 1 && \
                       OG.cond_destroy == 1 && OG.set_clear >= 1 && OG.logger_destroy == OG.logger_open && OG.lru_destroy == OG.lru_create)

void h_open(void) {
  ldb_dbopt_t *opt = malloc(sizeof(ldb_dbopt_t));
  ldb_t *out;
  int have_opt = nondet_int() ? 1 : 0;
  int rc, reused = 0;
  uint64_t next0;
  static char name[4];
  __CPROVER_assume(opt != NULL);
  open_ghost_init();
  name[0] = 'd'; name[1] = 0;
  opt->filter_policy = NULL; opt->comparator = nondet_int() ? &g_ucmp : NULL;      /* the filter-policy name length test is a plain strlen bound, not modelled */
  next0 = g_versions.next_file_number;

  rc = ldb_open(name, have_opt ? opt : NULL, &out);

  CHECK(!g_held && g_locks == g_unlocks, "open: the DB mutex is released at return, lock/unlock balanced");
  if (!have_opt || !OG.path_ok) CHECK(rc == LDB_INVALID && out == NULL && !OG.db_allocated && KG.lock_calls == 0, "bad arguments: INVALID, no handle, nothing touched");
  if (rc != LDB_OK) {
    CHECK(out == NULL, "failed open: *dbptr is NULL");
    CHECK(!KG.locked && KG.unlock_calls <= 1, "failed open: the LOCK is not held afterwards (released if it had been taken)");
    if (OG.db_allocated) {
      CHECK(TEARDOWN_DONE, "failed open: pool, version set, table cache, scratch batch, mutex, condition variable and the handle itself are released");
      if (OG.applies) CHECK(OG.apply_rc != LDB_OK && rc == OG.apply_rc && OG.mem_unref == 1 && OG.writer_destroy == 1 && OG.wfile_destroy == 1, "failed MANIFEST edit: reported; memtable, log writer and log file obtained so far are released");
      if (OG.creates && !OG.create_ok) CHECK(OG.applies == 0 && OG.mem_create == 0, "failed log creation: no MANIFEST edit, no memtable");
      CHECK(g_copied_pending == 0 && OG.sched_calls == 0, "failed open: no garbage collection, no background work scheduled");
    }
    CHECK(OG.edit_inits == OG.edit_clears, "the recovery edit is released");
  } else {
    CHECK(out == (ldb_t *)OG.db_ptr && OG.db_allocated && !OG.db_freed, "OK: the handle is returned, alive");
    CHECK(KG.locked && KG.unlock_calls == 0 && out->db_lock != NULL, "OK: the handle holds the LOCK");
    CHECK(out->mem != NULL && out->log != NULL && out->logfile != NULL, "OK: the handle has a memtable and a write-ahead log to write to");
    CHECK(OG.pool_destroy == 0 && OG.versions_destroy == 0 && OG.tables_destroy == 0, "OK: nothing is torn down");
    reused = OG.creates == 0;
    if (!reused) {
      /* P3 / C05: a NEW log file exists before the edit naming it is applied */
      CHECK(OG.create_ok == 1 && OG.allocs == 1 && OG.alloc_number == g_versions.next_file_number - 1 && out->logfile_number == OG.alloc_number, "OK without reused log: a new log with a freshly allocated number was created and is the current log");
      CHECK(out->logfile == &g_newlogfile && out->log == &g_newlog && out->mem == g_newmem && OG.mem_create == 1 && OG.mem_ref == 1, "OK without reused log: fresh referenced memtable + writer at offset 0 of the new file");
      CHECK((TG.n < 1 || OG.alloc_number > TG.replayed[0]) && (TG.n < 2 || OG.alloc_number > TG.replayed[1]) && (TG.n < 3 || OG.alloc_number > TG.replayed[2]) && (TG.n < 4 || OG.alloc_number > TG.replayed[3]),
            "the new log's number is above every log that was replayed (no file number reuse, later log = later writes)");
    } else {
      CHECK(OG.allocs == 0 && out->mem == g_rmem && out->log == g_rlog && out->logfile == g_rlogfile, "OK with a reused log: memtable and log are the ones recovery handed back; no new file");
    }
    CHECK(OG.applies <= 1, "at most one MANIFEST edit per open");
    if (OG.applies) {
      CHECK(OG.apply_rc == LDB_OK, "OK: the MANIFEST edit was applied successfully");
      CHECK(OG.a_has_log && OG.a_log == out->logfile_number && OG.lognum_at_apply == out->logfile_number && OG.mem_at_apply, "the edit names the CURRENT log, which already exists (created or reused) when the edit is applied");
      CHECK(OG.a_has_prev && OG.a_prev == 0, "the edit clears prev_log_number (no older log is needed after recovery)");
      CHECK(reused || OG.t_create < OG.t_apply, "new log file created before the edit naming it is applied");
    }
    /* G5: obsolete files are collected after every successful open (carrier c_gc_call: precondition = collection allowed) */
    CHECK(g_copied_pending && g_added_versions, "OK: obsolete files are collected at the end of open");
    /* I_db(c) / W3 */
    CHECK(!OG.needs_compaction || (out->background_compaction_scheduled && OG.sched_calls == 1), "OK: if the recovered version needs compaction a background call is scheduled before the mutex is released");
    CHECK(OG.sched_calls == (OG.needs_compaction ? 1u : 0u), "background work is scheduled only when there is work");
    CHECK(out->bg_error == LDB_OK && *(int *)&out->shutting_down == 0 && out->imm == NULL, "OK: fresh handle state");
    CHECK(OG.edit_inits == OG.edit_clears, "the recovery edit is released");
  }
  CANARY();
}

/* --------------------------------------------------------------- close */
void h_close(void) {
  ldb_t *db;
  int had_mem, had_imm, had_log, had_file;
  open_ghost_init();
  db = ldb_malloc(sizeof(ldb_t));                 /* registers the handle with the allocator model */
  db->versions = &g_versions; db->pool = g_pool_token; db->table_cache = g_tables_token; db->tmp_batch = g_batch_token;
  db->db_lock = g_lock_obj_p; KG.locked = 1; KG.lock_calls = 1;          /* an open handle holds the LOCK */
  db->options.info_log = g_logger_token; db->options.block_cache = g_lru_token;
  __CPROVER_assume((db->owns_info_log == 0 || db->owns_info_log == 1) && (db->owns_cache == 0 || db->owns_cache == 1));
  OG.logger_open = (unsigned)db->owns_info_log; OG.lru_create = (unsigned)db->owns_cache;
  __CPROVER_assume(db->background_compaction_scheduled == 0 || db->background_compaction_scheduled == 1);
  __CPROVER_assume(*(int *)&db->shutting_down == 0);
  had_mem = db->mem != NULL; had_imm = db->imm != NULL; had_log = db->log != NULL; had_file = db->logfile != NULL;

  ldb_close(db);

  CHECK(!g_held && g_locks == g_unlocks && g_locks == 1, "close: takes the mutex once to publish shutting_down and wait for background work, then releases it");
  CHECK(!KG.locked && KG.unlock_calls == 1, "close: the LOCK is released exactly once");
  CHECK(OG.t_pool_destroy < OG.t_unlock, "close: the LOCK is released only after the background pool has stopped");
  CHECK(TEARDOWN_DONE, "close: pool, version set, table cache, scratch batch, mutex, condition variable and the handle are released exactly once");
  CHECK(OG.mem_unref == (unsigned)had_mem + (unsigned)had_imm, "close: memtable and immutable memtable are released");
  CHECK(OG.writer_destroy == (unsigned)had_log && OG.wfile_destroy == (unsigned)had_file, "close: log writer and log file are released");
  CHECK(OG.sched_calls == 0 && OG.applies == 0 && OG.creates == 0, "close: schedules nothing, writes nothing");
  CANARY();
}
