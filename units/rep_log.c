/* units/rep_log.c - convert_log_to_table (src/repair.c)
 *   rep.log : C19 (every surviving log record that can be a batch is replayed into a memtable, a bad batch costs only
 *             itself; the memtable is written as a NEW table under a fresh number and registered iff the table file
 *             was really produced), C13 (fresh file number), C18 (records shorter than a batch header are dropped).
 *
 * The real repair.c is included unmodified.  The log is a ghost reader delivering an ARBITRARY number of records
 * (unbounded; the replay loop is closed by a loop contract); ONE arbitrary record g_lk is followed (ghost-index method).
 * ldb_build_table is used through its contract c_build_table (contracts/bld.h, enforced by bld.build).
 */
#include "verif.h"
int nondet_int(void);
uint64_t nondet_u64(void);
size_t nondet_size(void);

#include "repair.c"
#include "contracts/rep.h"
#include "contracts/bld.h"

/* ------------------------------------------------------------------ ghost */
struct ldb_rfile_s { int dummy; };
struct ldb_memtable_s { int dummy; };
static ldb_rfile_t g_lfile; static ldb_memtable_t g_mem;
unsigned long g_lr_n, g_lr_pos, g_lr_cur, g_lk; size_t g_lk_size, g_lr_cur_size;
uint8_t *g_lr_base;
unsigned long g_set_cur; unsigned g_ins_k; unsigned long g_ins_total; int g_ins_k_rc;
long g_ops_total;
int g_open_rc; unsigned g_open_calls, g_ri_calls, g_rclear, g_rfdestroy, g_bclear, g_sclear;
int g_ri_checksum; uint64_t g_ri_offset; ldb_reporter_t *g_ri_reporter;
void (*g_ri_corruption)(ldb_reporter_t *, size_t, int); uint64_t g_ri_lognum;
unsigned g_mem_creates, g_mem_refs, g_mem_unrefs, g_memiter_creates, g_iter_destroys;
unsigned g_tabpush_calls; uint64_t g_tabpush_num;
unsigned g_metainit, g_metaclear;
uint64_t g_log_num_named;
unsigned g_unref_after_iter;
static char g_dbname[2];

/* ------------------------------------------------------------ env models */
int ldb_log_filename(char *buf, size_t size, const char *dbname, uint64_t num) {
  __CPROVER_assert(dbname == g_rep->dbname, "log names are formed in the database directory");
  buf[0] = 0; g_nm_buf = buf; g_nm_kind = LDB_FILE_LOG; g_nm_num = num;
  return 1;   /* names fit (ldb_repair's path length check); the code aborts otherwise */
}
int ldb_seqfile_create(const char *filename, ldb_rfile_t **file) {
  __CPROVER_assert(filename == g_nm_buf && g_nm_kind == LDB_FILE_LOG, "the file opened is the log <number>.log");
  g_open_calls++; g_log_num_named = g_nm_num; g_open_rc = nondet_int();
  if (g_open_rc == LDB_OK) *file = &g_lfile;
  return g_open_rc;
}
void ldb_reader_init(ldb_reader_t *lr, ldb_rfile_t *file, ldb_reporter_t *reporter, int checksum, uint64_t initial_offset) {
  __CPROVER_assert(file == &g_lfile, "the reader reads the log that was opened");
  g_ri_calls++; g_ri_checksum = checksum; g_ri_offset = initial_offset; g_ri_reporter = reporter;
  g_ri_corruption = reporter->corruption; g_ri_lognum = reporter->lognum;
}
void ldb_reader_clear(ldb_reader_t *lr) { g_rclear++; }
void ldb_rfile_destroy(ldb_rfile_t *file) { __CPROVER_assert(file == &g_lfile, "the log file object is released"); g_rfdestroy++; }
void ldb_buffer_init(ldb_buffer_t *z) { z->data = NULL; z->size = 0; z->alloc = 0; }
void ldb_buffer_clear(ldb_buffer_t *z) { g_sclear++; }
void ldb_batch_init(ldb_batch_t *batch) { }
void ldb_batch_clear(ldb_batch_t *batch) { g_bclear++; }
ldb_memtable_t *ldb_memtable_create(const ldb_comparator_t *comparator) {
  __CPROVER_assert(comparator == &g_rep->icmp, "the memtable orders by the repairer's internal key comparator");
  g_mem_creates++; return &g_mem;
}
void ldb_memtable_ref(ldb_memtable_t *mt) { __CPROVER_assert(mt == &g_mem, "memtable ref"); g_mem_refs++; }
void ldb_memtable_unref(ldb_memtable_t *mt) { __CPROVER_assert(mt == &g_mem, "memtable unref"); g_mem_unrefs++; g_unref_after_iter = g_iter_destroys; }
int ldb_reader_read_record(ldb_reader_t *lr, ldb_slice_t *record, ldb_buffer_t *scratch) {
  if (g_lr_pos >= g_lr_n) return 0;
  g_lr_cur = g_lr_pos++;
  g_lr_cur_size = (g_lr_cur == g_lk) ? g_lk_size : nondet_size();
  record->data = g_lr_base + g_lr_cur; record->size = g_lr_cur_size; record->alloc = 0;
  return 1;
}
void ldb_batch_set_contents(ldb_batch_t *batch, const ldb_slice_t *contents) {
  __CPROVER_assert(contents->data == g_lr_base + g_lr_cur && contents->size == g_lr_cur_size, "the batch is the record just read");
  g_set_cur = g_lr_cur;
}
int ldb_batch_insert_into(const ldb_batch_t *batch, ldb_memtable_t *table) {
  int rc = nondet_int();
  __CPROVER_assert(table == &g_mem && g_set_cur == g_lr_cur, "the record just read is replayed into the memtable");
  __CPROVER_assert(g_lr_cur_size >= 12, "C18: a record shorter than a batch header (8-byte sequence + 4-byte count) is never interpreted as a batch");
  g_ins_total++;
  if (g_lr_cur == g_lk) { g_ins_k++; g_ins_k_rc = rc; }
  return rc;
}
uint64_t nondet_u64x(void);

/* lenient models of helpers convert_log_to_table does not call today: a restructured version that starts using them
   then fails the SEMANTIC obligations below (e.g. "queued for scanning") instead of only tripping over a missing body */
void *ldb_malloc(size_t size) { void *p = malloc(size); __CPROVER_assume(p != NULL); return p; }
void ldb_free(void *ptr) { free(ptr); }
uint64_t ldb_batch_sequence(const ldb_batch_t *b) { return nondet_u64x(); }
unsigned g_tables_vecpush;
void ldb_vector_push(ldb_vector_t *z, const void *x) { g_tables_vecpush++; }


int ldb_batch_count(const ldb_batch_t *batch) {
  int c = nondet_int();
  /* a log holds fewer than 2^31 operations in total ('counter' is an int: see observations) */
  __CPROVER_assume(c >= 0 && g_ops_total + c <= 2147483647L);
  g_ops_total += c;
  return c;
}
void ldb_log(ldb_logger_t *logger, const char *fmt, ...) { }
const char *ldb_strerror(int code) { return "e"; }
void ldb_filemeta_init(ldb_filemeta_t *meta) {
  g_metainit++; g_bt_meta = meta;
  meta->refs = 0; meta->allowed_seeks = (1 << 30); meta->number = 0; meta->file_size = 0;
  meta->smallest.data = NULL; meta->smallest.size = 0; meta->smallest.alloc = 0; meta->largest.data = NULL; meta->largest.size = 0; meta->largest.alloc = 0;
}
void ldb_filemeta_clear(ldb_filemeta_t *meta) { g_metaclear++; }
ldb_iter_t *ldb_memiter_create(const ldb_memtable_t *mt) {
  __CPROVER_assert(mt == &g_mem && g_lr_pos == g_lr_n, "the table is built from the memtable, after the whole log was replayed");
  g_memiter_creates++; return &g_bt_in_iter;
}
void ldb_iter_destroy(ldb_iter_t *it) { __CPROVER_assert(it == &g_bt_in_iter, "the memtable iterator is released"); g_iter_destroys++; }
void ldb_array_push(ldb_array_t *z, uint64_t x) {
  __CPROVER_assert(z == &g_rep->table_numbers, "the new table is queued for scanning (table_numbers)");
  g_tabpush_calls++; g_tabpush_num = x;
}

/* ---------------------------------------------------------------- rep.log */
void h_log(void) {
  IN_U64(in_log);
  ldb_repair_t *rep = malloc(sizeof(*rep));
  char *cache = malloc(1);
  uint64_t next0; int rc;
  __CPROVER_assume(rep != NULL && cache != NULL);
  g_rep = rep; g_pin_buf = NULL; g_dbname[0] = 'd'; g_dbname[1] = 0; rep->dbname = g_dbname; rep->table_cache = (ldb_tables_t *)cache;
  __CPROVER_assume(g_lr_n < (1ul << 40) && g_lk < (1ul << 40));
  g_lr_base = malloc(g_lr_n + 1); __CPROVER_assume(g_lr_base != NULL);
  g_lr_pos = 0; g_lr_cur = 0; g_lr_cur_size = 0; g_set_cur = ~0ul; g_ins_k = 0; g_ins_total = 0; g_ops_total = 0;
  g_open_calls = g_ri_calls = g_rclear = g_rfdestroy = g_bclear = g_sclear = 0; g_mem_creates = g_mem_refs = g_mem_unrefs = g_memiter_creates = g_iter_destroys = 0;
  g_tabpush_calls = 0; g_metainit = g_metaclear = 0; g_unref_after_iter = 0; g_ri_reporter = NULL;
  /* ldb_build_table's model (contracts/bld.h) */
  g_bt_firsts = g_bt_fname_calls = g_bt_create_calls = g_bt_b_created = g_bt_b_finished = g_bt_b_abandoned = g_bt_b_destroyed = 0;
  g_bt_size_reads = g_bt_sync_calls = g_bt_close_calls = g_bt_f_destroyed = g_bt_verify_calls = g_bt_vf_destroyed = g_bt_removed = 0;
  g_bt_adds = 0; g_bt_small_copies = g_bt_large_copies = 0;
  g_bt_clock = g_bt_t_finish = g_bt_t_sync = g_bt_t_close = g_bt_t_verify = g_bt_t_remove = 0;
  g_bt_dbname = g_dbname; g_bt_options = &rep->options; g_bt_cache = (ldb_tables_t *)cache; g_bt_meta = NULL;
  __CPROVER_assume(g_bt_n < (1ul << 40));
  g_bt_keybase = malloc(g_bt_n + 1); g_bt_valbase = malloc(g_bt_n + 1); __CPROVER_assume(g_bt_keybase != NULL && g_bt_valbase != NULL);
  __CPROVER_assume(rep->next_file_number < (1ull << 62));
  next0 = rep->next_file_number;

  rc = convert_log_to_table(rep, in_log);

  CHECK(g_open_calls == 1 && g_log_num_named == in_log, "log: the log <number>.log is opened");
  if (g_open_rc != LDB_OK) {
    CHECK(rc == g_open_rc && g_ri_calls == 0 && g_mem_creates == 0 && g_bt_fname_calls == 0 && g_tabpush_calls == 0 && rep->next_file_number == next0,
          "log: cannot be opened => that error, no table, the allocator is untouched");
  } else {
    CHECK(g_ri_calls == 1 && g_ri_offset == 0, "log: read from offset 0");
    CHECK(g_ri_reporter != NULL && g_ri_corruption == report_corruption && g_ri_lognum == in_log, "log: reader corruption reports go to the repairer's reporter (logged, not fatal)");
    CHECK(g_lr_pos == g_lr_n, "log: every record is read (a bad batch does not stop the replay)");
    if (g_lk < g_lr_n) CHECK(g_ins_k == (g_lk_size >= 12 ? 1u : 0u), "log: an arbitrary record is replayed exactly once if it can hold a batch header (>= 12 bytes), else dropped");
    CHECK(g_ins_total <= g_lr_n, "log: at most one replay per record");
    CHECK(g_mem_creates == 1 && g_mem_refs == 1 && g_mem_unrefs == 1 && g_memiter_creates == 1 && g_iter_destroys == 1 && g_unref_after_iter == 1, "log: one memtable; referenced, iterated, iterator released, then unreferenced");
    CHECK(g_rclear == 1 && g_rfdestroy == 1 && g_bclear == 1 && g_sclear == 1 && g_metainit == 1 && g_metaclear == 1, "log: reader, file, batch, scratch and meta record are released");
    CHECK(rep->next_file_number == next0 + 1 && g_bt_fname_num == next0, "log: the table gets a FRESH file number from the repairer's allocator, which advances by one");
    CHECK(g_tabpush_calls == ((BT_ALL_OK) ? 1u : 0u), "log: the table is queued for scanning iff its file was really produced (built, synced, closed, verified, non-empty)");
    if (g_tabpush_calls) CHECK(g_tabpush_num == next0 && g_bt_removed == 0 && rc == LDB_OK, "log: the queued number is the new table's, whose file was kept");
    else CHECK(g_bt_removed == 1 || !g_bt_fname_ok || (g_bt_n > 0 && g_bt_create_rc != LDB_OK), "log: otherwise no table file is left behind");
    CHECK(rc == LDB_OK || g_tabpush_calls == 0, "log: a failed conversion registers nothing");
  }
  CANARY();
}
