#!/bin/sh
# tools/seedverify.sh <seed_out dir> <id> : independent confirmation of a seeded change in a fresh scratch worktree.
#  1. unchanged source: build, demo must pass (exit 0)
#  2. patched source:   build, full test suite must pass, demo must fail (exit != 0)
# prints a summary line "SEEDVERIFY <id> orig_demo=<rc> tests=<passed|failed> changed_demo=<rc>"; removes the worktree.
set -u
SO="$1"; ID="$2"; W="/tmp/seedv_$ID"
rm -rf "$W"; git -C /repo worktree prune
git -C /repo worktree add -q --detach "$W" HEAD || exit 2
cd "$W" || exit 2
mkdir -p "$W/_tmp"
cmake -G Ninja -B "$W/_build" -S "$W" -DCMAKE_BUILD_TYPE=RelWithDebInfo >/dev/null 2>&1 && cmake --build "$W/_build" >/dev/null 2>&1 || { echo "SEEDVERIFY $ID build-orig-failed"; exit 2; }
cp "$SO"/demo.* "$W/" 2>/dev/null
( cd "$W" && sh ./demo.sh "$W" >"$W/demo_orig.log" 2>&1 ); O=$?
git -C "$W" apply "$SO/patch.diff" || { echo "SEEDVERIFY $ID patch-does-not-apply"; exit 2; }
cmake --build "$W/_build" >/dev/null 2>&1 || { echo "SEEDVERIFY $ID build-changed-failed"; exit 2; }
TEST_TMPDIR="$W/_tmp" ctest --test-dir "$W/_build" -j3 --timeout 900 >"$W/ctest.log" 2>&1; T=$?
if [ $T -ne 0 ]; then
  # one retry of failed tests only (the suite has a load-sensitive test)
  TEST_TMPDIR="$W/_tmp" ctest --test-dir "$W/_build" --rerun-failed --timeout 900 >>"$W/ctest.log" 2>&1; T=$?
fi
( cd "$W" && sh ./demo.sh "$W" >"$W/demo_changed.log" 2>&1 ); C=$?
TS=failed; [ $T -eq 0 ] && TS=passed
echo "SEEDVERIFY $ID orig_demo=$O tests=$TS changed_demo=$C"
tail -3 "$W/demo_orig.log" | sed 's/^/   orig: /'; tail -3 "$W/demo_changed.log" | sed 's/^/   changed: /'; grep -E "tests passed|tests failed" "$W/ctest.log" | tail -1 | sed 's/^/   /'
grep -E "\*\*\*Failed|\*\*\*Timeout|Failed +[0-9.]+ sec" "$W/ctest.log" | head -5 | sed 's/^/   failed: /'
cd /; git -C /repo worktree remove --force "$W"
