#!/usr/bin/env python3
"""tools/benignrun.py benign/<id>.diff ... : false-alarm test.  Applies a behaviour-preserving patch to a scratch copy of
/repo's tracked sources (LCDB_REPO) and runs every enabled quick unit once.  Any FAILED unit other than the known finding is a
false alarm of the machinery; INCONCLUSIVE units are extraction breaks (exit 2 of a property check), listed separately."""
import subprocess, sys, os, tempfile, shutil, json, re
V = os.path.dirname(os.path.dirname(os.path.abspath(__file__)))
out = {}
for pf in sys.argv[1:]:
    d = tempfile.mkdtemp(prefix="lcdbbenign-")
    try:
        subprocess.check_call("git -C /repo archive HEAD src include | tar -x -C %s" % d, shell=True)
        subprocess.check_call(["patch", "-p1", "-s", "-d", d, "-i", os.path.abspath(pf)])
        env = dict(os.environ, LCDB_REPO=d)
        r = subprocess.run([os.path.join(V, "check"), "--all-enabled"], cwd=V, env=env, stdout=subprocess.PIPE, universal_newlines=True)
        lines = r.stdout.splitlines()
        summ = [l for l in lines if l.startswith("ALL-ENABLED")]
        bad = [l for l in lines if re.match(r"^\S+\s+(FAILED|INCONCLUSIVE)", l)]
        reasons = [l.strip() for l in lines if l.strip().startswith(("reason:", "FAILED "))]
        name = os.path.basename(pf)
        out[name] = {"summary": summ, "not_ok": bad, "details": reasons[:20]}
        print("== %s %s" % (name, summ[0] if summ else "no summary"))
        for l in bad: print("   " + l[:160])
        for l in reasons[:12]: print("      " + l[:220])
        sys.stdout.flush()
    finally:
        shutil.rmtree(d, ignore_errors=True)
json.dump(out, open(os.path.join(V, "benign", "result.json"), "w"), indent=1)
