#!/usr/bin/env python3
"""Regenerates the 'as built' per-property table between the markers <!-- ASBUILT-BEGIN --> / <!-- ASBUILT-END --> in DESIGN.md
from units/*.json (enabled groups only)."""
import json, glob, os, re
V = os.path.dirname(os.path.dirname(os.path.abspath(__file__)))
en = [l.strip() for l in open(os.path.join(V, "units/ENABLED")) if l.strip() and not l.startswith("#")]
KEY = {
 "C01": "fmt.*, mem.*, skl.*, db.get, ver.get*/ver.getstate/ver.find, tbl.get, lru.*, dbc.drop (drop rule), ver.pick/ver.setup/ver2.inputs_l0 (no newer-below-older), flt.*/blm.* (no false negative)",
 "C02": "env.write/flush/append/sync/close, log.add, db.write (sync before ack), db.flush, dbc.finish/dbc.install, ver.apply (MANIFEST fsync before CURRENT), env.current",
 "C03": "log.add (flush per record), db.write, db.recoverlog (unbounded replay loop), life.recover*, log.read/log.phys",
 "C04": "bat.*, db.write (sequence accounting), log.read/log.phys (a record is one batch), dbapi.put/del, capi.batch*",
 "C05": "db.recoverlog, life.recover(.u), life.open, ver.recover (unbounded), ver.numbers.*, edit.*, env.current",
 "C06": "db.get / db.iter / dbapi.iterator (sequence captured with the pins), db.snapshot, dbc.drop (smallest_snapshot, S3), it.db_*, mem.get_*, fmt.ikc",
 "C07": "blk.iter.*, two.*, it.merge_*, it.db_*, ver3.numiter.*, skl.iter_*, cmp.*, ikc.*",
 "C09": "db.write / db.room (waits re-check, W3), db.bg (broadcast, reschedule), db.bgcompact, life.close, life.backup, dbapi.compact_range, pool.*",
 "C11": "log.phys/log.read, tbl.read/tbl.open/tbl.blockreader, blk.init/blk.iter.*, crc.*, two.* (status propagation), ver3.fileiter, envr.rfile.*",
 "C12": "log.add / db.write (error latched), db.flush, dbc.* , db.bgcompact (E3), ver.apply, env.*, envr.copy/writefile, capi.save_error",
 "C13": "db.gc / db.gc_call (unbounded listing), db.iter + call-site census, db.flush (pending window), dbc.cleanup, ver.live, ver.numbers.*, rbt.*, tcache.evict, life.recover*, rep.archive",
 "C14": "dbc.drop / dbc.install / dbc.trivial, ver.pick / ver.range / ver.setup / ver2.inputs_l0 / ver.boundary.*, ver3.builder.*, ver3.finalize, ver.picklevel",
 "C15": "log.add (unbounded), log.init, log.phys, log.read (unbounded), log.torn, crc.mask*",
 "C16": "blk.gen.*, tblb.*, tblfmt.*, blk.*, flt.generate, blm.*, snp.decode*, snp.enc.*, cmp.*(.u), ikc.*, buf.*, cod.*",
 "C17": "edit.* / edit2 (scalar, list, badtag, export), cod.*, ver.apply, ver.recover, ver2.snapshot, env.current, fn.*",
 "C18": "cod.* (all varint/fixed decoders), blk.decode / blk.restarts / blk.iter.parse, tblfmt.*, snp.decode*, flt.init / blm.match.any, bat.iter, edit.badtag, log.phys, fn.parse",
 "C19": "rep.find / rep.scan / rep.rebuild / rep.log / rep.desc / rep.run / rep.archive (+ known finding rep.desc_recency)",
 "C20": "life.newdb / recover / open / close / destroy / backup / copy (+ .u twins), lock.file / lock.unlock, fn.*",
}
per = {}
for f in sorted(glob.glob(os.path.join(V, "units/*.json"))):
    d = json.load(open(f))
    if d["group"] not in en:
        continue
    df = d.get("defaults", {})
    for u in d["units"]:
        tier = u.get("tier", df.get("tier", "quick")); mode = u.get("mode", df.get("mode", "proof"))
        if tier == "parked":
            continue
        for p in u.get("properties", df.get("properties", [])):
            e = per.setdefault(p, {"qp": 0, "qb": 0, "t": 0, "fn": set()})
            if tier == "quick":
                e["qp" if mode == "proof" else "qb"] += 1
            else:
                e["t"] += 1
            e["fn"] |= set(u.get("functions", []))
rows = ["| property | quick units: proof / bounded | thorough-only | functions under contract | where the property is decided |", "|---|---|---|---|---|"]
for p in sorted(per):
    e = per[p]
    rows.append("| %s | %d / %d | %d | %d | %s |" % (p, e["qp"], e["qb"], e["t"], len(e["fn"]), KEY.get(p, "")))
txt = "\n".join(rows)
path = os.path.join(V, "DESIGN.md")
s = open(path).read()
b, e_ = "<!-- ASBUILT-BEGIN -->", "<!-- ASBUILT-END -->"
if b in s:
    s = s[:s.index(b) + len(b)] + "\n" + txt + "\n" + s[s.index(e_):]
    open(path, "w").write(s)
print(txt)
