#!/usr/bin/env python3
"""Regenerates /verif/MANIFEST.json from the unit catalogue and the texts below.
A property is claimed only if at least one proof unit serves it; everything
else is listed under not_applicable with its reason."""
import glob, json, os, sys

VERIF = os.path.dirname(os.path.dirname(os.path.abspath(__file__)))

LEVEL = {
 "C01": ("proof", "5/C01", "Per-step obligations of the lookup path proved on the real functions: internal-key order and tag packing, lookup-key layout, memtable entry layout and get, mem->imm->version order and sequence capture in ldb_get, level-0 newest-first / find_file / first-hit-wins in version lookup, compaction drop rule, flush level choice, filter no-false-negative. The whole-history statement follows by the induction written in DESIGN.md 5/C01, which is not machine-checked."),
 "C02": ("proof", "5/C02", "Durability under the property's crash model is reduced to ordering (typestate) obligations over a ghost I/O trace, proved on the real functions with every environment call allowed to fail: WAL append+flush+fsync before a sync write is acknowledged, table synced and closed before the edit naming it, MANIFEST record synced before the version is installed and before anything is unlinked, CURRENT temp synced before rename. Crash points are not enumerated; the reduction argument is in DESIGN.md."),
 "C03": ("proof", "5/C03", "Obligations on the real code: every physical log record is handed to write(2) before add_record returns OK; ldb_write acknowledges only after that; recovery replays exactly the logs >= log_number in ascending order and assigns logged sequences in order; counters end above everything seen; log reuse only on a framed prefix. Composition over kill points is argued, not machine-checked."),
 "C04": ("proof", "5/C04", "One group = one log record with the members' bodies in queue order and one contiguous sequence range; a logical record is returned whole or not at all by the reader; last_sequence is published only after the memtable insert, under the mutex; readers capture their sequence under the mutex. Visibility under concurrency relies on the (unchecked) mutex discipline."),
 "C05": ("proof", "5/C05", "Torn WAL/MANIFEST tails end recovery silently (reader contract), recovery installs nothing on error and requires the three counters, orphan handling and counter advance are proved per function, and post-recovery appends go to a framed log (log.init precondition at both reuse sites). Crash points inside recovery are covered only through ordering obligations."),
 "C06": ("proof", "5/C06", "Snapshot sequence captured under the mutex into an ordered list; compaction's smallest_snapshot is the oldest live snapshot; the drop rule never removes the newest entry at or below any sequence >= smallest_snapshot; reads filter by sequence. Per-function obligations; the history argument is on paper."),
 "C07": ("proof", "5/C07", "Step contracts of the iterator stack on the real code: seek_ge/gt/le/lt against a sorted-cursor child contract (unbounded), block iterator representation invariant and termination on arbitrary bytes, merging / DB iterator one-step obligations on bounded shapes (labelled bounded). Induction over the call sequence is argued."),
 "C09": ("proof", "5/C09", "Only the wake-up discipline (sequential content of the protocol): every dequeued follower is completed and signalled, the new head is signalled, no function returns or blocks while owing a broadcast, waiters always have a scheduled background call. Deadlock freedom under all schedules is NOT decided."),
 "C11": ("proof", "5/C11", "With verify_checksums the contents returned by ldb_read_block were covered by a CRC comparison over data+type; paranoid_checks forces verification of index/meta/filter; malformed blocks yield CORRUPTION, never an entry outside the block; log fragments pass their CRC; footer magic checked; callee errors propagate. That CRC-32C detects a given alteration is assumed."),
 "C12": ("proof", "5/C12", "Environment stubs fail nondeterministically at every call, so each unit covers all fault positions inside its function: first failing status returned, nothing acknowledged after a failed log append (bg_error latch), failed flush/compaction installs nothing and keeps imm, failed outputs removed, failed buffered flush drops the buffer."),
 "C13": ("proof", "5/C13", "Keep predicate of ldb_remove_obsolete_files proved in both directions for every directory entry; live set covers all listed versions; pending_outputs protocol; allocator strictly increasing and moved past recovered numbers."),
 "C14": ("proof", "5/C14", "Well-formedness WF(V) as an invariant: builder result sorted and equal to (base minus deleted) plus added, overlap/boundary computations equal their set specifications (bounded in file count), flush placement, metadata of built tables = first/last key written. Level-0 recency after repair is a recorded known finding (F1)."),
 "C15": ("proof", "5/C15", "Writer: 7-byte header LE32(masked crc) len16 type, FULL | FIRST MIDDLE* LAST covering the record exactly once, zero trailer < 7 bytes, block_offset arithmetic, for records of any length at any starting offset (loop contract, unbounded). Reader: total and memory-safe on arbitrary bytes; torn tail => EOF without report; CRC/length damage reported and the block dropped; records reassembled whole or not at all. CRC mask/unmask inverse on all 2^32; portable CRC tables equal the reflected polynomial."),
 "C16": ("proof", "5/C16", "Block builder entry layout / restart array, block trailer type+masked CRC over contents+type, handle and footer encodings round trip and are total on arbitrary bytes, block iterator invariant on arbitrary bytes, filter block reader total with malformed => may-match. Content round trips and Snappy encoder are bounded stand-ins and labelled so."),
 "C17": ("proof", "5/C17", "Varint32/64 and fixed32/64 codecs proved against the LEB128 / little-endian specification for all 2^32 / 2^64 values and for input buffers of arbitrary length; version-edit decoder total and field-exact; edit export layout; CURRENT written with sync then renamed, reader insists on the newline; MANIFEST rollover ordering."),
 "C18": ("proof", "5/C18", "Decoders run on fully symbolic buffers of unbounded size with bounds, pointer, pointer-overflow, signed-overflow, shift and division checks on; loops closed by invariants with decreases clauses (termination). Whole-database operations on mutated directories are not covered, only the decoders they call."),
 "C19": ("proof", "5/C19", "Repair's descriptor: every table at level 0, next_file above every number found, last_sequence = maximum seen, temp -> rename -> CURRENT order. Level-0 recency of repaired tables cannot be established (known finding F1)."),
 "C20": ("proof", "5/C20", "File lock exclusive and released on every failure path; backup/copy/destroy action tables per file type and cleanup on failure; only parsable names touched; comparator mismatch refused before anything is written."),
}

NOTE = "Trusted: CBMC 6.11.0 (goto-cc, goto-instrument --dfcc, SAT back end) and its libc models; /verif/model stubs of the environment, thread primitives and comparators; contracts of replaced callees are enforced in their own unit or listed in trusted.json; composition of per-function obligations into the whole-history statement is a paper argument (DESIGN.md section 5). Bounded stand-ins are labelled in the evidence and not counted as proved."

NA = {
 "C08": "linearizability quantifies over thread interleavings; CBMC contract instrumentation (dfcc) is sequential and a per-function contract cannot express overlapping operations. The sequential facts it rests on are proved under C04/C06.",
 "C10": "a data race is a pair of unordered conflicting accesses in two threads; no contract over one call expresses it and CBMC contracts have no race semantics. The lock-invariant units assume exactly this property.",
}
# properties whose core units exist and pass on the unchanged tree (kept by hand)
CLAIMED = ["C01", "C02", "C03", "C04", "C05", "C06", "C07", "C09", "C11", "C12", "C13", "C14", "C15", "C16", "C17", "C18", "C19", "C20"]

PLANNED = "the core proof units for this property have not been built yet (planned in DESIGN.md section 5); not claimed until its obligations are discharged on every run"


def main():
    served = set()
    techniques = {}
    en = {l.strip() for l in open(os.path.join(VERIF, "units", "ENABLED")) if l.strip() and not l.startswith("#")}
    for p in glob.glob(os.path.join(VERIF, "units", "*.json")):
        if os.path.basename(p)[:-5] not in en:
            continue
        g = json.load(open(p))
        d = g.get("defaults", {})
        for u in g["units"]:
            for pr in u.get("properties", d.get("properties", [])):
                served.add(pr)
    props = [json.loads(l)["id"] for l in open(os.path.join(VERIF, "properties.jsonl")) if l.strip()]
    checks, na = [], []
    for pid in props:
        if pid in served and pid in LEVEL and pid in CLAIMED:
            cat, ref, text = LEVEL[pid]
            checks.append({
                "property_id": pid,
                "quick_cmd": "./check %s --tier quick" % pid,
                "thorough_cmd": "./check %s --tier thorough" % pid,
                "evidence_file": "evidence/%s.json" % pid,
                "replay_cmd_template": "./check %s --replay {path}" % pid,
                "engine": "cbmc-contracts",
                "level_claimed": {"category": cat, "text": text, "design_ref": "DESIGN.md " + ref},
                "level_note": NOTE,
                "technique": "contract-based deductive verification: CBMC 6.11 code contracts (requires/ensures/assigns, loop invariants + decreases) enforced per function with goto-instrument --dfcc on the unmodified repository sources; bounded stand-ins labelled",
            })
        else:
            na.append({"property_id": pid, "reason": NA.get(pid, PLANNED)})
    m = {
        "version": 1,
        "setup_cmd": "python3 -m py_compile check && python3 tools/gen_manifest.py --check",
        "hooks": {"guard": "LCDB_VERIF", "enable": "none needed: contracts live on carrier symbols in /verif/contracts and loop contracts in /verif/loops; harnesses #include the repository sources unmodified",
                  "baseline_off_cmd": "cmake --build /repo/_build && ctest --test-dir /repo/_build -j8 --timeout 900",
                  "source_commits": [], "add_only": True},
        "engines": [{"name": "cbmc-contracts", "path": "check", "serves_properties": [c["property_id"] for c in checks],
                     "kind_free_text": "driver that rebuilds every proof unit from /repo with goto-cc, instruments contracts with goto-instrument --dfcc and discharges obligations with cbmc"}],
        "checks": checks,
        "not_applicable": na,
        "notes": "See DESIGN.md. ./check Cxx exits 0/1/2 (2 = inconclusive: timeout, extraction break, vacuity; never reported as a violation).",
    }
    out = os.path.join(VERIF, "MANIFEST.json")
    text = json.dumps(m, indent=1) + "\n"
    if "--check" in sys.argv:
        cur = open(out).read() if os.path.exists(out) else ""
        if cur != text:
            print("MANIFEST.json is stale; run tools/gen_manifest.py")
            return 1
        return 0
    open(out, "w").write(text)
    print("claimed:", [c["property_id"] for c in checks])
    print("not applicable:", [n["property_id"] for n in na])
    return 0


if __name__ == "__main__":
    sys.exit(main())
