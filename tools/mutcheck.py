#!/usr/bin/env python3
"""Development helper: apply a textual mutation to a scratch copy of /repo's
sources and run proof units against it.  Never touches /repo.

  tools/mutcheck.py -f src/log_writer.c -o 'old text' -n 'new text' -u log.add [-u ...]
  tools/mutcheck.py -p some.patch -u 'log\\..*'
exit 0 if at least one unit FAILED (mutant caught), 1 if all OK (missed), 2 inconclusive only
"""
import argparse, os, shutil, subprocess, sys, tempfile
ap = argparse.ArgumentParser()
ap.add_argument("-f"); ap.add_argument("-o"); ap.add_argument("-n"); ap.add_argument("-p")
ap.add_argument("-u", action="append", required=True); ap.add_argument("-v", action="store_true")
ap.add_argument("--count", type=int, default=1)
a = ap.parse_args()
V = os.path.dirname(os.path.dirname(os.path.abspath(__file__)))
d = tempfile.mkdtemp(prefix="lcdbmut-")
try:
    for sub in ("src", "include"):
        shutil.copytree(os.path.join("/repo", sub), os.path.join(d, sub))
    if a.p:
        subprocess.check_call(["patch", "-p1", "-s", "-d", d, "-i", os.path.abspath(a.p)])
    else:
        p = os.path.join(d, a.f)
        s = open(p).read()
        if s.count(a.o) != a.count:
            print("mutation site matches %d times (expected %d)" % (s.count(a.o), a.count)); sys.exit(3)
        open(p, "w").write(s.replace(a.o, a.n))
    cmd = [os.path.join(V, "check")] + sum((["--unit", u] for u in a.u), []) + (["-v"] if a.v else [])
    r = subprocess.run(cmd, env=dict(os.environ, LCDB_REPO=d), stdout=subprocess.PIPE, universal_newlines=True)
    out = r.stdout
    print("\n".join(l for l in out.splitlines() if a.v or not l.startswith("      |")))
    caught = " FAILED " in out
    print("MUTANT", "CAUGHT" if caught else ("INCONCLUSIVE" if "INCONCLUSIVE" in out else "MISSED"))
    sys.exit(0 if caught else (2 if "INCONCLUSIVE" in out else 1))
finally:
    shutil.rmtree(d, ignore_errors=True)
