#!/usr/bin/env python3
"""Run property checks against a seeded breaking change.

  tools/seedrun.py seeded/<id> [--props C02,C12 | --all] [--tier quick]

Applies seeded/<id>/patch.diff to /repo (git apply), runs the checks, ALWAYS
restores /repo (git checkout -- .), prints which checks report VIOLATION and
stores the outcome in seeded/<id>/result.json.
"""
import argparse, json, os, subprocess, sys, time
V = os.path.dirname(os.path.dirname(os.path.abspath(__file__)))
ap = argparse.ArgumentParser()
ap.add_argument("seed"); ap.add_argument("--props"); ap.add_argument("--all", action="store_true"); ap.add_argument("--tier", default="quick")
ap.add_argument("--in-repo", action="store_true", help="apply the patch to /repo itself (git apply ... git checkout -- .); default: a scratch copy of /repo's tracked sources via LCDB_REPO, safe while other jobs use /repo")
a = ap.parse_args()
sd = os.path.abspath(a.seed)
meta = json.load(open(os.path.join(sd, "meta.json")))
man = json.load(open(os.path.join(V, "MANIFEST.json")))
claimed = [c["property_id"] for c in man["checks"]]
props = a.props.split(",") if a.props else (claimed if a.all else [p for p in meta.get("properties", [meta.get("property")]) if p in claimed] or claimed)
import shutil, tempfile
res = {"seed": os.path.basename(sd), "tier": a.tier, "ran": {}, "when": time.strftime("%Y-%m-%d %H:%M:%S"), "mode": "in-repo" if a.in_repo else "scratch-copy"}
env = dict(os.environ)
scratch = None
if a.in_repo:
    st = subprocess.run(["git", "-C", "/repo", "status", "--porcelain", "--untracked-files=no"], stdout=subprocess.PIPE, universal_newlines=True).stdout.strip()
    if st:
        sys.exit("refusing: /repo has uncommitted changes:\n" + st)
    subprocess.check_call(["git", "-C", "/repo", "apply", os.path.join(sd, "patch.diff")])
else:
    scratch = tempfile.mkdtemp(prefix="lcdbseed-")
    subprocess.check_call("git -C /repo archive HEAD src include | tar -x -C %s" % scratch, shell=True)
    subprocess.check_call(["patch", "-p1", "-s", "-d", scratch, "-i", os.path.join(sd, "patch.diff")])
    env["LCDB_REPO"] = scratch
try:
    for p in props:
        r = subprocess.run([os.path.join(V, "check"), p, "--tier", a.tier], cwd=V, stdout=subprocess.PIPE, universal_newlines=True, env=env)
        lines = [l for l in r.stdout.splitlines() if l.startswith(("VIOLATION", "INCONCLUSIVE", "KNOWN-FINDING"))]
        res["ran"][p] = {"exit": r.returncode, "lines": [l[:400] for l in lines][:12]}
        print("%s exit=%d %s" % (p, r.returncode, (lines[0][:200] if lines else "")))
finally:
    if a.in_repo:
        subprocess.check_call(["git", "-C", "/repo", "checkout", "--", "."])
    else:
        shutil.rmtree(scratch, ignore_errors=True)
res["caught_by"] = [p for p, v in res["ran"].items() if v["exit"] == 1]
json.dump(res, open(os.path.join(sd, "result.json"), "w"), indent=1)
print("CAUGHT by", res["caught_by"] if res["caught_by"] else "NOTHING")
