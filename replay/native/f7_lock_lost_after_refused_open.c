/* reproducer: a refused second open (or ldb_destroy) in the same process drops the first handle's LOCK */
#include <stdio.h>
#include <stdlib.h>
#include <string.h>
#include <unistd.h>
#include <sys/wait.h>
#include <lcdb.h>

static const char *self;
static int try_open_in_other_process(const char *path) {
  pid_t pid = fork();
  if (pid == 0) {
    execl(self, self, path, (char *)NULL);
    _exit(2);
  } else {
    int st; waitpid(pid, &st, 0);
    return WEXITSTATUS(st) == 0;   /* 1 = the other process got the database */
  }
}

int main(int argc, char **argv) {
  char path[256];
  ldb_dbopt_t opt = *ldb_dbopt_default;
  ldb_t *db = NULL, *db2 = NULL;
  int rc, a, b;
  self = argv[0];
  if (argc > 1) {
    rc = ldb_open(argv[1], &opt, &db2);
    if (rc == LDB_OK) { ldb_close(db2); return 0; }
    return 1;
  }
  sprintf(path, "/tmp/life/lockdb-%d", (int)getpid());
  opt.create_if_missing = 1;
  rc = ldb_open(path, &opt, &db);
  printf("first open: %d\n", rc);
  a = try_open_in_other_process(path);
  printf("another process can open the held database (before): %d\n", a);
  rc = ldb_open(path, &opt, &db2);
  printf("second open in the same process: rc=%d (%s)\n", rc, ldb_strerror(rc));
  b = try_open_in_other_process(path);
  printf("another process can open the held database (after the refused open): %d\n", b);
  ldb_close(db);
  ldb_destroy(path, NULL);
  if (!a && b) { printf("DEFECT: exclusive lock lost after a refused open in the same process\n"); return 1; }
  return 0;
}
