#include <stdio.h>
#include <string.h>
#include <errno.h>
#include <stdarg.h>
#include <fcntl.h>
#include <stdlib.h>
#include <lcdb.h>
int __real_open(const char *path, int flags, ...);
static int fail_n = -1, seen = 0;
int __wrap_open(const char *path, int flags, ...) {
  va_list ap; int mode = 0;
  va_start(ap, flags); mode = va_arg(ap, int); va_end(ap);
  if (strstr(path, "MANIFEST-") && (flags & O_CREAT)) {
    fprintf(stderr, "open(%s) create #%d\n", path, seen);
    if (seen++ == fail_n) { errno = ENOSPC; return -1; }
  }
  return __real_open(path, flags, mode);
}
int main(int argc, char **argv) {
  ldb_dbopt_t opt = *ldb_dbopt_default;
  ldb_t *db; int rc;
  fail_n = atoi(argv[1]);
  opt.create_if_missing = 1;
  system("rm -rf /tmp/f5/db");
  rc = ldb_open("/tmp/f5/db", &opt, &db);
  printf("open rc=%d (%s)\n", rc, ldb_strerror(rc));
  if (rc == 0) ldb_close(db);
  return 0;
}
