/* contracts/coding.h - contract carriers for src/util/coding.h
 *
 * The postconditions spell the LevelDB wire formats (little-endian fixed
 * integers, LEB128 varints) independently of the code.  The same POST_ macros
 * are evaluated natively by the replay twins.
 */
#ifndef VERIF_CONTRACTS_CODING_H
#define VERIF_CONTRACTS_CODING_H

#include <stdint.h>
#include <stddef.h>

/* ---- little-endian ---- */
#define LE32_AT(p) ((uint32_t)(p)[0] | ((uint32_t)(p)[1] << 8) | ((uint32_t)(p)[2] << 16) | ((uint32_t)(p)[3] << 24))
#define LE64_AT(p) ((uint64_t)LE32_AT(p) | ((uint64_t)LE32_AT((p) + 4) << 32))
#define IS_LE32(p, x) ((p)[0] == (uint8_t)((x) & 255) && (p)[1] == (uint8_t)(((x) >> 8) & 255) && \
                       (p)[2] == (uint8_t)(((x) >> 16) & 255) && (p)[3] == (uint8_t)(((x) >> 24) & 255))
#define IS_LE64(p, x) (IS_LE32(p, (uint32_t)((x) & 0xffffffffu)) && IS_LE32((p) + 4, (uint32_t)((uint64_t)(x) >> 32)))

/* ---- LEB128 ---- */
#define VB_(p, j, k) ((j) < (k) ? (uint64_t)(p)[j] : (uint64_t)0)
#define V32_SIZE(x) ((x) < 128u ? 1 : (x) < 16384u ? 2 : (x) < 2097152u ? 3 : (x) < 268435456u ? 4 : 5)
#define V64_SIZE(x) ((x) < (1ull << 7) ? 1 : (x) < (1ull << 14) ? 2 : (x) < (1ull << 21) ? 3 : (x) < (1ull << 28) ? 4 : \
                     (x) < (1ull << 35) ? 5 : (x) < (1ull << 42) ? 6 : (x) < (1ull << 49) ? 7 : (x) < (1ull << 56) ? 8 : \
                     (x) < (1ull << 63) ? 9 : 10)
/* value of the first k bytes read as LEB128 groups (truncated to the width) */
#define V32_VAL(p, k) ((uint32_t)((VB_(p,0,k) & 127) | ((VB_(p,1,k) & 127) << 7) | ((VB_(p,2,k) & 127) << 14) | \
                                  ((VB_(p,3,k) & 127) << 21) | ((VB_(p,4,k) & 127) << 28)))
#define V64_VAL(p, k) ((uint64_t)((VB_(p,0,k) & 127) | ((VB_(p,1,k) & 127) << 7) | ((VB_(p,2,k) & 127) << 14) | \
                                  ((VB_(p,3,k) & 127) << 21) | ((VB_(p,4,k) & 127) << 28) | ((VB_(p,5,k) & 127) << 35) | \
                                  ((VB_(p,6,k) & 127) << 42) | ((VB_(p,7,k) & 127) << 49) | ((VB_(p,8,k) & 127) << 56) | \
                                  ((VB_(p,9,k) & 127) << 63)))
/* bytes j < k-1 carry the continuation bit, byte k-1 does not */
#define VCONT_(p, j, k) ((j) + 1 >= (k) || ((p)[j] & 128))
#define V_WELLFORMED(p, k) ((k) >= 1 && (k) <= 10 && ((p)[(k) - 1] & 128) == 0 && \
  VCONT_(p,0,k) && VCONT_(p,1,k) && VCONT_(p,2,k) && VCONT_(p,3,k) && VCONT_(p,4,k) && \
  VCONT_(p,5,k) && VCONT_(p,6,k) && VCONT_(p,7,k) && VCONT_(p,8,k))
/* all of the first k bytes carry the continuation bit */
#define VALLC_(p, j, k) ((j) >= (k) || ((p)[j] & 128))
#define V_ALLCONT(p, k) (VALLC_(p,0,k) && VALLC_(p,1,k) && VALLC_(p,2,k) && VALLC_(p,3,k) && VALLC_(p,4,k) && \
  VALLC_(p,5,k) && VALLC_(p,6,k) && VALLC_(p,7,k) && VALLC_(p,8,k) && VALLC_(p,9,k))
#define VMIN_(a, b) ((a) < (b) ? (a) : (b))

/* reader: (r, z) result, (p1, n1) cursor after, (p0, n0) cursor before, W = max bytes (5 / 10) */
#define POST_VREAD_CURSOR(r, p1, n1, p0, n0, W) \
  (((r) == 0 || (r) == 1) && (n1) <= (n0) && (n0) - (n1) <= (W) && (p1) == (p0) + ((n0) - (n1)))
#define POST_VREAD_OK(r, p1, n1, p0, n0) ((r) != 1 || V_WELLFORMED(p0, (n0) - (n1)))
#define POST_VREAD_FAIL(r, z, p1, n1, p0, n0, W) \
  ((r) != 0 || ((z) == 0 && (n0) - (n1) == VMIN_(n0, W) && V_ALLCONT(p0, (n0) - (n1))))
#define POST_V32READ_VAL(r, z, n1, p0, n0) ((r) != 1 || (z) == V32_VAL(p0, (n0) - (n1)))
#define POST_V64READ_VAL(r, z, n1, p0, n0) ((r) != 1 || (z) == V64_VAL(p0, (n0) - (n1)))

#ifndef VERIF_NATIVE

/* ------------------------------------------------------------------ fixed */

void c_fixed32_encode(uint8_t *zp, uint32_t x)
__CPROVER_requires(__CPROVER_w_ok(zp, 4))
__CPROVER_assigns(__CPROVER_object_upto(zp, 4))
__CPROVER_ensures(IS_LE32(zp, x))
;

uint32_t c_fixed32_decode(const uint8_t *xp)
__CPROVER_requires(__CPROVER_r_ok(xp, 4))
__CPROVER_assigns()
__CPROVER_ensures(__CPROVER_return_value == LE32_AT(xp))
;

void c_fixed64_encode(uint8_t *zp, uint64_t x)
__CPROVER_requires(__CPROVER_w_ok(zp, 8))
__CPROVER_assigns(__CPROVER_object_upto(zp, 8))
__CPROVER_ensures(IS_LE64(zp, x))
;

uint64_t c_fixed64_decode(const uint8_t *xp)
__CPROVER_requires(__CPROVER_r_ok(xp, 8))
__CPROVER_assigns()
__CPROVER_ensures(__CPROVER_return_value == LE64_AT(xp))
;

uint8_t *c_fixed32_write(uint8_t *zp, uint32_t x)
__CPROVER_requires(__CPROVER_w_ok(zp, 4))
__CPROVER_assigns(__CPROVER_object_upto(zp, 4))
__CPROVER_ensures(__CPROVER_pointer_in_range_dfcc(zp, __CPROVER_return_value, zp + 4))
__CPROVER_ensures(__CPROVER_return_value == zp + 4)
__CPROVER_ensures(IS_LE32(zp, x))
;

uint8_t *c_fixed64_write(uint8_t *zp, uint64_t x)
__CPROVER_requires(__CPROVER_w_ok(zp, 8))
__CPROVER_assigns(__CPROVER_object_upto(zp, 8))
__CPROVER_ensures(__CPROVER_pointer_in_range_dfcc(zp, __CPROVER_return_value, zp + 8))
__CPROVER_ensures(__CPROVER_return_value == zp + 8)
__CPROVER_ensures(IS_LE64(zp, x))
;

int c_fixed32_read(uint32_t *z, const uint8_t **xp, size_t *xn)
__CPROVER_requires(__CPROVER_w_ok(z, sizeof(*z)) && __CPROVER_rw_ok(xp, sizeof(*xp)) && __CPROVER_rw_ok(xn, sizeof(*xn)))
__CPROVER_requires(__CPROVER_r_ok(*xp, *xn))
__CPROVER_assigns(*z, *xp, *xn)
/* re-binds the advanced cursor to the input object when the contract replaces a call (dfcc loses the points-to set otherwise) */
__CPROVER_ensures(__CPROVER_pointer_in_range_dfcc(__CPROVER_old(*xp), *xp, __CPROVER_old(*xp) + __CPROVER_old(*xn)))
__CPROVER_ensures(__CPROVER_return_value == (__CPROVER_old(*xn) >= 4 ? 1 : 0))
__CPROVER_ensures(__CPROVER_return_value == 1 ==> (*xn == __CPROVER_old(*xn) - 4 && *xp == __CPROVER_old(*xp) + 4 && *z == LE32_AT(__CPROVER_old(*xp))))
__CPROVER_ensures(__CPROVER_return_value == 0 ==> (*xn == __CPROVER_old(*xn) && *xp == __CPROVER_old(*xp)))
;

int c_fixed64_read(uint64_t *z, const uint8_t **xp, size_t *xn)
__CPROVER_requires(__CPROVER_w_ok(z, sizeof(*z)) && __CPROVER_rw_ok(xp, sizeof(*xp)) && __CPROVER_rw_ok(xn, sizeof(*xn)))
__CPROVER_requires(__CPROVER_r_ok(*xp, *xn))
__CPROVER_assigns(*z, *xp, *xn)
/* re-binds the advanced cursor to the input object when the contract replaces a call (dfcc loses the points-to set otherwise) */
__CPROVER_ensures(__CPROVER_pointer_in_range_dfcc(__CPROVER_old(*xp), *xp, __CPROVER_old(*xp) + __CPROVER_old(*xn)))
__CPROVER_ensures(__CPROVER_return_value == (__CPROVER_old(*xn) >= 8 ? 1 : 0))
__CPROVER_ensures(__CPROVER_return_value == 1 ==> (*xn == __CPROVER_old(*xn) - 8 && *xp == __CPROVER_old(*xp) + 8 && *z == LE64_AT(__CPROVER_old(*xp))))
__CPROVER_ensures(__CPROVER_return_value == 0 ==> (*xn == __CPROVER_old(*xn) && *xp == __CPROVER_old(*xp)))
;

/* ----------------------------------------------------------------- varint */

size_t c_varint32_size(uint32_t x)
__CPROVER_assigns()
__CPROVER_ensures(__CPROVER_return_value == V32_SIZE(x))
;

size_t c_varint64_size(uint64_t x)
__CPROVER_assigns()
__CPROVER_ensures(__CPROVER_return_value == V64_SIZE(x))
;

uint8_t *c_varint32_write(uint8_t *zp, uint32_t x)
__CPROVER_requires(__CPROVER_w_ok(zp, V32_SIZE(x)))
__CPROVER_assigns(__CPROVER_object_from(zp))
__CPROVER_ensures(__CPROVER_pointer_in_range_dfcc(zp, __CPROVER_return_value, zp + V32_SIZE(x)))
__CPROVER_ensures(__CPROVER_return_value == zp + V32_SIZE(x))
__CPROVER_ensures(V_WELLFORMED(zp, V32_SIZE(x)))
__CPROVER_ensures(V32_VAL(zp, V32_SIZE(x)) == x)
;

uint8_t *c_varint64_write(uint8_t *zp, uint64_t x)
__CPROVER_requires(__CPROVER_w_ok(zp, V64_SIZE(x)))
__CPROVER_assigns(__CPROVER_object_from(zp))
__CPROVER_ensures(__CPROVER_pointer_in_range_dfcc(zp, __CPROVER_return_value, zp + V64_SIZE(x)))
__CPROVER_ensures(__CPROVER_return_value == zp + V64_SIZE(x))
__CPROVER_ensures(V_WELLFORMED(zp, V64_SIZE(x)))
__CPROVER_ensures(V64_VAL(zp, V64_SIZE(x)) == x)
;

int c_varint32_read(uint32_t *z, const uint8_t **xp, size_t *xn)
__CPROVER_requires(__CPROVER_w_ok(z, sizeof(*z)) && __CPROVER_rw_ok(xp, sizeof(*xp)) && __CPROVER_rw_ok(xn, sizeof(*xn)))
__CPROVER_requires(__CPROVER_r_ok(*xp, *xn))
__CPROVER_assigns(*z, *xp, *xn)
/* re-binds the advanced cursor to the input object when the contract replaces a call (dfcc loses the points-to set otherwise) */
__CPROVER_ensures(__CPROVER_pointer_in_range_dfcc(__CPROVER_old(*xp), *xp, __CPROVER_old(*xp) + __CPROVER_old(*xn)))
__CPROVER_ensures(POST_VREAD_CURSOR(__CPROVER_return_value, *xp, *xn, __CPROVER_old(*xp), __CPROVER_old(*xn), 5))
__CPROVER_ensures(POST_VREAD_OK(__CPROVER_return_value, *xp, *xn, __CPROVER_old(*xp), __CPROVER_old(*xn)))
__CPROVER_ensures(POST_VREAD_FAIL(__CPROVER_return_value, *z, *xp, *xn, __CPROVER_old(*xp), __CPROVER_old(*xn), 5))
__CPROVER_ensures(POST_V32READ_VAL(__CPROVER_return_value, *z, *xn, __CPROVER_old(*xp), __CPROVER_old(*xn)))
;

int c_varint64_read(uint64_t *z, const uint8_t **xp, size_t *xn)
__CPROVER_requires(__CPROVER_w_ok(z, sizeof(*z)) && __CPROVER_rw_ok(xp, sizeof(*xp)) && __CPROVER_rw_ok(xn, sizeof(*xn)))
__CPROVER_requires(__CPROVER_r_ok(*xp, *xn))
__CPROVER_assigns(*z, *xp, *xn)
/* re-binds the advanced cursor to the input object when the contract replaces a call (dfcc loses the points-to set otherwise) */
__CPROVER_ensures(__CPROVER_pointer_in_range_dfcc(__CPROVER_old(*xp), *xp, __CPROVER_old(*xp) + __CPROVER_old(*xn)))
__CPROVER_ensures(POST_VREAD_CURSOR(__CPROVER_return_value, *xp, *xn, __CPROVER_old(*xp), __CPROVER_old(*xn), 10))
__CPROVER_ensures(POST_VREAD_OK(__CPROVER_return_value, *xp, *xn, __CPROVER_old(*xp), __CPROVER_old(*xn)))
__CPROVER_ensures(POST_VREAD_FAIL(__CPROVER_return_value, *z, *xp, *xn, __CPROVER_old(*xp), __CPROVER_old(*xn), 10))
__CPROVER_ensures(POST_V64READ_VAL(__CPROVER_return_value, *z, *xn, __CPROVER_old(*xp), __CPROVER_old(*xn)))
;

/* ------------------------------------------------------------------- raw */

int c_zraw_read(const uint8_t **zp, size_t zn, const uint8_t **xp, size_t *xn)
__CPROVER_requires(__CPROVER_w_ok(zp, sizeof(*zp)) && __CPROVER_rw_ok(xp, sizeof(*xp)) && __CPROVER_rw_ok(xn, sizeof(*xn)))
__CPROVER_requires(__CPROVER_r_ok(*xp, *xn))
__CPROVER_assigns(*zp, *xp, *xn)
/* re-binds the advanced cursor to the input object when the contract replaces a call (dfcc loses the points-to set otherwise) */
__CPROVER_ensures(__CPROVER_pointer_in_range_dfcc(__CPROVER_old(*xp), *xp, __CPROVER_old(*xp) + __CPROVER_old(*xn)))
__CPROVER_ensures(__CPROVER_return_value == (__CPROVER_old(*xn) >= zn ? 1 : 0))
/* the returned payload pointer is re-bound to the input object as well */
__CPROVER_ensures(__CPROVER_return_value != 1 || __CPROVER_pointer_in_range_dfcc(__CPROVER_old(*xp), *zp, __CPROVER_old(*xp) + __CPROVER_old(*xn)))
__CPROVER_ensures(__CPROVER_return_value == 1 ==> (*zp == __CPROVER_old(*xp) && *xp == __CPROVER_old(*xp) + zn && *xn == __CPROVER_old(*xn) - zn))
__CPROVER_ensures(__CPROVER_return_value == 0 ==> (*xp == __CPROVER_old(*xp) && *xn == __CPROVER_old(*xn)))
;

#endif /* !VERIF_NATIVE */
#endif
