/* contracts/dbbg.h - carrier of ldb_background_compaction (enforced in db.bgcompact, used by db.bg) and the
 * carriers of its callees as seen from it.  Include after db_impl.c and contracts/dbgc.h. */
#ifndef VERIF_CONTRACTS_DBBG_H
#define VERIF_CONTRACTS_DBBG_H

int g_needs_compaction;          /* model of ldb_versions_needs_compaction (changes when levels change)   */
/* callees of ldb_background_compaction */
unsigned g_cm_calls;             /* ldb_compact_memtable                                                  */
unsigned g_bw_calls; int g_bw_rc; ldb_cstate_t *g_bw_state; ldb_compaction_t *g_bw_comp;   /* ldb_do_compaction_work                   */
unsigned g_cl_calls; ldb_cstate_t *g_cl_state; int g_cl_bgerr; /* ldb_cleanup_compaction                  */

#ifndef DBBG_UNIT_GHOST
#define DBBG_UNIT_GHOST          /* ", g_x, g_y": model state of the unit that ENFORCES the carrier */
#endif
#define DBBG_GHOST g_needs_compaction, g_cm_calls, g_bw_calls, g_bw_rc, g_bw_state, g_bw_comp, g_cl_calls, g_cl_state, g_cl_bgerr

void c_background_compaction(ldb_t *db)
__CPROVER_requires(db == g_db && g_held)
/* caller obligation (E3): no compaction work after a latched error or once shutdown has begun */
__CPROVER_requires(db->bg_error == LDB_OK && *(int *)&db->shutting_down == 0)
__CPROVER_assigns(db->imm, db->has_imm, db->bg_error, db->manual_compaction, DBBG_GHOST, DBGC_GHOST, g_gc_calls, g_gc_allowed, g_unprotected_outputs DBBG_UNIT_GHOST;
                  db->manual_compaction != NULL: __CPROVER_object_whole(db->manual_compaction))
__CPROVER_ensures(g_held && g_locks - __CPROVER_old(g_locks) == g_unlocks - __CPROVER_old(g_unlocks))
/* a manual request is consumed by the call that serves it */
__CPROVER_ensures(__CPROVER_old(db->imm) == NULL ==> db->manual_compaction == NULL)
/* E3: a compaction that failed leaves the error latched */
__CPROVER_ensures((g_bw_calls == __CPROVER_old(g_bw_calls) + 1 && g_bw_rc != LDB_OK) ==> db->bg_error != LDB_OK)
;

/* ldb_compact_memtable as seen from its callers (checked piecewise by db.flush on the real function) */
void c_compact_memtable(ldb_t *db)
__CPROVER_requires(db == g_db && g_held && db->imm != NULL)
__CPROVER_assigns(db->imm, db->has_imm, db->bg_error, g_cm_calls, DBGC_GHOST, g_gc_calls, g_gc_allowed, g_unprotected_outputs)
__CPROVER_ensures(g_cm_calls == __CPROVER_old(g_cm_calls) + 1)
__CPROVER_ensures(g_held && g_locks - __CPROVER_old(g_locks) == g_unlocks - __CPROVER_old(g_unlocks))
;

/* ldb_do_compaction_work as seen from ldb_background_compaction (dbc.drop checks on the real function: the result is OK only if
 * the compaction's edit was applied OK; outputs stay in pending_outputs throughout; it may flush an immutable memtable on the way) */
int c_do_compaction_work(ldb_t *db, ldb_cstate_t *state)
__CPROVER_requires(db == g_db && g_held && state != NULL)
/* a fresh state: no outputs, no open builder or file */
__CPROVER_requires(state->compaction != NULL && state->builder == NULL && state->outfile == NULL && state->outputs.length == 0 && state->total_bytes == 0)
__CPROVER_assigns(db->imm, db->has_imm, db->bg_error, g_bw_calls, g_bw_rc, g_bw_state, g_bw_comp, DBGC_GHOST, g_gc_calls, g_gc_allowed)
__CPROVER_ensures(g_bw_calls == __CPROVER_old(g_bw_calls) + 1 && g_bw_state == state && g_bw_comp == __CPROVER_old(state->compaction) && __CPROVER_return_value == g_bw_rc)
__CPROVER_ensures(g_held && g_locks - __CPROVER_old(g_locks) == g_unlocks - __CPROVER_old(g_unlocks))
__CPROVER_ensures(__CPROVER_return_value == LDB_OK ==> g_gc_allowed == 1)
__CPROVER_ensures(g_unprotected_outputs == __CPROVER_old(g_unprotected_outputs))
;

/* ldb_cleanup_compaction (dbc.cleanup): releases the outputs' pending_outputs entries - after it, a failed compaction's
 * outputs are garbage, a successful one's are named by the installed version */
void c_cleanup_compaction(ldb_t *db, ldb_cstate_t *state)
__CPROVER_requires(db == g_db && g_held && state != NULL)
__CPROVER_assigns(g_cl_calls, g_cl_state, g_cl_bgerr)
__CPROVER_ensures(g_cl_calls == __CPROVER_old(g_cl_calls) + 1 && g_cl_state == state && g_cl_bgerr == db->bg_error)
;
#endif
