/* contracts/vframe.h - ENFORCED frame contracts on the helpers of ldb_versions_apply / ldb_versions_recover
 * (src/version_set.c).  Properties served: C17, C02, C05, C12 (through ver.apply / ver.recover).
 *
 * ver.apply and ver.recover replace these helpers by carriers that say "touches only the builder / the new version".
 * The carriers here put that claim on the REAL functions: the assigns clause names exactly what the function may change,
 * dfcc checks every write of the real function (and of everything it calls) against it.  The ensures clauses restate what the
 * MANIFEST protocol proofs rely on: the descriptor log / file and the five counters of the version set are untouched and no
 * environment call is made (vf_env_calls is bumped by every environment model of units/vframe.c).
 *
 * Include after "version_set.c" (builder_t is a type of that file).
 */
#ifndef LCDB_VERIF_VFRAME_H
#define LCDB_VERIF_VFRAME_H

/* ghost: number of environment calls (file system, MANIFEST writer) made so far */
extern unsigned vf_env_calls;

/* the part of the version set that the MANIFEST protocol is about */
#define VF_KEEPS(vs) \
  ((vs)->descriptor_log == __CPROVER_old((vs)->descriptor_log) && (vs)->descriptor_file == __CPROVER_old((vs)->descriptor_file) && \
   (vs)->log_number == __CPROVER_old((vs)->log_number) && (vs)->prev_log_number == __CPROVER_old((vs)->prev_log_number) && \
   (vs)->next_file_number == __CPROVER_old((vs)->next_file_number) && (vs)->manifest_file_number == __CPROVER_old((vs)->manifest_file_number) && \
   (vs)->last_sequence == __CPROVER_old((vs)->last_sequence) && vf_env_calls == __CPROVER_old(vf_env_calls))
/* the same with explicitly saved values (harness CHECKs) */
typedef struct vf_snap_s {
  ldb_writer_t *dlog; ldb_wfile_t *dfile; uint64_t log, prev, next, mfn, seq; unsigned env; ldb_version_t *current;
} vf_snap_t;
#define VF_TAKE(s, vs) ((s).dlog = (vs)->descriptor_log, (s).dfile = (vs)->descriptor_file, (s).log = (vs)->log_number, (s).prev = (vs)->prev_log_number, \
                        (s).next = (vs)->next_file_number, (s).mfn = (vs)->manifest_file_number, (s).seq = (vs)->last_sequence, (s).env = vf_env_calls, \
                        (s).current = (vs)->current)
#define VF_KEPT(s, vs) ((vs)->descriptor_log == (s).dlog && (vs)->descriptor_file == (s).dfile && (vs)->log_number == (s).log && (vs)->prev_log_number == (s).prev && \
                        (vs)->next_file_number == (s).next && (vs)->manifest_file_number == (s).mfn && (vs)->last_sequence == (s).seq && vf_env_calls == (s).env)

/* a file list of at most VF_MAXF entries, every entry a readable file */
#define VF_MAXF 2
#define VF_ITEM_R(l, i) ((size_t)(i) >= (l)->length || __CPROVER_r_ok((const ldb_filemeta_t *)(l)->items[i], sizeof(ldb_filemeta_t)))
#define VF_LIST_R(l) ((l)->length <= VF_MAXF && ((l)->length == 0 || __CPROVER_r_ok((l)->items, VF_MAXF * sizeof(void *))) && VF_ITEM_R(l, 0) && VF_ITEM_R(l, 1))

/* ---- ldb_versions_finalize: writes the two score fields of the version it is given, nothing else ---- */
void c_versions_finalize_f(ldb_versions_t *vset, ldb_version_t *v)
__CPROVER_requires(__CPROVER_r_ok(vset, sizeof(*vset)) && __CPROVER_rw_ok(v, sizeof(*v)))
__CPROVER_requires(VF_LIST_R(&v->files[1]) && VF_LIST_R(&v->files[2]) && VF_LIST_R(&v->files[3]) && VF_LIST_R(&v->files[4]) && VF_LIST_R(&v->files[5]))
__CPROVER_assigns(v->compaction_level, v->compaction_score)
__CPROVER_ensures(VF_KEEPS(vset))
__CPROVER_ensures(vset->current == __CPROVER_old(vset->current))
/* some level below the last one is always chosen (level 0 scores >= 0 > -1) */
__CPROVER_ensures(v->compaction_level >= 0 && v->compaction_level < LDB_NUM_LEVELS - 1 && v->compaction_score >= 0)
;

/* ghost: clones made by the ldb_filemeta_clone model; the comparator of the harness */
extern unsigned vf_clones;
int vf_compare(const ldb_comparator_t *c, const ldb_slice_t *x, const ldb_slice_t *y);

/* ghost: the version set a function WITHOUT a version-set parameter works for (set by the harness) */
extern ldb_versions_t *vf_vs;

/* ---- frame model of util/rbt.c (units/vframe.c): tree->root points at a vf_set the harness built; the functions under contract
 * only read it (iteration, clear's destructor calls); mutators rewrite root / size of the tree they are handed ---- */
#define VF_SETCAP 2
struct vf_set { size_t n; rb_node_t node[VF_SETCAP + 1]; };
#define VF_SETOF(tree) ((struct vf_set *)(tree)->root)
#define VF_ELEM(tree, i) ((ldb_filemeta_t *)VF_SETOF(tree)->node[i].key.ptr)
#define VF_EMPTY_SET(t) ((t)->size == 0)
#define VF_LEVEL_INIT(b, l, vs) (VF_EMPTY_SET(&(b)->levels[l].deleted_files) && VF_EMPTY_SET(&(b)->levels[l].added_files) && \
                                 (b)->levels[l].added_files.compare == file_set_compare && (b)->levels[l].added_files.arg == (void *)&(vs)->icmp)

/* ---- builder_init: writes the builder, takes one reference on the base version ---- */
void c_builder_init_f(builder_t *b, ldb_versions_t *vset, ldb_version_t *base)
__CPROVER_requires(__CPROVER_w_ok(b, sizeof(*b)) && __CPROVER_r_ok(vset, sizeof(*vset)) && __CPROVER_rw_ok(base, sizeof(*base)))
__CPROVER_requires(base->refs >= 0 && base->refs < 2147483647)
__CPROVER_assigns(*b, base->refs)
__CPROVER_ensures(VF_KEEPS(vset))
__CPROVER_ensures(vset->current == __CPROVER_old(vset->current))
__CPROVER_ensures(b->vset == vset && b->base == base && base->refs == __CPROVER_old(base->refs) + 1)
__CPROVER_ensures(VF_LEVEL_INIT(b, 0, vset) && VF_LEVEL_INIT(b, 1, vset) && VF_LEVEL_INIT(b, 2, vset) && VF_LEVEL_INIT(b, 3, vset) &&
                  VF_LEVEL_INIT(b, 4, vset) && VF_LEVEL_INIT(b, 5, vset) && VF_LEVEL_INIT(b, 6, vset))
;

/* ---- builder_clear: writes the builder, drops the builder's reference on the base version (which the version set still
 * references: base is vset->current at both call sites) and one reference per file in the added sets ---- */
#define VF_ADDED_OK(b, l) (VF_SETOF(&(b)->levels[l].added_files)->n <= VF_SETCAP && \
                           __CPROVER_rw_ok(VF_ELEM(&(b)->levels[l].added_files, 0), sizeof(ldb_filemeta_t)) && \
                           __CPROVER_rw_ok(VF_ELEM(&(b)->levels[l].added_files, 1), sizeof(ldb_filemeta_t)) && \
                           VF_ELEM(&(b)->levels[l].added_files, 0) != VF_ELEM(&(b)->levels[l].added_files, 1) && \
                           VF_ELEM(&(b)->levels[l].added_files, 0)->refs >= 1 && VF_ELEM(&(b)->levels[l].added_files, 1)->refs >= 1)
#define VF_ADDED_N(b, l) (VF_SETOF(&(b)->levels[l].added_files)->n)
#define VF_NOADDED(b, l) (VF_SETOF(&(b)->levels[l].added_files)->n == 0)
#define VF_UNREFFED(b, l, i) (__CPROVER_old(VF_ELEM(&(b)->levels[l].added_files, i))->refs == \
                              __CPROVER_old(VF_ELEM(&(b)->levels[l].added_files, i)->refs) - ((size_t)(i) < __CPROVER_old(VF_ADDED_N(b, l)) ? 1 : 0))
void c_builder_clear_f(builder_t *b)
__CPROVER_requires(__CPROVER_rw_ok(b, sizeof(*b)) && __CPROVER_rw_ok(b->base, sizeof(*b->base)) && b->vset == vf_vs && __CPROVER_r_ok(vf_vs, sizeof(*vf_vs)))
/* the version set holds its own reference on the base version */
__CPROVER_requires(b->base->refs >= 2)
__CPROVER_requires(VF_ADDED_OK(b, 0) && VF_ADDED_OK(b, 1) && VF_NOADDED(b, 2) && VF_NOADDED(b, 3) && VF_NOADDED(b, 4) && VF_NOADDED(b, 5) && VF_NOADDED(b, 6))
__CPROVER_assigns(*b, b->base->refs)
__CPROVER_assigns(VF_ELEM(&b->levels[0].added_files, 0)->refs, VF_ELEM(&b->levels[0].added_files, 1)->refs,
                  VF_ELEM(&b->levels[1].added_files, 0)->refs, VF_ELEM(&b->levels[1].added_files, 1)->refs)
__CPROVER_ensures(VF_KEEPS(vf_vs))
__CPROVER_ensures(vf_vs->current == __CPROVER_old(vf_vs->current))
__CPROVER_ensures(b->base == __CPROVER_old(b->base) && b->base->refs == __CPROVER_old(b->base->refs) - 1)
/* every file of an added set loses exactly the set's reference */
__CPROVER_ensures(VF_UNREFFED(b, 0, 0) && VF_UNREFFED(b, 0, 1) && VF_UNREFFED(b, 1, 0) && VF_UNREFFED(b, 1, 1))
;

/* ---- ldb_version_create: allocates; changes nothing that exists ---- */
#define VF_LIST_EMPTY(v, l) ((v)->files[l].length == 0 && (v)->files[l].items == NULL && (v)->files[l].alloc == 0)
ldb_version_t *c_version_create_f(ldb_versions_t *vset)
__CPROVER_requires(__CPROVER_r_ok(vset, sizeof(*vset)))
__CPROVER_assigns()
__CPROVER_ensures(__CPROVER_is_fresh(__CPROVER_return_value, sizeof(ldb_version_t)))
__CPROVER_ensures(VF_KEEPS(vset))
__CPROVER_ensures(vset->current == __CPROVER_old(vset->current))
/* a fresh version belongs to the version set, is linked to itself only, unreferenced, without compaction candidates, empty */
__CPROVER_ensures(__CPROVER_return_value->vset == vset && __CPROVER_return_value->next == __CPROVER_return_value &&
                  __CPROVER_return_value->prev == __CPROVER_return_value && __CPROVER_return_value->refs == 0)
__CPROVER_ensures(__CPROVER_return_value->file_to_compact == NULL && __CPROVER_return_value->file_to_compact_level == -1 &&
                  __CPROVER_return_value->compaction_score == -1 && __CPROVER_return_value->compaction_level == -1)
__CPROVER_ensures(VF_LIST_EMPTY(__CPROVER_return_value, 0) && VF_LIST_EMPTY(__CPROVER_return_value, 1) && VF_LIST_EMPTY(__CPROVER_return_value, 2) &&
                  VF_LIST_EMPTY(__CPROVER_return_value, 3) && VF_LIST_EMPTY(__CPROVER_return_value, 4) && VF_LIST_EMPTY(__CPROVER_return_value, 5) &&
                  VF_LIST_EMPTY(__CPROVER_return_value, 6))
;

/* ---- ldb_version_destroy: the version object (freed), the links of its two list neighbours, one reference per listed file ---- */
#define VF_FILE(v, l, i) ((ldb_filemeta_t *)(v)->files[l].items[i])
/* a list the version owns: <= VF_MAXF files in a heap array of VF_MAXF slots; both slots hold a file (a slot beyond length is never looked at) */
#define VF_OWNLIST(v, l) ((v)->files[l].length <= VF_MAXF && (v)->files[l].alloc == VF_MAXF && __CPROVER_rw_ok((v)->files[l].items, VF_MAXF * sizeof(void *)) && \
                          __CPROVER_rw_ok(VF_FILE(v, l, 0), sizeof(ldb_filemeta_t)) && __CPROVER_rw_ok(VF_FILE(v, l, 1), sizeof(ldb_filemeta_t)) && \
                          VF_FILE(v, l, 0)->refs >= 1 && VF_FILE(v, l, 1)->refs >= 1)
#define VF_NOLIST(v, l) ((v)->files[l].length == 0 && (v)->files[l].alloc == 0)
#define VF_4DISTINCT(a, b, c, d) ((a) != (b) && (a) != (c) && (a) != (d) && (b) != (c) && (b) != (d) && (c) != (d))
/* levels 0 and 1 hold files, the others are empty */
#define VF_VERSION_OK(v) (VF_OWNLIST(v, 0) && VF_OWNLIST(v, 1) && VF_NOLIST(v, 2) && VF_NOLIST(v, 3) && VF_NOLIST(v, 4) && VF_NOLIST(v, 5) && VF_NOLIST(v, 6) && \
                          VF_4DISTINCT(VF_FILE(v, 0, 0), VF_FILE(v, 0, 1), VF_FILE(v, 1, 0), VF_FILE(v, 1, 1)))
#define VF_FILE_RELEASED(v, l, i) (((ldb_filemeta_t *)__CPROVER_old((v)->files[l].items[i]))->refs == \
                                   __CPROVER_old(VF_FILE(v, l, i)->refs) - ((size_t)(i) < __CPROVER_old((v)->files[l].length) ? 1 : 0))
void c_version_destroy_f(ldb_version_t *ver)
__CPROVER_requires(__CPROVER_rw_ok(ver, sizeof(*ver)) && __CPROVER_r_ok(vf_vs, sizeof(*vf_vs)) && ver->vset == vf_vs && ver != &vf_vs->dummy_versions)
__CPROVER_requires(__CPROVER_rw_ok(ver->prev, sizeof(*ver)) && __CPROVER_rw_ok(ver->next, sizeof(*ver)))
__CPROVER_requires(VF_VERSION_OK(ver))
__CPROVER_assigns(__CPROVER_object_whole(ver), ver->prev->next, ver->next->prev)
__CPROVER_assigns(VF_FILE(ver, 0, 0)->refs, VF_FILE(ver, 0, 1)->refs, VF_FILE(ver, 1, 0)->refs, VF_FILE(ver, 1, 1)->refs)
__CPROVER_frees(ver, ver->files[0].items, ver->files[1].items)
__CPROVER_ensures(VF_KEEPS(vf_vs))
__CPROVER_ensures(vf_vs->current == __CPROVER_old(vf_vs->current))
/* unlinked: the former neighbours point at each other (an unlinked version is its own neighbour) */
__CPROVER_ensures(__CPROVER_old(ver->prev) == ver || __CPROVER_old(ver->next) == ver ||
                  (__CPROVER_old(ver->prev)->next == __CPROVER_old(ver->next) && __CPROVER_old(ver->next)->prev == __CPROVER_old(ver->prev)))
__CPROVER_ensures(VF_FILE_RELEASED(ver, 0, 0) && VF_FILE_RELEASED(ver, 0, 1) && VF_FILE_RELEASED(ver, 1, 0) && VF_FILE_RELEASED(ver, 1, 1))
;

/* ---- ldb_versions_append_version: current pointer, the new version's links and reference, the tail links of the list, the version
 * set's reference on the old current version; if that was the last one the old version is destroyed (frame of c_version_destroy_f) ---- */
#define VF_DUMMY(vs) (&(vs)->dummy_versions)
void c_versions_append_version_f(ldb_versions_t *vset, ldb_version_t *v)
__CPROVER_requires(__CPROVER_rw_ok(vset, sizeof(*vset)) && vset == vf_vs && __CPROVER_rw_ok(v, sizeof(*v)) && v->refs == 0 && v != vset->current && v != VF_DUMMY(vset))
/* the current version is the last member of the list; without one the list is empty (first recovery) */
__CPROVER_requires(vset->current == NULL ? (VF_DUMMY(vset)->prev == VF_DUMMY(vset) && VF_DUMMY(vset)->next == VF_DUMMY(vset))
                   : (VF_DUMMY(vset)->prev == vset->current && __CPROVER_rw_ok(vset->current, sizeof(*v)) && vset->current->refs >= 1 && vset->current->vset == vset &&
                      vset->current->next == VF_DUMMY(vset) && vset->current->prev != v && __CPROVER_rw_ok(vset->current->prev, sizeof(*v)) && VF_VERSION_OK(vset->current)))
__CPROVER_assigns(vset->current, v->refs, v->prev, v->next, vset->dummy_versions.prev, vset->dummy_versions.prev->next)
__CPROVER_assigns(vset->current != NULL: __CPROVER_object_whole(vset->current), vset->current->prev->next,
                  VF_FILE(vset->current, 0, 0)->refs, VF_FILE(vset->current, 0, 1)->refs, VF_FILE(vset->current, 1, 0)->refs, VF_FILE(vset->current, 1, 1)->refs)
__CPROVER_frees(vset->current != NULL: vset->current, vset->current->files[0].items, vset->current->files[1].items)
__CPROVER_ensures(VF_KEEPS(vset))
/* installed: current, one reference (the version set's), last member of the list */
__CPROVER_ensures(vset->current == v && v->refs == 1 && v->next == VF_DUMMY(vset) && VF_DUMMY(vset)->prev == v && v->prev->next == v)
/* an old current version that somebody else still uses loses the version set's reference and stays linked right before v */
__CPROVER_ensures(__CPROVER_old(vset->current) == NULL || __CPROVER_old(vset->current->refs) < 2 ||
                  (__CPROVER_old(vset->current)->refs == __CPROVER_old(vset->current->refs) - 1 && v->prev == __CPROVER_old(vset->current)))
/* otherwise it is gone and v follows its predecessor */
__CPROVER_ensures(__CPROVER_old(vset->current) == NULL || __CPROVER_old(vset->current->refs) >= 2 || v->prev == __CPROVER_old(vset->current->prev))
;

/* ---- builder_save_to: fills the (empty) file lists of the new version and takes one reference per file it lists; the builder, the
 * base version and the version set are only read ---- */
/* a list somebody else owns: <= VF_MAXF files, both slots of the array hold a file */
#define VF_RLIST(v, l) ((v)->files[l].length <= VF_MAXF && __CPROVER_r_ok((v)->files[l].items, VF_MAXF * sizeof(void *)) && \
                        __CPROVER_rw_ok(VF_FILE(v, l, 0), sizeof(ldb_filemeta_t)) && __CPROVER_rw_ok(VF_FILE(v, l, 1), sizeof(ldb_filemeta_t)) && \
                        VF_FILE(v, l, 0)->refs >= 1 && VF_FILE(v, l, 0)->refs < 1000000 && VF_FILE(v, l, 1)->refs >= 1 && VF_FILE(v, l, 1)->refs < 1000000)
#define VF_NOFILES(v, l) ((v)->files[l].length == 0)
#define VF_ADDED(b, l, i) VF_ELEM(&(b)->levels[l].added_files, i)
#define VF_REF_0OR1(f) ((f)->refs >= __CPROVER_old((f)->refs) && (f)->refs <= __CPROVER_old((f)->refs) + 1)
void c_builder_save_to_f(builder_t *b, ldb_version_t *v)
__CPROVER_requires(__CPROVER_r_ok(b, sizeof(*b)) && b->vset == vf_vs && __CPROVER_r_ok(vf_vs, sizeof(*vf_vs)) && __CPROVER_r_ok(b->base, sizeof(*v)) &&
                   __CPROVER_rw_ok(v, sizeof(*v)) && v != b->base)
/* v is as ldb_version_create left it */
__CPROVER_requires(VF_LIST_EMPTY(v, 0) && VF_LIST_EMPTY(v, 1) && VF_LIST_EMPTY(v, 2) && VF_LIST_EMPTY(v, 3) && VF_LIST_EMPTY(v, 4) && VF_LIST_EMPTY(v, 5) && VF_LIST_EMPTY(v, 6))
__CPROVER_requires(VF_RLIST(b->base, 0) && VF_RLIST(b->base, 1) && VF_NOFILES(b->base, 2) && VF_NOFILES(b->base, 3) && VF_NOFILES(b->base, 4) &&
                   VF_NOFILES(b->base, 5) && VF_NOFILES(b->base, 6))
__CPROVER_requires(VF_ADDED_OK(b, 0) && VF_ADDED_OK(b, 1) && VF_NOADDED(b, 2) && VF_NOADDED(b, 3) && VF_NOADDED(b, 4) && VF_NOADDED(b, 5) && VF_NOADDED(b, 6))
__CPROVER_requires(VF_ADDED(b, 0, 0)->refs < 1000000 && VF_ADDED(b, 0, 1)->refs < 1000000 && VF_ADDED(b, 1, 0)->refs < 1000000 && VF_ADDED(b, 1, 1)->refs < 1000000)
__CPROVER_requires(vf_vs->icmp.compare == vf_compare)
__CPROVER_assigns(v->files[0], v->files[1], v->files[2], v->files[3], v->files[4], v->files[5], v->files[6])
__CPROVER_assigns(VF_FILE(b->base, 0, 0)->refs, VF_FILE(b->base, 0, 1)->refs, VF_FILE(b->base, 1, 0)->refs, VF_FILE(b->base, 1, 1)->refs,
                  VF_ADDED(b, 0, 0)->refs, VF_ADDED(b, 0, 1)->refs, VF_ADDED(b, 1, 0)->refs, VF_ADDED(b, 1, 1)->refs)
__CPROVER_ensures(VF_KEEPS(vf_vs))
__CPROVER_ensures(vf_vs->current == __CPROVER_old(vf_vs->current))
/* nothing is invented, nothing is listed twice: a level holds at most the base files plus the added files of that level */
__CPROVER_ensures(v->files[0].length <= b->base->files[0].length + VF_ADDED_N(b, 0) && v->files[1].length <= b->base->files[1].length + VF_ADDED_N(b, 1))
__CPROVER_ensures(VF_NOFILES(v, 2) && VF_NOFILES(v, 3) && VF_NOFILES(v, 4) && VF_NOFILES(v, 5) && VF_NOFILES(v, 6))
/* every file gains at most the new version's reference */
__CPROVER_ensures(VF_REF_0OR1(VF_FILE(b->base, 0, 0)) && VF_REF_0OR1(VF_FILE(b->base, 0, 1)) && VF_REF_0OR1(VF_FILE(b->base, 1, 0)) && VF_REF_0OR1(VF_FILE(b->base, 1, 1)) &&
                  VF_REF_0OR1(VF_ADDED(b, 0, 0)) && VF_REF_0OR1(VF_ADDED(b, 0, 1)) && VF_REF_0OR1(VF_ADDED(b, 1, 0)) && VF_REF_0OR1(VF_ADDED(b, 1, 1)))
;

/* ---- builder_apply: the builder's sets and the compaction pointers of the version set; the edit is only read ---- */
#define VF_LEVEL_OK(l) ((l) >= 0 && (l) < LDB_NUM_LEVELS)
#define VF_CP(e, i) ((const ikey_entry_t *)(e)->compact_pointers.items[i])
#define VF_NF(e, i) ((const meta_entry_t *)(e)->new_files.items[i])
#define VF_DEL(e, i) ((const file_entry_t *)VF_SETOF(&(e)->deleted_files)->node[i].key.ptr)
/* an edit as ldb_edit_import delivers it (levels below NUM_LEVELS), with <= 1 compaction pointer, <= 2 deleted files, <= 2 new files */
#define VF_EDIT_OK(e) ((e)->compact_pointers.length <= 1 && __CPROVER_r_ok((e)->compact_pointers.items, sizeof(void *)) && __CPROVER_r_ok(VF_CP(e, 0), sizeof(ikey_entry_t)) && \
                       VF_LEVEL_OK(VF_CP(e, 0)->level) && \
                       (e)->new_files.length <= 2 && __CPROVER_r_ok((e)->new_files.items, 2 * sizeof(void *)) && __CPROVER_r_ok(VF_NF(e, 0), sizeof(meta_entry_t)) && \
                       __CPROVER_r_ok(VF_NF(e, 1), sizeof(meta_entry_t)) && VF_LEVEL_OK(VF_NF(e, 0)->level) && VF_LEVEL_OK(VF_NF(e, 1)->level) && \
                       VF_SETOF(&(e)->deleted_files)->n <= VF_SETCAP && __CPROVER_r_ok(VF_DEL(e, 0), sizeof(file_entry_t)) && __CPROVER_r_ok(VF_DEL(e, 1), sizeof(file_entry_t)) && \
                       VF_LEVEL_OK(VF_DEL(e, 0)->level) && VF_LEVEL_OK(VF_DEL(e, 1)->level))
void c_builder_apply_f(builder_t *b, const ldb_edit_t *edit)
__CPROVER_requires(__CPROVER_rw_ok(b, sizeof(*b)) && b->vset == vf_vs && __CPROVER_rw_ok(vf_vs, sizeof(*vf_vs)) && __CPROVER_r_ok(edit, sizeof(*edit)))
__CPROVER_requires(VF_EDIT_OK(edit))
__CPROVER_assigns(*b, __CPROVER_object_upto(b->vset->compact_pointer, sizeof(ldb_buffer_t) * LDB_NUM_LEVELS), vf_clones)
__CPROVER_ensures(VF_KEEPS(vf_vs))
__CPROVER_ensures(vf_vs->current == __CPROVER_old(vf_vs->current))
__CPROVER_ensures(b->vset == __CPROVER_old(b->vset) && b->base == __CPROVER_old(b->base))
/* one set insertion per deleted file, one clone + one removal + one insertion per new file, one buffer copy per compaction pointer */
__CPROVER_ensures(vf_clones == __CPROVER_old(vf_clones) + edit->new_files.length)
;

/* ---- ldb_versions_write_snapshot: builds an edit in locals and appends exactly ONE record to the log it is given ---- */
extern unsigned vf_records; extern ldb_writer_t *vf_record_log; extern int vf_record_rc;
int c_versions_write_snapshot_f(ldb_versions_t *vset, ldb_writer_t *log)
__CPROVER_requires(__CPROVER_r_ok(vset, sizeof(*vset)) && __CPROVER_r_ok(vset->icmp.user_comparator, sizeof(ldb_comparator_t)) && __CPROVER_r_ok(vset->current, sizeof(ldb_version_t)))
__CPROVER_requires(VF_RLIST(vset->current, 0) && VF_RLIST(vset->current, 1) && VF_NOFILES(vset->current, 2) && VF_NOFILES(vset->current, 3) &&
                   VF_NOFILES(vset->current, 4) && VF_NOFILES(vset->current, 5) && VF_NOFILES(vset->current, 6))
__CPROVER_assigns(vf_env_calls, vf_records, vf_record_log, vf_record_rc)
__CPROVER_ensures(vset->descriptor_log == __CPROVER_old(vset->descriptor_log) && vset->descriptor_file == __CPROVER_old(vset->descriptor_file) &&
                  vset->log_number == __CPROVER_old(vset->log_number) && vset->prev_log_number == __CPROVER_old(vset->prev_log_number) &&
                  vset->next_file_number == __CPROVER_old(vset->next_file_number) && vset->manifest_file_number == __CPROVER_old(vset->manifest_file_number) &&
                  vset->last_sequence == __CPROVER_old(vset->last_sequence) && vset->current == __CPROVER_old(vset->current))
/* the only environment call is one append to the log handed in, whose status is returned */
__CPROVER_ensures(vf_env_calls == __CPROVER_old(vf_env_calls) + 1 && vf_records == __CPROVER_old(vf_records) + 1 && vf_record_log == log &&
                  __CPROVER_return_value == vf_record_rc)
;

#endif
